(* Lemmas about Model/Lifecycle.v (property C14). *)
From Coq Require Import Lia.
From Verif.Lib Require Import GoSem.
From Verif.Gen Require Import Goroutines.
From Verif.Model Require Import Lifecycle.
Local Open Scope string_scope.

(* ---- the inventory ------------------------------------------------------------------------------- *)
Lemma inventory_covered_b : forallb site_covered sites = true.
Proof. vm_compute. reflexivity. Qed.

Theorem inventory_covered :
  forall s, In s sites ->
    exists r, site_row s = Some r /\ gs_track s = r_track r /\ gs_guard s = r_guard r /\
      (class_await (r_class r) = AwWaitGroup -> gs_track s <> "untracked") /\
      (class_guarded (r_class r) = true -> gs_guard s <> "") /\
      gs_done s <> DoneSome.
Proof.
  intros s Hs. pose proof inventory_covered_b as H. rewrite forallb_forall in H. specialize (H s Hs).
  unfold site_covered in H. destruct (site_row s) as [r|]; [|discriminate]. exists r. split; [reflexivity|].
  unfold track_ok in H. repeat (apply andb_true_iff in H; destruct H as [H ?]).
  apply String.eqb_eq in H. split; [exact H|]. split; [apply String.eqb_eq; assumption|]. split; [|split].
  - intro A. match goal with X : match class_await (r_class r) with _ => _ end = true |- _ => rewrite A in X; apply negb_true_iff in X; apply String.eqb_neq in X; exact X end.
  - intro A. match goal with X : (if class_guarded (r_class r) then _ else _) = true |- _ => rewrite A in X; apply negb_true_iff in X; apply String.eqb_neq in X; exact X end.
  - intro A. match goal with X : done_ok (gs_done s) = true |- _ => rewrite A in X; discriminate end.
Qed.

(* every class is awaited in one of the accepted ways, and an awaiting parent is itself awaited by Close
   (no chain of parents ends in nothing) *)
Fixpoint root_await (fuel : nat) (g : gclass) : await :=
  match fuel with
  | O => class_await g
  | S f => match class_await g with AwParent p => root_await f p | a => a end
  end.
Definition all_classes : list gclass :=
  [GDhtLoop; GDhtProbe; GDhtCloseHelper; GOp; GRtLoop; GRtRequest; GRtPing; GPmGc; GVsGc; GFrtCrawler; GFrtSubscriber;
   GCrawlWorker; GMsgSender; GProvRun; GProvWorker; GProvInner; GConnProbe; GBufWorker; GProvDualHelper; GKsWorker;
   GRksWorker; GRksWatch].
Lemma all_classes_complete : forall g, In g all_classes.
Proof. destruct g; simpl; tauto. Qed.
Lemma parents_rooted : forall g, match root_await 3 g with AwParent _ => False | _ => True end.
Proof. destruct g; exact I. Qed.

(* ---- the Close protocol --------------------------------------------------------------------------- *)
Definition good (d : desc) : Prop := d_guard d <> GuardNone /\ d_once d <> OnceChanSelect.

(* per-thread clause *)
Definition cl_ok (s : st) (c : cst) : Prop :=
  match c with
  | CWaiting | CSleeping => flag s = true
  | CWoken | CDone | CReturned => flag s = true /\ pre s = 0
  | CEarly | CPanicked => False
  | _ => True
  end.

Definition inv (d : desc) (s : st) : Prop :=
  panicked s = false /\
  post s = 0 /\
  (flag s = true -> ctor_done s = true) /\
  (forall t, closers s t <> CIdle -> ctor_done s = true) /\
  (forall t, cl_ok s (closers s t)) /\
  (once_done s = true -> flag s = true /\ pre s = 0) /\
  (d_once d = OnceSync -> forall t, closers s t = CReturned -> once_done s = true).

Lemma upd_same f t v : upd f t v t = v.
Proof. unfold upd. rewrite Nat.eqb_refl. reflexivity. Qed.
Lemma upd_other f t v x : x <> t -> upd f t v x = f x.
Proof. intro H. unfold upd. apply Nat.eqb_neq in H. rewrite H. reflexivity. Qed.

Lemma inv_init d : inv d init.
Proof.
  unfold inv, init, cl_ok; simpl. repeat split; try reflexivity; try discriminate; try (intros; exact I); try (intros; congruence).
Qed.

(* cl_ok only depends on flag and pre *)
Lemma cl_ok_ext s s' c : flag s' = flag s -> pre s' = pre s -> cl_ok s c -> cl_ok s' c.
Proof. intros F P. unfold cl_ok. rewrite F, P. auto. Qed.

(* changing one closer, everything else equal *)
Lemma inv_set_closer d s t v ot od :
  inv d s -> ctor_done s = true -> cl_ok s v -> (d_once d = OnceSync -> v = CReturned -> od = true) ->
  (od = true -> flag s = true /\ pre s = 0) -> (once_done s = true -> od = true) ->
  inv d {| flag := flag s; ctor_done := ctor_done s; pre := pre s; post := post s; leaked := leaked s; closers := upd (closers s) t v;
           once_taken := ot; once_done := od; panicked := panicked s |}.
Proof.
  intros (P & Q & FC & AC & CL & OD & OS) CD CV NR ODN MON. unfold inv; simpl. repeat split; auto.
  - intro x. destruct (Nat.eq_dec x t) as [->|N]; [rewrite upd_same; exact CV|rewrite upd_other by exact N; apply (CL x)].
  - apply ODN; assumption.
  - apply ODN; assumption.
  - intros OSy x. destruct (Nat.eq_dec x t) as [->|N]; [rewrite upd_same; intro; apply NR; assumption|rewrite upd_other by exact N].
    intro E. apply MON. eapply OS; eauto.
Qed.

Lemma step_inv d s e s' : good d -> inv d s -> step d s e = Some s' -> inv d s'.
Proof.
  intros [G1 G2] I0 H. pose proof I0 as (P & Q & FC & AC & CL & OD & OS).
  destruct e as [| | | | |t|t|t|t|t|t|t]; simpl in H.
  - (* ECtorDone *) injection H as <-. unfold inv; simpl. repeat split; auto; try (apply OD; assumption).
  - (* ESpawn *)
    assert (NF: flag s = false -> inv d {| flag := flag s; ctor_done := ctor_done s; pre := S (pre s); post := post s; leaked := leaked s; closers := closers s;
                        once_taken := once_taken s; once_done := once_done s; panicked := panicked s |}).
    { intro F. unfold inv; simpl. repeat split; auto.
      - intro t. specialize (CL t). unfold cl_ok in *; simpl. destruct (closers s t); simpl in *; try tauto; try (destruct CL; congruence); congruence.
      - apply OD; assumption.
      - exfalso. match goal with X : once_done s = true |- _ => apply OD in X; destruct X; congruence end. }
    destruct (d_guard d) eqn:GD.
    + destruct (flag s) eqn:F; injection H as <-; [exact I0|apply NF; reflexivity].
    + congruence.
    + destruct (ctor_done s) eqn:C; [discriminate|].
      destruct (flag s) eqn:F; [specialize (FC eq_refl); congruence|]. injection H as <-. apply NF. reflexivity.
  - (* EExitPre *) destruct (pre s) as [|n] eqn:E; [discriminate|]. destruct (Nat.leb (S n) (leaked s)); [discriminate|]. injection H as <-. unfold inv; simpl. repeat split; auto.
    + intro t. specialize (CL t). unfold cl_ok in *; simpl. destruct (closers s t); simpl in *; try tauto; destruct CL; congruence.
    + apply OD; assumption.
    + exfalso. match goal with X : once_done s = true |- _ => apply OD in X; destruct X; discriminate end.
  - (* EExitPost *) rewrite Q in H. discriminate.
  - (* EExitLeak *) destruct (negb (d_done_all d) && Nat.ltb (leaked s) (pre s)); [|discriminate]. injection H as <-.
    unfold inv; simpl. repeat split; auto; try (apply OD; assumption).
  - (* ECloseEnter *)
    destruct (negb (ctor_done s)) eqn:C'; [discriminate|]. apply negb_false_iff in C'. pose proof C' as C.
    assert (H': match d_once d with
                | OnceSync => if once_taken s then Some (set_closer s t COnceBlocked)
                              else Some {| flag := flag s; ctor_done := ctor_done s; pre := pre s; post := post s; leaked := leaked s; closers := upd (closers s) t CEntered;
                                           once_taken := true; once_done := once_done s; panicked := panicked s |}
                | OnceChanSelect => if flag s then Some (set_closer s t CEarly) else Some (set_closer s t CEntered)
                | OnceNone => Some (set_closer s t CEntered)
                end = Some s') by (destruct (closers s t); try discriminate; exact H).
    clear H. destruct (d_once d) eqn:O; [|congruence|].
    + destruct (once_taken s); injection H' as <-; unfold set_closer;
        apply inv_set_closer; auto; try exact I; intros; discriminate.
    + injection H' as <-. unfold set_closer. apply inv_set_closer; auto; try exact I; intros; discriminate.
  - (* ECloseSet *)
    destruct (closers s t) eqn:CT; try discriminate.
    assert (B: match d_once d with OnceChanSelect => flag s | _ => false end = false) by (destruct (d_once d); try reflexivity; congruence).
    rewrite B in H. rewrite orb_false_r in H. injection H as <-.
    assert (CD: ctor_done s = true) by (apply (AC t); rewrite CT; discriminate).
    unfold inv; simpl. repeat split; auto.
    + intro x. destruct (Nat.eq_dec x t) as [->|N]; [rewrite upd_same; reflexivity|rewrite upd_other by exact N].
      specialize (CL x). unfold cl_ok in *; simpl. destruct (closers s x); simpl in *; tauto.
    + apply OD; assumption.
    + intros OSy x. destruct (Nat.eq_dec x t) as [->|N]; [rewrite upd_same; discriminate|rewrite upd_other by exact N; apply OS; assumption].
  - (* EWaitFast *)
    destruct (closers s t) eqn:CT; try discriminate. destruct (Nat.eqb (pre s + post s) 0) eqn:Z; [|discriminate].
    injection H as <-. apply Nat.eqb_eq in Z. pose proof (CL t) as F; rewrite CT in F. simpl in F.
    assert (CD: ctor_done s = true) by (apply FC; exact F).
    unfold set_closer. apply inv_set_closer; auto; [split; [exact F|lia]|intros; discriminate].
  - (* ESleep *)
    destruct (closers s t) eqn:CT; try discriminate. destruct (Nat.eqb (pre s + post s) 0); [discriminate|].
    injection H as <-. pose proof (CL t) as F; rewrite CT in F. simpl in F.
    assert (CD: ctor_done s = true) by (apply FC; exact F).
    unfold set_closer. apply inv_set_closer; auto; intros; discriminate.
  - (* EWake *)
    destruct (closers s t) eqn:CT; try discriminate. destruct (Nat.eqb (pre s + post s) 0) eqn:Z; [|discriminate].
    injection H as <-. apply Nat.eqb_eq in Z. pose proof (CL t) as F; rewrite CT in F. simpl in F.
    assert (CD: ctor_done s = true) by (apply FC; exact F).
    unfold set_closer. apply inv_set_closer; auto; [split; [exact F|lia]|intros; discriminate].
  - (* EResume *)
    destruct (closers s t) eqn:CT; try discriminate. pose proof (CL t) as F; rewrite CT in F. simpl in F. destruct F as [F1 F2].
    assert (B: match d_wait d with WaitWG => negb (Nat.eqb (pre s + post s) 0) | WaitChan => false end = false).
    { destruct (d_wait d); [|reflexivity]. rewrite F2, Q. reflexivity. }
    rewrite B in H. rewrite orb_false_r in H. injection H as <-.
    assert (CD: ctor_done s = true) by (apply FC; exact F1).
    apply inv_set_closer; auto; [split; assumption|intros; discriminate].
  - (* ECloseRet *)
    destruct (closers s t) eqn:CT; try discriminate.
    + (* CDone *) pose proof (CL t) as F; rewrite CT in F. simpl in F. destruct F as [F1 F2]. injection H as <-.
      assert (CD: ctor_done s = true) by (apply FC; exact F1).
      apply inv_set_closer; auto.
      * split; assumption.
      * intros OSy _. rewrite OSy. reflexivity.
      * destruct (d_once d); auto.
    + (* COnceBlocked *) destruct (once_done s) eqn:D; [|discriminate]. injection H as <-. destruct (OD eq_refl) as [F1 F2].
      assert (CD: ctor_done s = true) by (apply FC; exact F1).
      unfold set_closer. apply inv_set_closer; auto. split; assumption.
    + (* CEarly *) pose proof (CL t) as F; rewrite CT in F. contradiction.
Qed.

Lemma run_inv d evs : forall s s', good d -> inv d s -> run d s evs = Some s' -> inv d s'.
Proof.
  induction evs as [|e evs IH]; intros s s' G I H; simpl in H; [inversion H; subst; exact I|].
  destruct (step d s e) as [s1|] eqn:E; [|discriminate]. eapply IH; [exact G|eapply step_inv; eauto|exact H].
Qed.

(* Close returns only when nothing registered is alive (and nothing can be registered afterwards) *)
Theorem close_waits d evs s t :
  good d -> run d init evs = Some s -> closers s t = CReturned -> pre s = 0 /\ post s = 0.
Proof.
  intros G H C. destruct (run_inv d evs init s G (inv_init d) H) as (_ & Q & _ & _ & CL & _). specialize (CL t). rewrite C in CL. simpl in CL. tauto.
Qed.

Theorem no_panic d evs s : good d -> run d init evs = Some s -> panicked s = false /\ forall t, closers s t <> CPanicked.
Proof.
  intros G H. destruct (run_inv d evs init s G (inv_init d) H) as (P & _ & _ & _ & CL & _). split; [exact P|].
  intros t E. specialize (CL t). rewrite E in CL. exact CL.
Qed.

(* a further Close — by a thread that is not inside Close, once some Close has returned — returns, without panic *)
Theorem close_again d evs s t0 t :
  good d -> run d init evs = Some s -> closers s t0 = CReturned ->
  (closers s t = CIdle \/ closers s t = CReturned) ->
  exists evs' s', run d s evs' = Some s' /\ closers s' t = CReturned /\ panicked s' = false /\ pre s' = 0 /\ post s' = 0.
Proof.
  intros G H C0 CT. pose proof (run_inv d evs init s G (inv_init d) H) as I.
  destruct I as (P & Q & FC & AC & CL & OD & OS). pose proof (CL t0) as F; rewrite C0 in F. simpl in F. destruct F as [F1 F2].
  assert (CD: ctor_done s = true) by (apply FC; exact F1).
  destruct G as [G1 G2]. destruct (d_once d) eqn:O; [|congruence|].
  - (* OnceSync *)
    assert (D: once_done s = true) by (apply (OS eq_refl t0 C0)).
    destruct (once_taken s) eqn:TK.
    + exists [ECloseEnter t; ECloseRet t]. eexists. split.
      * simpl. destruct CT as [E|E]; repeat (rewrite ?CD, ?E, ?O, ?TK, ?upd_same, ?D; simpl); reflexivity.
      * simpl. rewrite upd_same. auto.
    + exists [ECloseEnter t; ECloseSet t; EWaitFast t; ECloseRet t]. eexists. split.
      * simpl. destruct CT as [E|E]; repeat (rewrite ?CD, ?E, ?O, ?TK, ?upd_same, ?F2, ?Q; simpl); reflexivity.
      * simpl. rewrite upd_same. rewrite P. auto.
  - (* OnceNone *)
    exists [ECloseEnter t; ECloseSet t; EWaitFast t; ECloseRet t]. eexists. split.
    + simpl. destruct CT as [E|E]; repeat (rewrite ?CD, ?E, ?O, ?upd_same, ?F2, ?Q; simpl); reflexivity.
    + simpl. rewrite upd_same. rewrite P. auto.
Qed.

(* a caller blocked in sync.Once returns as soon as the first caller has *)
Theorem once_blocked_returns d evs s t :
  run d init evs = Some s -> closers s t = COnceBlocked -> once_done s = true ->
  exists s', step d s (ECloseRet t) = Some s' /\ closers s' t = CReturned /\ panicked s' = panicked s.
Proof.
  intros _ C D. simpl. rewrite C, D. eexists. split; [reflexivity|]. simpl. rewrite upd_same. auto.
Qed.

(* ---- no registration after the closing flag --------------------------------------------------------- *)
Theorem spawn_rejected_after_flag d s :
  d_guard d = GuardLockFlag -> flag s = true -> step d s ESpawn = Some s.
Proof. intros G F. simpl. rewrite G, F. reflexivity. Qed.

Theorem spawn_impossible_after_ctor d s :
  d_guard d = GuardCtor -> ctor_done s = true -> step d s ESpawn = None.
Proof. intros G F. simpl. rewrite G, F. reflexivity. Qed.

Lemma step_flag_mono d s e s' : step d s e = Some s' -> flag s = true -> flag s' = true.
Proof.
  intros H F. destruct e; simpl in H;
    repeat match type of H with
           | context [match ?x with _ => _ end] => destruct x eqn:?; try discriminate
           end; inversion H; subst; simpl; auto.
Qed.

Lemma step_reg_noninc d s e s' :
  d_guard d = GuardLockFlag -> flag s = true -> step d s e = Some s' -> pre s' + post s' <= pre s + post s.
Proof.
  intros G F H. destruct e; simpl in H; try rewrite G in H; try rewrite F in H;
    repeat match type of H with
           | context [match ?x with _ => _ end] => destruct x eqn:?; try discriminate
           end; inversion H; subst; simpl; lia.
Qed.

Theorem no_add_after_close d evs : forall s s',
  d_guard d = GuardLockFlag -> flag s = true -> run d s evs = Some s' ->
  flag s' = true /\ pre s' + post s' <= pre s + post s.
Proof.
  induction evs as [|e evs IH]; intros s s' G F H; simpl in H; [inversion H; subst; split; [exact F|lia]|].
  destruct (step d s e) as [s1|] eqn:E; [|discriminate].
  pose proof (step_flag_mono d s e s1 E F) as F1. pose proof (step_reg_noninc d s e s1 G F E) as L.
  destruct (IH s1 s' G F1 H) as [A B]. split; [exact A|lia].
Qed.

(* ---- what was false of the select-guarded Close and of unguarded registration ---------------------------- *)
(* the protocols in use before the repairs: what was false of them *)
Definition d_keystore := desc_keystore_select.
Definition d_rtrefresh := desc_rtrefresh_unguarded.

(* keystore: a second Close that comes while the first is still waiting for the worker returns at once *)
Definition ks_early_trace : list ev :=
  [ESpawn; ECtorDone; ECloseEnter 0; ECloseSet 0; ESleep 0; ECloseEnter 1; ECloseRet 1].
Lemma ks_early : exists s, run d_keystore init ks_early_trace = Some s /\ closers s 1 = CReturned /\ pre s = 1.
Proof. eexists. split; [vm_compute; reflexivity|]. split; reflexivity. Qed.

(* keystore: two callers that both pass the select before either closes the channel: close of a closed channel *)
Definition ks_double_trace : list ev := [ESpawn; ECtorDone; ECloseEnter 0; ECloseEnter 1; ECloseSet 0; ECloseSet 1].
Lemma ks_double : exists s, run d_keystore init ks_double_trace = Some s /\ panicked s = true.
Proof. eexists. split; [vm_compute; reflexivity|]. reflexivity. Qed.

(* refresh manager: a Refresh registered between the wake-up and the resumption of Close's Wait: WaitGroup panic *)
Definition rt_panic_trace : list ev :=
  [ESpawn; ECtorDone; ECloseEnter 0; ECloseSet 0; ESleep 0; EExitPre; EWake 0; ESpawn; EResume 0].
Lemma rt_panic : exists s, run d_rtrefresh init rt_panic_trace = Some s /\ panicked s = true /\ closers s 0 = CPanicked.
Proof. eexists. split; [vm_compute; reflexivity|]. split; reflexivity. Qed.

(* refresh manager / value store: a goroutine registered after the flag is alive when Close returns *)
Definition rt_post_trace : list ev :=
  [ESpawn; ECtorDone; ECloseEnter 0; ECloseSet 0; ESleep 0; EExitPre; EWake 0; EResume 0; ESpawn; ECloseRet 0].
Lemma rt_post : exists s, run d_rtrefresh init rt_post_trace = Some s /\ closers s 0 = CReturned /\ post s = 1.
Proof. eexists. split; [vm_compute; reflexivity|]. split; reflexivity. Qed.

(* what does hold without a guard: everything registered before the flag is gone when the body's wait is over *)
Definition cl2 (s : st) (c : cst) : Prop :=
  match c with
  | CWaiting | CSleeping => flag s = true
  | CWoken | CDone => flag s = true /\ pre s = 0
  | _ => True
  end.
Definition inv2 (s : st) : Prop := forall t, cl2 s (closers s t).

Lemma cl2_ext s s' c : flag s' = flag s -> pre s' = pre s -> cl2 s c -> cl2 s' c.
Proof. intros F P. unfold cl2. rewrite F, P. auto. Qed.

Lemma inv2_set s t v ot od pn po cd :
  inv2 s -> cl2 s v ->
  inv2 {| flag := flag s; ctor_done := cd; pre := pre s; post := po; leaked := leaked s; closers := upd (closers s) t v;
          once_taken := ot; once_done := od; panicked := pn |}.
Proof.
  intros I CV x. simpl. destruct (Nat.eq_dec x t) as [->|N]; [rewrite upd_same|rewrite upd_other by exact N].
  - eapply cl2_ext; [| |exact CV]; reflexivity.
  - eapply cl2_ext; [| |apply (I x)]; reflexivity.
Qed.

Lemma inv2_same_closers s s' :
  inv2 s -> closers s' = closers s -> flag s' = flag s -> pre s' = pre s -> inv2 s'.
Proof. intros I C F P x. rewrite C. eapply cl2_ext; eauto. Qed.

Lemma step_inv2 d s e s' : inv2 s -> step d s e = Some s' -> inv2 s'.
Proof.
  intros I H.
  destruct e as [| | | | |t|t|t|t|t|t|t]; simpl in H.
  - injection H as <-. eapply inv2_same_closers; eauto.
  - assert (NF: flag s = false -> inv2 {| flag := flag s; ctor_done := ctor_done s; pre := S (pre s); post := post s; leaked := leaked s; closers := closers s;
                        once_taken := once_taken s; once_done := once_done s; panicked := panicked s |}).
    { intros F x. simpl. specialize (I x). unfold cl2 in *; simpl. destruct (closers s x); simpl in *; try tauto; try (destruct I; congruence); congruence. }
    destruct (d_guard d).
    + destruct (flag s) eqn:F; injection H as <-; [exact I|apply NF; reflexivity].
    + destruct (flag s) eqn:F; injection H as <-; [eapply inv2_same_closers; eauto|apply NF; reflexivity].
    + destruct (ctor_done s); [discriminate|]. destruct (flag s) eqn:F; injection H as <-; [eapply inv2_same_closers; eauto|apply NF; reflexivity].
  - destruct (pre s) as [|n] eqn:E; [discriminate|]. destruct (Nat.leb (S n) (leaked s)); [discriminate|]. injection H as <-. intro x. simpl. specialize (I x). unfold cl2 in *; simpl.
    destruct (closers s x); simpl in *; try tauto; destruct I; congruence.
  - destruct (post s); [discriminate|]. injection H as <-. eapply inv2_same_closers; eauto.
  - destruct (negb (d_done_all d) && Nat.ltb (leaked s) (pre s)); [|discriminate]. injection H as <-. eapply inv2_same_closers; eauto.
  - destruct (negb (ctor_done s)); [discriminate|].
    assert (X: exists v ot, (v = CEntered \/ v = COnceBlocked \/ v = CEarly) /\
               s' = {| flag := flag s; ctor_done := ctor_done s; pre := pre s; post := post s; leaked := leaked s; closers := upd (closers s) t v;
                       once_taken := ot; once_done := once_done s; panicked := panicked s |}).
    { unfold set_closer in H. destruct (closers s t); try discriminate; destruct (d_once d); try destruct (once_taken s); try destruct (flag s);
        injection H as <-; eauto 10. }
    destruct X as (v & ot & Hv & ->). apply inv2_set; [exact I|]. destruct Hv as [->|[->| ->]]; exact Logic.I.
  - destruct (closers s t) eqn:CT; try discriminate. injection H as <-. intro x. simpl.
    destruct (Nat.eq_dec x t) as [->|N]; [rewrite upd_same|rewrite upd_other by exact N].
    + destruct (match d_once d with OnceChanSelect => flag s | _ => false end); simpl; auto.
    + specialize (I x). unfold cl2 in *; simpl. destruct (closers s x); simpl in *; tauto.
  - destruct (closers s t) eqn:CT; try discriminate. destruct (Nat.eqb (pre s + post s) 0) eqn:Z; [|discriminate].
    injection H as <-. apply Nat.eqb_eq in Z. pose proof (I t) as F. rewrite CT in F. simpl in F.
    unfold set_closer. apply inv2_set; [exact I|]. split; [exact F|lia].
  - destruct (closers s t) eqn:CT; try discriminate. destruct (Nat.eqb (pre s + post s) 0); [discriminate|].
    injection H as <-. pose proof (I t) as F. rewrite CT in F. simpl in F. unfold set_closer. apply inv2_set; [exact I|exact F].
  - destruct (closers s t) eqn:CT; try discriminate. destruct (Nat.eqb (pre s + post s) 0) eqn:Z; [|discriminate].
    injection H as <-. apply Nat.eqb_eq in Z. pose proof (I t) as F. rewrite CT in F. simpl in F.
    unfold set_closer. apply inv2_set; [exact I|]. split; [exact F|lia].
  - destruct (closers s t) eqn:CT; try discriminate. injection H as <-. pose proof (I t) as F. rewrite CT in F. simpl in F.
    apply inv2_set; [exact I|]. destruct (match d_wait d with WaitWG => negb (Nat.eqb (pre s + post s) 0) | WaitChan => false end); [exact Logic.I|exact F].
  - destruct (closers s t) eqn:CT; try discriminate.
    + injection H as <-. apply inv2_set; [exact I|exact Logic.I].
    + destruct (once_done s); [|discriminate]. injection H as <-. unfold set_closer. apply inv2_set; [exact I|exact Logic.I].
    + injection H as <-. unfold set_closer. apply inv2_set; [exact I|exact Logic.I].
Qed.

Lemma run_inv2 d evs : forall s s', inv2 s -> run d s evs = Some s' -> inv2 s'.
Proof.
  induction evs as [|e evs IH]; intros s s' I H; simpl in H; [injection H as <-; exact I|].
  destruct (step d s e) as [s1|] eqn:E; [|discriminate]. eapply IH; [eapply step_inv2; eauto|exact H].
Qed.

(* whatever the guard: when the wait of Close's body is over, every goroutine registered before the flag is gone *)
Theorem body_wait_over_pre_gone d evs s t :
  run d init evs = Some s -> closers s t = CDone -> pre s = 0.
Proof.
  intros H C. assert (I: inv2 init) by (intro x; exact Logic.I).
  pose proof (run_inv2 d evs init s I H t) as F. rewrite C in F. simpl in F. tauto.
Qed.

(* ---- sequential use of a select-guarded Close (keystores) ------------------------------------------------ *)
Definition in_body (c : cst) : bool := match c with CWaiting | CSleeping | CWoken | CDone => true | _ => false end.

Definition cl3 (s : st) (c : cst) : Prop :=
  match c with
  | CEntered => flag s = false
  | CWaiting | CSleeping => flag s = true
  | CWoken | CDone | CReturned | CEarly => flag s = true /\ pre s = 0
  | COnceBlocked | CPanicked => False
  | CIdle => True
  end.

Definition inv3 (b : nat) (s : st) : Prop :=
  panicked s = false /\ post s = 0 /\
  (flag s = true -> ctor_done s = true) /\
  (forall t, closers s t <> CIdle -> ctor_done s = true) /\
  (forall t, b <= t -> closers s t = CIdle) /\
  (forall t1 t2, active (closers s t1) = true -> active (closers s t2) = true -> t1 = t2) /\
  (forall t, cl3 s (closers s t)) /\
  (flag s = true -> (exists t, in_body (closers s t) = true) \/ pre s = 0).

Lemma none_active_spec f n : none_active f n = true <-> forall t, t < n -> active (f t) = false.
Proof.
  induction n as [|n IH]; simpl.
  - split; [intros _ t L; lia|reflexivity].
  - rewrite andb_true_iff, negb_true_iff, IH. split.
    + intros [A B] t L. destruct (Nat.eq_dec t n) as [->|N]; [exact A|apply B; lia].
    + intro A. split; [apply A; lia|intros t L; apply A; lia].
Qed.

Lemma inv3_init b : inv3 b init.
Proof.
  unfold inv3, init; simpl. repeat split; try reflexivity; try discriminate; try (intros; exact I); try (intros; congruence).
Qed.

Lemma in_body_active c : in_body c = true -> active c = true.
Proof. destruct c; simpl; auto. Qed.

(* update of the closer of thread t when every other thread is inactive; flag and pre unchanged *)
Lemma inv3_set b s t v :
  inv3 b s -> t < b -> ctor_done s = true ->
  (forall x, x <> t -> active (closers s x) = false) ->
  cl3 s v ->
  (flag s = true -> in_body v = true \/ pre s = 0) ->
  inv3 b {| flag := flag s; ctor_done := ctor_done s; pre := pre s; post := post s; leaked := leaked s; closers := upd (closers s) t v;
            once_taken := once_taken s; once_done := once_done s; panicked := panicked s |}.
Proof.
  intros (P & Q & FC & AC & BD & UNI & CL & FB) TB CD OTH CV FV. unfold inv3; simpl. repeat split; auto.
  - intros x L. rewrite upd_other by lia. apply BD; exact L.
  - intros t1 t2 A1 A2. destruct (Nat.eq_dec t1 t) as [->|N1]; destruct (Nat.eq_dec t2 t) as [->|N2]; auto.
    + rewrite upd_other in A2 by exact N2. rewrite (OTH t2 N2) in A2. discriminate.
    + rewrite upd_other in A1 by exact N1. rewrite (OTH t1 N1) in A1. discriminate.
    + rewrite upd_other in A1 by exact N1. rewrite (OTH t1 N1) in A1. discriminate.
  - intro x. destruct (Nat.eq_dec x t) as [->|N]; [rewrite upd_same; exact CV|rewrite upd_other by exact N; apply (CL x)].
  - intro F. destruct (FV F) as [B|Z]; [left; exists t; rewrite upd_same; exact B|right; exact Z].
Qed.

Lemma others_inactive b s t :
  inv3 b s -> active (closers s t) = true -> forall x, x <> t -> active (closers s x) = false.
Proof.
  intros (_ & _ & _ & _ & _ & UNI & _) A x N. destruct (active (closers s x)) eqn:E; [|reflexivity]. exfalso. apply N. apply UNI; assumption.
Qed.

Lemma active_lt b s t : inv3 b s -> active (closers s t) = true -> t < b.
Proof.
  intros (_ & _ & _ & _ & BD & _) A. destruct (Nat.lt_ge_cases t b) as [L|G]; [exact L|]. rewrite (BD t G) in A. discriminate.
Qed.

Lemma step_inv3 b d s e s' :
  d_once d = OnceChanSelect -> d_guard d <> GuardNone -> inv3 b s ->
  (match e with ECloseEnter t => Nat.ltb t b && none_active (closers s) b | _ => true end) = true ->
  step d s e = Some s' -> inv3 b s'.
Proof.
  intros O G I0 OK H. pose proof I0 as (P & Q & FC & AC & BD & UNI & CL & FB).
  destruct e as [| | | | |t|t|t|t|t|t|t]; simpl in H.
  - injection H as <-. unfold inv3; simpl. repeat split; auto.
  - (* ESpawn *)
    assert (NF: flag s = false -> inv3 b {| flag := flag s; ctor_done := ctor_done s; pre := S (pre s); post := post s; leaked := leaked s; closers := closers s;
                        once_taken := once_taken s; once_done := once_done s; panicked := panicked s |}).
    { intro F. unfold inv3; simpl. repeat split; auto.
      - intro t. specialize (CL t). unfold cl3 in *; simpl. destruct (closers s t); simpl in *; try tauto; try (destruct CL; congruence); congruence.
      - congruence. }
    destruct (d_guard d) eqn:GD; [|congruence|].
    + destruct (flag s) eqn:F; injection H as <-; [exact I0|apply NF; reflexivity].
    + destruct (ctor_done s) eqn:C; [discriminate|].
      destruct (flag s) eqn:F; [specialize (FC eq_refl); congruence|]. injection H as <-. apply NF. reflexivity.
  - (* EExitPre *)
    destruct (pre s) as [|n] eqn:E; [discriminate|]. destruct (Nat.leb (S n) (leaked s)); [discriminate|]. injection H as <-. unfold inv3; simpl. repeat split; auto.
    + intro t. specialize (CL t). unfold cl3 in *; simpl. destruct (closers s t); simpl in *; try tauto; destruct CL; congruence.
    + intro F. destruct (FB F) as [X|X]; [left; exact X|congruence].
  - rewrite Q in H. discriminate.
  - destruct (negb (d_done_all d) && Nat.ltb (leaked s) (pre s)); [|discriminate]. injection H as <-.
    unfold inv3; simpl. repeat split; auto.
  - (* ECloseEnter *)
    apply andb_true_iff in OK. destruct OK as [TB NA]. apply Nat.ltb_lt in TB. rewrite none_active_spec in NA.
    assert (ALL: forall x, active (closers s x) = false).
    { intro x. destruct (Nat.lt_ge_cases x b) as [L|Gx]; [apply NA; exact L|rewrite (BD x Gx); reflexivity]. }
    destruct (negb (ctor_done s)) eqn:C'; [discriminate|]. apply negb_false_iff in C'.
    assert (H': (if flag s then Some (set_closer s t CEarly) else Some (set_closer s t CEntered)) = Some s').
    { destruct (closers s t); try discriminate; rewrite O in H; exact H. }
    clear H. destruct (flag s) eqn:F; injection H' as <-; unfold set_closer.
    + apply inv3_set; auto.
      * simpl. split; [exact F|]. destruct (FB eq_refl) as [[x B]|Z]; [|exact Z]. apply in_body_active in B. rewrite (ALL x) in B. discriminate.
      * intros _. right. destruct (FB eq_refl) as [[x B]|Z]; [|exact Z]. apply in_body_active in B. rewrite (ALL x) in B. discriminate.
    + apply inv3_set; auto. intro X. congruence.
  - (* ECloseSet *)
    destruct (closers s t) eqn:CT; try discriminate.
    assert (A: active (closers s t) = true) by (rewrite CT; reflexivity).
    pose proof (CL t) as F. rewrite CT in F. simpl in F.
    rewrite O, F in H. simpl in H. rewrite orb_false_r in H. injection H as <-.
    assert (CD: ctor_done s = true) by (apply (AC t); rewrite CT; discriminate).
    pose proof (others_inactive b s t I0 A) as OTH. pose proof (active_lt b s t I0 A) as TB.
    unfold inv3; simpl. repeat split; auto.
    + intros x L. rewrite upd_other by lia. apply BD; exact L.
    + intros t1 t2 A1 A2. destruct (Nat.eq_dec t1 t) as [->|N1]; destruct (Nat.eq_dec t2 t) as [->|N2]; auto.
      * rewrite upd_other in A2 by exact N2. rewrite (OTH t2 N2) in A2. discriminate.
      * rewrite upd_other in A1 by exact N1. rewrite (OTH t1 N1) in A1. discriminate.
      * rewrite upd_other in A1 by exact N1. rewrite (OTH t1 N1) in A1. discriminate.
    + intro x. destruct (Nat.eq_dec x t) as [->|N]; [rewrite upd_same; reflexivity|rewrite upd_other by exact N].
      pose proof (OTH x N) as IA. specialize (CL x). unfold cl3 in *; simpl. destruct (closers s x); simpl in *; try discriminate; try tauto.
    + intros _. left. exists t. rewrite upd_same. reflexivity.
  - (* EWaitFast *)
    destruct (closers s t) eqn:CT; try discriminate. destruct (Nat.eqb (pre s + post s) 0) eqn:Z; [|discriminate].
    injection H as <-. apply Nat.eqb_eq in Z. pose proof (CL t) as F; rewrite CT in F. simpl in F.
    assert (A: active (closers s t) = true) by (rewrite CT; reflexivity).
    unfold set_closer. apply inv3_set; auto; [eapply active_lt; eauto|eapply others_inactive; eauto|split; [exact F|lia]].
  - (* ESleep *)
    destruct (closers s t) eqn:CT; try discriminate. destruct (Nat.eqb (pre s + post s) 0); [discriminate|].
    injection H as <-. pose proof (CL t) as F; rewrite CT in F. simpl in F.
    assert (A: active (closers s t) = true) by (rewrite CT; reflexivity).
    unfold set_closer. apply inv3_set; auto; [eapply active_lt; eauto|eapply others_inactive; eauto].
  - (* EWake *)
    destruct (closers s t) eqn:CT; try discriminate. destruct (Nat.eqb (pre s + post s) 0) eqn:Z; [|discriminate].
    injection H as <-. apply Nat.eqb_eq in Z. pose proof (CL t) as F; rewrite CT in F. simpl in F.
    assert (A: active (closers s t) = true) by (rewrite CT; reflexivity).
    unfold set_closer. apply inv3_set; auto; [eapply active_lt; eauto|eapply others_inactive; eauto|split; [exact F|lia]].
  - (* EResume *)
    destruct (closers s t) eqn:CT; try discriminate. pose proof (CL t) as F; rewrite CT in F. simpl in F. destruct F as [F1 F2].
    assert (B: match d_wait d with WaitWG => negb (Nat.eqb (pre s + post s) 0) | WaitChan => false end = false).
    { destruct (d_wait d); [|reflexivity]. rewrite F2, Q. reflexivity. }
    rewrite B in H. rewrite orb_false_r in H. injection H as <-.
    assert (A: active (closers s t) = true) by (rewrite CT; reflexivity).
    apply inv3_set; auto; [eapply active_lt; eauto|eapply others_inactive; eauto|split; assumption].
  - (* ECloseRet *)
    destruct (closers s t) eqn:CT; try discriminate.
    + pose proof (CL t) as F; rewrite CT in F. simpl in F. destruct F as [F1 F2]. rewrite O in H. injection H as <-.
      assert (A: active (closers s t) = true) by (rewrite CT; reflexivity).
      apply inv3_set; auto; [eapply active_lt; eauto|eapply others_inactive; eauto|split; assumption].
    + pose proof (CL t) as F; rewrite CT in F. contradiction.
    + pose proof (CL t) as F; rewrite CT in F. simpl in F. destruct F as [F1 F2]. injection H as <-.
      assert (A: active (closers s t) = true) by (rewrite CT; reflexivity).
      unfold set_closer. apply inv3_set; auto; [eapply active_lt; eauto|eapply others_inactive; eauto|split; assumption].
Qed.

Lemma run_seq_inv3 b d evs : forall s s',
  d_once d = OnceChanSelect -> d_guard d <> GuardNone -> inv3 b s -> run_seq b d s evs = Some s' -> inv3 b s'.
Proof.
  induction evs as [|e evs IH]; intros s s' O G I H; simpl in H; [injection H as <-; exact I|].
  destruct (match e with ECloseEnter t => Nat.ltb t b && none_active (closers s) b | _ => true end) eqn:OK; [|discriminate].
  destruct (step d s e) as [s1|] eqn:E; [|discriminate]. apply (IH s1 s' O G); [|exact H]. exact (step_inv3 b d s e s1 O G I OK E).
Qed.

(* select-guarded Close used sequentially: every return comes after the worker is gone, and nothing panics *)
Theorem seq_close_waits b d evs s t :
  d_once d = OnceChanSelect -> d_guard d <> GuardNone -> run_seq b d init evs = Some s ->
  panicked s = false /\ (closers s t = CReturned -> pre s = 0 /\ post s = 0).
Proof.
  intros O G H. destruct (run_seq_inv3 b d evs init s O G (inv3_init b) H) as (P & Q & _ & _ & _ & _ & CL & _).
  split; [exact P|]. intro C. specialize (CL t). rewrite C in CL. simpl in CL. tauto.
Qed.

(* ... and a further sequential Close returns at once *)
Theorem seq_close_again b d evs s t0 t :
  d_once d = OnceChanSelect -> d_guard d <> GuardNone -> run_seq b d init evs = Some s ->
  closers s t0 = CReturned -> t < b -> none_active (closers s) b = true ->
  exists s', run_seq b d s [ECloseEnter t; ECloseRet t] = Some s' /\ closers s' t = CReturned /\ panicked s' = false.
Proof.
  intros O G H C0 TB NA. pose proof (run_seq_inv3 b d evs init s O G (inv3_init b) H) as I.
  destruct I as (P & Q & FC & AC & BD & UNI & CL & FB). pose proof (CL t0) as F; rewrite C0 in F. simpl in F. destruct F as [F1 F2].
  assert (CD: ctor_done s = true) by (apply FC; exact F1).
  assert (CT: closers s t = CIdle \/ closers s t = CReturned).
  { rewrite none_active_spec in NA. specialize (NA t TB). pose proof (CL t) as X. destruct (closers s t); simpl in *; try discriminate; auto; contradiction. }
  eexists. split.
  - simpl. apply Nat.ltb_lt in TB. rewrite TB, NA. simpl. rewrite CD. simpl.
    destruct CT as [E|E]; rewrite E, O, F1; simpl; rewrite upd_same; reflexivity.
  - simpl. rewrite upd_same. auto.
Qed.

(* ---- constructors ------------------------------------------------------------------------------------------ *)
Definition clean_comps : list comp := [CDht; CDual; CFullRT; CProvMgr; CValueStore; CRtRefresh; CProvider; CBuffered; CProvDual; CKeystore; CResettable].
Lemma ctor_clean_b : forallb ctor_clean clean_comps = true.
Proof. vm_compute. reflexivity. Qed.

Theorem ctor_error_clean c name p left :
  In c clean_comps -> In (name, p, left) (leftovers [] (ctor_script c)) -> p = false /\ left = [].
Proof.
  intros Hc Hp. pose proof ctor_clean_b as B. rewrite forallb_forall in B. specialize (B c Hc).
  unfold ctor_clean in B. rewrite forallb_forall in B. specialize (B _ Hp). simpl in B.
  apply andb_true_iff in B. destruct B as [B1 B2]. apply negb_true_iff in B1. split; [exact B1|]. destruct left; [reflexivity|discriminate].
Qed.

Lemma clean_comps_complete : forall c, In c clean_comps.
Proof. destruct c; simpl; tauto. Qed.

(* ---- the ResetCids start handshake ----------------------------------------------------------------------------- *)
(* while the worker handles or answers opStart the caller is listening, and an exited worker was asked to *)
Definition rk_inv (s : rk) : Prop :=
  ((rk_w s = RwHandling \/ rk_w s = RwAnswering) -> rk_c s = RkSent) /\ (rk_w s = RwExited -> rk_close_req s = true).

Lemma rk_inv_step s e s' : rk_inv s -> rk_step s e = Some s' -> rk_inv s'.
Proof.
  intros [A B] H. unfold rk_inv. destruct e; simpl in H.
  - destruct (rk_c s); try discriminate. destruct (rk_w s); try discriminate. injection H as <-. simpl. split; [reflexivity|discriminate].
  - destruct (rk_w s) eqn:W; try discriminate. injection H as <-. simpl. split; [intros _; apply A; left; reflexivity|discriminate].
  - destruct (rk_c s); try discriminate. destruct (rk_w s); try discriminate. injection H as <-. simpl. split; [intros [X|X]; discriminate|discriminate].
  - destruct (rk_c s) eqn:C; try discriminate. injection H as <-. simpl. split; [|exact B].
    intro X. specialize (A X). discriminate.
  - injection H as <-. simpl. split; [exact A|reflexivity].
  - destruct (rk_w s) eqn:W; try discriminate. destruct (rk_close_req s); [|discriminate]. injection H as <-. simpl. split; [intros [X|X]; discriminate|reflexivity].
  - destruct (rk_w s) eqn:W; try discriminate. injection H as <-. simpl. split; [intros [X|X]; discriminate|exact B].
Qed.

Lemma rk_inv_run evs : forall s s', rk_inv s -> rk_run s evs = Some s' -> rk_inv s'.
Proof.
  induction evs as [|e evs IH]; intros s s' I H; simpl in H; [injection H as <-; exact I|].
  destruct (rk_step s e) as [s1|] eqn:E; [|discriminate]. eapply IH; [eapply rk_inv_step; eauto|exact H].
Qed.

(* from every reachable state of the handshake Close can still be brought to return: the worker is never wedged *)
Theorem rk_close_can_return evs s :
  rk_run rk0 evs = Some s -> exists evs' s', rk_run s evs' = Some s' /\ rk_close_ret s' = true.
Proof.
  intro H. assert (I: rk_inv rk0) by (split; [intros [X|X]; discriminate|discriminate]).
  destruct (rk_inv_run evs rk0 s I H) as [A B]. destruct (rk_w s) eqn:W.
  - exists [RkCloseCall; RkWorkerExit; RkCloseRet]. eexists. simpl. rewrite W. simpl. split; reflexivity.
  - pose proof (A (or_introl eq_refl)) as C. exists [RkPrepared; RkDeliver; RkCloseCall; RkWorkerExit; RkCloseRet]. eexists.
    simpl. rewrite W. simpl. rewrite C. simpl. split; reflexivity.
  - pose proof (A (or_intror eq_refl)) as C. exists [RkDeliver; RkCloseCall; RkWorkerExit; RkCloseRet]. eexists.
    simpl. rewrite W, C. simpl. split; reflexivity.
  - exists [RkCloseRet]. eexists. simpl. rewrite W. split; reflexivity.
Qed.

(* ---- Done on every path: Close returns ------------------------------------------------------------------- *)
Definition all_comps : list comp := [CDht; CDual; CFullRT; CProvMgr; CValueStore; CRtRefresh; CProvider; CBuffered; CProvDual; CKeystore; CResettable].
Lemma comp_done_all_b : forallb comp_done_all all_comps = true.
Proof. vm_compute. reflexivity. Qed.
Theorem done_on_every_path c : d_done_all (desc_of c) = true.
Proof.
  pose proof comp_done_all_b as B. rewrite forallb_forall in B.
  assert (In c all_comps) by (destruct c; simpl; tauto). specialize (B c H). destruct c; exact B.
Qed.

Ltac step_cases H :=
  repeat match type of H with
         | context [match ?x with _ => _ end] => destruct x eqn:?; try discriminate
         | context [if ?x then _ else _] => destruct x eqn:?; try discriminate
         end.

Lemma step_leaked d s e s' : d_done_all d = true -> step d s e = Some s' -> leaked s' = leaked s.
Proof.
  intros D H. destruct e; simpl in H; try rewrite D in H; simpl in H; step_cases H; try discriminate; injection H as <-; reflexivity.
Qed.
Lemma run_leaked d evs : forall s s', d_done_all d = true -> run d s evs = Some s' -> leaked s' = leaked s.
Proof.
  induction evs as [|e evs IH]; intros s s' D H; simpl in H; [injection H as <-; reflexivity|].
  destruct (step d s e) as [s1|] eqn:E; [|discriminate]. rewrite (IH s1 s' D H). eapply step_leaked; eauto.
Qed.

(* once taken, some thread has left CIdle (threads never go back to CIdle) *)
Definition taken_inv (s : st) : Prop := once_taken s = true -> exists t, closers s t <> CIdle.
Lemma upd_not_idle f t v x : v <> CIdle -> f x <> CIdle -> upd f t v x <> CIdle.
Proof. intros V F. unfold upd. destruct (Nat.eqb x t); assumption. Qed.
Lemma step_taken d s e s' : taken_inv s -> step d s e = Some s' -> taken_inv s'.
Proof.
  intros K H. unfold taken_inv in *.
  destruct e as [| | | | |t|t|t|t|t|t|t]; simpl in H; unfold set_closer in H; step_cases H; injection H as <-; simpl; try exact K;
    try (intros _; exists t; rewrite upd_same; discriminate);
    try (intro T; destruct (K T) as [x X]; exists x; apply upd_not_idle; [discriminate|exact X]).
Qed.
Lemma run_taken d evs : forall s s', taken_inv s -> run d s evs = Some s' -> taken_inv s'.
Proof.
  induction evs as [|e evs IH]; intros s s' K H; simpl in H; [injection H as <-; exact K|].
  destruct (step d s e) as [s1|] eqn:E; [|discriminate]. eapply IH; [eapply step_taken; eauto|exact H].
Qed.

Lemma run_app d l1 : forall l2 s, run d s (l1 ++ l2)%list = match run d s l1 with Some s1 => run d s1 l2 | None => None end.
Proof.
  induction l1 as [|e l1 IH]; intros l2 s; simpl; [reflexivity|]. destruct (step d s e); [apply IH|reflexivity].
Qed.

(* the registered goroutines end one by one, then the wait is over and Close returns *)
Lemma drain d t : forall n s,
  closers s t = CWaiting -> pre s = n -> post s = 0 -> leaked s = 0 ->
  exists s', run d s (repeat EExitPre n ++ [EWaitFast t; ECloseRet t])%list = Some s' /\ closers s' t = CReturned /\ panicked s' = panicked s.
Proof.
  induction n as [|n IH]; intros s C P Q L.
  - simpl. rewrite C, P, Q. simpl. rewrite upd_same. eexists. split; [reflexivity|]. simpl. rewrite upd_same. auto.
  - simpl. rewrite P, L. simpl.
    destruct (IH {| flag := flag s; ctor_done := ctor_done s; pre := n; post := post s; leaked := leaked s; closers := closers s;
                    once_taken := once_taken s; once_done := once_done s; panicked := panicked s |}) as (s' & R & C' & P'); simpl; auto.
    exists s'. simpl in P'. rewrite L in R. auto.
Qed.

(* The first Close on a running instance returns: whatever was registered ends (calling Done, by the inventory
   fact), the wait is over, Close returns, and nothing panicked. *)
Theorem first_close_returns d evs s t :
  good d -> d_done_all d = true -> run d init evs = Some s -> ctor_done s = true -> (forall x, closers s x = CIdle) ->
  exists evs' s', run d s evs' = Some s' /\ closers s' t = CReturned /\ panicked s' = false.
Proof.
  intros G D H CD IDLE.
  pose proof (run_inv d evs init s G (inv_init d) H) as (P & Q & _).
  assert (L: leaked s = 0) by (rewrite (run_leaked d evs init s D H); reflexivity).
  assert (T: once_taken s = false).
  { destruct (once_taken s) eqn:E; [|reflexivity]. assert (K: taken_inv init) by (intro X; discriminate).
    destruct (run_taken d evs init s K H E) as [x X]. elim X. apply IDLE. }
  destruct G as [G1 G2].
  set (s2 := {| flag := true; ctor_done := ctor_done s; pre := pre s; post := post s; leaked := leaked s;
                closers := upd (upd (closers s) t CEntered) t CWaiting;
                once_taken := match d_once d with OnceSync => true | _ => once_taken s end; once_done := once_done s; panicked := panicked s |}).
  assert (R2: run d s [ECloseEnter t; ECloseSet t] = Some s2).
  { simpl. rewrite CD, (IDLE t). simpl. destruct (d_once d) eqn:O; [|congruence|]; rewrite ?T; simpl; rewrite upd_same; rewrite ?O; simpl; rewrite orb_false_r; unfold s2; rewrite ?CD; reflexivity. }
  assert (DR: exists s', run d s2 (repeat EExitPre (pre s) ++ [EWaitFast t; ECloseRet t])%list = Some s' /\ closers s' t = CReturned /\ panicked s' = panicked s2).
  { apply drain; unfold s2; simpl; auto. rewrite upd_same. reflexivity. }
  destruct DR as (s' & R & C & PN).
  exists (([ECloseEnter t; ECloseSet t] ++ (repeat EExitPre (pre s) ++ [EWaitFast t; ECloseRet t]))%list), s'.
  split; [|split; [exact C|rewrite PN; exact P]].
  rewrite run_app, R2. exact R.
Qed.

(* ---- ... and what a lost Done means ------------------------------------------------------------------------- *)
Definition stuck_ok (c : cst) : Prop :=
  match c with CIdle | CEntered | CWaiting | CSleeping | COnceBlocked | CPanicked => True | _ => False end.
Definition lost_inv (s : st) : Prop :=
  1 <= leaked s /\ leaked s <= pre s /\ once_done s = false /\ forall t, stuck_ok (closers s t).

Lemma step_lost d s e s' : d_once d <> OnceChanSelect -> lost_inv s -> step d s e = Some s' -> lost_inv s'.
Proof.
  intros O (L1 & L2 & OD & ST) H. unfold lost_inv.
  assert (SET: forall t v ot, stuck_ok v ->
             lost_inv {| flag := flag s; ctor_done := ctor_done s; pre := pre s; post := post s; leaked := leaked s; closers := upd (closers s) t v;
                         once_taken := ot; once_done := once_done s; panicked := panicked s |}).
  { intros t v ot V. unfold lost_inv; simpl. repeat split; auto. intro x. unfold upd. destruct (Nat.eqb x t); [exact V|apply ST]. }
  destruct e as [| | | | |t|t|t|t|t|t|t]; simpl in H.
  - injection H as <-. simpl. auto.
  - step_cases H; injection H as <-; simpl; repeat split; auto; lia.
  - destruct (pre s) as [|n] eqn:E; [discriminate|]. destruct (Nat.leb (S n) (leaked s)) eqn:LE; [discriminate|].
    injection H as <-. simpl. apply Nat.leb_gt in LE. repeat split; auto; lia.
  - step_cases H; injection H as <-; simpl; repeat split; auto.
  - destruct (negb (d_done_all d) && Nat.ltb (leaked s) (pre s)) eqn:C; [|discriminate]. injection H as <-. simpl.
    apply andb_true_iff in C. destruct C as [_ C]. apply Nat.ltb_lt in C. repeat split; auto; lia.
  - unfold set_closer in H. step_cases H; try congruence; injection H as <-; apply SET; exact I.
  - pose proof (ST t) as X. destruct (closers s t) eqn:CT; try discriminate. injection H as <-.
    unfold lost_inv; simpl. repeat split; auto. intro x. unfold upd. destruct (Nat.eqb x t); [|apply ST].
    destruct (match d_once d with OnceChanSelect => flag s | _ => false end); exact I.
  - destruct (closers s t) eqn:CT; try discriminate. destruct (Nat.eqb (pre s + post s) 0) eqn:Z; [|discriminate]. apply Nat.eqb_eq in Z. lia.
  - destruct (closers s t) eqn:CT; try discriminate. destruct (Nat.eqb (pre s + post s) 0); [discriminate|]. injection H as <-. apply SET. exact I.
  - destruct (closers s t) eqn:CT; try discriminate. destruct (Nat.eqb (pre s + post s) 0) eqn:Z; [|discriminate]. apply Nat.eqb_eq in Z. lia.
  - pose proof (ST t) as X. destruct (closers s t) eqn:CT; try discriminate; contradiction.
  - pose proof (ST t) as X. destruct (closers s t) eqn:CT; try discriminate; try contradiction.
    rewrite OD in H. discriminate.
Qed.

Theorem lost_done_close_never_returns d s :
  d_once d <> OnceChanSelect -> lost_inv s ->
  forall evs s', run d s evs = Some s' -> forall t, closers s' t <> CReturned.
Proof.
  intros O L evs. revert s L. induction evs as [|e evs IH]; intros s L s' H t; simpl in H.
  - injection H as <-. destruct L as (_ & _ & _ & ST). specialize (ST t). intro E. rewrite E in ST. exact ST.
  - destruct (step d s e) as [s1|] eqn:E; [|discriminate]. eapply IH; [eapply step_lost; eauto|exact H].
Qed.

(* a registered goroutine that ends without Done (possible exactly when the inventory says DoneSome): from then on
   no Close ever returns *)
Theorem lost_done_witness :
  exists s, run desc_provider_lost_done init [ESpawn; ECtorDone; EExitLeak] = Some s /\
    forall evs s', run desc_provider_lost_done s evs = Some s' -> forall t, closers s' t <> CReturned.
Proof.
  eexists. split; [vm_compute; reflexivity|]. apply lost_done_close_never_returns; [discriminate|].
  unfold lost_inv; simpl. repeat split; auto.
Qed.

(* ---- the statements of Props/C14.v ---------------------------------------------------------------------------- *)
Lemma p_close_waits d evs s t :
  d_guard d <> GuardNone -> d_once d <> OnceChanSelect ->
  run d init evs = Some s -> closers s t = CReturned -> pre s = 0 /\ post s = 0.
Proof. intros G O. exact (close_waits d evs s t (conj G O)). Qed.

Lemma p_idempotent d evs s t0 t :
  d_guard d <> GuardNone -> d_once d <> OnceChanSelect ->
  run d init evs = Some s -> closers s t0 = CReturned ->
  (closers s t = CIdle \/ closers s t = CReturned) ->
  exists evs' s', run d s evs' = Some s' /\ closers s' t = CReturned /\ panicked s' = false /\ pre s' = 0 /\ post s' = 0.
Proof. intros G O. exact (close_again d evs s t0 t (conj G O)). Qed.

Lemma p_no_panic d evs s :
  d_guard d <> GuardNone -> d_once d <> OnceChanSelect ->
  run d init evs = Some s -> panicked s = false /\ forall t, closers s t <> CPanicked.
Proof. intros G O. exact (no_panic d evs s (conj G O)). Qed.

Lemma p_no_add_after_close d s :
  d_guard d = GuardLockFlag -> flag s = true ->
  step d s ESpawn = Some s /\
  forall evs s', run d s evs = Some s' -> flag s' = true /\ pre s' + post s' <= pre s + post s.
Proof.
  intros G F. split; [exact (spawn_rejected_after_flag d s G F)|].
  intros evs s'. exact (no_add_after_close d evs s s' G F).
Qed.

Lemma p_ctor_error_clean c name p left :
  In (name, p, left) (leftovers [] (ctor_script c)) -> p = false /\ left = [].
Proof. exact (ctor_error_clean c name p left (clean_comps_complete c)). Qed.

(* every component but the value store (StartGC is not ordered with Close) uses a guarded registration and a
   body that is not select-guarded *)
Lemma p_components_guarded c : c <> CValueStore -> d_guard (desc_of c) <> GuardNone /\ d_once (desc_of c) <> OnceChanSelect.
Proof. destruct c; intro N; try (split; discriminate). congruence. Qed.

Lemma p_close_waits_comp c evs s t :
  c <> CValueStore -> run (desc_of c) init evs = Some s -> closers s t = CReturned -> pre s = 0 /\ post s = 0.
Proof. intro N. destruct (p_components_guarded c N) as [G O]. exact (p_close_waits (desc_of c) evs s t G O). Qed.

Lemma p_no_panic_comp c evs s :
  c <> CValueStore -> run (desc_of c) init evs = Some s -> panicked s = false /\ forall t, closers s t <> CPanicked.
Proof. intro N. destruct (p_components_guarded c N) as [G O]. exact (p_no_panic (desc_of c) evs s G O). Qed.

Lemma p_no_add_provider_rtrefresh c s :
  c = CProvider \/ c = CRtRefresh -> flag s = true ->
  step (desc_of c) s ESpawn = Some s /\
  forall evs s', run (desc_of c) s evs = Some s' -> flag s' = true /\ pre s' + post s' <= pre s + post s.
Proof. intros [-> | ->] F; apply p_no_add_after_close; auto. Qed.

Lemma p_select_refuted :
  (exists evs s, run desc_keystore_select init evs = Some s /\ closers s 1 = CReturned /\ pre s = 1) /\
  (exists evs s, run desc_keystore_select init evs = Some s /\ panicked s = true).
Proof.
  split; [exists ks_early_trace; exact ks_early|exists ks_double_trace; exact ks_double].
Qed.

Lemma p_unguarded_refuted :
  (exists evs s, run desc_rtrefresh_unguarded init evs = Some s /\ panicked s = true /\ closers s 0 = CPanicked) /\
  (exists evs s, run desc_rtrefresh_unguarded init evs = Some s /\ closers s 0 = CReturned /\ post s = 1).
Proof.
  split; [exists rt_panic_trace; exact rt_panic|exists rt_post_trace; exact rt_post].
Qed.

Lemma p_first_close_returns d evs s t :
  d_guard d <> GuardNone -> d_once d <> OnceChanSelect -> d_done_all d = true ->
  run d init evs = Some s -> ctor_done s = true -> (forall x, closers s x = CIdle) ->
  exists evs' s', run d s evs' = Some s' /\ closers s' t = CReturned /\ panicked s' = false.
Proof. intros G O. exact (first_close_returns d evs s t (conj G O)). Qed.

(* for the components the hypothesis "Done on every path" is the inventory fact *)
Lemma p_first_close_returns_comp c evs s t :
  c <> CValueStore -> run (desc_of c) init evs = Some s -> ctor_done s = true -> (forall x, closers s x = CIdle) ->
  exists evs' s', run (desc_of c) s evs' = Some s' /\ closers s' t = CReturned /\ panicked s' = false.
Proof.
  intro N. destruct (p_components_guarded c N) as [G O].
  exact (p_first_close_returns (desc_of c) evs s t G O (done_on_every_path c)).
Qed.
