(* Lemmas about Model/Lifecycle.v (property C14). *)
From Coq Require Import Lia.
From Verif.Lib Require Import GoSem.
From Verif.Gen Require Import Goroutines.
From Verif.Model Require Import Lifecycle.
Local Open Scope string_scope.

(* ---- the inventory ------------------------------------------------------------------------------- *)
Lemma inventory_covered_b : forallb site_covered sites = true.
Proof. vm_compute. reflexivity. Qed.

Theorem inventory_covered :
  forall s, In s sites ->
    exists r, site_row s = Some r /\ gs_track s = r_track r /\
      (class_await (r_class r) = AwWaitGroup -> gs_track s <> "untracked").
Proof.
  intros s Hs. pose proof inventory_covered_b as H. rewrite forallb_forall in H. specialize (H s Hs).
  unfold site_covered in H. destruct (site_row s) as [r|]; [|discriminate]. exists r. split; [reflexivity|].
  unfold track_ok in H. apply andb_true_iff in H. destruct H as [H1 H2]. apply String.eqb_eq in H1. split; [exact H1|].
  intro A. rewrite A in H2. apply negb_true_iff in H2. intro E. apply String.eqb_neq in H2. contradiction.
Qed.

(* every class is awaited in one of the accepted ways, and an awaiting parent is itself awaited by Close
   (no chain of parents ends in nothing) *)
Fixpoint root_await (fuel : nat) (g : gclass) : await :=
  match fuel with
  | O => class_await g
  | S f => match class_await g with AwParent p => root_await f p | a => a end
  end.
Definition all_classes : list gclass :=
  [GDhtLoop; GDhtProbe; GDhtCloseHelper; GOp; GRtLoop; GRtRequest; GRtPing; GPmGc; GVsGc; GFrtCrawler; GFrtSubscriber;
   GCrawlWorker; GMsgSender; GProvRun; GProvWorker; GProvInner; GConnProbe; GBufWorker; GProvDualHelper; GKsWorker;
   GRksWorker; GRksWatch].
Lemma all_classes_complete : forall g, In g all_classes.
Proof. destruct g; simpl; tauto. Qed.
Lemma parents_rooted : forall g, match root_await 3 g with AwParent _ => False | _ => True end.
Proof. destruct g; exact I. Qed.

(* ---- the Close protocol --------------------------------------------------------------------------- *)
Definition good (d : desc) : Prop := d_guard d <> GuardNone /\ d_once d <> OnceChanSelect.

(* per-thread clause *)
Definition cl_ok (s : st) (c : cst) : Prop :=
  match c with
  | CWaiting | CSleeping => flag s = true
  | CWoken | CDone | CReturned => flag s = true /\ pre s = 0
  | CEarly | CPanicked => False
  | _ => True
  end.

Definition inv (d : desc) (s : st) : Prop :=
  panicked s = false /\
  post s = 0 /\
  (flag s = true -> ctor_done s = true) /\
  (forall t, closers s t <> CIdle -> ctor_done s = true) /\
  (forall t, cl_ok s (closers s t)) /\
  (once_done s = true -> flag s = true /\ pre s = 0) /\
  (d_once d = OnceSync -> forall t, closers s t = CReturned -> once_done s = true).

Lemma upd_same f t v : upd f t v t = v.
Proof. unfold upd. rewrite Nat.eqb_refl. reflexivity. Qed.
Lemma upd_other f t v x : x <> t -> upd f t v x = f x.
Proof. intro H. unfold upd. apply Nat.eqb_neq in H. rewrite H. reflexivity. Qed.

Lemma inv_init d : inv d init.
Proof.
  unfold inv, init, cl_ok; simpl. repeat split; try reflexivity; try discriminate; try (intros; exact I); try (intros; congruence).
Qed.

(* cl_ok only depends on flag and pre *)
Lemma cl_ok_ext s s' c : flag s' = flag s -> pre s' = pre s -> cl_ok s c -> cl_ok s' c.
Proof. intros F P. unfold cl_ok. rewrite F, P. auto. Qed.

(* changing one closer, everything else equal *)
Lemma inv_set_closer d s t v ot od :
  inv d s -> ctor_done s = true -> cl_ok s v -> (d_once d = OnceSync -> v = CReturned -> od = true) ->
  (od = true -> flag s = true /\ pre s = 0) -> (once_done s = true -> od = true) ->
  inv d {| flag := flag s; ctor_done := ctor_done s; pre := pre s; post := post s; closers := upd (closers s) t v;
           once_taken := ot; once_done := od; panicked := panicked s |}.
Proof.
  intros (P & Q & FC & AC & CL & OD & OS) CD CV NR ODN MON. unfold inv; simpl. repeat split; auto.
  - intro x. destruct (Nat.eq_dec x t) as [->|N]; [rewrite upd_same; exact CV|rewrite upd_other by exact N; apply (CL x)].
  - apply ODN; assumption.
  - apply ODN; assumption.
  - intros OSy x. destruct (Nat.eq_dec x t) as [->|N]; [rewrite upd_same; intro; apply NR; assumption|rewrite upd_other by exact N].
    intro E. apply MON. eapply OS; eauto.
Qed.

Lemma step_inv d s e s' : good d -> inv d s -> step d s e = Some s' -> inv d s'.
Proof.
  intros [G1 G2] I0 H. pose proof I0 as (P & Q & FC & AC & CL & OD & OS).
  destruct e as [| | | |t|t|t|t|t|t|t]; simpl in H.
  - (* ECtorDone *) injection H as <-. unfold inv; simpl. repeat split; auto; try (apply OD; assumption).
  - (* ESpawn *)
    assert (NF: flag s = false -> inv d {| flag := flag s; ctor_done := ctor_done s; pre := S (pre s); post := post s; closers := closers s;
                        once_taken := once_taken s; once_done := once_done s; panicked := panicked s |}).
    { intro F. unfold inv; simpl. repeat split; auto.
      - intro t. specialize (CL t). unfold cl_ok in *; simpl. destruct (closers s t); simpl in *; try tauto; try (destruct CL; congruence); congruence.
      - apply OD; assumption.
      - exfalso. match goal with X : once_done s = true |- _ => apply OD in X; destruct X; congruence end. }
    destruct (d_guard d) eqn:GD.
    + destruct (flag s) eqn:F; injection H as <-; [exact I0|apply NF; reflexivity].
    + congruence.
    + destruct (ctor_done s) eqn:C; [discriminate|].
      destruct (flag s) eqn:F; [specialize (FC eq_refl); congruence|]. injection H as <-. apply NF. reflexivity.
  - (* EExitPre *) destruct (pre s) as [|n] eqn:E; [discriminate|]. injection H as <-. unfold inv; simpl. repeat split; auto.
    + intro t. specialize (CL t). unfold cl_ok in *; simpl. destruct (closers s t); simpl in *; try tauto; destruct CL; congruence.
    + apply OD; assumption.
    + exfalso. match goal with X : once_done s = true |- _ => apply OD in X; destruct X; discriminate end.
  - (* EExitPost *) rewrite Q in H. discriminate.
  - (* ECloseEnter *)
    destruct (negb (ctor_done s)) eqn:C'; [discriminate|]. apply negb_false_iff in C'. pose proof C' as C.
    assert (H': match d_once d with
                | OnceSync => if once_taken s then Some (set_closer s t COnceBlocked)
                              else Some {| flag := flag s; ctor_done := ctor_done s; pre := pre s; post := post s; closers := upd (closers s) t CEntered;
                                           once_taken := true; once_done := once_done s; panicked := panicked s |}
                | OnceChanSelect => if flag s then Some (set_closer s t CEarly) else Some (set_closer s t CEntered)
                | OnceNone => Some (set_closer s t CEntered)
                end = Some s') by (destruct (closers s t); try discriminate; exact H).
    clear H. destruct (d_once d) eqn:O; [|congruence|].
    + destruct (once_taken s); injection H' as <-; unfold set_closer;
        apply inv_set_closer; auto; try exact I; intros; discriminate.
    + injection H' as <-. unfold set_closer. apply inv_set_closer; auto; try exact I; intros; discriminate.
  - (* ECloseSet *)
    destruct (closers s t) eqn:CT; try discriminate.
    assert (B: match d_once d with OnceChanSelect => flag s | _ => false end = false) by (destruct (d_once d); try reflexivity; congruence).
    rewrite B in H. rewrite orb_false_r in H. injection H as <-.
    assert (CD: ctor_done s = true) by (apply (AC t); rewrite CT; discriminate).
    unfold inv; simpl. repeat split; auto.
    + intro x. destruct (Nat.eq_dec x t) as [->|N]; [rewrite upd_same; reflexivity|rewrite upd_other by exact N].
      specialize (CL x). unfold cl_ok in *; simpl. destruct (closers s x); simpl in *; tauto.
    + apply OD; assumption.
    + intros OSy x. destruct (Nat.eq_dec x t) as [->|N]; [rewrite upd_same; discriminate|rewrite upd_other by exact N; apply OS; assumption].
  - (* EWaitFast *)
    destruct (closers s t) eqn:CT; try discriminate. destruct (Nat.eqb (pre s + post s) 0) eqn:Z; [|discriminate].
    injection H as <-. apply Nat.eqb_eq in Z. pose proof (CL t) as F; rewrite CT in F. simpl in F.
    assert (CD: ctor_done s = true) by (apply FC; exact F).
    unfold set_closer. apply inv_set_closer; auto; [split; [exact F|lia]|intros; discriminate].
  - (* ESleep *)
    destruct (closers s t) eqn:CT; try discriminate. destruct (Nat.eqb (pre s + post s) 0); [discriminate|].
    injection H as <-. pose proof (CL t) as F; rewrite CT in F. simpl in F.
    assert (CD: ctor_done s = true) by (apply FC; exact F).
    unfold set_closer. apply inv_set_closer; auto; intros; discriminate.
  - (* EWake *)
    destruct (closers s t) eqn:CT; try discriminate. destruct (Nat.eqb (pre s + post s) 0) eqn:Z; [|discriminate].
    injection H as <-. apply Nat.eqb_eq in Z. pose proof (CL t) as F; rewrite CT in F. simpl in F.
    assert (CD: ctor_done s = true) by (apply FC; exact F).
    unfold set_closer. apply inv_set_closer; auto; [split; [exact F|lia]|intros; discriminate].
  - (* EResume *)
    destruct (closers s t) eqn:CT; try discriminate. pose proof (CL t) as F; rewrite CT in F. simpl in F. destruct F as [F1 F2].
    assert (B: match d_wait d with WaitWG => negb (Nat.eqb (pre s + post s) 0) | WaitChan => false end = false).
    { destruct (d_wait d); [|reflexivity]. rewrite F2, Q. reflexivity. }
    rewrite B in H. rewrite orb_false_r in H. injection H as <-.
    assert (CD: ctor_done s = true) by (apply FC; exact F1).
    apply inv_set_closer; auto; [split; assumption|intros; discriminate].
  - (* ECloseRet *)
    destruct (closers s t) eqn:CT; try discriminate.
    + (* CDone *) pose proof (CL t) as F; rewrite CT in F. simpl in F. destruct F as [F1 F2]. injection H as <-.
      assert (CD: ctor_done s = true) by (apply FC; exact F1).
      apply inv_set_closer; auto.
      * split; assumption.
      * intros OSy _. rewrite OSy. reflexivity.
      * destruct (d_once d); auto.
    + (* COnceBlocked *) destruct (once_done s) eqn:D; [|discriminate]. injection H as <-. destruct (OD eq_refl) as [F1 F2].
      assert (CD: ctor_done s = true) by (apply FC; exact F1).
      unfold set_closer. apply inv_set_closer; auto. split; assumption.
    + (* CEarly *) pose proof (CL t) as F; rewrite CT in F. contradiction.
Qed.

Lemma run_inv d evs : forall s s', good d -> inv d s -> run d s evs = Some s' -> inv d s'.
Proof.
  induction evs as [|e evs IH]; intros s s' G I H; simpl in H; [inversion H; subst; exact I|].
  destruct (step d s e) as [s1|] eqn:E; [|discriminate]. eapply IH; [exact G|eapply step_inv; eauto|exact H].
Qed.

(* Close returns only when nothing registered is alive (and nothing can be registered afterwards) *)
Theorem close_waits d evs s t :
  good d -> run d init evs = Some s -> closers s t = CReturned -> pre s = 0 /\ post s = 0.
Proof.
  intros G H C. destruct (run_inv d evs init s G (inv_init d) H) as (_ & Q & _ & _ & CL & _). specialize (CL t). rewrite C in CL. simpl in CL. tauto.
Qed.

Theorem no_panic d evs s : good d -> run d init evs = Some s -> panicked s = false /\ forall t, closers s t <> CPanicked.
Proof.
  intros G H. destruct (run_inv d evs init s G (inv_init d) H) as (P & _ & _ & _ & CL & _). split; [exact P|].
  intros t E. specialize (CL t). rewrite E in CL. exact CL.
Qed.

(* a further Close — by a thread that is not inside Close, once some Close has returned — returns, without panic *)
Theorem close_again d evs s t0 t :
  good d -> run d init evs = Some s -> closers s t0 = CReturned ->
  (closers s t = CIdle \/ closers s t = CReturned) ->
  exists evs' s', run d s evs' = Some s' /\ closers s' t = CReturned /\ panicked s' = false /\ pre s' = 0 /\ post s' = 0.
Proof.
  intros G H C0 CT. pose proof (run_inv d evs init s G (inv_init d) H) as I.
  destruct I as (P & Q & FC & AC & CL & OD & OS). pose proof (CL t0) as F; rewrite C0 in F. simpl in F. destruct F as [F1 F2].
  assert (CD: ctor_done s = true) by (apply FC; exact F1).
  destruct G as [G1 G2]. destruct (d_once d) eqn:O; [|congruence|].
  - (* OnceSync *)
    assert (D: once_done s = true) by (apply (OS eq_refl t0 C0)).
    destruct (once_taken s) eqn:TK.
    + exists [ECloseEnter t; ECloseRet t]. eexists. split.
      * simpl. destruct CT as [E|E]; repeat (rewrite ?CD, ?E, ?O, ?TK, ?upd_same, ?D; simpl); reflexivity.
      * simpl. rewrite upd_same. auto.
    + exists [ECloseEnter t; ECloseSet t; EWaitFast t; ECloseRet t]. eexists. split.
      * simpl. destruct CT as [E|E]; repeat (rewrite ?CD, ?E, ?O, ?TK, ?upd_same, ?F2, ?Q; simpl); reflexivity.
      * simpl. rewrite upd_same. rewrite P. auto.
  - (* OnceNone *)
    exists [ECloseEnter t; ECloseSet t; EWaitFast t; ECloseRet t]. eexists. split.
    + simpl. destruct CT as [E|E]; repeat (rewrite ?CD, ?E, ?O, ?upd_same, ?F2, ?Q; simpl); reflexivity.
    + simpl. rewrite upd_same. rewrite P. auto.
Qed.

(* a caller blocked in sync.Once returns as soon as the first caller has *)
Theorem once_blocked_returns d evs s t :
  run d init evs = Some s -> closers s t = COnceBlocked -> once_done s = true ->
  exists s', step d s (ECloseRet t) = Some s' /\ closers s' t = CReturned /\ panicked s' = panicked s.
Proof.
  intros _ C D. simpl. rewrite C, D. eexists. split; [reflexivity|]. simpl. rewrite upd_same. auto.
Qed.

(* ---- no registration after the closing flag --------------------------------------------------------- *)
Theorem spawn_rejected_after_flag d s :
  d_guard d = GuardLockFlag -> flag s = true -> step d s ESpawn = Some s.
Proof. intros G F. simpl. rewrite G, F. reflexivity. Qed.

Theorem spawn_impossible_after_ctor d s :
  d_guard d = GuardCtor -> ctor_done s = true -> step d s ESpawn = None.
Proof. intros G F. simpl. rewrite G, F. reflexivity. Qed.

Lemma step_flag_mono d s e s' : step d s e = Some s' -> flag s = true -> flag s' = true.
Proof.
  intros H F. destruct e; simpl in H;
    repeat match type of H with
           | context [match ?x with _ => _ end] => destruct x eqn:?; try discriminate
           end; inversion H; subst; simpl; auto.
Qed.

Lemma step_reg_noninc d s e s' :
  d_guard d = GuardLockFlag -> flag s = true -> step d s e = Some s' -> pre s' + post s' <= pre s + post s.
Proof.
  intros G F H. destruct e; simpl in H; try rewrite G in H; try rewrite F in H;
    repeat match type of H with
           | context [match ?x with _ => _ end] => destruct x eqn:?; try discriminate
           end; inversion H; subst; simpl; lia.
Qed.

Theorem no_add_after_close d evs : forall s s',
  d_guard d = GuardLockFlag -> flag s = true -> run d s evs = Some s' ->
  flag s' = true /\ pre s' + post s' <= pre s + post s.
Proof.
  induction evs as [|e evs IH]; intros s s' G F H; simpl in H; [inversion H; subst; split; [exact F|lia]|].
  destruct (step d s e) as [s1|] eqn:E; [|discriminate].
  pose proof (step_flag_mono d s e s1 E F) as F1. pose proof (step_reg_noninc d s e s1 G F E) as L.
  destruct (IH s1 s' G F1 H) as [A B]. split; [exact A|lia].
Qed.

(* ---- what is false of the code as it is -------------------------------------------------------------- *)
Definition d_keystore := desc_of CKeystore.
Definition d_rtrefresh := desc_of CRtRefresh.

(* keystore: a second Close that comes while the first is still waiting for the worker returns at once *)
Definition ks_early_trace : list ev :=
  [ESpawn; ECtorDone; ECloseEnter 0; ECloseSet 0; ESleep 0; ECloseEnter 1; ECloseRet 1].
Lemma ks_early : exists s, run d_keystore init ks_early_trace = Some s /\ closers s 1 = CReturned /\ pre s = 1.
Proof. eexists. split; [vm_compute; reflexivity|]. split; reflexivity. Qed.

(* keystore: two callers that both pass the select before either closes the channel: close of a closed channel *)
Definition ks_double_trace : list ev := [ESpawn; ECtorDone; ECloseEnter 0; ECloseEnter 1; ECloseSet 0; ECloseSet 1].
Lemma ks_double : exists s, run d_keystore init ks_double_trace = Some s /\ panicked s = true.
Proof. eexists. split; [vm_compute; reflexivity|]. reflexivity. Qed.

(* refresh manager: a Refresh registered between the wake-up and the resumption of Close's Wait: WaitGroup panic *)
Definition rt_panic_trace : list ev :=
  [ESpawn; ECtorDone; ECloseEnter 0; ECloseSet 0; ESleep 0; EExitPre; EWake 0; ESpawn; EResume 0].
Lemma rt_panic : exists s, run d_rtrefresh init rt_panic_trace = Some s /\ panicked s = true /\ closers s 0 = CPanicked.
Proof. eexists. split; [vm_compute; reflexivity|]. split; reflexivity. Qed.

(* refresh manager / value store: a goroutine registered after the flag is alive when Close returns *)
Definition rt_post_trace : list ev :=
  [ESpawn; ECtorDone; ECloseEnter 0; ECloseSet 0; ESleep 0; EExitPre; EWake 0; EResume 0; ESpawn; ECloseRet 0].
Lemma rt_post : exists s, run d_rtrefresh init rt_post_trace = Some s /\ closers s 0 = CReturned /\ post s = 1.
Proof. eexists. split; [vm_compute; reflexivity|]. split; reflexivity. Qed.

