(* Lemmas about Model/MsgSender.v: the invariant is preserved by the events prep, dialok. *)
From Verif.Lib Require Import GoSem Bits.
From Verif.Model Require Import MsgSender.
From Coq Require Import Lia.
From Verif.Proofs Require Import MsgSenderInv.

Lemma step_inv_prep s t s' : Inv s -> step s (EPrep t) = Some s' -> Inv s'.
Proof. intros I H. ev I H. Qed.

Lemma step_inv_dialok s t s' : Inv s -> step s (EDialOk t) = Some s' -> Inv s'.
Proof. intros I H. ev I H. Qed.
