(* AssignKeysToRegions and ShortestCoveredPrefix (C18). *)
From Verif.Lib Require Import GoSem Bits.
From Verif.Model Require Import Trie Keyspace.
From Verif.Proofs Require Import KeyspaceBase KeyspaceProofs KeyspaceTrie.
From Coq Require Import Permutation ZArith Lia.

(* ---- closestRegionPrefix ---------------------------------------------------------------- *)
Lemma closest_region_loop_spec h : forall rs best bc,
  (bc = Z.of_nat (cpl best h) \/ (bc = (-1)%Z /\ rs <> [])) ->
  let r := closest_region_loop rs h best bc in
  In r (best :: rs) /\ (forall p, In p rs -> cpl p h <= cpl r h) /\ (bc <= Z.of_nat (cpl r h))%Z.
Proof.
  induction rs as [|p rs IH]; intros best bc Hbc; cbv zeta.
  - simpl. destruct Hbc as [->|[_ X]]; [|congruence]. split; [left; reflexivity|]. split; [intros p []|lia].
  - cbn [closest_region_loop]. destruct (bc <? Z.of_nat (cpl p h))%Z eqn:Elt.
    + apply Z.ltb_lt in Elt.
      destruct (IH p (Z.of_nat (cpl p h)) (or_introl eq_refl)) as [A [B C]].
      split; [right; exact A|]. split; [|lia].
      intros q [<-|Hq]; [lia|apply B; exact Hq].
    + apply Z.ltb_ge in Elt. destruct Hbc as [Hbc|[Hbc _]]; [|lia].
      destruct (IH best bc (or_introl Hbc)) as [A [B C]].
      split; [destruct A as [A|A]; [left; exact A|right; right; exact A]|]. split; [|exact C].
      intros q [<-|Hq]; [lia|apply B; exact Hq].
Qed.

Lemma closest_region_prefix_spec rs h : rs <> [] ->
  exists p, closest_region_prefix rs h = Ok p /\ In p rs /\ forall q, In q rs -> cpl q h <= cpl p h.
Proof.
  intro Hne. destruct rs as [|p0 rs']; [congruence|]. unfold closest_region_prefix.
  destruct (closest_region_loop_spec h (p0 :: rs') p0 (-1)%Z) as [A [B _]]; [right; split; [reflexivity|discriminate]|].
  eexists. split; [reflexivity|]. split; [|exact B].
  destruct A as [A|A]; [rewrite <- A; left; reflexivity|exact A].
Qed.

(* the region a key goes to: the first region whose prefix matches, else one sharing the longest
   common prefix *)
Definition assigned_to (rs : list bits) (h p : bits) : Prop :=
  In p rs /\
  ((is_prefix p h = true) \/
   ((forall q, In q rs -> is_prefix q h = false) /\ forall q, In q rs -> cpl q h <= cpl p h)).

Lemma assigned_prefix_spec rs h : rs <> [] ->
  exists p, assigned_prefix rs h = Ok p /\ assigned_to rs h p.
Proof.
  intro Hne. unfold assigned_prefix. destruct (find (fun p => is_prefix p h) rs) as [p|] eqn:Ef.
  - apply find_some in Ef as [Hin Hp]. exists p. split; [reflexivity|]. split; [exact Hin|left; exact Hp].
  - destruct (closest_region_prefix_spec rs h Hne) as [p [E1 [Hin Hmax]]]. exists p. split; [exact E1|].
    split; [exact Hin|right]. split; [|exact Hmax]. intros q Hq. apply (find_none _ _ Ef q Hq).
Qed.

Section Assign.
Context {D : Type}.
Notation ent := (bits * D)%type.

Lemma assign_all_spec rs (keys : list ent) : rs <> [] ->
  exists asg, assign_all rs keys = Ok asg /\ map snd asg = keys /\
              forall p e, In (p, e) asg -> assigned_to rs (fst e) p.
Proof.
  intro Hne. induction keys as [|e keys IH].
  - exists []. simpl. split; [reflexivity|]. split; [reflexivity|]. intros p e [].
  - destruct IH as [asg [E1 [Hm Ha]]]. destruct (assigned_prefix_spec rs (fst e) Hne) as [p [E2 Hp]].
    exists ((p, e) :: asg). cbn [assign_all]. rewrite E2. cbn [bind]. rewrite E1. cbn [bind].
    split; [reflexivity|]. split; [simpl; rewrite Hm; reflexivity|].
    intros q e' [X|X]; [inversion X; subst; exact Hp|apply Ha; exact X].
Qed.

Lemma regions_keys_spec (asg : list (bits * ent)) :
  NoDup (map fst (map snd asg)) -> compat (map fst (map snd asg)) ->
  forall rs, exists out, regions_keys rs asg = Ok out /\ map fst out = rs /\
    forall q t, In (q, t) out -> wf t /\ forall e, In e (entries t) <-> In (q, e) asg.
Proof.
  intros ND Cp. induction rs as [|p rs IH].
  - exists []. simpl. split; [reflexivity|]. split; [reflexivity|]. intros q t [].
  - destruct IH as [out [E1 [Hm Ho]]]. cbn [regions_keys]. unfold entry in *.
    set (es := map snd (filter (fun x => bits_eqb (fst x) p) asg)).
    destruct (add_all_spec E es I) as [t [E2 [W A]]].
    + unfold es. rewrite map_map. rewrite map_map in ND. apply NoDup_map_filter. exact ND.
    + rewrite app_nil_r. eapply compat_incl; [|exact Cp]. intros x Hx. unfold es in Hx.
      apply in_map_iff in Hx as [e [<- He]]. apply in_map_iff in He as [y [<- Hy]]. apply filter_In in Hy as [Hy _].
      apply in_map. apply in_map. exact Hy.
    + exists ((p, t) :: out). rewrite E2. cbn [bind]. rewrite E1. cbn [bind].
      split; [reflexivity|]. split; [simpl; rewrite Hm; reflexivity|].
      intros q t' [X|X]; [|apply Ho; exact X]. inversion X; subst q t'. split; [exact W|].
      intro e. rewrite (A e). simpl. unfold keys_of. simpl. unfold es. split.
      * intros [[]|[He _]]. apply in_map_iff in He as [[q' e'] [Ee Hy]]. simpl in Ee. subst e'.
        apply filter_In in Hy as [Hy Hq]. simpl in Hq. apply bits_eqb_eq in Hq. subst q'. exact Hy.
      * intro Hin. right. split; [|intros []]. apply in_map_iff. exists (p, e). split; [reflexivity|].
        apply filter_In. split; [exact Hin|]. simpl. apply bits_eqb_refl.
Qed.

(* AssignKeysToRegions for a non-empty list of regions and keys with distinct, pairwise
   non-comparable identifiers (256-bit keys of distinct multihashes): no panic; the regions come
   back in the same order, each with a well-formed Keys trie; every key is placed in the regions
   carrying ONE prefix: the first matching prefix if one matches, otherwise a prefix sharing the
   longest common prefix with the key; nothing else is placed *)
Theorem assign_total_unique rs (keys : list ent) :
  rs <> [] -> NoDup (map fst keys) -> compat (map fst keys) ->
  exists out, assign_keys_to_regions rs keys = Ok out /\ map fst out = rs /\
    (forall q t, In (q, t) out -> wf t /\ forall e, In e (entries t) -> In e keys) /\
    (forall e, In e keys -> exists p, assigned_to rs (fst e) p /\
                                      forall q t, In (q, t) out -> (In e (entries t) <-> q = p)).
Proof.
  intros Hne ND Cp. unfold assign_keys_to_regions. destruct rs as [|p0 rs'] eqn:Ers; [congruence|]. rewrite <- Ers in *.
  destruct (assign_all_spec rs keys Hne) as [asg [E1 [Hm Ha]]]. rewrite E1. cbn [bind].
  assert (ND' : NoDup (map fst (map snd asg))) by (rewrite Hm; exact ND).
  assert (Cp' : compat (map fst (map snd asg))) by (rewrite Hm; exact Cp).
  destruct (regions_keys_spec asg ND' Cp' rs) as [out [E2 [Hf Ho]]].
  exists out. split; [exact E2|]. split; [exact Hf|]. split.
  - intros q t Hin. destruct (Ho q t Hin) as [W Hc]. split; [exact W|].
    intros e He. apply Hc in He. rewrite <- Hm. apply (in_map snd) in He. exact He.
  - intros e He. rewrite <- Hm in He. apply in_map_iff in He as [[p e'] [Ee Hin]]. simpl in Ee. subst e'.
    exists p. split; [apply (Ha p e Hin)|]. intros q t Hq. destruct (Ho q t Hq) as [_ Hc]. rewrite (Hc e). split.
    + (* e is assigned once: its key occurs once among the keys *)
      intro Hqe. clear - ND Hm Hin Hqe. subst keys.
      induction asg as [|[a b] asg IH]; [destruct Hin|]. simpl in ND. inversion ND; subst.
      destruct Hin as [X|X]; destruct Hqe as [Y|Y].
      * inversion X; inversion Y; subst. reflexivity.
      * inversion X; subst. exfalso. apply H1. apply (in_map snd) in Y. apply (in_map fst) in Y. exact Y.
      * inversion Y; subst. exfalso. apply H1. apply (in_map snd) in X. apply (in_map fst) in X. exact X.
      * apply IH; auto.
    + intros ->. exact Hin.
Qed.

End Assign.

(* ---- ShortestCoveredPrefix ---------------------------------------------------------------- *)
Lemma firstn_prefix_cpl : forall n (t k : bits), n <= length t ->
  (is_prefix (firstn n t) k = true <-> n <= cpl t k).
Proof.
  induction n as [|n IH]; intros t k Hn.
  - simpl. split; [lia|reflexivity].
  - destruct t as [|x t]; [simpl in Hn; lia|]. destruct k as [|y k]; simpl.
    + split; [discriminate|lia].
    + destruct (Bool.eqb x y) eqn:E1; simpl.
      * rewrite (IH t k) by (simpl in Hn; lia). lia.
      * split; [discriminate|lia].
Qed.

Lemma firstn_pref n (k : bits) : is_prefix (firstn n k) k = true.
Proof.
  revert k; induction n as [|n IH]; intros [|x k]; simpl; try reflexivity.
  rewrite eqb_reflx. simpl. apply IH.
Qed.

Section SCP.
Context {D : Type}.
Notation ent := (bits * D)%type.
Variable target : bits.
Notation c := (fun e : ent => cpl target (fst e)).

Lemma scp_loop_none : forall (l : list ent) i mc cc last,
  (forall e, In e l -> mc <= c e) -> scp_loop target l i mc cc last = (cc, last).
Proof.
  induction l as [|x l IH]; intros i mc cc last H; simpl; [reflexivity|].
  destruct (cpl target (fst x) <? mc) eqn:E1.
  - apply Nat.ltb_lt in E1. specialize (H x (or_introl eq_refl)). simpl in H. lia.
  - apply IH. intros e He. apply H. right. exact He.
Qed.

(* the loop stops on the first occurrence of the smallest common prefix length *)
Lemma scp_loop_some : forall (l : list ent) i mc cc last,
  (exists e, In e l /\ c e < mc) ->
  exists a e b, l = a ++ e :: b /\ c e < mc /\ (forall x, In x a -> c e < c x) /\
                (forall x, In x b -> c e <= c x) /\
                scp_loop target l i mc cc last = (S (c e), i + length a).
Proof.
  induction l as [|x l IH]; intros i mc cc last [e0 [He0 Hlt]]; [destruct He0|].
  cbn [scp_loop]. destruct (cpl target (fst x) <? mc) eqn:E1.
  - apply Nat.ltb_lt in E1.
    destruct (existsb (fun e => c e <? c x) l) eqn:Eex.
    + apply existsb_exists in Eex as [e1 [He1 Hl1]]. apply Nat.ltb_lt in Hl1.
      destruct (IH (S i) (c x) (S (c x)) i (ex_intro _ e1 (conj He1 Hl1))) as [a [e [b [El [Hm [Ha [Hb Er]]]]]]].
      exists (x :: a), e, b. split; [simpl; rewrite El; reflexivity|]. split; [simpl in *; lia|].
      split; [intros y [<-|Hy]; [exact Hm|apply Ha; exact Hy]|]. split; [exact Hb|].
      simpl in Er. rewrite Er. simpl length. f_equal. lia.
    + exists [], x, l. split; [reflexivity|]. split; [exact E1|]. split; [intros y []|].
      assert (Hall : forall y, In y l -> c x <= c y).
      { intros y Hy. destruct (Nat.lt_ge_cases (c y) (c x)) as [Hlt'|]; [|assumption].
        exfalso. assert (Ht : existsb (fun e => c e <? c x) l = true).
        { apply existsb_exists. exists y. split; [exact Hy|apply Nat.ltb_lt; exact Hlt']. }
        rewrite Ht in Eex. discriminate. }
      split; [exact Hall|]. rewrite (scp_loop_none l (S i) (c x) (S (c x)) i Hall). simpl. f_equal. lia.
  - apply Nat.ltb_ge in E1.
    assert (Hex : exists e, In e l /\ c e < mc).
    { destruct He0 as [<-|He0]; [simpl in *; lia|]. exists e0. auto. }
    destruct (IH (S i) mc cc last Hex) as [a [e [b [El [Hm [Ha [Hb Er]]]]]]].
    exists (x :: a), e, b. split; [simpl; rewrite El; reflexivity|]. split; [exact Hm|].
    split; [intros y [<-|Hy]; [simpl in *; lia|apply Ha; exact Hy]|]. split; [exact Hb|].
    rewrite Er. simpl length. f_equal. lia.
Qed.

(* ShortestCoveredPrefix is sound.  [sorted]: at least two peers, by non-increasing common prefix
   length with the target (what sorting by XOR distance to the target gives); some peer does not
   match the whole target (always the case for the 256-bit targets the provider passes);
   [swarm]: the peers are the nearest of a swarm (every swarm member is one of the peers or shares
   at most as long a prefix with the target as every peer).  Then the returned prefix is a prefix of the
   target, the returned peers are exactly the peers under it, and EVERY swarm member under the
   returned prefix is among the returned peers: the prefix is covered. *)
Theorem shortest_covered_prefix_sound (sorted swarm : list ent) :
  2 <= length sorted ->
  (forall a x b y r, sorted = a ++ x :: b ++ y :: r -> c y <= c x) ->
  (exists e, In e sorted /\ c e < length target) ->
  (forall s, In s swarm -> In s sorted \/ forall p, In p sorted -> c s <= c p) ->
  let r := shortest_covered_prefix target sorted in
  is_prefix (fst r) target = true /\
  (forall x, In x (snd r) -> In x sorted /\ is_prefix (fst r) (fst x) = true) /\
  (forall s, In s swarm -> is_prefix (fst r) (fst s) = true -> In s (snd r)) /\
  (forall x, In x sorted -> is_prefix (fst r) (fst x) = true -> In x (snd r)).
Proof.
  intros Hlen Hsorted Hguard Hswarm.
  destruct (scp_loop_some sorted 0 (length target) 0 0 Hguard) as [a [e [b [El [Hm [Ha [Hb Er]]]]]]].
  assert (Hb' : forall x, In x b -> c x = c e).
  { intros x Hx. specialize (Hb x Hx). apply in_split in Hx as [b1 [b2 Eb]].
    assert (c x <= c e) by (apply (Hsorted a e b1 x b2); rewrite El, Eb; reflexivity). lia. }
  cbv zeta. unfold shortest_covered_prefix.
  destruct sorted as [|p1 [|p2 rest]] eqn:Es; [simpl in Hlen; lia|simpl in Hlen; lia|]. rewrite <- Es in *.
  rewrite Er. cbn [fst snd]. simpl plus. unfold entry in *.
  assert (Ea : firstn (length a) sorted = a) by (rewrite El, firstn_app, Nat.sub_diag, firstn_all; simpl; apply app_nil_r).
  rewrite Ea.
  assert (Match : forall k, is_prefix (firstn (S (c e)) target) k = true <-> S (c e) <= cpl target k).
  { intro k. apply firstn_prefix_cpl. simpl in Hm. lia. }
  split; [|split; [|split]].
  - apply firstn_pref.
  - intros x Hx. split; [rewrite El; apply in_or_app; left; exact Hx|]. apply Match. specialize (Ha x Hx). simpl in Ha. lia.
  - intros s Hs Ps. apply Match in Ps.
    destruct (Hswarm s Hs) as [Hin|Hfar].
    + rewrite El in Hin. apply in_app_or in Hin as [Hin|[<-|Hin]]; [exact Hin| |].
      * simpl in Ps. lia.
      * specialize (Hb' s Hin). simpl in *. lia.
    + assert (He : In e sorted) by (rewrite El; apply in_or_app; right; left; reflexivity).
      specialize (Hfar e He). simpl in *. lia.
  - intros x Hx Px. apply Match in Px. rewrite El in Hx. apply in_app_or in Hx as [Hx|[<-|Hx]]; [exact Hx| |].
    + simpl in Px. lia.
    + specialize (Hb' x Hx). simpl in *. lia.
Qed.

End SCP.

(* F12: without the guard (some peer differs from the target within the target's length) the
   statement is false: for a short target that every peer matches, the answer is ("", no peers),
   "the whole keyspace is covered and holds nobody".  All callers pass 256-bit targets. *)
Theorem shortest_covered_prefix_short_target_refuted :
  exists (target : bits) (sorted : list (bits * nat)),
    2 <= length sorted /\
    (forall e, In e sorted -> is_prefix target (fst e) = true) /\
    shortest_covered_prefix target sorted = ([], []) /\
    ~ (forall x, In x sorted -> is_prefix (fst (shortest_covered_prefix target sorted)) (fst x) = true ->
                 In x (snd (shortest_covered_prefix target sorted))).
Proof.
  exists [true], [([true; false], 0); ([true; true], 1)].
  split; [simpl; lia|]. split; [intros e [<-|[<-|[]]]; reflexivity|]. split; [reflexivity|].
  intro H. apply (H ([true; false], 0)); [left; reflexivity|reflexivity].
Qed.
