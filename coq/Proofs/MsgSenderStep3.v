(* Lemmas about Model/MsgSender.v: the invariant is preserved by the events dialfail, writefail. *)
From Verif.Lib Require Import GoSem Bits.
From Verif.Model Require Import MsgSender.
From Coq Require Import Lia.
From Verif.Proofs Require Import MsgSenderInv.

Lemma step_inv_dialfail s t s' : Inv s -> step s (EDialFail t) = Some s' -> Inv s'.
Proof. intros I H. ev I H. Qed.

Lemma step_inv_writefail s t s' : Inv s -> step s (EWriteFail t) = Some s' -> Inv s'.
Proof. intros I H. ev I H. Qed.
