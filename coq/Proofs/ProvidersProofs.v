(* Lemmas about Model/Providers.v: the provider manager refines "the set of
   providers whose most recent addition is at most [validity] old", for every
   history, every cache size and every restart point. *)
From Verif.Lib Require Import GoSem Bits.
From Verif.Model Require Import Providers.
From Coq Require Import Lia ZifyBool ZifyNat ZifyN.

(* ---- lists ---------------------------------------------------------------- *)
Lemma NoDup_snoc_ {A} (l : list A) x : NoDup l -> ~ In x l -> NoDup (l ++ [x]).
Proof.
  induction l as [|a l IH]; intros H1 H2; simpl.
  - constructor; [intros []|constructor].
  - inversion H1 as [|? ? Ha Hl]; subst. constructor.
    + intro H. apply in_app_iff in H. destruct H as [H|[H|[]]]; [exact (Ha H)|].
      apply H2. left. symmetry. exact H.
    + apply IH; [exact Hl|]. intro H. apply H2. right. exact H.
Qed.

Lemma NoDup_map_filter {A B} (f : A -> B) (g : A -> bool) l :
  NoDup (map f l) -> NoDup (map f (filter g l)).
Proof.
  induction l as [|a l IH]; simpl; intro H; [constructor|].
  inversion H as [|? ? Ha Hl]; subst. destruct (g a); simpl; [|exact (IH Hl)].
  constructor; [|exact (IH Hl)]. intro H1. apply Ha. apply in_map_iff in H1.
  destruct H1 as [x [E Hx]]. apply filter_In in Hx. apply in_map_iff. exists x. tauto.
Qed.

Lemma In_removelast {A} (l : list A) x : In x (removelast l) -> In x l.
Proof.
  induction l as [|a l IH]; simpl; [tauto|]. destruct l as [|b l]; [intros []|].
  intros [H|H]; [left; exact H|right; exact (IH H)].
Qed.

(* ---- providerSet ------------------------------------------------------------ *)
Lemma m_put_In p t l q u :
  In (q, u) (m_put p t l) <-> (q = p /\ u = t) \/ (In (q, u) l /\ q <> p).
Proof.
  unfold m_put. rewrite in_app_iff, filter_In. simpl. split.
  - intros [[H1 H2]|[H|[]]].
    + right. split; [exact H1|]. apply negb_true_iff, N.eqb_neq in H2. exact H2.
    + inversion H. left. split; reflexivity.
  - intros [[-> ->]|[H1 H2]]; [right; left; reflexivity|]. left. split; [exact H1|].
    apply negb_true_iff, N.eqb_neq. exact H2.
Qed.

Lemma m_has_true p l : m_has p l = true <-> exists t, In (p, t) l.
Proof.
  unfold m_has. rewrite existsb_exists. split.
  - intros [[q t] [H E]]. simpl in E. apply N.eqb_eq in E. subst. exists t. exact H.
  - intros [t H]. exists (p, t). split; [exact H|]. simpl. apply N.eqb_refl.
Qed.

Record pset_wf (ps : pset) : Prop := {
  wf_nodup : NoDup (ps_providers ps);
  wf_keys : NoDup (map fst (ps_set ps));
  wf_dom : forall p, In p (ps_providers ps) <-> exists t, In (p, t) (ps_set ps) }.

Lemma pset_empty_wf : pset_wf pset_empty.
Proof. split; simpl; [constructor|constructor|]. intro p. split; [intros []|intros [t []]]. Qed.

Lemma set_val_wf ps p t : pset_wf ps -> pset_wf (set_val ps p t).
Proof.
  intros [H1 H2 H3]. split; unfold set_val; simpl.
  - destruct (m_has p (ps_set ps)) eqn:E; [exact H1|].
    apply NoDup_snoc_; [exact H1|]. intro H. apply H3 in H. apply m_has_true in H. congruence.
  - unfold m_put. rewrite map_app. simpl. apply NoDup_snoc_.
    + apply NoDup_map_filter. exact H2.
    + intro H. apply in_map_iff in H. destruct H as [[q u] [E H]]. simpl in E. subst q.
      apply filter_In in H. destruct H as [_ H]. simpl in H. rewrite N.eqb_refl in H. discriminate.
  - intro q. split.
    + intro H. destruct (N.eq_dec q p) as [->|Hn].
      * exists t. apply m_put_In. left. split; reflexivity.
      * assert (Hq : In q (ps_providers ps)).
        { destruct (m_has p (ps_set ps)); [exact H|]. apply in_app_iff in H.
          destruct H as [H|[H|[]]]; [exact H|]. congruence. }
        apply H3 in Hq. destruct Hq as [u Hu]. exists u. apply m_put_In. right. split; assumption.
    + intros [u H]. apply m_put_In in H. destruct H as [[-> ->]|[H Hn]].
      * destruct (m_has p (ps_set ps)) eqn:E.
        -- apply m_has_true in E. apply H3. exact E.
        -- apply in_app_iff. right. left. reflexivity.
      * assert (Hq : In q (ps_providers ps)) by (apply H3; exists u; exact H).
        destruct (m_has p (ps_set ps)); [exact Hq|]. apply in_app_iff. left. exact Hq.
Qed.

(* ---- datastore ---------------------------------------------------------------- *)
Definition mkrow (k : key) (p : peer) (v : option time) : row := {| r_key := k; r_peer := p; r_val := v |}.

Lemma row_is_true k p r : row_is k p r = true <-> r_key r = k /\ r_peer r = p.
Proof. unfold row_is. rewrite andb_true_iff, !N.eqb_eq. tauto. Qed.

Lemma d_put_In k p v d r :
  In r (d_put k p v d) <-> r = mkrow k p v \/ (In r d /\ row_is k p r = false).
Proof.
  unfold d_put. rewrite in_app_iff, filter_In. simpl. split.
  - intros [[H1 H2]|[H|[]]]; [right|left; symmetry; exact H].
    split; [exact H1|]. apply negb_true_iff. exact H2.
  - intros [->|[H1 H2]]; [right; left; reflexivity|]. left. split; [exact H1|]. rewrite H2. reflexivity.
Qed.

(* ---- LRU ------------------------------------------------------------------------ *)
Lemma lru_find_Some k c ps : lru_find k c = Some ps -> In (k, ps) c.
Proof.
  unfold lru_find. destruct (find (fun e => N.eqb (fst e) k) c) as [[k' v]|] eqn:E; [|discriminate].
  intro H. inversion H; subst. apply find_some in E. destruct E as [E1 E2]. simpl in E2.
  apply N.eqb_eq in E2. subst. exact E1.
Qed.

Lemma lru_find_None k c : lru_find k c = None -> forall k' ps, In (k', ps) c -> k' <> k.
Proof.
  unfold lru_find. destruct (find (fun e => N.eqb (fst e) k) c) as [e|] eqn:E; [discriminate|]. intros _ k' ps H ->.
  pose proof (find_none _ _ E _ H) as F. simpl in F. rewrite N.eqb_refl in F. discriminate.
Qed.

Lemma lru_remove_In k c k' ps : In (k', ps) (lru_remove k c) <-> In (k', ps) c /\ k' <> k.
Proof.
  unfold lru_remove. rewrite filter_In. simpl. rewrite negb_true_iff, N.eqb_neq. tauto.
Qed.

Lemma lru_touch_In k v c k' ps :
  In (k', ps) (lru_touch k v c) <-> (k' = k /\ ps = v) \/ (In (k', ps) c /\ k' <> k).
Proof.
  unfold lru_touch. simpl. rewrite lru_remove_In. split.
  - intros [H|H]; [left; inversion H; split; reflexivity|right; exact H].
  - intros [[-> ->]|H]; [left; reflexivity|right; exact H].
Qed.

(* whatever the size and the eviction order: an entry of the cache after Add is
   the added one or was there before *)
Lemma lru_add_In n k v c k' ps :
  In (k', ps) (lru_add n k v c) -> (k' = k /\ ps = v) \/ (In (k', ps) c /\ (lru_find k c <> None -> k' <> k)).
Proof.
  unfold lru_add. destruct (lru_find k c) eqn:E.
  - intro H. change ((k, v) :: lru_remove k c) with (lru_touch k v c) in H. apply lru_touch_In in H.
    destruct H as [H|[H1 H2]]; [left; exact H|right; split; [exact H1|intros _; exact H2]].
  - intro H. assert (H' : In (k', ps) ((k, v) :: c)).
    { destruct (Nat.ltb n (length ((k, v) :: c))); [apply In_removelast; exact H|exact H]. }
    destruct H' as [H'|H']; [left; inversion H'; split; reflexivity|right; split; [exact H'|congruence]].
Qed.

(* ---- expiry ------------------------------------------------------------------------ *)
Lemma expired_mono c (nw d t : N) : expired c (nw + d)%N t = false -> expired c nw t = false.
Proof. unfold expired. rewrite !N.ltb_ge. lia. Qed.

Lemma expired_fresh c nw : expired c nw nw = false.
Proof. unfold expired. rewrite N.ltb_ge. lia. Qed.

Lemma expired_false_le c nw t : expired c nw t = false <-> (nw - t <= validity c)%N.
Proof. unfold expired. rewrite N.ltb_ge. tauto. Qed.

Section WithCfg.
Variable c : cfg.

(* ---- loadProviderSet -------------------------------------------------------------------- *)
Definition load_f (nw : time) (o : pset) (r : row) : pset :=
  match r_val r with
  | Some t => if expired c nw t then o else set_val o (r_peer r) t
  | None => o
  end.

Lemma load_set_unfold nw k d : load_set c nw k d = fold_left (load_f nw) (rows_of k d) pset_empty.
Proof. reflexivity. Qed.

Lemma load_fold_wf nw rows : forall o, pset_wf o -> pset_wf (fold_left (load_f nw) rows o).
Proof.
  induction rows as [|r rows IH]; intros o H; simpl; [exact H|]. apply IH. unfold load_f.
  destruct (r_val r) as [t|]; [|exact H]. destruct (expired c nw t); [exact H|]. apply set_val_wf. exact H.
Qed.

Lemma load_fold_sound nw rows : forall o p t,
  In (p, t) (ps_set (fold_left (load_f nw) rows o)) ->
  In (p, t) (ps_set o) \/ (exists r, In r rows /\ r_peer r = p /\ r_val r = Some t /\ expired c nw t = false).
Proof.
  induction rows as [|r rows IH]; intros o p t H; simpl in *; [left; exact H|].
  apply IH in H. destruct H as [H|[r' [H1 H2]]]; [|right; exists r'; split; [right; exact H1|exact H2]].
  unfold load_f in H. destruct (r_val r) as [u|] eqn:Ev; [|left; exact H].
  destruct (expired c nw u) eqn:Ee; [left; exact H|]. simpl in H. apply m_put_In in H.
  destruct H as [[-> ->]|[H _]]; [|left; exact H].
  right. exists r. split; [left; reflexivity|]. split; [reflexivity|]. split; [exact Ev|exact Ee].
Qed.

Lemma load_fold_complete nw rows : forall o p t,
  (forall r t', In r rows -> r_peer r = p -> r_val r = Some t' -> expired c nw t' = false -> t' = t) ->
  In (p, t) (ps_set o) \/ (exists r, In r rows /\ r_peer r = p /\ r_val r = Some t /\ expired c nw t = false) ->
  In (p, t) (ps_set (fold_left (load_f nw) rows o)).
Proof.
  induction rows as [|r rows IH]; intros o p t U H; simpl.
  - destruct H as [H|[r [[] _]]]. exact H.
  - apply IH; [intros r' t' Hr'; apply U; right; exact Hr'|].
    destruct H as [H|[r' [[<-|Hr'] [E1 [E2 E3]]]]].
    + left. unfold load_f. destruct (r_val r) as [u|] eqn:Ev; [|exact H].
      destruct (expired c nw u) eqn:Ee; [exact H|]. simpl. apply m_put_In.
      destruct (N.eq_dec p (r_peer r)) as [Ep|Ep].
      * left. split; [exact Ep|]. symmetry. apply (U r u); [left; reflexivity|symmetry; exact Ep|exact Ev|exact Ee].
      * right. split; [exact H|exact Ep].
    + left. unfold load_f. rewrite E2, E3. simpl. apply m_put_In. left. split; [symmetry; exact E1|reflexivity].
    + right. exists r'. split; [exact Hr'|]. split; [exact E1|]. split; [exact E2|exact E3].
Qed.

(* ---- the refinement invariant ----------------------------------------------------------------- *)
Record Inv (s : pm) (sp : spec) : Prop := {
  i_now : now s = sp_now sp;
  i_stop : stopped s = sp_stopped sp;
  (* a decodable row carries the time of the most recent addition *)
  i_disk_spec : forall k p t, In (mkrow k p (Some t)) (disk s) -> sp_last sp k p = Some t;
  (* every record still valid is on disk *)
  i_spec_disk : forall k p t, sp_last sp k p = Some t -> expired c (sp_now sp) t = false ->
                              In (mkrow k p (Some t)) (disk s);
  (* a cached set holds the most recent times, and every record still valid *)
  i_cache : forall k ps, In (k, ps) (lru s) ->
            pset_wf ps /\
            (forall p t, In (p, t) (ps_set ps) -> sp_last sp k p = Some t) /\
            (forall p t, sp_last sp k p = Some t -> expired c (sp_now sp) t = false -> In (p, t) (ps_set ps)) }.

Lemma row_eta r : r = mkrow (r_key r) (r_peer r) (r_val r).
Proof. destruct r; reflexivity. Qed.

(* the set loaded from disk is exactly the valid part of the specification *)
Lemma load_set_spec s sp k :
  Inv s sp ->
  let out := load_set c (now s) k (disk s) in
  pset_wf out /\
  (forall p t, In (p, t) (ps_set out) -> sp_last sp k p = Some t /\ expired c (now s) t = false) /\
  (forall p t, sp_last sp k p = Some t -> expired c (sp_now sp) t = false -> In (p, t) (ps_set out)).
Proof.
  intros I out. unfold out. rewrite load_set_unfold. split; [apply load_fold_wf, pset_empty_wf|]. split.
  - intros p t H. apply load_fold_sound in H. destruct H as [[]|[r [H1 [H2 [H3 H4]]]]].
    unfold rows_of in H1. apply filter_In in H1. destruct H1 as [H1 Hk]. apply N.eqb_eq in Hk.
    split; [|exact H4]. apply (i_disk_spec _ _ I). rewrite (row_eta r) in H1. rewrite Hk, H2, H3 in H1. exact H1.
  - intros p t H1 H2. apply load_fold_complete.
    + intros r t' Hr Ep Ev _. unfold rows_of in Hr. apply filter_In in Hr. destruct Hr as [Hr Hk].
      apply N.eqb_eq in Hk. rewrite (row_eta r), Hk, Ep, Ev in Hr. apply (i_disk_spec _ _ I) in Hr. congruence.
    + right. exists (mkrow k p (Some t)). split; [|simpl; rewrite (i_now _ _ I); auto].
      unfold rows_of. apply filter_In. split; [exact (i_spec_disk _ _ I _ _ _ H1 H2)|]. simpl. apply N.eqb_refl.
Qed.

Lemma inv_add s sp k p : Inv s sp -> Inv (fst (add_provider s k p)) (spec_step sp (Add k p)).
Proof.
  intro I. unfold add_provider. simpl. rewrite <- (i_stop _ _ I). destruct (stopped s) eqn:Es; [exact I|].
  simpl. pose proof (i_now _ _ I) as En.
  assert (Hl : forall k' p', (N.eqb k' k && N.eqb p' p = true -> k' = k /\ p' = p) /\
                             (N.eqb k' k && N.eqb p' p = false -> ~ (k' = k /\ p' = p))).
  { intros k' p'. split; [rewrite andb_true_iff, !N.eqb_eq; tauto|].
    rewrite andb_false_iff, !N.eqb_neq. tauto. }
  split; simpl.
  - exact En.
  - reflexivity.
  - intros k' p' t H. apply d_put_In in H. destruct H as [H|[H1 H2]].
    + inversion H; subst. rewrite !N.eqb_refl. simpl. congruence.
    + unfold row_is in H2. simpl in H2. rewrite H2. apply (i_disk_spec _ _ I). exact H1.
  - intros k' p' t H1 H2. apply d_put_In. destruct (N.eqb k' k && N.eqb p' p) eqn:E.
    + apply Hl in E. destruct E as [-> ->]. left. inversion H1. rewrite En. reflexivity.
    + right. split; [exact (i_spec_disk _ _ I _ _ _ H1 H2)|]. unfold row_is. simpl. exact E.
  - intros k' ps H.
    assert (Hother : k' <> k -> In (k', ps) (lru s) ->
              pset_wf ps /\
              (forall p0 t, In (p0, t) (ps_set ps) ->
                 (if N.eqb k' k && N.eqb p0 p then Some (sp_now sp) else sp_last sp k' p0) = Some t) /\
              (forall p0 t, (if N.eqb k' k && N.eqb p0 p then Some (sp_now sp) else sp_last sp k' p0) = Some t ->
                 expired c (sp_now sp) t = false -> In (p0, t) (ps_set ps))).
    { intros Hn Hin. apply N.eqb_neq in Hn. rewrite Hn. simpl. exact (i_cache _ _ I _ _ Hin). }
    destruct (lru_find k (lru s)) as [ps0|] eqn:Ef.
    + apply lru_touch_In in H. destruct H as [[-> ->]|[H Hn]]; [|exact (Hother Hn H)].
      apply lru_find_Some in Ef. destruct (i_cache _ _ I _ _ Ef) as [W [A B]]. rewrite N.eqb_refl. simpl.
      split; [apply set_val_wf; exact W|]. split.
      * intros q u H. apply m_put_In in H. destruct H as [[-> ->]|[H Hn]].
        -- rewrite N.eqb_refl. congruence.
        -- apply N.eqb_neq in Hn. rewrite Hn. exact (A _ _ H).
      * intros q u H1 H2. apply m_put_In. destruct (N.eqb q p) eqn:E.
        -- apply N.eqb_eq in E. left. split; [exact E|]. congruence.
        -- right. split; [exact (B _ _ H1 H2)|]. apply N.eqb_neq. exact E.
    + exact (Hother (lru_find_None _ _ Ef _ _ H) H).
Qed.

Lemma inv_get s sp k : Inv s sp -> Inv (fst (get_providers c s k)) sp.
Proof.
  intro I. unfold get_providers. destruct (stopped s) eqn:Es; [exact I|].
  destruct (get_set c s k) as [ps s'] eqn:G. simpl. unfold get_set in G.
  destruct (lru_find k (lru s)) as [ps0|] eqn:Ef.
  - inversion G; subst; clear G. apply lru_find_Some in Ef. destruct (i_cache _ _ I _ _ Ef) as [W [A B]].
    split; simpl; try apply I; try (pose proof (i_stop _ _ I); congruence).
    intros k' ps H. apply lru_touch_In in H. destruct H as [[-> ->]|[H _]]; [|exact (i_cache _ _ I _ _ H)].
    split; [|split]; simpl.
    + split; simpl.
      * apply NoDup_map_filter. exact (wf_keys _ W).
      * apply NoDup_map_filter. exact (wf_keys _ W).
      * intro p. rewrite in_map_iff. split.
        -- intros [[q t] [E H]]. simpl in E. subst q. exists t. exact H.
        -- intros [t H]. exists (p, t). split; [reflexivity|exact H].
    + intros p t H. apply filter_In in H. apply A. tauto.
    + intros p t H1 H2. apply filter_In. split; [exact (B _ _ H1 H2)|]. simpl.
      rewrite (i_now _ _ I), H2. reflexivity.
  - inversion G; subst; clear G. destruct (load_set_spec s sp k I) as [W [A B]].
    split; simpl; try apply I; try (pose proof (i_stop _ _ I); congruence).
    + intros k' p t H. unfold load_disk in H. apply filter_In in H. apply (i_disk_spec _ _ I). tauto.
    + intros k' p t H1 H2. unfold load_disk. apply filter_In. split; [exact (i_spec_disk _ _ I _ _ _ H1 H2)|].
      simpl. unfold row_dead. simpl. rewrite (i_now _ _ I), H2, andb_false_r. reflexivity.
    + intros k' ps H.
      assert (H' : (k' = k /\ ps = load_set c (now s) k (disk s)) \/ In (k', ps) (lru s)).
      { destruct (ps_providers (load_set c (now s) k (disk s))); [right; exact H|].
        apply lru_add_In in H. tauto. }
      destruct H' as [[-> ->]|H']; [|exact (i_cache _ _ I _ _ H')].
      split; [exact W|]. split; [|exact B]. intros p t Hp. exact (proj1 (A _ _ Hp)).
Qed.

Lemma inv_gc s sp : Inv s sp -> Inv (gc c s) sp.
Proof.
  intro I. unfold gc. destruct (stopped s) eqn:Es; [exact I|]. split; simpl; try apply I; try (pose proof (i_stop _ _ I); congruence).
  - intros k p t H. apply filter_In in H. apply (i_disk_spec _ _ I). tauto.
  - intros k p t H1 H2. apply filter_In. split; [exact (i_spec_disk _ _ I _ _ _ H1 H2)|].
    unfold row_dead. simpl. rewrite (i_now _ _ I), H2. reflexivity.
Qed.

Lemma inv_step s sp o : Inv s sp -> Inv (fst (step c s o)) (spec_step sp o).
Proof.
  intro I. destruct o as [k p|k|d| | |].
  - apply inv_add. exact I.
  - apply inv_get. exact I.
  - simpl. split; simpl.
    + rewrite (i_now _ _ I). reflexivity.
    + apply I.
    + apply I.
    + intros k p t H1 H2. apply expired_mono in H2. exact (i_spec_disk _ _ I _ _ _ H1 H2).
    + intros k ps H. destruct (i_cache _ _ I _ _ H) as [W [A B]]. split; [exact W|]. split; [exact A|].
      intros p t H1 H2. apply expired_mono in H2. exact (B _ _ H1 H2).
  - apply inv_gc. exact I.
  - simpl. split; simpl; try apply I; [reflexivity|]. intros k ps [].
  - simpl. split; simpl; try apply I. reflexivity.
Qed.

Lemma inv_run ops : forall s sp, Inv s sp -> Inv (run c s ops) (spec_run sp ops).
Proof.
  induction ops as [|o ops IH]; intros s sp I; simpl; [exact I|].
  apply IH. apply inv_step. exact I.
Qed.

Lemma garbage_rows g : forall d, (forall r, In r d -> r_val r = None) ->
  forall r, In r (fold_left (fun d kp => d_put (fst kp) (snd kp) None d) g d) -> r_val r = None.
Proof.
  induction g as [|kp g IH]; intros d H r Hr; simpl in Hr; [exact (H r Hr)|].
  apply (IH (d_put (fst kp) (snd kp) None d)); [|exact Hr].
  intros r0 H0. apply d_put_In in H0. destruct H0 as [->|[H0 _]]; [reflexivity|exact (H r0 H0)].
Qed.

Lemma inv_init t0 g : Inv (init t0 g) (spec0 t0).
Proof.
  split; simpl; try reflexivity.
  - intros k p t H. apply garbage_rows in H; [discriminate|intros r []].
  - intros k p t H. discriminate.
  - intros k ps [].
Qed.

(* ---- what GetProviders returns in a state that satisfies the invariant ---------------------------- *)
Lemma get_spec s sp k :
  Inv s sp ->
  match snd (get_providers c s k) with
  | RProvs ps => sp_stopped sp = false /\ NoDup ps /\ (forall p, In p ps <-> spec_serves c sp k p = true)
  | RClosed => sp_stopped sp = true
  | _ => False
  end.
Proof.
  intro I. unfold get_providers. rewrite <- (i_stop _ _ I). destruct (stopped s) eqn:Es; simpl; [reflexivity|].
  destruct (get_set c s k) as [ps s'] eqn:G. simpl. split; [reflexivity|]. unfold get_set in G.
  assert (Hs : forall p, spec_serves c sp k p = true <-> exists t, sp_last sp k p = Some t /\ expired c (sp_now sp) t = false).
  { intros p. unfold spec_serves. destruct (sp_last sp k p) as [t|].
    - rewrite negb_true_iff. split; [intro H; exists t; auto|intros [t' [E H]]; congruence].
    - split; [discriminate|intros [t' [E _]]; discriminate]. }
  destruct (lru_find k (lru s)) as [ps0|] eqn:Ef.
  - inversion G; subst; clear G. simpl. apply lru_find_Some in Ef. destruct (i_cache _ _ I _ _ Ef) as [W [A B]].
    split; [apply NoDup_map_filter; exact (wf_keys _ W)|]. intro p. rewrite (Hs p), in_map_iff. split.
    + intros [[q t] [E H]]. simpl in E. subst q. apply filter_In in H. destruct H as [H1 H2]. simpl in H2.
      exists t. split; [exact (A _ _ H1)|]. rewrite <- (i_now _ _ I). apply negb_true_iff. exact H2.
    + intros [t [H1 H2]]. exists (p, t). split; [reflexivity|]. apply filter_In. split; [exact (B _ _ H1 H2)|].
      simpl. rewrite (i_now _ _ I), H2. reflexivity.
  - inversion G; subst; clear G. destruct (load_set_spec s sp k I) as [W [A B]].
    split; [exact (wf_nodup _ W)|]. intro p. rewrite (Hs p), (wf_dom _ W). split.
    + intros [t H]. exists t. destruct (A _ _ H) as [H1 H2]. split; [exact H1|]. rewrite <- (i_now _ _ I). exact H2.
    + intros [t [H1 H2]]. exists t. exact (B _ _ H1 H2).
Qed.

End WithCfg.

(* ---- histories ---------------------------------------------------------------------------------------- *)
Lemma run_app c ops1 : forall s ops2, run c s (ops1 ++ ops2) = run c (run c s ops1) ops2.
Proof. induction ops1 as [|o ops1 IH]; intros s ops2; simpl; [reflexivity|apply IH]. Qed.

Lemma spec_run_app sp ops1 ops2 : spec_run sp (ops1 ++ ops2) = spec_run (spec_run sp ops1) ops2.
Proof. unfold spec_run. apply fold_left_app. Qed.

(* get_refines + no_dup_no_foreign, for every cache size, validity, initial
   garbage and history (which may contain restarts and garbage collections at
   every position) *)
Theorem get_refines c t0 g ops k :
  let s := run c (init t0 g) ops in
  let sp := spec_run (spec0 t0) ops in
  match snd (get_providers c s k) with
  | RProvs ps => sp_stopped sp = false /\ NoDup ps /\ (forall p, In p ps <-> spec_serves c sp k p = true)
  | RClosed => sp_stopped sp = true
  | _ => False
  end.
Proof. intros s sp. apply get_spec. apply inv_run. apply inv_init. Qed.

Lemma serves_added c sp k p : spec_serves c sp k p = true ->
  exists t, sp_last sp k p = Some t /\ (sp_now sp - t <= validity c)%N.
Proof.
  unfold spec_serves. destruct (sp_last sp k p) as [t|]; [|discriminate]. rewrite negb_true_iff.
  intro H. exists t. split; [reflexivity|]. apply expired_false_le. exact H.
Qed.

Theorem no_dup_no_foreign c t0 g ops k ps :
  snd (get_providers c (run c (init t0 g) ops) k) = RProvs ps ->
  NoDup ps /\ forall p, In p ps -> exists t, sp_last (spec_run (spec0 t0) ops) k p = Some t.
Proof.
  intro H. pose proof (get_refines c t0 g ops k) as R. simpl in R. rewrite H in R.
  destruct R as [_ [N S]]. split; [exact N|]. intros p Hp. apply S in Hp. apply serves_added in Hp.
  destruct Hp as [t [Hp _]]. exists t. exact Hp.
Qed.

(* [last] is "added": it is only ever set by an Add of that key and peer in the history *)
Lemma last_is_add ops : forall sp k p t,
  sp_last (spec_run sp ops) k p = Some t -> sp_last sp k p = Some t \/ In (Add k p) ops.
Proof.
  induction ops as [|o ops IH]; intros sp k p t H; simpl in *; [left; exact H|].
  apply IH in H. destruct H as [H|H]; [|right; right; exact H].
  destruct o as [k' p'|k'|d| | |]; simpl in H; try (left; exact H).
  destruct (sp_stopped sp); [left; exact H|]. simpl in H.
  destruct (N.eqb k k' && N.eqb p p') eqn:E; [|left; exact H].
  apply andb_true_iff in E. destruct E as [E1 E2]. apply N.eqb_eq in E1, E2. subst. right. left. reflexivity.
Qed.

(* restart: durability of every acknowledged add *)
Theorem restart_durable c t0 g ops k :
  exists ps, snd (get_providers c (run c (init t0 g) (ops ++ [Restart])) k) = RProvs ps /\
             NoDup ps /\
             forall p, In p ps <-> spec_serves c (spec_run (spec0 t0) ops) k p = true.
Proof.
  pose proof (get_refines c t0 g (ops ++ [Restart]) k) as R. simpl in R.
  rewrite spec_run_app in R. simpl in R.
  destruct (snd (get_providers c (run c (init t0 g) (ops ++ [Restart])) k)) as [| | |ps]; try contradiction.
  - simpl in R. discriminate.
  - exists ps. split; [reflexivity|]. destruct R as [_ [N S]]. split; [exact N|]. exact S.
Qed.

Lemma inv_restart c s sp : Inv c s sp -> Inv c (fst (step c s Restart)) (spec_step sp Restart).
Proof. apply inv_step. Qed.

(* gc deletes exactly the undecodable and the expired rows, and nothing else changes *)
Theorem gc_only_expired c s :
  stopped s = false ->
  (forall r, In r (disk (gc c s)) <->
             In r (disk s) /\ exists t, r_val r = Some t /\ (now s - t <= validity c)%N) /\
  lru (gc c s) = lru s /\ now (gc c s) = now s /\ stopped (gc c s) = false.
Proof.
  intro Es. unfold gc. rewrite Es. simpl. split; [|auto]. intro r. rewrite filter_In. unfold row_dead.
  split.
  - intros [H1 H2]. split; [exact H1|]. destruct (r_val r) as [t|]; [|discriminate].
    exists t. split; [reflexivity|]. apply expired_false_le. apply negb_true_iff. exact H2.
  - intros [H1 [t [E H2]]]. split; [exact H1|]. rewrite E. apply negb_true_iff. apply expired_false_le. exact H2.
Qed.

Lemma gc_stopped c s : stopped s = true -> gc c s = s.
Proof. intro E. unfold gc. rewrite E. reflexivity. Qed.

(* closed *)
Definition is_restart (o : op) : bool := match o with Restart => true | _ => false end.
Definition closed_result (o : op) : result :=
  match o with Add _ _ | Get _ => RClosed | _ => RNone end.

Lemma closed_step c s o :
  stopped s = true -> is_restart o = false ->
  stopped (fst (step c s o)) = true /\ disk (fst (step c s o)) = disk s /\ jn (fst (step c s o)) = jn s /\
  snd (step c s o) = closed_result o.
Proof.
  intros Es Hr. destruct o as [k p|k|d| | |]; simpl in *; try discriminate;
    unfold add_provider, get_providers; try rewrite (gc_stopped c s Es); try rewrite Es; simpl; auto.
Qed.

Theorem closed_history c ops : forall s,
  stopped s = true -> forallb (fun o => negb (is_restart o)) ops = true ->
  stopped (run c s ops) = true /\ disk (run c s ops) = disk s /\ jn (run c s ops) = jn s /\
  run_obs c s ops = map closed_result ops.
Proof.
  induction ops as [|o ops IH]; intros s Es H; simpl; [auto|].
  simpl in H. apply andb_true_iff in H. destruct H as [H1 H2]. apply negb_true_iff in H1.
  destruct (closed_step c s o Es H1) as [A [B [C D]]].
  destruct (IH _ A H2) as [A' [B' [C' D']]].
  rewrite A', B', C', D', B, C, D. auto.
Qed.

Lemma close_stops c s : stopped (fst (step c s Close)) = true /\ disk (fst (step c s Close)) = disk s /\
                        jn (fst (step c s Close)) = jn s.
Proof. simpl. auto. Qed.

(* ---- handleAddProvider ---------------------------------------------------------------------------------- *)
Theorem add_provider_gate filt store_ok sender keylen pis res stored :
  handle_add_provider filt store_ok sender keylen pis = (res, stored) ->
  (forall p addrs, In (p, addrs) stored ->
     p = sender /\ 1 <= keylen <= 80 /\ store_ok = true /\
     exists pi, In pi pis /\ pi_id pi = sender /\ pi_addrs pi <> [] /\
                addrs = filter filt (pi_addrs pi) /\ (forall a, In a addrs -> filt a = true /\ In a (pi_addrs pi))) /\
  (res = GStored <-> stored <> []).
Proof.
  unfold handle_add_provider. destruct (Nat.ltb 80 keylen) eqn:E1.
  { intro H. inversion H; subst. split; [intros ? ? []|]. split; [discriminate|intro F; contradiction]. }
  destruct (Nat.eqb keylen 0) eqn:E2.
  { intro H. inversion H; subst. split; [intros ? ? []|]. split; [discriminate|intro F; contradiction]. }
  apply Nat.ltb_ge in E1. apply Nat.eqb_neq in E2.
  destruct (gate_calls filt sender pis) as [|c0 calls] eqn:G.
  { intro H. inversion H; subst. split; [intros ? ? []|]. split; [discriminate|intro F; contradiction]. }
  destruct store_ok.
  2:{ intro H. inversion H; subst. split; [intros ? ? []|]. split; [discriminate|intro F; contradiction]. }
  intro H. inversion H; subst. split; [|split; [discriminate|reflexivity]].
  intros p addrs Hin. rewrite <- G in Hin. unfold gate_calls in Hin. apply in_map_iff in Hin.
  destruct Hin as [pi [E Hpi]]. inversion E; subst. apply filter_In in Hpi. destruct Hpi as [Hpi Hc].
  apply andb_true_iff in Hc. destruct Hc as [Hid Hlen]. apply N.eqb_eq in Hid.
  apply negb_true_iff, Nat.ltb_ge in Hlen.
  split; [exact Hid|]. split; [lia|]. split; [reflexivity|]. exists pi. split; [exact Hpi|]. split; [exact Hid|].
  split; [destruct (pi_addrs pi); [simpl in Hlen; lia|discriminate]|]. split; [reflexivity|].
  intros a Ha. apply filter_In in Ha. tauto.
Qed.
