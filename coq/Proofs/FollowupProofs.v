From Verif.Lib Require Import GoSem.
From Verif.Model Require Import Followup.

(* tokens received never exceed the n that will ever be sent; in the loop every
   received token was counted; while draining, exactly the outstanding tokens are awaited *)
Definition FInv (s : fstate) : Prop :=
  f_recv s <= f_n s /\
  match f_phase s with
  | FLoop => f_counted s = f_recv s /\ f_i s = f_recv s /\ f_recv s < f_n s
  | FDrain r => 0 < r /\ r + f_recv s = f_n s /\ f_completed s = false
  | FReturned => f_completed s = false -> f_recv s = f_n s
  end.

Lemma finit_inv n b : FInv (finit n b).
Proof. unfold FInv, finit. destruct n; simpl; repeat split; auto; lia. Qed.

Lemma after_loop_inv s : f_recv s <= f_n s -> f_counted s = f_recv s -> (f_completed s = true -> f_recv s = f_n s) ->
  FInv (after_loop s).
Proof.
  intros H1 H2 H3. unfold after_loop, FInv. destruct (f_completed s) eqn:C; simpl.
  - split; [exact H1|]. discriminate.
  - split; [exact H1|]. destruct (f_n s - f_counted s) eqn:E; simpl; [intros _; lia|]. repeat split; lia.
Qed.

Lemma fstep_inv s e s' : FInv s -> fstep s e = Some s' -> FInv s' /\ f_n s' = f_n s.
Proof.
  intros [H0 H] E. unfold fstep in E. destruct (f_phase s) as [|r|] eqn:P.
  - destruct H as (A & B & C). destruct e as [stop|].
    + destruct stop.
      * inversion E; subst; clear E. split.
        -- apply after_loop_inv; simpl; try lia. destruct (Nat.ltb (f_i s) (f_n s - 1)) eqn:L; [discriminate|].
           apply Nat.ltb_ge in L. intros _. lia.
        -- unfold after_loop; simpl. destruct (if Nat.ltb (f_i s) (f_n s - 1) then false else f_completed s); reflexivity.
      * destruct (Nat.eqb (S (f_i s)) (f_n s)) eqn:L; inversion E; subst; clear E.
        -- apply Nat.eqb_eq in L. split; [apply after_loop_inv; simpl; lia|unfold after_loop; simpl; destruct (f_completed s); reflexivity].
        -- apply Nat.eqb_neq in L. split; [|reflexivity]. unfold FInv; simpl. repeat split; lia.
    + inversion E; subst; clear E. split; [apply after_loop_inv; simpl; try lia; discriminate|reflexivity].
  - destruct r as [|r]; [destruct e; discriminate|]. destruct e as [stop|]; [|discriminate].
    inversion E; subst; clear E. destruct H as (A & B & C). split; [|reflexivity].
    unfold FInv; simpl. split; [lia|]. destruct r; simpl; [intros _; lia|repeat split; lia || exact C].
  - destruct e; discriminate.
Qed.

Lemma frun_inv evs : forall s s', FInv s -> frun s evs = Some s' -> FInv s' /\ f_n s' = f_n s.
Proof.
  induction evs as [|e evs IH]; intros s s' I H; simpl in H; [inversion H; subst; auto|].
  destruct (fstep s e) as [s1|] eqn:E; [|discriminate].
  destruct (fstep_inv s e s1 I E) as [I1 N1]. destruct (IH s1 s' I1 H) as [I' N']. split; [exact I'|congruence].
Qed.

(* the function cannot wait for a token that will never come: while it has not
   returned, fewer than n tokens were received, and receiving one is a step *)
Lemma waiting_is_justified s : FInv s -> f_phase s <> FReturned ->
  f_recv s < f_n s /\ exists s', fstep s (FDone false) = Some s'.
Proof.
  intros [H0 H] P. unfold fstep. destruct (f_phase s) as [|r|] eqn:E; [| |congruence].
  - destruct H as (A & B & C). split; [exact C|]. destruct (Nat.eqb (S (f_i s)) (f_n s)); eauto.
  - destruct H as (A & B & C). split; [lia|]. destruct r; [lia|eauto].
Qed.
