(* Lemmas about Model/Crawler.v: an invariant of the work list preserved by
   every event, hence by every schedule; what holds when the loop ends;
   a bound on the length of any schedule; progress. *)
From Coq Require Import Lia ZifyBool ZifyNat ZifyN Permutation.
From Verif.Lib Require Import GoSem Bits.
From Verif.Model Require Import Crawler.

Lemma cmem_in x l : cmem x l = true <-> In x l.
Proof.
  unfold cmem. rewrite existsb_exists. split.
  - intros (y & Hin & He). apply N.eqb_eq in He. subst. exact Hin.
  - intro H. exists x. split; [exact H|apply N.eqb_refl].
Qed.
Lemma cmem_not_in x l : cmem x l = false <-> ~ In x l.
Proof. rewrite <- cmem_in. destruct (cmem x l); split; congruence. Qed.

(* add_new appends the same fresh peers to both lists *)
Lemma add_new_spec data : forall seen todial,
  exists fresh, add_new data seen todial = (seen ++ fresh, todial ++ fresh) /\
    NoDup fresh /\ (forall x, In x fresh -> ~ In x seen /\ In x data) /\
    (forall x, In x data -> In x (seen ++ fresh)).
Proof.
  induction data as [|q r IH]; intros seen todial; cbn [add_new].
  - exists []. rewrite !app_nil_r. split; [reflexivity|]. split; [constructor|]. split; [intros ? []|intros ? []].
  - destruct (cmem q seen) eqn:E.
    + apply cmem_in in E. destruct (IH seen todial) as (fresh & He & Hnd & Hf & Hall).
      exists fresh. split; [exact He|]. split; [exact Hnd|]. split.
      * intros x Hx. destruct (Hf x Hx). split; [assumption|right; assumption].
      * intros x [<-|Hx]; [apply in_or_app; left; exact E|apply Hall, Hx].
    + apply cmem_not_in in E.
      destruct (IH (seen ++ [q]) (todial ++ [q])) as (fresh & He & Hnd & Hf & Hall).
      exists (q :: fresh). rewrite He, <- !app_assoc. cbn [app]. split; [reflexivity|]. split.
      * constructor; [|exact Hnd]. intro Hq. destruct (Hf q Hq) as [Hn _]. apply Hn, in_or_app. right. left. reflexivity.
      * split.
        -- intros x [<-|Hx]; [split; [exact E|left; reflexivity]|].
           destruct (Hf x Hx) as [Hn Hd]. split; [intro; apply Hn, in_or_app; left; assumption|right; exact Hd].
        -- intros x Hx. destruct Hx as [<-|Hx].
           ++ apply in_or_app. right. left. reflexivity.
           ++ specialize (Hall x Hx). rewrite <- app_assoc in Hall. exact Hall.
Qed.

Lemma remove_nth_perm {A} (l : list A) i p :
  nth_error l i = Some p -> Permutation l (p :: remove_nth i l).
Proof.
  revert i. induction l as [|x l IH]; intros [|i] H; cbn in *; try discriminate.
  - inversion H; subst. reflexivity.
  - rewrite (IH i H) at 1. apply perm_swap.
Qed.

Lemma nodup_app {A} (a b : list A) :
  NoDup a -> NoDup b -> (forall x, In x a -> ~ In x b) -> NoDup (a ++ b).
Proof.
  induction a as [|x a IH]; intros Ha Hb Hd; [exact Hb|].
  inversion Ha as [|? ? Hnin Ha']; subst. cbn. constructor.
  - intro Hin. apply in_app_or in Hin as [Hin|Hin]; [contradiction|]. apply (Hd x); [left; reflexivity|exact Hin].
  - apply IH; auto. intros y Hy. apply Hd. right. exact Hy.
Qed.

Lemma crun_app net par e1 : forall e2 s,
  crun net par (e1 ++ e2) s =
  match crun net par e1 s with Some s' => crun net par e2 s' | None => None end.
Proof.
  induction e1 as [|e e1 IH]; intros e2 s; [reflexivity|]. cbn.
  destruct (cstep net par s e); [apply IH|reflexivity].
Qed.

Section Crawl.
Variable net : cnet.
Variable par : nat.
Variable S0 : list N.

Definition outcome (p : N) : bool := match net p with [] => false | _ => true end.

Record cinv (s : cstate) : Prop := {
  i_perm : Permutation (c_disp s ++ c_todial s) (c_seen s);
  i_seen : exists extra, c_seen s = S0 ++ extra /\ NoDup extra /\ (forall x, In x extra -> ~ In x S0);
  i_cb : Permutation (c_disp s) (map fst (c_cb s) ++ c_out s);
  i_reach : forall p, In p (c_seen s) -> reachable net S0 p;
  i_closed : forall p, In (p, true) (c_cb s) -> incl (net p) (c_seen s);
  i_outcome : forall p b, In (p, b) (c_cb s) -> b = outcome p
}.

Lemma cstep_inv s e s' : cinv s -> cstep net par s e = Some s' -> cinv s'.
Proof.
  intros [Hperm Hseen Hcb Hreach Hclosed Hout] H. destruct e as [|i]; cbn [cstep] in H.
  - destruct (c_todial s) as [|p r] eqn:Et; [discriminate|].
    destruct (length (c_out s) <=? par); [|discriminate]. inversion H; subst s'. clear H.
    constructor; cbn [c_disp c_todial c_seen c_cb c_out]; auto.
    + rewrite <- app_assoc. exact Hperm.
    + rewrite Hcb, <- app_assoc. reflexivity.
  - destruct (par =? 0); [discriminate|].
    destruct (nth_error (c_out s) i) as [p|] eqn:En; [|discriminate].
    pose proof (remove_nth_perm _ _ _ En) as Hrm.
    assert (Hp_seen : In p (c_seen s)).
    { eapply Permutation_in; [exact Hperm|]. apply in_or_app. left.
      eapply Permutation_in; [symmetry; exact Hcb|]. apply in_or_app. right.
      eapply nth_error_In; eauto. }
    assert (Hcb' : forall b, Permutation (c_disp s) (map fst (c_cb s ++ [(p, b)]) ++ remove_nth i (c_out s))).
    { intro b. rewrite Hcb, map_app, <- app_assoc. cbn [map fst app].
      apply Permutation_app_head. exact Hrm. }
    destruct (net p) as [|d ds] eqn:Enet.
    + inversion H; subst s'. clear H.
      constructor; cbn [c_disp c_todial c_seen c_cb c_out]; auto.
      * intros q Hq. apply in_app_or in Hq as [Hq|[Hq|[]]]; [apply Hclosed, Hq|discriminate].
      * intros q b Hq. apply in_app_or in Hq as [Hq|[Hq|[]]]; [apply Hout, Hq|].
        inversion Hq; subst. unfold outcome. rewrite Enet. reflexivity.
    + destruct (add_new_spec (d :: ds) (c_seen s) (c_todial s)) as (fresh & He & Hnd & Hf & Hall).
      rewrite He in H. inversion H; subst s'. clear H.
      constructor; cbn [c_disp c_todial c_seen c_cb c_out]; auto.
      * rewrite app_assoc. apply Permutation_app_tail. exact Hperm.
      * destruct Hseen as (extra & Hs & Hnde & Hdis). exists (extra ++ fresh).
        split; [rewrite Hs, app_assoc; reflexivity|]. split.
        -- apply nodup_app; [exact Hnde|exact Hnd|].
           intros x Hx Hxf. destruct (Hf x Hxf) as [Hn _]. apply Hn. rewrite Hs. apply in_or_app. right. exact Hx.
        -- intros x Hx. apply in_app_or in Hx as [Hx|Hx]; [apply Hdis, Hx|].
           destruct (Hf x Hx) as [Hn _]. intro Hx0. apply Hn. rewrite Hs. apply in_or_app. left. exact Hx0.
      * intros q Hq. apply in_app_or in Hq as [Hq|Hq]; [apply Hreach, Hq|].
        destruct (Hf q Hq) as [_ Hd]. eapply reach_step; [apply Hreach, Hp_seen|]. rewrite Enet. exact Hd.
      * intros q Hq. apply in_app_or in Hq as [Hq|[Hq|[]]].
        -- intros x Hx. apply in_or_app. left. apply (Hclosed q Hq), Hx.
        -- inversion Hq; subst. rewrite Enet. intros x Hx. apply Hall, Hx.
      * intros q b Hq. apply in_app_or in Hq as [Hq|[Hq|[]]]; [apply Hout, Hq|].
        inversion Hq; subst. unfold outcome. rewrite Enet. reflexivity.
Qed.
End Crawl.

Lemma uniq_acc_spec l : forall acc, NoDup acc ->
  NoDup (uniq_acc l acc) /\ forall x, In x (uniq_acc l acc) <-> In x acc \/ In x l.
Proof.
  induction l as [|y l IH]; intros acc Hnd; cbn [uniq_acc].
  - split; [exact Hnd|]. intro x. cbn. tauto.
  - destruct (cmem y acc) eqn:E.
    + apply cmem_in in E. destruct (IH acc Hnd) as [H1 H2]. split; [exact H1|].
      intro x. rewrite H2. cbn. split; [tauto|]. intros [H|[<-|H]]; auto.
    + apply cmem_not_in in E.
      destruct (IH (acc ++ [y])) as [H1 H2].
      { apply nodup_app; [exact Hnd|repeat constructor; intros []|]. intros x Hx [<-|[]]. contradiction. }
      split; [exact H1|]. intro x. rewrite H2, in_app_iff. cbn. tauto.
Qed.
Lemma uniq_nodup l : NoDup (uniq l).
Proof. apply (uniq_acc_spec l []). constructor. Qed.
Lemma uniq_in l x : In x (uniq l) <-> In x l.
Proof. unfold uniq. rewrite (proj2 (uniq_acc_spec l [] (NoDup_nil _))). cbn. tauto. Qed.

Lemma reachable_ext net A B p :
  (forall x, In x A <-> In x B) -> reachable net A p -> reachable net B p.
Proof.
  intros H. induction 1 as [p Hp|p q _ IH Hq]; [apply reach_seed, H, Hp|eapply reach_step; eauto].
Qed.

Lemma init_inv net seeds : cinv net (uniq (dialable seeds)) (crawl_init seeds).
Proof.
  unfold crawl_init. constructor; cbn.
  - reflexivity.
  - exists []. rewrite app_nil_r. split; [reflexivity|]. split; [constructor|intros ? []].
  - reflexivity.
  - intros p Hp. apply reach_seed, Hp.
  - intros ? [].
  - intros ? ? [].
Qed.

Lemma crun_inv net par S0 evs : forall s s',
  cinv net S0 s -> crun net par evs s = Some s' -> cinv net S0 s'.
Proof.
  induction evs as [|e evs IH]; intros s s' Hi H; cbn in H; [inversion H; subst; exact Hi|].
  destruct (cstep net par s e) as [s1|] eqn:E; [|discriminate].
  eapply IH; [eapply cstep_inv; eauto|exact H].
Qed.

Lemma cfinished_spec s : cfinished s = true <-> c_todial s = [] /\ c_out s = [].
Proof.
  unfold cfinished. destruct (c_todial s), (c_out s); split; intros H; try discriminate; auto;
    destruct H; discriminate.
Qed.

(* every event is a hand-over or a callback *)
Lemma crun_count net par evs : forall s s',
  crun net par evs s = Some s' ->
  length (c_disp s') + length (c_cb s') = length evs + length (c_disp s) + length (c_cb s).
Proof.
  induction evs as [|e evs IH]; intros s s' H; cbn in H; [inversion H; subst; cbn; lia|].
  destruct (cstep net par s e) as [s1|] eqn:E; [|discriminate].
  rewrite (IH _ _ H). cbn [length].
  destruct e as [|i]; cbn [cstep] in E.
  - destruct (c_todial s); [discriminate|]. destruct (_ <=? par); [|discriminate].
    inversion E; subst s1. cbn. rewrite app_length. cbn. lia.
  - destruct (par =? 0); [discriminate|]. destruct (nth_error _ i); [|discriminate].
    destruct (net n).
    + inversion E; subst s1. cbn. rewrite app_length. cbn. lia.
    + destruct (add_new _ _ _). inversion E; subst s1. cbn. rewrite app_length. cbn. lia.
Qed.

Section Main.
Variable net : cnet.
Variable par : nat.
Variable seeds : list (N * bool).
Let S0 := uniq (dialable seeds).

(* 6. crawl_once: whatever the schedule, when the loop ends the peers queried
   are exactly the reachable ones, one callback each with the right outcome;
   each exactly once when the dialable starting peers are pairwise different *)
Theorem crawl_once evs s :
  crun net par evs (crawl_init seeds) = Some s -> cfinished s = true ->
  (forall p, In p (c_disp s) <-> reachable net (dialable seeds) p) /\
  Permutation (map fst (c_cb s)) (c_disp s) /\
  (forall p b, In (p, b) (c_cb s) -> b = outcome net p) /\
  NoDup (c_disp s).
Proof.
  intros Hrun Hfin. apply cfinished_spec in Hfin as [Htd Hout].
  pose proof (crun_inv net par S0 evs _ _ (init_inv net seeds) Hrun) as [Hperm Hseen Hcb Hreach Hclosed Houtc].
  rewrite Htd, app_nil_r in Hperm. rewrite Hout, app_nil_r in Hcb.
  assert (Hds : forall p, In p (c_disp s) <-> In p (c_seen s)).
  { intro p. split; apply Permutation_in; [exact Hperm|symmetry; exact Hperm]. }
  split; [|split; [symmetry; exact Hcb|split; [exact Houtc|]]].
  - intro p. split.
    + intro Hp. apply (reachable_ext net S0); [intro x; apply uniq_in|]. apply Hreach, Hds, Hp.
    + induction 1 as [p Hp|p q Hr IH Hq].
      * apply Hds. destruct Hseen as (extra & -> & _). apply in_or_app. left. apply uniq_in. exact Hp.
      * assert (Hpc : In p (map fst (c_cb s))) by (eapply Permutation_in; [exact Hcb|exact IH]).
        apply in_map_iff in Hpc as ([p' b] & Hpe & Hin). cbn in Hpe. subst p'.
        assert (b = true).
        { rewrite (Houtc _ _ Hin). unfold outcome. destruct (net p); [contradiction|reflexivity]. }
        subst b. apply Hds. apply (Hclosed p Hin). exact Hq.
  - eapply Permutation_NoDup; [symmetry; exact Hperm|].
    destruct Hseen as (extra & -> & Hnde & Hdis). apply nodup_app; auto; [apply uniq_nodup|].
    intros x Hx Hxe. apply (Hdis x Hxe Hx).
Qed.

(* termination: no schedule is longer than twice the number of peers it can
   ever see, and while the loop condition holds some step is enabled *)
Theorem crawl_bounded (U : list N) evs s :
  (forall p, reachable net (dialable seeds) p -> In p U) ->
  crun net par evs (crawl_init seeds) = Some s ->
  length evs <= 2 * length U.
Proof.
  intros HU Hrun.
  pose proof (crun_inv net par S0 evs _ _ (init_inv net seeds) Hrun) as [Hperm Hseen Hcb Hreach _ _].
  pose proof (crun_count net par evs _ _ Hrun) as Hc. cbn in Hc.
  assert (Hd : length (c_disp s) <= length U).
  { assert (Hsn : NoDup (c_seen s)).
    { destruct Hseen as (extra & -> & Hnde & Hdis). apply nodup_app; auto; [apply uniq_nodup|].
      intros x Hx Hxe. apply (Hdis x Hxe Hx). }
    assert (length (c_seen s) <= length U).
    { apply NoDup_incl_length; [exact Hsn|]. intros x Hx. apply HU.
      apply (reachable_ext net S0); [intro y; apply uniq_in|]. apply Hreach, Hx. }
    apply Permutation_length in Hperm. rewrite app_length in Hperm. lia. }
  assert (Hcbl : length (c_cb s) <= length (c_disp s)).
  { apply Permutation_length in Hcb. rewrite app_length, map_length in Hcb. lia. }
  lia.
Qed.

Theorem crawl_progress s :
  1 <= par -> cfinished s = false -> exists e s', cstep net par s e = Some s'.
Proof.
  intros Hpar Hnf. unfold cfinished in Hnf.
  assert (Hres : c_out s <> [] -> exists s', cstep net par s (CResult 0) = Some s').
  { intro Hne. cbn [cstep]. destruct (par =? 0) eqn:E; [apply Nat.eqb_eq in E; lia|].
    destruct (c_out s) as [|p r]; [contradiction|]. cbn [nth_error].
    destruct (net p); [eexists; reflexivity|]. destruct (add_new _ _ _). eexists; reflexivity. }
  destruct (c_todial s) as [|p r] eqn:Et.
  - destruct (c_out s) eqn:Eo; [discriminate|]. destruct Hres as [s' H]; [discriminate|]. exists (CResult 0), s'. exact H.
  - destruct (length (c_out s) <=? par) eqn:E.
    + exists CDispatch. cbn [cstep]. rewrite Et, E. eexists; reflexivity.
    + apply Nat.leb_gt in E. destruct Hres as [s' H]; [destruct (c_out s); [cbn in E; lia|discriminate]|].
      exists (CResult 0), s'. exact H.
Qed.

(* the schedule used for evaluation is one of the schedules, and it ends *)
Lemma crawl_exec_finishes (U : list N) :
  1 <= par -> (forall p, reachable net (dialable seeds) p -> In p U) ->
  forall fuel evs0 s,
    crun net par evs0 (crawl_init seeds) = Some s ->
    2 * length U < length evs0 + fuel ->
    exists evs s', crawl_exec fuel net par s = Ok s' /\ cfinished s' = true /\
                   crun net par evs (crawl_init seeds) = Some s'.
Proof.
  intros Hpar HU. induction fuel as [|f IH]; intros evs0 s Hrun Hlen.
  - pose proof (crawl_bounded U evs0 s HU Hrun). lia.
  - destruct (cfinished s) eqn:Ef.
    + exists evs0, s. split; [destruct f; cbn; rewrite Ef; reflexivity|]. split; assumption.
    + cbn [crawl_exec]. rewrite Ef.
      assert (Hnext : forall e s1, cstep net par s e = Some s1 ->
                exists evs s', crawl_exec f net par s1 = Ok s' /\ cfinished s' = true /\
                               crun net par evs (crawl_init seeds) = Some s').
      { intros e s1 He. apply (IH (evs0 ++ [e]) s1).
        - rewrite crun_app, Hrun. cbn. rewrite He. reflexivity.
        - rewrite app_length. cbn. lia. }
      destruct (cstep net par s CDispatch) as [s1|] eqn:E1; [eapply Hnext; eauto|].
      destruct (cstep net par s (CResult 0)) as [s2|] eqn:E2; [eapply Hnext; eauto|].
      destruct (crawl_progress s Hpar Ef) as ([|i] & s' & He); [congruence|].
      (* some result is enabled, hence the oldest one is *)
      exfalso. cbn [cstep] in He, E2. destruct (par =? 0); [discriminate|].
      destruct (c_out s) as [|p r]; [destruct i; discriminate|]. cbn [nth_error] in E2.
      destruct (net p); [discriminate|]. destruct (add_new _ _ _). discriminate.
Qed.

Theorem crawl_exec_terminates (U : list N) :
  1 <= par -> (forall p, reachable net (dialable seeds) p -> In p U) ->
  exists evs s, crawl_exec (2 * length U + 1) net par (crawl_init seeds) = Ok s /\
                cfinished s = true /\ crun net par evs (crawl_init seeds) = Some s.
Proof.
  intros Hpar HU. apply (crawl_exec_finishes U Hpar HU _ [] (crawl_init seeds)); [reflexivity|cbn; lia].
Qed.
End Main.

(* without a worker the loop blocks on its first hand-over *)
Theorem crawl_no_worker_blocks net seeds p r :
  uniq (dialable seeds) = p :: r -> forall fuel, exists w, crawl_exec fuel net 0 (crawl_init seeds) = Blocked w.
Proof.
  intros Hd fuel. unfold crawl_init. rewrite Hd.
  destruct r; (destruct fuel as [|fuel]; [eexists; cbn; reflexivity|]);
    (destruct fuel as [|fuel]; eexists; cbn; reflexivity).
Qed.
