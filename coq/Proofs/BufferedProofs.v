(* Lemmas about Model/Buffered.v: the batched execution of queued operations has the
   same effect on keystore membership as executing them one by one (for every operation
   list, every batch size, every initial state); what it does to the keys waiting to be
   advertised. *)
From Coq Require Import Lia ZifyBool ZifyNat ZifyN.
From Verif.Lib Require Import GoSem Bits.
From Verif.Model Require Import Buffered.
Local Open Scope N_scope.

(* ---- membership in the list-sets ------------------------------------------------------ *)
Lemma memN_app k a b : memN k (a ++ b) = memN k a || memN k b.
Proof. unfold memN. apply existsb_app. Qed.

Lemma memN_one k x : memN k [x] = N.eqb k x.
Proof. unfold memN; simpl. apply orb_false_r. Qed.

Lemma memN_filter k f l : memN k (filter f l) = memN k l && f k.
Proof.
  induction l as [|x l IH]; simpl; [reflexivity|].
  destruct (f x) eqn:Fx; simpl; rewrite IH.
  - destruct (N.eqb k x) eqn:E; simpl; [|reflexivity].
    apply N.eqb_eq in E. subst. rewrite Fx. reflexivity.
  - destruct (N.eqb k x) eqn:E; simpl; [|reflexivity].
    apply N.eqb_eq in E. subst. rewrite Fx. rewrite andb_false_r. reflexivity.
Qed.

Lemma memN_delN k x l : memN k (delN x l) = memN k l && negb (N.eqb k x).
Proof. unfold delN. apply memN_filter. Qed.

Lemma memN_setN k x l : memN k (setN x l) = memN k l || N.eqb k x.
Proof.
  unfold setN. destruct (memN x l) eqn:M.
  - destruct (N.eqb k x) eqn:E; [|rewrite orb_false_r; reflexivity].
    apply N.eqb_eq in E. subst. rewrite M. reflexivity.
  - rewrite memN_app, memN_one. reflexivity.
Qed.

Lemma memN_unionN k a b : memN k (unionN a b) = memN k a || memN k b.
Proof.
  unfold unionN. revert a. induction b as [|x b IH]; intro a; simpl.
  - rewrite orb_false_r. reflexivity.
  - rewrite IH, memN_setN. unfold memN at 3. simpl. fold (memN k b). rewrite orb_assoc. reflexivity.
Qed.

Lemma memN_minusN k a b : memN k (minusN a b) = memN k a && negb (memN k b).
Proof. unfold minusN. apply memN_filter. Qed.

(* ---- the wrapped provider seen from one key ------------------------------------------ *)
Definition kin (k : N) (s : inner) : bool := memN k (ks s).
Definition pin (k : N) (s : inner) : bool := memN k (pend s).

Definition k_apply (k : N) (b : bool * bool) (c : icall) : bool * bool :=
  let (bk, bp) := b in
  match c with
  | IStart force l => (bk || memN k l, bp || (memN k l && (force || negb bk)))
  | IOnce l => (bk, bp || memN k l)
  | IStop l => (bk && negb (memN k l), bp && negb (memN k l))
  end.

Lemma i_apply_key k s c :
  (kin k (i_apply s c), pin k (i_apply s c)) = k_apply k (kin k s, pin k s) c.
Proof.
  unfold kin, pin. destruct c as [force l|l|l]; simpl.
  - rewrite !memN_unionN. destruct force; simpl.
    + rewrite andb_true_r. reflexivity.
    + rewrite memN_filter. reflexivity.
  - rewrite memN_unionN. reflexivity.
  - rewrite !memN_minusN. reflexivity.
Qed.

Lemma i_run_key k cs : forall s,
  (kin k (i_run s cs), pin k (i_run s cs)) = fold_left (k_apply k) cs (kin k s, pin k s).
Proof.
  induction cs as [|c cs IH]; intro s; simpl; [reflexivity|].
  unfold i_run in *. simpl. rewrite IH, i_apply_key. reflexivity.
Qed.

(* a skipped empty call changes nothing for any key *)
Lemma k_apply_call_if k c l b :
  (forall b', k_apply k b' (c []) = b') ->
  fold_left (k_apply k) (call_if c l) b = k_apply k b (c l).
Proof.
  intro Hid. destruct l; simpl; [symmetry; apply Hid|reflexivity].
Qed.

(* ---- one key's view of an operation list ------------------------------------------------ *)
Inductive kop := KOnce | KStart | KForce | KStop | KNone.
Definition view (k : N) (o : bop) : kop :=
  match o with
  | BOnce x => if N.eqb k x then KOnce else KNone
  | BStart x => if N.eqb k x then KStart else KNone
  | BForce x => if N.eqb k x then KForce else KNone
  | BStop x => if N.eqb k x then KStop else KNone
  | BBad => KNone
  end.

Definition isk (a b : kop) : bool :=
  match a, b with
  | KOnce, KOnce | KStart, KStart | KForce, KForce | KStop, KStop | KNone, KNone => true
  | _, _ => false
  end.
Definition has (w : kop) (k : N) (l : list bop) : bool := existsb (fun o => isk (view k o) w) l.

(* is k in the stopProv map after the loop of getOperations *)
Definition stop_step (k : N) (b : bool) (o : bop) : bool :=
  match view k o with
  | KStop => true
  | KStart | KForce => false
  | _ => b
  end.
Definition stopf (k : N) (l : list bop) (b : bool) : bool := fold_left (stop_step k) l b.

(* one by one: (in keystore, waiting to be advertised) *)
Definition seq_step (k : N) (b : bool * bool) (o : bop) : bool * bool :=
  let (bk, bp) := b in
  match view k o with
  | KOnce => (bk, true)
  | KStart => (true, bp || negb bk)
  | KForce => (true, true)
  | KStop => (false, false)
  | KNone => (bk, bp)
  end.
Definition kseq (k : N) (l : list bop) (b : bool * bool) : bool * bool := fold_left (seq_step k) l b.

Lemma seq_call_key k o b :
  fold_left (k_apply k) (seq_call o) b = seq_step k b o.
Proof.
  destruct b as [bk bp].
  destruct o as [x|x|x|x|]; simpl; unfold seq_step, view; rewrite ?memN_one;
    try reflexivity;
    destruct (N.eqb k x); simpl;
    rewrite ?orb_false_r, ?andb_true_r, ?orb_true_r, ?andb_false_r; reflexivity.
Qed.

Lemma seq_calls_key k l : forall b,
  fold_left (k_apply k) (seq_calls l) b = kseq k l b.
Proof.
  unfold seq_calls, kseq. induction l as [|o l IH]; intro b; simpl; [reflexivity|].
  rewrite fold_left_app, seq_call_key. apply IH.
Qed.

(* ---- getOperations, per key ---------------------------------------------------------------- *)
Lemma valid_cons o l : valid_ops (o :: l) = negb (is_bad o) && valid_ops l.
Proof. reflexivity. Qed.

Lemma get_ops_from_spec l : forall g,
  valid_ops l = true ->
  exists g', old_get_ops_from g l = Some g' /\
    forall k,
      memN k (g_once g') = memN k (g_once g) || has KOnce k l /\
      memN k (g_start g') = memN k (g_start g) || has KStart k l /\
      memN k (g_force g') = memN k (g_force g) || has KForce k l /\
      memN k (g_stop g') = stopf k l (memN k (g_stop g)).
Proof.
  induction l as [|o l IH]; intros g Hv.
  - exists g. split; [reflexivity|]. intro k. unfold has, stopf; simpl.
    rewrite !orb_false_r. repeat split; reflexivity.
  - rewrite valid_cons in Hv. apply andb_true_iff in Hv as [Hb Hv].
    destruct o as [x|x|x|x|]; simpl in Hb; try discriminate; simpl;
      (match goal with |- context [old_get_ops_from ?g1 l] => destruct (IH g1 Hv) as [g' [E H]] end);
      exists g'; (split; [exact E|]); intro k; destruct (H k) as [H1 [H2 [H3 H4]]];
      unfold has, stopf in *; simpl in *; unfold stop_step at 2; unfold view;
      rewrite H1, H2, H3, H4; simpl;
      rewrite ?memN_app, ?memN_one, ?memN_delN, ?memN_setN;
      destruct (N.eqb k x); simpl;
      rewrite ?orb_false_r, ?andb_true_r, ?andb_false_r, ?orb_true_r, ?orb_assoc;
      repeat split; reflexivity.
Qed.

Lemma get_ops_bad l : valid_ops l = false -> forall g, old_get_ops_from g l = None.
Proof.
  induction l as [|o l IH]; intros Hv g; [discriminate|].
  rewrite valid_cons in Hv. destruct o; simpl in *; try (apply IH; exact Hv). reflexivity.
Qed.

(* the effect of one batch on one key *)
Definition kbatch (k : N) (l : list bop) (b : bool * bool) : bool * bool :=
  let (bk, bp) := b in
  let f := has KForce k l in
  let s := has KStart k l in
  let o := has KOnce k l in
  let t := stopf k l false in
  ((bk || f || s) && negb t,
   (bp || f || (s && negb (bk || f)) || o) && negb t).

Lemma batch_key k l b :
  valid_ops l = true ->
  fold_left (k_apply k) (old_batch_calls l) b = kbatch k l b.
Proof.
  intro Hv. unfold old_batch_calls, old_get_operations.
  destruct (get_ops_from_spec l groups0 Hv) as [g [E H]]. rewrite E.
  destruct (H k) as [H1 [H2 [H3 H4]]]. simpl in H1, H2, H3, H4.
  rewrite !fold_left_app.
  rewrite (k_apply_call_if k (IStart true)) by (intros [x y]; simpl; rewrite !orb_false_r; reflexivity).
  rewrite (k_apply_call_if k (IStart false)) by (intros [x y]; simpl; rewrite !orb_false_r; reflexivity).
  rewrite (k_apply_call_if k IOnce) by (intros [x y]; simpl; rewrite !orb_false_r; reflexivity).
  rewrite (k_apply_call_if k IStop) by (intros [x y]; simpl; rewrite !andb_true_r; reflexivity).
  destruct b as [bk bp]. unfold kbatch. simpl. rewrite H1, H2, H3, H4.
  destruct bk, bp, (has KForce k l), (has KStart k l), (has KOnce k l), (stopf k l false); reflexivity.
Qed.

Lemma batch_bad l : valid_ops l = false -> old_batch_calls l = [].
Proof. intro H. unfold old_batch_calls, old_get_operations. rewrite (get_ops_bad l H). reflexivity. Qed.

(* ---- snoc lemmas ---------------------------------------------------------------------------- *)
Lemma has_snoc w k l o : has w k (l ++ [o]) = has w k l || isk (view k o) w.
Proof. unfold has. rewrite existsb_app. simpl. rewrite orb_false_r. reflexivity. Qed.
Lemma stopf_snoc k l o b : stopf k (l ++ [o]) b = stop_step k (stopf k l b) o.
Proof. unfold stopf. rewrite fold_left_app. reflexivity. Qed.
Lemma kseq_snoc k l o b : kseq k (l ++ [o]) b = seq_step k (kseq k l b) o.
Proof. unfold kseq. rewrite fold_left_app. reflexivity. Qed.

(* keystore membership: batched = one by one, for one batch *)
Lemma ks_batch_eq_seq k l : forall bk bp,
  fst (kbatch k l (bk, bp)) = fst (kseq k l (bk, bp)).
Proof.
  induction l as [|o l IH] using rev_ind; intros bk bp.
  - unfold kbatch, kseq, has, stopf; simpl. rewrite !orb_false_r, andb_true_r. reflexivity.
  - specialize (IH bk bp). unfold kbatch in *. simpl in IH.
    rewrite !has_snoc, stopf_snoc, kseq_snoc. simpl.
    destruct (kseq k l (bk, bp)) as [sk sp]. simpl in IH.
    unfold seq_step, stop_step.
    destruct (view k o); simpl; rewrite ?orb_false_r, ?orb_true_r, ?andb_false_r, ?andb_true_r; try exact IH; reflexivity.
Qed.

(* keys waiting to be advertised: what the batch queues, one-by-one execution queues too *)
Lemma pend_batch_sub_seq k l : forall bk bp,
  snd (kbatch k l (bk, bp)) = true -> snd (kseq k l (bk, bp)) = true.
Proof.
  induction l as [|o l IH] using rev_ind; intros bk bp.
  - unfold kbatch, kseq, has, stopf; simpl. rewrite !orb_false_r, andb_true_r. auto.
  - specialize (IH bk bp). pose proof (ks_batch_eq_seq k l bk bp) as HK.
    unfold kbatch in *. simpl in IH, HK.
    rewrite !has_snoc, stopf_snoc, kseq_snoc. simpl.
    destruct (kseq k l (bk, bp)) as [sk sp]. simpl in IH, HK.
    unfold seq_step, stop_step.
    destruct (view k o); simpl;
    destruct bk, bp, (has KForce k l), (has KStart k l), (has KOnce k l), (stopf k l false), sk, sp;
      simpl in *; try reflexivity; try discriminate; auto.
Qed.

(* per-key form of no_once_after_stop *)
Fixpoint noas (k : N) (l : list bop) (b : bool) : bool :=
  match l with
  | [] => true
  | o :: l' =>
      match view k o with
      | KOnce => negb b && noas k l' b
      | KStop => noas k l' true
      | KStart | KForce => noas k l' false
      | KNone => noas k l' b
      end
  end.

Lemma noas_of_list l : forall st k,
  no_once_after_stop_from st l = true -> noas k l (memN k st) = true.
Proof.
  induction l as [|o l IH]; intros st k H; [reflexivity|].
  destruct o as [x|x|x|x|]; simpl in *; unfold view.
  - apply andb_true_iff in H as [H1 H2].
    destruct (N.eqb k x) eqn:E.
    + apply N.eqb_eq in E. subst. rewrite H1. simpl. apply IH; exact H2.
    + apply IH; exact H2.
  - specialize (IH _ k H). rewrite memN_delN in IH.
    destruct (N.eqb k x); simpl in IH; [rewrite andb_false_r in IH|rewrite andb_true_r in IH]; exact IH.
  - specialize (IH _ k H). rewrite memN_delN in IH.
    destruct (N.eqb k x); simpl in IH; [rewrite andb_false_r in IH|rewrite andb_true_r in IH]; exact IH.
  - specialize (IH _ k H). rewrite memN_setN in IH.
    destruct (N.eqb k x); simpl in IH; [rewrite orb_true_r in IH|rewrite orb_false_r in IH]; exact IH.
  - apply IH; exact H.
Qed.

Lemma noas_snoc k l o : forall b,
  noas k (l ++ [o]) b =
  noas k l b && match view k o with KOnce => negb (stopf k l b) | _ => true end.
Proof.
  induction l as [|x l IH]; intro b; simpl.
  - unfold stopf; simpl. destruct (view k o); simpl; rewrite ?andb_true_r; reflexivity.
  - change (stopf k (x :: l) b) with (stopf k l (stop_step k b x)). unfold stop_step.
    destruct (view k x); simpl; rewrite ?IH; try reflexivity.
    rewrite andb_assoc. reflexivity.
Qed.

Lemma pend_seq_sub_batch k l : forall bk bp,
  noas k l false = true ->
  snd (kseq k l (bk, bp)) = true -> snd (kbatch k l (bk, bp)) = true \/ bk = true.
Proof.
  induction l as [|o l IH] using rev_ind; intros bk bp Hn.
  - unfold kbatch, kseq, has, stopf; simpl. rewrite !orb_false_r, andb_true_r. auto.
  - rewrite noas_snoc in Hn. apply andb_true_iff in Hn as [Hn Ho].
    specialize (IH bk bp Hn).
    unfold kbatch in *. simpl in IH.
    rewrite !has_snoc, stopf_snoc, kseq_snoc. simpl.
    destruct (kseq k l (bk, bp)) as [sk sp]. simpl in IH.
    unfold seq_step, stop_step.
    destruct (view k o); simpl; rewrite ?orb_false_r, ?orb_true_r, ?andb_true_r; try exact IH.
    + (* KOnce *) intros _. rewrite Ho. simpl. auto.
    + (* KStart *) intros _. destruct bk; [right; reflexivity|left].
      destruct bp, (has KForce k l); reflexivity.
    + (* KForce *) intros _. left. reflexivity.
    + (* KStop *) intro H; discriminate.
Qed.

(* ---- several batches -------------------------------------------------------------------------- *)
Definition kks (k : N) (l : list bop) (bk : bool) : bool := fst (kseq k l (bk, false)).

Lemma kseq_fst_indep k l : forall bk bp bp', fst (kseq k l (bk, bp)) = fst (kseq k l (bk, bp')).
Proof.
  unfold kseq. induction l as [|o l IH]; intros bk bp bp'; simpl; [reflexivity|].
  destruct (view k o); apply IH.
Qed.

Lemma kseq_app k a b x : kseq k (a ++ b) x = kseq k b (kseq k a x).
Proof. unfold kseq. apply fold_left_app. Qed.

Lemma worker_ks k : forall cs s,
  Forall (fun c => valid_ops c = true) cs ->
  kin k (i_run s (flat_map old_batch_calls cs)) = kks k (concat cs) (kin k s).
Proof.
  induction cs as [|c cs IH]; intros s Hv; simpl.
  - reflexivity.
  - inversion Hv as [|? ? Hc Hcs]; subst.
    unfold i_run. rewrite fold_left_app. fold (i_run s (old_batch_calls c)).
    fold (i_run (i_run s (old_batch_calls c)) (flat_map old_batch_calls cs)).
    rewrite IH by exact Hcs.
    pose proof (i_run_key k (old_batch_calls c) s) as E. rewrite batch_key in E by exact Hc.
    assert (Ek : kin k (i_run s (old_batch_calls c)) = fst (kbatch k c (kin k s, pin k s)))
      by (rewrite <- E; reflexivity).
    rewrite Ek, ks_batch_eq_seq.
    unfold kks. rewrite kseq_app.
    rewrite (kseq_fst_indep k c (kin k s) (pin k s) false).
    destruct (kseq k c (kin k s, false)) as [a b]. simpl.
    apply kseq_fst_indep.
Qed.

Lemma seq_ks k l s : kin k (i_run s (seq_calls l)) = kks k l (kin k s).
Proof.
  pose proof (i_run_key k (seq_calls l) s) as E. rewrite seq_calls_key in E.
  unfold kks. rewrite (kseq_fst_indep k l (kin k s) false (pin k s)). rewrite <- E. reflexivity.
Qed.

(* chunks *)
Lemma chunks_fuel_concat n : (0 < n)%nat -> forall fuel l, (length l <= fuel)%nat ->
  concat (chunks_fuel fuel n l) = l.
Proof.
  intro Hn. induction fuel as [|f IH]; intros l Hl.
  - destruct l; [reflexivity|simpl in Hl; lia].
  - destruct l as [|x l]; [reflexivity|].
    cbn [chunks_fuel concat]. rewrite IH.
    + apply firstn_skipn.
    + rewrite skipn_length. cbn [length] in Hl |- *. lia.
Qed.

Lemma chunks_concat n l : (0 < n)%nat -> concat (chunks n l) = l.
Proof. intro Hn. apply chunks_fuel_concat; [exact Hn|lia]. Qed.

Lemma valid_ops_app a b : valid_ops (a ++ b) = valid_ops a && valid_ops b.
Proof. unfold valid_ops. apply forallb_app. Qed.

Lemma chunks_fuel_valid n : forall fuel l, valid_ops l = true ->
  Forall (fun c => valid_ops c = true) (chunks_fuel fuel n l).
Proof.
  induction fuel as [|f IH]; intros l Hv; [constructor|].
  destruct l as [|x l]; [constructor|].
  cbn [chunks_fuel].
  rewrite <- (firstn_skipn n (x :: l)), valid_ops_app in Hv.
  apply andb_true_iff in Hv as [H1 H2].
  constructor; [exact H1|apply IH; exact H2].
Qed.

Theorem buffered_ks_equiv :
  forall (batch_size : nat) (l : list bop) (s : inner) (k : N),
    (0 < batch_size)%nat -> valid_ops l = true ->
    kin k (i_run s (old_worker_calls batch_size l)) = kin k (i_run s (seq_calls l)).
Proof.
  intros n l s k Hn Hv. unfold old_worker_calls.
  rewrite worker_ks by (apply chunks_fuel_valid; exact Hv).
  rewrite chunks_concat by exact Hn. symmetry. apply seq_ks.
Qed.

Theorem buffered_pend_sub :
  forall (l : list bop) (s : inner) (k : N),
    valid_ops l = true ->
    pin k (i_run s (old_batch_calls l)) = true -> pin k (i_run s (seq_calls l)) = true.
Proof.
  intros l s k Hv.
  pose proof (i_run_key k (old_batch_calls l) s) as E1. rewrite batch_key in E1 by exact Hv.
  pose proof (i_run_key k (seq_calls l) s) as E2. rewrite seq_calls_key in E2.
  assert (A : pin k (i_run s (old_batch_calls l)) = snd (kbatch k l (kin k s, pin k s))) by (rewrite <- E1; reflexivity).
  assert (B : pin k (i_run s (seq_calls l)) = snd (kseq k l (kin k s, pin k s))) by (rewrite <- E2; reflexivity).
  rewrite A, B. apply pend_batch_sub_seq.
Qed.

Theorem buffered_pend_sup :
  forall (l : list bop) (s : inner) (k : N),
    valid_ops l = true -> no_once_after_stop l = true ->
    pin k (i_run s (seq_calls l)) = true ->
    pin k (i_run s (old_batch_calls l)) = true \/ kin k s = true.
Proof.
  intros l s k Hv Hn.
  pose proof (i_run_key k (old_batch_calls l) s) as E1. rewrite batch_key in E1 by exact Hv.
  pose proof (i_run_key k (seq_calls l) s) as E2. rewrite seq_calls_key in E2.
  assert (A : pin k (i_run s (old_batch_calls l)) = snd (kbatch k l (kin k s, pin k s))) by (rewrite <- E1; reflexivity).
  assert (B : pin k (i_run s (seq_calls l)) = snd (kseq k l (kin k s, pin k s))) by (rewrite <- E2; reflexivity).
  rewrite A, B. apply pend_seq_sub_batch.
  apply (noas_of_list l [] k). exact Hn.
Qed.

(* a ProvideOnce queued after a StopProviding of the same key in one batch is cancelled:
   the batch calls ProvideOnce first and StopProviding (provideQueue.Remove) last *)
Theorem buffered_once_after_stop_lost :
  exists (l : list bop) (s : inner) (k : N),
    valid_ops l = true /\
    pin k (i_run s (seq_calls l)) = true /\ pin k (i_run s (old_batch_calls l)) = false /\ kin k s = false.
Proof.
  exists [BStop 7; BOnce 7], {| ks := []; pend := [] |}, 7. vm_compute. repeat split; reflexivity.
Qed.

(* one undecodable item drops the whole batch *)
Theorem buffered_bad_item_drops_batch :
  forall l, valid_ops l = false -> old_batch_calls l = [].
Proof. exact batch_bad. Qed.

(* the same for EVERY way of cutting the queue into batches (the worker takes what GetN
   returns: up to batchSize items, everything after a reopen with batchSize 1, ...) *)
Theorem buffered_ks_equiv_batches :
  forall (cs : list (list bop)) (s : inner) (k : N),
    Forall (fun c => valid_ops c = true) cs ->
    kin k (i_run s (flat_map old_batch_calls cs)) = kin k (i_run s (seq_calls (concat cs))).
Proof. intros cs s k Hv. rewrite worker_ks by exact Hv. symmetry. apply seq_ks. Qed.

(* as sets of keys *)
Corollary buffered_keystore_same_set :
  forall (cs : list (list bop)) (s : inner),
    Forall (fun c => valid_ops c = true) cs ->
    forall k, In k (ks (i_run s (flat_map old_batch_calls cs))) <-> In k (ks (i_run s (seq_calls (concat cs)))).
Proof.
  intros cs s Hv k. pose proof (buffered_ks_equiv_batches cs s k Hv) as E. unfold kin in E.
  assert (M : forall x l, memN x l = true <-> In x l).
  { intros x l. unfold memN. rewrite existsb_exists. split.
    - intros [y [Hy Ey]]. apply N.eqb_eq in Ey. subst. exact Hy.
    - intro H. exists x. split; [exact H|apply N.eqb_refl]. }
  rewrite <- !M. rewrite E. tauto.
Qed.

(* ======================= PRIMARY MODEL (repaired getOperations / worker) ========================== *)
(* (in stopProv, in earlyStopProv) for one key *)
Definition fstep (k : N) (st : bool * bool) (o : bop) : bool * bool :=
  let (t, e) := st in
  match view k o with
  | KOnce => if t then (false, true) else (t, e)
  | KStart | KForce => (false, false)
  | KStop => (true, e)
  | KNone => (t, e)
  end.
Definition fflags (k : N) (l : list bop) (st : bool * bool) : bool * bool := fold_left (fstep k) l st.

Lemma fix_ops_spec l : forall a k,
  let a' := fold_left get_op_step l a in
  memN k (g_once (fg a')) = memN k (g_once (fg a)) || has KOnce k l /\
  memN k (g_start (fg a')) = memN k (g_start (fg a)) || has KStart k l /\
  memN k (g_force (fg a')) = memN k (g_force (fg a)) || has KForce k l /\
  (memN k (g_stop (fg a')), memN k (fg_early a')) = fflags k l (memN k (g_stop (fg a)), memN k (fg_early a)).
Proof.
  induction l as [|o l IH]; intros a k; simpl.
  - unfold has, fflags; simpl. rewrite !orb_false_r. repeat split; reflexivity.
  - destruct (IH (get_op_step a o) k) as [H1 [H2 [H3 H4]]].
    unfold has, fflags in *. simpl. rewrite H1, H2, H3, H4. clear H1 H2 H3 H4 IH.
    unfold fstep at 2. unfold view.
    destruct o as [x|x|x|x|]; simpl.
    + destruct (memN x (g_stop (fg a))) eqn:M; simpl;
        rewrite ?memN_app, ?memN_one, ?memN_delN, ?memN_setN;
        destruct (N.eqb k x) eqn:E; simpl;
        rewrite ?orb_false_r, ?andb_true_r, ?andb_false_r, ?orb_true_r, ?orb_assoc;
        try (apply N.eqb_eq in E; subst; rewrite M);
        repeat split; reflexivity.
    + rewrite ?memN_app, ?memN_one, ?memN_delN; destruct (N.eqb k x); simpl;
        rewrite ?orb_false_r, ?andb_true_r, ?andb_false_r, ?orb_true_r, ?orb_assoc; repeat split; reflexivity.
    + rewrite ?memN_app, ?memN_one, ?memN_delN; destruct (N.eqb k x); simpl;
        rewrite ?orb_false_r, ?andb_true_r, ?andb_false_r, ?orb_true_r, ?orb_assoc; repeat split; reflexivity.
    + rewrite ?memN_setN; destruct (N.eqb k x); simpl;
        rewrite ?orb_false_r, ?orb_true_r; repeat split; reflexivity.
    + rewrite ?orb_false_r. repeat split; reflexivity.
Qed.

Definition kfix (k : N) (l : list bop) (b : bool * bool) : bool * bool :=
  let (bk, bp) := b in
  let f := has KForce k l in
  let s := has KStart k l in
  let o := has KOnce k l in
  let (t, e) := fflags k l (false, false) in
  let k1 := bk || f || s in
  let p1 := bp || f || (s && negb (bk || f)) in
  let k2 := k1 && negb e in
  let p2 := p1 && negb e in
  (k2 && negb t, (p2 || o) && negb t).

Lemma fix_batch_key k l b : fold_left (k_apply k) (batch_calls l) b = kfix k l b.
Proof.
  unfold batch_calls, get_operations.
  destruct (fix_ops_spec l fgroups0 k) as [H1 [H2 [H3 H4]]]. simpl in H1, H2, H3, H4.
  rewrite !fold_left_app.
  rewrite (k_apply_call_if k (IStart true)) by (intros [x y]; simpl; rewrite !orb_false_r; reflexivity).
  rewrite (k_apply_call_if k (IStart false)) by (intros [x y]; simpl; rewrite !orb_false_r; reflexivity).
  rewrite (k_apply_call_if k IStop) by (intros [x y]; simpl; rewrite !andb_true_r; reflexivity).
  rewrite (k_apply_call_if k IOnce) by (intros [x y]; simpl; rewrite !orb_false_r; reflexivity).
  rewrite (k_apply_call_if k IStop) by (intros [x y]; simpl; rewrite !andb_true_r; reflexivity).
  destruct b as [bk bp]. unfold kfix. simpl. rewrite H1, H2, H3.
  destruct (fflags k l (false, false)) as [t e]. inversion H4 as [[Ht He]]. rewrite Ht, He.
  destruct bk, bp, (has KForce k l), (has KStart k l), (has KOnce k l), t, e; reflexivity.
Qed.

Lemma fflags_snoc k l o st : fflags k (l ++ [o]) st = fstep k (fflags k l st) o.
Proof. unfold fflags. rewrite fold_left_app. reflexivity. Qed.

Lemma fix_ks_eq_seq k l : forall bk bp, fst (kfix k l (bk, bp)) = fst (kseq k l (bk, bp)).
Proof.
  induction l as [|o l IH] using rev_ind; intros bk bp.
  - unfold kfix, kseq, has, fflags; simpl. rewrite !orb_false_r, !andb_true_r. reflexivity.
  - specialize (IH bk bp). unfold kfix in *.
    rewrite !has_snoc, fflags_snoc, kseq_snoc.
    destruct (fflags k l (false, false)) as [t e]. destruct (kseq k l (bk, bp)) as [sk sp].
    simpl in IH. unfold seq_step, fstep.
    destruct (view k o); simpl;
      destruct bk, bp, (has KForce k l), (has KStart k l), (has KOnce k l), t, e, sk;
      simpl in *; try reflexivity; try discriminate.
Qed.

Lemma fix_pend_both k l : forall bk bp,
  (snd (kfix k l (bk, bp)) = true -> snd (kseq k l (bk, bp)) = true) /\
  (snd (kseq k l (bk, bp)) = true -> snd (kfix k l (bk, bp)) = true \/ bk = true).
Proof.
  induction l as [|o l IH] using rev_ind; intros bk bp.
  - unfold kfix, kseq, has, fflags; simpl. rewrite !orb_false_r, !andb_true_r. auto.
  - specialize (IH bk bp). pose proof (fix_ks_eq_seq k l bk bp) as HK. unfold kfix in *.
    rewrite !has_snoc, fflags_snoc, kseq_snoc.
    destruct (fflags k l (false, false)) as [t e]. destruct (kseq k l (bk, bp)) as [sk sp].
    simpl in IH, HK. destruct IH as [IH1 IH2]. unfold seq_step, fstep.
    destruct (view k o); simpl;
      destruct bk, bp, (has KForce k l), (has KStart k l), (has KOnce k l), t, e, sk, sp;
      simpl in *; split; intro; auto; try discriminate;
      try (destruct (IH2 eq_refl); discriminate); try (specialize (IH1 eq_refl); discriminate).
Qed.

(* the repaired wrapper: same keystore as one-by-one execution, for EVERY operation list
   (undecodable items are skipped by both) and every batching *)
Lemma fix_worker_ks k : forall cs s,
  kin k (i_run s (flat_map batch_calls cs)) = kks k (concat cs) (kin k s).
Proof.
  induction cs as [|c cs IH]; intro s; simpl; [reflexivity|].
  unfold i_run. rewrite fold_left_app. fold (i_run s (batch_calls c)).
  fold (i_run (i_run s (batch_calls c)) (flat_map batch_calls cs)).
  rewrite IH.
  pose proof (i_run_key k (batch_calls c) s) as E. rewrite fix_batch_key in E.
  assert (Ek : kin k (i_run s (batch_calls c)) = fst (kfix k c (kin k s, pin k s)))
    by (rewrite <- E; reflexivity).
  rewrite Ek, fix_ks_eq_seq. unfold kks. rewrite kseq_app.
  rewrite (kseq_fst_indep k c (kin k s) (pin k s) false).
  destruct (kseq k c (kin k s, false)) as [a b]. simpl. apply kseq_fst_indep.
Qed.

Theorem fix_ks_equiv :
  forall (cs : list (list bop)) (s : inner) (k : N),
    kin k (i_run s (flat_map batch_calls cs)) = kin k (i_run s (seq_calls (concat cs))).
Proof. intros cs s k. rewrite fix_worker_ks. symmetry. apply seq_ks. Qed.

Theorem fix_pend :
  forall (l : list bop) (s : inner) (k : N),
    (pin k (i_run s (batch_calls l)) = true -> pin k (i_run s (seq_calls l)) = true) /\
    (pin k (i_run s (seq_calls l)) = true -> pin k (i_run s (batch_calls l)) = true \/ kin k s = true).
Proof.
  intros l s k.
  pose proof (i_run_key k (batch_calls l) s) as E1. rewrite fix_batch_key in E1.
  pose proof (i_run_key k (seq_calls l) s) as E2. rewrite seq_calls_key in E2.
  assert (A : pin k (i_run s (batch_calls l)) = snd (kfix k l (kin k s, pin k s))) by (rewrite <- E1; reflexivity).
  assert (B : pin k (i_run s (seq_calls l)) = snd (kseq k l (kin k s, pin k s))) by (rewrite <- E2; reflexivity).
  rewrite A, B. apply fix_pend_both.
Qed.

Theorem ks_equiv_batch_size :
  forall (batch_size : nat) (l : list bop) (s : inner) (k : N),
    (0 < batch_size)%nat ->
    kin k (i_run s (worker_calls batch_size l)) = kin k (i_run s (seq_calls l)).
Proof.
  intros n l s k Hn. unfold worker_calls. rewrite fix_ks_equiv. rewrite chunks_concat by exact Hn. reflexivity.
Qed.
