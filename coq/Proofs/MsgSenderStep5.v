(* Lemmas about Model/MsgSender.v: the invariant is preserved by the events writeok, read. *)
From Verif.Lib Require Import GoSem Bits.
From Verif.Model Require Import MsgSender.
From Coq Require Import Lia.
From Verif.Proofs Require Import MsgSenderInv.

Lemma step_inv_writeok s t s' : Inv s -> step s (EWriteOk t) = Some s' -> Inv s'.
Proof.
  intros I H. ev I H.
  match goal with
  | Hy : nth_error (streams s) _ = Some ?y, Hc : sm_cli ?y = COpen, Hx : nth_error (senders s) _ = Some ?x,
    Hl : sd_lock ?x = Some t, Ht : mget (threads s) t = Some ?th, Hpc : t_pc ?th = _ |- _ =>
      destruct (idle_clean s I _ _ _ _ _ Hy Hc Hx Hl Ht) as [E1 E2]; [rewrite Hpc; reflexivity|]
  end.
  rewrite E1, E2. simpl. split; [lia|]. intros t1 [<-|[]]. look. rewrite Nat.eqb_refl. reflexivity.
Qed.

Lemma step_inv_read s t s' : Inv s -> step s (ERead t) = Some s' -> Inv s'.
Proof.
  intros I H. ev I H.
  all: match goal with
  | Hy : nth_error (streams ?s) _ = Some ?y, Hc : sm_cli ?y = COpen, Hx : nth_error (senders ?s) _ = Some ?x,
    Hl : sd_lock ?x = Some ?t, Hin : sm_inbox ?y = RGood ?id :: ?l |- _ =>
      pose proof (stream_items s I _ _ _ _ id Hy Hc Hx Hl) as Hit; rewrite Hin in Hit;
      pose proof (proj1 (i_clean s I _ _ Hy Hc)) as Hlen; rewrite Hin in Hlen; simpl in Hlen;
      try (apply Hit; apply in_or_app; right; left; reflexivity);
      try (assert (sm_pending y = [] /\ l = []) as [E1 E2]
             by (split; [destruct (sm_pending y)|destruct l]; auto; simpl in Hlen; lia);
           rewrite E1, E2; simpl; split; [lia|intros ? []])
  end.
Qed.
