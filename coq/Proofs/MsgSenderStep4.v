(* Lemmas about Model/MsgSender.v: the invariant is preserved by the events timeout, readctx. *)
From Verif.Lib Require Import GoSem Bits.
From Verif.Model Require Import MsgSender.
From Coq Require Import Lia.
From Verif.Proofs Require Import MsgSenderInv.

Lemma step_inv_timeout s t s' : Inv s -> step s (ETimeout t) = Some s' -> Inv s'.
Proof. intros I H. ev I H. Qed.

Lemma step_inv_readctx s t s' : Inv s -> step s (EReadCtx t) = Some s' -> Inv s'.
Proof. intros I H. ev I H. Qed.
