(* Lemmas about Model/FullRt.v (the accelerated client): the XOR order and the
   ClosestN specification, the paging loop against the flat scan, the
   IP-group counting invariants, tables of one crawl, the table swap under all
   interleavings, the constructor, bulk chunk arithmetic. *)
From Coq Require Import Lia ZifyBool ZifyNat ZifyN Permutation Sorting.Sorted.
From Verif.Lib Require Import GoSem Bits.
From Verif.Model Require Import FullRt.

(* ---------- XOR distance ---------- *)
Lemma dist_inj key a b : dist key a = dist key b -> a = b.
Proof.
  unfold dist. intro H.
  apply N.lxor_eq.
  assert (E : N.lxor (N.lxor a key) (N.lxor b key) = 0%N) by (rewrite H; apply N.lxor_nilpotent).
  rewrite <- E.
  rewrite N.lxor_assoc, (N.lxor_comm key (N.lxor b key)), N.lxor_assoc, N.lxor_nilpotent, N.lxor_0_r.
  reflexivity.
Qed.

(* ---------- insertion sort by distance ---------- *)
Lemma ins_by_perm key x l : Permutation (ins_by key x l) (x :: l).
Proof.
  induction l as [|y l IH]; simpl; [reflexivity|].
  destruct (N.leb _ _); [reflexivity|].
  rewrite IH. apply perm_swap.
Qed.
Lemma sort_by_perm key l : Permutation (sort_by key l) l.
Proof.
  induction l as [|x l IH]; simpl; [reflexivity|].
  rewrite ins_by_perm. constructor. exact IH.
Qed.
Lemma sort_by_length key l : length (sort_by key l) = length l.
Proof. apply Permutation_length, sort_by_perm. Qed.
Lemma sort_by_in key l x : In x (sort_by key l) <-> In x l.
Proof. split; apply Permutation_in; [|symmetry]; apply sort_by_perm. Qed.
Lemma sort_by_nodup key l : NoDup l -> NoDup (sort_by key l).
Proof. intro H. eapply Permutation_NoDup; [symmetry; apply sort_by_perm|exact H]. Qed.

Definition dle key (a b : N) : Prop := (dist key a <= dist key b)%N.
Definition dlt key (a b : N) : Prop := (dist key a < dist key b)%N.

Lemma ins_by_sorted key x l :
  StronglySorted (dle key) l -> StronglySorted (dle key) (ins_by key x l).
Proof.
  induction l as [|y l IH]; simpl; intro H.
  - constructor; constructor.
  - destruct (N.leb (dist key x) (dist key y)) eqn:E.
    + apply N.leb_le in E. constructor; [exact H|].
      constructor; [exact E|].
      inversion H as [|? ? _ Hall]; subst.
      eapply Forall_impl; [|exact Hall]. intros z Hz. unfold dle in *. lia.
    + apply N.leb_gt in E. inversion H as [|? ? Hs Hall]; subst.
      constructor; [apply IH; exact Hs|].
      apply Forall_forall. intros z Hz.
      apply (Permutation_in _ (ins_by_perm key x l)) in Hz. destruct Hz as [<-|Hz].
      * unfold dle. lia.
      * rewrite Forall_forall in Hall. apply Hall, Hz.
Qed.
Lemma sort_by_sorted key l : StronglySorted (dle key) (sort_by key l).
Proof. induction l; simpl; [constructor|apply ins_by_sorted; assumption]. Qed.

Lemma sorted_le_nodup_lt key l :
  StronglySorted (dle key) l -> NoDup l -> StronglySorted (dlt key) l.
Proof.
  induction 1 as [|x l Hs IH Hall]; intro Hnd; [constructor|].
  inversion Hnd as [|? ? Hnin Hnd']; subst.
  constructor; [apply IH; exact Hnd'|].
  apply Forall_forall. intros z Hz. rewrite Forall_forall in Hall.
  specialize (Hall z Hz). unfold dle, dlt in *.
  destruct (N.eq_dec (dist key x) (dist key z)) as [E|NE]; [|lia].
  apply dist_inj in E. subst. contradiction.
Qed.
Lemma sort_by_strict key l : NoDup l -> StronglySorted (dlt key) (sort_by key l).
Proof. intro H. apply sorted_le_nodup_lt; [apply sort_by_sorted|apply sort_by_nodup, H]. Qed.

(* ---------- sublists ---------- *)
Inductive sublist {A} : list A -> list A -> Prop :=
| sl_nil : sublist [] []
| sl_skip x l1 l2 : sublist l1 l2 -> sublist l1 (x :: l2)
| sl_keep x l1 l2 : sublist l1 l2 -> sublist (x :: l1) (x :: l2).

Lemma sublist_nil {A} (l : list A) : sublist [] l.
Proof. induction l; constructor; assumption. Qed.
Lemma sublist_refl {A} (l : list A) : sublist l l.
Proof. induction l; constructor; assumption. Qed.
Lemma sublist_incl {A} (l1 l2 : list A) : sublist l1 l2 -> incl l1 l2.
Proof.
  induction 1; intros z Hz; simpl in *; auto.
  - destruct Hz as [<-|Hz]; auto.
Qed.
Lemma sublist_forall {A} (P : A -> Prop) (l1 l2 : list A) : sublist l1 l2 -> Forall P l2 -> Forall P l1.
Proof. intros Hs Hf. rewrite Forall_forall in *. intros z Hz. apply Hf, (sublist_incl _ _ Hs), Hz. Qed.
Lemma sublist_sorted {A} (R : A -> A -> Prop) (l1 l2 : list A) :
  sublist l1 l2 -> StronglySorted R l2 -> StronglySorted R l1.
Proof.
  induction 1; intro Hs; auto.
  - inversion Hs; subst; auto.
  - inversion Hs as [|? ? Hs' Hall]; subst. constructor; auto.
    eapply sublist_forall; eauto.
Qed.
Lemma sublist_nodup {A} (l1 l2 : list A) : sublist l1 l2 -> NoDup l2 -> NoDup l1.
Proof.
  induction 1; intro Hnd; auto.
  - inversion Hnd; subst; auto.
  - inversion Hnd as [|? ? Hnin Hnd']; subst. constructor; auto.
    intro Hin. apply Hnin. eapply sublist_incl; eauto.
Qed.
Lemma sublist_app {A} (a b c d : list A) : sublist a b -> sublist c d -> sublist (a ++ c) (b ++ d).
Proof.
  induction 1; simpl; intros; auto.
  - apply sl_skip; auto.
  - apply sl_keep; auto.
Qed.
Lemma sublist_length {A} (l1 l2 : list A) : sublist l1 l2 -> length l1 <= length l2.
Proof. induction 1; simpl; lia. Qed.

Definition result_of (r : scan_res) : list N :=
  match r with SReturn l => l | SContinue st => s_peers st end.

(* one step of PeersLoop, unfolded *)
Lemma scan_page_cons t K limit k rest st :
  scan_page t K limit (k :: rest) st =
  if nmem k (t_kmap t) then
    let (c', keep) := if 0 <? limit then addr_loop limit k (addrs_of t k) (s_counts st)
                      else (s_counts st, true) in
    if keep then
      let peers' := s_peers st ++ [k] in
      if length peers' =? K then SReturn peers'
      else scan_page t K limit rest {| s_counts := c'; s_peers := peers' |}
    else scan_page t K limit rest {| s_counts := c'; s_peers := s_peers st |}
  else scan_page t K limit rest st.
Proof. reflexivity. Qed.

Lemma scan_page_app t K limit p1 p2 st :
  scan_page t K limit (p1 ++ p2) st =
  match scan_page t K limit p1 st with
  | SReturn l => SReturn l
  | SContinue st' => scan_page t K limit p2 st'
  end.
Proof.
  revert st. induction p1 as [|k p1 IH]; intro st; [reflexivity|].
  rewrite <- app_comm_cons, !scan_page_cons.
  destruct (nmem k (t_kmap t)); [|apply IH].
  destruct (if 0 <? limit then _ else _) as [c' keep].
  destruct keep; [|apply IH].
  cbv zeta. destruct (_ =? K); [reflexivity|apply IH].
Qed.

Lemma skipn_page {A} (l : list A) n s :
  skipn n l = skipn n (firstn (n + s) l) ++ skipn (n + s) l.
Proof.
  rewrite <- (firstn_skipn (n + s) l) at 1.
  rewrite skipn_app.
  destruct (Nat.le_gt_cases n (length (firstn (n + s) l))) as [Hle|Hgt].
  - replace (n - length (firstn (n + s) l)) with 0 by lia. reflexivity.
  - rewrite firstn_length in Hgt.
    rewrite (skipn_all2 (firstn (n + s) l)) by (rewrite firstn_length; lia).
    rewrite (skipn_all2 l (n:=n + s)) by lia.
    rewrite skipn_nil. reflexivity.
Qed.

(* with a positive step the paging loop is the scan of the whole sorted list *)
Lemma page_loop_flat t key K limit step :
  0 < step -> forall fuel n st, length (t_rt t) - n < fuel ->
  page_loop fuel t key K limit step n st =
  Ok (result_of (scan_page t K limit (skipn n (sort_by key (t_rt t))) st)).
Proof.
  intros Hstep. induction fuel as [|f IH]; intros n st Hf; [lia|].
  cbn [page_loop].
  destruct (n <? length (t_rt t)) eqn:En.
  - apply Nat.ltb_lt in En. unfold closest_n, go_slice_from.
    assert (Hlen : n <= length (firstn (n + step) (sort_by key (t_rt t)))).
    { rewrite firstn_length, sort_by_length. lia. }
    apply Nat.leb_le in Hlen. rewrite Hlen. cbn [bind].
    rewrite (skipn_page (sort_by key (t_rt t)) n step), scan_page_app.
    destruct (scan_page t K limit (skipn n (firstn (n + step) (sort_by key (t_rt t)))) st) as [l|st'];
      [reflexivity|].
    apply IH. lia.
  - apply Nat.ltb_ge in En.
    rewrite skipn_all2 by (rewrite sort_by_length; exact En). reflexivity.
Qed.

Lemma get_closest_fuel_flat t key K limit fuel :
  0 < K + 2 * limit -> length (t_rt t) < fuel ->
  get_closest_fuel fuel t key K limit = Ok (flat_scan t key K limit).
Proof.
  intros Hs Hf. unfold get_closest_fuel, flat_scan.
  rewrite page_loop_flat by (unfold paging_step; lia).
  cbn [skipn]. destruct (scan_page _ _ _ _ _); reflexivity.
Qed.
Lemma get_closest_flat t key K limit :
  0 < K + 2 * limit -> get_closest t key K limit = Ok (flat_scan t key K limit).
Proof. intro H. apply get_closest_fuel_flat; [exact H|lia]. Qed.

Lemma get_closest_eval_correct t key K limit :
  get_closest_eval t key K limit = get_closest t key K limit.
Proof.
  unfold get_closest_eval. destruct (0 <? paging_step K limit) eqn:E; [|reflexivity].
  apply Nat.ltb_lt in E. unfold paging_step in E. symmetry. apply get_closest_flat. exact E.
Qed.

(* with step 0 and a non-empty table no amount of fuel is enough *)
Lemma paging_spins t key K limit st :
  t_rt t <> [] -> forall fuel,
  page_loop fuel t key K limit 0 0 st = Blocked "GetClosestPeers: paging loop still running".
Proof.
  intros Hne. induction fuel as [|f IH]; [reflexivity|].
  cbn [page_loop].
  destruct (t_rt t) as [|x r] eqn:E; [contradiction|].
  cbn [length Nat.ltb Nat.leb]. unfold closest_n. cbn [Nat.add firstn go_slice_from length Nat.leb skipn bind scan_page].
  rewrite <- E in *. exact IH.
Qed.

(* ---------- the answer is a sublist of the sorted table ---------- *)
Lemma scan_sublist t K limit page : forall st,
  exists l', sublist l' page /\ result_of (scan_page t K limit page st) = s_peers st ++ l'.
Proof.
  induction page as [|k rest IH]; intro st.
  - exists []. split; [constructor|]. cbn. rewrite app_nil_r. reflexivity.
  - rewrite scan_page_cons.
    destruct (nmem k (t_kmap t)).
    + destruct (if 0 <? limit then _ else _) as [c' keep]. destruct keep.
      * cbv zeta. destruct (_ =? K).
        -- exists [k]. split; [apply sl_keep, sublist_nil|reflexivity].
        -- destruct (IH {| s_counts := c'; s_peers := s_peers st ++ [k] |}) as (l' & Hs & He).
           exists (k :: l'). split; [apply sl_keep, Hs|]. rewrite He. cbn [s_peers].
           rewrite <- app_assoc. reflexivity.
      * destruct (IH {| s_counts := c'; s_peers := s_peers st |}) as (l' & Hs & He).
        exists l'. split; [apply sl_skip, Hs|exact He].
    + destruct (IH st) as (l' & Hs & He). exists l'. split; [apply sl_skip, Hs|exact He].
Qed.

Lemma scan_length t K limit page : forall st,
  length (s_peers st) < K -> length (result_of (scan_page t K limit page st)) <= K.
Proof.
  induction page as [|k rest IH]; intros st Hlt; [cbn; lia|].
  rewrite scan_page_cons.
  destruct (nmem k (t_kmap t)); [|apply IH, Hlt].
  destruct (if 0 <? limit then _ else _) as [c' keep]. destruct keep; [|apply IH, Hlt].
  cbv zeta. destruct (_ =? K) eqn:E.
  - apply Nat.eqb_eq in E. cbn. lia.
  - apply Nat.eqb_neq in E. apply IH. cbn [s_peers]. rewrite app_length in *. cbn [length] in *. lia.
Qed.

Lemma flat_scan_sublist t key K limit : sublist (flat_scan t key K limit) (sort_by key (t_rt t)).
Proof.
  unfold flat_scan.
  destruct (scan_sublist t K limit (sort_by key (t_rt t)) scan_init) as (l' & Hs & He).
  cbn [s_peers scan_init app] in He. unfold result_of in He.
  destruct (scan_page _ _ _ _ _); rewrite He; exact Hs.
Qed.
Lemma flat_scan_length t key K limit : 1 <= K -> length (flat_scan t key K limit) <= K.
Proof.
  intro HK. unfold flat_scan.
  pose proof (scan_length t K limit (sort_by key (t_rt t)) scan_init) as H.
  cbn [s_peers scan_init length] in H. unfold result_of in H.
  destruct (scan_page _ _ _ _ _); apply H; lia.
Qed.

(* ---------- ipGroupCounts ---------- *)
Lemma pair_eqb_eq a b : pair_eqb a b = true <-> a = b.
Proof.
  unfold pair_eqb. destruct a as [a1 a2], b as [b1 b2]. cbn [fst snd].
  rewrite andb_true_iff, !N.eqb_eq. split; [intros [-> ->]; reflexivity|intro H; inversion H; auto].
Qed.
Lemma existsb_pair g p c : existsb (pair_eqb (g, p)) c = true <-> In (g, p) c.
Proof.
  rewrite existsb_exists. split.
  - intros (x & Hin & He). apply pair_eqb_eq in He. subst. exact Hin.
  - intro H. exists (g, p). split; [exact H|apply pair_eqb_eq; reflexivity].
Qed.
Lemma members_in g p c : In p (members g c) <-> In (g, p) c.
Proof.
  unfold members. rewrite in_map_iff. split.
  - intros ([g' p'] & He & Hin). cbn in He. subst p'. apply filter_In in Hin as [Hin Hg].
    cbn in Hg. apply N.eqb_eq in Hg. subst. exact Hin.
  - intro H. exists (g, p). split; [reflexivity|]. apply filter_In. split; [exact H|]. cbn. apply N.eqb_refl.
Qed.
Lemma members_nodup g c : NoDup c -> NoDup (members g c).
Proof.
  unfold members. induction c as [|[g' p'] c IH]; intro Hnd; cbn; [constructor|].
  inversion Hnd as [|? ? Hnin Hnd']; subst.
  destruct (N.eqb g' g) eqn:E; cbn; [|apply IH, Hnd'].
  apply N.eqb_eq in E. subst g'. constructor; [|apply IH, Hnd'].
  intro Hin. apply Hnin. apply (members_in g p' c). exact Hin.
Qed.
Lemma count_add_in g p c : In (g, p) (count_add g p c).
Proof.
  unfold count_add. destruct (existsb _ c) eqn:E; [apply existsb_pair, E|left; reflexivity].
Qed.
Lemma count_add_incl g p c : incl c (count_add g p c).
Proof. unfold count_add. destruct (existsb _ c); intros x Hx; [exact Hx|right; exact Hx]. Qed.
Lemma count_add_inv g p c x : In x (count_add g p c) -> x = (g, p) \/ In x c.
Proof. unfold count_add. destruct (existsb _ c); intro H; [right; exact H|destruct H; auto]. Qed.
Lemma count_add_nodup g p c : NoDup c -> NoDup (count_add g p c).
Proof.
  intro H. unfold count_add. destruct (existsb _ c) eqn:E; [exact H|].
  constructor; [|exact H]. intro Hin. apply existsb_pair in Hin. congruence.
Qed.
Lemma members_count_add_other g g' p c : g' <> g -> members g' (count_add g p c) = members g' c.
Proof.
  intro Hne. unfold count_add. destruct (existsb _ c); [reflexivity|].
  unfold members. cbn. destruct (N.eqb g g') eqn:E; [apply N.eqb_eq in E; congruence|reflexivity].
Qed.
Lemma members_count_add_len g p c : length (members g (count_add g p c)) <= S (length (members g c)).
Proof.
  unfold count_add. destruct (existsb _ c); [lia|].
  unfold members. cbn. rewrite N.eqb_refl. cbn. lia.
Qed.

Definition counts_ok (limit : nat) (cn : counts) : Prop :=
  NoDup cn /\ forall g, length (members g cn) <= limit.

Lemma addr_loop_ok limit p : forall l cn cn' keep,
  counts_ok limit cn -> addr_loop limit p l cn = (cn', keep) ->
  counts_ok limit cn' /\ incl cn cn' /\
  (keep = true -> forall g, In g (addr_groups l) -> In (g, p) cn').
Proof.
  induction l as [|[g|] r IH]; intros cn cn' keep Hok H; cbn in H.
  - inversion H; subst. split; [exact Hok|]. split; [apply incl_refl|]. intros _ g [].
  - destruct (existsb (pair_eqb (g, p)) cn) eqn:Em.
    { apply existsb_pair in Em. destruct (IH _ _ _ Hok H) as (Hok' & Hincl & Hk).
      split; [exact Hok'|]. split; [exact Hincl|].
      intros Hkeep g' Hg'. cbn in Hg'. destruct Hg' as [<-|Hg']; [apply Hincl, Em|apply Hk; assumption]. }
    destruct (limit <=? length (members g cn)) eqn:E.
    + inversion H; subst. split; [exact Hok|]. split; [apply incl_refl|]. discriminate.
    + apply Nat.leb_gt in E.
      assert (Hok1 : counts_ok limit (count_add g p cn)).
      { destruct Hok as [Hnd Hlen]. split; [apply count_add_nodup, Hnd|].
        intro g'. destruct (N.eq_dec g' g) as [->|Hne].
        - pose proof (members_count_add_len g p cn). lia.
        - rewrite members_count_add_other by exact Hne. apply Hlen. }
      destruct (IH _ _ _ Hok1 H) as (Hok' & Hincl & Hk).
      split; [exact Hok'|]. split.
      * intros x Hx. apply Hincl, count_add_incl, Hx.
      * intros Hkeep g' Hg'. cbn in Hg'. destruct Hg' as [<-|Hg'].
        -- apply Hincl, count_add_in.
        -- apply Hk; assumption.
  - apply (IH _ _ _ Hok H).
Qed.

Definition covers (t : table) (cn : counts) (peers : list N) : Prop :=
  forall p g, In p peers -> In g (addr_groups (addrs_of t p)) -> In (g, p) cn.

Lemma scan_group_inv t K limit : 0 < limit -> forall page st,
  counts_ok limit (s_counts st) -> covers t (s_counts st) (s_peers st) ->
  exists cn', counts_ok limit cn' /\ covers t cn' (result_of (scan_page t K limit page st)).
Proof.
  intros Hlim. induction page as [|k rest IH]; intros st Hok Hcov.
  - exists (s_counts st). split; assumption.
  - rewrite scan_page_cons.
    destruct (nmem k (t_kmap t)); [|apply IH; assumption].
    apply Nat.ltb_lt in Hlim. rewrite Hlim.
    destruct (addr_loop limit k (addrs_of t k) (s_counts st)) as [c' keep] eqn:E.
    destruct (addr_loop_ok _ _ _ _ _ _ Hok E) as (Hok' & Hincl & Hk).
    assert (Hcov' : covers t c' (s_peers st)).
    { intros p g Hp Hg. apply Hincl, Hcov; assumption. }
    destruct keep.
    + assert (Hcov2 : covers t c' (s_peers st ++ [k])).
      { intros p g Hp Hg. apply in_app_or in Hp as [Hp|[<-|[]]]; [apply Hcov'; assumption|].
        apply Hk; [reflexivity|exact Hg]. }
      cbv zeta. destruct (_ =? K).
      * exists c'. split; assumption.
      * apply IH; assumption.
    + apply IH; assumption.
Qed.

(* ---------- tables of one crawl ---------- *)
Lemma assoc_in {A} x (a : A) m : assoc x m = Some a -> In (x, a) m.
Proof.
  induction m as [|[y b] m IH]; cbn; [discriminate|].
  destruct (N.eqb x y) eqn:E; intro H.
  - apply N.eqb_eq in E. inversion H; subst. left; reflexivity.
  - right. apply IH, H.
Qed.
Lemma assoc_nodup {A} x (a : A) m : NoDup (map fst m) -> In (x, a) m -> assoc x m = Some a.
Proof.
  induction m as [|[y b] m IH]; cbn; intros Hnd Hin; [contradiction|].
  inversion Hnd as [|? ? Hnin Hnd']; subst.
  destruct Hin as [He|Hin].
  - inversion He; subst. rewrite N.eqb_refl. reflexivity.
  - destruct (N.eqb x y) eqn:E.
    + apply N.eqb_eq in E. subst. exfalso. apply Hnin. apply in_map_iff. exists (y, a). split; auto.
    + apply IH; assumption.
Qed.
Lemma nmem_in x l : nmem x l = true <-> In x l.
Proof.
  unfold nmem. rewrite existsb_exists. split.
  - intros (y & Hin & He). apply N.eqb_eq in He. subst. exact Hin.
  - intro H. exists x. split; [exact H|apply N.eqb_refl].
Qed.

(* ================= 1. sorted, from one crawl, bounded ================= *)
Lemma sorted_single_crawl (c : crawl) key K limit l :
  NoDup (map fst c) -> get_closest (table_of c) key K limit = Ok l ->
  StronglySorted (dlt key) l /\ incl l (map fst c) /\ NoDup l /\ (1 <= K -> length l <= K).
Proof.
  intros Hnd H.
  destruct (Nat.eq_dec (K + 2 * limit) 0) as [Hz|Hnz].
  - (* step 0: only the empty table answers *)
    assert (K = 0 /\ limit = 0) as [-> ->] by lia.
    destruct c as [|x c].
    + vm_compute in H. inversion H; subst. repeat split; try constructor; intros ? [].
    + unfold get_closest, get_closest_fuel in H.
      rewrite paging_spins in H by (cbn; discriminate). discriminate.
  - rewrite get_closest_flat in H by lia. inversion H; subst l. clear H.
    pose proof (flat_scan_sublist (table_of c) key K limit) as Hs. cbn [t_rt table_of] in Hs.
    repeat split.
    + eapply sublist_sorted; [exact Hs|apply sort_by_strict, Hnd].
    + intros x Hx. apply (sort_by_in key). eapply sublist_incl; eauto.
    + eapply sublist_nodup; [exact Hs|apply sort_by_nodup, Hnd].
    + apply flat_scan_length.
Qed.

(* the paging loop ends, without panic, whenever the step is positive *)
Lemma closest_terminates t key K limit :
  0 < K + 2 * limit ->
  exists l, get_closest t key K limit = Ok l /\
            forall fuel, length (t_rt t) < fuel -> get_closest_fuel fuel t key K limit = Ok l.
Proof.
  intro H. exists (flat_scan t key K limit). split; [apply get_closest_flat, H|].
  intros fuel Hf. apply get_closest_fuel_flat; assumption.
Qed.

(* ================= 2. at most [limit] peers per group ================= *)
Lemma group_limit (c : crawl) key K limit l :
  NoDup (map fst c) -> 0 < limit -> get_closest (table_of c) key K limit = Ok l ->
  forall g, length (filter (peer_in_group c g) l) <= limit.
Proof.
  intros Hnd Hlim H g.
  destruct (sorted_single_crawl c key K limit l Hnd H) as (_ & _ & Hndl & _).
  rewrite get_closest_flat in H by lia. inversion H; subst l. clear H.
  unfold flat_scan in *.
  destruct (scan_group_inv (table_of c) K limit Hlim (sort_by key (t_rt (table_of c))) scan_init)
    as (cn & [Hcn Hlen] & Hcov).
  { split; [constructor|]. intro; cbn; lia. }
  { intros p g' []. }
  unfold result_of in Hcov.
  set (res := match scan_page (table_of c) K limit (sort_by key (t_rt (table_of c))) scan_init with
              | SReturn peers => peers | SContinue st => s_peers st end) in *.
  transitivity (length (members g cn)); [|apply Hlen].
  apply NoDup_incl_length.
  - apply NoDup_filter. exact Hndl.
  - intros p Hp. apply filter_In in Hp as [Hp Hg].
    apply members_in. apply Hcov; [exact Hp|].
    unfold peer_in_group in Hg. apply nmem_in in Hg. exact Hg.
Qed.

(* ================= 3. exact when diverse ================= *)
Definition exact_inv (t : table) (st : scan_st) : Prop :=
  NoDup (s_counts st) /\
  forall g p, In (g, p) (s_counts st) -> In p (s_peers st) /\ In g (addr_groups (addrs_of t p)).

Lemma addr_loop_pass limit k : forall l cn,
  NoDup cn ->
  (forall g, In g (addr_groups l) -> In (g, k) cn \/ length (members g cn) < limit) ->
  exists cn', addr_loop limit k l cn = (cn', true) /\ NoDup cn' /\
              forall g p, In (g, p) cn' -> In (g, p) cn \/ (p = k /\ In g (addr_groups l)).
Proof.
  induction l as [|[g|] r IH]; intros cn Hnd Hlt; cbn [addr_loop].
  - exists cn. split; [reflexivity|]. split; [exact Hnd|]. auto.
  - destruct (existsb (pair_eqb (g, k)) cn) eqn:Em.
    + destruct (IH cn Hnd) as (cn' & He & Hnd' & Hsub).
      * intros g' Hg'. apply Hlt. cbn. auto.
      * exists cn'. split; [exact He|]. split; [exact Hnd'|].
        intros g' p Hin. destruct (Hsub _ _ Hin) as [Hc|[-> Hr]]; [left; exact Hc|right; cbn; auto].
    + assert (Hnm : ~ In (g, k) cn) by (intro Hc; apply existsb_pair in Hc; congruence).
      assert (E : limit <=? length (members g cn) = false).
      { apply Nat.leb_gt. destruct (Hlt g) as [Hc|Hc]; [cbn; auto|contradiction|exact Hc]. }
      rewrite E.
      destruct (IH (count_add g k cn)) as (cn' & He & Hnd' & Hsub).
      * apply count_add_nodup, Hnd.
      * intros g' Hg'in. destruct (N.eq_dec g' g) as [->|Hne]; [left; apply count_add_in|].
        destruct (Hlt g') as [Hc|Hc]; [cbn; auto|left; apply count_add_incl, Hc|].
        right. rewrite members_count_add_other by exact Hne. exact Hc.
      * exists cn'. split; [exact He|]. split; [exact Hnd'|].
        intros g' p Hin. destruct (Hsub _ _ Hin) as [Hc|[-> Hr]].
        -- apply count_add_inv in Hc as [Hc|Hc]; [inversion Hc; subst; right; cbn; auto|left; exact Hc].
        -- right. cbn. auto.
  - apply IH; assumption.
Qed.

Lemma exact_scan (c : crawl) K limit :
  NoDup (map fst c) -> 1 <= K ->
  (limit = 0 \/ forall g, group_size c g <= limit) ->
  forall page st,
    NoDup (s_peers st ++ page) -> incl (s_peers st ++ page) (map fst c) ->
    exact_inv (table_of c) st -> length (s_peers st) < K ->
    result_of (scan_page (table_of c) K limit page st) =
    s_peers st ++ firstn (K - length (s_peers st)) page.
Proof.
  intros Hndc HK Hdiv. induction page as [|k rest IH]; intros st Hnd Hincl Hinv Hlen.
  - cbn. rewrite firstn_nil, app_nil_r. reflexivity.
  - rewrite scan_page_cons.
    assert (Hk : In k (map fst c)) by (apply Hincl, in_or_app; right; left; reflexivity).
    assert (Hm : nmem k (t_kmap (table_of c)) = true) by (apply nmem_in; exact Hk).
    rewrite Hm.
    assert (Hpass : exists c',
      (if 0 <? limit then addr_loop limit k (addrs_of (table_of c) k) (s_counts st)
       else (s_counts st, true)) = (c', true) /\
      exact_inv (table_of c) {| s_counts := c'; s_peers := s_peers st ++ [k] |}).
    { destruct Hinv as [Hcn Hown].
      destruct (0 <? limit) eqn:El.
      - apply Nat.ltb_lt in El. destruct Hdiv as [->|Hsize]; [lia|].
        apply in_map_iff in Hk as ([k' a] & Hka & Hin). cbn in Hka. subst k'.
        assert (Ha : addrs_of (table_of c) k = a).
        { unfold addrs_of. cbn [t_addrs table_of]. rewrite (assoc_nodup k a c Hndc Hin). reflexivity. }
        rewrite Ha.
        destruct (addr_loop_pass limit k a (s_counts st) Hcn) as (cn' & He & Hnd' & Hsub).
        + (* every group of k still has room *)
          intros g Hg. right.
          assert (Hkin : In k (filter (peer_in_group c g) (map fst c))).
          { apply filter_In. split; [apply in_map_iff; exists (k, a); auto|].
            unfold peer_in_group. rewrite Ha. apply nmem_in, Hg. }
          assert (Hknot : ~ In k (members g (s_counts st))).
          { intro Hc. apply members_in, Hown in Hc as [Hc _].
            apply NoDup_remove_2 in Hnd. apply Hnd. apply in_or_app. left. exact Hc. }
          assert (Hle : length (k :: members g (s_counts st)) <= group_size c g).
          { apply NoDup_incl_length.
            - constructor; [exact Hknot|apply members_nodup, Hcn].
            - intros p [<-|Hp]; [exact Hkin|].
              apply members_in, Hown in Hp as [Hp Hgp].
              apply filter_In. split; [apply Hincl, in_or_app; left; exact Hp|].
              unfold peer_in_group. apply nmem_in, Hgp. }
          specialize (Hsize g). cbn [length] in Hle. lia.
        + exists cn'. split; [exact He|]. split; [exact Hnd'|]. cbn [s_counts s_peers].
          intros g p Hin'. destruct (Hsub _ _ Hin') as [Hc|[-> Hg]].
          * destruct (Hown _ _ Hc) as [Hp Hg]. split; [apply in_or_app; left; exact Hp|exact Hg].
          * split; [apply in_or_app; right; left; reflexivity|rewrite Ha; exact Hg].
      - exists (s_counts st). split; [reflexivity|]. split; [exact Hcn|]. cbn [s_counts s_peers].
        intros g p Hin'. destruct (Hown _ _ Hin') as [Hp Hg]. split; [apply in_or_app; left; exact Hp|exact Hg]. }
    destruct Hpass as (c' & -> & Hinv').
    cbv zeta. rewrite app_length. cbn [length].
    destruct (length (s_peers st) + 1 =? K) eqn:E.
    + apply Nat.eqb_eq in E. cbn [result_of].
      replace (K - length (s_peers st)) with 1 by lia. reflexivity.
    + apply Nat.eqb_neq in E.
      rewrite IH.
      * cbn [s_peers]. rewrite app_length. cbn [length].
        replace (K - length (s_peers st)) with (S (K - (length (s_peers st) + 1))) by lia.
        cbn [firstn]. rewrite <- app_assoc. reflexivity.
      * cbn [s_peers]. rewrite <- app_assoc. exact Hnd.
      * cbn [s_peers]. rewrite <- app_assoc. exact Hincl.
      * exact Hinv'.
      * cbn [s_peers]. rewrite app_length. cbn [length]. lia.
Qed.

Lemma exact_when_diverse (c : crawl) key K limit :
  NoDup (map fst c) -> 1 <= K ->
  (limit = 0 \/ forall g, group_size c g <= limit) ->
  get_closest (table_of c) key K limit = Ok (closest_n key (map fst c) K).
Proof.
  intros Hnd HK Hdiv. rewrite get_closest_flat by lia. f_equal.
  unfold flat_scan. cbn [t_rt table_of].
  pose proof (exact_scan c K limit Hnd HK Hdiv (sort_by key (map fst c)) scan_init) as H.
  cbn [s_peers scan_init app length] in H. rewrite Nat.sub_0_r in H.
  unfold result_of in H. unfold closest_n.
  destruct (scan_page _ _ _ _ _); apply H; try lia.
  all: try (apply sort_by_nodup, Hnd).
  all: try (intros x Hx; apply (sort_by_in key), Hx).
  all: split; [constructor|intros ? ? []].
Qed.

(* ================= 4. the constructor ================= *)
Lemma new_fullrt_spec dbucket dlimit o f :
  new_fullrt dbucket dlimit o = Some f ->
  1 <= f_K f /\ f_limit f = configured_limit dlimit o /\
  f_K f = match o_bucket o with Some k => k | None => dbucket end /\
  (o_amino o = true -> f_K f = dbucket).
Proof.
  unfold new_fullrt.
  destruct (o_amino o && negb ((match o_bucket o with Some k => k | None => dbucket end) =? dbucket)) eqn:Ea;
    [discriminate|].
  destruct (_ <? 1) eqn:Ek; [discriminate|]. intro H. inversion H; subst f. cbn.
  apply Nat.ltb_ge in Ek. split; [exact Ek|]. split; [reflexivity|]. split; [reflexivity|].
  intro Ham. rewrite Ham in Ea. cbn in Ea. apply negb_false_iff, Nat.eqb_eq in Ea. exact Ea.
Qed.
Lemma new_fullrt_rejects_small dbucket dlimit o k :
  o_bucket o = Some k -> k < 1 -> new_fullrt dbucket dlimit o = None.
Proof.
  intros Hb Hk. unfold new_fullrt. rewrite Hb. destruct (o_amino o && _); [reflexivity|].
  apply Nat.ltb_lt in Hk. rewrite Hk. reflexivity.
Qed.
Lemma new_fullrt_default_bucket dbucket dlimit o :
  o_bucket o = None -> 1 <= dbucket ->
  new_fullrt dbucket dlimit o = Some {| f_K := dbucket; f_limit := configured_limit dlimit o |}.
Proof.
  intros Hb Hd. unfold new_fullrt. rewrite Hb, Nat.eqb_refl, andb_false_r.
  apply Nat.ltb_ge in Hd. rewrite Hd. reflexivity.
Qed.

(* ================= 5. the table swap ================= *)
Definition latest_table (l : list crawl) : table :=
  match l with [] => empty_table | c :: _ => table_of c end.
Definition read_ok (crawls : list crawl) (r : table * N * nat * nat * res (list N)) : Prop :=
  let '(tbl, key, K, limit, ans) := r in
  (tbl = empty_table \/ exists c, In c crawls /\ tbl = table_of c) /\ ans = get_closest tbl key K limit.

Definition sinv (s : fstate) : Prop :=
  f_tbl s = latest_table (match f_pending s with Some _ => tl (f_crawls s) | None => f_crawls s end) /\
  (match f_pending s with Some c => exists r, f_crawls s = c :: r | None => True end) /\
  Forall (read_ok (f_crawls s)) (f_reads s).

Lemma read_ok_mono l c r : read_ok l r -> read_ok (c :: l) r.
Proof.
  destruct r as [[[[tbl key] K] limit] ans]. intros [[H|(c' & Hin & H)] Ha]; split; auto.
  right. exists c'. split; [right; exact Hin|exact H].
Qed.

Lemma latest_in l : latest_table l = empty_table \/ exists c, In c l /\ latest_table l = table_of c.
Proof. destruct l as [|c l]; [left; reflexivity|right; exists c; split; [left|]; reflexivity]. Qed.

Lemma fstep_inv s e s' : sinv s -> fstep s e = Some s' -> sinv s'.
Proof.
  intros (Ht & Hp & Hr) H. destruct e as [c| |key K limit]; cbn in H.
  - destruct (f_pending s) eqn:E; [discriminate|]. inversion H; subst s'. clear H.
    unfold sinv. cbn. split; [exact Ht|]. split; [eexists; reflexivity|].
    eapply Forall_impl; [|exact Hr]. intros r. apply read_ok_mono.
  - destruct (f_pending s) as [c|] eqn:E; [|discriminate]. inversion H; subst s'. clear H.
    destruct Hp as (r & Hc). unfold sinv. cbn. rewrite Hc. cbn. split; [reflexivity|]. split; [exact I|].
    rewrite <- Hc. exact Hr.
  - inversion H; subst s'. clear H. unfold sinv, do_read. cbn. split; [exact Ht|]. split; [exact Hp|].
    constructor; [|exact Hr]. cbn. split; [|reflexivity].
    rewrite Ht.
    destruct (f_pending s) as [c|].
    + destruct Hp as (r & Hc). rewrite Hc. cbn.
      destruct (latest_in r) as [H|(c' & Hin & H)]; [left; exact H|right; exists c'; split; [right; exact Hin|exact H]].
    + apply latest_in.
Qed.

Lemma frun_inv evs : forall s s', sinv s -> frun evs s = Some s' -> sinv s'.
Proof.
  induction evs as [|e evs IH]; intros s s' Hi H; cbn in H; [inversion H; subst; exact Hi|].
  destruct (fstep s e) as [s1|] eqn:E; [|discriminate].
  eapply IH; [eapply fstep_inv; eauto|exact H].
Qed.

Lemma sinv_init : sinv f_init.
Proof. unfold sinv. cbn. split; [reflexivity|]. split; [exact I|constructor]. Qed.

(* every reader, under every interleaving of reads with crawls and swaps, gets
   the answer computed on the table of one completed crawl (or on the initial
   empty table) *)
Lemma swap_reads_single_crawl evs s :
  frun evs f_init = Some s -> Forall (read_ok (f_crawls s)) (f_reads s).
Proof. intro H. apply (frun_inv evs f_init s sinv_init H). Qed.

(* between crawls the table is the last crawl's; while one waits to be
   installed it is still the previous one's *)
Lemma swap_table evs s :
  frun evs f_init = Some s ->
  f_tbl s = latest_table (match f_pending s with Some _ => tl (f_crawls s) | None => f_crawls s end).
Proof. intro H. apply (frun_inv evs f_init s sinv_init H). Qed.

(* ================= 7. bulk arithmetic ================= *)
Lemma bulk_chunk_size_ok nkeys K numPeers :
  (0 <= nkeys)%Z -> (0 <= K)%Z -> (1 <= numPeers)%Z ->
  exists c, bulk_chunk_size nkeys K numPeers = Ok c /\ (1 <= c)%Z.
Proof.
  intros Hn HK Hp. unfold bulk_chunk_size, go_div.
  destruct (Z.eqb numPeers 0) eqn:E; [apply Z.eqb_eq in E; lia|]. cbn [bind].
  pose proof (Z.quot_pos (nkeys * K * 2) numPeers ltac:(nia) ltac:(lia)) as Hq.
  destruct (Z.eqb (Z.quot (nkeys * K * 2) numPeers) 0) eqn:E2.
  - eexists. split; [reflexivity|lia].
  - apply Z.eqb_neq in E2. eexists. split; [reflexivity|lia].
Qed.
Lemma bulk_chunk_size_zero_peers nkeys K :
  bulk_chunk_size nkeys K 0 = Panic "integer divide by zero".
Proof. reflexivity. Qed.

Lemma div_loop_spec {A} chunk : 1 <= chunk -> forall (keys next : list A) pr,
  pr = length next -> pr < chunk ->
  concat (div_loop chunk keys next pr) = next ++ keys /\
  Forall (fun g => g <> [] /\ length g <= chunk) (div_loop chunk keys next pr).
Proof.
  intros Hc. induction keys as [|k r IH]; intros next pr Hpr Hlt; cbn [div_loop].
  - destruct (pr =? 0) eqn:E.
    + apply Nat.eqb_eq in E. subst pr. destruct next; [|discriminate]. split; [reflexivity|constructor].
    + apply Nat.eqb_neq in E. split; [cbn; rewrite !app_nil_r; reflexivity|].
      constructor; [|constructor]. split; [intro; subst next; cbn in *; lia|lia].
  - destruct (S pr =? chunk) eqn:E.
    + apply Nat.eqb_eq in E. destruct (IH [] 0 eq_refl ltac:(lia)) as [Hcat Hall].
      split.
      * cbn [concat]. rewrite Hcat. cbn. rewrite <- app_assoc. reflexivity.
      * constructor; [|exact Hall]. split; [destruct next; discriminate|].
        rewrite app_length. cbn. lia.
    + apply Nat.eqb_neq in E.
      destruct (IH (next ++ [k]) (S pr)) as [Hcat Hall].
      * rewrite app_length. cbn. lia.
      * lia.
      * split; [rewrite Hcat, <- app_assoc; reflexivity|exact Hall].
Qed.
Lemma divide_by_chunk_size_ok {A} (keys : list A) c :
  (1 <= c)%Z -> exists g, divide_by_chunk_size keys c = Ok g /\ concat g = keys /\
                          Forall (fun x => x <> [] /\ length x <= Z.to_nat c) g.
Proof.
  intro Hc. unfold divide_by_chunk_size. destruct keys as [|k r].
  - exists []. repeat split; constructor.
  - destruct (Z.ltb c 1) eqn:E; [apply Z.ltb_lt in E; lia|].
    destruct (div_loop_spec (Z.to_nat c) ltac:(lia) (k :: r) [] 0 eq_refl ltac:(lia)) as [H1 H2].
    eexists. split; [reflexivity|]. split; assumption.
Qed.

Lemma closest_each_ok t K limit : 0 < K + 2 * limit -> forall keys,
  exists ps, closest_each t K limit keys = Ok ps.
Proof.
  intro Hs. induction keys as [|k r [ps IH]]; [exists []; reflexivity|].
  cbn [closest_each]. rewrite get_closest_flat by exact Hs. cbn [bind]. rewrite IH. cbn [bind].
  eexists; reflexivity.
Qed.

Lemma bulk_no_panic t K limit keys :
  0 < K + 2 * limit -> exists r, bulk_send t K limit keys = Ok r.
Proof.
  intros Hs. unfold bulk_send. destruct keys as [|k r]; [exists RNil; reflexivity|].
  destruct (length (t_kmap t) =? 0) eqn:Ez; [exists RErr; reflexivity|].
  apply Nat.eqb_neq in Ez.
  destruct (bulk_chunk_size_ok (Z.of_nat (length (k :: r))) (Z.of_nat K) (Z.of_nat (length (t_kmap t))))
    as (c & Hc & Hc1); try lia.
  rewrite Hc. cbn [bind].
  destruct (divide_by_chunk_size_ok (k :: r) c Hc1) as (g & Hg & _). rewrite Hg. cbn [bind].
  destruct (closest_each_ok t K limit Hs (concat g)) as (ps & Hps). rewrite Hps. cbn [bind].
  eexists; reflexivity.
Qed.
Lemma bulk_empty_table_errors K limit keys :
  keys <> [] -> bulk_send (table_of []) K limit keys = Ok RErr.
Proof. intro H. destruct keys; [contradiction|reflexivity]. Qed.
Lemma single_empty_table_errors key K limit : single_send (table_of []) key K limit = Ok RErr.
Proof. reflexivity. Qed.

(* ================= 8. missing options ================= *)
(* a constructed client's lookups return, on every table *)
Lemma constructed_lookup_returns dbucket dlimit o f t key :
  new_fullrt dbucket dlimit o = Some f ->
  exists l, get_closest t key (f_K f) (f_limit f) = Ok l.
Proof.
  intro H. destruct (new_fullrt_spec _ _ _ _ H) as (HK & _).
  destruct (closest_terminates t key (f_K f) (f_limit f)) as (l & Hl & _); [lia|].
  exists l. exact Hl.
Qed.
(* the state the old constructor could produce still spins: the constructor is
   what excludes it *)
Lemma zero_step_spins (c : crawl) key fuel :
  c <> [] -> get_closest_fuel fuel (table_of c) key 0 0 =
             Blocked "GetClosestPeers: paging loop still running".
Proof.
  intro Hne. unfold get_closest_fuel. apply paging_spins. destruct c; [contradiction|discriminate].
Qed.
