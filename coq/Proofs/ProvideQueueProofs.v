(* Lemmas about Model/ProvideQueue.v *)
From Verif.Lib Require Import GoSem Bits.
From Verif.Model Require Import PrefixQueue ProvideQueue.
From Verif.Proofs Require Import PrefixQueueProofs.
From Coq Require Import Permutation.

Lemma has_id_true i l : has_id i l = true <-> exists k, In k l /\ kid k = i.
Proof.
  unfold has_id. rewrite existsb_exists. split; intros [k [H E]]; exists k; split; auto.
  - apply N.eqb_eq. exact E.
  - apply N.eqb_eq. exact E.
Qed.

Lemma has_id_false i l : has_id i l = false <-> forall k, In k l -> kid k <> i.
Proof.
  split.
  - intros H k Hk E. assert (has_id i l = true) by (apply has_id_true; eauto). congruence.
  - intro H. destruct (has_id i l) eqn:E; [|reflexivity]. apply has_id_true in E. destruct E as [k [Hk E]].
    exfalso. exact (H k Hk E).
Qed.

Lemma add_keys_In ks : forall l k, In k (add_keys l ks) -> In k l \/ In k ks.
Proof.
  unfold add_keys. induction ks as [|x ks IH]; intros l k H; simpl in *; [auto|].
  apply IH in H. destruct H as [H|H]; [|auto].
  destruct (has_id (kid x) l); [auto|]. apply in_app_iff in H. simpl in H. intuition.
Qed.

Lemma add_keys_incl ks : forall l k, In k l -> In k (add_keys l ks).
Proof.
  unfold add_keys. induction ks as [|x ks IH]; intros l k H; simpl; [exact H|].
  apply IH. destruct (has_id (kid x) l); [exact H|]. apply in_app_iff. auto.
Qed.

Lemma add_keys_has ks : forall l k, In k ks -> exists k', In k' (add_keys l ks) /\ kid k' = kid k.
Proof.
  induction ks as [|x ks IH]; intros l k H; [destruct H|].
  unfold add_keys. simpl. destruct H as [->|H].
  - destruct (has_id (kid k) l) eqn:E.
    + apply has_id_true in E. destruct E as [k' [Hk' E]]. exists k'. split; [|exact E].
      apply (add_keys_incl ks). exact Hk'.
    + exists k. split; [|reflexivity]. apply (add_keys_incl ks). apply in_app_iff. right. left. reflexivity.
  - apply IH. exact H.
Qed.

Lemma NoDup_map_snoc {A B} (f : A -> B) l x :
  NoDup (map f l) -> (forall y, In y l -> f y <> f x) -> NoDup (map f (l ++ [x])).
Proof.
  intros H1 H2. rewrite map_app. simpl. apply NoDup_snoc; [exact H1|].
  intro H. apply in_map_iff in H. destruct H as [y [E Hy]]. exact (H2 y Hy E).
Qed.

Lemma add_keys_nodup ks : forall l, NoDup (map kid l) -> NoDup (map kid (add_keys l ks)).
Proof.
  unfold add_keys. induction ks as [|x ks IH]; intros l H; simpl; [exact H|].
  apply IH. destruct (has_id (kid x) l) eqn:E; [exact H|].
  apply NoDup_map_snoc; [exact H|]. apply has_id_false. exact E.
Qed.

Section WithBits.
(* the Kademlia identifier of a key is a function of the key *)
Variable bits_of : N -> bits.
Definition kwf (k : qkey) : Prop := kbits k = bits_of (kid k).

Record Inv (q : pvq) : Prop := {
  i_pq : Inv_pq (pfx q);
  i_ids : NoDup (map kid (keys q));
  i_wf : forall k, In k (keys q) -> kwf k;
  i_cov : forall k, In k (keys q) -> exists p, In p (dq (pfx q)) /\ under p k = true;
  i_ne : forall p, In p (dq (pfx q)) -> exists k, In k (keys q) /\ under p k = true }.

Lemma Inv_empty : Inv pvq_empty.
Proof.
  split; simpl; [apply Inv_pq_empty|constructor| | |]; intros ? [].
Qed.

Lemma under_same_id k k' p : kwf k -> kwf k' -> kid k = kid k' -> under p k = under p k'.
Proof. unfold kwf, under. intros H1 H2 E. rewrite H1, H2, E. reflexivity. Qed.

(* two queued prefixes covering the same key are the same prefix *)
Lemma cover_unique q k a b : Inv_pq q -> In a (dq q) -> In b (dq q) ->
  is_prefix a k = true -> is_prefix b k = true -> a = b.
Proof.
  intros I Ha Hb Pa Pb. apply (inv_pfree _ I); auto. eapply prefixes_of_same_comparable; eauto.
Qed.

(* ---- Enqueue ---------------------------------------------------------------- *)
Lemma enqueue_nolock_spec q p ks :
  Inv q -> ks <> [] -> (forall k, In k ks -> kwf k /\ under p k = true) ->
  exists q', enqueue_nolock q p ks = Ok q' /\ Inv q' /\
    push_outcome (pfx q) p (pfx q') /\ keys q' = add_keys (keys q) ks.
Proof.
  intros I NE Hks. unfold enqueue_nolock.
  destruct (push1_spec (pfx q) p (i_pq _ I)) as (f & E & If & Out). rewrite E. simpl.
  eexists. split; [reflexivity|]. split; [|split; [exact Out|reflexivity]].
  assert (WF: forall k, In k (add_keys (keys q) ks) -> kwf k).
  { intros k Hk. apply add_keys_In in Hk. destruct Hk as [Hk|Hk]; [apply (i_wf _ I); exact Hk|apply Hks; exact Hk]. }
  split; simpl.
  - exact If.
  - apply add_keys_nodup. apply (i_ids _ I).
  - exact WF.
  - (* every key is covered *)
    intros k Hk. apply add_keys_In in Hk.
    destruct Out as [a x b Hl Hpx Hpa Hd | e He Hep -> | NC Hd].
    + destruct Hk as [Hk|Hk].
      * destruct (i_cov _ I k Hk) as [e [He Ue]].
        destruct (is_prefix p e) eqn:Pe.
        -- exists p. split; [rewrite Hd; apply in_app_iff; right; left; reflexivity|].
           unfold under in *. eapply is_prefix_trans; eauto.
        -- exists e. split; [|exact Ue]. rewrite Hd. rewrite Hl in He.
           apply in_app_iff in He. apply in_app_iff. destruct He as [He|[He|He]].
           ++ left; exact He.
           ++ subst e. congruence.
           ++ right. right. apply filter_In. split; [exact He|]. rewrite Pe. reflexivity.
      * exists p. split; [rewrite Hd; apply in_app_iff; right; left; reflexivity|apply Hks; exact Hk].
    + destruct Hk as [Hk|Hk]; [apply (i_cov _ I); exact Hk|].
      exists e. split; [exact He|]. unfold under. eapply is_prefix_trans; [exact Hep|]. apply Hks. exact Hk.
    + destruct Hk as [Hk|Hk].
      * destruct (i_cov _ I k Hk) as [e [He Ue]]. exists e. split; [rewrite Hd; apply in_app_iff; left; exact He|exact Ue].
      * exists p. split; [rewrite Hd; apply in_app_iff; right; left; reflexivity|apply Hks; exact Hk].
  - (* every queued prefix has a key *)
    assert (Pkey: exists k, In k (add_keys (keys q) ks) /\ under p k = true).
    { destruct ks as [|k0 ks0]; [congruence|].
      destruct (add_keys_has (k0 :: ks0) (keys q) k0 (or_introl eq_refl)) as [k' [Hk' Eid]].
      exists k'. split; [exact Hk'|].
      rewrite (under_same_id k' k0 p); [apply Hks; left; reflexivity|apply WF; exact Hk'|apply Hks; left; reflexivity|exact Eid]. }
    intros e He.
    destruct Out as [a x b Hl Hpx Hpa Hd | e0 He0 Hep -> | NC Hd].
    + rewrite Hd in He. apply in_app_iff in He. destruct He as [He|[<-|He]].
      * destruct (i_ne _ I e) as [k [Hk Uk]]; [rewrite Hl; apply in_app_iff; left; exact He|].
        exists k. split; [apply add_keys_incl; exact Hk|exact Uk].
      * exact Pkey.
      * apply filter_In in He. destruct He as [He _].
        destruct (i_ne _ I e) as [k [Hk Uk]]; [rewrite Hl; apply in_app_iff; right; right; exact He|].
        exists k. split; [apply add_keys_incl; exact Hk|exact Uk].
    + destruct (i_ne _ I e He) as [k [Hk Uk]]. exists k. split; [apply add_keys_incl; exact Hk|exact Uk].
    + rewrite Hd in He. apply in_app_iff in He. destruct He as [He|[<-|[]]].
      * destruct (i_ne _ I e He) as [k [Hk Uk]]. exists k. split; [apply add_keys_incl; exact Hk|exact Uk].
      * exact Pkey.
Qed.

Lemma enqueue_spec q p ks :
  Inv q -> (forall k, In k ks -> kwf k /\ under p k = true) ->
  exists q', enqueue q p ks = Ok q' /\ Inv q' /\
    (ks = [] -> q' = q) /\
    (ks <> [] -> push_outcome (pfx q) p (pfx q') /\ keys q' = add_keys (keys q) ks).
Proof.
  intros I Hks. destruct ks as [|k0 ks0].
  - exists q. simpl. split; [reflexivity|]. split; [exact I|]. split; [reflexivity|congruence].
  - assert (NE: k0 :: ks0 <> []) by discriminate.
    destruct (enqueue_nolock_spec q p _ I NE Hks) as (q' & Eq & I' & Out & K).
    exists q'. unfold enqueue. split; [exact Eq|]. split; [exact I'|].
    split; [discriminate|]. intros _. split; assumption.
Qed.

(* ---- Dequeue ---------------------------------------------------------------- *)
Lemma NoDup_map_filter {A B} (f : A -> B) g l : NoDup (map f l) -> NoDup (map f (filter g l)).
Proof.
  induction l as [|x l IH]; simpl; intro H; [constructor|].
  inversion H as [|? ? Hx H']; subst. destruct (g x); simpl.
  - constructor; [|apply IH; exact H']. intro Hin. apply Hx.
    apply in_map_iff in Hin. destruct Hin as [y [E Hy]]. apply filter_In in Hy.
    apply in_map_iff. exists y. tauto.
  - apply IH; exact H'.
Qed.

Lemma dequeue_spec q : Inv q ->
  match dq (pfx q) with
  | [] => dequeue q = (q, None)
  | p :: d => exists q', dequeue q = (q', Some (p, filter (under p) (keys q))) /\
                dq (pfx q') = d /\ keys q' = filter (fun k => negb (under p k)) (keys q) /\
                filter (under p) (keys q) <> [] /\ Inv q'
  end.
Proof.
  intro I. pose proof (pop_spec (pfx q) (i_pq _ I)) as H. unfold dequeue.
  destruct (dq (pfx q)) as [|p d] eqn:E.
  - rewrite H. reflexivity.
  - destruct H as (f & -> & Hd & If). eexists. split; [reflexivity|]. simpl.
    split; [exact Hd|]. split; [reflexivity|].
    assert (Pin: In p (dq (pfx q))) by (rewrite E; left; reflexivity).
    split.
    { destruct (i_ne _ I p Pin) as [k [Hk Uk]]. intro F.
      assert (In k (filter (under p) (keys q))) by (apply filter_In; auto). rewrite F in H. destruct H. }
    split; simpl.
    + exact If.
    + apply NoDup_map_filter. apply (i_ids _ I).
    + intros k Hk. apply filter_In in Hk. apply (i_wf _ I). tauto.
    + intros k Hk. apply filter_In in Hk. destruct Hk as [Hk Nk]. apply negb_true_iff in Nk.
      destruct (i_cov _ I k Hk) as [e [He Ue]]. exists e. split; [|exact Ue].
      rewrite Hd. rewrite E in He. destruct He as [<-|He]; [congruence|exact He].
    + intros e He. rewrite Hd in He.
      assert (Ein: In e (dq (pfx q))) by (rewrite E; right; exact He).
      destruct (i_ne _ I e Ein) as [k [Hk Uk]]. exists k. split; [|exact Uk].
      apply filter_In. split; [exact Hk|]. apply negb_true_iff.
      destruct (under p k) eqn:Up; [|reflexivity]. exfalso.
      assert (e = p) by (eapply (cover_unique (pfx q) (kbits k)); eauto using i_pq).
      subst e. pose proof (inv_nodup _ (i_pq _ I)) as ND. rewrite E in ND. inversion ND. contradiction.
Qed.

(* ---- DequeueMatching -------------------------------------------------------- *)
Lemma filter_nil_all {A} (f : A -> bool) l : filter f l = [] -> forall x, In x l -> f x = false.
Proof.
  intros H x Hx. destruct (f x) eqn:E; [|reflexivity].
  assert (In x (filter f l)) by (apply filter_In; auto). rewrite H in H0. destruct H0.
Qed.

Lemma filter_neg_all {A} (f : A -> bool) l : filter f l = [] -> filter (fun x => negb (f x)) l = l.
Proof.
  intro H. apply filter_app_false. intros y Hy. rewrite (filter_nil_all f l H y Hy). reflexivity.
Qed.

Lemma dequeue_matching_spec q p : Inv q ->
  exists q', dequeue_matching q p = Ok (q', filter (under p) (keys q)) /\
    keys q' = filter (fun k => negb (under p k)) (keys q) /\
    (exists f, dq (pfx q') = filter f (dq (pfx q))) /\
    Inv q'.
Proof.
  intro I. unfold dequeue_matching.
  destruct (filter (under p) (keys q)) as [|k0 sub0] eqn:S.
  - exists q. split; [reflexivity|]. split; [symmetry; apply filter_neg_all; exact S|].
    split; [exists (fun _ => true); symmetry; apply filter_app_false; reflexivity|exact I].
  - rewrite <- S.
    set (ks' := filter (fun k => negb (under p k)) (keys q)).
    assert (K0: In k0 (keys q) /\ under p k0 = true).
    { apply filter_In. rewrite S. left. reflexivity. }
    assert (Hks': forall k, In k ks' <-> In k (keys q) /\ under p k = false).
    { intro k. unfold ks'. rewrite filter_In, negb_true_iff. tauto. }
    assert (ND': NoDup (map kid ks')) by (apply NoDup_map_filter; apply (i_ids _ I)).
    assert (WF': forall k, In k ks' -> kwf k) by (intros k Hk; apply Hks' in Hk; apply (i_wf _ I); tauto).
    destruct (pq_remove_spec (pfx q) p (i_pq _ I)) as (f & b & -> & If & Hdf & Hb). simpl.
    destruct b.
    + (* p or superstrings of p were queued and are gone *)
      destruct (proj1 Hb eq_refl) as [x [Hx Px]].
      eexists. split; [reflexivity|]. simpl. split; [reflexivity|]. split; [eexists; exact Hdf|].
      split; simpl; auto.
      * intros k Hk. apply Hks' in Hk. destruct Hk as [Hk Nk].
        destruct (i_cov _ I k Hk) as [e [He Ue]]. exists e. split; [|exact Ue].
        rewrite Hdf. apply filter_In. split; [exact He|]. apply negb_true_iff.
        destruct (is_prefix p e) eqn:Pe; [|reflexivity]. exfalso.
        unfold under in *. rewrite (is_prefix_trans _ _ _ Pe Ue) in Nk. discriminate.
      * intros e He. rewrite Hdf in He. apply filter_In in He. destruct He as [He Ne]. apply negb_true_iff in Ne.
        destruct (i_ne _ I e He) as [k [Hk Uk]]. exists k. split; [|exact Uk]. apply Hks'. split; [exact Hk|].
        destruct (under p k) eqn:Up; [|reflexivity]. exfalso.
        (* e and p both cover k: comparable; e is not under p, so e is a proper prefix of p and of x *)
        assert (C: comparable e p = true) by (eapply prefixes_of_same_comparable; eauto).
        unfold comparable in C. rewrite Ne, orb_false_r in C.
        assert (e = x).
        { apply (inv_pfree _ (i_pq _ I)); auto. unfold comparable. rewrite (is_prefix_trans _ _ _ C Px). reflexivity. }
        subst e. assert (p = x) by (apply is_prefix_antisym; assumption). subst x.
        rewrite is_prefix_refl in Ne. discriminate.
    + (* nothing under p was queued *)
      assert (NS: forall y, In y (dq (pfx q)) -> is_prefix p y = false).
      { intros y Hy. destruct (is_prefix p y) eqn:E; [|reflexivity].
        assert (false = true) by (apply Hb; eauto). discriminate. }
      assert (Hdf': dq f = dq (pfx q)).
      { rewrite Hdf. apply filter_app_false. intros y Hy. rewrite (NS y Hy). reflexivity. }
      (* the prefix covering k0 is a proper prefix sp of p, and the only queued prefix comparable with p *)
      assert (OnlySp: forall e k, In e (dq (pfx q)) -> under e k = true -> under p k = true -> is_prefix e p = true).
      { intros e k He Ue Up. assert (C: comparable e p = true) by (eapply prefixes_of_same_comparable; eauto).
        unfold comparable in C. rewrite (NS e He), orb_false_r in C. exact C. }
      destruct (find_prefix_of (tr f) p) as [sp|] eqn:F.
      * apply find_prefix_of_Some in F. destruct F as [Hsp Psp].
        apply (inv_same _ If) in Hsp. rewrite Hdf' in Hsp.
        assert (Uniq: forall e, In e (dq (pfx q)) -> is_prefix e p = true -> e = sp).
        { intros e He Pe. apply (inv_pfree _ (i_pq _ I)); auto. eapply prefixes_of_same_comparable; eauto. }
        destruct (filter (under sp) ks') as [|k1 rest] eqn:S2.
        -- (* sp lost its last keys: it leaves the queue *)
           destruct (pq_remove_spec f sp If) as (f2 & b2 & -> & If2 & Hdf2 & _). simpl.
           eexists. split; [reflexivity|]. simpl. split; [reflexivity|].
           split; [eexists; rewrite Hdf2, Hdf'; reflexivity|].
           assert (In2: forall e, In e (dq f2) <-> In e (dq (pfx q)) /\ e <> sp).
           { intro e. rewrite Hdf2, Hdf', filter_In, negb_true_iff. split.
             - intros [He Ne]. split; [exact He|]. intro; subst. rewrite is_prefix_refl in Ne. discriminate.
             - intros [He Ne]. split; [exact He|]. destruct (is_prefix sp e) eqn:E; [|reflexivity]. exfalso. apply Ne.
               symmetry. apply (inv_pfree _ (i_pq _ I)); auto. unfold comparable. rewrite E. reflexivity. }
           split; simpl; auto.
           ++ intros k Hk. pose proof Hk as Hk2. apply Hks' in Hk. destruct Hk as [Hk Nk].
              destruct (i_cov _ I k Hk) as [e [He Ue]]. exists e. split; [|exact Ue]. apply In2. split; [exact He|].
              intro; subst e. pose proof (filter_nil_all _ _ S2 k Hk2). congruence.
           ++ intros e He. apply In2 in He. destruct He as [He Ne].
              destruct (i_ne _ I e He) as [k [Hk Uk]]. exists k. split; [|exact Uk]. apply Hks'. split; [exact Hk|].
              destruct (under p k) eqn:Up; [|reflexivity]. exfalso. apply Ne. apply Uniq; [exact He|]. eapply OnlySp; eauto.
        -- (* sp keeps keys: the queue is unchanged *)
           eexists. split; [reflexivity|]. simpl. split; [reflexivity|].
           split; [exists (fun _ => true); rewrite Hdf'; symmetry; apply filter_app_false; reflexivity|].
           split; simpl; auto.
           ++ intros k Hk. apply Hks' in Hk. destruct Hk as [Hk Nk].
              destruct (i_cov _ I k Hk) as [e [He Ue]]. exists e. rewrite Hdf'. tauto.
           ++ intros e He. rewrite Hdf' in He.
              destruct (bits_eqb e sp) eqn:Ee.
              ** apply bits_eqb_eq in Ee. subst e. exists k1.
                 assert (In k1 (filter (under sp) ks')) by (rewrite S2; left; reflexivity).
                 apply filter_In in H. exact H.
              ** apply bits_eqb_neq in Ee.
                 destruct (i_ne _ I e He) as [k [Hk Uk]]. exists k. split; [|exact Uk]. apply Hks'. split; [exact Hk|].
                 destruct (under p k) eqn:Up; [|reflexivity]. exfalso. apply Ee. apply Uniq; [exact He|]. eapply OnlySp; eauto.
      * (* impossible under the invariant, but harmless *)
        pose proof (find_prefix_of_None _ _ F) as NP.
        eexists. split; [reflexivity|]. simpl. split; [reflexivity|].
        split; [exists (fun _ => true); rewrite Hdf'; symmetry; apply filter_app_false; reflexivity|].
        split; simpl; auto.
        -- intros k Hk. apply Hks' in Hk. destruct Hk as [Hk Nk].
           destruct (i_cov _ I k Hk) as [e [He Ue]]. exists e. rewrite Hdf'. tauto.
        -- intros e He. rewrite Hdf' in He.
           destruct (i_ne _ I e He) as [k [Hk Uk]]. exists k. split; [|exact Uk]. apply Hks'. split; [exact Hk|].
           destruct (under p k) eqn:Up; [|reflexivity]. exfalso.
           assert (is_prefix e p = true) by (eapply OnlySp; eauto).
           rewrite (NP e) in H; [discriminate|]. apply (inv_same _ If). rewrite Hdf'. exact He.
Qed.

(* ---- Remove(keys...) ---------------------------------------------------------- *)
Lemma add_set_In p l x : In x (add_set p l) <-> x = p \/ In x l.
Proof.
  unfold add_set. destruct (mem p l) eqn:E.
  - apply mem_In in E. split; [auto|]. intros [->|H]; auto.
  - rewrite in_app_iff. simpl. intuition congruence.
Qed.

Lemma remove_fold_spec t ks : forall cur m,
  let r := fold_left (fun (acc : list qkey * list bits) k =>
                 let (cur, m) := acc in
                 (remove_id cur (kid k),
                  match find_prefix_of t (kbits k) with
                  | Some p => add_set p m
                  | None => m
                  end)) ks (cur, m) in
  (forall x, In x (fst r) <-> In x cur /\ has_id (kid x) ks = false) /\
  (forall p, In p (snd r) <-> In p m \/ exists k, In k ks /\ find_prefix_of t (kbits k) = Some p) /\
  (exists f, fst r = filter f cur).
Proof.
  induction ks as [|k ks IH]; intros cur m; simpl.
  - split; [intro x; tauto|]. split; [intro p; split; [auto|intros [H|[k [[] _]]]; exact H]|].
    exists (fun _ => true). symmetry. apply filter_app_false. reflexivity.
  - destruct (IH (remove_id cur (kid k))
               (match find_prefix_of t (kbits k) with Some p => add_set p m | None => m end)) as (H1 & H2 & [f H3]).
    split; [|split].
    + intro x. rewrite H1. unfold remove_id. rewrite filter_In, negb_true_iff. simpl.
      rewrite orb_false_iff, (N.eqb_sym (kid k) (kid x)). tauto.
    + intro p. rewrite H2. split.
      * intros [H|[k' [Hk' F]]].
        -- destruct (find_prefix_of t (kbits k)) as [p0|] eqn:F; [|auto].
           apply add_set_In in H. destruct H as [->|H]; [right; exists k; auto|auto].
        -- right. exists k'. auto.
      * intros [H|[k' [[<-|Hk'] F]]].
        -- left. destruct (find_prefix_of t (kbits k)); [apply add_set_In; auto|exact H].
        -- left. rewrite F. apply add_set_In. auto.
        -- right. exists k'. auto.
    + exists (fun x => negb (N.eqb (kid x) (kid k)) && f x). rewrite H3. unfold remove_id.
      clear. induction cur as [|y cur IHc]; simpl; [reflexivity|].
      destruct (negb (N.eqb (kid y) (kid k))); simpl; [|exact IHc].
      destruct (f y); [f_equal|]; exact IHc.
Qed.

Lemma remove_keys_spec q ks : Inv q -> (forall k, In k ks -> kwf k) ->
  exists q', remove_keys q ks = Ok q' /\
    (forall x, In x (keys q') <-> In x (keys q) /\ has_id (kid x) ks = false) /\
    (exists f, keys q' = filter f (keys q)) /\
    (exists f, dq (pfx q') = filter f (dq (pfx q))) /\
    Inv q'.
Proof.
  intros I Hwf. unfold remove_keys.
  pose proof (remove_fold_spec (tr (pfx q)) ks (keys q) []) as R. simpl in R.
  destruct (fold_left _ ks (keys q, [])) as [ks' matching]. simpl in R.
  destruct R as (H1 & H2 & [fk H3]).
  assert (ND': NoDup (map kid ks')) by (rewrite H3; apply NoDup_map_filter; apply (i_ids _ I)).
  assert (WF': forall k, In k ks' -> kwf k) by (intros k Hk; apply H1 in Hk; apply (i_wf _ I); tauto).
  set (noKeys := fun p => match filter (under p) ks' with [] => true | _ => false end).
  assert (NK: forall p, noKeys p = true <-> forall k, In k ks' -> under p k = false).
  { intro p. unfold noKeys. destruct (filter (under p) ks') as [|k0 r] eqn:F.
    - split; [intros _; apply filter_nil_all; exact F|reflexivity].
    - split; [discriminate|]. intro H. assert (In k0 (filter (under p) ks')) by (rewrite F; left; reflexivity).
      apply filter_In in H0. destruct H0 as [A B]. rewrite (H k0 A) in B. discriminate. }
  (* a queued prefix whose keys are all gone was found while removing them *)
  assert (Gone: forall e, In e (dq (pfx q)) -> noKeys e = true -> In e matching).
  { intros e He Hn. destruct (i_ne _ I e He) as [k [Hk Uk]].
    assert (Hid: has_id (kid k) ks = true).
    { destruct (has_id (kid k) ks) eqn:E; [reflexivity|]. exfalso.
      assert (In k ks') by (apply H1; auto). rewrite (proj1 (NK e) Hn k H) in Uk. discriminate. }
    apply has_id_true in Hid. destruct Hid as [k' [Hk' Eid]].
    apply H2. right. exists k'. split; [exact Hk'|].
    assert (Uk': is_prefix e (kbits k') = true).
    { pose proof (under_same_id k' k e (Hwf k' Hk') (i_wf _ I k Hk) Eid) as U. unfold under in U. rewrite U. exact Uk. }
    destruct (find_prefix_of (tr (pfx q)) (kbits k')) as [e'|] eqn:F.
    - apply find_prefix_of_Some in F. destruct F as [He' Pe']. apply (inv_same _ (i_pq _ I)) in He'.
      f_equal. eapply (cover_unique (pfx q)); eauto using i_pq.
    - pose proof (find_prefix_of_None _ _ F e) as N. rewrite N in Uk'; [discriminate|].
      apply (inv_same _ (i_pq _ I)). exact He. }
  assert (MQ: forall p, In p matching -> In p (dq (pfx q))).
  { intros p Hp. apply H2 in Hp. destruct Hp as [[]|[k [_ F]]]. apply find_prefix_of_Some in F.
    apply (inv_same _ (i_pq _ I)). tauto. }
  fold noKeys.
  destruct (filter noKeys matching) as [|p0 rest] eqn:TR.
  - (* no prefix lost its last key *)
    eexists. split; [reflexivity|]. simpl. split; [exact H1|]. split; [eexists; exact H3|].
    split; [exists (fun _ => true); symmetry; apply filter_app_false; reflexivity|].
    split; simpl; auto.
    + apply (i_pq _ I).
    + intros k Hk. apply H1 in Hk. apply (i_cov _ I). tauto.
    + intros e He. destruct (noKeys e) eqn:Hn.
      * exfalso. assert (In e (filter noKeys matching)) by (apply filter_In; split; [apply Gone; assumption|exact Hn]).
        rewrite TR in H. destruct H.
      * unfold noKeys in Hn. destruct (filter (under e) ks') as [|k r] eqn:F; [discriminate|].
        exists k. apply filter_In. rewrite F. left. reflexivity.
  - rewrite <- TR.
    assert (EX: exists p, In p (filter noKeys matching) /\ In p (dq (pfx q))).
    { exists p0. assert (In p0 (filter noKeys matching)) by (rewrite TR; left; reflexivity).
      split; [exact H|]. apply filter_In in H. apply MQ. tauto. }
    destruct (remove_prefixes_spec (pfx q) _ (i_pq _ I) EX) as (f & i & -> & Hdf & _ & If). simpl.
    eexists. split; [reflexivity|]. simpl. split; [exact H1|]. split; [eexists; exact H3|]. split; [eexists; exact Hdf|].
    assert (Inf: forall e, In e (dq f) <-> In e (dq (pfx q)) /\ noKeys e = false).
    { intro e. rewrite Hdf, filter_In, negb_true_iff, mem_false, filter_In. split.
      - intros [He N]. split; [exact He|]. destruct (noKeys e) eqn:Hn; [|reflexivity]. exfalso. apply N. split; [apply Gone; assumption|reflexivity].
      - intros [He N]. split; [exact He|]. intros [_ N']. congruence. }
    split; simpl; auto.
    + intros k Hk. pose proof Hk as Hk2. apply H1 in Hk. destruct (i_cov _ I k (proj1 Hk)) as [e [He Ue]].
      exists e. split; [|exact Ue]. apply Inf. split; [exact He|].
      destruct (noKeys e) eqn:Hn; [|reflexivity]. rewrite (proj1 (NK e) Hn k Hk2) in Ue. discriminate.
    + intros e He. apply Inf in He. destruct He as [He Hn].
      unfold noKeys in Hn. destruct (filter (under e) ks') as [|k r] eqn:F; [discriminate|].
      exists k. apply filter_In. rewrite F. left. reflexivity.
Qed.

(* ---- Persist / DrainDatastore ------------------------------------------------- *)
Lemma add_keys_fresh ks : forall l,
  NoDup (map kid ks) -> (forall k, In k ks -> has_id (kid k) l = false) -> add_keys l ks = l ++ ks.
Proof.
  unfold add_keys. induction ks as [|k ks IH]; intros l ND F; simpl.
  - rewrite app_nil_r. reflexivity.
  - rewrite (F k (or_introl eq_refl)). inversion ND as [|? ? Hk ND']; subst.
    rewrite IH; [rewrite <- app_assoc; reflexivity|exact ND'|].
    intros k' Hk'. apply has_id_false. intros y Hy. apply in_app_iff in Hy. destruct Hy as [Hy|[<-|[]]].
    + pose proof (F k' (or_intror Hk')) as F'. rewrite has_id_false in F'. apply F'. exact Hy.
    + intro E. apply Hk. rewrite E. apply in_map. exact Hk'.
Qed.

Lemma parse_ds_key_parts p i v :
  parse_row_prefix {| row_pos := i; row_prefix := ds_key_parts p; row_val := v |} = p.
Proof. destruct p; reflexivity. Qed.

Lemma drain_persist_gen ks d : forall i q0,
  Inv q0 ->
  NoDup (map kid ks) -> (forall k, In k ks -> kwf k) ->
  NoDup d -> pfree d ->
  (forall p e, In p d -> In e (dq (pfx q0)) -> comparable p e = false) ->
  (forall p, In p d -> filter (under p) ks <> []) ->
  exists q', drain q0 (persist_rows i d ks) = Ok (q', []) /\
    dq (pfx q') = dq (pfx q0) ++ d /\
    (forall x, In x (keys q') <-> In x (keys q0) \/ (In x ks /\ exists p, In p d /\ under p x = true)) /\
    Inv q'.
Proof.
  induction d as [|p d IH]; intros i q0 I ND WF NDd PF DJ NE; simpl.
  - exists q0. split; [reflexivity|]. split; [rewrite app_nil_r; reflexivity|]. split; [|exact I].
    intro x. split; [auto|]. intros [H|[_ [p [[] _]]]]. exact H.
  - destruct (filter (under p) ks) as [|k0 sub0] eqn:Sf; [exfalso; apply (NE p (or_introl eq_refl)); exact Sf|].
    cbn [drain row_val]. rewrite parse_ds_key_parts. rewrite <- Sf.
    assert (SubIn: forall k, In k (filter (under p) ks) <-> In k ks /\ under p k = true) by (intro k; apply filter_In).
    assert (NEs: filter (under p) ks <> []) by (rewrite Sf; discriminate).
    assert (Hsub: forall k, In k (filter (under p) ks) -> kwf k /\ under p k = true).
    { intros k Hk. apply SubIn in Hk. split; [apply WF|]; tauto. }
    destruct (enqueue_nolock_spec q0 p _ I NEs Hsub) as (q1 & E & I1 & Out & K1).
    rewrite E. simpl.
    (* p overlaps nothing queued: it is appended *)
    assert (NCp: forall e, In e (dq (pfx q0)) -> comparable p e = false) by (intros e He; apply DJ; [left; reflexivity|exact He]).
    assert (Hd1: dq (pfx q1) = dq (pfx q0) ++ [p]).
    { destruct Out as [a x b Hl Hpx _ _ | e He Hep _ | _ Hd]; [| |exact Hd]; exfalso.
      - assert (In x (dq (pfx q0))) by (rewrite Hl; apply in_app_iff; right; left; reflexivity).
        specialize (NCp x H). unfold comparable in NCp. rewrite Hpx in NCp. discriminate.
      - specialize (NCp e He). unfold comparable in NCp. rewrite Hep, orb_true_r in NCp. discriminate. }
    (* the keys under p are new *)
    assert (Fresh: forall k, In k (filter (under p) ks) -> has_id (kid k) (keys q0) = false).
    { intros k Hk. apply Hsub in Hk. destruct Hk as [Wk Uk]. apply has_id_false. intros y Hy Eid.
      destruct (i_cov _ I y Hy) as [e [He Ue]].
      rewrite (under_same_id y k e (i_wf _ I y Hy) Wk Eid) in Ue.
      assert (C: comparable p e = true) by (eapply prefixes_of_same_comparable; eauto).
      rewrite (NCp e He) in C. discriminate. }
    assert (K1': keys q1 = keys q0 ++ filter (under p) ks).
    { rewrite K1. apply add_keys_fresh; [apply NoDup_map_filter; exact ND|exact Fresh]. }
    inversion NDd as [|? ? Hp NDd']; subst.
    assert (PF': pfree d) by (intros a b Ha Hb; apply PF; right; assumption).
    assert (DJ': forall p' e, In p' d -> In e (dq (pfx q1)) -> comparable p' e = false).
    { intros p' e Hp' He. rewrite Hd1 in He. apply in_app_iff in He. destruct He as [He|[<-|[]]].
      - apply DJ; [right; exact Hp'|exact He].
      - destruct (comparable p' p) eqn:C; [|reflexivity]. exfalso. apply Hp.
        rewrite <- (PF p' p (or_intror Hp') (or_introl eq_refl) C). exact Hp'. }
    destruct (IH (S i) q1 I1 ND WF NDd' PF' DJ' (fun p' Hp' => NE p' (or_intror Hp'))) as (q' & Ed & Hdq & Hk & I').
    exists q'. split; [exact Ed|]. split; [rewrite Hdq, Hd1, <- app_assoc; reflexivity|]. split; [|exact I'].
    intro x. rewrite Hk, K1', in_app_iff, SubIn. split.
    + intros [[H|[H U]]|[H [p' [Hp' U]]]].
      * left; exact H.
      * right. split; [exact H|]. exists p. auto.
      * right. split; [exact H|]. exists p'. auto.
    + intros [H|[H [p' [[<-|Hp'] U]]]].
      * left; left; exact H.
      * left; right; auto.
      * right. split; [exact H|]. exists p'. auto.
Qed.

Lemma persist_drain_roundtrip q : Inv q ->
  exists q', drain pvq_empty (persist q) = Ok (q', []) /\
    dq (pfx q') = dq (pfx q) /\
    (forall x, In x (keys q') <-> In x (keys q)) /\
    Inv q'.
Proof.
  intro I. unfold persist.
  destruct (drain_persist_gen (keys q) (dq (pfx q)) 0 pvq_empty Inv_empty (i_ids _ I) (i_wf _ I)
              (inv_nodup _ (i_pq _ I)) (inv_pfree _ (i_pq _ I))) as (q' & E & Hd & Hk & I').
  - intros p e _ [].
  - intros p Hp F. destruct (i_ne _ I p Hp) as [k [Hk Uk]].
    assert (In k (filter (under p) (keys q))) by (apply filter_In; auto). rewrite F in H. destruct H.
  - exists q'. split; [exact E|]. split; [exact Hd|]. split; [|exact I'].
    intro x. rewrite Hk. simpl. split.
    + intros [[]|[H _]]. exact H.
    + intro H. right. split; [exact H|]. apply (i_cov _ I). exact H.
Qed.

(* ---- whole histories ------------------------------------------------------------ *)
Inductive qop :=
| QEnq (p : bits) (ks : list qkey)
| QDeq
| QDeqM (p : bits)
| QRemove (ks : list qkey)
| QClear
| QRestart.

Definition qop_ok (o : qop) : Prop :=
  match o with
  | QEnq p ks => forall k, In k ks -> kwf k /\ under p k = true
  | QRemove ks => forall k, In k ks -> kwf k
  | _ => True
  end.

Definition qstep (q : pvq) (o : qop) : res pvq :=
  match o with
  | QEnq p ks => enqueue q p ks
  | QDeq => Ok (fst (dequeue q))
  | QDeqM p => r <- dequeue_matching q p ;; Ok (fst r)
  | QRemove ks => remove_keys q ks
  | QClear => Ok (fst (pvq_clear q))
  | QRestart => r <- drain pvq_empty (persist q) ;; Ok (fst r)
  end.

Fixpoint qrun (q : pvq) (ops : list qop) : res pvq :=
  match ops with
  | [] => Ok q
  | o :: rest => q' <- qstep q o ;; qrun q' rest
  end.

Lemma qstep_inv q o : Inv q -> qop_ok o -> exists q', qstep q o = Ok q' /\ Inv q'.
Proof.
  intros I Hok. destruct o as [p ks| |p|ks| |]; simpl in *.
  - destruct (enqueue_spec q p ks I Hok) as (q' & E & I' & _). eauto.
  - pose proof (dequeue_spec q I) as H. destruct (dq (pfx q)).
    + rewrite H. eauto.
    + destruct H as (q' & -> & _ & _ & _ & I'). eauto.
  - destruct (dequeue_matching_spec q p I) as (q' & -> & _ & _ & I'). simpl. eauto.
  - destruct (remove_keys_spec q ks I Hok) as (q' & -> & _ & _ & _ & I'). eauto.
  - exists pvq_empty. split; [reflexivity|apply Inv_empty].
  - destruct (persist_drain_roundtrip q I) as (q' & -> & _ & _ & I'). simpl. eauto.
Qed.

Lemma qrun_inv ops : forall q, Inv q -> Forall qop_ok ops -> exists q', qrun q ops = Ok q' /\ Inv q'.
Proof.
  induction ops as [|o ops IH]; intros q I F; simpl.
  - eauto.
  - inversion F as [|? ? Ho F']; subst. destruct (qstep_inv q o I Ho) as (q1 & -> & I1). simpl. apply IH; assumption.
Qed.
End WithBits.
