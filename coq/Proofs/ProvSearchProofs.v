(* Lemmas about Model/ProvSearch.v *)
From Verif.Lib Require Import GoSem Bits.
From Verif.Model Require Import ProvSearch.
From Coq Require Import Lia ZifyBool ZifyNat ZifyN Permutation.

(* ---- lists ------------------------------------------------------------------ *)
Lemma NoDup_snoc_ps {A} (l : list A) x : NoDup l -> ~ In x l -> NoDup (l ++ [x]).
Proof.
  induction l as [|a l IH]; intros H1 H2; simpl.
  - constructor; [intros []|constructor].
  - inversion H1 as [|? ? Ha Hl]; subst. constructor.
    + intro H. apply in_app_iff in H. destruct H as [H|[H|[]]]; [exact (Ha H)|].
      apply H2. left. symmetry. exact H.
    + apply IH; [exact Hl|]. intro H. apply H2. right. exact H.
Qed.

Definition occ (p : peer) (ys : list entry) : list entry := filter (fun e => N.eqb (fst e) p) ys.
Definition distinct (ys : list entry) : nat := length (nodup N.eq_dec (map fst ys)).

Lemma occ_app p a b : occ p (a ++ b) = occ p a ++ occ p b.
Proof. unfold occ. apply filter_app. Qed.

Lemma occ_In p ys e : In e (occ p ys) <-> In e ys /\ fst e = p.
Proof. unfold occ. rewrite filter_In, N.eqb_eq. tauto. Qed.

Lemma occ_nil_notin p ys : occ p ys = [] -> ~ In p (map fst ys).
Proof.
  intros H Hin. apply in_map_iff in Hin. destruct Hin as [e [E He]].
  assert (In e (occ p ys)) by (apply occ_In; auto). rewrite H in H0. destruct H0.
Qed.

(* ---- the map --------------------------------------------------------------------- *)
Lemma pm_find_None p m : pm_find p m = None <-> ~ In p (map fst m).
Proof.
  induction m as [|[q a] m IH]; simpl; [tauto|]. destruct (N.eqb q p) eqn:E.
  - apply N.eqb_eq in E. split; [discriminate|]. intro H. exfalso. apply H. left. exact E.
  - apply N.eqb_neq in E. rewrite IH. tauto.
Qed.

Lemma pm_find_Some_In p m a : pm_find p m = Some a -> In p (map fst m).
Proof.
  intro H. destruct (in_dec N.eq_dec p (map fst m)) as [Hi|Hn]; [exact Hi|].
  apply pm_find_None in Hn. congruence.
Qed.

Lemma pm_find_app p m q a :
  pm_find p (m ++ [(q, a)]) =
  match pm_find p m with Some x => Some x | None => if N.eqb q p then Some a else None end.
Proof.
  induction m as [|[r b] m IH]; simpl; [reflexivity|]. destruct (N.eqb r p); [reflexivity|exact IH].
Qed.

Lemma pm_find_set p q a m : pm_find p (pm_set q a m) = if N.eqb q p then Some a else pm_find p m.
Proof.
  induction m as [|[r b] m IH]; simpl.
  - reflexivity.
  - destruct (N.eqb r q) eqn:E1; simpl.
    + apply N.eqb_eq in E1. subst r. destruct (N.eqb q p); reflexivity.
    + destruct (N.eqb r p) eqn:E2.
      * apply N.eqb_eq in E2. subst r. rewrite N.eqb_sym, E1. reflexivity.
      * exact IH.
Qed.

Lemma pm_set_keys q a m b : pm_find q m = Some b -> map fst (pm_set q a m) = map fst m.
Proof.
  induction m as [|[r c] m IH]; simpl; [discriminate|]. destruct (N.eqb r q) eqn:E; simpl.
  - reflexivity.
  - intro H. rewrite (IH H). reflexivity.
Qed.

Lemma pm_set_length q a m b : pm_find q m = Some b -> length (pm_set q a m) = length m.
Proof.
  intro H. pose proof (f_equal (@length peer) (pm_set_keys q a m b H)) as E. rewrite !map_length in E. exact E.
Qed.

(* ---- the invariant between the map and what was sent -------------------------------- *)
Record Inv (m : pmap) (ys : list entry) : Prop := {
  inv_nodup : NoDup (map fst m);
  inv_none : forall p, pm_find p m = None -> occ p ys = [];
  inv_false : forall p, pm_find p m = Some false -> occ p ys = [(p, false)];
  inv_true : forall p, pm_find p m = Some true ->
             occ p ys = [(p, true)] \/ occ p ys = [(p, false); (p, true)] }.

Lemma Inv_empty : Inv [] [].
Proof. split; simpl; [constructor|reflexivity|discriminate|discriminate]. Qed.

Lemma occ_single_eq p a : occ p [(p, a)] = [(p, a)].
Proof. unfold occ. simpl. rewrite N.eqb_refl. reflexivity. Qed.
Lemma occ_single_ne p q a : q <> p -> occ p [(q, a)] = [].
Proof. intro H. unfold occ. simpl. apply N.eqb_neq in H. rewrite H. reflexivity. Qed.

Lemma try_add_inv c m ys e :
  Inv m ys ->
  Inv (fst (try_add c m e)) (ys ++ (if snd (try_add c m e) then [e] else [])).
Proof.
  intros I. destruct e as [q a]. unfold try_add. simpl.
  destruct (pm_find q m) as [had|] eqn:F.
  - destruct (negb had && a && room c m) eqn:C; simpl; [|rewrite app_nil_r; exact I].
    apply andb_true_iff in C. destruct C as [C _]. apply andb_true_iff in C. destruct C as [C1 C2].
    apply negb_true_iff in C1. subst had a.
    split.
    + rewrite (pm_set_keys _ _ _ _ F). exact (inv_nodup _ _ I).
    + intros p H. rewrite pm_find_set in H. destruct (N.eqb q p) eqn:E; [discriminate|].
      rewrite occ_app, (inv_none _ _ I _ H). apply occ_single_ne. apply N.eqb_neq. exact E.
    + intros p H. rewrite pm_find_set in H. destruct (N.eqb q p) eqn:E; [discriminate|].
      rewrite occ_app, (inv_false _ _ I _ H), occ_single_ne; [reflexivity|apply N.eqb_neq; exact E].
    + intros p H. rewrite pm_find_set in H. destruct (N.eqb q p) eqn:E.
      * apply N.eqb_eq in E. subst p. right. rewrite occ_app, (inv_false _ _ I _ F), occ_single_eq. reflexivity.
      * rewrite occ_app, occ_single_ne, app_nil_r; [|apply N.eqb_neq; exact E]. exact (inv_true _ _ I _ H).
  - destruct (room c m) eqn:C; simpl; [|rewrite app_nil_r; exact I].
    split.
    + rewrite map_app. simpl. apply NoDup_snoc_ps; [exact (inv_nodup _ _ I)|]. apply pm_find_None. exact F.
    + intros p H. rewrite pm_find_app in H. destruct (pm_find p m) eqn:Fp; [discriminate|].
      destruct (N.eqb q p) eqn:E; [discriminate|].
      rewrite occ_app, (inv_none _ _ I _ Fp). apply occ_single_ne. apply N.eqb_neq. exact E.
    + intros p H. rewrite pm_find_app in H. destruct (pm_find p m) as [x|] eqn:Fp.
      * inversion H; subst x. rewrite occ_app, (inv_false _ _ I _ Fp), occ_single_ne; [reflexivity|].
        intros ->. congruence.
      * destruct (N.eqb q p) eqn:E; [|discriminate]. apply N.eqb_eq in E. subst p. inversion H; subst a.
        rewrite occ_app, (inv_none _ _ I _ Fp), occ_single_eq. reflexivity.
    + intros p H. rewrite pm_find_app in H. destruct (pm_find p m) as [x|] eqn:Fp.
      * inversion H; subst x. rewrite occ_app, occ_single_ne, app_nil_r; [|intros ->; congruence].
        exact (inv_true _ _ I _ Fp).
      * destruct (N.eqb q p) eqn:E; [|discriminate]. apply N.eqb_eq in E. subst p. inversion H; subst a.
        left. rewrite occ_app, (inv_none _ _ I _ Fp), occ_single_eq. reflexivity.
Qed.

Lemma feed_inv c es : forall m ys,
  Inv m ys -> Inv (fst (fst (feed c m es))) (ys ++ snd (fst (feed c m es))).
Proof.
  induction es as [|e es IH]; intros m ys I; simpl; [rewrite app_nil_r; exact I|].
  pose proof (try_add_inv c m ys e I) as I1. destruct (try_add c m e) as [m1 added]. simpl in I1.
  destruct (stop c m1); simpl; [exact I1|].
  specialize (IH m1 _ I1). destruct (feed c m1 es) as [[m2 y2] early]. simpl in *.
  rewrite app_assoc. exact IH.
Qed.

Lemma feed_answers_inv sh c answers : forall m ys,
  Inv m ys -> Inv (fst (feed_answers sh c m answers)) (ys ++ snd (feed_answers sh c m answers)).
Proof.
  induction answers as [|a answers IH]; intros m ys I; simpl; [rewrite app_nil_r; exact I|].
  pose proof (feed_inv c (sh a) m ys I) as I1. destruct (feed c m (sh a)) as [[m1 y1] e1]. simpl in I1.
  specialize (IH m1 _ I1). destruct (feed_answers sh c m1 answers) as [m2 y2]. simpl in *.
  rewrite app_assoc. exact IH.
Qed.

Lemma search_inv sh c locals answers :
  Inv (fst (search sh c locals answers)) (snd (search sh c locals answers)).
Proof.
  unfold search. pose proof (feed_inv c locals [] [] Inv_empty) as I0.
  destruct (feed c [] locals) as [[m0 y0] early]. simpl in I0. destruct early; [exact I0|].
  pose proof (feed_answers_inv sh c answers m0 y0 I0) as I1.
  destruct (feed_answers sh c m0 answers) as [m1 ys]. exact I1.
Qed.

(* ---- distinct peers sent = size of the map ------------------------------------------- *)
Lemma distinct_eq m ys : Inv m ys -> distinct ys = length m.
Proof.
  intro I. unfold distinct. replace (length m) with (length (map fst m)) by apply map_length. apply Nat.le_antisymm.
  - apply NoDup_incl_length; [apply NoDup_nodup|]. intros p Hp. apply nodup_In in Hp.
    destruct (pm_find p m) eqn:F; [exact (pm_find_Some_In _ _ _ F)|].
    exfalso. exact (occ_nil_notin _ _ (inv_none _ _ I _ F) Hp).
  - apply NoDup_incl_length; [exact (inv_nodup _ _ I)|]. intros p Hp. apply nodup_In.
    destruct (pm_find p m) as [[|]|] eqn:F.
    + assert (In (p, true) (occ p ys)) by (destruct (inv_true _ _ I _ F) as [H|H]; rewrite H; simpl; auto).
      apply occ_In in H. apply in_map_iff. exists (p, true). tauto.
    + assert (In (p, false) (occ p ys)) by (rewrite (inv_false _ _ I _ F); simpl; auto).
      apply occ_In in H. apply in_map_iff. exists (p, false). tauto.
    + apply pm_find_None in F. contradiction.
Qed.

(* ---- the cap -------------------------------------------------------------------------- *)
Definition Bound (c : Z) (m : pmap) : Prop := find_all c = false -> (Z.of_nat (length m) <= Z.max 0 c)%Z.

Lemma try_add_bound c m e : Bound c m -> Bound c (fst (try_add c m e)).
Proof.
  intros B Hf. specialize (B Hf). destruct e as [q a]. unfold try_add, room. rewrite Hf. simpl.
  destruct (pm_find q m) as [had|] eqn:F.
  - destruct (negb had && a && _) eqn:C; simpl; [|exact B]. rewrite (pm_set_length _ _ _ _ F). exact B.
  - rewrite orb_false_r. destruct (Z.ltb (Z.of_nat (length m)) c) eqn:C; simpl; [|exact B].
    rewrite app_length. simpl. apply Z.ltb_lt in C. lia.
Qed.

Lemma feed_bound c es : forall m, Bound c m -> Bound c (fst (fst (feed c m es))).
Proof.
  induction es as [|e es IH]; intros m B; simpl; [exact B|].
  pose proof (try_add_bound c m e B) as B1. destruct (try_add c m e) as [m1 added]. simpl in B1.
  destruct (stop c m1); simpl; [exact B1|].
  specialize (IH m1 B1). destruct (feed c m1 es) as [[m2 y2] early]. exact IH.
Qed.

Lemma feed_answers_bound sh c answers : forall m, Bound c m -> Bound c (fst (feed_answers sh c m answers)).
Proof.
  induction answers as [|a answers IH]; intros m B; simpl; [exact B|].
  pose proof (feed_bound c (sh a) m B) as B1. destruct (feed c m (sh a)) as [[m1 y1] e1]. simpl in B1.
  specialize (IH m1 B1). destruct (feed_answers sh c m1 answers) as [m2 y2]. exact IH.
Qed.

Lemma search_bound sh c locals answers : Bound c (fst (search sh c locals answers)).
Proof.
  unfold search. assert (B0 : Bound c []) by (intros _; simpl; lia).
  pose proof (feed_bound c locals [] B0) as B1. destruct (feed c [] locals) as [[m0 y0] early]. simpl in B1.
  destruct early; [exact B1|]. pose proof (feed_answers_bound sh c answers m0 B1) as B2.
  destruct (feed_answers sh c m0 answers) as [m1 ys]. exact B2.
Qed.

(* ---- soundness ------------------------------------------------------------------------- *)
Lemma try_add_yield c m e : snd (try_add c m e) = true -> True.
Proof. trivial. Qed.

Lemma feed_sound c es : forall m e, In e (snd (fst (feed c m es))) -> In e es.
Proof.
  induction es as [|x es IH]; intros m e H; simpl in *; [exact H|].
  destruct (try_add c m x) as [m1 added]. destruct (stop c m1); simpl in H.
  - destruct added; [destruct H as [H|[]]; left; exact H|destruct H].
  - specialize (IH m1 e). destruct (feed c m1 es) as [[m2 y2] early]. simpl in *.
    apply in_app_iff in H. destruct H as [H|H]; [|right; exact (IH H)].
    destruct added; [destruct H as [H|[]]; left; exact H|destruct H].
Qed.

Lemma feed_answers_sound sh c answers : forall m e,
  In e (snd (feed_answers sh c m answers)) -> exists a, In a answers /\ In e (sh a).
Proof.
  induction answers as [|a answers IH]; intros m e H; simpl in *; [destruct H|].
  pose proof (feed_sound c (sh a) m e) as S. destruct (feed c m (sh a)) as [[m1 y1] e1]. simpl in S.
  specialize (IH m1 e). destruct (feed_answers sh c m1 answers) as [m2 y2]. simpl in *.
  apply in_app_iff in H. destruct H as [H|H].
  - exists a. split; [left; reflexivity|exact (S H)].
  - destruct (IH H) as [a' [H1 H2]]. exists a'. split; [right; exact H1|exact H2].
Qed.

Theorem search_sound sh c locals answers e :
  (forall l, Permutation l (sh l)) ->
  In e (snd (search sh c locals answers)) ->
  In e locals \/ exists a, In a answers /\ In e a.
Proof.
  intros P H. unfold search in H. pose proof (feed_sound c locals [] e) as S0.
  destruct (feed c [] locals) as [[m0 y0] early]. simpl in S0. destruct early; [left; exact (S0 H)|].
  pose proof (feed_answers_sound sh c answers m0 e) as S1.
  destruct (feed_answers sh c m0 answers) as [m1 ys]. simpl in *.
  apply in_app_iff in H. destruct H as [H|H]; [left; exact (S0 H)|].
  destruct (S1 H) as [a [H1 H2]]. right. exists a. split; [exact H1|].
  apply (Permutation_in _ (Permutation_sym (P a))). exact H2.
Qed.

(* ---- the count bound and the repetition rule ---------------------------------------------- *)
Theorem search_count_bound sh c locals answers :
  (0 < c)%Z -> (Z.of_nat (distinct (snd (search sh c locals answers))) <= c)%Z.
Proof.
  intro Hc. rewrite (distinct_eq _ _ (search_inv sh c locals answers)).
  pose proof (search_bound sh c locals answers) as B. unfold Bound, find_all in B.
  assert (E : Z.eqb c 0 = false) by (apply Z.eqb_neq; lia). specialize (B E). lia.
Qed.

Theorem search_negative_nothing sh c locals answers :
  (c < 0)%Z -> snd (search sh c locals answers) = [].
Proof.
  intro Hc. pose proof (search_bound sh c locals answers) as B. unfold Bound, find_all in B.
  assert (E : Z.eqb c 0 = false) by (apply Z.eqb_neq; lia). specialize (B E).
  pose proof (distinct_eq _ _ (search_inv sh c locals answers)) as D.
  destruct (snd (search sh c locals answers)) as [|e ys]; [reflexivity|]. exfalso.
  assert (length (fst (search sh c locals answers)) = 0) by lia. rewrite H in D. unfold distinct in D.
  assert (In (fst e) (nodup N.eq_dec (map fst (e :: ys)))) by (apply nodup_In; left; reflexivity).
  destruct (nodup N.eq_dec (map fst (e :: ys))); [destruct H0|discriminate].
Qed.

(* a peer is sent at most twice, and twice only as (no address) then (addresses) *)
Theorem search_repeat_rule sh c locals answers p :
  let ys := snd (search sh c locals answers) in
  occ p ys = [] \/ occ p ys = [(p, false)] \/ occ p ys = [(p, true)] \/ occ p ys = [(p, false); (p, true)].
Proof.
  intro ys. pose proof (search_inv sh c locals answers) as I. fold ys in I.
  destruct (pm_find p (fst (search sh c locals answers))) as [[|]|] eqn:F.
  - destruct (inv_true _ _ I _ F) as [H|H]; tauto.
  - right. left. exact (inv_false _ _ I _ F).
  - left. exact (inv_none _ _ I _ F).
Qed.

(* the same for what a consumer that cancels after n providers has received *)
Lemma occ_firstn_prefix p n ys : exists rest, occ p ys = occ p (firstn n ys) ++ rest.
Proof.
  exists (occ p (skipn n ys)). rewrite <- occ_app, firstn_skipn. reflexivity.
Qed.

Theorem prefix_repeat_rule sh c locals answers p n :
  let ys := firstn n (snd (search sh c locals answers)) in
  occ p ys = [] \/ occ p ys = [(p, false)] \/ occ p ys = [(p, true)] \/ occ p ys = [(p, false); (p, true)].
Proof.
  intro ys. destruct (occ_firstn_prefix p n (snd (search sh c locals answers))) as [rest E]. fold ys in E.
  destruct (search_repeat_rule sh c locals answers p) as [H|[H|[H|H]]]; rewrite H in E;
    destruct (occ p ys) as [|x [|y [|z l]]]; simpl in E; inversion E; subst; auto.
  all: try (destruct l; discriminate).
Qed.

Lemma distinct_firstn_le n ys : distinct (firstn n ys) <= distinct ys.
Proof.
  unfold distinct. apply NoDup_incl_length; [apply NoDup_nodup|]. intros p H. apply nodup_In in H.
  apply nodup_In. apply in_map_iff in H. destruct H as [e [E H]]. apply in_map_iff. exists e.
  split; [exact E|]. rewrite <- (firstn_skipn n ys). apply in_app_iff. left. exact H.
Qed.

(* ---- stop ------------------------------------------------------------------------------------ *)
Lemma stop_try_add c m e : stop c m = true -> try_add c m e = (m, false).
Proof.
  unfold stop, try_add, room. intro H. apply andb_true_iff in H. destruct H as [H1 H2].
  apply negb_true_iff in H1. rewrite H1. apply Z.leb_le in H2.
  assert (E : Z.ltb (Z.of_nat (length m)) c = false) by (apply Z.ltb_ge; exact H2). rewrite E. simpl.
  destruct (pm_find (fst e) m); [rewrite andb_false_r|]; reflexivity.
Qed.

Lemma stop_feed c m es : stop c m = true -> fst (feed c m es) = (m, []).
Proof.
  intro H. destruct es as [|e es]; simpl; [reflexivity|]. rewrite (stop_try_add _ _ _ H), H. reflexivity.
Qed.

Lemma stop_feed_answers sh c answers : forall m, stop c m = true -> feed_answers sh c m answers = (m, []).
Proof.
  induction answers as [|a answers IH]; intros m H; simpl; [reflexivity|].
  pose proof (stop_feed c m (sh a) H) as F. destruct (feed c m (sh a)) as [[m1 y1] e1]. simpl in F.
  inversion F; subst. rewrite (IH _ H). reflexivity.
Qed.

Lemma feed_answers_app sh c a1 : forall m a2,
  feed_answers sh c m (a1 ++ a2) =
  let (m1, y1) := feed_answers sh c m a1 in let (m2, y2) := feed_answers sh c m1 a2 in (m2, y1 ++ y2).
Proof.
  induction a1 as [|a a1 IH]; intros m a2; simpl.
  - destruct (feed_answers sh c m a2); reflexivity.
  - destruct (feed c m (sh a)) as [[m1 y1] e1]. rewrite IH.
    destruct (feed_answers sh c m1 a1) as [m2 y2]. destruct (feed_answers sh c m2 a2) as [m3 y3].
    rewrite app_assoc. reflexivity.
Qed.

(* once count distinct providers are held: the stop function is true, it stays
   true, and whatever is processed afterwards changes nothing *)
Theorem search_stops sh c locals answers more :
  (0 < c)%Z -> (c <= Z.of_nat (distinct (snd (search sh c locals answers))))%Z ->
  stop c (fst (search sh c locals answers)) = true /\
  search sh c locals (answers ++ more) = search sh c locals answers.
Proof.
  intros Hc Hd. rewrite (distinct_eq _ _ (search_inv sh c locals answers)) in Hd.
  assert (S : stop c (fst (search sh c locals answers)) = true).
  { unfold stop, find_all. apply andb_true_iff. split; [apply negb_true_iff, Z.eqb_neq; lia|apply Z.leb_le; exact Hd]. }
  split; [exact S|]. unfold search in *. destruct (feed c [] locals) as [[m0 y0] early]. destruct early; [reflexivity|].
  rewrite feed_answers_app. destruct (feed_answers sh c m0 answers) as [m1 y1]. simpl in S.
  rewrite (stop_feed_answers sh c more m1 S). rewrite app_nil_r. reflexivity.
Qed.

(* ---- count = 0: everything named is sent ---------------------------------------------------------- *)
Definition Have (m : pmap) (e : entry) : Prop :=
  exists a, pm_find (fst e) m = Some a /\ (snd e = true -> a = true).

Lemma try_add_mono c m e e' : Have m e' -> Have (fst (try_add c m e)) e'.
Proof.
  intros [a [F H]]. destruct e as [q b]. unfold Have, try_add. simpl. destruct (pm_find q m) as [had|] eqn:Fq.
  - destruct (negb had && b && room c m) eqn:C; simpl; [|exists a; auto].
    rewrite pm_find_set. destruct (N.eqb q (fst e')) eqn:E; [|exists a; auto].
    apply andb_true_iff in C. destruct C as [C _]. apply andb_true_iff in C. destruct C as [_ C]. subst b.
    exists true. auto.
  - destruct (room c m); simpl; [|exists a; auto]. rewrite pm_find_app, F. exists a. auto.
Qed.

Lemma try_add_zero_have m e : Have (fst (try_add 0 m e)) e.
Proof.
  destruct e as [q b]. unfold Have, try_add, room, find_all. simpl. rewrite orb_true_r.
  destruct (pm_find q m) as [had|] eqn:F; simpl.
  - rewrite andb_true_r. destruct (negb had && b) eqn:C; simpl.
    + rewrite pm_find_set, N.eqb_refl. exists b. auto.
    + exists had. split; [exact F|]. intro Hb. subst b. rewrite andb_true_r in C. apply negb_false_iff in C. exact C.
  - rewrite pm_find_app, F, N.eqb_refl. exists b. auto.
Qed.

Lemma feed_mono c es : forall m e', Have m e' -> Have (fst (fst (feed c m es))) e'.
Proof.
  induction es as [|e es IH]; intros m e' H; simpl; [exact H|].
  pose proof (try_add_mono c m e e' H) as H1. destruct (try_add c m e) as [m1 added]. simpl in H1.
  destruct (stop c m1); simpl; [exact H1|]. specialize (IH m1 e' H1).
  destruct (feed c m1 es) as [[m2 y2] early]. exact IH.
Qed.

Lemma feed_answers_mono sh c answers : forall m e', Have m e' -> Have (fst (feed_answers sh c m answers)) e'.
Proof.
  induction answers as [|a answers IH]; intros m e' H; simpl; [exact H|].
  pose proof (feed_mono c (sh a) m e' H) as H1. destruct (feed c m (sh a)) as [[m1 y1] e1]. simpl in H1.
  specialize (IH m1 e' H1). destruct (feed_answers sh c m1 answers) as [m2 y2]. exact IH.
Qed.

Lemma stop_zero m : stop 0 m = false.
Proof. reflexivity. Qed.

Lemma feed_zero_not_early es : forall m, snd (feed 0 m es) = false.
Proof.
  induction es as [|x es IH]; intro m; simpl; [reflexivity|].
  destruct (try_add 0 m x) as [m1 added]. specialize (IH m1).
  destruct (feed 0 m1 es) as [[m2 y2] early]. simpl in *. exact IH.
Qed.

Lemma feed_zero_have es : forall m e, In e es -> Have (fst (fst (feed 0 m es))) e.
Proof.
  induction es as [|x es IH]; intros m e H; [destruct H|]. simpl.
  pose proof (try_add_zero_have m x) as H0. destruct (try_add 0 m x) as [m1 added] eqn:T. simpl in H0.
  destruct H as [->|H].
  - pose proof (feed_mono 0 es m1 e H0) as M. destruct (feed 0 m1 es) as [[m2 y2] early]. simpl in *. exact M.
  - specialize (IH m1 e H). destruct (feed 0 m1 es) as [[m2 y2] early]. simpl in *. exact IH.
Qed.

Lemma feed_answers_zero_have sh answers : forall m a e,
  In a answers -> In e (sh a) -> Have (fst (feed_answers sh 0 m answers)) e.
Proof.
  induction answers as [|x answers IH]; intros m a e Ha He; [destruct Ha|]. simpl.
  destruct Ha as [->|Ha].
  - pose proof (feed_zero_have (sh a) m e He) as H. destruct (feed 0 m (sh a)) as [[m1 y1] e1]. simpl in H.
    pose proof (feed_answers_mono sh 0 answers m1 e H) as M. destruct (feed_answers sh 0 m1 answers). exact M.
  - destruct (feed 0 m (sh x)) as [[m1 y1] e1]. specialize (IH m1 a e Ha He).
    destruct (feed_answers sh 0 m1 answers). exact IH.
Qed.

Lemma have_sent m ys e : Inv m ys -> Have m e ->
  (exists a, In (fst e, a) ys) /\ (snd e = true -> In (fst e, true) ys).
Proof.
  intros I [a [F H]]. destruct a.
  - assert (In (fst e, true) ys).
    { assert (In (fst e, true) (occ (fst e) ys)) by (destruct (inv_true _ _ I _ F) as [E|E]; rewrite E; simpl; auto).
      apply occ_In in H0. tauto. }
    split; [exists true; exact H0|intros _; exact H0].
  - assert (In (fst e, false) ys).
    { assert (In (fst e, false) (occ (fst e) ys)) by (rewrite (inv_false _ _ I _ F); simpl; auto).
      apply occ_In in H0. tauto. }
    split; [exists false; exact H0|]. intro Hb. specialize (H Hb). discriminate.
Qed.

Theorem search_zero_complete sh locals answers e :
  (forall l, Permutation l (sh l)) ->
  In e locals \/ (exists a, In a answers /\ In e a) ->
  let ys := snd (search sh 0 locals answers) in
  (exists a, In (fst e, a) ys) /\ (snd e = true -> In (fst e, true) ys).
Proof.
  intros P H ys. apply (have_sent (fst (search sh 0 locals answers))); [apply search_inv|].
  unfold search. pose proof (feed_zero_not_early locals []) as NE.
  destruct H as [H|[a [Ha He]]].
  - pose proof (feed_zero_have locals [] e H) as H0. destruct (feed 0 [] locals) as [[m0 y0] early].
    simpl in *. subst early. pose proof (feed_answers_mono sh 0 answers m0 e H0) as M.
    destruct (feed_answers sh 0 m0 answers). exact M.
  - destruct (feed 0 [] locals) as [[m0 y0] early]. simpl in NE. subst early.
    assert (He' : In e (sh a)) by (apply (Permutation_in _ (P a)); exact He).
    pose proof (feed_answers_zero_have sh answers m0 a e Ha He') as M.
    destruct (feed_answers sh 0 m0 answers). exact M.
Qed.

(* ---- the channel is closed last on every path --------------------------------------------------------- *)
Theorem routine_closed sh store_err c locals answers takes :
  exists ys, routine sh store_err c locals answers takes = map Yield ys ++ [Closed] /\
             (forall e, In e ys -> store_err = false /\ In e (snd (search sh c locals answers))).
Proof.
  unfold routine. destruct store_err.
  - exists []. split; [reflexivity|intros e []].
  - destruct takes as [n|].
    + exists (firstn n (snd (search sh c locals answers))). split; [reflexivity|].
      intros e H. split; [reflexivity|]. rewrite <- (firstn_skipn n (snd (search sh c locals answers))).
      apply in_app_iff. left. exact H.
    + exists (snd (search sh c locals answers)). split; [reflexivity|]. auto.
Qed.

(* ---- FullRT variant ------------------------------------------------------------------------------------- *)
Lemma existsb_eqb_In p l : existsb (N.eqb p) l = true <-> In p l.
Proof.
  rewrite existsb_exists. split.
  - intros [x [H E]]. apply N.eqb_eq in E. subst. exact H.
  - intro H. exists p. split; [exact H|apply N.eqb_refl].
Qed.

Record FrInv (c : Z) (ps : list peer) (ys : list entry) : Prop := {
  fr_keys : map fst ys = ps;
  fr_nodup : NoDup ps;
  fr_bound : find_all c = false -> (Z.of_nat (length ps) <= Z.max 0 c)%Z }.

Lemma fr_try_add_inv c ps ys e :
  FrInv c ps ys ->
  FrInv c (fst (fr_try_add c ps (fst e))) (ys ++ (if snd (fr_try_add c ps (fst e)) then [e] else [])).
Proof.
  intros [K N B]. unfold fr_try_add.
  destruct (negb (existsb (N.eqb (fst e)) ps) && (Z.ltb (Z.of_nat (length ps)) c || find_all c)) eqn:C; simpl.
  - apply andb_true_iff in C. destruct C as [C1 C2]. apply negb_true_iff in C1. split.
    + rewrite map_app. simpl. f_equal. exact K.
    + apply NoDup_snoc_ps; [exact N|]. intro H. apply existsb_eqb_In in H. congruence.
    + intro Hf. rewrite Hf, orb_false_r in C2. apply Z.ltb_lt in C2. rewrite app_length. simpl. lia.
  - rewrite app_nil_r. split; assumption.
Qed.

Lemma fr_feed_inv c es : forall ps ys,
  FrInv c ps ys -> FrInv c (fst (fst (fr_feed c ps es))) (ys ++ snd (fst (fr_feed c ps es))).
Proof.
  induction es as [|e es IH]; intros ps ys I; simpl; [rewrite app_nil_r; exact I|].
  pose proof (fr_try_add_inv c ps ys e I) as I1. destruct (fr_try_add c ps (fst e)) as [p1 added]. simpl in I1.
  destruct (fr_stop c p1); simpl; [exact I1|].
  specialize (IH p1 _ I1). destruct (fr_feed c p1 es) as [[p2 y2] early]. simpl in *.
  rewrite app_assoc. exact IH.
Qed.

Lemma fr_feed_answers_inv sh c answers : forall ps ys,
  FrInv c ps ys -> FrInv c (fst (fr_feed_answers sh c ps answers)) (ys ++ snd (fr_feed_answers sh c ps answers)).
Proof.
  induction answers as [|a answers IH]; intros ps ys I; simpl; [rewrite app_nil_r; exact I|].
  pose proof (fr_feed_inv c (sh a) ps ys I) as I1. destruct (fr_feed c ps (sh a)) as [[p1 y1] e1]. simpl in I1.
  specialize (IH p1 _ I1). destruct (fr_feed_answers sh c p1 answers) as [p2 y2]. simpl in *.
  rewrite app_assoc. exact IH.
Qed.

Lemma fr_search_inv sh c locals answers :
  FrInv c (fst (fr_search sh c locals answers)) (snd (fr_search sh c locals answers)).
Proof.
  unfold fr_search. assert (I : FrInv c [] []) by (split; simpl; [reflexivity|constructor|intros _; lia]).
  pose proof (fr_feed_inv c locals [] [] I) as I0.
  destruct (fr_feed c [] locals) as [[p0 y0] early]. simpl in I0. destruct early; [exact I0|].
  pose proof (fr_feed_answers_inv sh c answers p0 y0 I0) as I1.
  destruct (fr_feed_answers sh c p0 answers) as [p1 ys]. exact I1.
Qed.

Lemma fr_feed_sound c es : forall ps e, In e (snd (fst (fr_feed c ps es))) -> In e es.
Proof.
  induction es as [|x es IH]; intros ps e H; simpl in *; [exact H|].
  destruct (fr_try_add c ps (fst x)) as [p1 added]. destruct (fr_stop c p1); simpl in H.
  - destruct added; [destruct H as [H|[]]; left; exact H|destruct H].
  - specialize (IH p1 e). destruct (fr_feed c p1 es) as [[p2 y2] early]. simpl in *.
    apply in_app_iff in H. destruct H as [H|H]; [|right; exact (IH H)].
    destruct added; [destruct H as [H|[]]; left; exact H|destruct H].
Qed.

Lemma fr_feed_answers_sound sh c answers : forall ps e,
  In e (snd (fr_feed_answers sh c ps answers)) -> exists a, In a answers /\ In e (sh a).
Proof.
  induction answers as [|a answers IH]; intros ps e H; simpl in *; [destruct H|].
  pose proof (fr_feed_sound c (sh a) ps e) as S. destruct (fr_feed c ps (sh a)) as [[p1 y1] e1]. simpl in S.
  specialize (IH p1 e). destruct (fr_feed_answers sh c p1 answers) as [p2 y2]. simpl in *.
  apply in_app_iff in H. destruct H as [H|H].
  - exists a. split; [left; reflexivity|exact (S H)].
  - destruct (IH H) as [a' [H1 H2]]. exists a'. split; [right; exact H1|exact H2].
Qed.

Theorem fr_search_spec sh c locals answers :
  (forall l, Permutation l (sh l)) ->
  let ys := snd (fr_search sh c locals answers) in
  NoDup (map fst ys) /\
  ((0 < c)%Z -> (Z.of_nat (length ys) <= c)%Z) /\
  (forall e, In e ys -> In e locals \/ exists a, In a answers /\ In e a).
Proof.
  intros P ys. pose proof (fr_search_inv sh c locals answers) as [K N B]. fold ys in K. split; [|split].
  - rewrite K. exact N.
  - intro Hc. replace (length ys) with (length (map fst ys)) by apply map_length. rewrite K. unfold find_all in B.
    assert (E : Z.eqb c 0 = false) by (apply Z.eqb_neq; lia). specialize (B E). lia.
  - intros e H. unfold ys, fr_search in H. pose proof (fr_feed_sound c locals [] e) as S0.
    destruct (fr_feed c [] locals) as [[p0 y0] early]. simpl in S0. destruct early; [left; exact (S0 H)|].
    pose proof (fr_feed_answers_sound sh c answers p0 e) as S1.
    destruct (fr_feed_answers sh c p0 answers) as [p1 y1]. simpl in *.
    apply in_app_iff in H. destruct H as [H|H]; [left; exact (S0 H)|].
    destruct (S1 H) as [a [H1 H2]]. right. exists a. split; [exact H1|].
    apply (Permutation_in _ (Permutation_sym (P a))). exact H2.
Qed.

(* ---- dual merge ----------------------------------------------------------------------------------------------- *)
Lemma dual_loop_sound z arrivals : forall c found e,
  In e (dual_loop z c found arrivals) -> In e arrivals /\ ~ In (fst e) found.
Proof.
  induction arrivals as [|x arrivals IH]; intros c found e H; simpl in H; [destruct H|].
  destruct (z || Z.ltb 0 c); [|destruct H].
  destruct (existsb (N.eqb (fst x)) found) eqn:E.
  - destruct (IH _ _ _ H) as [A B]. split; [right; exact A|exact B].
  - destruct H as [<-|H].
    + split; [left; reflexivity|]. intro Hin. apply existsb_eqb_In in Hin. congruence.
    + destruct (IH _ _ _ H) as [A B]. split; [right; exact A|]. intro Hin. apply B. right. exact Hin.
Qed.

Lemma dual_loop_nodup z arrivals : forall c found, NoDup (map fst (dual_loop z c found arrivals)).
Proof.
  induction arrivals as [|x arrivals IH]; intros c found; simpl; [constructor|].
  destruct (z || Z.ltb 0 c); [|constructor].
  destruct (existsb (N.eqb (fst x)) found); [apply IH|]. simpl. constructor; [|apply IH].
  intro H. apply in_map_iff in H. destruct H as [e [E H]]. apply dual_loop_sound in H. destruct H as [_ H].
  apply H. left. symmetry. exact E.
Qed.

Lemma dual_loop_len arrivals : forall c found,
  (Z.of_nat (length (dual_loop false c found arrivals)) <= Z.max 0 c)%Z.
Proof.
  induction arrivals as [|x arrivals IH]; intros c found; simpl; [lia|].
  destruct (Z.ltb 0 c) eqn:E; [|simpl; lia]. apply Z.ltb_lt in E.
  destruct (existsb (N.eqb (fst x)) found); [apply IH|]. simpl. specialize (IH (c - 1)%Z (fst x :: found)). lia.
Qed.

Lemma dual_loop_zero_complete arrivals : forall c found e,
  In e arrivals -> In (fst e) found \/ In (fst e) (map fst (dual_loop true c found arrivals)).
Proof.
  induction arrivals as [|x arrivals IH]; intros c found e H; [destruct H|]. simpl.
  destruct (existsb (N.eqb (fst x)) found) eqn:E.
  - destruct H as [->|H]; [left; apply existsb_eqb_In; exact E|apply IH; exact H].
  - simpl. destruct H as [->|H]; [right; left; reflexivity|].
    destruct (IH (c - 1)%Z (fst x :: found) e H) as [[A|A]|A]; [right; left; exact A|left; exact A|right; right; exact A].
Qed.

(* the first arrival of a peer is the one forwarded, while there is room *)
Theorem dual_merge_spec c arrivals :
  let out := dual_merge c arrivals in
  NoDup (map fst out) /\
  (forall e, In e out -> In e arrivals) /\
  ((0 < c)%Z -> (Z.of_nat (length out) <= c)%Z) /\
  ((c < 0)%Z -> out = []) /\
  (c = 0%Z -> forall e, In e arrivals -> In (fst e) (map fst out)).
Proof.
  intro out. unfold out, dual_merge. split; [apply dual_loop_nodup|]. split; [|split; [|split]].
  - intros e H. exact (proj1 (dual_loop_sound _ _ _ _ _ H)).
  - intro Hc. assert (E : Z.eqb c 0 = false) by (apply Z.eqb_neq; lia). rewrite E.
    pose proof (dual_loop_len arrivals c []). lia.
  - intro Hc. assert (E : Z.eqb c 0 = false) by (apply Z.eqb_neq; lia). rewrite E.
    pose proof (dual_loop_len arrivals c []). destruct (dual_loop false c [] arrivals); [reflexivity|simpl in H; lia].
  - intros -> e H. simpl. destruct (dual_loop_zero_complete arrivals 0%Z [] e H) as [[]|A]. exact A.
Qed.

(* the merged stream is sound with respect to the two searches it reads from *)
Theorem dual_sound sh c wl wa ll la arrivals e :
  (forall l, Permutation l (sh l)) ->
  (forall x, In x arrivals -> In x (snd (search sh c wl wa)) \/ In x (snd (search sh c ll la))) ->
  In e (dual_merge c arrivals) ->
  In e wl \/ (exists a, In a wa /\ In e a) \/ In e ll \/ (exists a, In a la /\ In e a).
Proof.
  intros P A H. apply (proj1 (proj2 (dual_merge_spec c arrivals))) in H. destruct (A e H) as [S|S].
  - destruct (search_sound sh c wl wa e P S) as [X|X]; [left; exact X|right; left; exact X].
  - destruct (search_sound sh c ll la e P S) as [X|X]; [right; right; left; exact X|right; right; right; exact X].
Qed.
