(* KeyspaceCovered is exact (C18): the stack algorithm answers true iff the keys of the trie tile
   the whole keyspace.  Completeness is a structural induction; soundness uses the Kraft sum of
   the keys as an invariant of the stack. *)
From Verif.Lib Require Import GoSem Bits.
From Verif.Model Require Import Trie Keyspace.
From Verif.Proofs Require Import KeyspaceBase KeyspaceProofs.
From Coq Require Import Permutation Sorted ZArith Lia.

(* ---- iteration with the zero key is left-to-right --------------------------------- *)
Lemma nth_error_repeat {A} (x : A) n i : i < n -> nth_error (repeat x n) i = Some x.
Proof. revert i; induction n as [|n IH]; intros [|i] H; simpl; try lia; auto. apply IH. lia. Qed.

Lemma iter_at_zero {D} (t : trie D) : forall depth,
  height t + depth <= 256 -> iter_at t zero_key depth = Ok (entries t).
Proof.
  induction t as [|k d|t0 IH0 t1 IH1]; intros depth H; simpl; try reflexivity.
  simpl in H. unfold bit_at, zero_key. rewrite nth_error_repeat by lia. simpl.
  fold zero_key. rewrite IH0 by lia. simpl. rewrite IH1 by lia. reflexivity.
Qed.

Lemma all_keys_zero {D} (t : trie D) : height t <= 256 -> all_keys t zero_key = Ok (keys_of t).
Proof. intro H. unfold all_keys, all_entries. rewrite iter_at_zero by lia. reflexivity. Qed.

(* ---- tiling ------------------------------------------------------------------------ *)
(* the keys of s tile the subtree of q *)
Fixpoint fullt {D} (q : bits) (s : trie D) : Prop :=
  match s with
  | E => False
  | L k _ => k = q
  | Nd s0 s1 => fullt (q ++ [false]) s0 /\ fullt (q ++ [true]) s1
  end.

(* set-theoretic form: every key x below q that is at least as long as every member of K
   has a member of K as prefix *)
Definition covers (K : list bits) (q : bits) : Prop :=
  forall x, is_prefix q x = true -> (forall k, In k K -> length k <= length x) ->
            exists k, In k K /\ is_prefix k x = true.

Lemma is_prefix_app_r p x s : is_prefix p x = true -> is_prefix p (x ++ s) = true.
Proof.
  intro H. apply is_prefix_exists in H as [r ->]. rewrite <- app_assoc. apply is_prefix_app.
Qed.

Lemma is_prefix_app_inv k x s : is_prefix k (x ++ s) = true -> length k <= length x -> is_prefix k x = true.
Proof.
  revert x; induction k as [|a k IH]; intros [|b x]; simpl; intros H Hl; try reflexivity; try lia.
  apply andb_true_iff in H as [E1 H]. rewrite E1. simpl. apply IH; [exact H|lia].
Qed.

Lemma fullt_covers {D} (s : trie D) : forall q, wf_at q s -> fullt q s -> covers (keys_of s) q.
Proof.
  induction s as [|k d|s0 IH0 s1 IH1]; intros q Hw Hf x Hx Hl; simpl in *.
  - contradiction.
  - subst k. exists q. unfold keys_of; simpl. auto.
  - destruct Hw as [W0 [W1 Pos]]. destruct Hf as [F0 F1]. rewrite keys_of_Nd in *.
    (* x is longer than q: some key below q ++ [b] exists *)
    assert (Lx : length q < length x).
    { assert (exists k, In k (keys_of s0 ++ keys_of s1)) as [k Hk].
      { destruct (keys_of s0 ++ keys_of s1) as [|k l] eqn:E1; [|exists k; left; reflexivity].
        exfalso. rewrite <- keys_of_Nd in E1. pose proof (size_keys (Nd s0 s1)) as S. rewrite E1 in S. simpl in S. lia. }
      specialize (Hl k Hk). apply in_app_or in Hk as [Hk|Hk];
        [pose proof (wf_at_keys_prefix _ _ _ W0 Hk) as P|pose proof (wf_at_keys_prefix _ _ _ W1 Hk) as P];
        apply is_prefix_length in P; rewrite app_length in P; simpl in P; lia. }
    destruct (bit_at_lt x (length q) Lx) as [b [_ Hb]].
    assert (Hx' : is_prefix (q ++ [b]) x = true) by (apply is_prefix_snoc; auto).
    destruct b.
    + destruct (IH1 _ W1 F1 x Hx') as [k [Hk Pk]].
      { intros k Hk. apply Hl. apply in_or_app. right. exact Hk. }
      exists k. split; [apply in_or_app; right; exact Hk|exact Pk].
    + destruct (IH0 _ W0 F0 x Hx') as [k [Hk Pk]].
      { intros k Hk. apply Hl. apply in_or_app. left. exact Hk. }
      exists k. split; [apply in_or_app; left; exact Hk|exact Pk].
Qed.

Definition pad (x : bits) (n : nat) : bits := x ++ repeat false n.
Lemma pad_length x n : length (pad x n) = length x + n.
Proof. unfold pad. rewrite app_length, repeat_length. reflexivity. Qed.

Fixpoint maxl (K : list bits) : nat :=
  match K with [] => 0 | k :: K' => Nat.max (length k) (maxl K') end.
Lemma maxl_le K k : In k K -> length k <= maxl K.
Proof. induction K as [|a K IH]; simpl; [intros []|]. intros [->|H]; [lia|]. specialize (IH H). lia. Qed.

Lemma covers_fullt {D} (s : trie D) : forall q, wf_at q s -> covers (keys_of s) q -> fullt q s.
Proof.
  induction s as [|k d|s0 IH0 s1 IH1]; intros q Hw Hc; simpl in *.
  - assert (X : exists k, In k (@keys_of D E) /\ is_prefix k q = true)
      by (apply Hc; [apply is_prefix_refl|intros k []]).
    destruct X as [k [[] _]].
  - unfold keys_of in Hc; simpl in Hc.
    destruct (Nat.eq_dec (length k) (length q)) as [El|Nl].
    + symmetry. apply is_prefix_same_length; auto.
    + exfalso. pose proof (is_prefix_length _ _ Hw) as Hl.
      destruct (bit_at_lt k (length q)) as [b [_ Hb]]; [lia|].
      (* a key below q that leaves k at position |q| *)
      set (x := pad (q ++ [negb b]) (length k)).
      destruct (Hc x) as [k' [[<-|[]] Pk]].
      * unfold x, pad. rewrite <- app_assoc. apply is_prefix_app.
      * intros k' [<-|[]]. unfold x. rewrite pad_length. lia.
      * assert (Lq : length q < length k) by lia.
        pose proof (is_prefix_nth k x (length q) Pk Lq) as N.
        unfold x, pad in N. rewrite <- app_assoc in N. rewrite nth_error_app2 in N by lia.
        rewrite Nat.sub_diag in N. simpl in N. rewrite Hb in N. inversion N. destruct b; discriminate.
  - destruct Hw as [W0 [W1 Pos]]. rewrite keys_of_Nd in Hc. split.
    + apply IH0; [exact W0|]. intros x Hx Hl.
      set (x' := pad x (maxl (keys_of s0 ++ keys_of s1))).
      destruct (Hc x') as [k [Hk Pk]].
      * unfold x', pad. apply is_prefix_app_r. eapply is_prefix_snoc_l. exact Hx.
      * intros k Hk. unfold x'. rewrite pad_length. pose proof (maxl_le _ _ Hk). lia.
      * apply in_app_or in Hk as [Hk|Hk].
        -- exists k. split; [exact Hk|]. unfold x', pad in Pk. eapply is_prefix_app_inv; eauto.
        -- exfalso. pose proof (wf_at_keys_prefix _ _ _ W1 Hk) as P1.
           assert (Px : is_prefix (q ++ [false]) x' = true) by (unfold x', pad; apply is_prefix_app_r; exact Hx).
           pose proof (is_prefix_trans _ _ _ P1 Pk) as P1'.
           destruct (siblings_incomparable q x' x' Px P1') as [C _]. rewrite is_prefix_refl in C. discriminate.
    + apply IH1; [exact W1|]. intros x Hx Hl.
      set (x' := pad x (maxl (keys_of s0 ++ keys_of s1))).
      destruct (Hc x') as [k [Hk Pk]].
      * unfold x', pad. apply is_prefix_app_r. eapply is_prefix_snoc_l. exact Hx.
      * intros k Hk. unfold x'. rewrite pad_length. pose proof (maxl_le _ _ Hk). lia.
      * apply in_app_or in Hk as [Hk|Hk].
        -- exfalso. pose proof (wf_at_keys_prefix _ _ _ W0 Hk) as P0.
           assert (Px : is_prefix (q ++ [true]) x' = true) by (unfold x', pad; apply is_prefix_app_r; exact Hx).
           pose proof (is_prefix_trans _ _ _ P0 Pk) as P0'.
           destruct (siblings_incomparable q x' x' P0' Px) as [C _]. rewrite is_prefix_refl in C. discriminate.
        -- exists k. split; [exact Hk|]. unfold x', pad in Pk. eapply is_prefix_app_inv; eauto.
Qed.

(* ---- completeness: a tiling trie is reported covered -------------------------------- *)
Definition cloop (p : bits) (st : list bits) : res (list bits) := covered_loop (S (length p)) p st.

Lemma flip_last_cons x k : k <> [] -> flip_last (x :: k) = x :: flip_last k.
Proof. destruct k; [congruence|reflexivity]. Qed.

Lemma flip_last_snoc q b : flip_last (q ++ [b]) = q ++ [negb b].
Proof.
  induction q as [|x q IH]; [reflexivity|]. simpl app.
  rewrite flip_last_cons by (destruct q; discriminate). rewrite IH. reflexivity.
Qed.

Lemma flip_last_length p : length (flip_last p) = length p.
Proof.
  induction p as [|x p IH]; [reflexivity|]. destruct p as [|y p]; [reflexivity|].
  rewrite flip_last_cons by discriminate. simpl length in *. rewrite IH. reflexivity.
Qed.

Lemma firstn_snoc {A} (q : list A) b : firstn (length q) (q ++ [b]) = q.
Proof. induction q; simpl; [reflexivity|]. f_equal. assumption. Qed.

Lemma covered_keys_cons p ks top rest :
  length top <= length p ->
  covered_keys (p :: ks) (top :: rest) = bind (cloop p (top :: rest)) (covered_keys ks).
Proof.
  intro H. cbn [covered_keys]. destruct (length p <? length top) eqn:E1.
  - apply Nat.ltb_lt in E1. lia.
  - reflexivity.
Qed.

Lemma covered_full {D} (s : trie D) : forall q top rest more,
  wf_at q s -> fullt q s -> 1 <= length q -> length top <= length q ->
  covered_keys (keys_of s ++ more) (top :: rest) = bind (cloop q (top :: rest)) (covered_keys more).
Proof.
  induction s as [|k d|s0 IH0 s1 IH1]; intros q top rest more Hw Hf Hq Ht; simpl in Hf.
  - contradiction.
  - subst k. unfold keys_of; simpl. apply covered_keys_cons. exact Ht.
  - destruct Hw as [W0 [W1 _]]. destruct Hf as [F0 F1].
    rewrite keys_of_Nd, <- app_assoc.
    rewrite (IH0 (q ++ [false]) top rest _ W0 F0) by (rewrite app_length; simpl; lia).
    (* the left half pushes the right sibling *)
    assert (E0 : cloop (q ++ [false]) (top :: rest) = Ok ((q ++ [true]) :: top :: rest)).
    { unfold cloop. cbn [covered_loop]. rewrite app_length. simpl length.
      destruct (Nat.eqb (length q + 1) (length top)) eqn:E1; [apply Nat.eqb_eq in E1; lia|].
      rewrite flip_last_snoc. reflexivity. }
    rewrite E0. cbn [bind].
    rewrite (IH1 (q ++ [true]) (q ++ [true]) (top :: rest) more W1 F1) by (rewrite ?app_length; simpl; lia).
    (* the right half meets its sibling and merges into q *)
    f_equal. unfold cloop. rewrite app_length. simpl length.
    replace (length q + 1) with (S (length q)) by lia.
    cbn [covered_loop]. rewrite app_length. simpl length.
    replace (length q + 1) with (S (length q)) by lia. rewrite Nat.eqb_refl.
    destruct (Nat.eqb (S (length q)) 1) eqn:E1; [apply Nat.eqb_eq in E1; lia|]. cbn [andb].
    rewrite firstn_snoc. reflexivity.
Qed.

(* ---- soundness: the Kraft sum ------------------------------------------------------- *)
Local Open Scope Z_scope.

Definition mu (M : nat) (x : bits) : Z := 2 ^ Z.of_nat (M - length x).

Lemma mu_pos M x : 0 < mu M x.
Proof. unfold mu. apply Z.pow_pos_nonneg; lia. Qed.

Lemma mu_len M x y : length x = length y -> mu M x = mu M y.
Proof. unfold mu. intros ->. reflexivity. Qed.

Lemma mu_double M x y : (S (length x) = length y)%nat -> (length y <= M)%nat -> mu M x = 2 * mu M y.
Proof.
  unfold mu. intros H1 H2. replace (M - length x)%nat with (S (M - length y)) by lia.
  rewrite Nat2Z.inj_succ, Z.pow_succ_r by lia. reflexivity.
Qed.

Fixpoint ksum (M : nat) (ks : list bits) : Z :=
  match ks with [] => 0 | k :: ks' => mu M k + ksum M ks' end.
Lemma ksum_app M a b : ksum M (a ++ b) = ksum M a + ksum M b.
Proof. induction a; simpl; lia. Qed.

(* the potential of the stack: the two initial entries count positively, pushed entries
   (length >= 2) negatively *)
Fixpoint pot (M : nat) (st : list bits) : Z :=
  match st with
  | [] => 0
  | x :: r => (if Nat.eqb (length x) 1 then mu M x else - mu M x) + pot M r
  end.

Definition ge_len (a b : bits) : Prop :=
  (length a > length b)%nat \/ (length a = 1 /\ length b = 1)%nat.
Definition sshape (M : nat) (st : list bits) : Prop :=
  StronglySorted ge_len st /\ Forall (fun x => (1 <= length x <= M)%nat) st.
Definition poisoned (st : list bits) : Prop := In [] st.

Lemma poisoned_loop n : forall p st st',
  covered_loop n p st = Ok st' -> poisoned st -> poisoned st'.
Proof.
  unfold poisoned. induction n as [|n IH]; intros p [|top rest] st' H Hp; cbn [covered_loop] in H; try discriminate.
  - destruct (Nat.eqb (length p) (length top)) eqn:E1.
    + destruct (Nat.eqb (length top) 1 && bits_eqb top p) eqn:E2.
      * inversion H; subst. destruct Hp as [->|Hp]; [|exact Hp].
        apply andb_true_iff in E2 as [E2 _]. discriminate.
      * destruct (length top); [discriminate|]. destruct rest; discriminate.
    + inversion H; subst. right. exact Hp.
  - destruct (Nat.eqb (length p) (length top)) eqn:E1.
    + destruct (Nat.eqb (length top) 1 && bits_eqb top p) eqn:E2.
      * inversion H; subst. destruct Hp as [->|Hp]; [|exact Hp].
        apply andb_true_iff in E2 as [E2 _]. discriminate.
      * destruct (length top) eqn:Et; [discriminate|]. destruct rest as [|r1 rest']; [discriminate|].
        apply (IH _ _ _ H). destruct Hp as [->|Hp]; [discriminate|exact Hp].
    + inversion H; subst. right. exact Hp.
Qed.

Lemma sshape_tail M top rest : sshape M (top :: rest) -> sshape M rest.
Proof. intros [S F]. inversion S; inversion F; subst. split; assumption. Qed.

Lemma ge_len_trans_push (p top : bits) rest :
  (length p > length top)%nat -> StronglySorted ge_len (top :: rest) -> Forall (ge_len p) (top :: rest).
Proof.
  intros H S. inversion S; subst. constructor; [left; exact H|].
  eapply Forall_impl; [|exact H3]. intros a [Ha|[Ha1 Ha2]]; left; lia.
Qed.

Lemma loop_potential M n : forall p st st',
  sshape M st -> (1 <= length p <= M)%nat ->
  (forall top rest, st = top :: rest -> length top <= length p)%nat ->
  covered_loop n p st = Ok st' ->
  poisoned st' \/ (sshape M st' /\ pot M st' = pot M st - mu M p).
Proof.
  induction n as [|n IH]; intros p [|top rest] st' Hs Hp Ht H; cbn [covered_loop] in H; try discriminate.
  - (* no fuel: only the non-recursive branches can answer *)
    destruct (Nat.eqb (length p) (length top)) eqn:E1.
    + destruct (Nat.eqb (length top) 1 && bits_eqb top p) eqn:E2.
      * inversion H; subst. right. split; [eapply sshape_tail; exact Hs|].
        apply andb_true_iff in E2 as [E2 E3]. apply bits_eqb_eq in E3. subst. cbn [pot]. rewrite E2. lia.
      * destruct (length top); [discriminate|]. destruct rest; discriminate.
    + inversion H; subst. right. apply Nat.eqb_neq in E1. specialize (Ht top rest eq_refl).
      split.
      * destruct Hs as [S F]. split.
        -- constructor; [exact S|]. apply ge_len_trans_push; [rewrite flip_last_length; lia|exact S].
        -- constructor; [rewrite flip_last_length; lia|exact F].
      * cbn [pot]. rewrite flip_last_length.
        destruct (Nat.eqb (length p) 1) eqn:E3.
        -- apply Nat.eqb_eq in E3. destruct Hs as [_ F]. inversion F; subst. lia.
        -- rewrite (mu_len M (flip_last p) p) by apply flip_last_length. cbn [pot]. lia.
  - destruct (Nat.eqb (length p) (length top)) eqn:E1.
    + apply Nat.eqb_eq in E1.
      destruct (Nat.eqb (length top) 1 && bits_eqb top p) eqn:E2.
      * inversion H; subst. right. split; [eapply sshape_tail; exact Hs|].
        apply andb_true_iff in E2 as [E2 E3]. apply bits_eqb_eq in E3. subst. cbn [pot]. rewrite E2. lia.
      * destruct (length top) as [|l'] eqn:Et; [discriminate|].
        destruct rest as [|r1 rest']; [discriminate|].
        pose proof (sshape_tail _ _ _ Hs) as Hs'.
        assert (Lr1 : ge_len top r1).
        { destruct Hs as [S _]. inversion S; subst. inversion H3; subst. assumption. }
        assert (Fr1 : (1 <= length r1 <= M)%nat).
        { destruct Hs' as [_ F]. inversion F; subst. assumption. }
        destruct l' as [|l''].
        -- (* a length-1 entry that is not the key: the merge goes past the root *)
           left. assert (length r1 = 1)%nat by (destruct Lr1 as [X|[_ X]]; lia).
           destruct n as [|n']; cbn [covered_loop] in H.
           ++ simpl firstn in H. simpl length in H. rewrite H0 in H. simpl in H. inversion H. left. reflexivity.
           ++ simpl firstn in H. simpl length in H. rewrite H0 in H. simpl in H. inversion H. left. reflexivity.
        -- (* a pushed entry: merge into the parent and continue *)
           assert (Lp' : length (firstn (S l'') p) = S l'') by (apply firstn_length_le; lia).
           destruct (IH (firstn (S l'') p) (r1 :: rest') st' Hs') as [Poi|[S' P']]; auto.
           ++ rewrite Lp'. lia.
           ++ intros t r Etr. inversion Etr; subst. rewrite Lp'. destruct Lr1 as [X|[X _]]; lia.
           ++ right. split; [exact S'|]. rewrite P'. cbn [pot]. rewrite Et.
              replace (Nat.eqb (S (S l'')) 1) with false by reflexivity.
              rewrite (mu_len M top p) by lia.
              rewrite (mu_double M (firstn (S l'') p) p) by lia. cbn [pot]. lia.
    + inversion H; subst. right. apply Nat.eqb_neq in E1. specialize (Ht top rest eq_refl).
      split.
      * destruct Hs as [S F]. split.
        -- constructor; [exact S|]. apply ge_len_trans_push; [rewrite flip_last_length; lia|exact S].
        -- constructor; [rewrite flip_last_length; lia|exact F].
      * cbn [pot]. rewrite flip_last_length.
        destruct (Nat.eqb (length p) 1) eqn:E3.
        -- apply Nat.eqb_eq in E3. destruct Hs as [_ F]. inversion F; subst. lia.
        -- rewrite (mu_len M (flip_last p) p) by apply flip_last_length. cbn [pot]. lia.
Qed.

Lemma covered_keys_sound M : forall ks st sum,
  (forall k, In k ks -> (1 <= length k <= M)%nat) ->
  poisoned st \/ (sshape M st /\ sum + pot M st = 2 ^ Z.of_nat M) ->
  covered_keys ks st = Ok true ->
  sum + ksum M ks = 2 ^ Z.of_nat M.
Proof.
  induction ks as [|p ks IH]; intros st sum Hk Inv H; cbn [covered_keys] in H.
  - destruct st; [|inversion H]. destruct Inv as [[]|[_ E1]]. simpl in *. lia.
  - destruct st as [|top rest]; [discriminate|].
    destruct (Nat.ltb (length p) (length top)) eqn:E1; [inversion H|]. apply Nat.ltb_ge in E1.
    destruct (covered_loop (S (length p)) p (top :: rest)) as [s| |] eqn:E2; try discriminate.
    cbn [bind] in H. cbn [ksum].
    replace (sum + (mu M p + ksum M ks)) with ((sum + mu M p) + ksum M ks) by lia.
    apply (IH s); auto.
    + intros k Hk'. apply Hk. right. exact Hk'.
    + destruct Inv as [Poi|[S E3]].
      * left. eapply poisoned_loop; eauto.
      * destruct (loop_potential M _ _ _ _ S (Hk p (or_introl eq_refl)) ltac:(intros t r X; inversion X; subst; exact E1) E2)
          as [Poi|[S' P']]; [left; exact Poi|right]. split; [exact S'|]. rewrite P'. lia.
Qed.

(* a well-formed subtrie fills at most its subtree; exactly when it tiles it *)
Lemma kraft_wf {D} (s : trie D) M : forall q,
  wf_at q s -> (forall k, In k (keys_of s) -> (length k <= M)%nat) -> (length q <= M)%nat ->
  ksum M (keys_of s) <= mu M q /\ (ksum M (keys_of s) = mu M q -> fullt q s).
Proof.
  induction s as [|k d|s0 IH0 s1 IH1]; intros q Hw Hl Hq.
  - unfold keys_of; simpl. pose proof (mu_pos M q). split; [lia|intro X; lia].
  - unfold keys_of; simpl. simpl in Hw. pose proof (is_prefix_length _ _ Hw) as Lk.
    specialize (Hl k (or_introl eq_refl)).
    assert (Mono : mu M k <= mu M q /\ (mu M k = mu M q -> length k = length q)).
    { unfold mu. split.
      - apply Z.pow_le_mono_r; lia.
      - intro X. apply Z.pow_inj_r in X; lia. }
    destruct Mono as [M1 M2]. split; [lia|]. intro X. symmetry. apply is_prefix_same_length; auto.
    symmetry. apply M2. lia.
  - destruct Hw as [W0 [W1 Pos]]. rewrite keys_of_Nd in *. rewrite ksum_app.
    (* some key lies below q: q is shorter than M *)
    assert (Lq : (S (length q) <= M)%nat).
    { assert (exists k, In k (keys_of s0 ++ keys_of s1)) as [k Hk].
      { destruct (keys_of s0 ++ keys_of s1) as [|k l] eqn:E1; [|exists k; left; reflexivity].
        exfalso. rewrite <- keys_of_Nd in E1. pose proof (size_keys (Nd s0 s1)) as S. rewrite E1 in S. simpl in S. lia. }
      specialize (Hl k Hk). apply in_app_or in Hk as [Hk|Hk];
        [pose proof (wf_at_keys_prefix _ _ _ W0 Hk) as P|pose proof (wf_at_keys_prefix _ _ _ W1 Hk) as P];
        apply is_prefix_length in P; rewrite app_length in P; simpl in P; lia. }
    assert (L0 : (length (q ++ [false]) <= M)%nat) by (rewrite app_length; simpl; lia).
    assert (L1 : (length (q ++ [true]) <= M)%nat) by (rewrite app_length; simpl; lia).
    destruct (IH0 (q ++ [false]) W0) as [A0 B0]; auto.
    { intros k Hk. apply Hl. apply in_or_app. left. exact Hk. }
    destruct (IH1 (q ++ [true]) W1) as [A1 B1]; auto.
    { intros k Hk. apply Hl. apply in_or_app. right. exact Hk. }
    pose proof (mu_double M q (q ++ [false]) ltac:(rewrite app_length; simpl; lia) L0) as D0.
    pose proof (mu_len M (q ++ [false]) (q ++ [true]) ltac:(rewrite !app_length; reflexivity)) as D1.
    split; [lia|]. intro X. simpl. split; [apply B0|apply B1]; lia.
Qed.
Local Close Scope Z_scope.

(* ---- the theorem --------------------------------------------------------------------- *)
(* KeyspaceCovered answers true exactly when the keys of the trie tile the keyspace *)
Theorem covered_iff_tiles {D} (t : trie D) : wf t -> height t <= 256 ->
  (keyspace_covered t = Ok true <-> covers (keys_of t) []).
Proof.
  intros Hw Hh. destruct t as [|k d|t0 t1].
  - split; [discriminate|]. intro C. apply (covers_fullt E [] Hw) in C. contradiction.
  - split.
    + intro X. simpl in X. destruct k; [|discriminate]. apply (fullt_covers (L [] d) [] Hw). reflexivity.
    + intro C. apply (covers_fullt (L k d) [] Hw) in C. simpl in C. subst k. reflexivity.
  - cbn [keyspace_covered]. rewrite all_keys_zero by exact Hh. cbn [bind].
    assert (Pos : forall k, In k (keys_of (Nd t0 t1)) -> 1 <= length k).
    { intros k Hk. rewrite keys_of_Nd in Hk. destruct Hw as [W0 [W1 _]].
      apply in_app_or in Hk as [Hk|Hk];
        [pose proof (wf_at_keys_prefix _ _ _ W0 Hk) as P|pose proof (wf_at_keys_prefix _ _ _ W1 Hk) as P];
        apply is_prefix_length in P; simpl in P; lia. }
    split.
    + (* soundness *)
      intro Ec. apply (fullt_covers (Nd t0 t1) [] Hw).
      set (M := maxl (keys_of (Nd t0 t1))).
      assert (HM : forall k, In k (keys_of (Nd t0 t1)) -> 1 <= length k <= M).
      { intros k Hk. split; [apply Pos; exact Hk|apply maxl_le; exact Hk]. }
      assert (M1 : 1 <= M).
      { destruct (keys_of (Nd t0 t1)) as [|k l] eqn:E1.
        - exfalso. pose proof (size_keys (Nd t0 t1)) as S. rewrite E1 in S. destruct Hw as [_ [_ P]]. simpl in *. lia.
        - specialize (HM k (or_introl eq_refl)). lia. }
      pose proof (covered_keys_sound M (keys_of (Nd t0 t1)) [[false]; [true]] 0%Z HM) as Snd.
      assert (Init : poisoned [[false]; [true]] \/
                     (sshape M [[false]; [true]] /\ (0 + pot M [[false]; [true]] = 2 ^ Z.of_nat M)%Z)).
      { right. split.
        - split.
          + constructor; [constructor; [constructor|constructor]|].
            constructor; [right; split; reflexivity|constructor].
          + constructor; [simpl; lia|]. constructor; [simpl; lia|constructor].
        - simpl. unfold mu. simpl length. replace M with (S (M - 1)) at 3 by lia.
          rewrite Nat2Z.inj_succ, Z.pow_succ_r by lia. lia. }
      specialize (Snd Init Ec).
      destruct (kraft_wf (Nd t0 t1) M [] Hw) as [_ K]; [intros k Hk; apply HM; exact Hk|simpl; lia|].
      apply K. unfold mu. simpl length. rewrite Nat.sub_0_r. lia.
    + (* completeness *)
      intro C. apply (covers_fullt (Nd t0 t1) [] Hw) in C. destruct C as [F0 F1]. destruct Hw as [W0 [W1 _]].
      rewrite keys_of_Nd. simpl app in *.
      rewrite (covered_full t0 [false] [false] [[true]] (keys_of t1) W0 F0) by (simpl; lia).
      unfold cloop. simpl.
      rewrite <- (app_nil_r (keys_of t1)).
      rewrite (covered_full t1 [true] [true] [] [] W1 F1) by (simpl; lia).
      reflexivity.
Qed.
