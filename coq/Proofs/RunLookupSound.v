(* The boolean monitors of Corr/Run_Lookup.v mean what they say: when
   [c01_result_ok] accepts the trace recorded from the implementation, the
   C01 clauses about the returned list hold of that trace (as propositions). *)
From Verif.Lib Require Import GoSem.
From Verif.Model Require Import Lookup.
From Verif.Corr Require Import Run_Lookup.
From Verif.Proofs Require Import LookupBasics PutFlowProofs.
From Coq Require Import Sorted.
Local Open Scope N_scope.

Lemma list_eqb_N_eq a b : list_eqb N.eqb a b = true <-> a = b.
Proof.
  revert b; induction a as [|x a IH]; intros [|y b]; simpl; split; intro H; try reflexivity; try discriminate.
  - apply andb_true_iff in H. destruct H as [H1 H2]. apply N.eqb_eq in H1. apply IH in H2. congruence.
  - inversion H; subst. rewrite N.eqb_refl. simpl. apply IH. reflexivity.
Qed.

Lemma nodupb_NoDup l : nodupb l = true -> NoDup l.
Proof.
  induction l as [|x l IH]; simpl; intro H; [constructor|].
  apply andb_true_iff in H. destruct H as [H1 H2]. apply negb_true_iff in H1.
  constructor; [|apply IH; exact H2]. intro X. apply memN_In in X. congruence.
Qed.

Lemma strictly_ascending_sorted key l : strictly_ascending key l = true -> Sorted (lt_dist key) l.
Proof.
  induction l as [|x l IH]; intro H; [constructor|].
  destruct l as [|y l'].
  - constructor; constructor.
  - simpl in H. apply andb_true_iff in H. destruct H as [H1 H2]. apply N.ltb_lt in H1.
    constructor; [apply IH; exact H2|]. constructor. exact H1.
Qed.

Lemma lt_dist_trans key : Relations_1.Transitive (lt_dist key).
Proof. intros a b c H1 H2. unfold lt_dist in *. lia. Qed.

Theorem c01_result_ok_sound c :
  c01_result_ok c = true ->
  let cfg := c_cfg c in
  let learned := dedupN (filter (fun p => negb (N.eqb p (cSelf cfg))) (c_seeds c ++ resp_heard (i_events c))) in
  let failed := resp_failed (i_events c) in
  (length (i_peers c) <= cK cfg)%nat /\
  NoDup (i_peers c) /\
  ~ In (cSelf cfg) (i_peers c) /\
  StronglySorted (lt_dist (cKey cfg)) (i_peers c) /\
  (forall p, In p (i_peers c) -> In p learned) /\
  (forall p, In p (i_peers c) -> ~ In p failed) /\
  i_peers c = firstn (cK cfg) (sort_dist (cKey cfg) (filter (fun p => negb (memN p failed)) learned)).
Proof.
  unfold c01_result_ok. intro H. cbv zeta.
  repeat (apply andb_true_iff in H; destruct H as [H ?]).
  repeat split.
  - apply Nat.leb_le. assumption.
  - apply nodupb_NoDup. assumption.
  - intro X. apply memN_In in X. match goal with Hn : negb (memN _ _) = true |- _ => apply negb_true_iff in Hn; congruence end.
  - apply Sorted_StronglySorted; [apply lt_dist_trans|]. apply strictly_ascending_sorted. assumption.
  - intros p Hp. match goal with Hf : forallb (fun p => memN p _) _ = true |- _ => rewrite forallb_forall in Hf; apply memN_In; apply Hf; exact Hp end.
  - intros p Hp X. match goal with Hf : forallb (fun p => negb (memN p _)) _ = true |- _ => rewrite forallb_forall in Hf; specialize (Hf p Hp); apply negb_true_iff in Hf; apply memN_In in X; congruence end.
  - apply list_eqb_N_eq. assumption.
Qed.
