(* Lemmas for C08, accelerated client (model: Model/ProvSearchFrt.v). *)
From Verif.Lib Require Import GoSem Bits.
From Verif.Model Require Import ProvSearch ProvSearchFrt.
From Verif.Proofs Require Import ProvSearchProofs.
From Coq Require Import Lia ZifyBool ZifyNat ZifyN Permutation.

(* ---- small list facts ------------------------------------------------------------------------------ *)
Lemma In_firstn_frt0 {A} n (l : list A) x : In x (firstn n l) -> In x l.
Proof.
  intro H. rewrite <- (firstn_skipn n l). apply in_app_iff. left. exact H.
Qed.

Lemma NoDup_firstn_frt {A} n (l : list A) : NoDup l -> NoDup (firstn n l).
Proof.
  revert l. induction n as [|n IH]; intros l H; simpl; [constructor|].
  destruct l as [|x l]; [constructor|]. inversion H; subst. constructor; [|apply IH; assumption].
  intro C. apply In_firstn_frt0 in C. contradiction.
Qed.

Lemma In_firstn_frt {A} n (l : list A) x : In x (firstn n l) -> In x l.
Proof.
  intro H. rewrite <- (firstn_skipn n l). apply in_app_iff. left. exact H.
Qed.

Lemma cut_nil takes : cut takes [] = [].
Proof. destruct takes as [t|]; simpl; [apply firstn_nil|reflexivity]. Qed.

Lemma cut_In takes ys e : In e (cut takes ys) -> In e ys.
Proof. destruct takes as [t|]; simpl; [apply In_firstn_frt|auto]. Qed.

Lemma cut_length takes ys : length (cut takes ys) <= length ys.
Proof. destruct takes as [t|]; simpl; [rewrite firstn_length; lia|lia]. Qed.

Lemma cut_nodup takes ys : NoDup (map fst ys) -> NoDup (map fst (cut takes ys)).
Proof.
  destruct takes as [t|]; simpl; [|auto]. intro H. rewrite <- firstn_map. apply NoDup_firstn_frt. exact H.
Qed.

Lemma all_false_app {A} (a b : list A) :
  map (fun _ : A => false) (a ++ b) = map (fun _ : A => false) a ++ map (fun _ : A => false) b.
Proof. apply map_app. Qed.

(* ---- facts about the loop [fr_feed] ----------------------------------------------------------------- *)
Lemma FrInv_empty c : FrInv c [] [].
Proof. split; simpl; [reflexivity|constructor|intros _; lia]. Qed.

(* the loop is left early exactly when the cap has been reached *)
Lemma fr_feed_early c es : forall ps,
  (snd (fr_feed c ps es) = true -> fr_stop c (fst (fst (fr_feed c ps es))) = true) /\
  (snd (fr_feed c ps es) = false -> fr_stop c ps = false -> fr_stop c (fst (fst (fr_feed c ps es))) = false).
Proof.
  induction es as [|e es IH]; intro ps; simpl.
  - split; [discriminate|auto].
  - destruct (fr_try_add c ps (fst e)) as [p1 added]. destruct (fr_stop c p1) eqn:S; simpl.
    + split; [auto|discriminate].
    + specialize (IH p1). destruct (fr_feed c p1 es) as [[p2 y2] early]. simpl in *.
      destruct IH as [I1 I2]. split; [exact I1|]. intros E _. exact (I2 E S).
Qed.

(* once the cap is reached an answer that is still processed changes nothing *)
Lemma fr_stop_try_add c ps p : fr_stop c ps = true -> fr_try_add c ps p = (ps, false).
Proof.
  unfold fr_stop, fr_try_add. intro H. apply andb_true_iff in H. destruct H as [H1 H2].
  apply negb_true_iff in H1. rewrite H1, orb_false_r.
  assert (E : Z.ltb (Z.of_nat (length ps)) c = false) by (apply Z.ltb_ge; apply Z.leb_le; exact H2).
  rewrite E, andb_false_r. reflexivity.
Qed.

Lemma fr_stop_feed c ps es : fr_stop c ps = true -> fst (fr_feed c ps es) = (ps, []).
Proof.
  intro H. destruct es as [|e es]; simpl; [reflexivity|].
  rewrite (fr_stop_try_add c ps (fst e) H), H. reflexivity.
Qed.

Lemma fr_stop_feed_answers sh c answers : forall ps, fr_stop c ps = true -> fr_feed_answers sh c ps answers = (ps, []).
Proof.
  induction answers as [|a answers IH]; intros ps H; simpl; [reflexivity|].
  pose proof (fr_stop_feed c ps (sh a) H) as F. destruct (fr_feed c ps (sh a)) as [[p1 y1] e1]. simpl in F.
  inversion F; subst. rewrite (IH ps H). reflexivity.
Qed.

(* the race loop: on a set that is full nothing happens *)
Lemma fr_stop_feed_race c ps es w : fr_stop c ps = true -> fr_feed_race c ps es w = (ps, [], true).
Proof.
  intro H. destruct es as [|e es]; simpl; [reflexivity|].
  rewrite (fr_stop_try_add c ps (fst e) H), H. reflexivity.
Qed.

Lemma fr_try_add_mono c ps p : incl ps (fst (fr_try_add c ps p)).
Proof.
  unfold fr_try_add. destruct (negb (existsb (N.eqb p) ps) && (Z.ltb (Z.of_nat (length ps)) c || find_all c)); simpl;
    [apply incl_appl|]; apply incl_refl.
Qed.

Lemma fr_feed_race_sound c es : forall ps w e, In e (snd (fst (fr_feed_race c ps es w))) -> In e es.
Proof.
  induction es as [|x es IH]; intros ps w e H; simpl in *; [exact H|].
  destruct (fr_try_add c ps (fst x)) as [p1 added]. destruct added.
  - destruct w as [|w]; [destruct H|]. destruct (fr_stop c p1).
    + destruct H as [H|[]]. left. exact H.
    + specialize (IH p1 w e). destruct (fr_feed_race c p1 es w) as [[p2 y2] r]. simpl in *.
      destruct H as [H|H]; [left; exact H|right; exact (IH H)].
  - destruct (fr_stop c p1); [destruct H|]. right. exact (IH p1 w e H).
Qed.

(* the invariant that survives lost races: what was sent is duplicate-free and
   within the set held, and the set respects the cap *)
Record FrtInv (c : Z) (ps : list peer) (ys : list entry) : Prop := {
  ft_incl : incl (map fst ys) ps;
  ft_nodup : NoDup ps;
  ft_ynodup : NoDup (map fst ys);
  ft_bound : find_all c = false -> (Z.of_nat (length ps) <= Z.max 0 c)%Z }.

Lemma FrtInv_empty c : FrtInv c [] [].
Proof. split; simpl; [apply incl_refl|constructor|constructor|intros _; lia]. Qed.

Lemma FrtInv_length c ps ys : FrtInv c ps ys -> length ys <= length ps.
Proof.
  intros [I _ N _]. replace (length ys) with (length (map fst ys)) by apply map_length. apply NoDup_incl_length; assumption.
Qed.

Lemma fr_try_add_ft c ps ys e :
  FrtInv c ps ys ->
  FrtInv c (fst (fr_try_add c ps (fst e))) ys /\
  (snd (fr_try_add c ps (fst e)) = true -> FrtInv c (fst (fr_try_add c ps (fst e))) (ys ++ [e])).
Proof.
  intros [I N Y B]. unfold fr_try_add.
  destruct (negb (existsb (N.eqb (fst e)) ps) && (Z.ltb (Z.of_nat (length ps)) c || find_all c)) eqn:C; simpl.
  - apply andb_true_iff in C. destruct C as [C1 C2]. apply negb_true_iff in C1.
    assert (NI : ~ In (fst e) ps) by (intro H; apply existsb_eqb_In in H; congruence).
    assert (B' : find_all c = false -> (Z.of_nat (length (ps ++ [fst e])) <= Z.max 0 c)%Z).
    { intro Hf. rewrite Hf, orb_false_r in C2. apply Z.ltb_lt in C2. rewrite app_length. simpl. lia. }
    split; [|intros _]; split; try assumption.
    + apply incl_appl. exact I.
    + apply NoDup_snoc_ps; assumption.
    + rewrite map_app. simpl. apply incl_app; [apply incl_appl; exact I|].
      intros x [Hx|[]]. subst x. apply in_app_iff. right. left. reflexivity.
    + apply NoDup_snoc_ps; assumption.
    + rewrite map_app. simpl. apply NoDup_snoc_ps; [exact Y|]. intro H. apply NI. apply I. exact H.
  - split; [split; assumption|discriminate].
Qed.

Lemma fr_feed_ft c es : forall ps ys,
  FrtInv c ps ys -> FrtInv c (fst (fst (fr_feed c ps es))) (ys ++ snd (fst (fr_feed c ps es))).
Proof.
  induction es as [|e es IH]; intros ps ys I; simpl; [rewrite app_nil_r; exact I|].
  pose proof (fr_try_add_ft c ps ys e I) as [I1 I2]. destruct (fr_try_add c ps (fst e)) as [p1 added]. simpl in I1, I2.
  assert (I3 : FrtInv c p1 (ys ++ (if added then [e] else []))).
  { destruct added; [apply I2; reflexivity|rewrite app_nil_r; exact I1]. }
  destruct (fr_stop c p1); simpl; [exact I3|].
  specialize (IH p1 _ I3). destruct (fr_feed c p1 es) as [[p2 y2] early]. simpl in *.
  rewrite app_assoc. exact IH.
Qed.

Lemma fr_feed_race_ft c es : forall ps ys w,
  FrtInv c ps ys -> FrtInv c (fst (fst (fr_feed_race c ps es w))) (ys ++ snd (fst (fr_feed_race c ps es w))).
Proof.
  induction es as [|e es IH]; intros ps ys w I; simpl; [rewrite app_nil_r; exact I|].
  pose proof (fr_try_add_ft c ps ys e I) as [I1 I2]. destruct (fr_try_add c ps (fst e)) as [p1 added]. simpl in I1, I2.
  destruct added.
  - destruct w as [|w]; simpl; [rewrite app_nil_r; exact I1|]. specialize (I2 eq_refl).
    destruct (fr_stop c p1); simpl; [exact I2|].
    specialize (IH p1 _ w I2). destruct (fr_feed_race c p1 es w) as [[p2 y2] r]. simpl in *.
    change (e :: y2) with ([e] ++ y2). rewrite app_assoc. exact IH.
  - destruct (fr_stop c p1); simpl; [rewrite app_nil_r; exact I1|]. exact (IH p1 ys w I1).
Qed.

(* count 0: never early, and every entry fed is held afterwards *)
Lemma fr_stop_zero ps : fr_stop 0 ps = false.
Proof. reflexivity. Qed.

Lemma fr_try_add_zero ps p : In p (fst (fr_try_add 0 ps p)) /\ incl ps (fst (fr_try_add 0 ps p)).
Proof.
  unfold fr_try_add. simpl find_all. rewrite orb_true_r, andb_true_r.
  destruct (existsb (N.eqb p) ps) eqn:E; simpl.
  - split; [apply existsb_eqb_In; exact E|apply incl_refl].
  - split; [apply in_app_iff; right; left; reflexivity|apply incl_appl, incl_refl].
Qed.

Lemma fr_feed_zero es : forall ps,
  snd (fr_feed 0 ps es) = false /\ incl ps (fst (fst (fr_feed 0 ps es))) /\
  (forall e, In e es -> In (fst e) (fst (fst (fr_feed 0 ps es)))).
Proof.
  induction es as [|x es IH]; intro ps; simpl.
  - split; [reflexivity|]. split; [apply incl_refl|intros e []].
  - pose proof (fr_try_add_zero ps (fst x)) as [T1 T2]. destruct (fr_try_add 0 ps (fst x)) as [p1 added]. simpl in T1, T2.
    try rewrite fr_stop_zero. specialize (IH p1). destruct (fr_feed 0 p1 es) as [[p2 y2] early]. simpl in *.
    destruct IH as [I1 [I2 I3]]. split; [exact I1|]. split.
    + eapply incl_tran; eassumption.
    + intros e [H|H]; [subst; apply I2; exact T1|apply I3; exact H].
Qed.

(* ---- one event ------------------------------------------------------------------------------------------ *)
Definition no_late (ars : list arrival) : Prop := forall ar, In ar ars -> is_late ar = false.

Section Step.
Variable sh : list entry -> list entry.
Variable count : Z.
Variables n q : nat.
Variable takes : option nat.

Lemma x_answer_spec st a :
  let r := x_answer sh count n q takes st a in
  snd r = true /\
  fst (fr_feed count (x_ps st) (sh a)) = (x_ps (fst (fst r)), snd (fst r)) /\
  (snd (fr_feed count (x_ps st) (sh a)) = true -> x_dead (fst (fst r)) = true) /\
  x_done st <= x_done (fst (fst r)).
Proof.
  unfold x_answer. destruct (fr_feed count (x_ps st) (sh a)) as [[ps1 ys] early].
  destruct (match takes with Some t => Nat.leb (x_sent st + length ys) t | None => true end); simpl.
  - repeat split; auto. intro E. subst early. reflexivity.
  - repeat split; auto.
Qed.

(* the three kinds of event: nothing reaches the search; an answer is processed
   on a live context; a late answer is processed on a cancelled context *)
Lemma x_step_cases st ar :
  let r := x_step sh count n q takes st ar in
  (snd r = false /\ snd (fst r) = [] /\ x_ps (fst (fst r)) = x_ps st /\
   (x_dead st = true -> x_dead (fst (fst r)) = true) /\ x_done st <= x_done (fst (fst r)) /\
   (ar = ACancel -> x_dead (fst (fst r)) = true \/ n <= x_done (fst (fst r))))
  \/
  (snd r = true /\ exists a, (ar = AOk a \/ exists w, ar = ALate a w) /\ x_dead st = false /\
   fst (fr_feed count (x_ps st) (sh a)) = (x_ps (fst (fst r)), snd (fst r)) /\
   (snd (fr_feed count (x_ps st) (sh a)) = true -> x_dead (fst (fst r)) = true) /\
   x_done st <= x_done (fst (fst r)))
  \/
  (snd r = false /\ exists a w, ar = ALate a w /\ x_dead st = true /\
   fst (fr_feed_race count (x_ps st) (sh a) w) = (x_ps (fst (fst r)), snd (fst r)) /\
   x_dead (fst (fst r)) = true /\ x_done st <= x_done (fst (fst r))).
Proof.
  unfold x_step. destruct (Nat.leb n (x_done st)) eqn:En.
  - left. simpl. repeat split; auto. intros _. right. apply Nat.leb_le. exact En.
  - destruct ar as [a| | | |a w].
    + destruct (x_dead st) eqn:D.
      * left. simpl. repeat split; auto; try discriminate.
      * right. left. pose proof (x_answer_spec st a) as [S1 [S2 [S3 S4]]].
        split; [exact S1|]. exists a. repeat split; auto.
    + left. simpl. repeat split; auto; try discriminate.
    + left. destruct (x_tick st) as [s|]; [destruct (Nat.ltb s (x_succ st))|]; simpl; repeat split; auto; try discriminate.
    + left. simpl. repeat split; auto.
    + destruct (x_dead st) eqn:D.
      * right. right. destruct (fr_feed_race count (x_ps st) (sh a) w) as [[ps1 ys] ok] eqn:F.
        destruct ok; simpl; (split; [reflexivity|]); exists a, w; rewrite F; simpl; repeat split; auto.
      * right. left. pose proof (x_answer_spec st a) as [S1 [S2 [S3 S4]]].
        split; [exact S1|]. exists a. repeat split; auto. right. exists w. reflexivity.
Qed.

Lemma x_run_app a1 : forall st a2,
  x_run sh count n q takes st (a1 ++ a2) =
  let '(st1, y1, f1) := x_run sh count n q takes st a1 in
  let '(st2, y2, f2) := x_run sh count n q takes st1 a2 in
  (st2, y1 ++ y2, f1 ++ f2).
Proof.
  induction a1 as [|ar a1 IH]; intros st a2; simpl.
  - destruct (x_run sh count n q takes st a2) as [[st2 y2] f2]. reflexivity.
  - destruct (x_step sh count n q takes st ar) as [[s1 ys] pr]. rewrite IH.
    destruct (x_run sh count n q takes s1 a1) as [[s2 y1] f1].
    destruct (x_run sh count n q takes s2 a2) as [[s3 y2] f2]. rewrite app_assoc. reflexivity.
Qed.

(* a search whose context is cancelled, or whose wait loop has ended, processes
   nothing more -- unless a reply still gets through *)
Definition quiet (st : xstate) : Prop := x_dead st = true \/ n <= x_done st.

Lemma x_step_quiet st ar :
  quiet st -> is_late ar = false ->
  let r := x_step sh count n q takes st ar in
  quiet (fst (fst r)) /\ snd (fst r) = [] /\ snd r = false.
Proof.
  intros Q NL r. pose proof (x_step_cases st ar) as C. fold r in C.
  destruct C as [[C1 [C2 [C3 [C4 [C5 C6]]]]]|[[C1 [a [Ea [D [F [E C5]]]]]]|[_ [a [w [Ea _]]]]]].
  - split; [|split; assumption]. destruct Q as [Q|Q]; [left; auto|right; lia].
  - exfalso. destruct Q as [Q|Q]; [congruence|].
    unfold r, x_step in C1. apply Nat.leb_le in Q. rewrite Q in C1. simpl in C1. discriminate.
  - subst ar. discriminate.
Qed.

Lemma x_run_quiet ars : forall st,
  quiet st -> no_late ars ->
  let r := x_run sh count n q takes st ars in
  quiet (fst (fst r)) /\ snd (fst r) = [] /\ snd r = map (fun _ : arrival => false) ars.
Proof.
  induction ars as [|ar rest IH]; intros st Q NL; simpl; [auto|].
  pose proof (x_step_quiet st ar Q (NL ar (or_introl eq_refl))) as S.
  destruct (x_step sh count n q takes st ar) as [[st1 ys] pr]. simpl in S.
  destruct S as [Q1 [Y P]]. subst. specialize (IH st1 Q1 (fun a H => NL a (or_intror H))).
  destruct (x_run sh count n q takes st1 rest) as [[st2 ys'] prs]. simpl in *.
  destruct IH as [Q2 [Y2 P2]]. subst. auto.
Qed.

(* once the context is cancelled because the set is full, nothing is yielded
   any more, late replies included *)
Definition capped (st : xstate) : Prop := x_dead st = true /\ fr_stop count (x_ps st) = true.

Lemma x_step_capped st ar :
  capped st ->
  let r := x_step sh count n q takes st ar in
  capped (fst (fst r)) /\ snd (fst r) = [] /\ snd r = false.
Proof.
  intros [D S] r. pose proof (x_step_cases st ar) as C. fold r in C.
  destruct C as [[C1 [C2 [C3 [C4 _]]]]|[[_ [a [_ [D' _]]]]|[C1 [a [w [_ [_ [F [D1 _]]]]]]]]].
  - split; [|split; assumption]. split; [auto|rewrite C3; exact S].
  - congruence.
  - rewrite (fr_stop_feed_race count (x_ps st) (sh a) w S) in F. simpl in F. inversion F as [[F1 F2]].
    split; [|split; auto]. split; [exact D1|rewrite <- F1; exact S].
Qed.

Lemma x_run_capped ars : forall st,
  capped st ->
  let r := x_run sh count n q takes st ars in
  capped (fst (fst r)) /\ snd (fst r) = [] /\ snd r = map (fun _ : arrival => false) ars.
Proof.
  induction ars as [|ar rest IH]; intros st Q; simpl; [auto|].
  pose proof (x_step_capped st ar Q) as S. destruct (x_step sh count n q takes st ar) as [[st1 ys] pr]. simpl in S.
  destruct S as [Q1 [Y P]]. subst. specialize (IH st1 Q1).
  destruct (x_run sh count n q takes st1 rest) as [[st2 ys'] prs]. simpl in *.
  destruct IH as [Q2 [Y2 P2]]. subst. auto.
Qed.

Lemma delivered_skip ar rest prs a :
  In a (delivered rest prs) -> In a (delivered (ar :: rest) (false :: prs)).
Proof. intro H. destruct ar; simpl; auto. Qed.

(* what was handed to the channel is duplicate-free and within the set held,
   which respects the cap; all of it comes from an answer that reached the search *)
Lemma x_run_inv ars : forall st Y,
  FrtInv count (x_ps st) Y ->
  let r := x_run sh count n q takes st ars in
  FrtInv count (x_ps (fst (fst r))) (Y ++ snd (fst r)) /\
  (forall e, In e (snd (fst r)) -> exists a, In a (delivered ars (snd r)) /\ In e (sh a)).
Proof.
  induction ars as [|ar rest IH]; intros st Y I; simpl.
  - rewrite app_nil_r. split; [exact I|intros e []].
  - pose proof (x_step_cases st ar) as C. destruct (x_step sh count n q takes st ar) as [[st1 ys] pr]. simpl in C.
    destruct C as [[C1 [C2 [C3 _]]]|[[C1 [a [Ea [D [F _]]]]]|[C1 [a [w [Ea [D [F _]]]]]]]].
    + subst pr ys. rewrite <- C3 in I. specialize (IH st1 Y I).
      destruct (x_run sh count n q takes st1 rest) as [[st2 ys'] prs]. simpl in *.
      destruct IH as [I2 S2]. split; [exact I2|].
      intros e H. destruct (S2 e H) as [a [H1 H2]]. exists a. split; [|exact H2].
      apply delivered_skip. exact H1.
    + subst pr. pose proof (fr_feed_ft count (sh a) (x_ps st) Y I) as I1.
      pose proof (fr_feed_sound count (sh a) (x_ps st)) as S1.
      rewrite F in I1, S1. simpl in I1, S1. specialize (IH st1 _ I1).
      destruct (x_run sh count n q takes st1 rest) as [[st2 ys'] prs]. simpl in *.
      destruct IH as [I2 S2]. rewrite app_assoc. split; [exact I2|].
      intros e H. apply in_app_iff in H. destruct H as [H|H].
      * exists a. split; [|exact (S1 e H)]. destruct Ea as [Ea|[w Ea]]; subst ar; left; reflexivity.
      * destruct (S2 e H) as [a' [H1 H2]]. exists a'. split; [|exact H2].
        destruct Ea as [Ea|[w Ea]]; subst ar; right; exact H1.
    + subst pr ar. pose proof (fr_feed_race_ft count (sh a) (x_ps st) Y w I) as I1.
      pose proof (fr_feed_race_sound count (sh a) (x_ps st) w) as S1.
      rewrite F in I1, S1. simpl in I1, S1. specialize (IH st1 _ I1).
      destruct (x_run sh count n q takes st1 rest) as [[st2 ys'] prs]. simpl in *.
      destruct IH as [I2 S2]. rewrite app_assoc. split; [exact I2|].
      intros e H. apply in_app_iff in H. destruct H as [H|H].
      * exists a. split; [left; reflexivity|exact (S1 e H)].
      * destruct (S2 e H) as [a' [H1 H2]]. exists a'. split; [right; exact H1|exact H2].
Qed.

(* while the search is alive the cap has not been reached *)
Definition alive_below (st : xstate) : Prop := x_dead st = true \/ fr_stop count (x_ps st) = false.

Lemma x_step_below st ar : alive_below st -> alive_below (fst (fst (x_step sh count n q takes st ar))).
Proof.
  intro J. pose proof (x_step_cases st ar) as C. cbv zeta in C.
  destruct C as [[_ [_ [C3 [C4 _]]]]|[[_ [a [_ [D [F [E _]]]]]]|[_ [a [w [_ [_ [_ [D1 _]]]]]]]]].
  - destruct J as [J|J]; [left; auto|right; rewrite C3; exact J].
  - destruct J as [J|J]; [congruence|].
    pose proof (fr_feed_early count (sh a) (x_ps st)) as [E1 E2].
    destruct (snd (fr_feed count (x_ps st) (sh a))) eqn:Se.
    + left. apply E. reflexivity.
    + right. specialize (E2 eq_refl J). rewrite F in E2. exact E2.
  - left. exact D1.
Qed.

Lemma x_run_below ars : forall st, alive_below st -> alive_below (fst (fst (x_run sh count n q takes st ars))).
Proof.
  induction ars as [|ar rest IH]; intros st J; simpl; [exact J|].
  pose proof (x_step_below st ar J) as J1. destruct (x_step sh count n q takes st ar) as [[st1 ys] pr]. simpl in J1.
  specialize (IH st1 J1). destruct (x_run sh count n q takes st1 rest) as [[st2 ys'] prs]. exact IH.
Qed.
End Step.

(* count 0, a consumer that stays: while the context is alive the set held is
   exactly what was sent, and every entry of an answer processed on a live
   context has been sent *)
Lemma x_run_zero sh n q ars : forall st Y,
  (x_dead st = false -> FrInv 0 (x_ps st) Y) ->
  let r := x_run sh 0 n q None st ars in
  forall a e, In a (processed ars (snd r)) -> In e (sh a) -> In (fst e) (map fst (Y ++ snd (fst r))).
Proof.
  induction ars as [|ar rest IH]; intros st Y I; simpl.
  - intros a e [].
  - pose proof (x_step_cases sh 0 n q None st ar) as C. destruct (x_step sh 0 n q None st ar) as [[st1 ys] pr]. simpl in C.
    destruct C as [[C1 [C2 [C3 [C4 _]]]]|[[C1 [a [Ea [D [F _]]]]]|[C1 [a [w [Ea [D [F [D1 _]]]]]]]]].
    + subst pr ys. assert (I1 : x_dead st1 = false -> FrInv 0 (x_ps st1) Y).
      { intro D1. rewrite C3. apply I. destruct (x_dead st); [specialize (C4 eq_refl); congruence|reflexivity]. }
      specialize (IH st1 Y I1). destruct (x_run sh 0 n q None st1 rest) as [[st2 ys'] prs]. simpl in *.
      intros a e Ha He. apply (IH a e); [|exact He]. destruct ar; exact Ha.
    + subst pr. specialize (I D). pose proof (fr_feed_inv 0 (sh a) (x_ps st) Y I) as I1.
      pose proof (fr_feed_zero (sh a) (x_ps st)) as [_ [_ Z3]]. rewrite F in I1, Z3. simpl in I1, Z3.
      specialize (IH st1 _ (fun _ => I1)). destruct (x_run sh 0 n q None st1 rest) as [[st2 ys'] prs]. simpl in *.
      rewrite app_assoc. intros a' e Ha He.
      assert (Ha' : a = a' \/ In a' (processed rest prs)) by (destruct Ea as [Ea|[w Ea]]; subst ar; exact Ha).
      destruct Ha' as [Ha'|Ha'].
      * subst a'. rewrite map_app. apply in_app_iff. left. destruct I1 as [K _ _].
        pose proof (Z3 e He) as Z. rewrite <- K in Z. exact Z.
      * apply (IH a' e Ha' He).
    + subst pr ar. assert (I1 : x_dead st1 = false -> FrInv 0 (x_ps st1) (Y ++ ys)) by (intro; congruence).
      specialize (IH st1 _ I1). destruct (x_run sh 0 n q None st1 rest) as [[st2 ys'] prs]. simpl in *.
      rewrite app_assoc. intros a' e Ha He. apply (IH a' e Ha He).
Qed.

(* ---- the search -------------------------------------------------------------------------------------------- *)
(* what the consumer receives is a prefix ([cut]) of a sequence Y within the set
   held, and every member of Y is a local provider or comes from an answer that
   reached the search *)
Lemma frt_core_full sh no_store precancel count locals n q arrivals takes :
  exists Y ps,
    fst (frt_core sh no_store precancel count locals n q arrivals takes) = cut takes Y /\
    FrtInv count ps Y /\
    (forall e, In e Y -> In e locals \/
       exists a, In a (delivered arrivals (snd (frt_core sh no_store precancel count locals n q arrivals takes))) /\ In e (sh a)).
Proof.
  unfold frt_core. destruct (no_store || precancel || takes_reached takes 0).
  - exists [], []. simpl. split; [symmetry; apply cut_nil|]. split; [apply FrtInv_empty|intros e []].
  - pose proof (fr_feed_ft count locals [] [] (FrtInv_empty count)) as I0.
    pose proof (fr_feed_sound count locals []) as S0.
    destruct (fr_feed count [] locals) as [[p0 y0] early]. simpl in I0, S0.
    destruct (early || match takes with Some t => Nat.ltb t (length y0) | None => false end).
    + exists y0, p0. simpl. split; [reflexivity|]. split; [exact I0|]. intros e H. left. exact (S0 e H).
    + set (st0 := {| x_ps := p0; x_done := 0; x_succ := 0; x_tick := None;
                     x_dead := takes_reached takes (length y0); x_sent := length y0 |}).
      pose proof (x_run_inv sh count n q takes arrivals st0 y0 I0) as R.
      destruct (x_run sh count n q takes st0 arrivals) as [[st1 ys] fl]. simpl in R. destruct R as [I1 S1].
      exists (y0 ++ ys), (x_ps st1). simpl. split; [reflexivity|]. split; [exact I1|].
      intros e H. apply in_app_iff in H. destruct H as [H|H]; [left; exact (S0 e H)|right; exact (S1 e H)].
Qed.

(* 1-3: soundness, no repetition, the count cap *)
Theorem frt_spec sh no_store precancel count locals n q arrivals takes :
  (forall l, Permutation l (sh l)) ->
  let r := frt_core sh no_store precancel count locals n q arrivals takes in
  (forall e, In e (fst r) -> In e locals \/ exists a, In a (delivered arrivals (snd r)) /\ In e a) /\
  NoDup (map fst (fst r)) /\
  ((0 < count)%Z -> (Z.of_nat (length (fst r)) <= count)%Z) /\
  ((count < 0)%Z -> fst r = []).
Proof.
  intros P r. destruct (frt_core_full sh no_store precancel count locals n q arrivals takes) as [Y [ps [E [I S]]]].
  fold r in E, S. pose proof (FrtInv_length _ _ _ I) as LY. destruct I as [_ _ N B].
  assert (L : length (fst r) <= length ps).
  { rewrite E. pose proof (cut_length takes Y) as CL. eapply Nat.le_trans; [exact CL|exact LY]. }
  split; [|split; [|split]].
  - intros e H. rewrite E in H. apply cut_In in H. destruct (S e H) as [H1|[a [H1 H2]]]; [left; exact H1|].
    right. exists a. split; [exact H1|]. apply (Permutation_in _ (Permutation_sym (P a))). exact H2.
  - rewrite E. apply cut_nodup. exact N.
  - intro Hc. unfold find_all in B. assert (F : Z.eqb count 0 = false) by (apply Z.eqb_neq; lia). specialize (B F). lia.
  - intro Hc. unfold find_all in B. assert (F : Z.eqb count 0 = false) by (apply Z.eqb_neq; lia). specialize (B F).
    destruct (fst r); [reflexivity|simpl in L; lia].
Qed.

(* 4: count 0 and a consumer that stays: every local provider and every
   provider named in an answer processed on a live context is yielded *)
Theorem frt_zero_complete sh locals n q arrivals e :
  (forall l, Permutation l (sh l)) ->
  let r := frt_core sh false false 0 locals n q arrivals None in
  In e locals \/ (exists a, In a (processed arrivals (snd r)) /\ In e a) ->
  In (fst e) (map fst (fst r)).
Proof.
  intros P r H. unfold r, frt_core, takes_reached in *. simpl orb in *. cbv iota in *.
  pose proof (fr_feed_inv 0 locals [] [] (FrInv_empty 0)) as I0.
  pose proof (fr_feed_zero locals []) as [Z1 [_ Z3]].
  destruct (fr_feed 0 [] locals) as [[p0 y0] early]. simpl in I0, Z1, Z3. subst early. simpl orb in *. cbv iota in *.
  set (st0 := {| x_ps := p0; x_done := 0; x_succ := 0; x_tick := None; x_dead := false; x_sent := length y0 |}) in *.
  pose proof (x_run_zero sh n q arrivals st0 y0 (fun _ => I0)) as Z.
  destruct (x_run sh 0 n q None st0 arrivals) as [[st1 ys] fl]. simpl in *.
  destruct H as [H|[a [H1 H2]]].
  - rewrite map_app. apply in_app_iff. left. destruct I0 as [K _ _]. pose proof (Z3 e H) as Z'. rewrite <- K in Z'. exact Z'.
  - apply (Z a e H1). apply (Permutation_in _ (P a)). exact H2.
Qed.

(* 5: the channel is closed exactly once, as the last event *)
Theorem frt_closed_once sh no_store precancel count locals n q arrivals takes :
  let evs := frt_routine sh no_store precancel count locals n q arrivals takes in
  let ys := fst (frt_core sh no_store precancel count locals n q arrivals takes) in
  evs = map Yield ys ++ [Closed] /\ ~ In Closed (map Yield ys).
Proof.
  cbv zeta. unfold frt_routine. split; [reflexivity|].
  intro H. apply in_map_iff in H. destruct H as [x [H _]]. discriminate.
Qed.

(* 6: once count providers were received nothing that returns later is
   processed on a live context and nothing more is yielded, not even from a
   reply that still gets through *)
Theorem frt_stops sh no_store precancel count locals n q pre post takes :
  (0 < count)%Z ->
  (count <= Z.of_nat (length (fst (frt_core sh no_store precancel count locals n q pre takes))))%Z ->
  frt_core sh no_store precancel count locals n q (pre ++ post) takes =
  (fst (frt_core sh no_store precancel count locals n q pre takes),
   snd (frt_core sh no_store precancel count locals n q pre takes) ++ map (fun _ : arrival => false) post).
Proof.
  intros Hc. unfold frt_core. destruct (no_store || precancel || takes_reached takes 0).
  - intros _. simpl. rewrite all_false_app. reflexivity.
  - pose proof (fr_feed_ft count locals [] [] (FrtInv_empty count)) as I0.
    pose proof (fr_feed_early count locals []) as [_ E0].
    destruct (fr_feed count [] locals) as [[p0 y0] early]. simpl in I0, E0.
    destruct early; simpl orb; cbv iota.
    + intros _. simpl. rewrite all_false_app. reflexivity.
    + destruct (match takes with Some t => Nat.ltb t (length y0) | None => false end).
      * intros _. simpl. rewrite all_false_app. reflexivity.
      * set (st0 := {| x_ps := p0; x_done := 0; x_succ := 0; x_tick := None;
                       x_dead := takes_reached takes (length y0); x_sent := length y0 |}).
        assert (J0 : alive_below count st0).
        { right. simpl. apply E0; [reflexivity|]. unfold fr_stop, find_all. simpl length.
          apply andb_false_iff. right. apply Z.leb_gt. simpl. lia. }
        rewrite x_run_app.
        pose proof (x_run_inv sh count n q takes pre st0 y0 I0) as R.
        pose proof (x_run_below sh count n q takes pre st0 J0) as J1.
        destruct (x_run sh count n q takes st0 pre) as [[st1 ys] fl]. simpl in R, J1. destruct R as [I1 _].
        intro Hl. simpl fst in Hl.
        assert (SP : fr_stop count (x_ps st1) = true).
        { pose proof (cut_length takes (y0 ++ ys)) as CL. pose proof (FrtInv_length _ _ _ I1) as LL.
          unfold fr_stop, find_all. assert (F : Z.eqb count 0 = false) by (apply Z.eqb_neq; lia).
          rewrite F. simpl. apply Z.leb_le. lia. }
        assert (D : x_dead st1 = true) by (destruct J1 as [J1|J1]; [exact J1|congruence]).
        pose proof (x_run_capped sh count n q takes post st1 (conj D SP)) as Q.
        destruct (x_run sh count n q takes st1 post) as [[st2 y2] f2]. simpl in Q. destruct Q as [_ [Y2 F2]].
        subst. rewrite app_nil_r. reflexivity.
Qed.

(* 7: after the caller's context is cancelled nothing is processed and -- when
   no reply gets through any more -- nothing more is yielded *)
Theorem frt_cancelled sh no_store precancel count locals n q pre post takes :
  no_late post ->
  frt_core sh no_store precancel count locals n q (pre ++ ACancel :: post) takes =
  (fst (frt_core sh no_store precancel count locals n q pre takes),
   snd (frt_core sh no_store precancel count locals n q pre takes) ++ map (fun _ : arrival => false) (ACancel :: post)).
Proof.
  intro NL. unfold frt_core. destruct (no_store || precancel || takes_reached takes 0).
  - simpl fst. simpl snd. rewrite all_false_app. reflexivity.
  - destruct (fr_feed count [] locals) as [[p0 y0] early].
    destruct (early || match takes with Some t => Nat.ltb t (length y0) | None => false end).
    + simpl fst. simpl snd. rewrite all_false_app. reflexivity.
    + set (st0 := {| x_ps := p0; x_done := 0; x_succ := 0; x_tick := None;
                     x_dead := takes_reached takes (length y0); x_sent := length y0 |}).
      rewrite x_run_app. destruct (x_run sh count n q takes st0 pre) as [[st1 ys] fl].
      change (ACancel :: post) with ([ACancel] ++ post). rewrite x_run_app.
      pose proof (x_step_cases sh count n q takes st1 ACancel) as C. simpl x_run at 1.
      destruct (x_step sh count n q takes st1 ACancel) as [[st2 y2] p2]. simpl in C.
      destruct C as [[C1 [C2 [_ [_ [_ C6]]]]]|[[_ [a [[Ea|[w Ea]] _]]]|[_ [a [w [Ea _]]]]]]; try discriminate.
      subst. specialize (C6 eq_refl).
      pose proof (x_run_quiet sh count n q takes post st2 C6 NL) as Q.
      destruct (x_run sh count n q takes st2 post) as [[st3 y3] f3]. simpl in Q. destruct Q as [_ [Y3 F3]].
      subst. simpl. rewrite app_nil_r. reflexivity.
Qed.

(* 8: an answer that was already in flight and is processed after the cap was
   reached changes neither the set held nor what is yielded (whatever the
   interleaving: this is a statement about the accumulation alone) *)
Theorem fr_late_answers_change_nothing sh count locals answers more :
  fr_stop count (fst (fr_search sh count locals answers)) = true ->
  forall ps ys, fr_feed_answers sh count (fst (fr_search sh count locals answers)) more = (ps, ys) ->
  ps = fst (fr_search sh count locals answers) /\ ys = [].
Proof.
  intros H ps ys E. rewrite (fr_stop_feed_answers sh count more _ H) in E. inversion E. auto.
Qed.

(* the model of ProvSearch.v is the special case of a consumer that stays and
   replies that honour the context: what is yielded is [fr_search] over the
   processed answers *)
Lemma fr_feed_answers_as_run sh count n q ars : forall st,
  no_late ars ->
  let r := x_run sh count n q None st ars in
  fr_feed_answers sh count (x_ps st) (processed ars (snd r)) = (x_ps (fst (fst r)), snd (fst r)).
Proof.
  induction ars as [|ar rest IH]; intros st NL; simpl; [reflexivity|].
  pose proof (x_step_cases sh count n q None st ar) as C. destruct (x_step sh count n q None st ar) as [[st1 ys] pr]. simpl in C.
  specialize (IH st1 (fun a H => NL a (or_intror H))). destruct (x_run sh count n q None st1 rest) as [[st2 ys'] prs]. simpl in *.
  pose proof (NL ar (or_introl eq_refl)) as NLa.
  destruct C as [[C1 [C2 [C3 _]]]|[[C1 [a [[Ea|[w Ea]] [_ [F _]]]]]|[_ [a [w [Ea _]]]]]]; try (subst ar; discriminate).
  - subst pr ys. rewrite <- C3. simpl. destruct ar; exact IH.
  - subst pr ar. simpl. destruct (fr_feed count (x_ps st) (sh a)) as [[p1 y1] e1]. simpl in F. inversion F; subst.
    rewrite IH. reflexivity.
Qed.

Theorem frt_refines_fr_search sh count locals n q arrivals :
  no_late arrivals ->
  let r := frt_core sh false false count locals n q arrivals None in
  fst r = snd (fr_search sh count locals (processed arrivals (snd r))).
Proof.
  intro NL. cbv zeta. unfold frt_core, fr_search, takes_reached, cut. simpl orb. cbv iota.
  destruct (fr_feed count [] locals) as [[p0 y0] early]. destruct early; simpl orb; cbv iota; [reflexivity|].
  set (st0 := {| x_ps := p0; x_done := 0; x_succ := 0; x_tick := None; x_dead := false; x_sent := length y0 |}).
  pose proof (fr_feed_answers_as_run sh count n q arrivals st0 NL) as R.
  destruct (x_run sh count n q None st0 arrivals) as [[st1 ys] fl]. simpl in *. rewrite R. reflexivity.
Qed.
