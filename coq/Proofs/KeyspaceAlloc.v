(* AllocateToKClosest is exact (C18): every item is allocated to exactly min(r, |dests|) distinct
   destinations, the XOR-nearest ones, once per destination. *)
From Verif.Lib Require Import GoSem Bits.
From Verif.Model Require Import Trie Keyspace.
From Verif.Proofs Require Import KeyspaceBase KeyspaceProofs.
From Coq Require Import Permutation.

(* ---- XOR distance on bit lists --------------------------------------------------- *)
Fixpoint bxor (a b : bits) : bits :=
  match a, b with
  | x :: a', y :: b' => xorb x y :: bxor a' b'
  | _, _ => []
  end.
(* a is closer to k than b: (a xor k) < (b xor k) lexicographically *)
Definition closer (k a b : bits) : Prop := bits_ltb (bxor a k) (bxor b k) = true.

(* keys under the two children of one node: the one on k's side is closer to k *)
Lemma closer_split p : forall a b k x,
  is_prefix (p ++ [x]) a = true -> is_prefix (p ++ [negb x]) b = true ->
  nth_error k (length p) = Some x -> closer k a b.
Proof.
  unfold closer. induction p as [|y p IH]; intros [|a0 a] [|b0 b] [|k0 k] x Ha Hb Hk; simpl in *;
    try discriminate.
  - inversion Hk; subst. destruct a0, b0, x; simpl in *; try discriminate; reflexivity.
  - apply andb_true_iff in Ha as [E1 Ha]. apply andb_true_iff in Hb as [E2 Hb].
    apply eqb_prop in E1. apply eqb_prop in E2. subst.
    rewrite eqb_reflx. eapply IH; eauto.
Qed.

Lemma NoDup_app_l {A} (l1 l2 : list A) : NoDup (l1 ++ l2) -> NoDup l1.
Proof.
  induction l1 as [|a l1 IH]; simpl; intro H; [constructor|]. inversion H; subst. constructor.
  - intro X. apply H2. apply in_or_app. left. exact X.
  - apply IH. exact H3.
Qed.
Lemma NoDup_app_r {A} (l1 l2 : list A) : NoDup (l1 ++ l2) -> NoDup l2.
Proof. induction l1 as [|a l1 IH]; simpl; intro H; [exact H|]. inversion H; subst. apply IH. exact H3. Qed.
Lemma NoDup_app_disjoint {A} (l1 l2 : list A) x : NoDup (l1 ++ l2) -> In x l1 -> In x l2 -> False.
Proof.
  induction l1 as [|a l1 IH]; simpl; intros H H1 H2; [contradiction|]. inversion H; subst.
  destruct H1 as [->|H1]; [apply H4; apply in_or_app; right; exact H2|apply IH; auto].
Qed.

(* ---- the specification ------------------------------------------------------------ *)
Section Alloc.
Context {D0 D1 : Type}.
Notation item := (bits * D0)%type.
Notation dest := (bits * D1)%type.

(* [chosen] are the min(r, |des|) nearest destinations to k *)
Definition nearest (r : nat) (k : bits) (des chosen : list dest) : Prop :=
  NoDup chosen /\ incl chosen des /\ length chosen = Nat.min r (length des) /\
  forall c d, In c chosen -> In d des -> ~ In d chosen -> closer k (fst c) (fst d).

(* the (destination, item) pairs of an allocation *)
Definition pairs (out : alloc_out D0 D1) : list (D1 * D0) :=
  flat_map (fun x => map (fun v => (fst x, v)) (snd x)) out.

Definition pairs_of (x : item * list dest) : list (D1 * D0) :=
  map (fun de => (snd de, snd (fst x))) (snd x).

(* [prs] allocates every item of [its] to its r nearest destinations of [des], once each *)
Definition alloc_ok (r : nat) (its : list item) (des : list dest) (prs : list (D1 * D0)) : Prop :=
  exists chs : list (list dest),
    Forall2 (fun it ch => nearest r (fst it) des ch) its chs /\
    Permutation prs (flat_map pairs_of (combine its chs)).

Definition prod (ds : list D1) (vs : list D0) : list (D1 * D0) :=
  flat_map (fun d => map (fun v => (d, v)) vs) ds.

Lemma pairs_app a b : pairs (a ++ b) = pairs a ++ pairs b.
Proof. unfold pairs. apply flat_map_app. Qed.

Lemma pairs_batch (ds : list D1) (batch : list D0) :
  pairs (map (fun d => (d, batch)) ds) = prod ds batch.
Proof. unfold pairs, prod. induction ds as [|d ds IH]; simpl; [reflexivity|]. rewrite IH. reflexivity. Qed.

(* ---- permutation toolkit ---------------------------------------------------------- *)
Lemma flat_map_perm {A B} (f : A -> list B) l l' :
  Permutation l l' -> Permutation (flat_map f l) (flat_map f l').
Proof.
  induction 1; simpl.
  - constructor.
  - apply Permutation_app_head. assumption.
  - rewrite !app_assoc. apply Permutation_app_tail. apply Permutation_app_comm.
  - eapply Permutation_trans; eassumption.
Qed.

Lemma flat_map_ext_perm {A B} (f g : A -> list B) l :
  (forall x, In x l -> Permutation (f x) (g x)) -> Permutation (flat_map f l) (flat_map g l).
Proof.
  induction l as [|a l IH]; simpl; intro H; [constructor|].
  apply Permutation_app; [apply H; left; reflexivity|apply IH; intros; apply H; right; assumption].
Qed.

Lemma flat_map_split {A B} (f g : A -> list B) l :
  Permutation (flat_map (fun x => f x ++ g x) l) (flat_map f l ++ flat_map g l).
Proof.
  induction l as [|a l IH]; simpl; [constructor|].
  rewrite <- !app_assoc. apply Permutation_app_head.
  eapply Permutation_trans; [apply Permutation_app_head; exact IH|].
  rewrite !app_assoc. apply Permutation_app_tail. apply Permutation_app_comm.
Qed.

Lemma prod_nil_r ds : prod ds [] = [].
Proof. unfold prod. induction ds; simpl; auto. Qed.

Lemma prod_perm ds ds' vs vs' :
  Permutation ds ds' -> Permutation vs vs' -> Permutation (prod ds vs) (prod ds' vs').
Proof.
  intros P1 P2. unfold prod.
  eapply Permutation_trans; [apply flat_map_perm; exact P1|].
  apply flat_map_ext_perm. intros d _. apply Permutation_map. exact P2.
Qed.

(* the product the other way round *)
Lemma prod_transpose (ds : list D1) (vs : list D0) :
  Permutation (prod ds vs) (flat_map (fun v => map (fun d => (d, v)) ds) vs).
Proof.
  induction vs as [|v vs IH]; simpl.
  - rewrite (prod_nil_r ds). constructor.
  - eapply Permutation_trans.
    2: { apply Permutation_app_head. exact IH. }
    clear IH. unfold prod. induction ds as [|d ds IHd]; simpl; [constructor|].
    constructor. eapply Permutation_trans; [apply Permutation_app_head; exact IHd|].
    rewrite !app_assoc. apply Permutation_app_tail. apply Permutation_app_comm.
Qed.

Lemma Forall2_app_both {A B} (R : A -> B -> Prop) l1 l2 m1 m2 :
  Forall2 R l1 m1 -> Forall2 R l2 m2 -> Forall2 R (l1 ++ l2) (m1 ++ m2).
Proof. induction 1; simpl; auto. Qed.

Lemma Forall2_length_eq {A B} (R : A -> B -> Prop) l m : Forall2 R l m -> length l = length m.
Proof. induction 1; simpl; auto. Qed.

Lemma combine_app_eq {A B} (l1 l2 : list A) (m1 m2 : list B) :
  length l1 = length m1 -> combine (l1 ++ l2) (m1 ++ m2) = combine l1 m1 ++ combine l2 m2.
Proof.
  revert m1; induction l1 as [|a l1 IH]; intros [|b m1]; simpl; intro H; try discriminate; try reflexivity.
  f_equal. apply IH. lia.
Qed.

Lemma Forall2_impl_In {A B} (R S : A -> B -> Prop) l m :
  (forall a b, In a l -> R a b -> S a b) -> Forall2 R l m -> Forall2 S l m.
Proof.
  intros H F. induction F; constructor.
  - apply H; [left; reflexivity|assumption].
  - apply IHF. intros; apply H; [right|]; assumption.
Qed.

(* ---- composition of allocations ---------------------------------------------------- *)
Lemma alloc_ok_nil r des : alloc_ok r [] des [].
Proof. exists []. split; constructor. Qed.

Lemma alloc_ok_app r its0 its1 des prs0 prs1 :
  alloc_ok r its0 des prs0 -> alloc_ok r its1 des prs1 -> alloc_ok r (its0 ++ its1) des (prs0 ++ prs1).
Proof.
  intros [c0 [F0 P0]] [c1 [F1 P1]]. exists (c0 ++ c1). split.
  - apply Forall2_app_both; assumption.
  - rewrite combine_app_eq by (eapply Forall2_length_eq; eassumption).
    rewrite flat_map_app. apply Permutation_app; assumption.
Qed.

Lemma alloc_ok_perm_prs r its des prs prs' :
  Permutation prs' prs -> alloc_ok r its des prs -> alloc_ok r its des prs'.
Proof. intros P [c [F Q]]. exists c. split; [exact F|]. eapply Permutation_trans; eassumption. Qed.

Lemma nearest_perm_des r k des des' ch :
  Permutation des des' -> nearest r k des ch -> nearest r k des' ch.
Proof.
  intros P [N [I [Ln C]]]. split; [exact N|]. split; [|split].
  - intros x Hx. eapply Permutation_in; [exact P|]. apply I. exact Hx.
  - rewrite <- (Permutation_length P). exact Ln.
  - intros c d Hc Hd Hn. apply C; auto. eapply Permutation_in; [apply Permutation_sym; exact P|exact Hd].
Qed.

Lemma alloc_ok_perm_des r its des des' prs :
  Permutation des des' -> alloc_ok r its des prs -> alloc_ok r its des' prs.
Proof.
  intros P [c [F Q]]. exists c. split; [|exact Q].
  eapply Forall2_impl_In; [|exact F]. intros a b _ H. eapply nearest_perm_des; eauto.
Qed.

(* one choice for every item of the batch *)
Lemma alloc_ok_batch r (its : list item) des ch ivals dvals :
  (forall it, In it its -> nearest r (fst it) des ch) ->
  Permutation ivals (map snd its) -> Permutation dvals (map snd ch) ->
  alloc_ok r its des (prod dvals ivals).
Proof.
  intros Hn Pi Pd. exists (map (fun _ => ch) its). split.
  - clear Pi. induction its as [|it its IH]; simpl; constructor.
    + apply Hn. left. reflexivity.
    + apply IH. intros. apply Hn. right. assumption.
  - eapply Permutation_trans; [apply prod_perm; eassumption|].
    eapply Permutation_trans; [apply prod_transpose|].
    clear. induction its as [|it its IH]; simpl; [constructor|].
    apply Permutation_app; [|exact IH]. unfold pairs_of. simpl. rewrite map_map. apply Permutation_refl.
Qed.

(* A: the destinations on the item's side; B: the others; everything in A is nearer than
   everything in B.  If A has at least r members, the r nearest of A are the r nearest of A ++ B *)
Lemma nearest_lift_same r k (A B ch : list dest) :
  (forall a b, In a A -> In b B -> closer k (fst a) (fst b)) ->
  r <= length A -> nearest r k A ch -> nearest r k (A ++ B) ch.
Proof.
  intros Cl Hr [N [I [Ln C]]]. split; [exact N|]. split; [|split].
  - intros x Hx. apply in_or_app. left. apply I. exact Hx.
  - rewrite app_length. rewrite Ln. lia.
  - intros c d Hc Hd Hn. apply in_app_or in Hd as [Hd|Hd].
    + apply C; auto.
    + apply Cl; auto.
Qed.

(* If A has at most r members, A plus the (r - |A|) nearest of B are the r nearest of A ++ B *)
Lemma nearest_lift_other r k (A B ch : list dest) :
  (forall a b, In a A -> In b B -> closer k (fst a) (fst b)) ->
  NoDup (A ++ B) -> length A <= r -> nearest (r - length A) k B ch -> nearest r k (A ++ B) (A ++ ch).
Proof.
  intros Cl ND Hr [N [I [Ln C]]]. split; [|split; [|split]].
  - apply NoDup_app_intro; auto.
    + eapply NoDup_app_l. exact ND.
    + intros x HA Hc. apply I in Hc. eapply NoDup_app_disjoint; eauto.
  - intros x Hx. apply in_app_or in Hx as [Hx|Hx]; apply in_or_app; [left|right; apply I]; assumption.
  - rewrite !app_length, Ln. lia.
  - intros c d Hc Hd Hn. apply in_app_or in Hc as [Hc|Hc]; apply in_app_or in Hd as [Hd|Hd].
    + exfalso. apply Hn. apply in_or_app. left. exact Hd.
    + apply Cl; auto.
    + exfalso. apply Hn. apply in_or_app. left. exact Hd.
    + apply C; auto. intro X. apply Hn. apply in_or_app. right. exact X.
Qed.

Lemma nearest_all m k (B : list dest) : NoDup B -> length B <= m -> nearest m k B B.
Proof.
  intros ND Hl. split; [exact ND|]. split; [apply incl_refl|]. split; [lia|].
  intros c d _ Hd Hn. contradiction.
Qed.

Lemma nearest_none m k (B : list dest) : Nat.min m (length B) = 0 -> nearest m k B [].
Proof.
  intro H. split; [constructor|]. split; [intros x []|]. split; [simpl; lia|]. intros c d [].
Qed.

Lemma alloc_ok_lift_same r its (A B : list dest) prs :
  (forall it a b, In it its -> In a A -> In b B -> closer (fst it) (fst a) (fst b)) ->
  r <= length A -> alloc_ok r its A prs -> alloc_ok r its (A ++ B) prs.
Proof.
  intros Cl Hr [c [F Q]]. exists c. split; [|exact Q].
  eapply Forall2_impl_In; [|exact F]. intros it ch Hit H. apply nearest_lift_same; auto.
Qed.

Lemma alloc_ok_lift_other r its (A B : list dest) prs ivals avals :
  (forall it a b, In it its -> In a A -> In b B -> closer (fst it) (fst a) (fst b)) ->
  NoDup (A ++ B) -> length A <= r ->
  Permutation ivals (map snd its) -> Permutation avals (map snd A) ->
  alloc_ok (r - length A) its B prs -> alloc_ok r its (A ++ B) (prod avals ivals ++ prs).
Proof.
  intros Cl ND Hr Pi Pa [c [F Q]]. exists (map (app A) c). split.
  - clear Q Pi. induction F as [|it ch its c Hn F IH]; simpl; constructor.
    + apply nearest_lift_other; auto. intros a b. apply Cl. left. reflexivity.
    + apply IH. intros. eapply Cl; eauto. right. assumption.
  - (* pairs: A's part for every item, then the recursive part *)
    assert (Len : length its = length c) by (eapply Forall2_length_eq; exact F).
    assert (E : Permutation (flat_map pairs_of (combine its (map (app A) c)))
                  (flat_map (fun it => map (fun de => (snd de, snd it)) A) its
                   ++ flat_map pairs_of (combine its c))).
    { clear - Len. revert c Len. induction its as [|it its IH]; intros [|ch c] Len; simpl in *; try discriminate.
      - constructor.
      - unfold pairs_of at 1. simpl. rewrite map_app. rewrite <- !app_assoc. apply Permutation_app_head.
        eapply Permutation_trans; [apply Permutation_app_head; apply IH; lia|].
        rewrite !app_assoc. apply Permutation_app_tail. apply Permutation_app_comm. }
    eapply Permutation_trans; [|apply Permutation_sym; exact E].
    apply Permutation_app; [|exact Q].
    eapply Permutation_trans; [apply prod_perm; eassumption|].
    eapply Permutation_trans; [apply prod_transpose|].
    clear. induction its as [|it its IH]; simpl; [constructor|].
    apply Permutation_app; [|exact IH]. rewrite map_map. apply Permutation_refl.
Qed.

End Alloc.

(* ---- the algorithm ------------------------------------------------------------------ *)
Section AllocAlgo.
Context {D0 D1 : Type}.
Notation item := (bits * D0)%type.
Notation dest := (bits * D1)%type.

(* the items branch matching bit i: `matchingItemsBranch` *)
Definition matching_items (items : trie D0) (depth : nat) (i : bool) : res (option (trie D0)) :=
  let fallback : res (option (trie D0)) :=
    match items with
    | L ik _ => b <- bit_at ik depth ;; if Bool.eqb b i then Ok (Some items) else Ok None
    | _ => Ok None
    end in
  match branch items i with
  | Some br => if is_empty_leaf br then fallback else Ok (Some br)
  | None => fallback
  end.

(* one iteration of `for i := range 2`, the recursive calls abstracted *)
Definition alloc_step (dz : D0) (rec : trie D1 -> trie D0 -> nat -> nat -> res (alloc_out D0 D1))
    (d0 d1 : trie D1) (items : trie D0) (k depth : nat) (i : bool) : res (alloc_out D0 D1) :=
  let same_count := size (child d0 d1 i) in
  let other_count := size (child d0 d1 (negb i)) in
  m <- matching_items items depth i ;;
  match m with
  | None => Ok []
  | Some mi =>
      if same_count <=? k then
        vals <- all_values mi zero_key ;;
        let batch := match vals with
                     | [] => [match items with L _ d => d | _ => dz end]
                     | _ => vals end in
        sv <- dest_values (child d0 d1 i) ;;
        let out1 := map (fun d => (d, batch)) sv in
        if Nat.eqb same_count k || Nat.eqb other_count 0 then Ok out1
        else
          let missing := k - same_count in
          if other_count <=? missing then
            ov <- dest_values (child d0 d1 (negb i)) ;;
            Ok (out1 ++ map (fun d => (d, batch)) ov)
          else
            r <- rec (child d0 d1 (negb i)) mi missing (S depth) ;;
            Ok (out1 ++ r)
      else rec (child d0 d1 i) mi k (S depth)
  end.

Lemma alloc_at_Nd dz (d0 d1 : trie D1) (items : trie D0) k depth :
  alloc_at dz (Nd d0 d1) items k depth =
  if Nat.eqb k 0 then Ok []
  else r0 <- alloc_step dz (alloc_at dz) d0 d1 items k depth false ;;
       r1 <- alloc_step dz (alloc_at dz) d0 d1 items k depth true ;; Ok (r0 ++ r1).
Proof. reflexivity. Qed.

(* the entries of the items trie whose key has bit i at [depth] *)
Definition matched (items : trie D0) (depth : nat) (i : bool) : list item :=
  match items with
  | E => []
  | L ik d => match nth_error ik depth with
              | Some b => if Bool.eqb b i then [(ik, d)] else []
              | None => []
              end
  | Nd i0 i1 => entries (child i0 i1 i)
  end.

Lemma matched_cover (items : trie D0) depth :
  (forall it, In it (entries items) -> depth < length (fst it)) ->
  entries items = matched items depth false ++ matched items depth true.
Proof.
  intro H. destruct items as [|ik d|i0 i1]; simpl; try reflexivity.
  specialize (H (ik, d) (or_introl eq_refl)). simpl in H.
  destruct (nth_error ik depth) as [b|] eqn:E1.
  - destruct b; reflexivity.
  - apply nth_error_None in E1. lia.
Qed.

Lemma firstn_is_prefix n (k : bits) : is_prefix (firstn n k) k = true.
Proof.
  revert k; induction n as [|n IH]; intros [|x k]; simpl; try reflexivity.
  rewrite eqb_reflx. simpl. apply IH.
Qed.

Lemma matching_items_spec (items : trie D0) q depth i :
  wf_at q items -> length q = depth ->
  (forall it, In it (entries items) -> depth < length (fst it)) ->
  exists m, matching_items items depth i = Ok m /\
    match m with
    | None => matched items depth i = []
    | Some mi => entries mi = matched items depth i /\ mi <> E /\
                 (exists q', length q' = S depth /\ wf_at q' mi) /\
                 height mi <= height items /\
                 (forall e, In e (entries mi) -> nth_error (fst e) depth = Some i)
    end.
Proof.
  intros Hw Hq Hl. destruct items as [|ik d|i0 i1]; unfold matching_items; simpl.
  - exists None. auto.
  - specialize (Hl (ik, d) (or_introl eq_refl)). simpl in Hl.
    destruct (bit_at_lt ik depth Hl) as [b [Hb Hn]]. rewrite Hb, Hn. simpl.
    destruct (Bool.eqb b i) eqn:Eb.
    + exists (Some (L ik d)). split; [reflexivity|]. apply eqb_prop in Eb. subst b.
      repeat split; auto; try discriminate.
      * exists (firstn (S depth) ik). split; [apply firstn_length_le; lia|]. cbn [wf_at]. apply firstn_is_prefix.
      * intros e [<-|[]]. exact Hn.
    + exists None. auto.
  - pose proof (wf_at_child q i0 i1 i Hw) as Wc.
    destruct (child i0 i1 i) eqn:Ec; simpl.
    + exists None. split; reflexivity.
    + exists (Some (L k d)). split; [reflexivity|]. repeat split; auto; try discriminate.
      * exists (q ++ [i]). split; [rewrite app_length; simpl; lia|exact Wc].
      * pose proof (height_child i0 i1 i). rewrite Ec in H. simpl in *. lia.
      * intros e [<-|[]]. simpl in *. apply is_prefix_snoc in Wc as [_ Wc]. congruence.
    + exists (Some (Nd t1 t2)). split; [reflexivity|]. repeat split; auto; try discriminate.
      * exists (q ++ [i]). split; [rewrite app_length; simpl; lia|exact Wc].
      * pose proof (height_child i0 i1 i). rewrite Ec in H. simpl in *. lia.
      * intros e He. pose proof (wf_at_entries_prefix _ _ _ Wc He) as P.
        apply is_prefix_snoc in P as [_ P]. congruence.
Qed.

Lemma dest_values_perm (t : trie D1) : height t <= 256 ->
  exists vs, dest_values t = Ok vs /\ Permutation vs (map snd (entries t)).
Proof.
  intro H. unfold dest_values. destruct (is_empty_leaf t) eqn:Ee.
  - destruct t; try discriminate. exists []. split; [reflexivity|constructor].
  - apply all_values_perm. exact H.
Qed.

Lemma NoDup_entries p (t : trie D1) : wf_at p t -> NoDup (entries t).
Proof. intro H. apply (NoDup_map_inv fst). apply (wf_NoDup_keys p). exact H. Qed.

Lemma alloc_ok_trivial r (its : list item) (des : list dest) :
  Nat.min r (length des) = 0 -> alloc_ok r its des [].
Proof.
  intro H. exists (map (fun _ => []) its). split.
  - induction its; simpl; constructor; auto. apply nearest_none. exact H.
  - induction its; simpl; auto.
Qed.

(* the invariant of one iteration, given the invariant of the recursive calls *)
Lemma alloc_step_spec dz rec (d0 d1 : trie D1) p (items : trie D0) q k depth i :
  wf_at p (Nd d0 d1) -> length p = depth ->
  wf_at q items -> length q = depth ->
  height items <= 256 -> height (Nd d0 d1) <= 256 ->
  (forall it, In it (entries items) -> height (Nd d0 d1) + depth <= length (fst it)) ->
  0 < k ->
  (forall b items' q' k',
      wf_at q' items' -> length q' = S depth -> height items' <= 256 ->
      (forall it, In it (entries items') -> height (child d0 d1 b) + S depth <= length (fst it)) ->
      exists out, rec (child d0 d1 b) items' k' (S depth) = Ok out /\
                  alloc_ok k' (entries items') (entries (child d0 d1 b)) (pairs out)) ->
  exists out, alloc_step dz rec d0 d1 items k depth i = Ok out /\
              alloc_ok k (matched items depth i) (entries (Nd d0 d1)) (pairs out).
Proof.
  intros Wd Hp Wi Hq Hi Hd Hlen Hk IH.
  assert (Hlt : forall it, In it (entries items) -> depth < length (fst it)).
  { intros it Hit. specialize (Hlen it Hit). simpl in Hlen. lia. }
  unfold alloc_step.
  destruct (matching_items_spec items q depth i Wi Hq Hlt) as [m [Em Hm]]. rewrite Em. cbn [bind].
  destruct m as [mi|].
  2: { exists []. split; [reflexivity|]. rewrite Hm. apply alloc_ok_nil. }
  destruct Hm as [Emi [Hne [[q' [Hq' Wq']] [Hh Hbit]]]]. rewrite <- Emi.
  set (A := entries (child d0 d1 i)). set (B := entries (child d0 d1 (negb i))).
  assert (WA : wf_at (p ++ [i]) (child d0 d1 i)) by (apply wf_at_child; exact Wd).
  assert (WB : wf_at (p ++ [negb i]) (child d0 d1 (negb i))) by (apply wf_at_child; exact Wd).
  assert (Cl : forall it a b, In it (entries mi) -> In a A -> In b B -> closer (fst it) (fst a) (fst b)).
  { intros it a b Hit Ha Hb. apply (closer_split p _ _ _ i).
    - apply (wf_at_entries_prefix _ _ _ WA Ha).
    - apply (wf_at_entries_prefix _ _ _ WB Hb).
    - rewrite Hp. apply Hbit. exact Hit. }
  assert (PermDes : Permutation (A ++ B) (entries (Nd d0 d1))).
  { subst A B. destruct i; simpl; [apply Permutation_app_comm|apply Permutation_refl]. }
  assert (ND : NoDup (A ++ B)).
  { eapply Permutation_NoDup; [apply Permutation_sym; exact PermDes|]. apply (NoDup_entries p). exact Wd. }
  assert (HhA : height (child d0 d1 i) <= 256) by (pose proof (height_child d0 d1 i); lia).
  assert (HhB : height (child d0 d1 (negb i)) <= 256) by (pose proof (height_child d0 d1 (negb i)); lia).
  assert (Hmi256 : height mi <= 256) by lia.
  assert (Hlen' : forall b it, In it (entries mi) -> height (child d0 d1 b) + S depth <= length (fst it)).
  { intros b it Hit. assert (In it (entries items)).
    { rewrite (matched_cover items depth Hlt). rewrite Emi in Hit. apply in_or_app. destruct i; auto. }
    specialize (Hlen it H). pose proof (height_child d0 d1 b). lia. }
  rewrite (size_entries (child d0 d1 i)), (size_entries (child d0 d1 (negb i))). fold A B.
  destruct (length A <=? k) eqn:Esame.
  - apply Nat.leb_le in Esame.
    destruct (all_values_perm mi Hmi256) as [vals [Ev Pv]]. rewrite Ev. cbn [bind].
    assert (Vne : vals <> []).
    { intro X. subst vals. apply Permutation_nil in Pv. apply map_eq_nil in Pv.
      apply (wf_positive_entries q' mi Wq' Hne). exact Pv. }
    assert (Eb : match vals with [] => [match items with L _ d => d | _ => dz end] | _ :: _ => vals end = vals)
      by (destruct vals; [congruence|reflexivity]).
    rewrite Eb.
    destruct (dest_values_perm (child d0 d1 i) HhA) as [sv [Es Ps]]. rewrite Es. cbn [bind]. fold A in Ps.
    destruct (Nat.eqb (length A) k || Nat.eqb (length B) 0) eqn:Edone.
    + (* the same-side destinations are all that is wanted / all there is *)
      exists (map (fun d => (d, vals)) sv). split; [reflexivity|]. rewrite pairs_batch.
      apply (alloc_ok_perm_des _ _ (A ++ B)); [exact PermDes|].
      replace (prod sv vals) with (prod sv vals ++ []) by apply app_nil_r.
      apply alloc_ok_lift_other; auto.
      apply alloc_ok_trivial. apply orb_true_iff in Edone as [X|X]; apply Nat.eqb_eq in X; lia.
    + apply orb_false_iff in Edone as [X1 X2]. apply Nat.eqb_neq in X1. apply Nat.eqb_neq in X2.
      destruct (length B <=? k - length A) eqn:Eother.
      * apply Nat.leb_le in Eother.
        destruct (dest_values_perm (child d0 d1 (negb i)) HhB) as [ov [Eo Po]]. rewrite Eo. cbn [bind]. fold B in Po.
        exists (map (fun d => (d, vals)) sv ++ map (fun d => (d, vals)) ov). split; [reflexivity|].
        rewrite pairs_app, !pairs_batch.
        apply (alloc_ok_perm_des _ _ (A ++ B)); [exact PermDes|].
        apply alloc_ok_lift_other; auto.
        apply (alloc_ok_batch _ _ _ B); auto.
        intros it _. apply nearest_all; [eapply NoDup_app_r; exact ND|exact Eother].
      * apply Nat.leb_gt in Eother.
        destruct (IH (negb i) mi q' (k - length A) Wq' Hq' Hmi256 (Hlen' (negb i))) as [r [Er Ar]].
        rewrite Er. cbn [bind].
        exists (map (fun d => (d, vals)) sv ++ r). split; [reflexivity|].
        rewrite pairs_app, pairs_batch.
        apply (alloc_ok_perm_des _ _ (A ++ B)); [exact PermDes|].
        apply alloc_ok_lift_other; auto.
  - apply Nat.leb_gt in Esame.
    destruct (IH i mi q' k Wq' Hq' Hmi256 (Hlen' i)) as [r [Er Ar]]. rewrite Er.
    exists r. split; [reflexivity|].
    apply (alloc_ok_perm_des _ _ (A ++ B)); [exact PermDes|].
    apply alloc_ok_lift_same; auto. lia.
Qed.

Lemma alloc_at_spec dz (dests : trie D1) : forall p (items : trie D0) q k depth,
  wf_at p dests -> length p = depth ->
  wf_at q items -> length q = depth ->
  height items <= 256 -> height dests <= 256 ->
  (forall it, In it (entries items) -> height dests + depth <= length (fst it)) ->
  exists out, alloc_at dz dests items k depth = Ok out /\
              alloc_ok k (entries items) (entries dests) (pairs out).
Proof.
  induction dests as [|kd dest|d0 IH0 d1 IH1]; intros p items q k depth Wd Hp Wi Hq Hi Hd Hlen.
  - exists []. split; [simpl; destruct (Nat.eqb k 0); reflexivity|].
    apply alloc_ok_trivial. simpl. lia.
  - simpl. destruct (Nat.eqb k 0) eqn:Ek.
    + apply Nat.eqb_eq in Ek. subst k. exists []. split; [reflexivity|]. apply alloc_ok_trivial. reflexivity.
    + apply Nat.eqb_neq in Ek.
      destruct (all_values_perm items Hi) as [vals [Ev Pv]]. rewrite Ev. simpl.
      exists [(dest, vals)]. split; [reflexivity|].
      unfold pairs. simpl. rewrite app_nil_r.
      replace (map (fun v => (dest, v)) vals) with (prod [dest] vals) by (unfold prod; simpl; apply app_nil_r).
      apply (alloc_ok_batch _ _ _ [(kd, dest)]); auto.
      intros it _. apply nearest_all; [constructor; [intros []|constructor]|simpl; lia].
  - rewrite alloc_at_Nd. destruct (Nat.eqb k 0) eqn:Ek.
    + apply Nat.eqb_eq in Ek. subst k. exists []. split; [reflexivity|]. apply alloc_ok_trivial. reflexivity.
    + apply Nat.eqb_neq in Ek.
      assert (IH : forall b items' q' k',
        wf_at q' items' -> length q' = S depth -> height items' <= 256 ->
        (forall it, In it (entries items') -> height (child d0 d1 b) + S depth <= length (fst it)) ->
        exists out, alloc_at dz (child d0 d1 b) items' k' (S depth) = Ok out /\
                    alloc_ok k' (entries items') (entries (child d0 d1 b)) (pairs out)).
      { intros b items' q' k' W' Hq' Hi' Hl'.
        pose proof (wf_at_child p d0 d1 b Wd) as Wc. pose proof (height_child d0 d1 b) as Hc.
        destruct b; simpl child in *.
        - apply (IH1 (p ++ [true]) items' q'); auto; try (rewrite app_length; simpl; lia); lia.
        - apply (IH0 (p ++ [false]) items' q'); auto; try (rewrite app_length; simpl; lia); lia. }
      assert (Hlt : forall it, In it (entries items) -> depth < length (fst it)).
      { intros it Hit. specialize (Hlen it Hit). simpl in Hlen. lia. }
      destruct (alloc_step_spec dz (alloc_at dz) d0 d1 p items q k depth false Wd Hp Wi Hq Hi Hd Hlen ltac:(lia) IH)
        as [r0 [E0 A0]].
      destruct (alloc_step_spec dz (alloc_at dz) d0 d1 p items q k depth true Wd Hp Wi Hq Hi Hd Hlen ltac:(lia) IH)
        as [r1 [E1 A1]].
      rewrite E0. cbn [bind]. rewrite E1. cbn [bind].
      exists (r0 ++ r1). split; [reflexivity|].
      rewrite pairs_app. rewrite (matched_cover items depth Hlt). apply alloc_ok_app; assumption.
Qed.

(* AllocateToKClosest: for well-formed tries at most 256 deep whose item keys are at least as
   long as the destinations trie is deep (all keys 256 bits in every caller), the call does not
   panic and allocates every item to exactly min(r, |dests|) distinct destinations, the nearest
   ones in XOR distance, once each. *)
Theorem alloc_exact dz (items : trie D0) (dests : trie D1) r :
  wf items -> wf dests -> height items <= 256 -> height dests <= 256 ->
  (forall it, In it (entries items) -> height dests <= length (fst it)) ->
  exists out, allocate_to_k_closest dz items dests r = Ok out /\
              alloc_ok r (entries items) (entries dests) (pairs out).
Proof.
  intros Wi Wd Hi Hd Hl. unfold allocate_to_k_closest.
  destruct (is_empty_leaf dests || is_empty_leaf items || Nat.eqb r 0) eqn:Eg.
  - exists []. split; [reflexivity|].
    apply orb_true_iff in Eg as [Eg|Eg]; [apply orb_true_iff in Eg as [Eg|Eg]|].
    + destruct dests; try discriminate. apply alloc_ok_trivial. simpl. lia.
    + destruct items; try discriminate. apply alloc_ok_nil.
    + apply Nat.eqb_eq in Eg. subst r. apply alloc_ok_trivial. reflexivity.
  - apply (alloc_at_spec dz dests [] items [] r 0); auto.
    intros it Hit. specialize (Hl it Hit). lia.
Qed.

Lemma wf_height_le {D} (t : trie D) n :
  wf t -> (forall e, In e (entries t) -> length (fst e) <= n) -> height t <= n.
Proof.
  intros Hw Hn. destruct t as [|k d|t0 t1] eqn:Et; [simpl; lia|simpl; lia|].
  rewrite <- Et in *. pose proof (wf_height t [] n Hw Hn) as H. simpl in H.
  assert (t <> E) by (rewrite Et; discriminate). specialize (H H0). lia.
Qed.

(* the instance used by the provider: all keys have the same length n <= 256 (bit256: n = 256) *)
Corollary alloc_exact_fixed_length dz (items : trie D0) (dests : trie D1) r n :
  wf items -> wf dests -> n <= 256 ->
  (forall it, In it (entries items) -> length (fst it) = n) ->
  (forall de, In de (entries dests) -> length (fst de) = n) ->
  exists out, allocate_to_k_closest dz items dests r = Ok out /\
              alloc_ok r (entries items) (entries dests) (pairs out).
Proof.
  intros Wi Wd Hn Li Ld.
  assert (Hi : height items <= n) by (apply wf_height_le; auto; intros e He; rewrite (Li e He); lia).
  assert (Hd : height dests <= n) by (apply wf_height_le; auto; intros e He; rewrite (Ld e He); lia).
  apply alloc_exact; auto; try lia.
  intros it Hit. rewrite (Li it Hit). exact Hd.
Qed.

End AllocAlgo.
