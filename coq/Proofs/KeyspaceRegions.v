(* RegionsFromPeers / extractMinimalRegions and AssignKeysToRegions (C18). *)
From Verif.Lib Require Import GoSem Bits.
From Verif.Model Require Import Trie Keyspace.
From Verif.Proofs Require Import KeyspaceBase KeyspaceProofs KeyspaceCovered KeyspaceTrie KeyspaceSubtract KeyspaceGaps.
From Coq Require Import Permutation Sorted.

Section Regions.
Context {D : Type}.
Notation ent := (bits * D)%type.
Notation region := (bits * trie D)%type.

(* what extractMinimalRegions guarantees for the subtrie t at path `path` *)
Record regions_ok (sz : nat) (order : bits) (path : bits) (t : trie D) (R : list region) : Prop := {
  (* every peer in exactly one region *)
  ro_partition : Permutation (flat_map (fun r => entries (snd r)) R) (entries t);
  (* a region is the well-formed, non-empty subtrie at its prefix, below the path *)
  ro_region : forall q s, In (q, s) R -> wf_at q s /\ s <> E /\ is_prefix path q = true;
  (* the prefixes, in the order, pairwise non-comparable *)
  ro_sorted : StronglySorted (fun r1 r2 => ord_before order (fst r1) (fst r2)) R;
  (* the prefixes tile the path *)
  ro_tile : t <> E -> covers (map fst R) path;
  (* every region has at least sz peers whenever the total allows; otherwise there is one region *)
  ro_size : sz <= size t -> forall q s, In (q, s) R -> sz <= size s;
  ro_single : size t < sz -> t <> E -> R = [(path, t)];
  (* minimal: no region splits into two halves of at least sz *)
  ro_minimal : forall q a b, In (q, Nd a b) R -> ~ (sz <= size a /\ sz <= size b)
}.

Lemma covers_nonempty K p : covers K p -> exists k, In k K.
Proof.
  intro C. destruct (C (pad p (maxl K))) as [k [Hk _]].
  - unfold pad. apply is_prefix_app.
  - intros k Hk. rewrite pad_length. pose proof (maxl_le K k Hk). lia.
  - exists k. exact Hk.
Qed.

Lemma covers_split path K0 K1 :
  covers K0 (path ++ [false]) -> covers K1 (path ++ [true]) ->
  (forall k, In k (K0 ++ K1) -> length path < length k) ->
  covers (K0 ++ K1) path.
Proof.
  intros C0 C1 Hl x Hx Hlen.
  destruct (covers_nonempty K0 _ C0) as [k0 Hk0].
  assert (Lx : length path < length x).
  { pose proof (Hl k0 (in_or_app _ _ _ (or_introl Hk0))). pose proof (Hlen k0 (in_or_app _ _ _ (or_introl Hk0))). lia. }
  destruct (bit_at_lt x (length path) Lx) as [b [_ Hb]].
  assert (Hx' : is_prefix (path ++ [b]) x = true) by (apply is_prefix_snoc; auto).
  destruct b.
  - destruct (C1 x Hx') as [k [Hk Pk]]; [intros k Hk; apply Hlen; apply in_or_app; auto|].
    exists k. split; [apply in_or_app; auto|exact Pk].
  - destruct (C0 x Hx') as [k [Hk Pk]]; [intros k Hk; apply Hlen; apply in_or_app; auto|].
    exists k. split; [apply in_or_app; auto|exact Pk].
Qed.

Lemma covers_same_set K K' p : (forall k, In k K <-> In k K') -> covers K p -> covers K' p.
Proof.
  intros H C x Hx Hl. destruct (C x Hx) as [k [Hk Pk]].
  - intros k Hk. apply Hl. apply H. exact Hk.
  - exists k. split; [apply H; exact Hk|exact Pk].
Qed.

Lemma covers_self p : covers [p] p.
Proof. intros x Hx _. exists p. split; [left; reflexivity|exact Hx]. Qed.

Lemma ord_before_children path order b q0 q1 :
  nth_error order (length path) = Some b ->
  is_prefix (path ++ [b]) q0 = true -> is_prefix (path ++ [negb b]) q1 = true -> ord_before order q0 q1.
Proof.
  intros Ho H0 H1. apply is_prefix_snoc in H0 as [A0 B0]. apply is_prefix_snoc in H1 as [A1 B1].
  exists (length path), b. rewrite (is_prefix_firstn _ _ A0), (is_prefix_firstn _ _ A1). auto.
Qed.

Lemma extract_minimal_regions_spec (t : trie D) : forall path sz order,
  wf_at path t -> 1 <= sz ->
  (forall e, In e (entries t) -> length (fst e) <= length order) ->
  exists R, extract_minimal_regions t path sz order = Ok R /\ regions_ok sz order path t R.
Proof.
  induction t as [|k d|t0 IH0 t1 IH1]; intros path sz order Hw Hsz Hlen.
  - exists []. split; [reflexivity|]. constructor.
    + simpl. constructor.
    + intros q s [].
    + constructor.
    + intro H. congruence.
    + intros _ q s [].
    + intros _ H. congruence.
    + intros q a b [].
  - exists [(path, L k d)]. split; [reflexivity|]. constructor; simpl.
    + apply Permutation_refl.
    + intros q s [X|[]]. inversion X; subst. split; [exact Hw|]. split; [discriminate|apply is_prefix_refl].
    + repeat constructor.
    + intros _. apply covers_self.
    + intros H q s [X|[]]. inversion X; subst. exact H.
    + intros _ _. reflexivity.
    + intros q a b [X|[]]. inversion X.
  - cbn [extract_minimal_regions].
    assert (Single : regions_ok sz order path (Nd t0 t1) [(path, Nd t0 t1)] \/ True) by (right; exact I).
    destruct ((sz <=? size t0) && (sz <=? size t1)) eqn:Esplit.
    + apply andb_true_iff in Esplit as [S0 S1]. apply Nat.leb_le in S0. apply Nat.leb_le in S1.
      destruct Hw as [W0 [W1 Pos]].
      (* a key lies below: the order has a bit at this depth *)
      assert (N0 : t0 <> E) by (intro X; subst; simpl in S0; lia).
      assert (N1 : t1 <> E) by (intro X; subst; simpl in S1; lia).
      assert (Lo : length path < length order).
      { destruct (entries t0) as [|e l] eqn:E0; [apply entries_nil_size in E0; lia|].
        assert (He : In e (entries t0)) by (rewrite E0; left; reflexivity).
        pose proof (wf_at_entries_prefix _ _ _ W0 He) as P. apply is_prefix_length in P. rewrite app_length in P. simpl in P.
        specialize (Hlen e). simpl in Hlen. rewrite in_app_iff in Hlen. specialize (Hlen (or_introl He)). lia. }
      destruct (bit_at_lt order (length path) Lo) as [b [Hb Nb]]. rewrite Hb. cbn [bind].
      assert (IHb : forall c, exists R, extract_minimal_regions (child t0 t1 c) (path ++ [c]) sz order = Ok R /\
                                       regions_ok sz order (path ++ [c]) (child t0 t1 c) R).
      { intro c. destruct c; simpl child; [apply IH1|apply IH0]; auto;
          intros e He; apply Hlen; simpl; apply in_or_app; auto. }
      destruct (IHb b) as [Rb [Eb Ob]]. destruct (IHb (negb b)) as [Rn [En On]].
      rewrite Eb. cbn [bind]. rewrite En. cbn [bind].
      exists (Rb ++ Rn). split; [reflexivity|].
      assert (Sb : sz <= size (child t0 t1 b)) by (destruct b; simpl; lia).
      assert (Sn : sz <= size (child t0 t1 (negb b))) by (destruct b; simpl; lia).
      assert (Nb' : child t0 t1 b <> E) by (destruct b; simpl; auto).
      assert (Nn' : child t0 t1 (negb b) <> E) by (destruct b; simpl; auto).
      constructor.
      * rewrite flat_map_app. simpl entries.
        eapply Permutation_trans; [apply Permutation_app; [apply (ro_partition _ _ _ _ _ Ob)|apply (ro_partition _ _ _ _ _ On)]|].
        destruct b; simpl; [apply Permutation_app_comm|apply Permutation_refl].
      * intros q s Hin. apply in_app_or in Hin as [Hin|Hin].
        -- destruct (ro_region _ _ _ _ _ Ob q s Hin) as [A [B C]]. split; [exact A|]. split; [exact B|].
           eapply is_prefix_snoc_l. eapply is_prefix_trans; [|exact C]. apply is_prefix_refl.
        -- destruct (ro_region _ _ _ _ _ On q s Hin) as [A [B C]]. split; [exact A|]. split; [exact B|].
           eapply is_prefix_snoc_l. eapply is_prefix_trans; [|exact C]. apply is_prefix_refl.
      * (* sorted: Rb before Rn *)
        pose proof (ro_sorted _ _ _ _ _ Ob) as SSb. pose proof (ro_sorted _ _ _ _ _ On) as SSn.
        assert (Cross : forall r1 r2, In r1 Rb -> In r2 Rn -> ord_before order (fst r1) (fst r2)).
        { intros [q1 s1] [q2 s2] H1 H2. simpl.
          destruct (ro_region _ _ _ _ _ Ob q1 s1 H1) as [_ [_ P1]].
          destruct (ro_region _ _ _ _ _ On q2 s2 H2) as [_ [_ P2]].
          apply (ord_before_children path order b); assumption. }
        clear - SSb SSn Cross. induction Rb as [|r Rb IH]; simpl; [exact SSn|].
        inversion SSb; subst. constructor.
        -- apply IH; auto. intros; apply Cross; auto. right; assumption.
        -- apply Forall_app. split; [assumption|]. apply Forall_forall. intros r2 Hr2. apply Cross; [left; reflexivity|exact Hr2].
      * intros _. rewrite map_app.
        assert (Cb := ro_tile _ _ _ _ _ Ob Nb'). assert (Cn := ro_tile _ _ _ _ _ On Nn').
        assert (Longer : forall (R : list region) c, (forall q s, In (q, s) R -> is_prefix (path ++ [c]) q = true) ->
                                     forall k, In k (map fst R) -> length path < length k).
        { intros R c HR k Hk. apply in_map_iff in Hk as [[q s] [<- Hin]]. simpl.
          pose proof (HR q s Hin) as P. apply is_prefix_length in P. rewrite app_length in P. simpl in P. lia. }
        destruct b; simpl in *.
        -- apply (covers_same_set (map fst Rn ++ map fst Rb)); [intro k; rewrite !in_app_iff; tauto|].
           apply covers_split; auto. intros k Hk. apply in_app_or in Hk as [Hk|Hk].
           ++ apply (Longer Rn false); [|exact Hk]. intros q s Hin. apply (ro_region _ _ _ _ _ On q s Hin).
           ++ apply (Longer Rb true); [|exact Hk]. intros q s Hin. apply (ro_region _ _ _ _ _ Ob q s Hin).
        -- apply covers_split; auto. intros k Hk. apply in_app_or in Hk as [Hk|Hk].
           ++ apply (Longer Rb false); [|exact Hk]. intros q s Hin. apply (ro_region _ _ _ _ _ Ob q s Hin).
           ++ apply (Longer Rn true); [|exact Hk]. intros q s Hin. apply (ro_region _ _ _ _ _ On q s Hin).
      * intros _ q s Hin. apply in_app_or in Hin as [Hin|Hin].
        -- apply (ro_size _ _ _ _ _ Ob Sb q s Hin).
        -- apply (ro_size _ _ _ _ _ On Sn q s Hin).
      * intros H. simpl in H. lia.
      * intros q a c Hin. apply in_app_or in Hin as [Hin|Hin].
        -- apply (ro_minimal _ _ _ _ _ Ob q a c Hin).
        -- apply (ro_minimal _ _ _ _ _ On q a c Hin).
    + exists [(path, Nd t0 t1)]. split; [reflexivity|]. constructor; simpl.
      * rewrite app_nil_r. apply Permutation_refl.
      * intros q s [X|[]]. inversion X; subst. split; [exact Hw|]. split; [discriminate|apply is_prefix_refl].
      * repeat constructor.
      * intros _. apply covers_self.
      * intros H q s [X|[]]. inversion X; subst. exact H.
      * intros _ _. reflexivity.
      * intros q a b [X|[]]. inversion X; subst. intros [A B].
        apply Nat.leb_le in A. apply Nat.leb_le in B. rewrite A, B in Esplit. discriminate.
Qed.

(* the navigation loop of RegionsFromPeers: when every peer matches the covered prefix, it ends on
   the (non-empty) subtrie holding all the peers, well formed at the covered prefix *)
Lemma navigate_spec (cov : bits) : forall (t : trie D) p,
  wf_at p t -> t <> E -> (forall e, In e (entries t) -> is_prefix (p ++ cov) (fst e) = true) ->
  exists t', navigate t cov = Some t' /\ wf_at (p ++ cov) t' /\ entries t' = entries t /\ t' <> E.
Proof.
  induction cov as [|b cov IH]; intros t p Hw Hne Hall.
  - exists t. rewrite app_nil_r. simpl. auto.
  - destruct t as [|k d|t0 t1]; [congruence| |].
    + exists (L k d). simpl. split; [reflexivity|]. split; [apply (Hall (k, d)); left; reflexivity|]. split; [reflexivity|discriminate].
    + cbn [navigate].
      (* every entry lies in branch b: the other branch is empty *)
      assert (Other : child t0 t1 (negb b) = E).
      { apply (wf_size0 (p ++ [negb b])); [apply wf_at_child; exact Hw|].
        apply entries_nil_size. destruct (entries (child t0 t1 (negb b))) as [|e l] eqn:E1; [reflexivity|]. exfalso.
        assert (He : In e (entries (child t0 t1 (negb b)))) by (rewrite E1; left; reflexivity).
        pose proof (wf_at_entries_prefix _ _ _ (wf_at_child p t0 t1 (negb b) Hw) He) as P1.
        assert (Hin : In e (entries (Nd t0 t1))) by (simpl; apply in_or_app; destruct b; simpl in He; auto).
        pose proof (Hall e Hin) as P2.
        assert (P3 : is_prefix (p ++ [b]) (fst e) = true).
        { eapply is_prefix_trans; [|exact P2]. rewrite is_prefix_app_iff. simpl. rewrite eqb_reflx. reflexivity. }
        pose proof (other_branch_incomparable p b (fst e) (fst e) P3 P1) as C.
        unfold comparable in C. rewrite is_prefix_refl in C. discriminate. }
      assert (Same : entries (child t0 t1 b) = entries (Nd t0 t1)).
      { simpl. destruct b; simpl in *; subst; [reflexivity|rewrite app_nil_r; reflexivity]. }
      assert (Nc : child t0 t1 b <> E).
      { intro X. destruct Hw as [_ [_ Pos]]. destruct b; simpl in *; subst; simpl in Pos; lia. }
      destruct (IH (child t0 t1 b) (p ++ [b])) as [t' [E1 [W' [En N']]]].
      * apply wf_at_child. exact Hw.
      * exact Nc.
      * intros e He. rewrite <- app_assoc. simpl. apply Hall. rewrite <- Same. exact He.
      * exists t'. rewrite <- app_assoc in W'. simpl in W'.
        split; [|split; [exact W'|split; [rewrite En; exact Same|exact N']]].
        destruct (child t0 t1 b) eqn:Ec; [congruence| |]; exact E1.
Qed.

(* RegionsFromPeers for distinct peers of one key length n that all match the covered prefix, an
   order at least n long and a region size of at least one: no panic; the regions partition the
   peers, their prefixes tile the covered prefix without overlap and come in the order, every
   region has at least `sz` peers when there are that many, and no region could be split *)
Theorem regions_partition (peers : list ent) sz order covered n :
  peers <> [] -> NoDup (map fst peers) -> (forall e, In e peers -> length (fst e) = n) ->
  n <= length order -> 1 <= sz -> (forall e, In e peers -> is_prefix covered (fst e) = true) ->
  exists R t, regions_from_peers peers sz order covered = Ok R /\
    wf_at covered t /\ (forall e, In e (entries t) <-> In e peers) /\ regions_ok sz order covered t R.
Proof.
  intros Hne ND Hn Ho Hsz Hcov. unfold regions_from_peers.
  destruct peers as [|e0 rest] eqn:Ep; [congruence|]. rewrite <- Ep in *. clear Hne.
  destruct (add_all_spec E peers I ND) as [t [E1 [W A]]].
  - (* distinct keys of one length are not comparable *)
    intros a b Ha Hb Hc. rewrite app_nil_r in Ha, Hb.
    apply in_map_iff in Ha as [ea [<- Ha]]. apply in_map_iff in Hb as [eb [<- Hb]].
    unfold comparable in Hc. apply orb_true_iff in Hc as [Hc|Hc].
    + apply is_prefix_same_length; [exact Hc|]. rewrite (Hn ea Ha), (Hn eb Hb). reflexivity.
    + symmetry. apply is_prefix_same_length; [exact Hc|]. rewrite (Hn ea Ha), (Hn eb Hb). reflexivity.
  - assert (Char : forall e, In e (entries t) <-> In e peers).
    { intro e. rewrite (A e). simpl. unfold keys_of. simpl. tauto. }
    assert (Nt : t <> E).
    { intro X. subst t. assert (In e0 (entries (@E D))) by (apply Char; rewrite Ep; left; reflexivity). contradiction. }
    destruct (navigate_spec covered t [] W Nt) as [t' [E2 [W' [En N']]]].
    { intros e He. simpl. apply Hcov. apply Char. exact He. }
    simpl in W'.
    destruct (extract_minimal_regions_spec t' covered sz order W' Hsz) as [R [E3 OK]].
    { intros e He. rewrite En in He. apply Char in He. rewrite (Hn e He). exact Ho. }
    exists R, t'. rewrite E1. cbn [bind]. rewrite E2.
    split; [exact E3|]. split; [exact W'|]. split; [|exact OK].
    intro e. rewrite En. apply Char.
Qed.

End Regions.
