(* Lemmas about Model/Keyspace.v (C18): lookup, subtrie, pruning, iteration order. *)
From Verif.Lib Require Import GoSem Bits.
From Verif.Model Require Import Trie Keyspace.
From Verif.Proofs Require Import KeyspaceBase.
From Coq Require Import Permutation Sorted.

(* ---- FindPrefixOfKey --------------------------------------------------------- *)
Lemma find_prefix_at_spec {D} (t : trie D) : forall p k,
  wf_at p t -> is_prefix p k = true ->
  exists x b, find_prefix_at t k (length p) = Ok (x, b) /\
    (b = true -> In x (keys_of t) /\ is_prefix x k = true) /\
    (b = false -> forall y, In y (keys_of t) -> is_prefix y k = false).
Proof.
  induction t as [|k' d|t0 IH0 t1 IH1]; intros p k Hw Hp; simpl.
  - exists [], false. split; [reflexivity|]. split; [discriminate|]. intros _ y [].
  - exists k', (Nat.eqb (cpl k' k) (length k')). split; [reflexivity|].
    rewrite cpl_eqb_is_prefix. unfold keys_of; simpl. split.
    + intro H. split; [left; reflexivity|exact H].
    + intros H y [<-|[]]. exact H.
  - destruct (Nat.eqb (length p) (length k)) eqn:El.
    + apply Nat.eqb_eq in El. pose proof (is_prefix_same_length _ _ Hp El) as ->.
      exists [], false. split; [reflexivity|]. split; [discriminate|].
      intros _ y Hy. destruct (is_prefix y k) eqn:E; [|reflexivity]. exfalso.
      rewrite keys_of_Nd in Hy. destruct Hw as [W0 [W1 _]].
      apply in_app_or in Hy as [Hy|Hy];
        [pose proof (wf_at_keys_prefix _ _ _ W0 Hy) as A|pose proof (wf_at_keys_prefix _ _ _ W1 Hy) as A];
        apply is_prefix_length in A; apply is_prefix_length in E; rewrite app_length in A; simpl in A; lia.
    + apply Nat.eqb_neq in El. pose proof (is_prefix_length _ _ Hp) as Hl.
      destruct (bit_at_lt k (length p)) as [b [Hb Hn]]; [lia|]. rewrite Hb. simpl.
      assert (Hp' : is_prefix (p ++ [b]) k = true) by (apply is_prefix_snoc; auto).
      pose proof (wf_at_child p t0 t1 b Hw) as Wc.
      assert (Hlen : S (length p) = length (p ++ [b])) by (rewrite app_length; simpl; lia).
      rewrite Hlen.
      destruct b; simpl in *.
      * destruct (IH1 _ k Wc Hp') as [x [r [E [A B]]]]. exists x, r. split; [exact E|].
        rewrite keys_of_Nd. split.
        -- intro Hr. destruct (A Hr). split; [apply in_or_app; right|]; assumption.
        -- intros Hr y Hy. apply in_app_or in Hy as [Hy|Hy]; [|apply B; assumption].
           destruct Hw as [W0 _]. pose proof (wf_at_keys_prefix _ _ _ W0 Hy) as P0.
           destruct (is_prefix y k) eqn:Ey; [|reflexivity]. exfalso.
           apply is_prefix_snoc in P0 as [_ P0].
           assert (length p < length y) by (apply nth_error_Some; congruence).
           rewrite <- (is_prefix_nth y k (length p) Ey H) in P0. congruence.
      * destruct (IH0 _ k Wc Hp') as [x [r [E [A B]]]]. exists x, r. split; [exact E|].
        rewrite keys_of_Nd. split.
        -- intro Hr. destruct (A Hr). split; [apply in_or_app; left|]; assumption.
        -- intros Hr y Hy. apply in_app_or in Hy as [Hy|Hy]; [apply B; assumption|].
           destruct Hw as [_ [W1 _]]. pose proof (wf_at_keys_prefix _ _ _ W1 Hy) as P1.
           destruct (is_prefix y k) eqn:Ey; [|reflexivity]. exfalso.
           apply is_prefix_snoc in P1 as [_ P1].
           assert (length p < length y) by (apply nth_error_Some; congruence).
           rewrite <- (is_prefix_nth y k (length p) Ey H) in P1. congruence.
Qed.

(* FindPrefixOfKey never panics on a well-formed trie; it reports a match exactly when some key
   of the trie is a prefix of k, and then returns that key (unique: the trie is prefix-free) *)
Theorem find_prefix_exact {D} (t : trie D) k : wf t ->
  exists x b, find_prefix_of_key t k = Ok (x, b) /\
    (b = true <-> exists y, In y (keys_of t) /\ is_prefix y k = true) /\
    (b = true -> In x (keys_of t) /\ is_prefix x k = true /\
                 forall y, In y (keys_of t) -> is_prefix y k = true -> y = x).
Proof.
  intro Hw. destruct (find_prefix_at_spec t [] k Hw eq_refl) as [x [b [E [A B]]]].
  exists x, b. split; [exact E|]. split.
  - split.
    + intro Hb. exists x. apply A. exact Hb.
    + intros [y [Hy Py]]. destruct b; [reflexivity|]. rewrite (B eq_refl y Hy) in Py. discriminate.
  - intro Hb. destruct (A Hb) as [Hx Px]. split; [exact Hx|]. split; [exact Px|].
    intros y Hy Py.
    unfold keys_of in Hx, Hy. apply in_map_iff in Hx as [ex [<- Hex]]. apply in_map_iff in Hy as [ey [<- Hey]].
    (* two prefixes of k are comparable; the trie is prefix-free *)
    pose proof (prefixes_of_same_comparable _ _ _ Py Px) as C. unfold comparable in C.
    apply orb_true_iff in C as [C|C].
    + f_equal. eapply wf_prefix_free; eauto.
    + f_equal. symmetry. eapply wf_prefix_free; eauto.
Qed.

(* ---- FindSubtrie ------------------------------------------------------------- *)
Definition under {D} (k : bits) (e : bits * D) : bool := is_prefix k (fst e).

Lemma wf_positive_entries {D} p (t : trie D) : wf_at p t -> t <> E -> entries t <> [].
Proof.
  intros Hw Hne He. apply entries_nil_size in He. apply (wf_size0 p) in He; auto.
Qed.

Lemma filter_all {A} (f : A -> bool) l : (forall x, In x l -> f x = true) -> filter f l = l.
Proof.
  induction l as [|a l IH]; simpl; intro H; [reflexivity|].
  rewrite (H a (or_introl eq_refl)). f_equal. apply IH. intros x Hx. apply H. right. exact Hx.
Qed.
Lemma filter_none {A} (f : A -> bool) l : (forall x, In x l -> f x = false) -> filter f l = [].
Proof.
  induction l as [|a l IH]; simpl; intro H; [reflexivity|].
  rewrite (H a (or_introl eq_refl)). apply IH. intros x Hx. apply H. right. exact Hx.
Qed.

(* entries under a prefix q that extends the path of the node by bit b are those of child b *)
Lemma filter_under_child {D} p (t0 t1 : trie D) b q :
  wf_at p (Nd t0 t1) -> is_prefix (p ++ [b]) q = true ->
  filter (under q) (entries (Nd t0 t1)) = filter (under q) (entries (child t0 t1 b)).
Proof.
  intros [W0 [W1 _]] Hq. simpl. rewrite filter_app.
  destruct b; simpl.
  - rewrite (filter_none _ (entries t0)); [reflexivity|].
    intros e He. unfold under. destruct (is_prefix q (fst e)) eqn:E; [|reflexivity]. exfalso.
    pose proof (wf_at_entries_prefix _ _ _ W0 He) as A.
    pose proof (is_prefix_trans _ _ _ Hq E) as B.
    destruct (siblings_incomparable p (fst e) (fst e) A B) as [C _]. rewrite is_prefix_refl in C. discriminate.
  - rewrite (filter_none _ (entries t1)); [apply app_nil_r|].
    intros e He. unfold under. destruct (is_prefix q (fst e)) eqn:E; [|reflexivity]. exfalso.
    pose proof (wf_at_entries_prefix _ _ _ W1 He) as A.
    pose proof (is_prefix_trans _ _ _ Hq E) as B.
    destruct (siblings_incomparable p (fst e) (fst e) B A) as [C _]. rewrite is_prefix_refl in C. discriminate.
Qed.

Lemma find_subtrie_loop_spec {D} (root : trie D) (br : trie D) : forall p k,
  wf_at p br -> is_prefix p k = true ->
  exists s ok, find_subtrie_loop root br k (length p) = Ok (s, ok) /\
    (ok = true -> entries s = filter (under k) (entries br) /\ entries s <> [] /\ exists q, wf_at q s) /\
    (ok = false -> filter (under k) (entries br) = []).
Proof.
  induction br as [|k' d|t0 IH0 t1 IH1]; intros p k Hw Hp.
  - simpl. destruct (Nat.eqb (length p) (length k)).
    + exists E, false. simpl. repeat split; try discriminate; reflexivity.
    + exists root, false. simpl. repeat split; try discriminate; reflexivity.
  - cbn [find_subtrie_loop]. destruct (Nat.eqb (length p) (length k)) eqn:El.
    + apply Nat.eqb_eq in El. pose proof (is_prefix_same_length _ _ Hp El) as ->.
      exists (L k' d), true. simpl in Hw. simpl. unfold under; simpl. rewrite Hw.
      repeat split; try discriminate. exists k. exact Hw.
    + exists (L k' d), (Nat.eqb (cpl k' k) (length k)). split; [reflexivity|].
      rewrite cpl_eqb_is_prefix_r. simpl. unfold under; simpl. destruct (is_prefix k k') eqn:E.
      * repeat split; try discriminate. exists p. exact Hw.
      * split; [discriminate|reflexivity].
  - cbn [find_subtrie_loop]. destruct (Nat.eqb (length p) (length k)) eqn:El.
    + apply Nat.eqb_eq in El. pose proof (is_prefix_same_length _ _ Hp El) as ->.
      exists (Nd t0 t1), true. split; [reflexivity|]. split; [|discriminate]. intros _.
      split; [|split].
      * symmetry. apply filter_all. intros e He. apply (wf_at_entries_prefix _ _ _ Hw He).
      * apply (wf_positive_entries k); [exact Hw|discriminate].
      * exists k. exact Hw.
    + apply Nat.eqb_neq in El. pose proof (is_prefix_length _ _ Hp) as Hl.
      destruct (bit_at_lt k (length p)) as [b [Hb Hn]]; [lia|]. rewrite Hb. cbn [bind].
      assert (Hp' : is_prefix (p ++ [b]) k = true) by (apply is_prefix_snoc; auto).
      pose proof (wf_at_child p t0 t1 b Hw) as Wc.
      assert (Hlen : S (length p) = length (p ++ [b])) by (rewrite app_length; simpl; lia).
      rewrite Hlen. rewrite (filter_under_child p t0 t1 b k Hw Hp').
      destruct b; simpl child in *.
      * apply (IH1 _ k Wc Hp').
      * apply (IH0 _ k Wc Hp').
Qed.

(* FindSubtrie never panics on a well-formed trie; ok iff some key has k as prefix; the subtrie
   returned then holds exactly the entries whose key has k as prefix, in the same order *)
Theorem find_subtrie_exact {D} (t : trie D) k : wf t ->
  exists s ok, find_subtrie t k = Ok (s, ok) /\
    (ok = true <-> exists e, In e (entries t) /\ is_prefix k (fst e) = true) /\
    (ok = true -> entries s = filter (under k) (entries t) /\ exists q, wf_at q s).
Proof.
  intro Hw. unfold find_subtrie. destruct (is_empty_leaf t) eqn:Ee.
  - destruct t; try discriminate. exists E, false. split; [reflexivity|]. split; [|discriminate].
    split; [discriminate|]. intros [e [[] _]].
  - destruct (find_subtrie_loop_spec t t [] k Hw eq_refl) as [s [ok [E1 [A B]]]].
    exists s, ok. split; [exact E1|]. split.
    + split.
      * intro Hok. destruct (A Hok) as [Es [Hne _]]. rewrite Es in Hne.
        destruct (filter (under k) (entries t)) as [|e l] eqn:F; [congruence|].
        exists e. assert (In e (filter (under k) (entries t))) by (rewrite F; left; reflexivity).
        apply filter_In in H. exact H.
      * intros [e [He Pe]]. destruct ok; [reflexivity|]. specialize (B eq_refl).
        assert (In e (filter (under k) (entries t))) by (apply filter_In; split; assumption).
        rewrite B in H. contradiction.
    + intro Hok. destruct (A Hok) as [Es [_ Hq]]. split; assumption.
Qed.

(* ---- PruneSubtrie ------------------------------------------------------------ *)
Lemma set_child_entries {D} (t0 t1 c : trie D) b :
  entries (set_child t0 t1 b c) = if b then entries t0 ++ entries c else entries c ++ entries t1.
Proof. destruct b; reflexivity. Qed.

Lemma prune_at_spec {D} (t : trie D) : forall p k,
  wf_at p t -> is_prefix p k = true ->
  exists t' b, prune_at t k (length p) = Ok (t', b) /\ wf_at p t' /\
    entries t' = filter (fun e => negb (under k e)) (entries t) /\
    (b = true -> t' = E) /\ (b = false -> t' = E -> t = E).
Proof.
  induction t as [|k' d|t0 IH0 t1 IH1]; intros p k Hw Hp.
  - exists E, false. simpl. repeat split; auto; discriminate.
  - simpl. unfold under; simpl. destruct (is_prefix k k') eqn:E1; simpl.
    + exists E, true. repeat split; auto; discriminate.
    + exists (L k' d), false. repeat split; auto; discriminate.
  - cbn [prune_at]. destruct (Nat.eqb (length p) (length k)) eqn:El.
    + apply Nat.eqb_eq in El. pose proof (is_prefix_same_length _ _ Hp El) as ->.
      exists E, true. split; [reflexivity|]. split; [exact I|]. split; [|split; [reflexivity|discriminate]].
      symmetry. apply filter_none. intros e He. unfold under.
      rewrite (wf_at_entries_prefix _ _ _ Hw He). reflexivity.
    + apply Nat.eqb_neq in El. pose proof (is_prefix_length _ _ Hp) as Hl.
      destruct (bit_at_lt k (length p)) as [b [Hb Hn]]; [lia|]. rewrite Hb. cbn [bind].
      assert (Hp' : is_prefix (p ++ [b]) k = true) by (apply is_prefix_snoc; auto).
      pose proof (wf_at_child p t0 t1 b Hw) as Wc.
      pose proof (wf_at_child p t0 t1 (negb b) Hw) as Wo.
      assert (Hlen : S (length p) = length (p ++ [b])) by (rewrite app_length; simpl; lia).
      rewrite Hlen.
      (* the entries of the other child are all kept *)
      assert (Keep : filter (fun e => negb (under k e)) (entries (child t0 t1 (negb b)))
                     = entries (child t0 t1 (negb b))).
      { apply filter_all. intros e He. unfold under. apply negb_true_iff.
        destruct (is_prefix k (fst e)) eqn:E1; [|reflexivity]. exfalso.
        pose proof (wf_at_entries_prefix _ _ _ Wo He) as A.
        pose proof (is_prefix_trans _ _ _ Hp' E1) as B.
        destruct b; simpl in A.
        - destruct (siblings_incomparable p (fst e) (fst e) A B) as [C _]. rewrite is_prefix_refl in C. discriminate.
        - destruct (siblings_incomparable p (fst e) (fst e) B A) as [C _]. rewrite is_prefix_refl in C. discriminate. }
      assert (IH : exists t' r, prune_at (child t0 t1 b) k (length (p ++ [b])) = Ok (t', r) /\
                 wf_at (p ++ [b]) t' /\
                 entries t' = filter (fun e => negb (under k e)) (entries (child t0 t1 b)) /\
                 (r = true -> t' = E) /\ (r = false -> t' = E -> child t0 t1 b = E)).
      { destruct b; [apply (IH1 _ k Wc Hp')|apply (IH0 _ k Wc Hp')]. }
      destruct IH as [c [r [E1 [Wc' [Ec [R1 R2]]]]]]. rewrite E1. cbn [bind fst snd].
      destruct (r && is_empty_leaf (child t0 t1 (negb b))) eqn:Ecol.
      * apply andb_true_iff in Ecol as [-> Eo]. specialize (R1 eq_refl). subst c.
        exists E, true. split; [reflexivity|]. split; [exact I|]. split; [|split; [reflexivity|discriminate]].
        simpl. rewrite filter_app.
        destruct (child t0 t1 (negb b)) eqn:Eo'; try discriminate.
        destruct b; simpl in *; subst; simpl in *; rewrite <- Ec; reflexivity.
      * exists (set_child t0 t1 b c), false. split; [reflexivity|]. split; [|split; [|split; [discriminate|]]].
        -- (* well-formed: positivity *)
           destruct Hw as [W0 [W1 Pos]].
           assert (Sz : 0 < size c + size (child t0 t1 (negb b))).
           { destruct (size (child t0 t1 (negb b))) eqn:So; [|lia].
             apply (wf_size0 _ _ Wo) in So.
             destruct (size c) eqn:Sc; [|lia]. exfalso. apply (wf_size0 _ _ Wc') in Sc. subst c.
             rewrite So in Ecol. simpl in Ecol. rewrite andb_true_r in Ecol. subst r.
             specialize (R2 eq_refl eq_refl).
             destruct b; simpl in *; subst; simpl in Pos; lia. }
           destruct b; simpl in *; repeat split; auto; lia.
        -- rewrite set_child_entries. simpl. rewrite filter_app.
           destruct b; simpl in *; rewrite Ec, Keep; reflexivity.
        -- intros _ Hset. destruct b; discriminate.
Qed.

(* PruneSubtrie never panics on a well-formed trie, keeps it well formed, and removes exactly
   the entries whose key has k as prefix (keeping the order of the others) *)
Theorem prune_exact {D} (t : trie D) k : wf t ->
  exists t', prune_subtrie t k = Ok t' /\ wf t' /\
    entries t' = filter (fun e => negb (is_prefix k (fst e))) (entries t).
Proof.
  intro Hw. destruct (prune_at_spec t [] k Hw eq_refl) as [t' [b [E1 [W [Es _]]]]].
  exists t'. unfold prune_subtrie. simpl in E1. rewrite E1. simpl. auto.
Qed.

(* ---- iteration (AllEntries / AllKeys / AllValues) ------------------------------ *)
(* a is before b in the order: at the first position where they differ a agrees with the order *)
Definition ord_before (order a b : bits) : Prop :=
  exists i x, firstn i a = firstn i b /\ nth_error a i = Some x /\ nth_error b i = Some (negb x) /\
              nth_error order i = Some x.

Lemma is_prefix_firstn p k : is_prefix p k = true -> firstn (length p) k = p.
Proof.
  revert k; induction p as [|x p IH]; intros [|y k]; simpl; intro H; try reflexivity; try discriminate.
  apply andb_true_iff in H as [E H]. apply eqb_prop in E. subst. f_equal. apply IH. exact H.
Qed.

Lemma height_child {D} (t0 t1 : trie D) b : S (height (child t0 t1 b)) <= height (Nd t0 t1).
Proof. destruct b; simpl; lia. Qed.

Lemma iter_at_spec {D} (t : trie D) : forall p order,
  wf_at p t -> height t + length p <= length order ->
  exists l, iter_at t order (length p) = Ok l /\ Permutation l (entries t) /\
            StronglySorted (fun e1 e2 => ord_before order (fst e1) (fst e2)) l.
Proof.
  induction t as [|k d|t0 IH0 t1 IH1]; intros p order Hw Hh.
  - exists []. simpl. repeat split; auto. constructor.
  - exists [(k, d)]. simpl. repeat split; auto. constructor; constructor.
  - cbn [iter_at]. simpl in Hh.
    destruct (bit_at_lt order (length p)) as [b [Hb Hn]]; [lia|]. rewrite Hb. cbn [bind].
    assert (Hlen : forall c, S (length p) = length (p ++ [c])) by (intro; rewrite app_length; simpl; lia).
    assert (A : exists l, iter_at (child t0 t1 b) order (S (length p)) = Ok l /\
                Permutation l (entries (child t0 t1 b)) /\
                StronglySorted (fun e1 e2 => ord_before order (fst e1) (fst e2)) l).
    { rewrite (Hlen b). pose proof (wf_at_child p t0 t1 b Hw) as W.
      destruct b; simpl in W; [apply IH1|apply IH0]; try exact W; rewrite app_length; simpl; lia. }
    assert (B : exists l, iter_at (child t0 t1 (negb b)) order (S (length p)) = Ok l /\
                Permutation l (entries (child t0 t1 (negb b))) /\
                StronglySorted (fun e1 e2 => ord_before order (fst e1) (fst e2)) l).
    { rewrite (Hlen (negb b)). pose proof (wf_at_child p t0 t1 (negb b) Hw) as W.
      destruct b; simpl in W; [apply IH0|apply IH1]; try exact W; rewrite app_length; simpl; lia. }
    destruct A as [la [Ea [Pa Sa]]]. destruct B as [lb [Eb [Pb Sb]]].
    rewrite Ea. cbn [bind]. rewrite Eb. cbn [bind].
    exists (la ++ lb). split; [reflexivity|]. split.
    + simpl. destruct b; simpl in *.
      * eapply Permutation_trans; [apply Permutation_app; eassumption|apply Permutation_app_comm].
      * apply Permutation_app; assumption.
    + (* sorted: everything in la is before everything in lb *)
      assert (Cross : forall ea eb, In ea la -> In eb lb -> ord_before order (fst ea) (fst eb)).
      { intros ea eb Ha Hb'.
        pose proof (wf_at_entries_prefix _ _ _ (wf_at_child p t0 t1 b Hw) (Permutation_in _ Pa Ha)) as Qa.
        pose proof (wf_at_entries_prefix _ _ _ (wf_at_child p t0 t1 (negb b) Hw) (Permutation_in _ Pb Hb')) as Qb.
        apply is_prefix_snoc in Qa as [Qa1 Qa2]. apply is_prefix_snoc in Qb as [Qb1 Qb2].
        exists (length p), b. rewrite (is_prefix_firstn _ _ Qa1), (is_prefix_firstn _ _ Qb1). auto. }
      clear - Sa Sb Cross. induction la as [|a la IH]; simpl; [exact Sb|].
      inversion Sa; subst. constructor.
      * apply IH; auto. intros; apply Cross; auto. right; assumption.
      * apply Forall_app. split; [assumption|].
        apply Forall_forall. intros eb Hb'. apply Cross; [left; reflexivity|assumption].
Qed.

(* AllEntries on a well-formed trie at most as deep as the order is long: the entries of the
   trie, sorted by the order *)
Theorem all_entries_sorted {D} (t : trie D) order : wf t -> height t <= length order ->
  exists l, all_entries t order = Ok l /\ Permutation l (entries t) /\
            StronglySorted (fun e1 e2 => ord_before order (fst e1) (fst e2)) l.
Proof. intros Hw Hh. apply (iter_at_spec t [] order Hw). simpl. lia. Qed.

(* iteration from depth 0 of any subtrie (as AllValues(items, zeroKey) does): no panic when the
   subtrie is at most as deep as the order is long; the order of the result is not used *)
Lemma iter_at_perm {D} (t : trie D) : forall order depth,
  height t + depth <= length order ->
  exists l, iter_at t order depth = Ok l /\ Permutation l (entries t).
Proof.
  induction t as [|k d|t0 IH0 t1 IH1]; intros order depth Hh.
  - exists []. simpl. auto.
  - exists [(k, d)]. simpl. auto.
  - cbn [iter_at]. simpl in Hh.
    destruct (bit_at_lt order depth) as [b [Hb Hn]]; [lia|]. rewrite Hb. cbn [bind].
    destruct (IH0 order (S depth)) as [l0 [E0 P0]]; [lia|].
    destruct (IH1 order (S depth)) as [l1 [E1 P1]]; [lia|].
    destruct b; simpl; rewrite ?E0, ?E1; cbn [bind]; rewrite ?E0, ?E1; cbn [bind].
    + exists (l1 ++ l0). split; [reflexivity|].
      eapply Permutation_trans; [apply Permutation_app; eassumption|apply Permutation_app_comm].
    + exists (l0 ++ l1). split; [reflexivity|]. apply Permutation_app; assumption.
Qed.

Lemma zero_key_length : length zero_key = 256.
Proof. unfold zero_key. apply repeat_length. Qed.

Lemma all_values_perm {D} (t : trie D) : height t <= 256 ->
  exists vs, all_values t zero_key = Ok vs /\ Permutation vs (map snd (entries t)).
Proof.
  intro Hh. unfold all_values, all_entries.
  destruct (iter_at_perm t zero_key 0) as [l [E1 P]]; [rewrite zero_key_length; lia|].
  rewrite E1. simpl. exists (map snd l). split; [reflexivity|]. apply Permutation_map. exact P.
Qed.

Lemma all_entries_perm {D} (t : trie D) : height t <= 256 ->
  exists l, all_entries t zero_key = Ok l /\ Permutation l (entries t).
Proof. intro Hh. apply iter_at_perm. rewrite zero_key_length. lia. Qed.

(* a well-formed trie is no deeper than its longest key *)
Lemma wf_height {D} (t : trie D) : forall p n,
  wf_at p t -> (forall e, In e (entries t) -> length (fst e) <= n) -> t <> E -> height t + length p <= n.
Proof.
  induction t as [|k d|t0 IH0 t1 IH1]; intros p n Hw Hn Hne.
  - congruence.
  - simpl. simpl in Hw. apply is_prefix_length in Hw. specialize (Hn (k, d) (or_introl eq_refl)). simpl in Hn. lia.
  - simpl. destruct Hw as [W0 [W1 Pos]].
    assert (H0 : t0 <> E -> height t0 + S (length p) <= n).
    { intro N0. specialize (IH0 (p ++ [false]) n W0). rewrite app_length in IH0. simpl in IH0.
      replace (S (length p)) with (length p + 1) by lia. apply IH0; auto.
      intros e He. apply Hn. simpl. apply in_or_app. left. exact He. }
    assert (H1 : t1 <> E -> height t1 + S (length p) <= n).
    { intro N1. specialize (IH1 (p ++ [true]) n W1). rewrite app_length in IH1. simpl in IH1.
      replace (S (length p)) with (length p + 1) by lia. apply IH1; auto.
      intros e He. apply Hn. simpl. apply in_or_app. right. exact He. }
    assert (Some0 : t0 <> E \/ t1 <> E).
    { destruct t0; [|left; discriminate|left; discriminate]. destruct t1; [simpl in Pos; lia|right; discriminate|right; discriminate]. }
    destruct t0 as [|k0 e0|a0 b0]; destruct t1 as [|k1 e1|a1 b1]; simpl in *;
      try (specialize (H0 ltac:(discriminate))); try (specialize (H1 ltac:(discriminate))); simpl in *; try lia.
Qed.
