(* Lemmas about Model/Trie.v and Model/Keyspace.v (C18). *)
From Verif.Lib Require Import GoSem Bits.
From Verif.Model Require Import Trie Keyspace.
