(* SubtractTrie is exact (C18): the result holds exactly the entries of t0 that no key of t1
   is a prefix of, and is well formed. *)
From Verif.Lib Require Import GoSem Bits.
From Verif.Model Require Import Trie Keyspace.
From Verif.Proofs Require Import KeyspaceBase KeyspaceProofs KeyspaceCovered KeyspaceTrie.
From Coq Require Import Permutation.

Section Subtract.
Context {D0 D1 : Type}.
Notation ent := (bits * D0)%type.

(* no key of t1 is a prefix of the key of e *)
Definition keep (t1 : trie D1) (e : ent) : bool :=
  forallb (fun y => negb (is_prefix y (fst e))) (keys_of t1).

Lemma keep_true t1 e : keep t1 e = true <-> forall y, In y (keys_of t1) -> is_prefix y (fst e) = false.
Proof.
  unfold keep. rewrite forallb_forall. split; intros H y Hy.
  - apply negb_true_iff. apply H. exact Hy.
  - apply negb_true_iff. apply H. exact Hy.
Qed.

(* the universe: the entries of the whole minuend; keys distinct and pairwise non-comparable *)
Variable UE : list ent.
Hypothesis UE_nodup : NoDup (map fst UE).
Hypothesis UE_compat : compat (map fst UE).

Lemma UE_key_eq e e' : In e UE -> In e' UE -> fst e = fst e' -> e = e'.
Proof.
  clear UE_compat. induction UE as [|a l IH]; simpl; intros H1 H2 Hk; [contradiction|].
  inversion UE_nodup; subst.
  destruct H1 as [<-|H1]; destruct H2 as [<-|H2]; auto.
  - exfalso. apply H3. rewrite Hk. apply in_map. exact H2.
  - exfalso. apply H3. rewrite <- Hk. apply in_map. exact H1.
Qed.

Lemma add_all_U (r : trie D0) (es : list ent) :
  wf r -> incl (entries r) UE -> incl es UE -> NoDup (map fst es) ->
  exists r', add_all r es = Ok r' /\ wf r' /\ incl (entries r') UE /\
             forall e, In e (entries r') <-> In e (entries r) \/ In e es.
Proof.
  intros Hw Ir Ie ND.
  destruct (add_all_spec r es Hw ND) as [r' [E1 [W A]]].
  - eapply compat_incl; [|exact UE_compat]. intros x Hx. apply in_app_or in Hx as [Hx|Hx].
    + apply in_map_iff in Hx as [e [<- He]]. apply in_map. apply Ie. exact He.
    + unfold keys_of in Hx. apply in_map_iff in Hx as [e [<- He]]. apply in_map. apply Ir. exact He.
  - exists r'. split; [exact E1|]. split; [exact W|].
    assert (Char : forall e, In e (entries r') <-> In e (entries r) \/ In e es).
    { intro e. rewrite (A e). split; [tauto|]. intros [H|H]; [left; exact H|].
      destruct (in_dec (list_eq_dec Bool.bool_dec) (fst e) (keys_of r)) as [Hin|Hnin]; [|right; auto].
      left. unfold keys_of in Hin. apply in_map_iff in Hin as [e' [Ek He']].
      rewrite <- (UE_key_eq e' e); auto. }
    split; [|exact Char]. intros e He. apply Char in He as [He|He]; auto.
Qed.

Lemma add_one_U (r : trie D0) k d :
  wf r -> incl (entries r) UE -> In (k, d) UE ->
  exists r', add_one r k d = Ok r' /\ wf r' /\ incl (entries r') UE /\
             forall e, In e (entries r') <-> In e (entries r) \/ e = (k, d).
Proof.
  intros Hw Ir Ie.
  destruct (add_one_spec r k d Hw) as [r' [E1 [W A]]].
  - eapply compat_incl; [|exact UE_compat]. intros x [<-|Hx].
    + apply (in_map fst) in Ie. exact Ie.
    + unfold keys_of in Hx. apply in_map_iff in Hx as [e [<- He]]. apply in_map. apply Ir. exact He.
  - exists r'. split; [exact E1|]. split; [exact W|].
    assert (Char : forall e, In e (entries r') <-> In e (entries r) \/ e = (k, d)).
    { intro e. rewrite (A e). simpl. split; [intros [H|[[H|[]] _]]; auto|]. intros [H|H]; [left; exact H|].
      subst e. simpl.
      destruct (in_dec (list_eq_dec Bool.bool_dec) k (keys_of r)) as [Hin|Hnin]; [|right; auto].
      left. unfold keys_of in Hin. apply in_map_iff in Hin as [e' [Ek He']].
      rewrite <- (UE_key_eq e' (k, d)); auto. }
    split; [|exact Char]. intros e He. apply Char in He as [He|He]; [auto|subst; exact Ie].
Qed.

(* keys of the sibling branch are never prefixes of a key under p ++ [b] *)
Lemma keep_child p (a b : trie D1) bt e :
  wf_at p (Nd a b) -> is_prefix (p ++ [bt]) (fst e) = true ->
  keep (Nd a b) e = keep (child a b bt) e.
Proof.
  intros [Wa [Wb _]] He. unfold keep. rewrite keys_of_Nd, forallb_app.
  assert (Oth : forall (o : trie D1), wf_at (p ++ [negb bt]) o ->
            forallb (fun y => negb (is_prefix y (fst e))) (keys_of o) = true).
  { intros o Wo. apply forallb_forall. intros y Hy. apply negb_true_iff.
    destruct (is_prefix y (fst e)) eqn:E1; [|reflexivity]. exfalso.
    pose proof (wf_at_keys_prefix _ _ _ Wo Hy) as Py.
    pose proof (is_prefix_trans _ _ _ Py E1) as Pe.
    destruct bt; simpl in Pe.
    - destruct (siblings_incomparable p (fst e) (fst e) Pe He) as [C _]. rewrite is_prefix_refl in C. discriminate.
    - destruct (siblings_incomparable p (fst e) (fst e) He Pe) as [C _]. rewrite is_prefix_refl in C. discriminate. }
  destruct bt; simpl.
  - rewrite (Oth a Wa). reflexivity.
  - rewrite (Oth b Wb). apply andb_true_r.
Qed.

(* every key of an inner node at path p is longer than p *)
Lemma Nd_keys_longer {D} p (a b : trie D) y : wf_at p (Nd a b) -> In y (keys_of (Nd a b)) -> length p < length y.
Proof.
  intros [Wa [Wb _]] Hy. rewrite keys_of_Nd in Hy. apply in_app_or in Hy as [Hy|Hy];
    [pose proof (wf_at_keys_prefix _ _ _ Wa Hy) as P|pose proof (wf_at_keys_prefix _ _ _ Wb Hy) as P];
    apply is_prefix_length in P; rewrite app_length in P; simpl in P; lia.
Qed.

Definition sub_post (t0 : trie D0) (t1 : trie D1) (r r' : trie D0) : Prop :=
  wf r' /\ incl (entries r') UE /\
  forall e, In e (entries r') <-> In e (entries r) \/ (In e (entries t0) /\ keep t1 e = true).

Lemma subtract_leaf k0 d0 : forall (t1 : trie D1) p r depth,
  wf_at p (L k0 d0) -> wf_at p t1 -> length p = depth ->
  wf r -> incl (entries r) UE -> In (k0, d0) UE ->
  exists r', subtract_at (L k0 d0) t1 r depth = Ok r' /\ sub_post (L k0 d0) t1 r r'.
Proof.
  induction t1 as [|k1 d1|a IHa b IHb]; intros p r depth W0 W1 Hp Wr Ir I0.
  - (* nothing to subtract *)
    cbn [subtract_at].
    destruct (add_all_U r [(k0, d0)] Wr Ir) as [r' [E1 [W [I A]]]].
    + intros e [<-|[]]. exact I0.
    + simpl. constructor; [intros []|constructor].
    + exists r'. split; [exact E1|]. split; [exact W|]. split; [exact I|].
      intro e. rewrite (A e). simpl. unfold keep, keys_of. simpl. tauto.
  - cbn [subtract_at]. destruct (is_prefix k1 k0) eqn:Ep.
    + exists r. split; [reflexivity|]. split; [exact Wr|]. split; [exact Ir|].
      intro e. simpl. unfold keep, keys_of. simpl. split; [auto|]. intros [H|[[<-|[]] H]]; [exact H|].
      simpl in H. rewrite Ep in H. discriminate.
    + destruct (add_one_U r k0 d0 Wr Ir I0) as [r' [E1 [W [I A]]]].
      exists r'. split; [exact E1|]. split; [exact W|]. split; [exact I|].
      intro e. rewrite (A e). simpl. unfold keep, keys_of. simpl. split.
      * intros [H| ->]; [left; exact H|right]. simpl. rewrite Ep. auto.
      * intros [H|[[<-|[]] _]]; auto.
  - cbn [subtract_at]. simpl in W0.
    destruct (length k0 <=? depth) eqn:El.
    + (* k0 is the path itself: no key below is a prefix of it *)
      apply Nat.leb_le in El.
      destruct (add_one_U r k0 d0 Wr Ir I0) as [r' [E1 [W [I A]]]].
      exists r'. split; [exact E1|]. split; [exact W|]. split; [exact I|].
      intro e. rewrite (A e). simpl. split.
      * intros [H| ->]; [left; exact H|right]. split; [left; reflexivity|].
        apply keep_true. intros y Hy. simpl.
        destruct (is_prefix y k0) eqn:E2; [|reflexivity]. exfalso.
        pose proof (Nd_keys_longer p a b y W1 Hy). apply is_prefix_length in E2. lia.
      * intros [H|[[<-|[]] _]]; auto.
    + apply Nat.leb_gt in El.
      destruct (bit_at_lt k0 depth El) as [bt [Hb Hn]]. rewrite Hb. cbn [bind].
      assert (W0' : wf_at (p ++ [bt]) (L k0 d0)).
      { simpl. apply is_prefix_snoc. rewrite Hp. auto. }
      assert (IH : exists r', subtract_at (L k0 d0) (child a b bt) r (S depth) = Ok r' /\
                              sub_post (L k0 d0) (child a b bt) r r').
      { pose proof (wf_at_child p a b bt W1) as Wc.
        destruct bt; simpl child in *; [apply (IHb (p ++ [true]))|apply (IHa (p ++ [false]))]; auto;
          rewrite app_length; simpl; lia. }
      destruct IH as [r' [E1 [W [I A]]]]. exists r'. split; [exact E1|]. split; [exact W|]. split; [exact I|].
      intro e. rewrite (A e). simpl. split.
      * intros [H|[[<-|[]] K]]; [left; exact H|right]. split; [left; reflexivity|].
        rewrite (keep_child p a b bt (k0, d0) W1 W0'). exact K.
      * intros [H|[[<-|[]] K]]; [left; exact H|right]. split; [left; reflexivity|].
        rewrite <- (keep_child p a b bt (k0, d0) W1 W0'). exact K.
Qed.

Lemma subtract_at_spec (t0 : trie D0) : forall (t1 : trie D1) p r depth,
  wf_at p t0 -> wf_at p t1 -> length p = depth -> height t0 <= 256 ->
  wf r -> incl (entries r) UE -> incl (entries t0) UE ->
  exists r', subtract_at t0 t1 r depth = Ok r' /\ sub_post t0 t1 r r'.
Proof.
  induction t0 as [|k0 d0|a0 IHa b0 IHb]; intros t1 p r depth W0 W1 Hp Hh Wr Ir I0.
  - exists r. split; [destruct t1; reflexivity|]. split; [exact Wr|]. split; [exact Ir|].
    intro e. simpl. tauto.
  - apply (subtract_leaf k0 d0 t1 p); auto. apply I0. left. reflexivity.
  - destruct t1 as [|k1 d1|a1 b1].
    + (* nothing to subtract: everything is added *)
      cbn [subtract_at]. unfold all_entries. rewrite iter_at_zero by lia. cbn [bind].
      destruct (add_all_U r (entries (Nd a0 b0)) Wr Ir I0) as [r' [E1 [W [I A]]]].
      * apply (wf_NoDup_keys p). exact W0.
      * exists r'. split; [exact E1|]. split; [exact W|]. split; [exact I|].
        intro e. rewrite (A e). unfold keep, keys_of. simpl. tauto.
    + cbn [subtract_at]. simpl in W1.
      destruct (length k1 <=? depth) eqn:El.
      * (* k1 is the path itself: it covers the whole subtrie *)
        apply Nat.leb_le in El.
        assert (k1 = p) by (symmetry; apply is_prefix_same_length; auto; apply is_prefix_length in W1; lia).
        subst k1. exists r. split; [reflexivity|]. split; [exact Wr|]. split; [exact Ir|].
        intro e. split; [auto|]. intros [H|[He K]]; [exact H|]. exfalso.
        pose proof (proj1 (keep_true _ _) K p) as K'. unfold keys_of in K'. simpl in K'.
        rewrite (wf_at_entries_prefix _ _ _ W0 He) in K'. specialize (K' (or_introl eq_refl)). discriminate.
      * apply Nat.leb_gt in El.
        destruct (bit_at_lt k1 depth El) as [bt [Hb Hn]]. rewrite Hb. cbn [bind].
        assert (W1' : wf_at (p ++ [bt]) (L k1 d1)).
        { simpl. apply is_prefix_snoc. rewrite Hp. auto. }
        pose proof (wf_at_child p a0 b0 bt W0) as Wc.
        pose proof (wf_at_child p a0 b0 (negb bt) W0) as Wo.
        pose proof (height_child a0 b0 bt) as Hc. pose proof (height_child a0 b0 (negb bt)) as Ho.
        unfold all_entries. rewrite iter_at_zero by lia. cbn [bind].
        assert (Io : incl (entries (child a0 b0 (negb bt))) UE).
        { intros e He. apply I0. simpl. apply in_or_app. destruct bt; simpl in He; auto. }
        assert (Ic : incl (entries (child a0 b0 bt)) UE).
        { intros e He. apply I0. simpl. apply in_or_app. destruct bt; simpl in He; auto. }
        destruct (add_all_U r (entries (child a0 b0 (negb bt))) Wr Ir Io) as [r1 [E1 [Wr1 [Ir1 A1]]]].
        { apply (wf_NoDup_keys (p ++ [negb bt])). exact Wo. }
        rewrite E1. cbn [bind].
        assert (IH : exists r', subtract_at (child a0 b0 bt) (L k1 d1) r1 (S depth) = Ok r' /\
                                sub_post (child a0 b0 bt) (L k1 d1) r1 r').
        { destruct bt; simpl child in *; [apply (IHb (L k1 d1) (p ++ [true]))|apply (IHa (L k1 d1) (p ++ [false]))]; auto;
            try (rewrite app_length; simpl; lia); lia. }
        destruct IH as [r' [E2 [W [I A]]]]. exists r'. split; [exact E2|]. split; [exact W|]. split; [exact I|].
        intro e. rewrite (A e), (A1 e).
        (* entries of the other branch are all kept *)
        assert (KeepO : forall e, In e (entries (child a0 b0 (negb bt))) -> keep (L k1 d1) e = true).
        { intros e' He'. apply keep_true. intros y [<-|[]]. simpl fst at 1.
          destruct (is_prefix k1 (fst e')) eqn:E3; [|reflexivity]. exfalso.
          pose proof (wf_at_entries_prefix _ _ _ Wo He') as Pe.
          simpl in W1'. pose proof (is_prefix_trans _ _ _ W1' E3) as Pe'.
          destruct bt; simpl in Pe.
          - destruct (siblings_incomparable p (fst e') (fst e') Pe Pe') as [C _]. rewrite is_prefix_refl in C. discriminate.
          - destruct (siblings_incomparable p (fst e') (fst e') Pe' Pe) as [C _]. rewrite is_prefix_refl in C. discriminate. }
        simpl entries. rewrite in_app_iff. destruct bt; simpl child in *; split.
        -- intros [[H|H]|[H K]]; auto.
        -- intros [H|[[H|H] K]]; auto.
        -- intros [[H|H]|[H K]]; auto.
        -- intros [H|[[H|H] K]]; auto.
    + (* both inner nodes: branch by branch *)
      cbn [subtract_at].
      destruct W0 as [W0a [W0b P0]]. destruct W1 as [W1a [W1b P1]].
      assert (Ia : incl (entries a0) UE) by (intros e He; apply I0; simpl; apply in_or_app; auto).
      assert (Ib : incl (entries b0) UE) by (intros e He; apply I0; simpl; apply in_or_app; auto).
      simpl in Hh.
      destruct (IHa a1 (p ++ [false]) r (S depth)) as [r1 [E1 [Wr1 [Ir1 A1]]]]; auto;
        try (rewrite app_length; simpl; lia); try lia.
      rewrite E1. cbn [bind].
      destruct (IHb b1 (p ++ [true]) r1 (S depth)) as [r2 [E2 [Wr2 [Ir2 A2]]]]; auto;
        try (rewrite app_length; simpl; lia); try lia.
      exists r2. split; [exact E2|]. split; [exact Wr2|]. split; [exact Ir2|].
      intro e. rewrite (A2 e), (A1 e). simpl entries. rewrite in_app_iff.
      assert (Ka : forall e, In e (entries a0) -> keep (Nd a1 b1) e = keep a1 e).
      { intros e' He'. apply (keep_child p a1 b1 false e'); [simpl; auto|].
        apply (wf_at_entries_prefix _ _ _ W0a He'). }
      assert (Kb : forall e, In e (entries b0) -> keep (Nd a1 b1) e = keep b1 e).
      { intros e' He'. apply (keep_child p a1 b1 true e'); [simpl; auto|].
        apply (wf_at_entries_prefix _ _ _ W0b He'). }
      split.
      * intros [[H|[H K]]|[H K]]; auto.
        -- right. split; [left; exact H|]. rewrite (Ka e H). exact K.
        -- right. split; [right; exact H|]. rewrite (Kb e H). exact K.
      * intros [H|[[H|H] K]]; auto.
        -- left. right. split; [exact H|]. rewrite <- (Ka e H). exact K.
        -- right. split; [exact H|]. rewrite <- (Kb e H). exact K.
Qed.

End Subtract.

(* SubtractTrie: no panic for a minuend at most 256 deep; the result is well formed and holds
   exactly the entries of t0 whose key has no key of t1 as prefix *)
Theorem subtract_exact {D0 D1} (t0 : trie D0) (t1 : trie D1) :
  wf t0 -> wf t1 -> height t0 <= 256 ->
  exists r, subtract_trie t0 t1 = Ok r /\ wf r /\
    forall e, In e (entries r) <->
              In e (entries t0) /\ forall y, In y (keys_of t1) -> is_prefix y (fst e) = false.
Proof.
  intros W0 W1 Hh. unfold subtract_trie.
  assert (Cp : compat (map fst (entries t0))).
  { intros a b Ha Hb Hc. unfold comparable in Hc.
    apply in_map_iff in Ha as [ea [<- Ha]]. apply in_map_iff in Hb as [eb [<- Hb]].
    apply orb_true_iff in Hc as [Hc|Hc].
    + f_equal. eapply wf_prefix_free; eauto.
    + f_equal. symmetry. eapply wf_prefix_free; eauto. }
  assert (I0 : incl (entries (@E D0)) (entries t0)) by (intros e []).
  destruct (subtract_at_spec (D1:=D1) (entries t0) (wf_NoDup_keys [] t0 W0) Cp t0 t1 [] E 0
              W0 W1 eq_refl Hh I I0 (incl_refl _)) as [r [E1 [W [_ A]]]].
  exists r. split; [exact E1|]. split; [exact W|].
  intro e. rewrite (A e). simpl. rewrite keep_true. tauto.
Qed.
