(* CoalesceTrie is exact (C18): sibling leaves are merged into their parent, recursively; the
   result covers the same keyspace, is well formed and has no sibling pair left. *)
From Verif.Lib Require Import GoSem Bits.
From Verif.Model Require Import Trie Keyspace.
From Verif.Proofs Require Import KeyspaceBase KeyspaceProofs KeyspaceCovered KeyspaceSubtract.
From Coq Require Import Permutation.

Lemma cpl_siblings q : forall k0 k1,
  is_prefix (q ++ [false]) k0 = true -> is_prefix (q ++ [true]) k1 = true -> cpl k0 k1 = length q.
Proof.
  induction q as [|x q IH]; intros [|a k0] [|b k1] H0 H1; simpl in *; try discriminate.
  - destruct a, b; simpl in *; try discriminate; reflexivity.
  - apply andb_true_iff in H0 as [E0 H0]. apply andb_true_iff in H1 as [E1 H1].
    apply eqb_prop in E0. apply eqb_prop in E1. subst. rewrite eqb_reflx. f_equal. apply IH; assumption.
Qed.

Lemma removelast_firstn_len {A} (l : list A) : firstn (length l - 1) l = removelast l.
Proof.
  induction l as [|a l IH]; [reflexivity|]. destruct l as [|b l]; [reflexivity|].
  simpl length in *. replace (S (S (length l)) - 1) with (S (S (length l) - 1)) by lia.
  cbn [firstn]. rewrite IH. reflexivity.
Qed.

Section Coalesce.
Context {D : Type}.
Variable dz : D.

(* the merge test of CoalesceTrie on two leaves below q *)
Lemma sibling_test q (k0 k1 : bits) :
  is_prefix (q ++ [false]) k0 = true -> is_prefix (q ++ [true]) k1 = true ->
  ((0 <? length k0) && Nat.eqb (length k0) (length k1) && Nat.eqb (cpl k0 k1) (length k0 - 1) = true
   <-> k0 = q ++ [false] /\ k1 = q ++ [true]).
Proof.
  intros H0 H1. rewrite (cpl_siblings q k0 k1 H0 H1).
  pose proof (is_prefix_length _ _ H0) as L0. pose proof (is_prefix_length _ _ H1) as L1.
  rewrite app_length in L0, L1. simpl in L0, L1. split.
  - intro H. apply andb_true_iff in H as [H Hc]. apply andb_true_iff in H as [_ He].
    apply Nat.eqb_eq in Hc. apply Nat.eqb_eq in He. split; symmetry; apply is_prefix_same_length; auto;
      rewrite app_length; simpl; lia.
  - intros [-> ->]. rewrite !app_length. simpl.
    replace (length q + 1 - 1) with (length q) by lia. rewrite !Nat.eqb_refl.
    destruct (length q + 1) eqn:E1; [lia|]. reflexivity.
Qed.

Lemma coalesce_Nd (t0 t1 : trie D) :
  coalesce dz (Nd t0 t1) =
  match coalesce dz t0, coalesce dz t1 with
  | L k0 _, L k1 _ =>
      if (0 <? length k0) && Nat.eqb (length k0) (length k1) && Nat.eqb (cpl k0 k1) (length k0 - 1)
      then L (firstn (length k0 - 1) k0) dz
      else Nd (coalesce dz t0) (coalesce dz t1)
  | _, _ => Nd (coalesce dz t0) (coalesce dz t1)
  end.
Proof. reflexivity. Qed.

Lemma wf_leaf_at q (c : trie D) : wf_at q c -> In q (keys_of c) -> exists d, c = L q d.
Proof.
  intros Hw Hin. destruct c as [|k d|a b].
  - destruct Hin.
  - destruct Hin as [<-|[]]. exists d. reflexivity.
  - exfalso. pose proof (Nd_keys_longer q a b q Hw Hin). lia.
Qed.

(* what CoalesceTrie does to a well-formed subtrie at path q *)
Lemma coalesce_spec (t : trie D) : forall q, wf_at q t ->
  let t' := coalesce dz t in
  wf_at q t' /\
  (t' = E <-> t = E) /\
  (forall d, t' = L q d -> fullt q t) /\
  (fullt q t -> exists d, t' = L q d) /\
  (forall k', In k' (keys_of t') -> covers (filter (is_prefix k') (keys_of t)) k') /\
  (forall k, In k (keys_of t) -> exists k', In k' (keys_of t') /\ is_prefix k' k = true) /\
  (forall p, ~ (In (p ++ [false]) (keys_of t') /\ In (p ++ [true]) (keys_of t'))).
Proof.
  induction t as [|k d|t0 IH0 t1 IH1]; intros q Hw; cbv zeta.
  - simpl. repeat split; auto; try discriminate; try contradiction.
    + intros _ [[] _].
  - simpl coalesce. simpl in Hw. split; [exact Hw|]. split; [split; discriminate|]. split; [|split; [|split; [|split]]].
    + intros d' X. inversion X. reflexivity.
    + intro X. simpl in X. subst. exists d. reflexivity.
    + intros k' [<-|[]]. unfold keys_of. simpl. rewrite is_prefix_refl.
      intros x Hx _. exists k. split; [left; reflexivity|exact Hx].
    + intros k0 [<-|[]]. exists k. split; [left; reflexivity|apply is_prefix_refl].
    + intros p [[X|[]] [Y|[]]]. rewrite X in Y. apply app_inv_head in Y. discriminate.
  - destruct Hw as [W0 [W1 Pos]].
    destruct (IH0 _ W0) as [W0' [Em0 [Fl0 [Ff0 [Cv0 [Rf0 Ns0]]]]]].
    destruct (IH1 _ W1) as [W1' [Em1 [Fl1 [Ff1 [Cv1 [Rf1 Ns1]]]]]].
    cbv zeta in *.
    (* keys under one branch are not under a prefix of the other branch *)
    assert (Cross0 : forall k', In k' (keys_of (coalesce dz t0)) -> filter (is_prefix k') (keys_of t1) = []).
    { intros k' Hk'. apply filter_none. intros y Hy. destruct (is_prefix k' y) eqn:E1; [|reflexivity]. exfalso.
      pose proof (wf_at_keys_prefix _ _ _ W0' Hk') as P0. pose proof (wf_at_keys_prefix _ _ _ W1 Hy) as P1.
      pose proof (is_prefix_trans _ _ _ P0 E1) as P0'.
      destruct (siblings_incomparable q y y P0' P1) as [C _]. rewrite is_prefix_refl in C. discriminate. }
    assert (Cross1 : forall k', In k' (keys_of (coalesce dz t1)) -> filter (is_prefix k') (keys_of t0) = []).
    { intros k' Hk'. apply filter_none. intros y Hy. destruct (is_prefix k' y) eqn:E1; [|reflexivity]. exfalso.
      pose proof (wf_at_keys_prefix _ _ _ W1' Hk') as P1. pose proof (wf_at_keys_prefix _ _ _ W0 Hy) as P0.
      pose proof (is_prefix_trans _ _ _ P1 E1) as P1'.
      destruct (siblings_incomparable q y y P0 P1') as [C _]. rewrite is_prefix_refl in C. discriminate. }
    (* the result when the node is kept *)
    assert (Kept : coalesce dz (Nd t0 t1) = Nd (coalesce dz t0) (coalesce dz t1) ->
      let t' := coalesce dz (Nd t0 t1) in
      ~ (exists d0 d1, coalesce dz t0 = L (q ++ [false]) d0 /\ coalesce dz t1 = L (q ++ [true]) d1) ->
      wf_at q t' /\ (t' = E <-> Nd t0 t1 = E) /\ (forall d, t' = L q d -> fullt q (Nd t0 t1)) /\
      (fullt q (Nd t0 t1) -> exists d, t' = L q d) /\
      (forall k', In k' (keys_of t') -> covers (filter (is_prefix k') (keys_of (Nd t0 t1))) k') /\
      (forall k, In k (keys_of (Nd t0 t1)) -> exists k', In k' (keys_of t') /\ is_prefix k' k = true) /\
      (forall p, ~ (In (p ++ [false]) (keys_of t') /\ In (p ++ [true]) (keys_of t')))).
    { intros Ek t' Nsib. subst t'. rewrite Ek. split; [|split; [|split; [|split; [|split; [|split]]]]].
      - simpl. split; [exact W0'|]. split; [exact W1'|].
        destruct (size (coalesce dz t0)) eqn:S0; [|lia]. destruct (size (coalesce dz t1)) eqn:S1; [|lia]. exfalso.
        apply (wf_size0 _ _ W0') in S0. apply (wf_size0 _ _ W1') in S1.
        apply Em0 in S0. apply Em1 in S1. subst. simpl in Pos. lia.
      - split; discriminate.
      - intros d X. discriminate.
      - intros [F0 F1]. exfalso. apply Nsib. destruct (Ff0 F0) as [d0 X0]. destruct (Ff1 F1) as [d1 X1]. eauto.
      - intros k' Hk'. rewrite !keys_of_Nd in *. rewrite filter_app. apply in_app_or in Hk' as [Hk'|Hk'].
        + rewrite (Cross0 k' Hk'), app_nil_r. apply Cv0. exact Hk'.
        + rewrite (Cross1 k' Hk'). simpl. apply Cv1. exact Hk'.
      - intros k Hk. rewrite !keys_of_Nd in *. apply in_app_or in Hk as [Hk|Hk].
        + destruct (Rf0 k Hk) as [k' [A B]]. exists k'. split; [apply in_or_app; left; exact A|exact B].
        + destruct (Rf1 k Hk) as [k' [A B]]. exists k'. split; [apply in_or_app; right; exact A|exact B].
      - intros p [Hp0 Hp1]. rewrite keys_of_Nd in Hp0, Hp1.
        apply in_app_or in Hp0. apply in_app_or in Hp1.
        destruct Hp0 as [Hp0|Hp0]; destruct Hp1 as [Hp1|Hp1].
        + apply (Ns0 p). auto.
        + (* p ++ [false] under q ++ [false], p ++ [true] under q ++ [true]: p = q *)
          pose proof (wf_at_keys_prefix _ _ _ W0' Hp0) as P0. pose proof (wf_at_keys_prefix _ _ _ W1' Hp1) as P1.
          assert (p = q).
          { pose proof (is_prefix_length _ _ P0) as L0. rewrite !app_length in L0. simpl in L0.
            destruct (Nat.eq_dec (length p) (length q)) as [El|Nl].
            - apply is_prefix_snoc_l in P0. symmetry.
              apply (is_prefix_same_length q p); [|lia].
              apply (is_prefix_app_inv q p [false]); [exact P0|lia].
            - exfalso. (* p is longer than q: it lies under both children *)
              assert (A0 : is_prefix (q ++ [false]) p = true).
              { apply (is_prefix_app_inv _ p [false]); [exact P0|rewrite app_length; simpl; lia]. }
              assert (A1 : is_prefix (q ++ [true]) p = true).
              { apply (is_prefix_app_inv _ p [true]); [exact P1|rewrite app_length; simpl; lia]. }
              destruct (siblings_incomparable q p p A0 A1) as [C _]. rewrite is_prefix_refl in C. discriminate. }
          subst p. apply Nsib.
          destruct (wf_leaf_at _ _ W0' Hp0) as [d0 X0]. destruct (wf_leaf_at _ _ W1' Hp1) as [d1 X1]. eauto.
        + (* p ++ [false] under q ++ [true] and p ++ [true] under q ++ [false]: impossible *)
          exfalso.
          pose proof (wf_at_keys_prefix _ _ _ W1' Hp0) as P0. pose proof (wf_at_keys_prefix _ _ _ W0' Hp1) as P1.
          pose proof (is_prefix_length _ _ P0) as L0. rewrite !app_length in L0. simpl in L0.
          apply is_prefix_snoc in P0 as [P0 N0]. apply is_prefix_snoc in P1 as [P1 N1].
          destruct (Nat.eq_dec (length p) (length q)) as [El|Nl].
          * rewrite <- El in N0. rewrite nth_error_snoc_last in N0. discriminate.
          * assert (Lq : length q < length p) by lia.
            rewrite nth_error_app1 in N0, N1 by exact Lq. congruence.
        + apply (Ns1 p). auto. }
    destruct (coalesce dz t0) as [|k0 e0|a0 b0] eqn:C0.
    + apply Kept; [rewrite coalesce_Nd, C0; reflexivity|]. intros [d0 [d1 [X _]]]. discriminate.
    + destruct (coalesce dz t1) as [|k1 e1|a1 b1] eqn:C1.
      * apply Kept; [rewrite coalesce_Nd, C0, C1; reflexivity|]. intros [d0 [d1 [_ X]]]. discriminate.
      * simpl in W0', W1'.
        destruct ((0 <? length k0) && Nat.eqb (length k0) (length k1) && Nat.eqb (cpl k0 k1) (length k0 - 1)) eqn:Et.
        -- (* merge *)
           rewrite coalesce_Nd, C0, C1, Et.
           apply (sibling_test q k0 k1 W0' W1') in Et as [-> ->].
           assert (F : fullt q (Nd t0 t1)) by (simpl; split; [eapply Fl0|eapply Fl1]; reflexivity).
           rewrite app_length. simpl length. replace (length q + 1 - 1) with (length q) by lia.
           rewrite firstn_snoc.
           split; [simpl; apply is_prefix_refl|]. split; [split; discriminate|].
           split; [intros _ _; exact F|]. split; [intros _; exists dz; reflexivity|].
           split; [|split].
           ++ intros k' [<-|[]].
              rewrite (filter_all (is_prefix q)).
              ** apply (fullt_covers (Nd t0 t1) q); [simpl; auto|exact F].
              ** intros y Hy. apply (wf_at_keys_prefix q (Nd t0 t1)); [simpl; auto|exact Hy].
           ++ intros k Hk. exists q. split; [left; reflexivity|].
              apply (wf_at_keys_prefix q (Nd t0 t1)); [simpl; auto|exact Hk].
           ++ intros p [[X|[]] [Y|[]]]. rewrite X in Y. apply app_inv_head in Y. discriminate.
        -- apply Kept; [rewrite coalesce_Nd, C0, C1, Et; reflexivity|].
           intros [d0 [d1 [X0 X1]]]. inversion X0; inversion X1; subst.
           assert (T : (0 <? length (q ++ [false])) && Nat.eqb (length (q ++ [false])) (length (q ++ [true]))
                       && Nat.eqb (cpl (q ++ [false]) (q ++ [true])) (length (q ++ [false]) - 1) = true)
             by (apply (sibling_test q); auto).
           congruence.
      * apply Kept; [rewrite coalesce_Nd, C0, C1; reflexivity|]. intros [d0 [d1 [_ X]]]. discriminate.
    + apply Kept; [rewrite coalesce_Nd, C0; reflexivity|]. intros [d0 [d1 [X _]]]. discriminate.
Qed.

(* CoalesceTrie on a well-formed trie: the result is well formed; every key of the result is a
   prefix tiled exactly by the old keys below it; every old key lies below a key of the result;
   no two keys of the result are siblings *)
Theorem coalesce_exact (t : trie D) : wf t ->
  let t' := coalesce dz t in
  wf t' /\
  (forall k', In k' (keys_of t') -> covers (filter (is_prefix k') (keys_of t)) k') /\
  (forall k, In k (keys_of t) -> exists k', In k' (keys_of t') /\ is_prefix k' k = true) /\
  (forall p, ~ (In (p ++ [false]) (keys_of t') /\ In (p ++ [true]) (keys_of t'))).
Proof.
  intro Hw. destruct (coalesce_spec t [] Hw) as [W [_ [_ [_ [A [B C]]]]]]. cbv zeta. auto.
Qed.

End Coalesce.
