(* Completion counting of optimistic provide (Model/OptProvide.v). *)
From Verif.Lib Require Import GoSem.
From Verif.Gen Require Import Consts.
From Verif.Model Require Import OptProvide.

Definition receivers (s : ost) : nat :=
  match ph s with P2 k => k + consumers s | _ => consumers s end.

Record OInv (s : ost) : Prop := {
  oi_comp : completed s <= o_n s;
  oi_tok : done s + queue s = completed s;           (* every token is counted once or still queued *)
  oi_closed : closed s <= 1;
  oi_closed_all : closed s = 1 -> done s = o_n s;     (* closed only when everything was counted *)
  oi_th : o_th s <= o_n s;
  oi_ph : match ph s with
          | P1 => consumers s = 0 /\ done s < o_th s /\ closed s = 0
          | P2 k => 0 < k /\ done s + k + consumers s = o_n s
          | Ret => o_n s = 0 \/ (o_th s <= done s + consumers s /\ done s + consumers s = o_n s)
          end;
  oi_open : done s < o_n s -> closed s = 0 }.

Lemma init_inv K n : 1 <= return_threshold K -> OInv (init K n).
Proof.
  intro H. unfold init. destruct n as [|n]; split; simpl; try lia; auto.
Qed.

Lemma p2_cases k : (k = 0 /\ p2 k = Ret) \/ (0 < k /\ p2 k = P2 k).
Proof. destruct k; [left|right]; simpl; split; auto; lia. Qed.

Ltac ar := first [lia | intros; lia].

Lemma ostep_inv s e s' : OInv s -> ostep s e = Some s' -> OInv s' /\ o_n s' = o_n s /\ o_th s' = o_th s.
Proof.
  intros I H. destruct I as [C T CL CA TH PH OP]. destruct e; unfold ostep in H.
  - destruct (Nat.ltb (completed s) (o_n s)) eqn:E; [|discriminate]. apply Nat.ltb_lt in E.
    inversion H; subst s'; clear H. split; [|auto]. split; cbn [ph done consumers closed o_n o_th queue completed]; [ar|ar|ar|exact CA|ar|exact PH|exact OP].
  - destruct (queue s) as [|q] eqn:Q; [discriminate|]. destruct (ph s) as [|[|k]|] eqn:P; try discriminate.
    + (* phase 1 receive *)
      cbv zeta in H. remember (Nat.eqb (S (done s)) (o_th s)) as b eqn:E. symmetry in E.
      inversion H; subst s'; clear H. split; [|auto]. destruct PH as (P1a & P1b & P1c).
      split; cbn [ph done consumers closed o_n o_th queue completed]; [ar|ar|ar|ar|ar| |ar].
      destruct b.
      * apply Nat.eqb_eq in E. destruct (p2_cases (o_n s - S (done s))) as [[K0 ->]|[K0 ->]]; [right|]; lia.
      * apply Nat.eqb_neq in E. lia.
    + (* phase 2 receive *)
      cbv zeta in H. remember (Nat.eqb (S (done s)) (o_n s)) as b eqn:E. symmetry in E.
      inversion H; subst s'; clear H. split; [|auto]. destruct PH as (P2a & P2b).
      assert (OPEN: closed s = 0) by (apply OP; lia).
      destruct b; [apply Nat.eqb_eq in E|apply Nat.eqb_neq in E];
        (split; cbn [ph done consumers closed o_n o_th queue completed]; [ar|ar|ar|ar|ar| |ar]);
        (destruct (p2_cases k) as [[K0 ->]|[K0 ->]]; [right|]; lia).
  - destruct (ph s) as [|[|k]|] eqn:P; try discriminate.
    inversion H; subst s'; clear H. split; [|auto]. destruct PH as (P2a & P2b).
    split; cbn [ph done consumers closed o_n o_th queue completed]; [ar|ar|ar|exact CA|ar| |exact OP].
    destruct (p2_cases k) as [[K0 ->]|[K0 ->]]; [right|]; lia.
  - destruct (queue s) as [|q] eqn:Q; [discriminate|]. destruct (consumers s) as [|cn] eqn:CN; [discriminate|].
    cbv zeta in H. remember (Nat.eqb (S (done s)) (o_n s)) as b eqn:E. symmetry in E.
    inversion H; subst s'; clear H. split; [|auto].
    assert (DN: done s < o_n s).
    { destruct (ph s) eqn:P; [destruct PH; lia|lia|destruct PH as [X|X]; lia]. }
    assert (OPEN: closed s = 0) by (apply OP; exact DN).
    destruct b; [apply Nat.eqb_eq in E|apply Nat.eqb_neq in E];
      (split; cbn [ph done consumers closed o_n o_th queue completed]; [ar|ar|ar|ar|ar| |ar]);
      (destruct (ph s) eqn:P; [destruct PH; lia|lia|destruct PH as [X|X]; [left; exact X|right; lia]]).
Qed.

Lemma orun_inv evs : forall s s', OInv s -> orun s evs = Some s' -> OInv s' /\ o_n s' = o_n s /\ o_th s' = o_th s.
Proof.
  induction evs as [|e evs IH]; intros s s' I H; simpl in H.
  - inversion H; subst. auto.
  - destruct (ostep s e) as [s1|] eqn:E; [|discriminate].
    destruct (ostep_inv s e s1 I E) as (I1 & N1 & T1). destruct (IH s1 s' I1 H) as (I' & N' & T'). split; [exact I'|]. split; congruence.
Qed.

(* progress: while waitForRPCs has not returned, and as long as the RPCs that
   were started do complete, some event is enabled *)
Lemma progress s : OInv s -> 1 <= o_th s -> ph s <> Ret ->
  (exists s', ostep s MainRecv = Some s') \/ (exists s', ostep s MainLease = Some s') \/ (exists s', ostep s RpcDone = Some s').
Proof.
  intros I TH P. destruct I as [C T CL CA THn PH OP]. destruct (ph s) as [|k|] eqn:E; [|destruct PH as [K0 _]|congruence].
  - destruct PH as (A & B & _). destruct (queue s) as [|q] eqn:Q.
    + right. right. unfold ostep. assert (completed s < o_n s) by lia. apply Nat.ltb_lt in H. rewrite H. eauto.
    + left. unfold ostep. rewrite Q, E. eauto.
  - right. left. unfold ostep. rewrite E. destruct k; [lia|eauto].
Qed.
