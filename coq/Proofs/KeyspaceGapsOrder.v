(* TrieGaps returns its gaps sorted by the order (C18): sortBitstrKeysByOrder sorts pairwise
   non-comparable keys, and the branches are visited in the order. *)
From Verif.Lib Require Import GoSem Bits.
From Verif.Model Require Import Trie Keyspace.
From Verif.Proofs Require Import KeyspaceBase KeyspaceProofs KeyspaceCovered KeyspaceGaps.
From Coq Require Import Permutation Sorted.

Lemma firstn_le_eq {A} : forall j i (a b : list A), j <= i -> firstn i a = firstn i b -> firstn j a = firstn j b.
Proof.
  induction j as [|j IH]; intros i a b Hj H; [reflexivity|]. destruct i as [|i]; [lia|].
  destruct a, b; simpl in *; try reflexivity; try discriminate.
  inversion H. f_equal. eapply IH; [|eassumption]. lia.
Qed.

Lemma firstn_nth_eq {A} : forall j i (a b : list A), j < i -> firstn i a = firstn i b -> nth_error a j = nth_error b j.
Proof.
  induction j as [|j IH]; intros i a b Hj H; (destruct i as [|i]; [lia|]);
    destruct a, b; simpl in *; try reflexivity; try discriminate; inversion H; subst; try reflexivity.
  eapply IH; [|eassumption]. lia.
Qed.

Lemma SS_snoc {A} (R : A -> A -> Prop) l a :
  StronglySorted R l -> Forall (fun z => R z a) l -> StronglySorted R (l ++ [a]).
Proof.
  induction 1 as [|x l S IH Hx]; intro Hf; simpl; [repeat constructor|].
  inversion Hf; subst. constructor; [apply IH; assumption|].
  apply Forall_app. split; [exact Hx|]. constructor; [assumption|constructor].
Qed.

Lemma SS_rev {A} (R : A -> A -> Prop) l :
  StronglySorted (fun u v => R v u) l -> StronglySorted R (rev l).
Proof.
  induction 1 as [|x l S IH Hx]; simpl; [constructor|].
  apply SS_snoc; [exact IH|]. apply Forall_forall. intros z Hz. apply in_rev in Hz.
  rewrite Forall_forall in Hx. apply Hx. exact Hz.
Qed.

Lemma ord_before_trans order a b c : ord_before order a b -> ord_before order b c -> ord_before order a c.
Proof.
  intros [i [x [F1 [A1 [B1 O1]]]]] [j [y [F2 [A2 [B2 O2]]]]].
  destruct (Nat.lt_trichotomy i j) as [Hlt|[Heq|Hgt]].
  - exists i, x. split; [rewrite F1; apply (firstn_le_eq i j b c); [lia|exact F2]|].
    split; [exact A1|]. split; [|exact O1]. rewrite <- (firstn_nth_eq i j b c Hlt F2). exact B1.
  - subst j. rewrite B1 in A2. rewrite O1 in O2. inversion O2. subst y. inversion A2. destruct x; discriminate.
  - exists j, y. split; [rewrite <- F2; apply (firstn_le_eq j i a b); [lia|exact F1]|].
    split; [rewrite (firstn_nth_eq j i a b Hgt F1); exact A2|]. split; [exact B2|exact O2].
Qed.

(* the comparison function of sortBitstrKeysByOrder decides [ord_before] on non-comparable keys *)
Lemma order_cmp_spec : forall a b order,
  comparable a b = false -> length a <= length order ->
  (order_cmp a b order = Lt /\ ord_before order a b) \/ (order_cmp a b order = Gt /\ ord_before order b a).
Proof.
  induction a as [|x a IH]; intros b order Hc Hl.
  - unfold comparable in Hc. simpl in Hc. discriminate.
  - destruct b as [|y b]; [unfold comparable in Hc; simpl in Hc; discriminate|].
    destruct order as [|o order]; [simpl in Hl; lia|].
    simpl. destruct (Bool.eqb x y) eqn:E1.
    + apply eqb_prop in E1. subst y.
      assert (Hc' : comparable a b = false).
      { unfold comparable in *. simpl in Hc. rewrite eqb_reflx in Hc. simpl in Hc. exact Hc. }
      destruct (IH b order Hc') as [[C [i [z [F [A [B O]]]]]]|[C [i [z [F [A [B O]]]]]]]; [simpl in Hl; lia| |].
      * left. split; [exact C|]. exists (S i), z. simpl. rewrite F. auto.
      * right. split; [exact C|]. exists (S i), z. simpl. rewrite F. auto.
    + destruct (Bool.eqb x o) eqn:E2.
      * apply eqb_prop in E2. subst o. left. split; [reflexivity|]. exists 0, x. simpl. repeat split; auto.
        destruct x, y; simpl in E1; try discriminate; reflexivity.
      * right. split; [reflexivity|]. exists 0, y. simpl. repeat split; auto.
        -- destruct x, y; simpl in E1; try discriminate; reflexivity.
        -- destruct x, y, o; simpl in *; try discriminate; reflexivity.
Qed.

Definition incomp (a b : bits) : Prop := comparable a b = false.

Lemma incomp_sym a b : incomp a b -> incomp b a.
Proof. unfold incomp. rewrite comparable_sym. auto. Qed.

(* insertion keeps the processed prefix sorted (the prefix is kept reversed: descending) *)
Lemma ins_rev_sorted order x : forall rl,
  StronglySorted (fun u v => ord_before order v u) rl ->
  Forall (incomp x) rl -> length x <= length order ->
  StronglySorted (fun u v => ord_before order v u) (ins_rev order x rl).
Proof.
  induction rl as [|y rl IH]; intros S Hi Hl; simpl.
  - constructor; constructor.
  - inversion S; subst. inversion Hi; subst.
    destruct (order_cmp_spec x y order H3 Hl) as [[C Hb]|[C Hb]]; rewrite C.
    + (* x before y: y stays last-so-far, x goes further down *)
      constructor; [apply IH; assumption|].
      apply Forall_forall. intros z Hz. apply ins_rev_In in Hz as [->|Hz]; [exact Hb|].
      rewrite Forall_forall in H2. apply H2. exact Hz.
    + constructor; [exact S|]. constructor; [exact Hb|].
      apply Forall_forall. intros z Hz. rewrite Forall_forall in H2.
      eapply ord_before_trans; [apply H2; exact Hz|exact Hb].
Qed.

Lemma sort_by_order_sorted order l :
  ForallOrdPairs incomp l -> Forall (fun x => length x <= length order) l ->
  StronglySorted (ord_before order) (sort_by_order l order).
Proof.
  intros Hp Hl. unfold sort_by_order.
  assert (G : forall rl, StronglySorted (fun u v => ord_before order v u) rl ->
              (forall x, In x l -> Forall (incomp x) rl) ->
              StronglySorted (fun u v => ord_before order v u) (fold_left (fun rl x => ins_rev order x rl) l rl)).
  { induction Hp as [|a l Ha Hp IH]; intros rl S Hi; simpl; [exact S|].
    inversion Hl; subst. apply IH; auto.
    - apply ins_rev_sorted; auto. apply Hi. left. reflexivity.
    - intros x Hx. apply Forall_forall. intros z Hz. apply ins_rev_In in Hz as [->|Hz].
      + apply incomp_sym. rewrite Forall_forall in Ha. apply Ha. exact Hx.
      + specialize (Hi x (or_intror Hx)). rewrite Forall_forall in Hi. apply Hi. exact Hz. }
  apply SS_rev. apply G; [constructor|]. intros x _. constructor.
Qed.

(* ---- sibling prefixes are pairwise non-comparable and no longer than the key ----------------- *)
Lemma sib_from_prefix k : forall pre x, In x (sibling_prefixes_from pre k) -> is_prefix pre x = true.
Proof.
  induction k as [|b k IH]; intros pre x H; simpl in H; [destruct H|].
  destruct H as [<-|H]; [apply is_prefix_app|].
  apply IH in H. eapply is_prefix_snoc_l. exact H.
Qed.

Lemma sib_from_incomp k : forall pre, ForallOrdPairs incomp (sibling_prefixes_from pre k).
Proof.
  induction k as [|b k IH]; intro pre; simpl; constructor; [|apply IH].
  apply Forall_forall. intros y Hy. apply sib_from_prefix in Hy.
  apply (other_branch_incomparable pre (negb b)); [apply is_prefix_refl|rewrite negb_involutive; exact Hy].
Qed.

Lemma sib_from_length k : forall pre x, In x (sibling_prefixes_from pre k) -> length x <= length pre + length k.
Proof.
  induction k as [|b k IH]; intros pre x H; simpl in H; [destruct H|].
  destruct H as [<-|H]; [rewrite app_length; simpl; lia|].
  apply IH in H. rewrite app_length in H. simpl in *. lia.
Qed.

Lemma FOP_skipn {A} (R : A -> A -> Prop) l : forall n, ForallOrdPairs R l -> ForallOrdPairs R (skipn n l).
Proof.
  induction l as [|a l IH]; intros n H; [rewrite skipn_nil; constructor|].
  destruct n; [exact H|]. simpl. inversion H; subst. apply IH. assumption.
Qed.

Lemma In_skipn {A} (l : list A) n x : In x (skipn n l) -> In x l.
Proof.
  revert n; induction l as [|a l IH]; intros n H; [rewrite skipn_nil in H; exact H|].
  destruct n; [exact H|]. right. eapply IH. exact H.
Qed.

Lemma siblings_sorted k n order : length k <= length order ->
  StronglySorted (ord_before order) (sort_by_order (skipn n (sibling_prefixes k)) order).
Proof.
  intro Hl. apply sort_by_order_sorted.
  - apply FOP_skipn. apply sib_from_incomp.
  - apply Forall_forall. intros x Hx. apply In_skipn in Hx. apply sib_from_length in Hx. simpl in Hx. lia.
Qed.

Lemma ord_before_branches p order b x y :
  nth_error order (length p) = Some b ->
  is_prefix (p ++ [b]) x = true -> is_prefix (p ++ [negb b]) y = true -> ord_before order x y.
Proof.
  intros Ho H0 H1. apply is_prefix_snoc in H0 as [A0 B0]. apply is_prefix_snoc in H1 as [A1 B1].
  exists (length p), b. rewrite (is_prefix_firstn _ _ A0), (is_prefix_firstn _ _ A1). auto.
Qed.

Lemma SS_app {A} (R : A -> A -> Prop) l1 l2 :
  StronglySorted R l1 -> StronglySorted R l2 -> (forall x y, In x l1 -> In y l2 -> R x y) ->
  StronglySorted R (l1 ++ l2).
Proof.
  induction 1 as [|a l1 S IH Ha]; intros S2 Hc; simpl; [exact S2|].
  constructor.
  - apply IH; auto. intros; apply Hc; auto. right; assumption.
  - apply Forall_app. split; [exact Ha|]. apply Forall_forall. intros y Hy. apply Hc; [left; reflexivity|exact Hy].
Qed.

Section GapsOrder.
Context {D : Type}.

Lemma leaf_gaps_sorted k target order :
  (forall k', k = Some k' -> length k' <= length order) ->
  StronglySorted (ord_before order) (leaf_gaps k target order).
Proof.
  intro Hl. destruct k as [k|]; simpl; [|repeat constructor].
  destruct (is_prefix target k); [apply siblings_sorted; apply Hl; reflexivity|].
  destruct (is_prefix k target); repeat constructor.
Qed.

(* one visited branch: sorted, and everything lies below the branch *)
Lemma gaps_visit_sorted rec (t0 t1 : trie D) p depth target order i g :
  wf_at p (Nd t0 t1) -> length p = depth ->
  (length target <= depth \/ is_prefix p target = true) ->
  (forall k, In k (keys_of (Nd t0 t1)) -> length k <= length order) ->
  (forall c g', c = child t0 t1 i ->
                (length target <= S depth \/ is_prefix (p ++ [i]) target = true) ->
                rec c (S depth) target order = Ok g' ->
                StronglySorted (ord_before order) (map (app (p ++ [i])) g')) ->
  gaps_visit rec t0 t1 depth target order i = Ok g ->
  StronglySorted (ord_before order) (map (app p) g) /\
  Forall (fun x => is_prefix (p ++ [i]) x = true) (map (app p) g).
Proof.
  intros Hw Hp Hal Hlen IH. unfold gaps_visit.
  destruct (length target <=? depth) eqn:Ein.
  - (* inside the target *)
    cbn [bind negb andb]. cbv zeta. pose proof (wf_at_child p t0 t1 i Hw) as Wc.
    destruct (child t0 t1 i) as [|k d|a b] eqn:Ec.
    + intro H. injection H as <-. simpl. split; [repeat constructor|]. constructor; [apply is_prefix_refl|constructor].
    + simpl in Wc.
      assert (Lk : length k <= length order).
      { apply Hlen. rewrite keys_of_Nd. apply in_or_app. destruct i; simpl in Ec; rewrite Ec; [right|left]; left; reflexivity. }
      destruct (S depth <? length k) eqn:El; intro H; injection H as <-; [|simpl; split; constructor].
      change (match sibling_prefixes k with [] => [] | _ :: l => skipn depth l end)
        with (skipn (S depth) (sibling_prefixes k)).
      rewrite map_map.
      assert (Same : map (fun x => p ++ skipn depth x) (sort_by_order (skipn (S depth) (sibling_prefixes k)) order)
                     = sort_by_order (skipn (S depth) (sibling_prefixes k)) order).
      { rewrite <- (map_id (sort_by_order _ _)) at 2. apply map_ext_in. intros y Hy.
        apply sort_by_order_In in Hy. apply sib_skipn in Hy as [a [b [r [E1 [E2 Hl]]]]].
        rewrite <- Hp. apply app_skipn_prefix. subst y k. apply is_prefix_snoc_l in Wc.
        apply is_prefix_app_r. eapply is_prefix_app_inv; [exact Wc|lia]. }
      rewrite Same. split; [apply siblings_sorted; exact Lk|].
      apply Forall_forall. intros y Hy. apply sort_by_order_In in Hy. apply sib_skipn in Hy as [a [b [r [E1 [E2 Hl]]]]].
      subst y k. apply is_prefix_app_r. eapply is_prefix_app_inv; [exact Wc|rewrite app_length; simpl; lia].
    + destruct (rec (Nd a b) (S depth) target order) as [g'| |] eqn:Er; cbn [bind]; try discriminate.
      intro H. injection H as <-. rewrite map_map.
      assert (Same : map (fun x => p ++ i :: x) g' = map (app (p ++ [i])) g').
      { apply map_ext. intro x. rewrite <- app_assoc. reflexivity. }
      rewrite Same. split; [apply (IH (Nd a b) g' eq_refl); [left; apply Nat.leb_le in Ein; lia|exact Er]|].
      apply Forall_forall. intros y Hy. apply in_map_iff in Hy as [x [<- _]]. apply is_prefix_app.
  - (* descending along the target *)
    apply Nat.leb_gt in Ein. destruct Hal as [Hal|Ppt]; [lia|].
    destruct (bit_at_lt target depth Ein) as [tb [Htb Ntb]]. rewrite Htb. cbn [bind].
    destruct (Bool.eqb i tb) eqn:Eit; cbn [negb].
    2: { intro H. injection H as <-. simpl. split; constructor. }
    apply eqb_prop in Eit. subst tb.
    assert (Ppt' : is_prefix (p ++ [i]) target = true) by (apply is_prefix_snoc; rewrite Hp; auto).
    cbv zeta. cbn [negb andb]. pose proof (wf_at_child p t0 t1 i Hw) as Wc.
    assert (Above : forall kk, (forall k', kk = Some k' -> length k' <= length order) -> forall g0,
              Ok (map (skipn depth) (leaf_gaps kk target order)) = Ok g0 ->
              StronglySorted (ord_before order) (map (app p) g0) /\
              Forall (fun x => is_prefix (p ++ [i]) x = true) (map (app p) g0)).
    { intros kk Hkk g0 H. injection H as <-.
      assert (Under : forall y, In y (leaf_gaps kk target order) -> is_prefix target y = true).
      { intros y Hy. destruct kk as [k'|]; [apply (leaf_gaps_some k' target order) in Hy|apply (leaf_gaps_none target order) in Hy];
          apply Hy. }
      rewrite <- Hp. rewrite map_app_skipn.
      - split; [apply leaf_gaps_sorted; exact Hkk|].
        apply Forall_forall. intros y Hy. eapply is_prefix_trans; [exact Ppt'|apply Under; exact Hy].
      - intros y Hy. eapply is_prefix_trans; [exact Ppt|apply Under; exact Hy]. }
    destruct (child t0 t1 i) as [|k d|a b] eqn:Ec.
    + destruct (S depth <? length target) eqn:Eab.
      * apply Above. intros k' X. discriminate.
      * intro H. injection H as <-. simpl. split; [repeat constructor|]. constructor; [apply is_prefix_refl|constructor].
    + simpl in Wc.
      assert (Lk : length k <= length order).
      { apply Hlen. rewrite keys_of_Nd. apply in_or_app. destruct i; simpl in Ec; rewrite Ec; [right|left]; left; reflexivity. }
      destruct (S depth <? length target) eqn:Eab.
      * apply Above. intros k' X. inversion X. subst. exact Lk.
      * destruct (S depth <? length k) eqn:El; intro H; injection H as <-; [|simpl; split; constructor].
        change (match sibling_prefixes k with [] => [] | _ :: l => skipn depth l end)
          with (skipn (S depth) (sibling_prefixes k)).
        rewrite map_map.
        assert (Same : map (fun x => p ++ skipn depth x) (sort_by_order (skipn (S depth) (sibling_prefixes k)) order)
                       = sort_by_order (skipn (S depth) (sibling_prefixes k)) order).
        { rewrite <- (map_id (sort_by_order _ _)) at 2. apply map_ext_in. intros y Hy.
          apply sort_by_order_In in Hy. apply sib_skipn in Hy as [a [b [r [E1 [E2 Hl]]]]].
          rewrite <- Hp. apply app_skipn_prefix. subst y k. apply is_prefix_snoc_l in Wc.
          apply is_prefix_app_r. eapply is_prefix_app_inv; [exact Wc|lia]. }
        rewrite Same. split; [apply siblings_sorted; exact Lk|].
        apply Forall_forall. intros y Hy. apply sort_by_order_In in Hy. apply sib_skipn in Hy as [a [b [r [E1 [E2 Hl]]]]].
        subst y k. apply is_prefix_app_r. eapply is_prefix_app_inv; [exact Wc|rewrite app_length; simpl; lia].
    + destruct (rec (Nd a b) (S depth) target order) as [g'| |] eqn:Er; cbn [bind]; try discriminate.
      intro H. injection H as <-. rewrite map_map.
      assert (Same : map (fun x => p ++ i :: x) g' = map (app (p ++ [i])) g').
      { apply map_ext. intro x. rewrite <- app_assoc. reflexivity. }
      rewrite Same. split; [apply (IH (Nd a b) g' eq_refl); [right; exact Ppt'|exact Er]|].
      apply Forall_forall. intros y Hy. apply in_map_iff in Hy as [x [<- _]]. apply is_prefix_app.
Qed.

Lemma gaps_at_sorted (s : trie D) : forall p depth target order g,
  wf_at p s -> length p = depth -> height s + depth <= length order ->
  (length target <= depth \/ is_prefix p target = true) ->
  (forall k, In k (keys_of s) -> length k <= length order) ->
  gaps_at s depth target order = Ok g ->
  StronglySorted (ord_before order) (map (app p) g).
Proof.
  induction s as [|k d|t0 IH0 t1 IH1]; intros p depth target order g Hw Hp Hh Hal Hlen H.
  - simpl in H. inversion H. constructor.
  - simpl in H. inversion H. constructor.
  - rewrite gaps_at_Nd in H. simpl in Hh.
    destruct (bit_at_lt order depth) as [ob [Hob Nob]]; [lia|]. rewrite Hob in H. cbn [bind] in H.
    destruct (gaps_visit gaps_at t0 t1 depth target order ob) as [g1| |] eqn:E1; cbn [bind] in H; try discriminate.
    destruct (gaps_visit gaps_at t0 t1 depth target order (negb ob)) as [g2| |] eqn:E2; cbn [bind] in H; try discriminate.
    inversion H. subst g. rewrite map_app.
    assert (IH : forall i c g', c = child t0 t1 i ->
                 (length target <= S depth \/ is_prefix (p ++ [i]) target = true) ->
                 gaps_at c (S depth) target order = Ok g' ->
                 StronglySorted (ord_before order) (map (app (p ++ [i])) g')).
    { intros i c g' Ec Hal' Eg. pose proof (wf_at_child p t0 t1 i Hw) as Wc. pose proof (height_child t0 t1 i) as Hc.
      simpl in Hc. subst c.
      destruct i; simpl child in *.
      - apply (IH1 (p ++ [true]) (S depth) target order g'); auto.
        + rewrite app_length; simpl; lia.
        + lia.
        + intros k Hk. apply Hlen. rewrite keys_of_Nd. apply in_or_app. right. exact Hk.
      - apply (IH0 (p ++ [false]) (S depth) target order g'); auto.
        + rewrite app_length; simpl; lia.
        + lia.
        + intros k Hk. apply Hlen. rewrite keys_of_Nd. apply in_or_app. left. exact Hk. }
    destruct (gaps_visit_sorted gaps_at t0 t1 p depth target order ob g1 Hw Hp Hal Hlen (IH ob) E1) as [S1 F1].
    destruct (gaps_visit_sorted gaps_at t0 t1 p depth target order (negb ob) g2 Hw Hp Hal Hlen (IH (negb ob)) E2) as [S2 F2].
    apply SS_app; auto. intros x y Hx Hy. rewrite Forall_forall in F1, F2.
    apply (ord_before_branches p order ob); [rewrite Hp; exact Nob|apply F1; exact Hx|apply F2; exact Hy].
Qed.

(* TrieGaps returns its gaps sorted by the order, for every target *)
Theorem gaps_sorted (t : trie D) target order g :
  wf t -> height t <= length order -> (forall k, In k (keys_of t) -> length k <= length order) ->
  trie_gaps t target order = Ok g -> StronglySorted (ord_before order) g.
Proof.
  intros Hw Hh Hlen H. destruct t as [|k d|t0 t1].
  - cbn [trie_gaps] in H. injection H as <-. apply (leaf_gaps_sorted None). intros k' X. discriminate.
  - cbn [trie_gaps] in H. injection H as <-. apply (leaf_gaps_sorted (Some k)). intros k' X. inversion X. subst.
    apply Hlen. left. reflexivity.
  - pose proof (gaps_at_sorted (Nd t0 t1) [] 0 target order g Hw eq_refl) as G.
    rewrite map_id in G. apply G; auto. simpl in *; lia.
Qed.

End GapsOrder.
