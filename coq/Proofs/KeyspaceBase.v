(* Foundations for the C18 proofs: bit-list lemmas, well-formed tries, key sets. *)
From Verif.Lib Require Import GoSem Bits.
From Verif.Model Require Import Trie Keyspace.
From Coq Require Import Permutation.

(* ---- bit lists ------------------------------------------------------------ *)
Lemma is_prefix_length p k : is_prefix p k = true -> length p <= length k.
Proof.
  revert k; induction p as [|x p IH]; intros [|y k]; simpl; intro H; try lia; try discriminate.
  apply andb_true_iff in H as [_ H]. apply IH in H. lia.
Qed.

Lemma is_prefix_same_length p k : is_prefix p k = true -> length p = length k -> p = k.
Proof.
  revert k; induction p as [|x p IH]; intros [|y k]; simpl; intros H Hl; try reflexivity; try discriminate.
  apply andb_true_iff in H as [E H]. apply eqb_prop in E. subst. f_equal. apply IH; [exact H|lia].
Qed.

Lemma is_prefix_snoc p b k :
  is_prefix (p ++ [b]) k = true <-> is_prefix p k = true /\ nth_error k (length p) = Some b.
Proof.
  revert k; induction p as [|x p IH]; intros [|y k]; simpl.
  - split; [discriminate|intros [_ H]; discriminate].
  - rewrite andb_true_r. split.
    + intro H. apply eqb_prop in H. subst. auto.
    + intros [_ H]. inversion H. apply eqb_reflx.
  - split; [discriminate|intros [H _]; discriminate].
  - rewrite !andb_true_iff, IH. tauto.
Qed.

Lemma is_prefix_snoc_l p b k : is_prefix (p ++ [b]) k = true -> is_prefix p k = true.
Proof. intro H. apply is_prefix_snoc in H. tauto. Qed.

Lemma is_prefix_nth p k i :
  is_prefix p k = true -> i < length p -> nth_error k i = nth_error p i.
Proof.
  revert k i; induction p as [|x p IH]; intros [|y k] i; simpl; intros H Hi; try lia; try discriminate.
  apply andb_true_iff in H as [E H]. apply eqb_prop in E. subst.
  destruct i; simpl; [reflexivity|]. apply IH; [exact H|lia].
Qed.

Lemma nth_error_snoc_last {A} (p : list A) b : nth_error (p ++ [b]) (length p) = Some b.
Proof. induction p; simpl; auto. Qed.

(* two keys under the two children of one node are not comparable *)
Lemma siblings_incomparable p a b :
  is_prefix (p ++ [false]) a = true -> is_prefix (p ++ [true]) b = true ->
  is_prefix a b = false /\ is_prefix b a = false.
Proof.
  intros Ha Hb. apply is_prefix_snoc in Ha as [Ha1 Ha2]. apply is_prefix_snoc in Hb as [Hb1 Hb2].
  assert (La : length p < length a) by (apply nth_error_Some; congruence).
  assert (Lb : length p < length b) by (apply nth_error_Some; congruence).
  split.
  - destruct (is_prefix a b) eqn:E; [|reflexivity].
    rewrite (is_prefix_nth a b (length p) E La) in Hb2. congruence.
  - destruct (is_prefix b a) eqn:E; [|reflexivity].
    rewrite (is_prefix_nth b a (length p) E Lb) in Ha2. congruence.
Qed.

Lemma cpl_le_l a b : cpl a b <= length a.
Proof.
  revert b; induction a as [|x a IH]; intros [|y b]; simpl; try lia.
  destruct (Bool.eqb x y); [specialize (IH b)|]; lia.
Qed.
Lemma cpl_comm a b : cpl a b = cpl b a.
Proof.
  revert b; induction a as [|x a IH]; intros [|y b]; simpl; try reflexivity.
  destruct x, y; simpl; try reflexivity; f_equal; apply IH.
Qed.
Lemma cpl_is_prefix a b : cpl a b = length a <-> is_prefix a b = true.
Proof.
  revert b; induction a as [|x a IH]; intros [|y b]; simpl; split; intro H;
    try reflexivity; try discriminate.
  - destruct (Bool.eqb x y); simpl; [|discriminate]. apply IH. lia.
  - apply andb_true_iff in H as [E H]. rewrite E. f_equal. apply IH. exact H.
Qed.
Lemma cpl_eqb_is_prefix a b : Nat.eqb (cpl a b) (length a) = is_prefix a b.
Proof.
  destruct (is_prefix a b) eqn:E.
  - apply Nat.eqb_eq. apply cpl_is_prefix. exact E.
  - apply Nat.eqb_neq. intro H. apply cpl_is_prefix in H. congruence.
Qed.
Lemma cpl_eqb_is_prefix_r a b : Nat.eqb (cpl a b) (length b) = is_prefix b a.
Proof. rewrite cpl_comm. apply cpl_eqb_is_prefix. Qed.

Lemma bit_at_ok k i b : bit_at k i = Ok b <-> nth_error k i = Some b.
Proof. unfold bit_at. destruct (nth_error k i); split; intro H; inversion H; reflexivity. Qed.
Lemma bit_at_lt k i : i < length k -> exists b, bit_at k i = Ok b /\ nth_error k i = Some b.
Proof.
  intro H. unfold bit_at. destruct (nth_error k i) eqn:E.
  - eauto.
  - apply nth_error_None in E. lia.
Qed.

(* the child reached by bit b lives on path p ++ [b] *)
Lemma child_path {D} (t0 t1 : trie D) b : child t0 t1 b = if b then t1 else t0.
Proof. reflexivity. Qed.

Lemma NoDup_app_intro {A} (l1 l2 : list A) :
  NoDup l1 -> NoDup l2 -> (forall x, In x l1 -> In x l2 -> False) -> NoDup (l1 ++ l2).
Proof.
  induction l1 as [|a l1 IH]; simpl; intros H1 H2 H; [exact H2|].
  inversion H1; subst. constructor.
  - intro Hin. apply in_app_or in Hin as [Hin|Hin]; [contradiction|]. eapply H; eauto.
  - apply IH; auto. intros x A1 A2. eapply H; eauto.
Qed.

(* ---- well-formed tries ------------------------------------------------------ *)
(* every leaf lies on the path spelled by its key; an inner node holds at least one key
   (Add, AddMany on prefix-free input, Remove, PruneSubtrie, CoalesceTrie keep this) *)
Fixpoint wf_at {D} (p : bits) (t : trie D) : Prop :=
  match t with
  | E => True
  | L k _ => is_prefix p k = true
  | Nd t0 t1 => wf_at (p ++ [false]) t0 /\ wf_at (p ++ [true]) t1 /\ 0 < size t0 + size t1
  end.
Definition wf {D} (t : trie D) : Prop := wf_at [] t.

Lemma wf_at_child {D} p (t0 t1 : trie D) b :
  wf_at p (Nd t0 t1) -> wf_at (p ++ [b]) (child t0 t1 b).
Proof. intros [H0 [H1 _]]. destruct b; assumption. Qed.

Lemma size_entries {D} (t : trie D) : size t = length (entries t).
Proof. induction t; simpl; try reflexivity. rewrite app_length. lia. Qed.

Lemma size_keys {D} (t : trie D) : size t = length (keys_of t).
Proof. unfold keys_of. rewrite map_length. apply size_entries. Qed.

Lemma entries_nil_size {D} (t : trie D) : entries t = [] <-> size t = 0.
Proof. rewrite size_entries. destruct (entries t); simpl; split; intro; try reflexivity; try discriminate; lia. Qed.

(* a well-formed trie without keys is the empty leaf *)
Lemma wf_size0 {D} p (t : trie D) : wf_at p t -> size t = 0 -> t = E.
Proof. destruct t; simpl; intros H Hs; [reflexivity|discriminate|lia]. Qed.

Lemma wf_at_entries_prefix {D} p (t : trie D) e :
  wf_at p t -> In e (entries t) -> is_prefix p (fst e) = true.
Proof.
  revert p; induction t as [|k d|t0 IH0 t1 IH1]; intros p Hw Hin; simpl in *.
  - contradiction.
  - destruct Hin as [<-|[]]. exact Hw.
  - destruct Hw as [H0 [H1 _]]. apply in_app_or in Hin as [Hin|Hin].
    + eapply is_prefix_snoc_l. eapply IH0; eauto.
    + eapply is_prefix_snoc_l. eapply IH1; eauto.
Qed.

Lemma wf_at_keys_prefix {D} p (t : trie D) k :
  wf_at p t -> In k (keys_of t) -> is_prefix p k = true.
Proof.
  intros Hw Hin. unfold keys_of in Hin. apply in_map_iff in Hin as [e [<- He]].
  eapply wf_at_entries_prefix; eauto.
Qed.

Lemma keys_of_Nd {D} (t0 t1 : trie D) : keys_of (Nd t0 t1) = keys_of t0 ++ keys_of t1.
Proof. unfold keys_of. simpl. apply map_app. Qed.

(* the keys of a well-formed trie are pairwise non-comparable: it is prefix-free *)
Lemma wf_prefix_free {D} p (t : trie D) :
  wf_at p t -> forall e1 e2, In e1 (entries t) -> In e2 (entries t) ->
  is_prefix (fst e1) (fst e2) = true -> e1 = e2.
Proof.
  revert p; induction t as [|k d|t0 IH0 t1 IH1]; intros p Hw e1 e2 H1 H2 Hp; simpl in *.
  - contradiction.
  - destruct H1 as [<-|[]]. destruct H2 as [<-|[]]. reflexivity.
  - destruct Hw as [W0 [W1 _]].
    apply in_app_or in H1. apply in_app_or in H2.
    destruct H1 as [H1|H1]; destruct H2 as [H2|H2].
    + eapply IH0; eauto.
    + exfalso. pose proof (wf_at_entries_prefix _ _ _ W0 H1) as A.
      pose proof (wf_at_entries_prefix _ _ _ W1 H2) as B.
      destruct (siblings_incomparable _ _ _ A B). congruence.
    + exfalso. pose proof (wf_at_entries_prefix _ _ _ W1 H1) as A.
      pose proof (wf_at_entries_prefix _ _ _ W0 H2) as B.
      destruct (siblings_incomparable _ _ _ B A). congruence.
    + eapply IH1; eauto.
Qed.

Lemma wf_NoDup_keys {D} p (t : trie D) : wf_at p t -> NoDup (keys_of t).
Proof.
  revert p; induction t as [|k d|t0 IH0 t1 IH1]; intros p Hw; simpl in *.
  - constructor.
  - unfold keys_of; simpl. constructor; [intros []|constructor].
  - destruct Hw as [W0 [W1 _]]. rewrite keys_of_Nd.
    apply NoDup_app_intro; eauto.
    intros x A B. pose proof (wf_at_keys_prefix _ _ _ W0 A) as PA.
    pose proof (wf_at_keys_prefix _ _ _ W1 B) as PB.
    destruct (siblings_incomparable _ _ _ PA PB) as [C _]. rewrite is_prefix_refl in C. discriminate.
Qed.
