(* Lemmas about Model/ResetKeystore.v: an invariant of the reset state machine, proved by
   induction over event lists (every interleaving of worker and reset goroutine, every
   abort point), from which the crash theorems follow for every journal prefix a crash can leave. *)
From Verif.Lib Require Import GoSem Bits.
From Verif.Model Require Import Keystore ResetKeystore.
From Verif.Proofs Require Import KeystoreProofs.
From Coq Require Import Lia ZifyBool ZifyNat ZifyN.

(* ---- journal and views --------------------------------------------------- *)
Lemma greplay_snoc j e : greplay (j ++ [e]) = gapply (greplay j) e.
Proof. unfold greplay. rewrite fold_left_app. reflexivity. Qed.

Lemma slot_set_same g i st : slot (set_slot g i st) i = st.
Proof. destruct i; reflexivity. Qed.
Lemma slot_set_other g i st : slot (set_slot g i st) (negb i) = slot g (negb i).
Proof. destruct i; reflexivity. Qed.
Lemma mark_set_slot g i st : g_mark (set_slot g i st) = g_mark g.
Proof. destruct i; reflexivity. Qed.
Lemma act_set_slot g i st : act (set_slot g i st) = act g.
Proof. unfold act. rewrite mark_set_slot. reflexivity. Qed.

Lemma act_gapply_slot g i b : act (gapply g (GSlot i b)) = act g.
Proof. simpl. apply act_set_slot. Qed.
Lemma slot_gapply_same g i b : slot (gapply g (GSlot i b)) i = apply_batch (slot g i) b.
Proof. simpl. apply slot_set_same. Qed.
Lemma slot_gapply_other g i b : slot (gapply g (GSlot i b)) (negb i) = slot g (negb i).
Proof. simpl. apply slot_set_other. Qed.
Lemma slot_gapply_mark g v i : slot (gapply g (GMark v)) i = slot g i.
Proof. destruct i; reflexivity. Qed.
Lemma act_mark_of g a : act (gapply g (GMark (mark_of a))) = a.
Proof. destruct a; reflexivity. Qed.

Lemma gappend_cases j i b : (b = [] /\ gappend j i b = j) \/ (b <> [] /\ gappend j i b = j ++ [GSlot i b]).
Proof. destruct b; [left; auto|right; split; [discriminate|reflexivity]]. Qed.

Lemma greplay_gappend j i b : greplay (gappend j i b) = gapply (greplay j) (GSlot i b).
Proof.
  destruct b as [|o b]; [|unfold gappend; apply greplay_snoc].
  simpl. unfold set_slot, apply_batch. simpl. destruct i, (greplay j); reflexivity.
Qed.

Lemma firstn_snoc_le {A} (l : list A) x n : n <= length l -> firstn n (l ++ [x]) = firstn n l.
Proof.
  intro H. rewrite firstn_app. replace (n - length l) with 0 by lia. simpl. apply app_nil_r.
Qed.

(* a property of all crash points survives appending one entry *)
Lemma window_append (P : gstore -> Prop) j e synced :
  (forall n, synced <= n <= length j -> P (greplay (firstn n j))) ->
  P (gapply (greplay j) e) ->
  forall n, synced <= n <= length (j ++ [e]) -> P (greplay (firstn n (j ++ [e]))).
Proof.
  intros H1 H2 n Hn. rewrite app_length in Hn. simpl in Hn.
  destruct (Nat.le_gt_cases n (length j)).
  - rewrite firstn_snoc_le by assumption. apply H1. lia.
  - rewrite firstn_all2 by (rewrite app_length; simpl; lia). rewrite greplay_snoc. exact H2.
Qed.

Lemma window_gappend (P : gstore -> Prop) j i b synced :
  (forall n, synced <= n <= length j -> P (greplay (firstn n j))) ->
  P (gapply (greplay j) (GSlot i b)) ->
  forall n, synced <= n <= length (gappend j i b) -> P (greplay (firstn n (gappend j i b))).
Proof.
  intros H1 H2. destruct (gappend_cases j i b) as [[E1 E2]|[E1 E2]]; rewrite E2.
  - exact H1.
  - apply window_append; assumption.
Qed.

Lemma window_sync (P : gstore -> Prop) j synced :
  synced <= length j ->
  (forall n, synced <= n <= length j -> P (greplay (firstn n j))) ->
  forall n, length j <= n <= length j -> P (greplay (firstn n j)).
Proof. intros L H n Hn. apply H. lia. Qed.

Lemma window_cur (P : gstore -> Prop) j synced :
  synced <= length j ->
  (forall n, synced <= n <= length j -> P (greplay (firstn n j))) -> P (greplay j).
Proof. intros L H. specialize (H (length j)). rewrite firstn_all in H. apply H. lia. Qed.

Lemma length_gappend j i b : length j <= length (gappend j i b).
Proof. destruct b; simpl; [lia|]. rewrite app_length. simpl. lia. Qed.

Section R.
Variable bits_of : N -> bits.
Variable pb : nat.
Notation kwf := (kwf bits_of).
Notation wfs := (wfs bits_of pb).
Notation keys_ok := (keys_ok bits_of).

(* ---- slot-level facts ---------------------------------------------------- *)
Lemma st_get_snoc_other k k' v st : k <> k' -> st_get k (st ++ [(k', v)]) = st_get k st.
Proof.
  intro H. unfold st_get. induction st as [|[a w] st IH]; simpl.
  - destruct (skey_eqb k' k) eqn:E; [apply skey_eqb_eq in E; congruence|reflexivity].
  - destruct (skey_eqb a k); [reflexivity|exact IH].
Qed.

Lemma st_put_row st k : wfs st -> kwf k ->
  st_put (dkey pb k) (VKey k) st = if st_has (dkey pb k) st then st else st ++ [(dkey pb k, VKey k)].
Proof.
  intros W K. destruct (st_has (dkey pb k) st) eqn:E; [|apply st_put_fresh; exact E].
  apply st_put_same; [apply W|].
  apply st_has_true in E. apply in_map_iff in E. destruct E as [[sk v] [E H]]. simpl in E. subst sk.
  destruct W as [_ W]. destruct (W _ H) as [[n E]|[k' [E K']]]; [discriminate|].
  inversion E as [[E1 E2 E3]]. assert (k = k') by (apply (kwf_same_id bits_of); auto). subst k' v. exact H.
Qed.

Lemma apply_blind : forall c st, wfs st -> (forall k, In k c -> kwf k) ->
  wfs (apply_batch st (blind_ops pb c)) /\
  (forall x, In x (keys_of (apply_batch st (blind_ops pb c))) <-> In x (keys_of st) \/ In x c) /\
  st_get KSize (apply_batch st (blind_ops pb c)) = st_get KSize st.
Proof.
  unfold apply_batch, blind_ops.
  induction c as [|k c IH]; intros st W K; simpl.
  - split; [exact W|]. split; [intro x; tauto|reflexivity].
  - assert (Kk : kwf k) by (apply K; left; reflexivity).
    rewrite (st_put_row st k W Kk).
    destruct (st_has (dkey pb k) st) eqn:E.
    + destruct (IH st W (fun x Hx => K x (or_intror Hx))) as [H1 [H2 H3]]. split; [exact H1|]. split; [|exact H3].
      intro x. rewrite H2. split; [tauto|]. intros [H|[<-|H]]; auto.
      left. rewrite (st_has_dkey bits_of pb st k W Kk) in E. apply has_mid_true in E. destruct E as [k' [Hk' E]].
      assert (Kk' : kwf k') by (apply (keys_of_wf bits_of pb st); assumption).
      assert (k' = k) by (apply (kwf_same_id bits_of); assumption). subst. exact Hk'.
    + assert (W' : wfs (st ++ [(dkey pb k, VKey k)])).
      { apply wfs_snoc; [exact W|right; exists k; auto|apply st_has_false; exact E]. }
      destruct (IH _ W' (fun x Hx => K x (or_intror Hx))) as [H1 [H2 H3]]. split; [exact H1|]. split.
      * intro x. rewrite H2, keys_of_app. simpl. rewrite in_app_iff. simpl. tauto.
      * rewrite H3. apply st_get_snoc_other. discriminate.
Qed.

Lemma apply_dels_wfs : forall c st, wfs st -> wfs (apply_batch st (del_ops c)).
Proof.
  unfold apply_batch, del_ops. induction c as [|k c IH]; intros st W; simpl; [exact W|].
  apply IH. apply wfs_del. exact W.
Qed.

(* ---- views ---------------------------------------------------------------- *)
Definition inflight (s : rst) : list mhk := match r_wk s with Some (ks, _) => ks | None => [] end.
Definition started (s : rst) : list mhk := r_acked s ++ inflight s.

Definition mark_ok (g : gstore) : Prop := g_mark g = None \/ g_mark g = Some 0%N \/ g_mark g = Some 1%N.
Definition vslot (g : gstore) : sstore := slot g (act g).
Definition bounds (base acked startd C : list mhk) : Prop := incl (base ++ acked) C /\ incl C (base ++ startd).

Record ghost := { h_a0 : bool; h_old : list mhk; h_new : list mhk; h_acked : list mhk;
                  h_started : list mhk; h_flipped : bool }.
Definition gh (s : rst) : ghost :=
  {| h_a0 := r_a0 s; h_old := r_old s; h_new := r_new s; h_acked := r_acked s;
     h_started := started s; h_flipped := r_flipped s |}.

Definition view_ok (h : ghost) (g : gstore) : Prop :=
  mark_ok g /\ wfs (vslot g) /\ size_ok (vslot g) /\
  ((act g = h_a0 h /\ bounds (h_old h) (h_acked h) (h_started h) (keys_of (vslot g)))
   \/ (h_flipped h = true /\ act g = negb (h_a0 h) /\
       bounds (h_new h) (h_acked h) (h_started h) (keys_of (vslot g)))).

Definition window (s : rst) (P : gstore -> Prop) : Prop :=
  forall n, r_synced s <= n <= length (r_j s) -> P (greplay (firstn n (r_j s))).
Definition CrashOK (s : rst) : Prop := window s (view_ok (gh s)).

Lemma bounds_started base acked st st' C : incl st st' -> bounds base acked st C -> bounds base acked st' C.
Proof.
  intros H [H1 H2]. split; [exact H1|]. intros x Hx. apply H2 in Hx. apply in_app_iff in Hx.
  apply in_app_iff. destruct Hx; auto.
Qed.

Lemma view_ok_started a0 o n ak st st' f g : incl st st' ->
  view_ok {| h_a0 := a0; h_old := o; h_new := n; h_acked := ak; h_started := st; h_flipped := f |} g ->
  view_ok {| h_a0 := a0; h_old := o; h_new := n; h_acked := ak; h_started := st'; h_flipped := f |} g.
Proof.
  intros H [M [W [S D]]]. split; [exact M|]. split; [exact W|]. split; [exact S|]. simpl in *.
  destruct D as [[D1 D2]|[D0 [D1 D2]]]; [left|right]; repeat split; auto; eapply bounds_started; eauto.
Qed.

(* a write to the slot that is not the active one of the view does not change the view *)
Lemma view_ok_other h g b : view_ok h g -> view_ok h (gapply g (GSlot (negb (act g)) b)).
Proof.
  intros [M [W [S D]]].
  assert (A : act (gapply g (GSlot (negb (act g)) b)) = act g) by apply act_gapply_slot.
  assert (V : vslot (gapply g (GSlot (negb (act g)) b)) = vslot g).
  { unfold vslot. rewrite A. pose proof (slot_gapply_other g (negb (act g)) b) as X.
    rewrite negb_involutive in X. exact X. }
  unfold view_ok. rewrite V, A. split; [|auto].
  unfold mark_ok in *. simpl. rewrite mark_set_slot. exact M.
Qed.

(* ---- the invariant -------------------------------------------------------- *)
Definition all_kwf (l : list mhk) : Prop := forall k, In k l -> kwf k.

Record AltInv (s : rst) : Prop := {
  a_wfs : wfs (alternate s);
  a_nosize : st_get KSize (alternate s) = None;
  a_upper : incl (keys_of (alternate s)) (r_new s ++ started s);
  a_new : forall k, In k (r_new s) -> In k (r_todo s) \/ In k (r_loc s) \/ In k (keys_of (alternate s));
  a_started : forall k, In k (started s) -> In k (r_buf s) \/ In k (r_drn s) \/ In k (keys_of (alternate s));
  a_loc : incl (r_todo s ++ r_loc s) (r_new s);
  a_drn : incl (r_drn s ++ r_buf s) (started s);
  a_count : r_counted s = true -> r_alt s = Z.of_nat (length (alternate s)) }.

Definition phase_inv (s : rst) : Prop :=
  match r_ph s with
  | PIdle => r_flipped s = false /\ r_rip s = false
  | PStarting => r_flipped s = false /\ r_wk s = None /\ r_acked s = [] /\ r_rip s = false /\
                 r_todo s = r_new s /\ r_loc s = [] /\ r_drn s = [] /\ r_buf s = [] /\ r_counted s = false
  | PFilling => r_flipped s = false /\ r_rip s = true /\ AltInv s
  | PClean0 => r_flipped s = false /\ r_wk s = None /\ AltInv s /\ r_counted s = true
  | PClean1 => r_flipped s = false /\ r_wk s = None /\ AltInv s /\ r_counted s = true /\
               r_todo s = [] /\ r_loc s = [] /\ r_drn s = [] /\ r_buf s = [] /\ r_synced s = length (r_j s)
  | PClean2 => r_flipped s = true /\ r_wk s = None
  | PTearing => r_wk s = None /\ (r_flipped s = true -> window s (fun g => act g = negb (r_a0 s)))
  end.

Definition wk_inv (s : rst) : Prop :=
  match r_wk s with
  | None => True
  | Some (ks, None) => keys_ok ks /\ worker_free s = true
  | Some (ks, Some nw) => keys_ok ks /\ worker_free s = true /\ incl ks (keys_of (primary s))
  end.

Record RInv (s : rst) : Prop := {
  i_crash : CrashOK s;
  i_sync : r_synced s <= length (r_j s);
  i_act : act (rcur s) = r_active s;
  i_a0 : r_active s = if r_flipped s then negb (r_a0 s) else r_a0 s;
  i_nosize : r_closed s = false -> st_get KSize (primary s) = None;
  i_size : r_closed s = false -> r_size s = Z.of_nat (length (primary s));
  i_kwf : all_kwf (r_old s ++ r_new s ++ started s);
  i_wk : wk_inv s;
  i_closed : r_closed s = true -> r_wk s = None;
  i_phase : phase_inv s }.

Ltac proj := cbn [r_j r_synced r_active r_size r_alt r_rip r_buf r_wk r_ph r_todo r_loc r_drn r_counted
                  r_closed r_a0 r_old r_new r_acked r_flipped upd_j upd_ph flip
                  h_a0 h_old h_new h_acked h_started h_flipped] in *.

Lemma inv_cur_view s : RInv s -> view_ok (gh s) (rcur s).
Proof. intro I. apply (window_cur _ (r_j s) (r_synced s) (i_sync s I)). apply (i_crash s I). Qed.

Lemma inv_vslot s : RInv s -> vslot (rcur s) = primary s.
Proof. intro I. unfold vslot, primary. rewrite (i_act s I). reflexivity. Qed.

Lemma inv_pwfs s : RInv s -> wfs (primary s).
Proof. intro I. rewrite <- (inv_vslot s I). apply (inv_cur_view s I). Qed.

(* an entry in the alternate slot: every crash point stays good *)
Lemma crash_alt_entry s b h :
  RInv s -> (forall g, view_ok (gh s) g -> view_ok h g) ->
  forall n, r_synced s <= n <= length (gappend (r_j s) (negb (r_active s)) b) ->
    view_ok h (greplay (firstn n (gappend (r_j s) (negb (r_active s)) b))).
Proof.
  intros I H. apply window_gappend.
  - intros n Hn. apply H. apply (i_crash s I). exact Hn.
  - apply H. rewrite <- (i_act s I). apply view_ok_other. apply (inv_cur_view s I).
Qed.

Lemma strip_prefix_app c : forall l d, strip_prefix c l = Some d -> l = c ++ d.
Proof.
  induction c as [|x c IH]; intros l d H; simpl in H.
  - inversion H. reflexivity.
  - destruct l as [|y l]; [discriminate|]. destruct (mhk_eqb x y) eqn:E; [|discriminate].
    apply IH in H. subst l. unfold mhk_eqb in E. apply andb_true_iff in E as [E1 E2].
    apply N.eqb_eq in E1. apply bits_eqb_eq in E2. destruct x, y; simpl in *; subst. reflexivity.
Qed.

Lemma list_mhk_eqb_eq a : forall b, list_mhk_eqb a b = true -> a = b.
Proof.
  induction a as [|x a IH]; intros [|y b] H; simpl in H; try discriminate; [reflexivity|].
  apply andb_true_iff in H as [E H]. apply IH in H. subst b.
  unfold mhk_eqb in E. apply andb_true_iff in E as [E1 E2].
  apply N.eqb_eq in E1. apply bits_eqb_eq in E2. destruct x, y; simpl in *; subst. reflexivity.
Qed.

Ltac unf := unfold CrashOK, window, gh, started, inflight, primary, alternate, rcur, wk_inv, phase_inv,
                   worker_free in *; proj.

(* [s'] differs from [s] only in the bookkeeping of the reset goroutine
   (phase, todo/loc/drn, counted, altSize, rip, buf) and possibly in the sync point *)
Record same_core (s s' : rst) : Prop := {
  sc_j : r_j s' = r_j s; sc_active : r_active s' = r_active s; sc_size : r_size s' = r_size s;
  sc_wk : r_wk s' = r_wk s; sc_closed : r_closed s' = r_closed s;
  sc_a0 : r_a0 s' = r_a0 s; sc_old : r_old s' = r_old s; sc_new : r_new s' = r_new s;
  sc_acked : r_acked s' = r_acked s; sc_flipped : r_flipped s' = r_flipped s }.

Lemma same_core_gh s s' : same_core s s' -> gh s' = gh s.
Proof.
  intros [J A Z W C A0 O N K F]. unfold gh, started, inflight. rewrite W, A0, O, N, K, F. reflexivity.
Qed.

Lemma same_core_inv s s' :
  same_core s s' -> (r_synced s' = r_synced s \/ r_synced s' = length (r_j s)) ->
  (r_ph s = r_ph s' \/ (r_wk s = None) \/ worker_free s' = true) ->
  RInv s -> phase_inv s' -> RInv s'.
Proof.
  intros SC SY WF I PH. assert (G := same_core_gh s s' SC). destruct SC as [J A Z W C A0 O N K F].
  destruct I as [CR Y AC IA NS SZ KW WK CL _].
  split; unfold CrashOK, window, primary, rcur, started, inflight, wk_inv in *;
    try rewrite G; try rewrite J; try rewrite A; try rewrite Z; try rewrite W; try rewrite C;
    try rewrite A0; try rewrite O; try rewrite N; try rewrite K; try rewrite F; try assumption.
  - intros n Hn. apply CR. destruct SY as [E|E]; rewrite E in Hn; lia.
  - destruct SY as [E|E]; rewrite E; lia.
  - assert (WF' : worker_free s = true -> worker_free s' = true \/ r_wk s = None).
    { intro H. destruct WF as [E|[E|E]]; [left; unfold worker_free in *; rewrite <- E; exact H|right; exact E|left; exact E]. }
    destruct (r_wk s) as [[ks [nw|]]|]; auto.
    + destruct WK as [H1 [H2 H3]]. destruct (WF' H2) as [H4|H4]; [|discriminate]. split; [exact H1|]. split; [exact H4|].
      unfold primary, rcur in *. rewrite ?J, ?A. exact H3.
    + destruct WK as [H1 H2]. destruct (WF' H2) as [H4|H4]; [|discriminate]. split; auto.
Qed.

Lemma slot_alt_entry g a b : slot (gapply g (GSlot (negb a) b)) a = slot g a.
Proof. pose proof (slot_gapply_other g (negb a) b) as X. rewrite negb_involutive in X. exact X. Qed.

(* an entry written to the alternate slot *)
Lemma alt_entry_inv s s' b :
  r_j s' = gappend (r_j s) (negb (r_active s)) b -> r_synced s' = r_synced s ->
  r_active s' = r_active s -> r_size s' = r_size s -> r_wk s' = r_wk s -> r_closed s' = r_closed s ->
  r_a0 s' = r_a0 s -> r_old s' = r_old s -> r_new s' = r_new s -> r_acked s' = r_acked s ->
  r_flipped s' = r_flipped s -> r_ph s' = r_ph s ->
  RInv s -> phase_inv s' -> RInv s'.
Proof.
  intros J SY A Z W C A0 O N K F P I PH.
  assert (G : gh s' = gh s) by (unfold gh, started, inflight; rewrite W, A0, O, N, K, F; reflexivity).
  assert (PR : primary s' = primary s).
  { unfold primary, rcur. rewrite J, A, greplay_gappend. apply slot_alt_entry. }
  split.
  - unfold CrashOK, window. rewrite G, J, SY. apply crash_alt_entry; auto.
  - rewrite J, SY. pose proof (i_sync s I). pose proof (length_gappend (r_j s) (negb (r_active s)) b). lia.
  - unfold rcur. rewrite J, A, greplay_gappend, act_gapply_slot. apply (i_act s I).
  - rewrite A, F, A0. apply (i_a0 s I).
  - rewrite PR, C. apply (i_nosize s I).
  - rewrite PR, C, Z. apply (i_size s I).
  - unfold started, inflight. rewrite O, N, K, W. apply (i_kwf s I).
  - pose proof (i_wk s I) as WK. unfold wk_inv, worker_free in *. rewrite W, P, PR. exact WK.
  - rewrite C, W. apply (i_closed s I).
  - exact PH.
Qed.

Lemma alternate_alt_entry s s' b :
  r_j s' = gappend (r_j s) (negb (r_active s)) b -> r_active s' = r_active s ->
  alternate s' = apply_batch (alternate s) b.
Proof.
  intros J A. unfold alternate, rcur. rewrite J, A, greplay_gappend. apply slot_gapply_same.
Qed.

(* ---- writes of the reset goroutine into the alternate slot ---------------- *)
Lemma checked_write st c b nw :
  wfs st -> st_get KSize st = None -> all_kwf c ->
  put_scan pb st NoFault c [] 0 = Some (b, nw) ->
  wfs (apply_batch st b) /\ st_get KSize (apply_batch st b) = None /\
  (forall x, In x (keys_of (apply_batch st b)) <-> In x (keys_of st) \/ In x c) /\
  length (apply_batch st b) = length st + length nw.
Proof.
  intros W NS KW H.
  apply (put_scan_some pb) in H. destruct H as [E1 E2].
  assert (NDn : NoDup (map mid nw)) by (rewrite E1; apply NoDup_map_filter; apply dedup_mid_nodup).
  assert (IN : forall k, In k nw -> In k c).
  { intros k Hk. rewrite E1 in Hk. apply filter_In in Hk. destruct Hk as [Hk _]. apply dedup_mid_incl in Hk. tauto. }
  assert (KWn : forall k, In k nw -> kwf k) by (intros k Hk; apply KW; apply IN; exact Hk).
  assert (HF : forall k, In k nw -> st_has (dkey pb k) st = false).
  { intros k Hk. rewrite E1 in Hk. apply filter_In in Hk. apply negb_true_iff. tauto. }
  rewrite E2, (apply_puts_fresh bits_of pb) by assumption.
  split; [apply wfs_puts; assumption|]. split; [apply st_get_size_rows; exact NS|]. split.
  - intro x. rewrite keys_of_app, (keys_of_rows pb), in_app_iff. split.
    + intros [H|H]; [auto|]. right. apply IN. exact H.
    + intros [H|H]; [auto|]. destruct (st_has (dkey pb x) st) eqn:E.
      * left. rewrite (st_has_dkey bits_of pb st x W (KW x H)) in E. apply has_mid_true in E.
        destruct E as [k' [Hk' E]]. assert (Kk' : kwf k') by (apply (keys_of_wf bits_of pb st); assumption).
        assert (k' = x) by (apply (kwf_same_id bits_of); auto). subst. exact Hk'.
      * right. destruct (dedup_mid_has c [] x H (fun X => X)) as [k' [Hk' Q]].
        assert (k' = x).
        { apply (kwf_same_id bits_of); auto. apply KW. apply dedup_mid_incl in Hk'. tauto. }
        subst k'. rewrite E1. apply filter_In. split; [exact Hk'|]. rewrite E. reflexivity.
  - rewrite app_length, map_length. reflexivity.
Qed.

Lemma alt_write_AltInv s s' c b :
  AltInv s -> all_kwf (r_new s ++ started s) ->
  r_j s' = gappend (r_j s) (negb (r_active s)) b -> r_active s' = r_active s ->
  r_new s' = r_new s -> r_acked s' = r_acked s -> r_wk s' = r_wk s -> r_todo s' = r_todo s ->
  (forall k, In k (r_loc s) -> In k (r_loc s') \/ In k c) -> incl (r_loc s') (r_loc s) ->
  (forall k, In k (r_drn s ++ r_buf s) -> In k (r_drn s' ++ r_buf s') \/ In k c) ->
  incl (r_drn s' ++ r_buf s') (r_drn s ++ r_buf s) ->
  incl c (r_loc s ++ r_drn s ++ r_buf s) ->
  wfs (apply_batch (alternate s) b) -> st_get KSize (apply_batch (alternate s) b) = None ->
  (forall x, In x (keys_of (apply_batch (alternate s) b)) <-> In x (keys_of (alternate s)) \/ In x c) ->
  (r_counted s' = true -> r_alt s' = Z.of_nat (length (apply_batch (alternate s) b))) ->
  AltInv s'.
Proof.
  intros AI KW J A N K W T L1 L2 D1 D2 CI W1 W2 W3 W4.
  assert (AL := alternate_alt_entry s s' b J A).
  assert (ST : started s' = started s) by (unfold started, inflight; rewrite K, W; reflexivity).
  destruct AI as [a1 a2 a3 a4 a5 a6 a7 a8].
  assert (CS : incl c (r_new s ++ started s)).
  { intros x Hx. apply CI in Hx. apply in_app_iff in Hx. apply in_app_iff. destruct Hx as [Hx|Hx].
    - left. apply a6. apply in_app_iff. auto.
    - right. apply a7. exact Hx. }
  split; rewrite ?AL, ?N, ?ST, ?T; try assumption.
  - intros x Hx. apply W3 in Hx. destruct Hx as [Hx|Hx]; [apply a3; exact Hx|apply CS; exact Hx].
  - intros k Hk. destruct (a4 k Hk) as [H|[H|H]]; [auto| |right; right; apply W3; auto].
    destruct (L1 k H) as [H1|H1]; [auto|right; right; apply W3; auto].
  - intros k Hk. destruct (a5 k Hk) as [H|[H|H]].
    + destruct (D1 k (in_or_app _ _ _ (or_intror H))) as [H1|H1]; [|right; right; apply W3; auto].
      apply in_app_iff in H1. tauto.
    + destruct (D1 k (in_or_app _ _ _ (or_introl H))) as [H1|H1]; [|right; right; apply W3; auto].
      apply in_app_iff in H1. tauto.
    + right. right. apply W3. auto.
  - intros x Hx. apply a6. apply in_app_iff in Hx. apply in_app_iff. destruct Hx as [Hx|Hx]; [auto|right; apply L2; exact Hx].
  - intros x Hx. apply a7. apply D2. exact Hx.
Qed.

Lemma alt_sel_spec s fromb c loc drn buf : alt_sel s fromb c = Some (loc, drn, buf) ->
  (forall k, In k (r_loc s) -> In k loc \/ In k c) /\ incl loc (r_loc s) /\
  (forall k, In k (r_drn s ++ r_buf s) -> In k (drn ++ buf) \/ In k c) /\
  incl (drn ++ buf) (r_drn s ++ r_buf s) /\
  incl c (r_loc s ++ r_drn s ++ r_buf s).
Proof.
  unfold alt_sel. destruct fromb.
  - destruct (list_mhk_eqb c (r_loc s)) eqn:E; [|discriminate]. intro H. inversion H; subst.
    apply list_mhk_eqb_eq in E. subst c. repeat split; auto.
    + intros x [].
    + intros x Hx. exact Hx.
    + intros x Hx. apply in_app_iff. auto.
  - destruct (strip_prefix c (r_drn s)) as [d|] eqn:E.
    + intro H. inversion H; subst. apply strip_prefix_app in E. rewrite E. repeat split; auto.
      * intros x Hx. exact Hx.
      * intros k Hk. rewrite <- app_assoc in Hk. apply in_app_iff in Hk. tauto.
      * intros x Hx. rewrite <- app_assoc. apply in_app_iff. auto.
      * intros x Hx. apply in_app_iff. right. apply in_app_iff. left. apply in_app_iff. auto.
    + destruct (strip_prefix c (r_drn s ++ r_buf s)) as [d|] eqn:E2; [|discriminate].
      intro H. inversion H; subst. apply strip_prefix_app in E2. rewrite app_nil_r. repeat split; auto.
      * intros x Hx. exact Hx.
      * intros k Hk. rewrite E2 in Hk. apply in_app_iff in Hk. tauto.
      * intros x Hx. rewrite E2. apply in_app_iff. auto.
      * intros x Hx. apply in_app_iff. right. rewrite E2. apply in_app_iff. auto.
Qed.

(* ---- transfer of the alternate-slot invariant ---------------------------- *)
Lemma AltInv_same s s' :
  alternate s' = alternate s -> r_new s' = r_new s -> (forall x, In x (started s') <-> In x (started s)) ->
  r_todo s' = r_todo s -> r_loc s' = r_loc s -> r_drn s' = r_drn s -> r_buf s' = r_buf s ->
  r_counted s' = r_counted s -> r_alt s' = r_alt s -> AltInv s -> AltInv s'.
Proof.
  intros AL N ST T L D B C AS [a1 a2 a3 a4 a5 a6 a7 a8].
  split; rewrite ?AL, ?N, ?T, ?L, ?D, ?B, ?C, ?AS; try assumption.
  - intros x Hx. apply a3 in Hx. apply in_app_iff in Hx. apply in_app_iff. destruct Hx; [auto|right; apply ST; auto].
  - intros k Hk. apply a5. apply ST. exact Hk.
  - intros x Hx. apply ST. apply a7. exact Hx.
Qed.

Lemma phase_inv_free s s' :
  worker_free s = true -> r_ph s' = r_ph s -> r_flipped s' = r_flipped s -> r_rip s' = r_rip s ->
  (r_ph s = PFilling -> r_rip s = true -> AltInv s -> AltInv s') -> phase_inv s -> phase_inv s'.
Proof.
  intros WF P F R AI PH. unfold phase_inv, worker_free in *. rewrite P, F, R.
  destruct (r_ph s); try discriminate.
  - exact PH.
  - destruct PH as [H1 [H2 H3]]. auto.
Qed.

Lemma alternate_primary_entry s s' b :
  r_j s' = gappend (r_j s) (r_active s) b -> r_active s' = r_active s -> alternate s' = alternate s.
Proof.
  intros J A. unfold alternate, rcur. rewrite J, A, greplay_gappend. apply slot_gapply_other.
Qed.

Lemma primary_primary_entry s s' b :
  r_j s' = gappend (r_j s) (r_active s) b -> r_active s' = r_active s ->
  primary s' = apply_batch (primary s) b.
Proof.
  intros J A. unfold primary, rcur. rewrite J, A, greplay_gappend. apply slot_gapply_same.
Qed.

(* a view whose active slot receives fresh data rows, or the size key *)
Lemma view_ok_primary h g b st' :
  view_ok h g -> st' = apply_batch (vslot g) b ->
  wfs st' -> size_ok st' ->
  incl (keys_of (vslot g)) (keys_of st') ->
  (forall x, In x (keys_of st') -> In x (keys_of (vslot g)) \/ In x (h_started h)) ->
  view_ok h (gapply g (GSlot (act g) b)).
Proof.
  intros [M [W [S D]]] E W' S' LO UP.
  assert (A : act (gapply g (GSlot (act g) b)) = act g) by apply act_gapply_slot.
  assert (V : vslot (gapply g (GSlot (act g) b)) = st').
  { unfold vslot. rewrite A, slot_gapply_same. symmetry. exact E. }
  unfold view_ok. rewrite V, A. split; [unfold mark_ok in *; simpl; rewrite mark_set_slot; exact M|].
  split; [exact W'|]. split; [exact S'|].
  assert (B : forall base, bounds base (h_acked h) (h_started h) (keys_of (vslot g)) ->
                           bounds base (h_acked h) (h_started h) (keys_of st')).
  { intros base [B1 B2]. split.
    - intros x Hx. apply LO. apply B1. exact Hx.
    - intros x Hx. destruct (UP x Hx) as [H|H]; [apply B2; exact H|apply in_app_iff; auto]. }
  destruct D as [[D1 D2]|[D0 [D1 D2]]]; [left|right]; auto.
Qed.

(* ---- the events, one by one ---------------------------------------------- *)
Ltac step_open H NC :=
  unfold rstep in H; rewrite NC in H.

Ltac sc NC := split; simpl; rewrite ?NC; reflexivity.

Lemma step_EKey s s' : RInv s -> r_closed s = false -> rstep pb s EKey = Some s' -> RInv s'.
Proof.
  intros I NC H. step_open H NC. destruct (r_ph s) eqn:P; try discriminate.
  destruct (r_todo s) as [|k t] eqn:T; [discriminate|]. inversion H; subst s'; clear H.
  apply (same_core_inv s); [sc NC|left; reflexivity|left; simpl; (reflexivity || exact P)|exact I|].
  pose proof (i_phase s I) as PH. unfold phase_inv in *. proj. rewrite P in *.
  destruct PH as [H1 [H2 AI]]. split; [exact H1|]. split; [exact H2|].
  destruct AI as [a1 a2 a3 a4 a5 a6 a7 a8]. split; unfold alternate, started, inflight, rcur in *; proj; try assumption.
  - intros x Hx. destruct (a4 x Hx) as [H|[H|H]]; rewrite ?T in H; auto.
    + destruct H as [<-|H]; [right; left; apply in_or_app; right; left; reflexivity|auto].
    + right. left. apply in_or_app. auto.
  - intros x Hx. apply a6. rewrite T. apply in_app_iff in Hx. destruct Hx as [Hx|Hx].
    + apply in_app_iff. left. right. exact Hx.
    + apply in_app_iff in Hx. destruct Hx as [Hx|[<-|[]]]; apply in_app_iff; [right; exact Hx|left; left; reflexivity].
Qed.

Lemma step_ECount s s' : RInv s -> r_closed s = false -> rstep pb s ECount = Some s' -> RInv s'.
Proof.
  intros I NC H. step_open H NC. destruct (r_ph s) eqn:P; try discriminate.
  destruct (r_counted s) eqn:C; [discriminate|]. inversion H; subst s'; clear H.
  apply (same_core_inv s); [sc NC|left; reflexivity|left; simpl; (reflexivity || exact P)|exact I|].
  pose proof (i_phase s I) as PH. unfold phase_inv in *. proj. rewrite P in *.
  destruct PH as [H1 [H2 AI]]. split; [exact H1|]. split; [exact H2|].
  destruct AI as [a1 a2 a3 a4 a5 a6 a7 a8]. split; unfold alternate, started, inflight, rcur in *; proj; try assumption.
  intros _. reflexivity.
Qed.

Lemma step_ECleanup s s' : RInv s -> r_closed s = false -> rstep pb s ECleanup = Some s' -> RInv s'.
Proof.
  intros I NC H. step_open H NC. destruct (r_ph s) eqn:P; try discriminate.
  destruct (r_counted s) eqn:C; [|discriminate]. destruct (r_wk s) eqn:W; [discriminate|]. simpl in H.
  inversion H; subst s'; clear H.
  apply (same_core_inv s); [sc NC|left; reflexivity|right; left; exact W|exact I|].
  pose proof (i_phase s I) as PH. unfold phase_inv in *. proj. rewrite P in *.
  destruct PH as [H1 [H2 AI]]. split; [exact H1|]. split; [exact W|].
  split; [apply (AltInv_same s); auto; reflexivity|exact C].
Qed.

Lemma step_EStartFail s s' : RInv s -> r_closed s = false -> rstep pb s EStartFail = Some s' -> RInv s'.
Proof.
  intros I NC H. step_open H NC. destruct (r_ph s) eqn:P; try discriminate. inversion H; subst s'; clear H.
  pose proof (i_phase s I) as PH. unfold phase_inv in PH. rewrite P in PH.
  apply (same_core_inv s); [sc NC|left; reflexivity|right; left; tauto|exact I|].
  unfold phase_inv. proj. tauto.
Qed.

Lemma step_EAbort s s' : RInv s -> r_closed s = false -> rstep pb s EAbort = Some s' -> RInv s'.
Proof.
  intros I NC H. step_open H NC. destruct (r_ph s) eqn:P; try discriminate.
  destruct (r_wk s) eqn:W; [discriminate|]. simpl in H. inversion H; subst s'; clear H.
  pose proof (i_phase s I) as PH. unfold phase_inv in PH. rewrite P in PH.
  apply (same_core_inv s); [sc NC|left; reflexivity|right; left; exact W|exact I|].
  unfold phase_inv. proj. split; [exact W|]. destruct PH as [F _]. rewrite F. discriminate.
Qed.

Lemma step_EAbortClean s s' : RInv s -> r_closed s = false -> rstep pb s EAbortClean = Some s' -> RInv s'.
Proof.
  intros I NC H. step_open H NC. destruct (r_ph s) eqn:P; try discriminate. inversion H; subst s'; clear H.
  pose proof (i_phase s I) as PH. unfold phase_inv in PH. rewrite P in PH.
  apply (same_core_inv s); [sc NC|left; reflexivity|right; left; tauto|exact I|].
  unfold phase_inv. proj. split; [tauto|]. destruct PH as [F _]. rewrite F. discriminate.
Qed.

Lemma step_EAltSync s s' : RInv s -> r_closed s = false -> rstep pb s EAltSync = Some s' -> RInv s'.
Proof.
  intros I NC H. step_open H NC. destruct (r_ph s) eqn:P; try discriminate. inversion H; subst s'; clear H.
  pose proof (i_phase s I) as PH. unfold phase_inv in PH. rewrite P in PH.
  apply (same_core_inv s); [sc NC|right; reflexivity|left; simpl; (reflexivity || exact P)|exact I|].
  unfold phase_inv. proj. rewrite P. destruct PH as [H1 [H2 AI]]. split; [exact H1|]. split; [exact H2|].
  apply (AltInv_same s); auto; reflexivity.
Qed.

Lemma step_ECleanSync s s' : RInv s -> r_closed s = false -> rstep pb s ECleanSync = Some s' -> RInv s'.
Proof.
  intros I NC H. step_open H NC. destruct (r_ph s) eqn:P; try discriminate.
  destruct (r_loc s) eqn:L; [|discriminate]. destruct (r_drn s) eqn:D; [|discriminate].
  destruct (r_buf s) eqn:B; [|discriminate]. destruct (r_todo s) eqn:T; [|discriminate]. simpl in H.
  inversion H; subst s'; clear H.
  pose proof (i_phase s I) as PH. unfold phase_inv in PH. rewrite P in PH.
  apply (same_core_inv s); [sc NC|right; reflexivity|right; left; tauto|exact I|].
  unfold phase_inv. proj. destruct PH as [H1 [H2 [AI H3]]].
  split; [exact H1|]. split; [exact H2|]. split; [apply (AltInv_same s); auto; reflexivity|].
  repeat split; auto.
Qed.

Lemma step_EMarkSync s s' : RInv s -> r_closed s = false -> rstep pb s EMarkSync = Some s' -> RInv s'.
Proof.
  intros I NC H. step_open H NC. destruct (r_ph s) eqn:P; try discriminate. inversion H; subst s'; clear H.
  pose proof (i_phase s I) as PH. unfold phase_inv in PH. rewrite P in PH.
  apply (same_core_inv s); [sc NC|right; reflexivity|right; left; tauto|exact I|].
  unfold phase_inv, window. proj. split; [tauto|]. intros _ n Hn.
  assert (n = length (r_j s)) by lia. subst n. rewrite firstn_all.
  fold (rcur s). rewrite (i_act s I), (i_a0 s I). destruct PH as [-> _]. reflexivity.
Qed.

Lemma step_ETearSync s s' : RInv s -> r_closed s = false -> rstep pb s ETearSync = Some s' -> RInv s'.
Proof.
  intros I NC H. step_open H NC. destruct (r_ph s) eqn:P; try discriminate. inversion H; subst s'; clear H.
  pose proof (i_phase s I) as PH. unfold phase_inv in PH. rewrite P in PH.
  apply (same_core_inv s); [sc NC|right; reflexivity|right; left; tauto|exact I|].
  unfold phase_inv, window in *. proj. rewrite P. split; [tauto|]. intros F n Hn.
  destruct PH as [_ PH]. apply (PH F). pose proof (i_sync s I). lia.
Qed.

Lemma step_EDel_aux s c : RInv s ->
  (r_ph s = PStarting \/ r_ph s = PTearing) ->
  RInv (upd_j s (gappend (r_j s) (negb (r_active s)) (del_ops c)) (r_synced s)).
Proof.
  intros I HP. pose proof (i_phase s I) as PH. unfold phase_inv in PH.
  apply (alt_entry_inv s _ (del_ops c)); try reflexivity; [exact I|].
  unfold phase_inv. proj. destruct HP as [E | E]; rewrite E in *; try exact PH.
  destruct PH as [W PH]. split; [exact W|]. intros F. unfold window. proj.
  apply (window_gappend (fun g => act g = negb (r_a0 s))); [apply (PH F)|].
  rewrite act_gapply_slot. fold (rcur s). rewrite (i_act s I), (i_a0 s I), F. reflexivity.
Qed.

Lemma step_EDel s s' c : RInv s -> r_closed s = false -> rstep pb s (EDel c) = Some s' -> RInv s'.
Proof.
  intros I NC H. step_open H NC.
  destruct (r_ph s) eqn:P; try discriminate; inversion H; subst s'; apply step_EDel_aux; auto.
Qed.

Lemma step_EStartDone s s' : RInv s -> r_closed s = false -> rstep pb s EStartDone = Some s' -> RInv s'.
Proof.
  intros I NC H. step_open H NC.
  pose proof (i_phase s I) as PH. unfold phase_inv in PH.
  destruct (r_ph s) eqn:P; try discriminate.
  destruct (alternate s) eqn:AL; [|discriminate]. simpl in H. inversion H; subst s'; clear H.
    destruct PH as [F [W [K [R [T [L [D [B C]]]]]]]].
    apply (same_core_inv s); [sc NC|right; reflexivity|right; left; exact W|exact I|].
    unfold phase_inv. proj. split; [exact F|]. split; [reflexivity|].
    split; unfold alternate, started, inflight, rcur in *; proj; rewrite ?AL, ?W, ?K, ?T, ?L, ?D, ?B; simpl.
    + apply wfs_nil.
    + reflexivity.
    + intros x [].
    + intros k Hk. left. exact Hk.
    + intros k [].
    + rewrite app_nil_r. intros x Hx. exact Hx.
    + intros x [].
    + rewrite C. discriminate.
Qed.

Lemma step_EAltWrite_aux s s' fromb c : RInv s -> r_closed s = false ->
  (r_ph s = PFilling \/ r_ph s = PClean0) -> alt_write pb s fromb c = Some s' -> RInv s'.
Proof.
  intros I NC HP HS. pose proof (i_phase s I) as PH. unfold phase_inv in PH. unfold alt_write in HS. destruct c as [|c0 c']; [discriminate|]. set (c := c0 :: c') in *.
    destruct (alt_sel s fromb c) as [[[loc drn] buf]|] eqn:SEL; [|discriminate].
    destruct (alt_sel_spec s fromb c loc drn buf SEL) as [L1 [L2 [D1 [D2 CI]]]].
    assert (AI : AltInv s) by (destruct HP as [E|E]; rewrite E in PH; tauto).
    assert (KW : all_kwf (r_new s ++ started s)).
    { intros k Hk. apply (i_kwf s I). apply in_or_app. right. exact Hk. }
    assert (KC : all_kwf c).
    { intros k Hk. apply KW. apply CI in Hk. apply in_app_iff in Hk. apply in_app_iff. destruct Hk as [Hk|Hk].
      - left. apply (a_loc s AI). apply in_app_iff. auto.
      - right. apply (a_drn s AI). exact Hk. }
    destruct (r_counted s) eqn:CT.
    - destruct (put_scan pb (alternate s) NoFault c [] 0) as [[b nw]|] eqn:PS; [|discriminate].
      inversion HS; subst s'; clear HS.
      destruct (checked_write (alternate s) c b nw (a_wfs s AI) (a_nosize s AI) KC PS) as [W1 [W2 [W3 W4]]].
      assert (AI' : AltInv {| r_j := gappend (r_j s) (negb (r_active s)) b; r_synced := r_synced s;
                              r_active := r_active s; r_size := r_size s;
                              r_alt := r_alt s + Z.of_nat (length nw);
                              r_rip := r_rip s; r_buf := buf; r_wk := r_wk s; r_ph := r_ph s;
                              r_todo := r_todo s; r_loc := loc; r_drn := drn; r_counted := true; r_closed := false;
                              r_a0 := r_a0 s; r_old := r_old s; r_new := r_new s; r_acked := r_acked s;
                              r_flipped := r_flipped s |}).
      { apply (alt_write_AltInv s _ c b AI KW); try reflexivity; try assumption.
        proj. intros _. rewrite (a_count s AI CT), W4. lia. }
      apply (alt_entry_inv s _ b); try reflexivity; [simpl; symmetry; exact NC|exact I|].
      unfold phase_inv. proj. destruct HP as [E|E]; rewrite E in *.
      + destruct PH as [H1 [H2 _]]. auto.
      + destruct PH as [H1 [H2 [_ H3]]]. auto.
    - inversion HS; subst s'; clear HS.
      destruct (apply_blind c (alternate s) (a_wfs s AI) KC) as [W1 [W3 W2]]. rewrite (a_nosize s AI) in W2.
      assert (AI' : AltInv {| r_j := gappend (r_j s) (negb (r_active s)) (blind_ops pb c); r_synced := r_synced s;
                          r_active := r_active s; r_size := r_size s; r_alt := r_alt s;
                          r_rip := r_rip s; r_buf := buf; r_wk := r_wk s; r_ph := r_ph s;
                          r_todo := r_todo s; r_loc := loc; r_drn := drn; r_counted := false; r_closed := false;
                          r_a0 := r_a0 s; r_old := r_old s; r_new := r_new s; r_acked := r_acked s;
                          r_flipped := r_flipped s |}).
      { apply (alt_write_AltInv s _ c (blind_ops pb c) AI KW); try reflexivity; try assumption.
        proj. discriminate. }
      apply (alt_entry_inv s _ (blind_ops pb c)); try reflexivity; [simpl; symmetry; exact NC|exact I|].
      unfold phase_inv. proj. destruct HP as [E|E]; rewrite E in *.
      + destruct PH as [H1 [H2 _]]. auto.
      + destruct PH as [H1 [H2 [_ H3]]]. rewrite H3 in CT. discriminate.
Qed.

Lemma step_EAltWrite s s' fromb c : RInv s -> r_closed s = false ->
  rstep pb s (EAltWrite fromb c) = Some s' -> RInv s'.
Proof.
  intros I NC H. step_open H NC.
  destruct (r_ph s) eqn:P; try discriminate; apply (step_EAltWrite_aux s s' fromb c); auto.
Qed.


Lemma phase_inv_sync s : r_synced s <= length (r_j s) -> phase_inv s -> phase_inv (upd_j s (r_j s) (length (r_j s))).
Proof.
  intros Y PH. unfold phase_inv in *. proj.
  assert (AS : AltInv s -> AltInv (upd_j s (r_j s) (length (r_j s)))).
  { apply AltInv_same; auto; reflexivity. }
  destruct (r_ph s); try exact PH.
  - destruct PH as [H1 [H2 H3]]. auto.
  - destruct PH as [H1 [H2 [H3 H4]]]. auto.
  - destruct PH as [H1 [H2 [H3 [H4 [H5 [H6 [H7 [H8 H9]]]]]]]]. repeat (split; auto).
  - destruct PH as [H1 H2]. split; [exact H1|]. intros F n Hn. unfold window in H2. apply (H2 F). proj. lia.
Qed.

Lemma step_ECloseSync s s' : RInv s -> r_closed s = true -> rstep pb s ECloseSync = Some s' -> RInv s'.
Proof.
  intros I C H. unfold rstep in H. rewrite C in H. inversion H; subst s'; clear H.
  apply (same_core_inv s); [split; reflexivity|right; reflexivity|left; reflexivity|exact I|].
  apply phase_inv_sync; [apply (i_sync s I)|apply (i_phase s I)].
Qed.

Lemma worker_free_phase s : worker_free s = true -> r_ph s = PIdle \/ r_ph s = PFilling.
Proof. unfold worker_free. destruct (r_ph s); try discriminate; auto. Qed.

Lemma step_EPutBegin s s' ks : RInv s -> r_closed s = false -> keys_ok ks ->
  rstep pb s (EPutBegin ks) = Some s' -> RInv s'.
Proof.
  intros I NC KO H. step_open H NC.
  destruct (r_wk s) eqn:W; [discriminate|]. simpl in H.
  destruct (worker_free s) eqn:WF; [|discriminate]. simpl in H.
  destruct ks as [|k0 ks']; [discriminate|]. set (ks := k0 :: ks') in *. simpl in H.
  inversion H; subst s'; clear H.
  assert (ST : forall g, view_ok (gh s) g ->
    view_ok {| h_a0 := r_a0 s; h_old := r_old s; h_new := r_new s; h_acked := r_acked s;
               h_started := r_acked s ++ ks; h_flipped := r_flipped s |} g).
  { intros g Hg. unfold gh, started, inflight in Hg. rewrite W in Hg.
    eapply view_ok_started; [|exact Hg]. intros x Hx. rewrite app_nil_r in Hx. apply in_app_iff. auto. }
  split; unfold CrashOK, window, gh, started, inflight, primary, rcur, wk_inv in *; proj.
  - intros n Hn. apply ST. apply (i_crash s I). exact Hn.
  - apply (i_sync s I).
  - apply (i_act s I).
  - apply (i_a0 s I).
  - intros _. apply (i_nosize s I NC).
  - intros _. apply (i_size s I NC).
  - pose proof (i_kwf s I) as KW. unfold started, inflight in KW. rewrite W in KW.
    intros k Hk. rewrite !in_app_iff in Hk. destruct Hk as [Hk|[Hk|[Hk|Hk]]].
    + apply KW. rewrite !in_app_iff. auto.
    + apply KW. rewrite !in_app_iff. auto.
    + apply KW. rewrite !in_app_iff. auto.
    + apply KO. exact Hk.
  - split; [exact KO|]. unfold worker_free in *. proj. exact WF.
  - discriminate.
  - apply (phase_inv_free s); try reflexivity; [exact WF| |apply (i_phase s I)].
    intros P R AI. proj. rewrite R.
    destruct AI as [a1 a2 a3 a4 a5 a6 a7 a8].
    unfold started, inflight in *. rewrite W in *. rewrite app_nil_r in *.
    split; unfold alternate, started, inflight, rcur in *; proj; try assumption.
    + intros x Hx. apply a3 in Hx. rewrite !in_app_iff in *. tauto.
    + intros k Hk. apply in_app_iff in Hk. destruct Hk as [Hk|Hk].
      * destruct (a5 k Hk) as [H|[H|H]]; auto. left. apply in_app_iff. auto.
      * left. apply in_app_iff. auto.
    + intros x Hx. rewrite !in_app_iff in Hx. rewrite in_app_iff.
      destruct Hx as [Hx|[Hx|Hx]]; auto; left; apply a7; apply in_app_iff; auto.
Qed.

Lemma step_EPutCommit s s' : RInv s -> r_closed s = false -> rstep pb s EPutCommit = Some s' -> RInv s'.
Proof.
  intros I NC H. step_open H NC.
  destruct (r_wk s) as [[ks [nw0|]]|] eqn:W; try discriminate.
  destruct (put_scan pb (primary s) NoFault ks [] 0) as [[b nw]|] eqn:PS; [|discriminate].
  inversion H; subst s'; clear H.
  pose proof (i_wk s I) as WK. unfold wk_inv in WK. rewrite W in WK. destruct WK as [KO WF].
  assert (PW := inv_pwfs s I). assert (NS := i_nosize s I NC).
  destruct (checked_write (primary s) ks b nw PW NS KO PS) as [W1 [W2 [W3 W4]]].
  set (s' := {| r_j := gappend (r_j s) (r_active s) b; r_synced := r_synced s; r_active := r_active s;
                r_size := r_size s + Z.of_nat (length nw); r_alt := r_alt s;
                r_rip := r_rip s; r_buf := r_buf s; r_wk := Some (ks, Some nw); r_ph := r_ph s;
                r_todo := r_todo s; r_loc := r_loc s; r_drn := r_drn s; r_counted := r_counted s; r_closed := false;
                r_a0 := r_a0 s; r_old := r_old s; r_new := r_new s; r_acked := r_acked s;
                r_flipped := r_flipped s |}).
  assert (PR : primary s' = apply_batch (primary s) b) by (apply (primary_primary_entry s s' b); reflexivity).
  assert (AL : alternate s' = alternate s) by (apply (alternate_primary_entry s s' b); reflexivity).
  assert (G : gh s' = gh s) by (unfold gh, started, inflight, s'; proj; rewrite W; reflexivity).
  split.
  - unfold CrashOK, window. rewrite G. unfold s'. proj. apply window_gappend; [apply (i_crash s I)|].
    rewrite <- (i_act s I). apply (view_ok_primary (gh s) (rcur s) b (apply_batch (primary s) b)).
    + apply (inv_cur_view s I).
    + rewrite (inv_vslot s I). reflexivity.
    + exact W1.
    + unfold size_ok. rewrite W2. exact Logic.I.
    + rewrite (inv_vslot s I). intros x Hx. apply W3. auto.
    + rewrite (inv_vslot s I). intros x Hx. apply W3 in Hx. destruct Hx as [Hx|Hx]; [auto|].
      right. unfold gh, started, inflight. proj. rewrite W. apply in_app_iff. auto.
  - unfold s'. proj. pose proof (i_sync s I). pose proof (length_gappend (r_j s) (r_active s) b). lia.
  - unfold rcur, s'. proj. rewrite greplay_gappend, act_gapply_slot. apply (i_act s I).
  - apply (i_a0 s I).
  - intros _. rewrite PR. exact W2.
  - intros _. rewrite PR, W4. unfold s'. proj. rewrite (i_size s I NC). lia.
  - pose proof (i_kwf s I) as KW. unfold started, inflight, s' in *. proj. rewrite W in KW. exact KW.
  - unfold wk_inv, s'. proj. fold s'. split; [exact KO|]. split; [exact WF|]. rewrite PR. intros x Hx. apply W3. auto.
  - discriminate.
  - apply (phase_inv_free s); try reflexivity; [exact WF| |apply (i_phase s I)].
    intros _ _. apply AltInv_same; try reflexivity; [exact AL|].
    intro x. unfold started, inflight, s'. proj. rewrite W. reflexivity.
Qed.

Lemma view_ok_ack a0 o n ak ks f g :
  view_ok {| h_a0 := a0; h_old := o; h_new := n; h_acked := ak; h_started := ak ++ ks; h_flipped := f |} g ->
  incl ks (keys_of (vslot g)) ->
  view_ok {| h_a0 := a0; h_old := o; h_new := n; h_acked := ak ++ ks; h_started := (ak ++ ks) ++ []; h_flipped := f |} g.
Proof.
  intros [M [W [S D]]] HK. split; [exact M|]. split; [exact W|]. split; [exact S|]. simpl in *.
  assert (B : forall base, bounds base ak (ak ++ ks) (keys_of (vslot g)) ->
                           bounds base (ak ++ ks) ((ak ++ ks) ++ []) (keys_of (vslot g))).
  { intros base [B1 B2]. split.
    - intros x Hx. rewrite !in_app_iff in Hx. destruct Hx as [Hx|[Hx|Hx]].
      + apply B1. apply in_app_iff. auto.
      + apply B1. apply in_app_iff. auto.
      + apply HK. exact Hx.
    - rewrite app_nil_r. exact B2. }
  destruct D as [[D1 D2]|[D0 [D1 D2]]]; [left|right]; auto.
Qed.

Lemma step_EPutSync s s' : RInv s -> r_closed s = false -> rstep pb s EPutSync = Some s' -> RInv s'.
Proof.
  intros I NC H. step_open H NC.
  destruct (r_wk s) as [[ks [nw|]]|] eqn:W; try discriminate.
  inversion H; subst s'; clear H.
  pose proof (i_wk s I) as WK. unfold wk_inv in WK. rewrite W in WK. destruct WK as [KO [WF HK]].
  split; unfold CrashOK, window, gh, started, inflight, primary, rcur, wk_inv in *; proj.
  - intros n Hn. assert (n = length (r_j s)) by lia. subst n. rewrite firstn_all.
    apply view_ok_ack.
    + pose proof (inv_cur_view s I) as V. unfold gh, started, inflight in V. rewrite W in V. exact V.
    + pose proof (inv_vslot s I) as V2. unfold rcur, primary in V2. rewrite V2. exact HK.
  - lia.
  - apply (i_act s I).
  - apply (i_a0 s I).
  - intros _. apply (i_nosize s I NC).
  - intros _. apply (i_size s I NC).
  - pose proof (i_kwf s I) as KW. unfold started, inflight in KW. rewrite W in KW.
    intros k Hk. apply KW. rewrite app_nil_r in Hk. rewrite !in_app_iff in *. tauto.
  - exact Logic.I.
  - discriminate.
  - apply (phase_inv_free s); try reflexivity; [exact WF| |apply (i_phase s I)].
    intros _ _. apply AltInv_same; try reflexivity.
    intro x. unfold started, inflight. proj. rewrite W, app_nil_r. reflexivity.
Qed.

Lemma step_EClose s s' : RInv s -> r_closed s = false -> rstep pb s EClose = Some s' -> RInv s'.
Proof.
  intros I NC H. step_open H NC.
  destruct (r_wk s) eqn:W; [discriminate|]. simpl in H.
  destruct (worker_free s) eqn:WF; [|discriminate]. inversion H; subst s'; clear H.
  set (b := [WPut KSize (VSize (r_size s))]).
  set (s' := {| r_j := r_j s ++ [GSlot (r_active s) b]; r_synced := r_synced s;
                r_active := r_active s; r_size := r_size s; r_alt := r_alt s;
                r_rip := r_rip s; r_buf := r_buf s; r_wk := None; r_ph := r_ph s; r_todo := r_todo s;
                r_loc := r_loc s; r_drn := r_drn s; r_counted := r_counted s; r_closed := true;
                r_a0 := r_a0 s; r_old := r_old s; r_new := r_new s; r_acked := r_acked s; r_flipped := r_flipped s |}).
  assert (J : r_j s' = gappend (r_j s) (r_active s) b) by reflexivity.
  assert (AL : alternate s' = alternate s) by (apply (alternate_primary_entry s s' b); [exact J|reflexivity]).
  assert (G : gh s' = gh s) by (unfold gh, started, inflight, s'; proj; rewrite W; reflexivity).
  assert (PW := inv_pwfs s I). assert (NS := i_nosize s I NC).
  split.
  - unfold CrashOK, window. rewrite G. unfold s'. proj. apply window_append; [apply (i_crash s I)|].
    fold (rcur s). rewrite <- (i_act s I).
    apply (view_ok_primary (gh s) (rcur s) b (st_put KSize (VSize (r_size s)) (primary s))).
    + apply (inv_cur_view s I).
    + rewrite (inv_vslot s I). reflexivity.
    + apply wfs_put_size. exact PW.
    + unfold size_ok. rewrite st_put_fresh by (unfold st_has; rewrite NS; reflexivity).
      rewrite (st_get_in KSize (VSize (r_size s))).
      * rewrite keys_of_app. simpl. rewrite app_nil_r, (i_size s I NC).
        rewrite (keys_of_length_nosize bits_of pb); auto.
      * rewrite map_app. simpl. apply NoDup_snoc; [apply PW|]. apply st_get_none. exact NS.
      * apply in_or_app. right. left. reflexivity.
    + rewrite (inv_vslot s I), (keys_of_put_size bits_of pb) by exact PW. intros x Hx. exact Hx.
    + rewrite (inv_vslot s I), (keys_of_put_size bits_of pb) by exact PW. auto.
  - unfold s'. proj. rewrite app_length. pose proof (i_sync s I). simpl. lia.
  - unfold rcur, s'. proj. rewrite greplay_snoc, act_gapply_slot. apply (i_act s I).
  - apply (i_a0 s I).
  - discriminate.
  - discriminate.
  - pose proof (i_kwf s I) as KW. unfold started, inflight, s' in *. proj. rewrite W in KW. exact KW.
  - exact Logic.I.
  - reflexivity.
  - apply (phase_inv_free s); try reflexivity; [exact WF| |apply (i_phase s I)].
    intros _ _. apply AltInv_same; try reflexivity; [exact AL|].
    intro x. unfold started, inflight, s'. proj. rewrite W. reflexivity.
Qed.

Lemma step_EStart s s' new : RInv s -> r_closed s = false -> all_kwf new ->
  rstep pb s (EStart new) = Some s' -> RInv s'.
Proof.
  intros I NC KN H. step_open H NC.
  pose proof (i_phase s I) as PH. unfold phase_inv in PH.
  destruct (r_ph s) eqn:P; try discriminate. destruct (r_wk s) eqn:W; [discriminate|]. simpl in H.
  inversion H; subst s'; clear H. destruct PH as [F R].
  pose proof (i_a0 s I) as A0. rewrite F in A0.
  split; unfold CrashOK, window, gh, started, inflight, primary, rcur, wk_inv in *; proj.
  - intros n Hn. pose proof (i_crash s I n Hn) as V. unfold gh, started, inflight in V. rewrite W, F in V.
    destruct V as [M [WS [S D]]]. split; [exact M|]. split; [exact WS|]. split; [exact S|]. proj. left.
    destruct D as [[D1 [D2 D3]]|[D0 _]]; [|discriminate]. split; [rewrite A0; exact D1|]. split.
    + rewrite app_nil_r. exact D2.
    + rewrite app_nil_r in D3. rewrite !app_nil_r. exact D3.
  - apply (i_sync s I).
  - apply (i_act s I).
  - reflexivity.
  - intros _. apply (i_nosize s I NC).
  - intros _. apply (i_size s I NC).
  - pose proof (i_kwf s I) as KW. unfold started, inflight in KW. rewrite W in KW.
    intros k Hk. rewrite !in_app_iff in Hk. destruct Hk as [[Hk|Hk]|[Hk|[[]|[]]]].
    + apply KW. rewrite !in_app_iff. auto.
    + apply KW. rewrite !in_app_iff. auto.
    + apply KN. exact Hk.
  - exact Logic.I.
  - discriminate.
  - unfold phase_inv. proj. repeat split; reflexivity.
Qed.

Lemma view_ok_set_flipped a0 o n ak st g :
  view_ok {| h_a0 := a0; h_old := o; h_new := n; h_acked := ak; h_started := st; h_flipped := false |} g ->
  view_ok {| h_a0 := a0; h_old := o; h_new := n; h_acked := ak; h_started := st; h_flipped := true |} g.
Proof.
  intros [M [W [S D]]]. split; [exact M|]. split; [exact W|]. split; [exact S|]. simpl in *.
  destruct D as [D|[D0 _]]; [left; exact D|discriminate].
Qed.

Lemma step_EFlip s s' : RInv s -> r_closed s = false -> rstep pb s EFlip = Some s' -> RInv s'.
Proof.
  intros I NC H. step_open H NC.
  pose proof (i_phase s I) as PH. unfold phase_inv in PH.
  destruct (r_ph s) eqn:P; try discriminate. inversion H; subst s'; clear H.
  destruct PH as [F [W [AI [CT [T [L [D [B SY]]]]]]]].
  pose proof (i_a0 s I) as A0. rewrite F in A0.
  assert (ST : started s = r_acked s) by (unfold started, inflight; rewrite W; apply app_nil_r).
  destruct AI as [a1 a2 a3 a4 a5 a6 a7 a8]. rewrite T, L, D, B, ST in *.
  assert (MV : forall i, slot (gapply (rcur s) (GMark (mark_of (negb (r_active s))))) i = slot (rcur s) i)
    by (intro i; apply slot_gapply_mark).
  split; unfold flip; unfold CrashOK, window, gh, started, inflight, primary, rcur, wk_inv in *; proj.
  - rewrite W. apply window_append.
    + intros n Hn. pose proof (i_crash s I n Hn) as V. unfold gh, started, inflight in V. rewrite W, F in V.
      apply view_ok_set_flipped. exact V.
    + unfold view_ok, vslot. rewrite act_mark_of. rewrite MV.
      change (slot (greplay (r_j s)) (negb (r_active s))) with (alternate s). proj.
      split; [right; destruct (r_active s); [left|right]; reflexivity|].
      split; [exact a1|]. split; [unfold size_ok; rewrite a2; exact Logic.I|].
      right. split; [reflexivity|]. split; [rewrite A0; reflexivity|]. split.
      * intros x Hx. apply in_app_iff in Hx. destruct Hx as [Hx|Hx].
        -- destruct (a4 x Hx) as [[]|[[]|H]]; exact H.
        -- destruct (a5 x Hx) as [[]|[[]|H]]; exact H.
      * rewrite app_nil_r. exact a3.
  - rewrite app_length. simpl. pose proof (i_sync s I). lia.
  - rewrite greplay_snoc. apply act_mark_of.
  - rewrite A0. reflexivity.
  - intros _. rewrite greplay_snoc, MV. exact a2.
  - intros _. rewrite greplay_snoc, MV. apply a8. exact CT.
  - rewrite W. pose proof (i_kwf s I) as KW. unfold started, inflight in KW. rewrite W in KW. exact KW.
  - rewrite W. exact Logic.I.
  - intros _. exact W.
  - unfold phase_inv. proj. split; [reflexivity|exact W].
Qed.

Lemma step_EFlipFail s s' : RInv s -> r_closed s = false -> rstep pb s EFlipFail = Some s' -> RInv s'.
Proof.
  intros I NC H. step_open H NC. destruct (r_ph s) eqn:P; try discriminate. inversion H; subst s'; clear H.
  pose proof (i_phase s I) as PH. unfold phase_inv in PH. rewrite P in PH.
  apply (same_core_inv s); [sc NC|left; reflexivity|right; left; tauto|exact I|].
  unfold phase_inv. proj. split; [tauto|]. destruct PH as [F _]. rewrite F. discriminate.
Qed.

Lemma step_EFinish s s' : RInv s -> r_closed s = false -> rstep pb s EFinish = Some s' -> RInv s'.
Proof.
  intros I NC H. step_open H NC.
  pose proof (i_phase s I) as PH. unfold phase_inv in PH.
  destruct (r_ph s) eqn:P; try discriminate. inversion H; subst s'; clear H.
  destruct PH as [W FL].
  pose proof (i_a0 s I) as A0.
  split; unfold CrashOK, window, gh, started, inflight, primary, rcur, wk_inv in *; proj.
  - rewrite W. intros n Hn. pose proof (i_crash s I n Hn) as V. unfold gh, started, inflight in V. rewrite W in V.
    destruct V as [M [WS [S D]]]. split; [exact M|]. split; [exact WS|]. split; [exact S|]. proj. left.
    rewrite !app_nil_r in *.
    destruct (r_flipped s) eqn:F.
    + specialize (FL eq_refl n Hn). destruct D as [[D1 _]|[_ [D1 [D2 D3]]]].
      * rewrite D1 in FL. destruct (r_a0 s); discriminate.
      * split; [rewrite A0; exact D1|]. unfold bounds. rewrite !app_nil_r. split; assumption.
    + destruct D as [[D1 [D2 D3]]|[D0 _]]; [|discriminate].
      split; [rewrite A0; exact D1|]. unfold bounds. rewrite !app_nil_r. split; assumption.
  - apply (i_sync s I).
  - apply (i_act s I).
  - reflexivity.
  - intros _. apply (i_nosize s I NC).
  - intros _. apply (i_size s I NC).
  - rewrite W. pose proof (i_kwf s I) as KW. unfold started, inflight in KW. rewrite W in KW.
    intros k Hk. apply KW. rewrite !in_app_iff in *. simpl in Hk.
    destruct (r_flipped s); tauto.
  - rewrite W. exact Logic.I.
  - discriminate.
  - unfold phase_inv. proj. split; reflexivity.
Qed.

(* ---- all events, all histories ------------------------------------------- *)
Definition ev_ok (e : revent) : Prop :=
  match e with
  | EPutBegin ks => keys_ok ks
  | EStart new => all_kwf new
  | _ => True
  end.

Theorem rstep_inv s s' e : RInv s -> ev_ok e -> rstep pb s e = Some s' -> RInv s'.
Proof.
  intros I OK H. destruct (r_closed s) eqn:NC.
  - destruct e; try (unfold rstep in H; rewrite NC in H; discriminate).
    eapply step_ECloseSync; eauto.
  - destruct e; simpl in OK.
    + eapply step_EPutBegin; eauto.
    + eapply step_EPutCommit; eauto.
    + eapply step_EPutSync; eauto.
    + eapply step_EClose; eauto.
    + unfold rstep in H. rewrite NC in H. discriminate.
    + eapply step_EStart; eauto.
    + eapply step_EDel; eauto.
    + eapply step_EStartDone; eauto.
    + eapply step_EStartFail; eauto.
    + eapply step_EKey; eauto.
    + eapply step_EAltWrite; eauto.
    + eapply step_EAltSync; eauto.
    + eapply step_ECount; eauto.
    + eapply step_ECleanup; eauto.
    + eapply step_ECleanSync; eauto.
    + eapply step_EFlip; eauto.
    + eapply step_EFlipFail; eauto.
    + eapply step_EMarkSync; eauto.
    + eapply step_EAbort; eauto.
    + eapply step_EAbortClean; eauto.
    + eapply step_ETearSync; eauto.
    + eapply step_EFinish; eauto.
Qed.

Theorem rrun_inv evs : forall s s', RInv s -> Forall ev_ok evs -> rrun pb s evs = Some s' -> RInv s'.
Proof.
  induction evs as [|e evs IH]; intros s s' I F H; simpl in H.
  - inversion H; subst. exact I.
  - inversion F; subst. destruct (rstep pb s e) as [s1|] eqn:E; [|discriminate].
    eapply IH; [eapply rstep_inv; eauto|assumption|exact H].
Qed.

Lemma ropen_nil_inv : RInv (ropen []).
Proof.
  split; unfold ropen, CrashOK, window, gh, started, inflight, primary, rcur, wk_inv, phase_inv; simpl.
  - intros n Hn. assert (n = 0 \/ n = 1) as [-> | ->] by lia; simpl;
      (split; [left; reflexivity|]); (split; [apply wfs_nil|]); (split; [exact Logic.I|]);
      left; (split; [reflexivity|]); split; intros x [].
  - lia.
  - reflexivity.
  - reflexivity.
  - reflexivity.
  - reflexivity.
  - intros k [].
  - exact Logic.I.
  - discriminate.
  - split; reflexivity.
Qed.

(* ---- what a reopened keystore holds --------------------------------------- *)
Lemma ropen_view j :
  mark_ok (greplay j) -> wfs (vslot (greplay j)) -> size_ok (vslot (greplay j)) ->
  reopen_keys j = keys_of (vslot (greplay j)) /\
  reopen_size j = Z.of_nat (length (keys_of (vslot (greplay j)))).
Proof.
  intros M W S. unfold reopen_keys, reopen_size, ropen, primary, rcur. proj.
  assert (J1 : match g_mark (greplay j) with
               | Some v => if (1 <? v)%N then j ++ [GMark 0] else j
               | None => j
               end = j).
  { destruct M as [-> | [-> | ->]]; reflexivity. }
  rewrite J1. unfold vslot in *. set (a := act (greplay j)) in *. set (st := slot (greplay j) a) in *.
  split.
  - rewrite greplay_snoc, slot_gapply_same. simpl. fold st. apply (keys_of_del_size bits_of pb). exact W.
  - unfold size_ok in S. destruct (st_get KSize st) as [[z|k]|] eqn:E.
    + exact S.
    + destruct S.
    + unfold refresh_size. rewrite (st_del_size_length bits_of pb) by exact W. reflexivity.
Qed.

Definition holds (base : list mhk) (s : rst) (ks : list mhk) : Prop :=
  incl (base ++ r_acked s) ks /\ incl ks (base ++ started s).

(* every datastore a crash can leave behind reopens to the complete old set or
   (once the swap has happened) the complete new set, each with the acknowledged
   concurrent puts and at most the puts in flight; the reported size matches *)
Theorem crash_reopen s n : RInv s -> r_synced s <= n <= length (r_j s) ->
  let j' := firstn n (r_j s) in
  NoDup (map mid (reopen_keys j')) /\
  reopen_size j' = Z.of_nat (length (reopen_keys j')) /\
  (holds (r_old s) s (reopen_keys j') \/ (r_flipped s = true /\ holds (r_new s) s (reopen_keys j'))).
Proof.
  intros I Hn j'. destruct (i_crash s I n Hn) as [M [W [S D]]]. fold j' in M, W, S, D.
  destruct (ropen_view j' M W S) as [E1 E2]. rewrite E1, E2.
  split; [apply (keys_of_nodup bits_of pb); exact W|]. split; [reflexivity|].
  unfold gh in D. proj. unfold holds. destruct D as [[_ D]|[D0 [_ D]]]; [left|right]; auto.
Qed.

Theorem reset_atomic evs s n : Forall ev_ok evs -> rrun pb (ropen []) evs = Some s ->
  r_synced s <= n <= length (r_j s) ->
  let j' := firstn n (r_j s) in
  NoDup (map mid (reopen_keys j')) /\
  reopen_size j' = Z.of_nat (length (reopen_keys j')) /\
  (holds (r_old s) s (reopen_keys j') \/ (r_flipped s = true /\ holds (r_new s) s (reopen_keys j'))).
Proof.
  intros F H Hn. apply crash_reopen; [|exact Hn]. eapply rrun_inv; [apply ropen_nil_inv|exact F|exact H].
Qed.

(* as long as the swap of the current reset has not happened (in particular after
   a cancellation, a failed altDs call, or Close during the reset), only the old
   set can come back *)
Theorem reset_not_flipped evs s n : Forall ev_ok evs -> rrun pb (ropen []) evs = Some s ->
  r_flipped s = false -> r_synced s <= n <= length (r_j s) ->
  holds (r_old s) s (reopen_keys (firstn n (r_j s))).
Proof.
  intros F H NF Hn. destruct (reset_atomic evs s n F H Hn) as [_ [_ [D|[D _]]]]; [exact D|congruence].
Qed.

(* the live keystore: marker and memory agree, the size counter is exact *)
Theorem live_exact evs s : Forall ev_ok evs -> rrun pb (ropen []) evs = Some s -> r_closed s = false ->
  r_size s = Z.of_nat (length (keys_of (primary s))) /\ NoDup (map mid (keys_of (primary s))) /\
  (holds (r_old s) s (keys_of (primary s)) \/ (r_flipped s = true /\ holds (r_new s) s (keys_of (primary s)))).
Proof.
  intros F H NC. assert (I : RInv s) by (eapply rrun_inv; [apply ropen_nil_inv|exact F|exact H]).
  pose proof (inv_pwfs s I) as W. split; [|split].
  - rewrite (i_size s I NC). rewrite (keys_of_length_nosize bits_of pb); auto. apply (i_nosize s I NC).
  - apply (keys_of_nodup bits_of pb). exact W.
  - destruct (inv_cur_view s I) as [_ [_ [_ D]]]. rewrite (inv_vslot s I) in D. unfold gh in D. proj. unfold holds.
    destruct D as [[_ D]|[D0 [_ D]]]; [left|right]; auto.
Qed.

(* ---- the worker can always get back to the idle state -------------------- *)
Definition finish_reset (p : phase) : list revent :=
  match p with
  | PIdle => []
  | PStarting => [EStartFail]
  | PFilling => [EAbort; EFinish]
  | PClean0 => [EAbortClean; EFinish]
  | PClean1 => [EFlipFail; EFinish]
  | PClean2 => [EMarkSync; EFinish]
  | PTearing => [EFinish]
  end.

Lemma finish_reset_runs s : r_closed s = false -> r_wk s = None ->
  exists s', rrun pb s (finish_reset (r_ph s)) = Some s' /\ r_ph s' = PIdle /\ r_wk s' = None /\ r_closed s' = false.
Proof.
  intros NC W. destruct (r_ph s) eqn:P; simpl; unfold rstep; rewrite ?NC, ?P, ?W; simpl;
    rewrite ?NC, ?P, ?W; simpl; eexists; (split; [reflexivity|]); simpl; auto.
Qed.

Theorem never_wedged s : RInv s -> r_closed s = false ->
  exists evs s', rrun pb s evs = Some s' /\ r_ph s' = PIdle /\ r_wk s' = None /\ r_closed s' = false.
Proof.
  intros I NC. pose proof (i_wk s I) as WK. unfold wk_inv in WK.
  destruct (r_wk s) as [[ks [nw|]]|] eqn:W.
  - (* a Put waiting for its Sync *)
    destruct (rstep pb s EPutSync) as [s1|] eqn:E1.
    + assert (C1 : r_closed s1 = false /\ r_wk s1 = None).
      { unfold rstep in E1. rewrite NC, W in E1. inversion E1. split; reflexivity. }
      destruct (finish_reset_runs s1 (proj1 C1) (proj2 C1)) as [s' [R H]].
      exists (EPutSync :: finish_reset (r_ph s1)), s'. simpl. rewrite E1. auto.
    + unfold rstep in E1. rewrite NC, W in E1. discriminate.
  - destruct (put_scan_nofault pb (primary s) NoFault Logic.I ks [] 0) as [b [nw PS]].
    destruct (rstep pb s EPutCommit) as [s1|] eqn:E1; [|unfold rstep in E1; rewrite NC, W, PS in E1; discriminate].
    assert (C1 : r_closed s1 = false /\ r_wk s1 = Some (ks, Some nw)).
    { unfold rstep in E1. rewrite NC, W, PS in E1. inversion E1. split; reflexivity. }
    destruct (rstep pb s1 EPutSync) as [s2|] eqn:E2;
      [|unfold rstep in E2; rewrite (proj1 C1), (proj2 C1) in E2; discriminate].
    assert (C2 : r_closed s2 = false /\ r_wk s2 = None).
    { unfold rstep in E2. rewrite (proj1 C1), (proj2 C1) in E2. inversion E2. split; reflexivity. }
    destruct (finish_reset_runs s2 (proj1 C2) (proj2 C2)) as [s' [R H]].
    exists (EPutCommit :: EPutSync :: finish_reset (r_ph s2)), s'. simpl. rewrite E1, E2. auto.
  - destruct (finish_reset_runs s NC W) as [s' [R H]]. exists (finish_reset (r_ph s)), s'. auto.
Qed.

Theorem reachable_never_wedged evs s : Forall ev_ok evs -> rrun pb (ropen []) evs = Some s -> r_closed s = false ->
  exists evs' s', rrun pb s evs' = Some s' /\ r_ph s' = PIdle /\ r_wk s' = None /\ r_closed s' = false.
Proof.
  intros F H NC. apply never_wedged; [|exact NC]. eapply rrun_inv; [apply ropen_nil_inv|exact F|exact H].
Qed.

(* ---- a failing datastore call of the reset ------------------------------- *)
Definition fault_event (e : revent) : Prop :=
  e = EStartFail \/ e = EAbort \/ e = EAbortClean \/ e = EFlipFail.

Lemma fault_event_not_flipped s s' e : RInv s -> fault_event e -> rstep pb s e = Some s' ->
  r_flipped s' = false /\ r_old s' = r_old s /\ r_acked s' = r_acked s.
Proof.
  intros I FE H. pose proof (i_phase s I) as PH. unfold phase_inv in PH.
  unfold rstep in H. destruct (r_closed s) eqn:NC.
  - destruct FE as [-> | [-> | [-> | ->]]]; discriminate.
  - destruct FE as [-> | [-> | [-> | ->]]]; destruct (r_ph s) eqn:P; try discriminate.
    + inversion H; subst s'. simpl. tauto.
    + destruct (is_none (r_wk s)); [|discriminate]. inversion H; subst s'. simpl. tauto.
    + inversion H; subst s'. simpl. tauto.
    + inversion H; subst s'. simpl. tauto.
Qed.

(* whatever datastore call of the reset fails (in opStart, in phases A-C, in the final
   drain / altDs.Sync, or the marker write itself): every crash point afterwards reopens
   to the complete old set with the acknowledged puts *)
Theorem error_injection evs s s' e n : Forall ev_ok evs -> rrun pb (ropen []) evs = Some s ->
  fault_event e -> rstep pb s e = Some s' ->
  r_synced s' <= n <= length (r_j s') ->
  let j' := firstn n (r_j s') in
  NoDup (map mid (reopen_keys j')) /\ reopen_size j' = Z.of_nat (length (reopen_keys j')) /\
  holds (r_old s) s' (reopen_keys j').
Proof.
  intros F H FE ST Hn j'.
  assert (I : RInv s) by (eapply rrun_inv; [apply ropen_nil_inv|exact F|exact H]).
  assert (I' : RInv s').
  { eapply rstep_inv; [exact I| |exact ST]. destruct FE as [-> | [-> | [-> | ->]]]; exact Logic.I. }
  destruct (fault_event_not_flipped s s' e I FE ST) as [NF [EO _]].
  destruct (crash_reopen s' n I' Hn) as [H1 [H2 H3]]. fold j' in H1, H2, H3.
  split; [exact H1|]. split; [exact H2|]. rewrite <- EO.
  destruct H3 as [H3|[H3 _]]; [exact H3|congruence].
Qed.
End R.
