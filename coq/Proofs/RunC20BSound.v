(* The decision procedure of Corr/Run_C20B.v decides exactly the final-state clause
   of C20 (set statement), so a verdict 0 on a bounded-buffer run means the clause
   holds of the observations, and any other verdict means it does not. *)
From Verif.Lib Require Import GoSem.
From Verif.Corr Require Import Run_C20B.
Local Open Scope N_scope.

Lemma memb_In x l : memb x l = true <-> In x l.
Proof.
  unfold memb. rewrite existsb_exists. split.
  - intros [y [Hy He]]. apply N.eqb_eq in He. subst. exact Hy.
  - intros H. exists x. split; [exact H | apply N.eqb_refl].
Qed.

Lemma nodupb_NoDup l : nodupb l = true <-> NoDup l.
Proof.
  induction l as [|x r IH]; cbn [nodupb].
  - split; [constructor | reflexivity].
  - rewrite Bool.andb_true_iff, Bool.negb_true_iff, IH. split.
    + intros [Hn Hr]. constructor; [|exact Hr].
      intros Hin. apply memb_In in Hin. rewrite Hin in Hn. discriminate.
    + intros H. inversion H as [|? ? Hn Hr]; subst. split; [|exact Hr].
      destruct (memb x r) eqn:E; [|reflexivity]. apply memb_In in E. contradiction.
Qed.

(* the set statement: no key twice, nothing acknowledged or supplied missing, nothing else there
   (keys of Puts that failed may or may not be there), reported size = number of keys *)
Definition final_state_clause (new : bool) (c : bcase) (st : Z * list N) : Prop :=
  NoDup (snd st)
  /\ (forall x, In x (expected new c) -> In x (snd st))
  /\ (forall x, In x (snd st) -> In x (expected new c) \/ In x (b_maybe c))
  /\ fst st = Z.of_nat (length (snd st)).

Lemma state_is_sound new c st : state_is new c st = true <-> final_state_clause new c st.
Proof.
  unfold state_is, final_state_clause.
  rewrite !Bool.andb_true_iff, nodupb_NoDup, !forallb_forall, Z.eqb_eq.
  split.
  - intros [[[Hn Ha] Hb] Hs]. repeat split; try assumption.
    + intros x Hx. apply memb_In, Ha, Hx.
    + intros x Hx. specialize (Hb x Hx). apply Bool.orb_true_iff in Hb.
      destruct Hb as [Hb|Hb]; apply memb_In in Hb; [left|right]; exact Hb.
  - intros [Hn [Ha [Hb Hs]]]. repeat split; try assumption.
    + intros x Hx. apply memb_In, Ha, Hx.
    + intros x Hx. apply Bool.orb_true_iff. destruct (Hb x Hx) as [H|H]; [left|right]; apply memb_In, H.
Qed.

(* which complete set: the previous one after an error, the new one after a nil return that nobody
   cancelled, either one (the same live and reopened) after a requested cancellation *)
Definition final_clause (c : bcase) : Prop :=
  let both new := final_state_clause new c (b_live c) /\ final_state_clause new c (b_reopen c) in
  if b_ok c then (if b_cancel_req c then both true \/ both false else both true) else both false.

Lemma verdict_sound c : verdict c = 0%nat <-> final_clause c.
Proof.
  unfold verdict, state_ok, final_clause.
  destruct (b_ok c), (b_cancel_req c); cbn [andb orb];
    repeat rewrite <- state_is_sound.
  - destruct (state_is true c (b_live c)), (state_is true c (b_reopen c)),
             (state_is false c (b_live c)), (state_is false c (b_reopen c)); cbn;
      split; intros H; try reflexivity; try discriminate; try tauto;
      try (destruct H as [[? ?]|[? ?]]; discriminate).
  - destruct (state_is true c (b_live c)), (state_is true c (b_reopen c)); cbn;
      split; intros H; try reflexivity; try discriminate; try tauto; destruct H; discriminate.
  - destruct (state_is false c (b_live c)), (state_is false c (b_reopen c)); cbn;
      split; intros H; try reflexivity; try discriminate; try tauto; destruct H; discriminate.
  - destruct (state_is false c (b_live c)), (state_is false c (b_reopen c)); cbn;
      split; intros H; try reflexivity; try discriminate; try tauto; destruct H; discriminate.
Qed.
