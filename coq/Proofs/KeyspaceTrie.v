(* The go-libdht trie operations used by the keyspace package keep tries well formed (C18):
   AddMany / Add on keys that are pairwise non-comparable with each other and with the keys
   already present. *)
From Verif.Lib Require Import GoSem Bits.
From Verif.Model Require Import Trie Keyspace.
From Verif.Proofs Require Import KeyspaceBase KeyspaceProofs.
From Coq Require Import Permutation.

(* no two different keys of the list are comparable *)
Definition compat (ks : list bits) : Prop :=
  forall a b, In a ks -> In b ks -> comparable a b = true -> a = b.

Lemma compat_incl ks ks' : incl ks' ks -> compat ks -> compat ks'.
Proof. intros I C a b Ha Hb. apply C; apply I; assumption. Qed.

Lemma comparable_prefix p k : is_prefix p k = true -> comparable p k = true.
Proof. intro H. unfold comparable. rewrite H. reflexivity. Qed.

(* the recursive step of addManyAtDepth *)
Definition am_descend {D} (fuel depth : nat) (es : list (bits * D)) (t0 t1 : trie D) : res (trie D * nat) :=
  r0 <- add_many_at fuel (S depth) (filter (goes depth false) es) t0 ;;
  r1 <- add_many_at fuel (S depth) (filter (goes depth true) es) t1 ;;
  Ok (Nd (fst r0) (fst r1), snd r0 + snd r1).

Lemma add_many_at_Nd {D} f depth (e1 : bits * D) rest t0 t1 :
  add_many_at (S f) depth (e1 :: rest) (Nd t0 t1) = am_descend f depth (e1 :: rest) t0 t1.
Proof. reflexivity. Qed.
Lemma add_many_at_E {D} f depth (e1 : bits * D) rest :
  add_many_at (S f) depth (e1 :: rest) E =
  match rest with
  | [] => Ok (L (fst e1) (snd e1), 1)
  | _ => am_descend f depth (e1 :: rest) E E
  end.
Proof. reflexivity. Qed.
Lemma add_many_at_L {D} f depth (e1 : bits * D) rest k d :
  add_many_at (S f) depth (e1 :: rest) (L k d) =
  let split := b <- bit_at k depth ;;
               if b then am_descend f depth (e1 :: rest) E (L k d)
               else am_descend f depth (e1 :: rest) (L k d) E in
  match rest with
  | [] => if bits_eqb k (fst e1) then Ok (L k d, 0) else split
  | _ => split
  end.
Proof. reflexivity. Qed.

Lemma goes_In {D} depth b (e : bits * D) es :
  In e (filter (goes depth b) es) <-> In e es /\ nth_error (fst e) depth = Some b.
Proof.
  rewrite filter_In. unfold goes, ebit. destruct (nth_error (fst e) depth) as [c|]; split; intros [H1 H2]; split; auto.
  - apply eqb_prop in H2. congruence.
  - inversion H2. apply eqb_reflx.
  - discriminate.
  - discriminate.
Qed.

Lemma NoDup_map_filter {A B} (f : A -> B) (g : A -> bool) l : NoDup (map f l) -> NoDup (map f (filter g l)).
Proof.
  induction l as [|a l IH]; simpl; intro H; [constructor|]. inversion H; subst.
  destruct (g a); simpl; [constructor|]; auto.
  intro X. apply H2. apply in_map_iff in X as [x [E1 Hx]]. apply filter_In in Hx as [Hx _].
  apply in_map_iff. exists x. auto.
Qed.

Section AddMany.
Context {D : Type}.
Notation ent := (bits * D)%type.

(* the entries characterisation of an insertion *)
Definition added (es : list ent) (t t' : trie D) : Prop :=
  forall e, In e (entries t') <-> In e (entries t) \/ (In e es /\ ~ In (fst e) (keys_of t)).

Lemma am_descend_spec f depth (es : list ent) t0 t1 p :
  (forall depth' es' t p',
      wf_at p' t -> length p' = depth' ->
      (forall e, In e es' -> is_prefix p' (fst e) = true) ->
      NoDup (map fst es') -> compat (map fst es' ++ keys_of t) ->
      (forall e, In e es' -> length (fst e) < f + depth') ->
      exists t' n, add_many_at f depth' es' t = Ok (t', n) /\ wf_at p' t' /\ added es' t t') ->
  wf_at (p ++ [false]) t0 -> wf_at (p ++ [true]) t1 -> length p = depth ->
  (forall e, In e es -> is_prefix p (fst e) = true /\ depth < length (fst e)) ->
  NoDup (map fst es) -> compat (map fst es ++ keys_of t0 ++ keys_of t1) ->
  (forall e, In e es -> length (fst e) < S f + depth) ->
  exists t0' t1' n, am_descend f depth es t0 t1 = Ok (Nd t0' t1', n) /\
    wf_at (p ++ [false]) t0' /\ wf_at (p ++ [true]) t1' /\
    (forall e, In e (entries t0' ++ entries t1') <->
               In e (entries t0 ++ entries t1) \/ (In e es /\ ~ In (fst e) (keys_of t0 ++ keys_of t1))).
Proof.
  intros IH W0 W1 Hp Hes ND Cp Hf.
  assert (Side : forall b tb, wf_at (p ++ [b]) tb -> incl (keys_of tb) (keys_of t0 ++ keys_of t1) ->
     exists t' n, add_many_at f (S depth) (filter (goes depth b) es) tb = Ok (t', n) /\
                  wf_at (p ++ [b]) t' /\ added (filter (goes depth b) es) tb t').
  { intros b tb Wb Ib. apply IH; auto.
    - rewrite app_length. simpl. lia.
    - intros e He. apply goes_In in He as [He Hn]. apply is_prefix_snoc. rewrite Hp. split; [apply Hes; exact He|exact Hn].
    - apply NoDup_map_filter. exact ND.
    - eapply compat_incl; [|exact Cp]. intros x Hx. apply in_app_or in Hx as [Hx|Hx]; apply in_or_app.
      + left. apply in_map_iff in Hx as [e [<- He]]. apply filter_In in He as [He _]. apply in_map. exact He.
      + right. apply Ib. exact Hx.
    - intros e He. apply goes_In in He as [He _]. specialize (Hf e He). lia. }
  destruct (Side false t0 W0) as [t0' [n0 [E0 [W0' A0]]]]; [intros x Hx; apply in_or_app; left; exact Hx|].
  destruct (Side true t1 W1) as [t1' [n1 [E1 [W1' A1]]]]; [intros x Hx; apply in_or_app; right; exact Hx|].
  exists t0', t1', (n0 + n1). unfold am_descend. rewrite E0. cbn [bind]. rewrite E1. cbn [bind fst snd].
  split; [reflexivity|]. split; [exact W0'|]. split; [exact W1'|].
  intro e. rewrite !in_app_iff. rewrite (A0 e), (A1 e). rewrite !goes_In. split.
  - intros [[H|[[He Hn] Hk]]|[H|[[He Hn] Hk]]]; auto; right; split; auto; intro X; destruct X as [X|X]; auto.
    + pose proof (wf_at_keys_prefix _ _ _ W1 X) as P. apply is_prefix_snoc in P as [_ P]. rewrite Hp in P. congruence.
    + pose proof (wf_at_keys_prefix _ _ _ W0 X) as P. apply is_prefix_snoc in P as [_ P]. rewrite Hp in P. congruence.
  - intros [[H|H]|[He Hk]]; auto.
    destruct (Hes e He) as [_ Hl]. destruct (bit_at_lt (fst e) depth Hl) as [b [_ Hb]].
    destruct b; [right|left]; right; (split; [split; assumption|]); intro X; apply Hk; auto.
Qed.

Lemma add_many_at_spec : forall fuel depth (es : list ent) t p,
  wf_at p t -> length p = depth ->
  (forall e, In e es -> is_prefix p (fst e) = true) ->
  NoDup (map fst es) -> compat (map fst es ++ keys_of t) ->
  (forall e, In e es -> length (fst e) < fuel + depth) ->
  exists t' n, add_many_at fuel depth es t = Ok (t', n) /\ wf_at p t' /\ added es t t'.
Proof.
  induction fuel as [|f IH]; intros depth es t p Hw Hp Hpre ND Cp Hf.
  - destruct es as [|e1 rest].
    + exists t, 0. split; [destruct t; reflexivity|]. split; [exact Hw|]. intro e. simpl. tauto.
    + exfalso. specialize (Hf e1 (or_introl eq_refl)). specialize (Hpre e1 (or_introl eq_refl)).
      apply is_prefix_length in Hpre. lia.
  - destruct es as [|e1 rest].
    + exists t, 0. split; [destruct t; reflexivity|]. split; [exact Hw|]. intro e. simpl. tauto.
    + set (es := e1 :: rest) in *.
      (* an entry key of length [depth] would be the path itself *)
      assert (Short : forall e, In e es -> length (fst e) = depth -> fst e = p).
      { intros e He Hl. symmetry. apply is_prefix_same_length; [apply Hpre; exact He|lia]. }
      destruct t as [|k d|t0 t1].
      * (* empty leaf *)
        unfold es. rewrite add_many_at_E. destruct rest as [|e2 rest'].
        -- exists (L (fst e1) (snd e1)), 1. split; [reflexivity|]. split; [apply Hpre; left; reflexivity|].
           intro e. simpl. destruct e1 as [k1 d1]. simpl. unfold keys_of. simpl. tauto.
        -- fold es.
           assert (Long : forall e, In e es -> is_prefix p (fst e) = true /\ depth < length (fst e)).
           { intros e He. split; [apply Hpre; exact He|].
             pose proof (is_prefix_length _ _ (Hpre e He)) as Hl.
             destruct (Nat.eq_dec (length (fst e)) depth) as [El|]; [|lia]. exfalso.
             pose proof (Short e He El) as Ep.
             (* another entry has a different key, comparable with p *)
             assert (exists e', In e' es /\ fst e' <> fst e) as [e' [He' Ne]].
             { unfold es in *. inversion ND; subst. inversion H2; subst.
               destruct He as [<-|[<-|He]].
               - exists e2. split; [right; left; reflexivity|]. intro X. apply H1. left. exact X.
               - exists e1. split; [left; reflexivity|]. intro X. apply H1. left. symmetry. exact X.
               - exists e1. split; [left; reflexivity|]. intro X. apply H1. right. rewrite X. apply in_map. exact He. }
             apply Ne. symmetry. apply Cp.
             - apply in_or_app. left. apply in_map. exact He.
             - apply in_or_app. left. apply in_map. exact He'.
             - rewrite Ep. apply comparable_prefix. apply Hpre. exact He'. }
           destruct (am_descend_spec f depth es E E p IH I I Hp Long ND) as [t0' [t1' [n [E1 [W0 [W1 A]]]]]].
           { simpl. rewrite app_nil_r. unfold keys_of in Cp. simpl in Cp. rewrite app_nil_r in Cp. exact Cp. }
           { exact Hf. }
           exists (Nd t0' t1'), n. split; [exact E1|]. split.
           ++ simpl. split; [exact W0|]. split; [exact W1|].
              assert (In e1 (entries t0' ++ entries t1')).
              { apply A. right. split; [left; reflexivity|]. intros []. }
              rewrite !size_entries, <- app_length. destruct (entries t0' ++ entries t1'); [contradiction|simpl; lia].
           ++ intro e. simpl entries. rewrite (A e). unfold keys_of. simpl. tauto.
      * (* non-empty leaf *)
        unfold es. rewrite add_many_at_L. cbv zeta. fold es.
        assert (Same : rest = [] /\ k = fst e1 \/ ~ (rest = [] /\ k = fst e1)).
        { destruct rest; [|right; intros [X _]; discriminate].
          destruct (bits_eqb k (fst e1)) eqn:Eb; [left; split; [reflexivity|apply bits_eqb_eq; exact Eb]|].
          right. intros [_ X]. apply bits_eqb_neq in Eb. contradiction. }
        destruct Same as [[-> Ek]|Ne].
        -- rewrite Ek, bits_eqb_refl. exists (L (fst e1) d), 0. split; [reflexivity|].
           split; [rewrite <- Ek; exact Hw|]. intro e. unfold keys_of. simpl. split; [tauto|].
           intros [H|[[<-|[]] H]]; [exact H|]. exfalso. apply H. left. reflexivity.
        -- (* the leaf is split: its key is longer than the path *)
           simpl in Hw.
           assert (Lk : depth < length k).
           { pose proof (is_prefix_length _ _ Hw) as Hl.
             destruct (Nat.eq_dec (length k) depth) as [El|]; [|lia]. exfalso.
             assert (Ep : k = p) by (symmetry; apply is_prefix_same_length; [exact Hw|lia]).
             (* every entry key is comparable with k, hence equal to k *)
             assert (All : forall e, In e es -> fst e = k).
             { intros e He. apply Cp.
               - apply in_or_app. left. apply in_map. exact He.
               - apply in_or_app. right. unfold keys_of. simpl. left. reflexivity.
               - rewrite Ep. unfold comparable. rewrite (Hpre e He). apply orb_true_r. }
             apply Ne. unfold es in *. destruct rest as [|e2 rest'].
             - split; [reflexivity|]. symmetry. apply All. left. reflexivity.
             - exfalso. inversion ND; subst. apply H1. left.
               rewrite (All e1 (or_introl eq_refl)), (All e2 (or_intror (or_introl eq_refl))). reflexivity. }
           assert (Long : forall e, In e es -> is_prefix p (fst e) = true /\ depth < length (fst e)).
           { intros e He. split; [apply Hpre; exact He|].
             pose proof (is_prefix_length _ _ (Hpre e He)) as Hl.
             destruct (Nat.eq_dec (length (fst e)) depth) as [El|]; [|lia]. exfalso.
             pose proof (Short e He El) as Ep.
             assert (fst e = k).
             { apply Cp.
               - apply in_or_app. left. apply in_map. exact He.
               - apply in_or_app. right. unfold keys_of. simpl. left. reflexivity.
               - rewrite Ep. apply comparable_prefix. exact Hw. }
             rewrite H in El. lia. }
           destruct (bit_at_lt k depth Lk) as [b [Hb Hn]].
           assert (Wk : wf_at (p ++ [b]) (L k d)).
           { simpl. apply is_prefix_snoc. rewrite Hp. auto. }
           assert (Split : exists t0' t1' n,
             (b <- bit_at k depth ;; if b then am_descend f depth es E (L k d) else am_descend f depth es (L k d) E)
               = Ok (Nd t0' t1', n) /\ wf_at (p ++ [false]) t0' /\ wf_at (p ++ [true]) t1' /\
             (forall e, In e (entries t0' ++ entries t1') <->
                        In e [(k, d)] \/ (In e es /\ ~ In (fst e) [k]))).
           { rewrite Hb. cbn [bind]. destruct b.
             - destruct (am_descend_spec f depth es E (L k d) p IH I Wk Hp Long ND) as [t0' [t1' [n [E1 [W0 [W1 A]]]]]].
               + exact Cp.
               + exact Hf.
               + exists t0', t1', n. auto.
             - destruct (am_descend_spec f depth es (L k d) E p IH Wk I Hp Long ND) as [t0' [t1' [n [E1 [W0 [W1 A]]]]]].
               + replace (keys_of (L k d) ++ keys_of E) with (keys_of (L k d)) by reflexivity. exact Cp.
               + exact Hf.
               + exists t0', t1', n. split; [exact E1|]. split; [exact W0|]. split; [exact W1|].
                 intro e. rewrite (A e). unfold keys_of. simpl. tauto. }
           destruct Split as [t0' [t1' [n [E1 [W0 [W1 A]]]]]].
           assert (Goal : exists t' n, (b <- bit_at k depth ;; if b then am_descend f depth es E (L k d) else am_descend f depth es (L k d) E) = Ok (t', n)
                     /\ wf_at p t' /\ added es (L k d) t').
           { exists (Nd t0' t1'), n. split; [exact E1|]. split.
             - simpl. split; [exact W0|]. split; [exact W1|].
               assert (In (k, d) (entries t0' ++ entries t1')) by (apply A; left; left; reflexivity).
               rewrite !size_entries, <- app_length. destruct (entries t0' ++ entries t1'); [contradiction|simpl; lia].
             - intro e. simpl entries. rewrite (A e). unfold keys_of. simpl. tauto. }
           unfold es in *. destruct rest as [|e2 rest'].
           ++ destruct (bits_eqb k (fst e1)) eqn:Eb; [|exact Goal].
              exfalso. apply Ne. split; [reflexivity|apply bits_eqb_eq; exact Eb].
           ++ exact Goal.
      * (* inner node: every entry key is longer than the path *)
        unfold es. rewrite add_many_at_Nd. fold es.
        destruct Hw as [W0 [W1 Pos]].
        assert (exists k0, In k0 (keys_of t0 ++ keys_of t1)) as [k0 Hk0].
        { destruct (keys_of t0 ++ keys_of t1) as [|k0 l] eqn:E1; [|exists k0; left; reflexivity].
          exfalso. rewrite <- keys_of_Nd in E1. pose proof (size_keys (Nd t0 t1)) as S. rewrite E1 in S. simpl in S. lia. }
        assert (Pk0 : is_prefix p k0 = true /\ depth < length k0).
        { apply in_app_or in Hk0 as [H|H];
            [pose proof (wf_at_keys_prefix _ _ _ W0 H) as P|pose proof (wf_at_keys_prefix _ _ _ W1 H) as P];
            (split; [eapply is_prefix_snoc_l; exact P|]); apply is_prefix_length in P; rewrite app_length in P; simpl in P; lia. }
        assert (Long : forall e, In e es -> is_prefix p (fst e) = true /\ depth < length (fst e)).
        { intros e He. split; [apply Hpre; exact He|].
          pose proof (is_prefix_length _ _ (Hpre e He)) as Hl.
          destruct (Nat.eq_dec (length (fst e)) depth) as [El|]; [|lia]. exfalso.
          pose proof (Short e He El) as Ep.
          assert (fst e = k0).
          { apply Cp.
            - apply in_or_app. left. apply in_map. exact He.
            - apply in_or_app. right. rewrite keys_of_Nd. exact Hk0.
            - rewrite Ep. apply comparable_prefix. apply Pk0. }
          destruct Pk0. rewrite H in El. lia. }
        destruct (am_descend_spec f depth es t0 t1 p IH W0 W1 Hp Long ND) as [t0' [t1' [n [E1 [W0' [W1' A]]]]]].
        { rewrite keys_of_Nd in Cp. exact Cp. }
        { exact Hf. }
        exists (Nd t0' t1'), n. split; [exact E1|]. split.
        -- simpl. split; [exact W0'|]. split; [exact W1'|].
           assert (exists e0, In e0 (entries t0 ++ entries t1)) as [e0 He0].
           { unfold keys_of in Hk0. rewrite <- map_app in Hk0. apply in_map_iff in Hk0 as [e0 [_ He0]]. exists e0. exact He0. }
           assert (In e0 (entries t0' ++ entries t1')) by (apply A; left; exact He0).
           rewrite !size_entries, <- app_length. destruct (entries t0' ++ entries t1'); [contradiction|simpl; lia].
        -- intro e. simpl entries. rewrite (A e). rewrite keys_of_Nd. tauto.
Qed.

Fixpoint max_len_ge (es : list ent) : forall e, In e es -> length (fst e) <= max_len es.
Proof.
  destruct es as [|a es]; intros e H; simpl in *; [contradiction|].
  destruct H as [<-|H]; [lia|]. specialize (max_len_ge es e H). lia.
Qed.

Lemma ins_entry_perm (x : ent) rl : Permutation (ins_entry x rl) (x :: rl).
Proof.
  induction rl as [|y rl IH]; simpl; [apply Permutation_refl|].
  destruct (key_compare (fst x) (fst y)); try apply Permutation_refl.
  eapply Permutation_trans; [apply perm_skip; exact IH|apply perm_swap].
Qed.

Lemma sort_entries_perm (es : list ent) : Permutation (sort_entries es) es.
Proof.
  unfold sort_entries. eapply Permutation_trans; [apply Permutation_sym; apply Permutation_rev|].
  assert (G : forall rl, Permutation (fold_left (fun rl x => ins_entry x rl) es rl) (es ++ rl)).
  { induction es as [|a es IH]; intro rl; simpl; [apply Permutation_refl|].
    eapply Permutation_trans; [apply IH|]. eapply Permutation_trans; [apply Permutation_app_head; apply ins_entry_perm|].
    apply Permutation_sym. apply Permutation_middle. }
  specialize (G []). rewrite app_nil_r in G. exact G.
Qed.

Lemma dedup_after_id prev (es : list ent) :
  NoDup (prev :: map fst es) -> dedup_after prev es = es.
Proof.
  revert prev; induction es as [|e es IH]; intros prev ND; [reflexivity|].
  cbn [dedup_after]. cbn [map] in ND. inversion ND as [|? ? H1 H2]; subst.
  destruct (bits_eqb (fst e) prev) eqn:Eb.
  - exfalso. apply bits_eqb_eq in Eb. apply H1. left. exact Eb.
  - f_equal. apply IH. exact H2.
Qed.

Lemma dedup_adjacent_id (es : list ent) : NoDup (map fst es) -> dedup_adjacent es = es.
Proof. destruct es as [|e es]; simpl; intro ND; [reflexivity|]. f_equal. apply dedup_after_id. exact ND. Qed.

(* AddMany of entries with distinct keys, pairwise non-comparable among themselves and with the
   keys present: no panic, the trie stays well formed and gains exactly the new entries *)
Lemma add_all_spec (t : trie D) (es : list ent) :
  wf t -> NoDup (map fst es) -> compat (map fst es ++ keys_of t) ->
  exists t', add_all t es = Ok t' /\ wf t' /\ added es t t'.
Proof.
  intros Hw ND Cp. unfold add_all, add_many.
  pose proof (sort_entries_perm es) as P.
  assert (ND' : NoDup (map fst (sort_entries es))).
  { eapply Permutation_NoDup; [apply Permutation_map; apply Permutation_sym; exact P|exact ND]. }
  rewrite dedup_adjacent_id by exact ND'.
  destruct (add_many_at_spec (S (max_len es)) 0 (sort_entries es) t [] Hw eq_refl) as [t' [n [E1 [W A]]]]; auto.
  - eapply compat_incl; [|exact Cp]. intros x Hx. apply in_app_or in Hx as [Hx|Hx]; apply in_or_app; [left|right; exact Hx].
    apply in_map_iff in Hx as [e [<- He]]. apply in_map. eapply Permutation_in; eauto.
  - intros e He. assert (In e es) by (eapply Permutation_in; eauto). pose proof (max_len_ge es e H). lia.
  - exists t'. rewrite E1. simpl. split; [reflexivity|]. split; [exact W|].
    intro e. rewrite (A e). split.
    + intros [H|[H1 H2]]; [left; exact H|right]. split; [eapply Permutation_in; eauto|exact H2].
    + intros [H|[H1 H2]]; [left; exact H|right]. split; [eapply Permutation_in; [apply Permutation_sym; exact P|exact H1]|exact H2].
Qed.

(* Add of a key non-comparable with the keys present (or already present) *)
Lemma add_one_spec (t : trie D) k d :
  wf t -> compat (k :: keys_of t) ->
  exists t', add_one t k d = Ok t' /\ wf t' /\ added [(k, d)] t t'.
Proof.
  intros Hw Cp. unfold add_one, add.
  destruct (add_many_at_spec (S (length k)) 0 [(k, d)] t [] Hw eq_refl) as [t' [n [E1 [W A]]]]; auto.
  - simpl. constructor; [intros []|constructor].
  - intros e [<-|[]]. simpl. lia.
  - exists t'. rewrite E1. simpl. auto.
Qed.

End AddMany.
