(* Lemmas for C15, address classes and filters (Model/AddrClass.v). *)
From Verif.Lib Require Import GoSem Bits.
From Verif.Model Require Import AddrClass.
From Coq Require Import Lia ZifyBool ZifyNat ZifyN.
Local Open Scope N_scope.

(* ---- the filters keep only what their predicate accepts ------------------------------------ *)

Lemma addr_filter_sub : forall s l a, In a (addr_filter s l) -> In a l.
Proof. intros [] l a H; simpl in H; apply filter_In in H; tauto. Qed.

Lemma wan_filter_public : forall l a, In a (addr_filter WAN l) -> manet_is_public a = true.
Proof. intros l a H. simpl in H. apply filter_In in H. tauto. Qed.

Lemma lan_filter_no_loopback : forall l a, In a (addr_filter LAN l) -> is_ip_loopback a = false.
Proof. intros l a H. simpl in H. apply filter_In in H. destruct H as [_ H]. apply negb_true_iff in H. exact H. Qed.

Lemma wan_filter_complete : forall l a, In a l -> manet_is_public a = true -> In a (addr_filter WAN l).
Proof. intros l a H1 H2. simpl. apply filter_In. auto. Qed.

Lemma lan_filter_complete : forall l a, In a l -> is_ip_loopback a = false -> In a (addr_filter LAN l).
Proof. intros l a H1 H2. simpl. apply filter_In. split; auto. rewrite H2. reflexivity. Qed.

(* ---- PublicQueryFilter -------------------------------------------------------------------------- *)

Lemma public_query_filter_spec : forall l,
  public_query_filter l = true <-> exists a, In a l /\ is_relay a = false /\ dht_is_public a = true.
Proof.
  intro l. unfold public_query_filter. split.
  - destruct l as [|x l]; [discriminate|]. intro H. apply existsb_exists in H. destruct H as (a & Hin & Hg).
    unfold good_public in Hg. apply andb_true_iff in Hg. destruct Hg as [Hr Hp]. apply negb_true_iff in Hr. eauto.
  - intros (a & Hin & Hr & Hp). destruct l as [|x l]; [contradiction|].
    apply existsb_exists. exists a. split; [exact Hin|]. unfold good_public. rewrite Hr, Hp. reflexivity.
Qed.

Lemma private_query_filter_spec : forall l, private_query_filter l = true <-> l <> [].
Proof. intros [|x l]; simpl; split; intro H; try discriminate; try congruence; auto. Qed.

(* a peer enters a WAN lookup only as the target or with a public non-relay address *)
Lemma wan_admits_public : forall t resp known,
  admits WAN t resp known = true ->
  t = true \/ exists a, In a (resp ++ known) /\ is_relay a = false /\ dht_is_public a = true.
Proof.
  intros t resp known H. unfold admits in H. apply orb_true_iff in H. destruct H as [H|H]; [left; exact H|right].
  simpl in H. apply public_query_filter_spec. exact H.
Qed.

Lemma wan_admits_complete : forall t resp known a,
  In a (resp ++ known) -> is_relay a = false -> dht_is_public a = true -> admits WAN t resp known = true.
Proof.
  intros t resp known a Hin Hr Hp. unfold admits. apply orb_true_iff. right. simpl.
  apply public_query_filter_spec. eauto.
Qed.

Lemma lan_admits_spec : forall t resp known, admits LAN t resp known = true <-> t = true \/ resp ++ known <> [].
Proof.
  intros t resp known. unfold admits. rewrite orb_true_iff. simpl. rewrite private_query_filter_spec. tauto.
Qed.

(* what reaches the peerstore from a DHT message *)
Lemma stored_sub : forall s t c resp known a, In a (stored s t c resp known) ->
  In a (resp ++ known) /\ admits s t resp known = true /\ c = false.
Proof.
  intros s t c resp known a H. unfold stored in H.
  destruct (admits s t resp known) eqn:A; simpl in H; [|contradiction].
  destruct c; simpl in H; [contradiction|]. split; [eapply addr_filter_sub; eauto|auto].
Qed.

Lemma wan_stored_public : forall t c resp known a, In a (stored WAN t c resp known) -> manet_is_public a = true.
Proof.
  intros t c resp known a H. unfold stored in H.
  destruct (admits WAN t resp known && negb c); [|contradiction]. eapply wan_filter_public; eauto.
Qed.

Lemma lan_stored_no_loopback : forall t c resp known a, In a (stored LAN t c resp known) -> is_ip_loopback a = false.
Proof.
  intros t c resp known a H. unfold stored in H.
  destruct (admits LAN t resp known && negb c); [|contradiction]. eapply lan_filter_no_loopback; eauto.
Qed.

(* ---- address classes ---------------------------------------------------------------------------- *)

Lemma dht_public_private_disjoint : forall a, dht_is_public a = true -> dht_is_private a = false.
Proof.
  intros a. unfold dht_is_public, dht_is_private. destruct (to_ip (a_head a)) as [[x|x]|]; intro H.
  - apply andb_true_iff in H. destruct H as [H _]. apply negb_true_iff in H. exact H.
  - rewrite H. reflexivity.
  - discriminate.
Qed.

(* a public IPv4 address is in none of the private or unroutable networks *)
Lemma dht_public4_outside : forall a x, to_ip (a_head a) = Some (G4 x) -> dht_is_public a = true ->
  forall c, In c (private4 ++ unroutable4) -> in_cidr 32 x c = false.
Proof.
  intros a x E H c Hc. unfold dht_is_public in H. rewrite E in H. apply andb_true_iff in H. destruct H as [H1 H2].
  apply negb_true_iff in H1. apply negb_true_iff in H2. unfold in_range in *.
  apply in_app_or in Hc. destruct Hc as [Hc|Hc].
  - destruct (in_cidr 32 x c) eqn:C; [|reflexivity].
    assert (existsb (in_cidr 32 x) private4 = true) by (apply existsb_exists; eauto). congruence.
  - destruct (in_cidr 32 x c) eqn:C; [|reflexivity].
    assert (existsb (in_cidr 32 x) unroutable4 = true) by (apply existsb_exists; eauto). congruence.
Qed.

(* a public IPv6 address (not v4-mapped) is one whose top three bits are 001 *)
Lemma dht_public6_top_bits : forall a x, to_ip (a_head a) = Some (G6 x) ->
  dht_is_public a = N.eqb (N.shiftr x 125) 1.
Proof.
  intros a x E. unfold dht_is_public. rewrite E. unfold in_cidr, public6. cbn [fst snd].
  replace (128 - 3) with 125 by reflexivity.
  replace (N.shiftr (ip6 8192 0 0 0 0 0 0 0) 125) with 1 by (vm_compute; reflexivity). reflexivity.
Qed.

Lemma loopback4_private : forall x, N.shiftr x 24 = 127 -> in_range 32 x private4 = true.
Proof.
  intros x H. unfold in_range, private4. cbn [existsb]. apply orb_true_iff. left.
  unfold in_cidr. cbn [fst snd]. replace (32 - 8) with 24 by reflexivity. rewrite H.
  vm_compute. reflexivity.
Qed.

(* loopback addresses are never public, for either notion of public *)
Lemma loopback_not_public : forall a, is_ip_loopback a = true ->
  dht_is_public a = false /\ manet_is_public a = false /\ dht_is_private a = true.
Proof.
  intros a H. unfold is_ip_loopback in H. unfold dht_is_public, dht_is_private, manet_is_public, to_ip.
  destruct (a_head a) as [x|x|n|]; try discriminate.
  - apply N.eqb_eq in H. rewrite (loopback4_private x H). auto.
  - destruct (v4_mapped x) as [y|] eqn:E.
    + apply N.eqb_eq in H. rewrite (loopback4_private y H). auto.
    + apply N.eqb_eq in H. subst x. vm_compute. auto.
Qed.

(* hence the LAN DHT, which keeps private addresses, still drops exactly the loopback ones,
   and the WAN filter drops them too *)
Lemma wan_filter_no_loopback : forall l a, In a (addr_filter WAN l) -> is_ip_loopback a = false.
Proof.
  intros l a H. apply wan_filter_public in H. destruct (is_ip_loopback a) eqn:L; [|reflexivity].
  destruct (loopback_not_public a L) as (_ & M & _). congruence.
Qed.

(* PublicRoutingTableFilter *)
Lemma public_rt_filter_spec : forall n known,
  public_rt_filter n known = true <-> n <> O /\ exists a, In a known /\ is_relay a = false /\ dht_is_public a = true.
Proof.
  intros n known. unfold public_rt_filter. destruct n.
  - split; [discriminate|intros [H _]; congruence].
  - rewrite existsb_exists. split.
    + intros (a & Hin & Hg). split; [discriminate|]. unfold good_public in Hg. apply andb_true_iff in Hg.
      destruct Hg as [Hr Hp]. apply negb_true_iff in Hr. eauto.
    + intros (_ & a & Hin & Hr & Hp). exists a. split; [exact Hin|]. unfold good_public. rewrite Hr, Hp. reflexivity.
Qed.

(* ---- the statements used by Props/C15.v -------------------------------------------------------- *)

Lemma wan_stored_public_no_loopback : forall t c resp known a,
  In a (stored WAN t c resp known) -> manet_is_public a = true /\ is_ip_loopback a = false.
Proof.
  intros t c resp known a H. split; [eapply wan_stored_public; eauto|].
  unfold stored in H. destruct (admits WAN t resp known && negb c); [|contradiction].
  eapply wan_filter_no_loopback; eauto.
Qed.

Lemma wan_advertised_spec : forall own a, In a (advertised WAN own) -> In a own /\ manet_is_public a = true.
Proof. intros own a H. split; [eapply addr_filter_sub; eauto|eapply wan_filter_public; eauto]. Qed.

Lemma lan_no_loopback_spec : forall own a,
  (In a (advertised LAN own) -> In a own /\ is_ip_loopback a = false) /\
  (In a own -> is_ip_loopback a = false -> In a (advertised LAN own)) /\
  (forall t c resp known, In a (stored LAN t c resp known) -> is_ip_loopback a = false).
Proof.
  intros own a. split; [|split].
  - intro H. split; [eapply addr_filter_sub; eauto|eapply lan_filter_no_loopback; eauto].
  - apply lan_filter_complete.
  - intros t c resp known. apply lan_stored_no_loopback.
Qed.
