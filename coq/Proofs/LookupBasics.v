(* Basic facts about the qpeerset part of Model/Lookup.v: find/try_add/set_state,
   the insertion sort and GetClosestNInStates. *)
From Verif.Lib Require Import GoSem.
From Verif.Model Require Import Lookup.
From Coq Require Import Permutation Sorted.
Local Open Scope N_scope.

Definition ids (l : list pentry) : list id := map pid l.
Definition state_of (l : list pentry) (p : id) : option pstate := option_map pst (find_peer l p).

Lemma dist_inj key a b : dist key a = dist key b -> a = b.
Proof.
  unfold dist. intro H.
  assert (E: N.lxor (N.lxor a key) key = N.lxor (N.lxor b key) key) by (rewrite H; reflexivity).
  rewrite !N.lxor_assoc, N.lxor_nilpotent, !N.lxor_0_r in E. exact E.
Qed.

Lemma pstate_eqb_eq a b : pstate_eqb a b = true <-> a = b.
Proof. destruct a, b; simpl; split; intro H; try reflexivity; try discriminate. Qed.
Lemma pstate_eqb_refl a : pstate_eqb a a = true.
Proof. destruct a; reflexivity. Qed.

(* ---- find_peer ---------------------------------------------------------------- *)
Lemma find_peer_Some l p e : find_peer l p = Some e -> In e l /\ pid e = p.
Proof. unfold find_peer. intro H. apply find_some in H. destruct H as [H E]. apply N.eqb_eq in E. auto. Qed.

Lemma find_peer_None l p : find_peer l p = None <-> ~ In p (ids l).
Proof.
  unfold find_peer, ids. split.
  - intros H Hin. apply in_map_iff in Hin. destruct Hin as [e [E He]].
    pose proof (find_none _ _ H e He) as F. simpl in F. rewrite E, N.eqb_refl in F. discriminate.
  - intro H. destruct (find _ l) as [e|] eqn:F; [|reflexivity]. exfalso. apply H.
    apply find_some in F. destruct F as [He E]. apply N.eqb_eq in E. apply in_map_iff. eauto.
Qed.

Lemma state_of_None l p : state_of l p = None <-> ~ In p (ids l).
Proof.
  unfold state_of. rewrite <- find_peer_None. destruct (find_peer l p); simpl; split; congruence.
Qed.

Lemma state_of_Some_In l p s : state_of l p = Some s -> In p (ids l).
Proof.
  intro H. destruct (state_of l p) eqn:E; [|discriminate].
  destruct (in_dec N.eq_dec p (ids l)) as [Hin|Hn]; [exact Hin|]. apply state_of_None in Hn. congruence.
Qed.

Lemma state_of_In_entry l e : NoDup (ids l) -> In e l -> state_of l (pid e) = Some (pst e).
Proof.
  unfold state_of, find_peer, ids. induction l as [|x l IH]; simpl; intros ND Hin; [destruct Hin|].
  inversion ND as [|? ? Hx ND']; subst. destruct Hin as [->|Hin].
  - rewrite N.eqb_refl. reflexivity.
  - destruct (N.eqb (pid x) (pid e)) eqn:E.
    + apply N.eqb_eq in E. exfalso. apply Hx. rewrite E. apply in_map. exact Hin.
    + apply IH; assumption.
Qed.

Lemma state_of_entry l p s : state_of l p = Some s -> exists e, In e l /\ pid e = p /\ pst e = s.
Proof.
  unfold state_of. destruct (find_peer l p) as [e|] eqn:F; simpl; intro H; [|discriminate].
  apply find_peer_Some in F. inversion H. exists e. tauto.
Qed.

(* ---- try_add --------------------------------------------------------------------- *)
Lemma try_add_ids l p r : ids (try_add l p r) = if in_dec N.eq_dec p (ids l) then ids l else ids l ++ [p].
Proof.
  unfold try_add. destruct (find_peer l p) as [e|] eqn:F.
  - destruct (in_dec N.eq_dec p (ids l)) as [_|Hn]; [reflexivity|]. apply find_peer_None in Hn. congruence.
  - apply find_peer_None in F. destruct (in_dec N.eq_dec p (ids l)); [contradiction|].
    unfold ids. rewrite map_app. reflexivity.
Qed.

Lemma find_peer_app l l' p : find_peer (l ++ l') p = match find_peer l p with Some e => Some e | None => find_peer l' p end.
Proof. unfold find_peer. induction l as [|x l IH]; simpl; [reflexivity|]. destruct (N.eqb (pid x) p); [reflexivity|exact IH]. Qed.

Lemma state_of_try_add l p r q :
  state_of (try_add l p r) q = if N.eqb q p then (match state_of l p with Some s => Some s | None => Some Heard end) else state_of l q.
Proof.
  unfold try_add, state_of. destruct (find_peer l p) as [e|] eqn:F.
  - destruct (N.eqb q p) eqn:E; [|reflexivity]. apply N.eqb_eq in E. subst. rewrite F. reflexivity.
  - rewrite find_peer_app. destruct (N.eqb q p) eqn:E.
    + apply N.eqb_eq in E. subst. rewrite F. simpl. unfold find_peer. simpl. rewrite N.eqb_refl. reflexivity.
    + destruct (find_peer l q); [reflexivity|]. unfold find_peer. simpl. rewrite N.eqb_sym, E. reflexivity.
Qed.

Lemma try_add_nodup l p r : NoDup (ids l) -> NoDup (ids (try_add l p r)).
Proof.
  intro H. rewrite try_add_ids. destruct (in_dec N.eq_dec p (ids l)); [exact H|].
  apply (Permutation_NoDup (l := p :: ids l)); [apply Permutation_cons_append|constructor; assumption].
Qed.

(* ---- set_state -------------------------------------------------------------------- *)
Definition set_entry (p : id) (s : pstate) (e : pentry) : pentry :=
  if N.eqb (pid e) p then {| pid := pid e; pst := s; pref := pref e |} else e.

Lemma set_entry_pid p s e : pid (set_entry p s e) = pid e.
Proof. unfold set_entry. destruct (N.eqb (pid e) p); reflexivity. Qed.

Lemma state_of_map_set l p s q :
  state_of (map (set_entry p s) l) q =
  if N.eqb q p then (match state_of l p with Some _ => Some s | None => None end) else state_of l q.
Proof.
  unfold state_of, find_peer. induction l as [|x l IH]; simpl.
  - destruct (N.eqb q p); reflexivity.
  - rewrite set_entry_pid. destruct (N.eqb q p) eqn:E.
    + apply N.eqb_eq in E. subst q. destruct (N.eqb (pid x) p) eqn:E2.
      * simpl. unfold set_entry. rewrite E2. reflexivity.
      * first [exact IH | rewrite N.eqb_refl in IH; exact IH].
    + destruct (N.eqb (pid x) q) eqn:E2.
      * simpl. unfold set_entry. apply N.eqb_eq in E2. rewrite E2, E. reflexivity.
      * exact IH.
Qed.

Lemma set_state_ok l p s : In p (ids l) -> exists l', set_state l p s = Ok l' /\ l' = map (set_entry p s) l /\ ids l' = ids l /\
  (forall q, state_of l' q = if N.eqb q p then Some s else state_of l q).
Proof.
  intro Hin. unfold set_state. destruct (find_peer l p) as [e|] eqn:F.
  - eexists. split; [reflexivity|]. split; [reflexivity|]. split.
    + unfold ids. rewrite map_map. apply map_ext. intro x. destruct (N.eqb (pid x) p); reflexivity.
    + intro q. change (map (fun e0 => if N.eqb (pid e0) p then {| pid := pid e0; pst := s; pref := pref e0 |} else e0) l)
        with (map (set_entry p s) l).
      rewrite state_of_map_set. destruct (N.eqb q p); [|reflexivity].
      unfold state_of. rewrite F. reflexivity.
  - apply find_peer_None in F. contradiction.
Qed.

Lemma get_state_ok l p s : state_of l p = Some s -> get_state l p = Ok s.
Proof. unfold state_of, get_state. destruct (find_peer l p); simpl; intro H; inversion H; reflexivity. Qed.

(* ---- counting ------------------------------------------------------------------------ *)
Lemma num_in_state_set l p s s0 st : NoDup (ids l) -> state_of l p = Some s0 ->
  (num_in_state st (map (set_entry p s) l) + (if pstate_eqb s0 st then 1 else 0) =
   num_in_state st l + (if pstate_eqb s st then 1 else 0))%nat.
Proof.
  unfold num_in_state, state_of, find_peer, ids. induction l as [|x l IH]; simpl; intros ND H; [discriminate|].
  inversion ND as [|? ? Hx ND']; subst.
  destruct (N.eqb (pid x) p) eqn:E.
  - simpl in H. inversion H; subst. unfold set_entry at 1. rewrite E. simpl.
    assert (Hrest: map (set_entry p s) l = l).
    { apply N.eqb_eq in E. subst p. clear -Hx. induction l as [|y l IH]; simpl; [reflexivity|].
      simpl in Hx. unfold set_entry at 1. destruct (N.eqb (pid y) (pid x)) eqn:E.
      - apply N.eqb_eq in E. exfalso. apply Hx. left. exact E.
      - f_equal. apply IH. intro; apply Hx; right; assumption. }
    rewrite Hrest. destruct (pstate_eqb s st), (pstate_eqb (pst x) st); simpl; lia.
  - unfold set_entry at 1. rewrite E. specialize (IH ND' H).
    destruct (pstate_eqb (pst x) st); simpl; lia.
Qed.

Lemma num_in_state_app st l l' : num_in_state st (l ++ l') = (num_in_state st l + num_in_state st l')%nat.
Proof. unfold num_in_state. rewrite filter_app, app_length. reflexivity. Qed.

Lemma num_in_state_try_add st l p r : st <> Heard -> num_in_state st (try_add l p r) = num_in_state st l.
Proof.
  intro H. unfold try_add. destruct (find_peer l p); [reflexivity|].
  rewrite num_in_state_app. unfold num_in_state at 2. simpl.
  destruct st; simpl; try lia. congruence.
Qed.

(* ---- the insertion sort ---------------------------------------------------------------- *)
Definition le_dist (key : id) (a b : pentry) : Prop := dist key (pid a) <= dist key (pid b).

Lemma insert_by_perm key e l : Permutation (insert_by key e l) (e :: l).
Proof.
  induction l as [|x l IH]; simpl; [reflexivity|].
  destruct (N.leb (dist key (pid e)) (dist key (pid x))); [reflexivity|].
  rewrite IH. apply perm_swap.
Qed.

Lemma sort_by_perm key l : Permutation (sort_by key l) l.
Proof.
  unfold sort_by. induction l as [|x l IH]; simpl; [reflexivity|].
  rewrite insert_by_perm. constructor. exact IH.
Qed.

Lemma insert_by_sorted key e l :
  StronglySorted (le_dist key) l -> StronglySorted (le_dist key) (insert_by key e l).
Proof.
  induction l as [|x l IH]; simpl; intro H.
  - constructor; constructor.
  - destruct (N.leb (dist key (pid e)) (dist key (pid x))) eqn:E.
    + apply N.leb_le in E. constructor; [exact H|].
      constructor; [exact E|]. inversion H as [|? ? _ Hall]; subst.
      eapply Forall_impl; [|exact Hall]. intros a Ha. unfold le_dist in *. lia.
    + apply N.leb_gt in E. inversion H as [|? ? Hs Hall]; subst. constructor; [apply IH; exact Hs|].
      apply Forall_forall. intros y Hy.
      apply (Permutation_in _ (insert_by_perm key e l)) in Hy. destruct Hy as [<-|Hy].
      * unfold le_dist; lia.
      * rewrite Forall_forall in Hall. apply Hall. exact Hy.
Qed.

Lemma sort_by_sorted key l : StronglySorted (le_dist key) (sort_by key l).
Proof.
  unfold sort_by. induction l as [|x l IH]; simpl; [constructor|]. apply insert_by_sorted. exact IH.
Qed.

Lemma StronglySorted_filter {A} (R : A -> A -> Prop) f l :
  StronglySorted R l -> StronglySorted R (filter f l).
Proof.
  induction 1 as [|x l Hs IH Hall]; simpl; [constructor|].
  destruct (f x); [|exact IH]. constructor; [exact IH|].
  apply Forall_forall. intros y Hy. apply filter_In in Hy. rewrite Forall_forall in Hall. apply Hall. tauto.
Qed.

Lemma firstn_In_local {A} n (l : list A) y : In y (firstn n l) -> In y l.
Proof.
  revert l; induction n as [|n IH]; intros l H; simpl in H; [destruct H|].
  destruct l as [|x l]; [destruct H|]. destruct H as [->|H]; [left; reflexivity|right; apply IH; exact H].
Qed.

Lemma StronglySorted_firstn {A} (R : A -> A -> Prop) n l :
  StronglySorted R l -> StronglySorted R (firstn n l).
Proof.
  revert l; induction n as [|n IH]; intros l H; simpl; [constructor|].
  destruct l as [|x l]; [constructor|]. inversion H as [|? ? Hs Hall]; subst.
  constructor; [apply IH; exact Hs|]. apply Forall_forall. intros y Hy.
  rewrite Forall_forall in Hall. apply Hall. apply (firstn_In_local _ _ _ Hy).
Qed.

(* ---- GetClosestNInStates ----------------------------------------------------------------- *)
Lemma sort_by_ids_perm key l : Permutation (ids (sort_by key l)) (ids l).
Proof. unfold ids. apply Permutation_map. apply sort_by_perm. Qed.

Lemma sort_by_nodup key l : NoDup (ids l) -> NoDup (ids (sort_by key l)).
Proof. intro H. eapply Permutation_NoDup; [symmetry; apply sort_by_ids_perm|exact H]. Qed.

Lemma NoDup_map_filter_pid f l : NoDup (ids l) -> NoDup (ids (filter f l)).
Proof.
  unfold ids. induction l as [|x l IH]; simpl; intro H; [constructor|].
  inversion H as [|? ? Hx H']; subst. destruct (f x); simpl; [|apply IH; exact H'].
  constructor; [|apply IH; exact H']. intro Hin. apply Hx.
  apply in_map_iff in Hin. destruct Hin as [y [E Hy]]. apply filter_In in Hy. apply in_map_iff. exists y. tauto.
Qed.

Lemma closest_in_states_nodup key sts l : NoDup (ids l) -> NoDup (closest_in_states key sts l).
Proof. intro H. unfold closest_in_states. apply NoDup_map_filter_pid. apply sort_by_nodup. exact H. Qed.

Lemma closest_in_states_In key sts l p : NoDup (ids l) ->
  (In p (closest_in_states key sts l) <-> exists s, state_of l p = Some s /\ in_states sts s = true).
Proof.
  intro ND. unfold closest_in_states. rewrite in_map_iff. split.
  - intros [e [E He]]. apply filter_In in He. destruct He as [He Hs].
    apply (Permutation_in _ (sort_by_perm key l)) in He.
    exists (pst e). split; [|exact Hs]. rewrite <- E. apply state_of_In_entry; assumption.
  - intros [s [Hs Hin]]. apply state_of_entry in Hs. destruct Hs as [e [He [E1 E2]]].
    exists e. split; [exact E1|]. apply filter_In. split.
    + apply (Permutation_in _ (Permutation_sym (sort_by_perm key l))). exact He.
    + rewrite E2. exact Hin.
Qed.

Definition lt_dist (key : id) (a b : id) : Prop := dist key a < dist key b.

Lemma closest_in_states_sorted key sts l : NoDup (ids l) ->
  StronglySorted (lt_dist key) (closest_in_states key sts l).
Proof.
  intro ND. unfold closest_in_states.
  pose proof (sort_by_sorted key l) as S. pose proof (sort_by_nodup key l ND) as N.
  apply (StronglySorted_filter _ (fun e => in_states sts (pst e))) in S.
  apply (NoDup_map_filter_pid (fun e => in_states sts (pst e))) in N.
  revert S N. generalize (filter (fun e => in_states sts (pst e)) (sort_by key l)). intro m.
  induction m as [|x m IH]; simpl; intros S N; [constructor|].
  inversion S as [|? ? Sm Hall]; subst. inversion N as [|? ? Hx Nm]; subst.
  constructor; [apply IH; assumption|]. apply Forall_forall. intros y Hy.
  apply in_map_iff in Hy. destruct Hy as [e [E He]]. subst y.
  rewrite Forall_forall in Hall. specialize (Hall e He). unfold le_dist in Hall. unfold lt_dist.
  destruct (N.eq_dec (dist key (pid x)) (dist key (pid e))) as [Eq|Ne]; [|lia].
  apply dist_inj in Eq. exfalso. apply Hx. rewrite Eq. apply in_map. exact He.
Qed.

Lemma skipn_In_local {A} n (l : list A) y : In y (skipn n l) -> In y l.
Proof.
  revert l; induction n as [|n IH]; intros l H; simpl in H; [exact H|].
  destruct l as [|x l]; [destruct H|]. right. apply IH. exact H.
Qed.

(* the first n of a strictly sorted list are the n smallest *)
Lemma firstn_skipn_sorted {A} (R : A -> A -> Prop) n l :
  StronglySorted R l -> forall a b, In a (firstn n l) -> In b (skipn n l) -> R a b.
Proof.
  revert l; induction n as [|n IH]; intros l S a b Ha Hb; simpl in *; [destruct Ha|].
  destruct l as [|x l]; [destruct Ha|]. inversion S as [|? ? Sl Hall]; subst.
  destruct Ha as [->|Ha].
  - rewrite Forall_forall in Hall. apply Hall. apply (skipn_In_local _ _ _ Hb).
  - eapply IH; eauto.
Qed.
