(* Lemmas about the client RPC model (Model/ClientRpc.v). *)
From Coq Require Import Lia ZifyBool ZifyNat ZifyN.
From Verif.Lib Require Import GoSem Bits.
From Verif.Gen Require Import Consts Dispatch.
From Verif.Model Require Import PeerRecord ClientRpc.
From Verif.Proofs Require Import PeerRecordProofs.
Local Open Scope Z_scope.

Lemma wire_msg_inv m :
  wire_msg m = true -> exists cl pl, m_closer m = map Some cl /\ m_provs m = map Some pl.
Proof.
  unfold wire_msg. intro H. apply andb_true_iff in H as [H1 H2].
  destruct (all_some_map _ H1) as (cl & Hc). destruct (all_some_map _ H2) as (pl & Hp). eauto.
Qed.

Lemma wire_reply_inv rp :
  wire_reply rp = true -> rp = RErr \/ exists m, rp = RMsg (Some m) /\ wire_msg m = true.
Proof. destruct rp as [|[m|]]; cbn; intro H; try discriminate; eauto. Qed.

(* ---- the result of every RPC on a message from the wire ----------------- *)
Definition rec_ok (key : bstr) (m : amsg) : bool :=
  match m_record m with Some rec => bstr_eqb key (r_key rec) | None => true end.

Definition rpc_spec (c : rpc) (m : amsg) (cl pl : list apeer) : rpc_out :=
  match c with
  | CPut rec => if bstr_eqb (rec_get_value (m_record m)) (r_value rec) then ODone else OErr ENotPut
  | CGetValue key => if rec_ok key m then OValue (m_record m) (map info_of cl) else OErr EBadRecord
  | CClosest => OPeers (map info_of cl)
  | CProviders => OProvs (map info_of pl) (map info_of cl)
  | CPing => if m_type m =? Message_PING then ODone else OErr EPingType
  | CPutProvider n ok => if (n <? 1)%nat then OErr ENoSelfAddrs else if ok then ODone else OErr ESend
  end.

Lemma run_rpc_wire c m cl pl :
  m_closer m = map Some cl -> m_provs m = map Some pl ->
  run_rpc c (RMsg (Some m)) = Ok (rpc_spec c m cl pl).
Proof.
  intros Hc Hp. destruct c as [rec|key| | | |n ok]; cbn [run_rpc rpc_spec].
  - cbn [put_value get_record rec_get_value]. destruct (bstr_eqb _ _); reflexivity.
  - cbn [get_value get_closer get_record]. rewrite Hc, pb_peers_to_infos_wire. cbn [bind].
    unfold rec_ok. destruct (m_record m) as [rec|]; cbn [rec_get_key]; [|reflexivity].
    destruct (bstr_eqb key (r_key rec)); reflexivity.
  - cbn [get_closest_peers get_closer]. rewrite Hc, pb_peers_to_infos_wire. reflexivity.
  - cbn [get_providers get_closer get_provs]. rewrite Hc, Hp, !pb_peers_to_infos_wire. reflexivity.
  - cbn [ping deref bind]. destruct (m_type m =? Message_PING); reflexivity.
  - unfold put_provider. destruct (n <? 1)%nat; [reflexivity|]. destruct ok; reflexivity.
Qed.

Definition rpc_err_spec (c : rpc) : rpc_out :=
  match c with
  | CPutProvider n ok => if (n <? 1)%nat then OErr ENoSelfAddrs else if ok then ODone else OErr ESend
  | _ => OErr ESend
  end.

Lemma run_rpc_err c : run_rpc c RErr = Ok (rpc_err_spec c).
Proof.
  destruct c as [rec|key| | | |n ok]; try reflexivity.
  cbn [run_rpc rpc_err_spec]. unfold put_provider.
  destruct (n <? 1)%nat; [reflexivity|]. destruct ok; reflexivity.
Qed.

(* 1. no reply the real sender can produce makes an RPC panic or block *)
Lemma run_rpc_total c rp : wire_reply rp = true -> exists o, run_rpc c rp = Ok o.
Proof.
  intro H. apply wire_reply_inv in H as [->|(m & -> & Hm)].
  - rewrite run_rpc_err. eauto.
  - destruct (wire_msg_inv m Hm) as (cl & pl & Hc & Hp).
    rewrite (run_rpc_wire c m cl pl Hc Hp). eauto.
Qed.

(* PutValue does not even need the sender's contract *)
Lemma put_value_total rec rp : exists o, put_value rec rp = Ok o.
Proof.
  destruct rp as [|rm]; cbn [put_value]; [eauto|].
  destruct (bstr_eqb _ _); eauto.
Qed.

(* the accesses that are not nil-safe, for the record: a (nil, nil) reply panics
   Ping, a nil element of a repeated field panics the three peer-returning RPCs *)
Lemma ping_nil_reply_panics : exists w, ping (RMsg None) = Panic w.
Proof. eexists. reflexivity. Qed.

Lemma closest_nil_entry_panics m :
  all_some (m_closer m) = false -> exists w, get_closest_peers (RMsg (Some m)) = Panic w.
Proof.
  intro H. destruct (pb_peers_to_infos_nil_entry _ H) as (w & Hw). exists w.
  cbn [get_closest_peers get_closer]. rewrite Hw. reflexivity.
Qed.

(* 2. records for a different key are rejected *)
Lemma get_value_wrong_key key m rec :
  wire_msg m = true -> m_record m = Some rec -> bstr_eqb key (r_key rec) = false ->
  run_rpc (CGetValue key) (RMsg (Some m)) = Ok (OErr EBadRecord).
Proof.
  intros Hm Hr Hk. destruct (wire_msg_inv m Hm) as (cl & pl & Hc & Hp).
  rewrite (run_rpc_wire _ m cl pl Hc Hp). cbn [rpc_spec]. unfold rec_ok. rewrite Hr, Hk. reflexivity.
Qed.

Lemma get_value_returns_only_matching key rp rec peers :
  run_rpc (CGetValue key) rp = Ok (OValue (Some rec) peers) ->
  bstr_eqb key (r_key rec) = true /\ exists m, rp = RMsg (Some m) /\ m_record m = Some rec.
Proof.
  destruct rp as [|[m|]]; cbn [run_rpc get_value bind get_closer get_record].
  - discriminate.
  - destruct (pb_peers_to_infos (m_closer m)); cbn [bind]; try discriminate.
    destruct (m_record m) as [r|] eqn:Er; cbn [rec_get_key].
    + destruct (bstr_eqb key (r_key r)) eqn:Ek; cbn [bind]; intro H; inversion H; subst. eauto.
    + cbn [bind]. intro H; inversion H.
  - cbn [pb_peers_to_infos bind]. intro H; inversion H.
Qed.

(* bstr_eqb is equality of byte strings (nil = empty) *)
Lemma bstr_eqb_refl a : bstr_eqb a a = true.
Proof. unfold bstr_eqb. rewrite Z.eqb_refl, N.eqb_refl. destruct (b_len a =? 0); reflexivity. Qed.

(* 3. every peer.AddrInfo handed to the caller is the sanitized form of a peer
   record of the response, one for one *)
Lemma run_rpc_sanitized c m o :
  wire_msg m = true -> run_rpc c (RMsg (Some m)) = Ok o ->
  exists ps, Forall2 sanitized ps (infos_of o) /\
             (forall p, In p ps -> In (Some p) (m_provs m ++ m_closer m)).
Proof.
  intros Hm Hrun. destruct (wire_msg_inv m Hm) as (cl & pl & Hc & Hp).
  rewrite (run_rpc_wire c m cl pl Hc Hp) in Hrun. inversion Hrun; subst o. clear Hrun.
  assert (HF : forall l, Forall2 sanitized l (map info_of l)).
  { induction l; cbn; constructor; auto using info_of_sanitized. }
  assert (Hin : forall l (p : apeer), In p l -> In (Some p) (map Some l)) by (intros; apply in_map; assumption).
  destruct c as [rec|key| | | |n ok]; cbn [rpc_spec infos_of].
  - exists []. destruct (bstr_eqb _ _); cbn; split; (constructor || tauto).
  - destruct (rec_ok key m); cbn [infos_of].
    + exists cl. split; [apply HF|]. intros p Hpi. rewrite Hc. apply in_or_app. right. auto.
    + exists []. split; [constructor|]. cbn; tauto.
  - exists cl. split; [apply HF|]. intros p Hpi. rewrite Hc. apply in_or_app. right. auto.
  - exists (pl ++ cl). split.
    + rewrite <- map_app. apply HF.
    + intros p Hpi. rewrite Hc, Hp, <- map_app. auto.
  - exists []. destruct (m_type m =? Message_PING); cbn; split; (constructor || tauto).
  - exists []. destruct (n <? 1)%nat; [|destruct ok]; cbn; split; (constructor || tauto).
Qed.

(* ---- 4. the cap on closer peers ----------------------------------------- *)
Lemma cap_closer_length K l : (length (cap_closer K l) <= closer_cap_factor * K)%nat.
Proof.
  unfold cap_closer. destruct (closer_cap_factor * K <? length l)%nat eqn:E.
  - rewrite firstn_length. lia.
  - lia.
Qed.

Lemma cap_closer_prefix K l : cap_closer K l = firstn (closer_cap_factor * K) l.
Proof.
  unfold cap_closer. destruct (closer_cap_factor * K <? length l)%nat eqn:E; [reflexivity|].
  symmetry. apply firstn_all2. lia.
Qed.

Lemma filter_length_le {A} (f : A -> bool) l : (length (filter f l) <= length l)%nat.
Proof. induction l; cbn; [lia|]. destruct (f a); cbn; lia. Qed.

Lemma process_response_length K self target qf div l :
  (length (process_response K self target qf div l) <= 2 * K)%nat.
Proof.
  unfold process_response. rewrite map_length.
  etransitivity; [apply filter_length_le|].
  pose proof (cap_closer_length K l). unfold closer_cap_factor in *.
  destruct div; [etransitivity; [apply filter_length_le|]|]; lia.
Qed.

Lemma process_response_from_prefix K self target qf div l x :
  In x (process_response K self target qf div l) ->
  exists n, In n (firstn (2 * K) l) /\ ai_id n = x /\ bstr_eqb x self = false /\
            (bstr_eqb x target = true \/ qf n = true).
Proof.
  unfold process_response. rewrite cap_closer_prefix. unfold closer_cap_factor.
  intro H. apply in_map_iff in H as (n & Hx & Hn). apply filter_In in Hn as [Hn Hc].
  exists n. subst x. apply andb_true_iff in Hc as [Hs Hq]. apply orb_true_iff in Hq.
  repeat split; try assumption.
  - destruct div; [apply filter_In in Hn; tauto|assumption].
  - destruct (bstr_eqb (ai_id n) self); [discriminate|reflexivity].
Qed.

Lemma lookup_heard_div_bound K self target qf gm limit rp :
  wire_reply rp = true ->
  exists r, lookup_heard_div K self target qf gm limit rp = Ok r /\
            match r with Some h => (length h <= 2 * K)%nat | None => rp = RErr end.
Proof.
  intro H. unfold lookup_heard_div. apply wire_reply_inv in H as [->|(m & -> & Hm)].
  - cbn. exists None. split; reflexivity.
  - destruct (wire_msg_inv m Hm) as (cl & pl & Hc & Hp).
    cbn [get_closest_peers get_closer]. rewrite Hc, pb_peers_to_infos_wire. cbn [bind].
    eexists. split; [reflexivity|]. apply process_response_length.
Qed.

Lemma lookup_heard_bound K self target qf rp :
  wire_reply rp = true ->
  exists r, lookup_heard K self target qf rp = Ok r /\
            match r with Some h => (length h <= 2 * K)%nat | None => rp = RErr end.
Proof. apply lookup_heard_div_bound. Qed.

(* ---- 4b. the IP diversity filter ---------------------------------------- *)
Lemma filter_diversity_incl gm limit l : incl (filter_diversity gm limit l) l.
Proof.
  unfold filter_diversity. destruct limit; [apply incl_refl|].
  intros x Hx. apply filter_In in Hx. tauto.
Qed.

Lemma filter_diversity_length gm limit l : (length (filter_diversity gm limit l) <= length l)%nat.
Proof. unfold filter_diversity. destruct limit; [lia|apply filter_length_le]. Qed.

(* the filter of [process_response] under [diversity] is [filter_diversity] of the capped list *)
Lemma process_response_diversity K self target qf gm limit l :
  process_response K self target qf (diversity gm limit K l) l =
  map ai_id (filter (fun n => negb (bstr_eqb (ai_id n) self)
                              && (bstr_eqb (ai_id n) target || qf n))
                    (filter_diversity gm limit (cap_closer K l))).
Proof. unfold process_response, diversity, filter_diversity. destruct limit; reflexivity. Qed.

Lemma group_size_incl gm l l' g :
  incl l' l -> (group_size gm l' g <= group_size gm l g)%nat.
Proof.
  intro Hi. unfold group_size. apply NoDup_incl_length; [apply NoDup_nodup|].
  intros x Hx. apply nodup_In in Hx. apply nodup_In.
  apply in_map_iff in Hx as (n & <- & Hn). apply filter_In in Hn as [Hn Hg].
  apply in_map. apply filter_In. split; [apply Hi; exact Hn|exact Hg].
Qed.

Lemma filter_nil_all {A} (f : A -> bool) l : (forall x, In x l -> f x = false) -> filter f l = [].
Proof.
  induction l as [|a l IH]; intro H; [reflexivity|]. cbn.
  rewrite (H a (or_introl eq_refl)). apply IH. intros x Hx. apply H. right. exact Hx.
Qed.

(* after the filter no IP group is represented by more than [limit] distinct peers *)
Lemma filter_diversity_bound gm limit l g :
  (0 < limit)%nat -> (group_size gm (filter_diversity gm limit l) g <= limit)%nat.
Proof.
  intro Hpos. destruct (over_group gm limit l g) eqn:Eo.
  - assert (Hnil : filter (in_group gm g) (filter_diversity gm limit l) = []).
    { destruct limit as [|k]; [lia|]. unfold filter_diversity.
      apply filter_nil_all. intros n Hn.
      apply filter_In in Hn as [Hn Hr]. destruct (in_group gm g n) eqn:Eg; [|reflexivity].
      exfalso. apply negb_true_iff in Hr.
      assert (removed_by gm (S k) l n = true); [|congruence].
      unfold removed_by. apply existsb_exists. exists (id_tag n). split; [|apply N.eqb_refl].
      unfold to_remove. apply in_map. apply filter_In. split; [exact Hn|].
      apply existsb_exists. exists g. split; [|exact Eo].
      unfold in_group in Eg. apply existsb_exists in Eg as (g' & Hg' & E).
      apply N.eqb_eq in E. subst g'. exact Hg'. }
    unfold group_size. rewrite Hnil. cbn. lia.
  - unfold over_group in Eo. apply Nat.ltb_ge in Eo.
    etransitivity; [apply group_size_incl, filter_diversity_incl|exact Eo].
Qed.

(* a peer that shares no over-represented group survives the filter *)
Lemma filter_diversity_keeps gm limit l n :
  In n l -> removed_by gm limit l n = false -> In n (filter_diversity gm limit l).
Proof.
  intros Hn Hr. unfold filter_diversity. destruct limit; [exact Hn|].
  apply filter_In. split; [exact Hn|]. rewrite Hr. reflexivity.
Qed.

(* ---- 5. the exchange never blocks: silence is a timeout error ----------- *)
Lemma timeout_pos : 0 < dhtReadMessageTimeout.
Proof. reflexivity. Qed.

Lemma ctx_read_msg_ok cancel r :
  (forall c, cancel = Some c -> 0 <= c) ->
  exists dt out, ctx_read_msg cancel r = Ok (dt, out) /\ 0 <= dt <= dhtReadMessageTimeout /\
    (out = inl SOutOfFuel -> False) /\
    (forall m, out = inr m -> r = RdMsg m) /\
    (r = RdSilent -> cancel = None -> dt = dhtReadMessageTimeout /\ out = inl SReadTimeout).
Proof.
  intro Hc. pose proof timeout_pos as HT. unfold ctx_read_msg, select3.
  destruct r as [m| | |]; destruct cancel as [c|];
    try (specialize (Hc c eq_refl));
    cbn [fst snd];
    repeat match goal with |- context [if ?b then _ else _] => destruct b eqn:? end;
    do 2 eexists; (split; [reflexivity|]);
    (split; [lia|]); (split; [discriminate|]);
    (split; [intros ? HH; inversion HH; reflexivity || discriminate|]);
    intros; try discriminate; auto.
Qed.

Definition script_wire (script : nat -> attempt) : Prop :=
  forall n m, at_read (script n) = RdMsg m -> wire_msg m = true.

Lemma send_request_pass2 fuel n now cancel script :
  0 <= now -> (forall c, cancel = Some c -> 0 <= c) ->
  exists r, send_request (S fuel) true n now cancel script = Ok r /\
    sr_attempts r = S n /\ now <= sr_time r <= now + dhtReadMessageTimeout /\
    sr_out r <> inl SOutOfFuel /\
    (forall m, sr_out r = inr m -> at_read (script n) = RdMsg m).
Proof.
  intros Hnow Hc. pose proof timeout_pos as HT. cbn [send_request].
  destruct (at_prep (script n)); cbn [negb].
  2:{ eexists. split; [reflexivity|]. cbn [sr_out sr_time sr_attempts]. repeat split; try lia; discriminate. }
  destruct (at_write (script n)); cbn [negb].
  2:{ eexists. split; [reflexivity|]. cbn [sr_out sr_time sr_attempts]. repeat split; try lia; discriminate. }
  destruct (ctx_read_msg_ok (match cancel with Some c => Some (Z.max 0 (c - now)) | None => None end)
                            (at_read (script n))) as (dt & out & Hrd & Hdt & Hfuel & Hmsg & _).
  { destruct cancel; intros c0 Hc0; inversion Hc0; lia. }
  rewrite Hrd. cbn [bind].
  destruct out as [e|m].
  - destruct e; (eexists; split; [reflexivity|]); cbn [sr_out sr_time sr_attempts];
      repeat split; try lia; try discriminate; try (exfalso; apply Hfuel; reflexivity).
  - eexists; split; [reflexivity|]. cbn [sr_out sr_time sr_attempts]. repeat split; try lia; try discriminate.
    intros m0 Hm0. inversion Hm0; subst. apply Hmsg. reflexivity.
Qed.

Lemma send_request_total n now cancel script :
  0 <= now -> (forall c, cancel = Some c -> 0 <= c) ->
  exists r, send_request 2 false n now cancel script = Ok r /\
    (sr_attempts r <= n + 2)%nat /\ now <= sr_time r <= now + 2 * dhtReadMessageTimeout /\
    sr_out r <> inl SOutOfFuel /\
    (forall m, sr_out r = inr m -> exists k, at_read (script k) = RdMsg m).
Proof.
  intros Hnow Hc. pose proof timeout_pos as HT.
  change (send_request 2 false n now cancel script) with
    (let a := script n in
      if negb (at_prep a) then Ok {| sr_out := inl SPrep; sr_time := now; sr_attempts := S n |}
      else if negb (at_write a) then send_request 1 true (S n) now cancel script
      else
        rd <- ctx_read_msg (match cancel with Some c => Some (Z.max 0 (c - now)) | None => None end)
                           (at_read a) ;;
        let (dt, out) := rd in
        match out with
        | inr m => Ok {| sr_out := inr m; sr_time := now + dt; sr_attempts := S n |}
        | inl e =>
            match e with
            | SCanceled => Ok {| sr_out := inl e; sr_time := now + dt; sr_attempts := S n |}
            | _ => send_request 1 true (S n) (now + dt) cancel script
            end
        end).
  cbv zeta.
  destruct (at_prep (script n)); cbn [negb].
  2:{ eexists. split; [reflexivity|]. cbn [sr_out sr_time sr_attempts]. repeat split; try lia; discriminate. }
  destruct (at_write (script n)); cbn [negb].
  2:{ destruct (send_request_pass2 0 (S n) now cancel script Hnow Hc) as (r & Hr & Ha & Ht & Hf & Hm).
      exists r. split; [exact Hr|]. repeat split; try lia; try assumption.
      intros m Hmm. eauto. }
  destruct (ctx_read_msg_ok (match cancel with Some c => Some (Z.max 0 (c - now)) | None => None end)
                            (at_read (script n))) as (dt & out & Hrd & Hdt & Hfuel & Hmsg & _).
  { destruct cancel; intros c0 Hc0; inversion Hc0; lia. }
  rewrite Hrd. cbn [bind].
  assert (Hretry : exists r, send_request 1 true (S n) (now + dt) cancel script = Ok r /\
    (sr_attempts r <= n + 2)%nat /\ now <= sr_time r <= now + 2 * dhtReadMessageTimeout /\
    sr_out r <> inl SOutOfFuel /\
    (forall m, sr_out r = inr m -> exists k, at_read (script k) = RdMsg m)).
  { destruct (send_request_pass2 0 (S n) (now + dt) cancel script ltac:(lia) Hc) as (r & Hr & Ha & Ht & Hf & Hm).
    exists r. split; [exact Hr|]. repeat split; try lia; try assumption. intros m Hmm. eauto. }
  destruct out as [e|m].
  - destruct e; try exact Hretry.
    + eexists; split; [reflexivity|]. cbn [sr_out sr_time sr_attempts]. repeat split; try lia; try discriminate.
  - eexists; split; [reflexivity|]. cbn [sr_out sr_time sr_attempts]. repeat split; try lia; try discriminate.
    intros m0 Hm0. inversion Hm0; subst. eauto.
Qed.

(* silence on both passes: exactly two streams, exactly twice the read timeout,
   and the error is the read timeout *)
Definition silent : attempt := {| at_prep := true; at_write := true; at_read := RdSilent |}.
Lemma send_request_silence script :
  script 0%nat = silent -> script 1%nat = silent ->
  send_request 2 false 0 0 None script =
  Ok {| sr_out := inl SReadTimeout; sr_time := 2 * dhtReadMessageTimeout; sr_attempts := 2 |}.
Proof.
  assert (E : ctx_read_msg None RdSilent = Ok (dhtReadMessageTimeout, inl SReadTimeout)) by reflexivity.
  intros H0 H1. cbn [send_request]. rewrite H0. unfold silent at 1 2 3.
  cbn [at_prep at_write at_read negb]. rewrite E. cbn [bind].
  rewrite H1. unfold silent. cbn [at_prep at_write at_read negb]. rewrite E. cbn [bind].
  f_equal.
Qed.

(* an RPC over the real sender: total for every script of the remote *)
Lemma rpc_over_stream_total c cancel script :
  (forall t, cancel = Some t -> 0 <= t) -> script_wire script ->
  exists o r, rpc_over_stream c cancel script = Ok (o, r) /\
    (sr_attempts r <= 2)%nat /\ 0 <= sr_time r <= 2 * dhtReadMessageTimeout /\
    ((exists e, sr_out r = inl e) -> o = rpc_err_spec c).
Proof.
  intros Hc Hw. unfold rpc_over_stream.
  destruct (send_request_total 0 0 cancel script ltac:(lia) Hc) as (r & Hr & Ha & Ht & Hf & Hm).
  rewrite Hr. cbn [bind].
  assert (Hwr : wire_reply (reply_of r) = true).
  { unfold reply_of. destruct (sr_out r) as [e|m] eqn:Eo; [reflexivity|].
    cbn. destruct (Hm m eq_refl) as (k & Hk). eapply Hw; eauto. }
  destruct (run_rpc_total c _ Hwr) as (o & Ho). rewrite Ho. cbn [bind].
  exists o, r. split; [reflexivity|]. repeat split; try lia.
  intros (e & He). unfold reply_of in Ho. rewrite He in Ho. rewrite run_rpc_err in Ho. congruence.
Qed.
