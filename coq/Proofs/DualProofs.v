(* Lemmas for C15, the dual DHT's decision logic (Model/Dual.v). *)
From Verif.Lib Require Import GoSem Bits.
From Verif.Model Require Import AddrClass Dual.
From Verif.Proofs Require Import AddrClassProofs.
From Coq Require Import Lia ZifyBool ZifyNat ZifyN.

(* ---- write routing ------------------------------------------------------------------- *)

Lemma write_routing : forall n,
  (write_target n = WAN <-> (0 < n)%nat) /\ (write_target n = LAN <-> n = O).
Proof.
  intro n. unfold write_target, wan_active. destruct n; simpl; split; split; intro H; try discriminate; try lia; reflexivity.
Qed.

(* ---- combineErrors --------------------------------------------------------------------- *)

Lemma oerr_eqb_refl_sentinel : forall i, oerr_eqb (Some (ESentinel i)) (Some (ESentinel i)) = true.
Proof. intro i. simpl. apply Nat.eqb_refl. Qed.

Lemma combine_same_sentinel : forall i, combine_errors (Some (ESentinel i)) (Some (ESentinel i)) = Some (ESentinel i).
Proof. intro i. unfold combine_errors. rewrite oerr_eqb_refl_sentinel. reflexivity. Qed.

Lemma combine_lookup_failure_l : forall b, combine_errors (Some lookup_failure) b = b.
Proof.
  intro b. unfold combine_errors. destruct b as [[i|x y]|]; simpl; try reflexivity.
  destruct i; reflexivity.
Qed.

Lemma combine_lookup_failure_r : forall a, combine_errors a (Some lookup_failure) = a.
Proof.
  intro a. unfold combine_errors. destruct a as [[i|x y]|]; simpl; try reflexivity.
  destruct i; reflexivity.
Qed.

Lemma combine_distinct : forall i j, i <> j -> i <> O -> j <> O ->
  combine_errors (Some (ESentinel i)) (Some (ESentinel j)) = Some (EJoin (ESentinel i) (ESentinel j)).
Proof.
  intros i j Hij Hi Hj. unfold combine_errors. simpl.
  destruct (Nat.eqb i j) eqn:E; [apply Nat.eqb_eq in E; contradiction|].
  destruct i; [contradiction|]. destruct j; [contradiction|]. reflexivity.
Qed.

(* two failures never combine into success *)
Lemma combine_two_failures : forall a b, combine_errors (Some a) (Some b) <> None.
Proof.
  intros a b. unfold combine_errors.
  destruct (oerr_eqb (Some a) (Some b)); [discriminate|].
  destruct (oerr_eqb (Some a) (Some lookup_failure)); [discriminate|].
  destruct (oerr_eqb (Some b) (Some lookup_failure)); discriminate.
Qed.

(* ---- GetValue ------------------------------------------------------------------------------ *)

Lemma get_value_priority : forall (V : Type) (wan lan : option V * option err),
  (snd wan = None -> get_value_merge wan lan = (fst wan, None)) /\
  (forall we, snd wan = Some we -> snd lan = None -> get_value_merge wan lan = (fst lan, None)) /\
  (forall we le, snd wan = Some we -> snd lan = Some le ->
     get_value_merge wan lan = (None, combine_errors (Some we) (Some le)) /\
     combine_errors (Some we) (Some le) <> None).
Proof.
  intros V [wv we] [lv le]. unfold get_value_merge. simpl. split; [|split].
  - intros ->. reflexivity.
  - intros e -> ->. reflexivity.
  - intros e1 e2 -> ->. split; [reflexivity|apply combine_two_failures].
Qed.

(* ---- FindPeer --------------------------------------------------------------------------------- *)

Lemma existsb_eqb_in : forall i l, existsb (Nat.eqb i) l = true <-> In i l.
Proof.
  intros i l. rewrite existsb_exists. split.
  - intros (x & Hx & E). apply Nat.eqb_eq in E. subst. exact Hx.
  - intro H. exists i. split; [exact H|apply Nat.eqb_refl].
Qed.

Lemma dedup_ids_in : forall l seen i,
  In i (map a_id (dedup_ids seen l)) <-> In i (map a_id l) /\ ~ In i seen.
Proof.
  induction l as [|a l IH]; simpl; intros seen i.
  - tauto.
  - destruct (existsb (Nat.eqb (a_id a)) seen) eqn:E.
    + apply existsb_eqb_in in E. rewrite IH. split.
      * intros [H1 H2]. auto.
      * intros [[H|H] H2]; [subst; contradiction|auto].
    + assert (N : ~ In (a_id a) seen) by (intro C; apply existsb_eqb_in in C; congruence).
      simpl. rewrite IH. simpl. split.
      * intros [H|[H1 H2]]; [subst; auto|]. split; [auto|]. intro C. apply H2. auto.
      * intros [[H|H] H2]; [auto|]. destruct (Nat.eq_dec (a_id a) i) as [->|Ne]; [auto|].
        right. split; [exact H|]. intros [C|C]; [contradiction|contradiction].
Qed.

Lemma dedup_ids_nodup : forall l seen, NoDup (map a_id (dedup_ids seen l)).
Proof.
  induction l as [|a l IH]; simpl; intro seen; [constructor|].
  destruct (existsb (Nat.eqb (a_id a)) seen); [apply IH|].
  simpl. constructor; [|apply IH]. intro C. apply dedup_ids_in in C. destruct C as [_ C]. apply C. left. reflexivity.
Qed.

(* the returned addresses are, as a set, the union of the two inner results *)
Lemma find_peer_union : forall wan lan i,
  In i (map a_id (find_peer_addrs wan lan)) <-> In i (map a_id wan) \/ In i (map a_id lan).
Proof.
  intros wan lan i. unfold find_peer_addrs. destruct wan as [|w wan]; [simpl; tauto|].
  destruct lan as [|l lan]; [simpl; tauto|].
  rewrite dedup_ids_in. rewrite map_app, in_app_iff. simpl. tauto.
Qed.

Lemma find_peer_nodup : forall wan lan, wan <> [] -> lan <> [] -> NoDup (map a_id (find_peer_addrs wan lan)).
Proof.
  intros wan lan Hw Hl. unfold find_peer_addrs. destruct wan; [congruence|]. destruct lan; [congruence|].
  apply dedup_ids_nodup.
Qed.

Lemma find_peer_err_spec : forall we le,
  (we = None \/ le = None -> find_peer_err we le = None) /\
  (forall a b, we = Some a -> le = Some b -> find_peer_err we le = combine_errors we le /\ find_peer_err we le <> None).
Proof.
  intros we le. split.
  - intros [->| ->]; [reflexivity|]. destruct we; reflexivity.
  - intros a b -> ->. split; [reflexivity|]. simpl. apply combine_two_failures.
Qed.

(* ---- FindProvidersAsync -------------------------------------------------------------------------- *)

Lemma NoDup_app_one_nat : forall (l : list nat) x, NoDup l -> ~ In x l -> NoDup (l ++ [x]).
Proof.
  induction l as [|y l IH]; simpl; intros x Hnd Hx.
  - constructor; [intros []|constructor].
  - inversion Hnd; subst. constructor.
    + intro Hin. apply in_app_or in Hin. destruct Hin as [Hin|[->|[]]]; [contradiction|]. apply Hx. left; reflexivity.
    + apply IH; auto.
Qed.

Definition PInv (count : Z) (s : pstate) : Prop :=
  NoDup (p_out s) /\
  (forall p, In p (p_found s) <-> In p (p_out s)) /\
  p_zero s = Z.eqb count 0 /\
  p_count s = (count - Z.of_nat (length (p_out s)))%Z /\
  ((0 < count)%Z -> (0 <= p_count s)%Z) /\
  ((count < 0)%Z -> p_out s = []).

Lemma PInv_init : forall count, PInv count (prov_init count).
Proof.
  intro count. unfold PInv, prov_init; simpl. repeat split; auto; try constructor; try tauto; try lia.
Qed.

Lemma PInv_step : forall count s a, PInv count s -> PInv count (prov_step s a).
Proof.
  intros count s a (Hnd & Hf & Hz & Hc & Hpos & Hneg). unfold prov_step.
  destruct (prov_running s) eqn:R; simpl; [|unfold PInv; auto 10].
  destruct a as [sd p|sd].
  - destruct (match sd with WAN => p_wan_open s | LAN => p_lan_open s end); simpl; [|unfold PInv; auto 10].
    destruct (existsb (Nat.eqb p) (p_found s)) eqn:E; [unfold PInv; auto 10|].
    assert (Nf : ~ In p (p_found s)) by (intro C; apply existsb_eqb_in in C; congruence).
    unfold prov_running in R. apply andb_true_iff in R. destruct R as [R _].
    unfold PInv; simpl. repeat split.
    + apply NoDup_app_one_nat; [exact Hnd|]. intro C. apply Nf. apply Hf. exact C.
    + intros [<-|H]; [apply in_or_app; right; left; reflexivity|apply in_or_app; left; apply Hf; exact H].
    + intro H. apply in_app_or in H. destruct H as [H|[<-|[]]]; [right; apply Hf; exact H|left; reflexivity].
    + exact Hz.
    + rewrite app_length. simpl. lia.
    + intro H. specialize (Hpos H). rewrite Hz in R. lia.
    + intro H. rewrite Hz in R. lia.
  - destruct sd; unfold PInv; simpl; auto 10.
Qed.

Lemma PInv_fold : forall count arrivals s, PInv count s -> PInv count (fold_left prov_step arrivals s).
Proof.
  intros count arrivals. induction arrivals as [|a l IH]; simpl; intros s H; [exact H|].
  apply IH. apply PInv_step. exact H.
Qed.

Lemma prov_run_inv : forall count arrivals, PInv count (prov_run count arrivals).
Proof. intros. unfold prov_run. apply PInv_fold. apply PInv_init. Qed.

(* what is sent to the caller was received, and earlier outputs stay *)
Lemma step_out_mono : forall s a p, In p (p_out s) -> In p (p_out (prov_step s a)).
Proof.
  intros s a p H. unfold prov_step. destruct (prov_running s); simpl; [|exact H].
  destruct a as [sd q|sd].
  - destruct (match sd with WAN => p_wan_open s | LAN => p_lan_open s end); simpl; [|exact H].
    destruct (existsb (Nat.eqb q) (p_found s)); simpl; [exact H|]. apply in_or_app. left. exact H.
  - destruct sd; simpl; exact H.
Qed.

Lemma fold_out_mono : forall l s p, In p (p_out s) -> In p (p_out (fold_left prov_step l s)).
Proof.
  induction l as [|a l IH]; simpl; intros s p H; [exact H|]. apply IH. apply step_out_mono. exact H.
Qed.

Lemma fold_out_sub : forall l s p, In p (p_out (fold_left prov_step l s)) -> In p (p_out s) \/ In p (arrived l).
Proof.
  induction l as [|a l IH]; simpl; intros s p H; [left; exact H|].
  apply IH in H. destruct H as [H|H]; [|right; apply in_or_app; right; exact H].
  unfold prov_step in H. destruct (prov_running s); simpl in H; [|left; exact H].
  destruct a as [sd q|sd].
  - destruct (match sd with WAN => p_wan_open s | LAN => p_lan_open s end); simpl in H; [|left; exact H].
    destruct (existsb (Nat.eqb q) (p_found s)); simpl in H; [left; exact H|].
    apply in_app_or in H. destruct H as [H|[<-|[]]]; [left; exact H|]. right. apply in_or_app. left. left. reflexivity.
  - destruct sd; simpl in H; left; exact H.
Qed.

(* each provider at most once; at most count in total; nothing for a negative count;
   only providers that were received *)
Theorem providers_once_bounded : forall count arrivals,
  NoDup (prov_merge count arrivals) /\
  ((0 < count)%Z -> (Z.of_nat (length (prov_merge count arrivals)) <= count)%Z) /\
  ((count < 0)%Z -> prov_merge count arrivals = []) /\
  (forall p, In p (prov_merge count arrivals) -> In p (arrived arrivals)).
Proof.
  intros count arrivals. destruct (prov_run_inv count arrivals) as (Hnd & _ & _ & Hc & Hpos & Hneg).
  unfold prov_merge. repeat split; auto.
  - intro H. specialize (Hpos H). lia.
  - intros p H. unfold prov_run in H. apply fold_out_sub in H. destruct H as [H|H]; [destruct H|exact H].
Qed.

(* ---- nothing is dropped below the cap, for every arrival order --------------------------------------------- *)

(* arrival sequences the two inner channels can produce: nothing after a channel's close *)
Fixpoint wf (wo lo : bool) (l : list arrival) : Prop :=
  match l with
  | [] => True
  | AProv WAN _ :: r => wo = true /\ wf wo lo r
  | AProv LAN _ :: r => lo = true /\ wf wo lo r
  | AClosed WAN :: r => wo = true /\ wf false lo r
  | AClosed LAN :: r => lo = true /\ wf wo false r
  end.

Definition capped (s : pstate) : Prop := p_zero s = false /\ (p_count s <= 0)%Z.

Lemma capped_frozen : forall s a, capped s -> prov_step s a = s.
Proof.
  intros s a [Hz Hc]. unfold prov_step, prov_running. rewrite Hz. simpl.
  destruct (Z.ltb 0 (p_count s)) eqn:E; [lia|]. reflexivity.
Qed.

Lemma capped_fold : forall l s, capped s -> fold_left prov_step l s = s.
Proof.
  induction l as [|a l IH]; simpl; intros s H; [reflexivity|]. rewrite (capped_frozen s a H). apply IH. exact H.
Qed.

Lemma no_loss_gen : forall l s count wo lo,
  PInv count s -> wf wo lo l -> (capped s \/ (p_wan_open s = wo /\ p_lan_open s = lo)) ->
  forall p, In p (arrived l) -> In p (p_out (fold_left prov_step l s)) \/ capped (fold_left prov_step l s).
Proof.
  induction l as [|a l IH]; simpl; intros s count wo lo HI Hwf Hv p Hp; [contradiction|].
  destruct Hv as [Hcap|[Vw Vl]].
  { right. rewrite (capped_frozen s a Hcap). rewrite (capped_fold l s Hcap). exact Hcap. }
  destruct (Z.ltb 0 (p_count s) || p_zero s) eqn:Free.
  2:{ right. assert (Hcap : capped s).
      { apply orb_false_iff in Free. destruct Free as [F1 F2]. split; [exact F2|lia]. }
      rewrite (capped_frozen s a Hcap). rewrite (capped_fold l s Hcap). exact Hcap. }
  assert (HI1 : PInv count (prov_step s a)) by (apply PInv_step; exact HI).
  destruct a as [sd q|sd].
  - (* a provider arrives on an open channel *)
    assert (Hopen : match sd with WAN => p_wan_open s | LAN => p_lan_open s end = true /\ wf wo lo l).
    { destruct sd; simpl in Hwf; destruct Hwf as [-> Hwf]; auto. }
    destruct Hopen as [Hopen Hwf'].
    assert (Hrun : prov_running s = true).
    { unfold prov_running. apply andb_true_iff. split.
      - apply orb_true_iff in Free. apply orb_true_iff. tauto.
      - destruct sd; rewrite Hopen; simpl; auto using orb_true_r. }
    assert (Hq : In q (p_out (prov_step s (AProv sd q)))).
    { unfold prov_step. rewrite Hrun. simpl. rewrite Hopen. simpl.
      destruct (existsb (Nat.eqb q) (p_found s)) eqn:E; simpl.
      - apply existsb_eqb_in in E. destruct HI as (_ & Hf & _). apply Hf. exact E.
      - apply in_or_app. right. left. reflexivity. }
    assert (Hflags : p_wan_open (prov_step s (AProv sd q)) = wo /\ p_lan_open (prov_step s (AProv sd q)) = lo).
    { unfold prov_step. rewrite Hrun. simpl. rewrite Hopen. simpl.
      destruct (existsb (Nat.eqb q) (p_found s)); simpl; auto. }
    simpl in Hp. destruct Hp as [<-|Hp].
    + left. apply fold_out_mono. exact Hq.
    + eapply IH; eauto.
  - (* a channel closes *)
    simpl in Hp.
    destruct sd; simpl in Hwf; destruct Hwf as [Ho Hwf'].
    + assert (Hrun : prov_running s = true).
      { unfold prov_running. apply andb_true_iff. split.
        - apply orb_true_iff in Free. apply orb_true_iff. tauto.
        - rewrite Vw, Ho. reflexivity. }
      eapply (IH _ count false lo); eauto.
      right. unfold prov_step. rewrite Hrun. simpl. auto.
    + assert (Hrun : prov_running s = true).
      { unfold prov_running. apply andb_true_iff. split.
        - apply orb_true_iff in Free. apply orb_true_iff. tauto.
        - rewrite Vl, Ho. apply orb_true_r. }
      eapply (IH _ count wo false); eauto.
      right. unfold prov_step. rewrite Hrun. simpl. auto.
Qed.

(* every provider delivered by either inner DHT reaches the caller unless the
   count has been reached (count = 0: no limit, so the output is the union) *)
Theorem providers_no_loss : forall count arrivals p,
  wf true true arrivals -> In p (arrived arrivals) ->
  In p (prov_merge count arrivals) \/
  ((0 < count)%Z /\ Z.of_nat (length (prov_merge count arrivals)) = count) \/ (count < 0)%Z.
Proof.
  intros count arrivals p Hwf Hp. unfold prov_merge, prov_run.
  destruct (no_loss_gen arrivals (prov_init count) count true true (PInv_init count) Hwf
              (or_intror (conj eq_refl eq_refl)) p Hp) as [H|[Hz Hc]]; [left; exact H|right].
  destruct (PInv_fold count arrivals _ (PInv_init count)) as (_ & _ & Hz' & Hcnt & Hpos & _).
  fold (prov_run count arrivals) in *. rewrite Hz in Hz'. symmetry in Hz'. apply Z.eqb_neq in Hz'.
  destruct (Z_lt_le_dec count 0) as [Neg|Pos]; [right; exact Neg|left].
  assert (Pos' : (0 < count)%Z) by lia. specialize (Hpos Pos'). split; lia.
Qed.

Corollary providers_unlimited_union : forall arrivals p,
  wf true true arrivals -> (In p (prov_merge 0 arrivals) <-> In p (arrived arrivals)).
Proof.
  intros arrivals p Hwf. split.
  - apply providers_once_bounded.
  - intro H. destruct (providers_no_loss 0 arrivals p Hwf H) as [H1|[[H1 _]|H1]]; [exact H1|lia|lia].
Qed.

Lemma combine_errors_spec :
  (forall i, combine_errors (Some (ESentinel i)) (Some (ESentinel i)) = Some (ESentinel i)) /\
  (forall b, combine_errors (Some lookup_failure) b = b) /\
  (forall a, combine_errors a (Some lookup_failure) = a) /\
  (forall i j, i <> j -> i <> O -> j <> O ->
     combine_errors (Some (ESentinel i)) (Some (ESentinel j)) = Some (EJoin (ESentinel i) (ESentinel j))).
Proof.
  split; [exact combine_same_sentinel|]. split; [exact combine_lookup_failure_l|].
  split; [exact combine_lookup_failure_r|exact combine_distinct].
Qed.

(* ---- provider records: what the three provider-message sites store / attach ------------------- *)

(* the address filter of a DHT kind as a predicate *)
Definition keeps (s : side) (a : maddr) : bool :=
  match s with WAN => manet_is_public a | LAN => negb (is_ip_loopback a) end.

Lemma addr_filter_keeps : forall s l a, In a (addr_filter s l) <-> In a l /\ keeps s a = true.
Proof. intros [] l a; unfold addr_filter, keeps; apply filter_In. Qed.

Lemma keeps_wan : forall a, keeps WAN a = true -> manet_is_public a = true /\ is_ip_loopback a = false.
Proof.
  intros a H. simpl in H. split; [exact H|].
  destruct (is_ip_loopback a) eqn:E; [|reflexivity].
  destruct (loopback_not_public a E) as [_ [P _]]. congruence.
Qed.

Lemma keeps_lan : forall a, keeps LAN a = true <-> is_ip_loopback a = false.
Proof. intro a. simpl. destruct (is_ip_loopback a); simpl; split; congruence. Qed.

Lemma in_firstn : forall (A : Type) n (l : list A) x, In x (firstn n l) -> In x l.
Proof.
  intros A n. induction n as [|n IH]; intros [|y l] x H; simpl in *; try contradiction.
  destruct H as [H|H]; [left; exact H|right; apply IH; exact H].
Qed.

(* handleAddProvider + ProviderManager.AddProvider: exactly the filtered addresses of the
   sender's own non-empty entries are written, under the sender's id, unless the sender is self *)
Lemma add_provider_writes_spec : forall s key_ok self sender msg q a,
  In (q, a) (add_provider_writes s key_ok self sender msg) <->
  key_ok = true /\ q = sender /\ q <> self /\ keeps s a = true /\
  exists e, In e msg /\ pe_id e = q /\ In a (pe_addrs e).
Proof.
  intros s key_ok self sender msg q a. unfold add_provider_writes, add_provider_calls. split.
  - intro H. apply in_flat_map in H. destruct H as [c [Hc Hw]].
    destruct key_ok; [|contradiction].
    apply in_map_iff in Hc. destruct Hc as [e [Hfe He]]. apply filter_In in He. destruct He as [He Hacc].
    unfold add_provider_accepts in Hacc. apply andb_true_iff in Hacc. destruct Hacc as [Hid _].
    apply Nat.eqb_eq in Hid.
    unfold pm_writes in Hw. destruct (Nat.eqb (pe_id c) self) eqn:Hself; [contradiction|].
    apply Nat.eqb_neq in Hself.
    apply in_map_iff in Hw. destruct Hw as [a' [Hpair Ha']]. inversion Hpair; subst a' q. clear Hpair.
    subst c. simpl in *. apply addr_filter_keeps in Ha'. destruct Ha' as [Hin Hk].
    repeat split; try assumption. exists e. repeat split; assumption.
  - intros [Hk [Hq [Hns [Hkeep [e [He [Hid Ha]]]]]]]. subst key_ok. subst q.
    apply in_flat_map. exists (filter_entry s e). split.
    + apply in_map. apply filter_In. split; [exact He|].
      unfold add_provider_accepts. rewrite Hid, Nat.eqb_refl. simpl.
      destruct (pe_addrs e); [contradiction|reflexivity].
    + unfold pm_writes. simpl. rewrite Hid.
      destruct (Nat.eqb sender self) eqn:E; [apply Nat.eqb_eq in E; contradiction|].
      apply in_map. apply addr_filter_keeps. split; assumption.
Qed.

Lemma add_provider_recorded_spec : forall s key_ok sender msg q,
  In q (add_provider_recorded s key_ok sender msg) <->
  key_ok = true /\ q = sender /\ exists e, In e msg /\ pe_id e = sender /\ pe_addrs e <> [].
Proof.
  intros s key_ok sender msg q. unfold add_provider_recorded, add_provider_calls. split.
  - intro H. destruct key_ok; [|contradiction]. rewrite map_map in H. simpl in H.
    apply in_map_iff in H. destruct H as [e [Hq He]]. apply filter_In in He. destruct He as [He Hacc].
    unfold add_provider_accepts in Hacc. apply andb_true_iff in Hacc. destruct Hacc as [Hid Hne].
    apply Nat.eqb_eq in Hid. repeat split; [congruence|]. exists e. repeat split; try assumption.
    destruct (pe_addrs e); [discriminate|discriminate].
  - intros [Hk [Hq [e [He [Hid Hne]]]]]. subst key_ok q. rewrite map_map. simpl.
    apply in_map_iff. exists e. split; [exact Hid|]. apply filter_In. split; [exact He|].
    unfold add_provider_accepts. rewrite Hid, Nat.eqb_refl. simpl. destruct (pe_addrs e); [contradiction|reflexivity].
Qed.

(* handleGetProviders *)
Lemma get_providers_attached_sound : forall s key_ok fit provs r a,
  In r (get_providers_attached s key_ok fit provs) -> In a (pe_addrs r) ->
  key_ok = true /\ keeps s a = true /\ exists e, In e provs /\ pe_id e = pe_id r /\ In a (pe_addrs e).
Proof.
  intros s key_ok fit provs r a Hr Ha. unfold get_providers_attached in Hr.
  destruct key_ok; [|contradiction]. apply in_firstn in Hr. apply in_map_iff in Hr.
  destruct Hr as [e [Hfe He]]. subst r. simpl in *. apply addr_filter_keeps in Ha. destruct Ha as [Hin Hk].
  repeat split; try assumption. exists e. repeat split; assumption.
Qed.

Lemma get_providers_attached_complete : forall s fit provs e a,
  (length provs <= fit)%nat -> In e provs -> In a (pe_addrs e) -> keeps s a = true ->
  exists r, In r (get_providers_attached s true fit provs) /\ pe_id r = pe_id e /\ In a (pe_addrs r).
Proof.
  intros s fit provs e a Hfit He Ha Hk. unfold get_providers_attached.
  rewrite firstn_all2 by (rewrite map_length; exact Hfit).
  exists (filter_entry s e). split; [apply in_map; exact He|]. split; [reflexivity|].
  simpl. apply addr_filter_keeps. split; assumption.
Qed.

(* every provider of the store is attached (with or without addresses) when all fit *)
Lemma get_providers_attached_ids : forall s fit provs, (length provs <= fit)%nat ->
  map pe_id (get_providers_attached s true fit provs) = map pe_id provs.
Proof.
  intros s fit provs Hfit. unfold get_providers_attached.
  rewrite firstn_all2 by (rewrite map_length; exact Hfit). rewrite map_map. reflexivity.
Qed.

(* findProvidersAsyncRoutine / maybeAddAddrs *)
Lemma find_providers_writes_spec : forall s self connected processed q a,
  In (q, a) (find_providers_writes s self connected processed) <->
  q <> self /\ connected q = false /\ keeps s a = true /\
  exists e, In e processed /\ pe_id e = q /\ In a (pe_addrs e).
Proof.
  intros s self connected processed q a. unfold find_providers_writes. split.
  - intro H. apply in_flat_map in H. destruct H as [e [He Hw]].
    destruct (Nat.eqb (pe_id e) self) eqn:Hself; simpl in Hw; [contradiction|].
    destruct (connected (pe_id e)) eqn:Hc; [contradiction|].
    apply Nat.eqb_neq in Hself. apply in_map_iff in Hw. destruct Hw as [a' [Hpair Ha']].
    inversion Hpair; subst a' q. clear Hpair. apply addr_filter_keeps in Ha'. destruct Ha' as [Hin Hk].
    repeat split; try assumption. exists e. repeat split; assumption.
  - intros [Hns [Hc [Hk [e [He [Hid Ha]]]]]]. subst q. apply in_flat_map. exists e. split; [exact He|].
    destruct (Nat.eqb (pe_id e) self) eqn:E; [apply Nat.eqb_eq in E; contradiction|]. rewrite Hc. simpl.
    apply in_map. apply addr_filter_keeps. split; assumption.
Qed.

(* ---- the statements used by Props/C15.v ---- *)

Lemma wan_add_provider_spec : forall key_ok self sender msg,
  (forall q a, In (q, a) (add_provider_writes WAN key_ok self sender msg) ->
     key_ok = true /\ q = sender /\ q <> self /\
     (exists e, In e msg /\ pe_id e = q /\ In a (pe_addrs e)) /\
     manet_is_public a = true /\ is_ip_loopback a = false) /\
  (forall e a, key_ok = true -> sender <> self -> In e msg -> pe_id e = sender -> In a (pe_addrs e) ->
     manet_is_public a = true -> In (sender, a) (add_provider_writes WAN key_ok self sender msg)).
Proof.
  intros key_ok self sender msg. split.
  - intros q a H. apply add_provider_writes_spec in H. destruct H as [Hk [Hq [Hns [Hkeep Hex]]]].
    destruct (keeps_wan a Hkeep) as [Hp Hl]. repeat split; assumption.
  - intros e a Hk Hns He Hid Ha Hp. apply add_provider_writes_spec.
    repeat split; try assumption. exists e. repeat split; assumption.
Qed.

Lemma wan_get_providers_spec : forall key_ok fit provs,
  (forall r a, In r (get_providers_attached WAN key_ok fit provs) -> In a (pe_addrs r) ->
     (exists e, In e provs /\ pe_id e = pe_id r /\ In a (pe_addrs e)) /\
     manet_is_public a = true /\ is_ip_loopback a = false) /\
  (forall e a, key_ok = true -> (length provs <= fit)%nat -> In e provs -> In a (pe_addrs e) ->
     manet_is_public a = true ->
     exists r, In r (get_providers_attached WAN key_ok fit provs) /\ pe_id r = pe_id e /\ In a (pe_addrs r)).
Proof.
  intros key_ok fit provs. split.
  - intros r a Hr Ha. destruct (get_providers_attached_sound _ _ _ _ _ _ Hr Ha) as [_ [Hk Hex]].
    destruct (keeps_wan a Hk) as [Hp Hl]. repeat split; assumption.
  - intros e a Hk Hfit He Ha Hp. subst key_ok. apply get_providers_attached_complete; assumption.
Qed.

Lemma wan_find_providers_spec : forall self connected processed,
  (forall q a, In (q, a) (find_providers_writes WAN self connected processed) ->
     q <> self /\ connected q = false /\
     (exists e, In e processed /\ pe_id e = q /\ In a (pe_addrs e)) /\
     manet_is_public a = true /\ is_ip_loopback a = false) /\
  (forall e a, In e processed -> pe_id e <> self -> connected (pe_id e) = false -> In a (pe_addrs e) ->
     manet_is_public a = true -> In (pe_id e, a) (find_providers_writes WAN self connected processed)).
Proof.
  intros self connected processed. split.
  - intros q a H. apply find_providers_writes_spec in H. destruct H as [Hns [Hc [Hk Hex]]].
    destruct (keeps_wan a Hk) as [Hp Hl]. repeat split; assumption.
  - intros e a He Hns Hc Ha Hp. apply find_providers_writes_spec.
    repeat split; try assumption. exists e. repeat split; assumption.
Qed.

Lemma lan_provider_sites_spec : forall key_ok self sender msg fit provs connected processed,
  (* inbound ADD_PROVIDER *)
  (forall q a, In (q, a) (add_provider_writes LAN key_ok self sender msg) ->
     q = sender /\ (exists e, In e msg /\ pe_id e = q /\ In a (pe_addrs e)) /\ is_ip_loopback a = false) /\
  (forall e a, key_ok = true -> sender <> self -> In e msg -> pe_id e = sender -> In a (pe_addrs e) ->
     is_ip_loopback a = false -> In (sender, a) (add_provider_writes LAN key_ok self sender msg)) /\
  (* GET_PROVIDERS response *)
  (forall r a, In r (get_providers_attached LAN key_ok fit provs) -> In a (pe_addrs r) ->
     (exists e, In e provs /\ pe_id e = pe_id r /\ In a (pe_addrs e)) /\ is_ip_loopback a = false) /\
  (forall e a, key_ok = true -> (length provs <= fit)%nat -> In e provs -> In a (pe_addrs e) ->
     is_ip_loopback a = false ->
     exists r, In r (get_providers_attached LAN key_ok fit provs) /\ pe_id r = pe_id e /\ In a (pe_addrs r)) /\
  (* providers learned from a GET_PROVIDERS response *)
  (forall q a, In (q, a) (find_providers_writes LAN self connected processed) ->
     (exists e, In e processed /\ pe_id e = q /\ In a (pe_addrs e)) /\ is_ip_loopback a = false) /\
  (forall e a, In e processed -> pe_id e <> self -> connected (pe_id e) = false -> In a (pe_addrs e) ->
     is_ip_loopback a = false -> In (pe_id e, a) (find_providers_writes LAN self connected processed)).
Proof.
  intros key_ok self sender msg fit provs connected processed. repeat apply conj.
  - intros q a H. apply add_provider_writes_spec in H. destruct H as [Hk [Hq [Hns [Hkeep Hex]]]].
    apply keeps_lan in Hkeep. repeat split; assumption.
  - intros e a Hk Hns He Hid Ha Hl. apply add_provider_writes_spec. apply keeps_lan in Hl.
    repeat split; try assumption. exists e. repeat split; assumption.
  - intros r a Hr Ha. destruct (get_providers_attached_sound _ _ _ _ _ _ Hr Ha) as [_ [Hk Hex]].
    apply keeps_lan in Hk. split; assumption.
  - intros e a Hk Hfit He Ha Hl. subst key_ok. apply keeps_lan in Hl. apply get_providers_attached_complete; assumption.
  - intros q a H. apply find_providers_writes_spec in H. destruct H as [Hns [Hc [Hk Hex]]].
    apply keeps_lan in Hk. split; assumption.
  - intros e a He Hns Hc Ha Hl. apply find_providers_writes_spec. apply keeps_lan in Hl.
    repeat split; try assumption. exists e. repeat split; assumption.
Qed.

(* an announcement whose addresses are all removed by the filter is still recorded (the
   length test precedes the filter) but writes nothing *)
Lemma add_provider_all_filtered : forall s self sender e,
  pe_id e = sender -> pe_addrs e <> [] -> addr_filter s (pe_addrs e) = [] ->
  add_provider_writes s true self sender [e] = [] /\ add_provider_recorded s true sender [e] = [sender] /\
  add_provider_err s true sender [e] = false.
Proof.
  intros s self sender e Hid Hne Hf.
  assert (Hacc : add_provider_accepts sender e = true).
  { unfold add_provider_accepts. rewrite Hid, Nat.eqb_refl. simpl. destruct (pe_addrs e); [contradiction|reflexivity]. }
  unfold add_provider_writes, add_provider_recorded, add_provider_err, add_provider_calls.
  cbn [filter]. rewrite Hacc. cbn [map flat_map filter_entry pe_id pe_addrs app]. unfold pm_writes, filter_entry. cbn [pe_id pe_addrs].
  rewrite Hf, Hid. destruct (Nat.eqb sender self); repeat split; reflexivity.
Qed.
