(* Lemmas about Model/Keystore.v: the plain keystore refines a set of keys over every
   history of operations, clean restarts, crashes and injected datastore failures. *)
From Verif.Lib Require Import GoSem Bits.
From Verif.Model Require Import Keystore.
From Coq Require Import Lia ZifyBool ZifyNat ZifyN Permutation.

Lemma NoDup_snoc {A} (l : list A) p : NoDup l -> ~ In p l -> NoDup (l ++ [p]).
Proof.
  intros H1 H2. apply (Permutation_NoDup (l := p :: l)).
  - apply Permutation_cons_append.
  - constructor; assumption.
Qed.

(* ---- keys of the store -------------------------------------------------- *)
Lemma skey_eqb_eq a b : skey_eqb a b = true <-> a = b.
Proof.
  destruct a as [|p i], b as [|q j]; simpl; split; intro H; try reflexivity; try discriminate.
  - apply andb_true_iff in H as [H1 H2]. apply N.eqb_eq in H1. apply bits_eqb_eq in H2. congruence.
  - inversion H; subst. rewrite N.eqb_refl, bits_eqb_refl. reflexivity.
Qed.
Lemma skey_eqb_refl a : skey_eqb a a = true.
Proof. apply skey_eqb_eq. reflexivity. Qed.
Lemma skey_eqb_neq a b : skey_eqb a b = false <-> a <> b.
Proof.
  split; intro H.
  - intro E. apply skey_eqb_eq in E. congruence.
  - destruct (skey_eqb a b) eqn:E; [apply skey_eqb_eq in E; contradiction|reflexivity].
Qed.

Lemma st_get_none k st : st_get k st = None <-> ~ In k (map fst st).
Proof.
  unfold st_get. induction st as [|[k' v] st IH]; simpl.
  - split; auto.
  - destruct (skey_eqb k' k) eqn:E.
    + apply skey_eqb_eq in E. subst. split; [discriminate|]. intro H. exfalso. apply H. auto.
    + apply skey_eqb_neq in E. rewrite IH. split; intro H; [intros [H1|H1]; [congruence|auto]|auto].
Qed.

Lemma st_get_some_in k v st : st_get k st = Some v -> In (k, v) st.
Proof.
  unfold st_get. induction st as [|[k' v'] st IH]; simpl; [discriminate|].
  destruct (skey_eqb k' k) eqn:E.
  - apply skey_eqb_eq in E. subst. intro H. inversion H. auto.
  - intro H. right. apply IH. exact H.
Qed.

Lemma st_get_in k v st : NoDup (map fst st) -> In (k, v) st -> st_get k st = Some v.
Proof.
  unfold st_get. induction st as [|[k' v'] st IH]; simpl; intros ND H; [destruct H|].
  inversion ND as [|? ? N1 N2]; subst.
  destruct H as [H|H].
  - inversion H; subst. rewrite skey_eqb_refl. reflexivity.
  - destruct (skey_eqb k' k) eqn:E.
    + apply skey_eqb_eq in E. subst. exfalso. apply N1. apply in_map_iff. exists (k, v). auto.
    + apply IH; assumption.
Qed.

Lemma st_has_true k st : st_has k st = true <-> In k (map fst st).
Proof.
  unfold st_has. destruct (st_get k st) eqn:E.
  - split; [|reflexivity]. intros _. apply st_get_some_in in E. apply in_map_iff. exists (k, s). auto.
  - split; [discriminate|]. intro H. apply st_get_none in E. contradiction.
Qed.
Lemma st_has_false k st : st_has k st = false <-> ~ In k (map fst st).
Proof.
  rewrite <- st_has_true. destruct (st_has k st); split; intro H.
  - discriminate.
  - exfalso. apply H. reflexivity.
  - intro; discriminate.
  - reflexivity.
Qed.

Lemma st_del_in r k st : In r (st_del k st) <-> In r st /\ fst r <> k.
Proof.
  unfold st_del. rewrite filter_In. rewrite negb_true_iff, skey_eqb_neq. reflexivity.
Qed.

Lemma map_fst_filter {A B} (f : A -> bool) (l : list (A * B)) :
  map fst (filter (fun r => f (fst r)) l) = filter f (map fst l).
Proof. induction l as [|[a b] l IH]; simpl; [reflexivity|]. destruct (f a); simpl; congruence. Qed.

Lemma NoDup_filter {A} (f : A -> bool) l : NoDup l -> NoDup (filter f l).
Proof.
  induction 1 as [|x l H1 H2 IH]; simpl; [constructor|].
  destruct (f x); [constructor; [|exact IH]|exact IH]. rewrite filter_In. tauto.
Qed.

Lemma st_del_nodup k st : NoDup (map fst st) -> NoDup (map fst (st_del k st)).
Proof.
  intro H. unfold st_del.
  rewrite (map_fst_filter (fun a => negb (skey_eqb a k))). apply NoDup_filter. exact H.
Qed.

Lemma st_del_absent k st : ~ In k (map fst st) -> st_del k st = st.
Proof.
  unfold st_del. induction st as [|[k' v] st IH]; simpl; intro H; [reflexivity|].
  destruct (skey_eqb k' k) eqn:E.
  - apply skey_eqb_eq in E. subst. exfalso. apply H. auto.
  - simpl. f_equal. apply IH. intro H1. apply H. auto.
Qed.

Lemma st_del_get k k' st : st_get k (st_del k' st) = if skey_eqb k' k then None else st_get k st.
Proof.
  unfold st_get, st_del. induction st as [|[a v] st IH]; simpl.
  - destruct (skey_eqb k' k); reflexivity.
  - destruct (skey_eqb a k') eqn:E1; simpl.
    + apply skey_eqb_eq in E1. subst a. destruct (skey_eqb k' k) eqn:E2; [exact IH|]. exact IH.
    + destruct (skey_eqb a k) eqn:E2.
      * apply skey_eqb_eq in E2. subst a. destruct (skey_eqb k' k) eqn:E3; [|reflexivity].
        apply skey_eqb_eq in E3. subst. rewrite skey_eqb_refl in E1. discriminate.
      * exact IH.
Qed.

Lemma st_put_fresh k v st : st_has k st = false -> st_put k v st = st ++ [(k, v)].
Proof. unfold st_put. intros ->. reflexivity. Qed.

Lemma st_put_same k v st : NoDup (map fst st) -> In (k, v) st -> st_put k v st = st.
Proof.
  intros ND H. unfold st_put.
  assert (Hh : st_has k st = true) by (apply st_has_true; apply in_map_iff; exists (k, v); auto).
  rewrite Hh. clear Hh.
  induction st as [|[a w] st IH]; simpl; [reflexivity|].
  inversion ND as [|? ? N1 N2]; subst. destruct H as [H|H].
  - inversion H; subst. rewrite skey_eqb_refl. f_equal.
    clear IH ND N2. induction st as [|[a w] st IH]; simpl; [reflexivity|].
    destruct (skey_eqb a k) eqn:E.
    + apply skey_eqb_eq in E. subst. exfalso. apply N1. simpl. auto.
    + f_equal. apply IH. intro H1. apply N1. simpl. auto.
  - destruct (skey_eqb a k) eqn:E.
    + apply skey_eqb_eq in E. subst. exfalso. apply N1. apply in_map_iff. exists (k, v). auto.
    + f_equal. apply IH; assumption.
Qed.

Lemma replay_snoc j b : replay (j ++ [b]) = apply_batch (replay j) b.
Proof. unfold replay. rewrite fold_left_app. reflexivity. Qed.

Lemma replay_jappend j b : replay (jappend j b) = apply_batch (replay j) b.
Proof. destruct b; [reflexivity|]. unfold jappend. apply replay_snoc. Qed.

Lemma replay_app j j' : replay (j ++ j') = fold_left apply_batch j' (replay j).
Proof. unfold replay. apply fold_left_app. Qed.

(* ---- bit prefixes and the datastore path -------------------------------- *)
Lemma is_prefix_firstn_r p : forall n k, length p <= n -> is_prefix p (firstn n k) = is_prefix p k.
Proof.
  induction p as [|b p IH]; intros n k H; [reflexivity|].
  destruct n as [|n]; simpl in H; [lia|].
  destruct k as [|c k]; simpl; [reflexivity|].
  rewrite IH by lia. reflexivity.
Qed.

Lemma is_prefix_firstn_both p : forall n k, is_prefix p k = true -> is_prefix (firstn n p) (firstn n k) = true.
Proof.
  induction p as [|b p IH]; intros n k H.
  - destruct n; reflexivity.
  - destruct k as [|c k]; simpl in H; [discriminate|].
    apply andb_true_iff in H as [H1 H2].
    destruct n as [|n]; simpl; [reflexivity|]. rewrite H1. simpl. apply IH. exact H2.
Qed.

Lemma firstn_all_le {A} (l : list A) n : length l <= n -> firstn n l = l.
Proof. intro H. apply firstn_all2. exact H. Qed.

(* a row under the query path that also passes the post-filter (if any) is a
   row whose key has the prefix *)
Lemma path_filter_exact pb p kbs :
  is_prefix (qpath pb p) (firstn pb kbs) && (if long_prefix pb p then is_prefix p kbs else true)
  = is_prefix p kbs.
Proof.
  unfold qpath, long_prefix. destruct (Nat.ltb pb (length p)) eqn:E.
  - apply Nat.ltb_lt in E. destruct (is_prefix p kbs) eqn:H.
    + rewrite is_prefix_firstn_both by exact H. reflexivity.
    + apply andb_false_r.
  - apply Nat.ltb_ge in E. rewrite andb_true_r. rewrite firstn_all_le by exact E.
    apply is_prefix_firstn_r. exact E.
Qed.

Section WithBits.
Variable bits_of : N -> bits.
Variable pb : nat.

Definition kwf (k : mhk) : Prop := mbits k = bits_of (mid k).

Definition row_ok (r : row) : Prop :=
  (exists n, r = (KSize, VSize n)) \/ (exists k, r = (dkey pb k, VKey k) /\ kwf k).

Definition wfs (st : sstore) : Prop := NoDup (map fst st) /\ forall r, In r st -> row_ok r.

Lemma kwf_same_id k k' : kwf k -> kwf k' -> mid k = mid k' -> k = k'.
Proof.
  unfold kwf. destruct k as [b i], k' as [b' i']; simpl. intros H1 H2 E. subst. reflexivity.
Qed.

Lemma dkey_inj k k' : kwf k -> kwf k' -> dkey pb k = dkey pb k' -> k = k'.
Proof. intros H1 H2 E. unfold dkey in E. inversion E. apply kwf_same_id; assumption. Qed.

Lemma wfs_nil : wfs [].
Proof. split; [constructor|intros r []]. Qed.

Lemma wfs_del k st : wfs st -> wfs (st_del k st).
Proof.
  intros [H1 H2]. split; [apply st_del_nodup; exact H1|].
  intros r Hr. apply st_del_in in Hr. apply H2. tauto.
Qed.

Lemma wfs_snoc st r : wfs st -> row_ok r -> ~ In (fst r) (map fst st) -> wfs (st ++ [r]).
Proof.
  intros [H1 H2] Hr Hn. split.
  - rewrite map_app. simpl. apply NoDup_snoc; assumption.
  - intros x Hx. apply in_app_iff in Hx. destruct Hx as [Hx|[<-|[]]]; auto.
Qed.

(* the stored keys *)
Lemma keys_of_app a b : keys_of (a ++ b) = keys_of a ++ keys_of b.
Proof.
  induction a as [|[k [n|x]] a IH]; simpl; [reflexivity|exact IH|]. rewrite IH. reflexivity.
Qed.

Lemma keys_of_in st x : In x (keys_of st) <-> exists sk, In (sk, VKey x) st.
Proof.
  induction st as [|[k [n|y]] st IH]; simpl.
  - split; [intros []|intros [? []]].
  - rewrite IH. split; intros [sk H]; exists sk; [auto|]. destruct H as [H|H]; [discriminate|exact H].
  - rewrite IH. split.
    + intros [->|[sk H]]; [exists k; auto|exists sk; auto].
    + intros [sk [H|H]]; [inversion H; auto|right; exists sk; exact H].
Qed.

Lemma keys_of_in_wfs st x : wfs st -> (In x (keys_of st) <-> In (dkey pb x, VKey x) st).
Proof.
  intros [_ W]. rewrite keys_of_in. split.
  - intros [sk H]. destruct (W _ H) as [[n E]|[k [E _]]]; [discriminate|]. inversion E; subst. exact H.
  - intro H. eexists. exact H.
Qed.

Lemma keys_of_wf st x : wfs st -> In x (keys_of st) -> kwf x.
Proof.
  intros [_ W] H. apply keys_of_in in H. destruct H as [sk H].
  destruct (W _ H) as [[n E]|[k [E K]]]; [discriminate|]. inversion E; subst. exact K.
Qed.

Lemma has_mid_true i l : has_mid i l = true <-> exists k, In k l /\ mid k = i.
Proof.
  unfold has_mid. rewrite existsb_exists. split; intros [k [H E]]; exists k; split; auto; apply N.eqb_eq; exact E.
Qed.

(* Has(dsKey(k)) answers "is k stored" *)
Lemma st_has_dkey st k : wfs st -> kwf k -> st_has (dkey pb k) st = has_mid (mid k) (keys_of st).
Proof.
  intros W K. destruct (has_mid (mid k) (keys_of st)) eqn:E.
  - apply has_mid_true in E. destruct E as [k' [H E]].
    assert (k' = k) by (apply kwf_same_id; auto; eapply keys_of_wf; eauto). subst k'.
    apply st_has_true. apply keys_of_in_wfs in H; [|exact W]. apply in_map_iff. exists (dkey pb k, VKey k). auto.
  - apply st_has_false. intro H. apply in_map_iff in H. destruct H as [[sk v] [E1 H]]. simpl in E1. subst sk.
    destruct W as [_ W]. destruct (W _ H) as [[n E2]|[k' [E2 K']]]; [discriminate|].
    inversion E2; subst. assert (k' = k) by (apply kwf_same_id; auto). subst k'.
    assert (has_mid (mid k) (keys_of st) = true); [|congruence].
    apply has_mid_true. exists k. split; [|reflexivity]. apply keys_of_in. eexists. exact H.
Qed.

Lemma keys_of_nodup st : wfs st -> NoDup (map mid (keys_of st)).
Proof.
  induction st as [|[k v] st IH]; intro W; simpl; [constructor|].
  assert (W' : wfs st).
  { destruct W as [W1 W2]. split; [inversion W1; assumption|]. intros r Hr. apply W2. right. exact Hr. }
  destruct v as [n|x]; [apply IH; exact W'|]. simpl. constructor; [|apply IH; exact W'].
  intro H. apply in_map_iff in H. destruct H as [y [E H]].
  assert (Kx : kwf x) by (apply (keys_of_wf ((k, VKey x) :: st)); [exact W|simpl; auto]).
  assert (Ky : kwf y) by (eapply keys_of_wf; eauto).
  assert (y = x) by (apply kwf_same_id; auto). subst y.
  apply keys_of_in_wfs in H; [|exact W'].
  destruct W as [W1 W2]. destruct (W2 (k, VKey x)) as [[n E1]|[k' [E1 _]]]; [left; reflexivity|discriminate|].
  inversion E1; subst. inversion W1 as [|? ? N1 N2]; subst. apply N1. apply in_map_iff. exists (dkey pb k', VKey k'). auto.
Qed.

Lemma keys_of_length_nosize st : wfs st -> st_get KSize st = None -> length (keys_of st) = length st.
Proof.
  intros [_ W] H. apply st_get_none in H.
  induction st as [|[k v] st IH]; simpl; [reflexivity|].
  destruct (W (k, v)) as [[n E]|[x [E _]]]; [left; reflexivity| |].
  - inversion E; subst. exfalso. apply H. simpl. auto.
  - inversion E; subst. simpl. f_equal. apply IH.
    + intros r Hr. apply W. right. exact Hr.
    + intro H1. apply H. simpl. auto.
Qed.

(* ---- the scans of put and delete ---------------------------------------- *)
Definition put_op (k : mhk) : wop := WPut (dkey pb k) (VKey k).
Definition del_op (k : mhk) : wop := WDel (dkey pb k).
Definition row_of (k : mhk) : row := (dkey pb k, VKey k).

(* first occurrences of the keys whose identity is not in [seen] *)
Fixpoint dedup_mid (keys : list mhk) (seen : list N) : list mhk :=
  match keys with
  | [] => []
  | k :: r => if mem_N (mid k) seen then dedup_mid r seen else k :: dedup_mid r (mid k :: seen)
  end.

Lemma mem_N_true x l : mem_N x l = true <-> In x l.
Proof.
  unfold mem_N. rewrite existsb_exists. split.
  - intros [y [H E]]. apply N.eqb_eq in E. subst. exact H.
  - intro H. exists x. split; [exact H|apply N.eqb_refl].
Qed.

Lemma dedup_mid_incl keys : forall seen k, In k (dedup_mid keys seen) -> In k keys /\ ~ In (mid k) seen.
Proof.
  induction keys as [|x keys IH]; intros seen k H; simpl in H; [destruct H|].
  destruct (mem_N (mid x) seen) eqn:E.
  - apply IH in H. destruct H as [H1 H2]. split; [right; exact H1|exact H2].
  - destruct H as [<-|H].
    + split; [left; reflexivity|]. intro H1. apply mem_N_true in H1. congruence.
    + apply IH in H. destruct H as [H1 H2]. split; [right; exact H1|]. intro H3. apply H2. right. exact H3.
Qed.

Lemma dedup_mid_nodup keys : forall seen, NoDup (map mid (dedup_mid keys seen)).
Proof.
  induction keys as [|x keys IH]; intro seen; simpl; [constructor|].
  destruct (mem_N (mid x) seen); [apply IH|]. simpl. constructor; [|apply IH].
  intro H. apply in_map_iff in H. destruct H as [y [E H]]. apply dedup_mid_incl in H. apply (proj2 H). left. auto.
Qed.

(* every key of the call is represented *)
Lemma dedup_mid_has keys : forall seen k, In k keys -> ~ In (mid k) seen ->
  exists k', In k' (dedup_mid keys seen) /\ mid k' = mid k.
Proof.
  induction keys as [|x keys IH]; intros seen k H NS; [destruct H|]. simpl.
  destruct (mem_N (mid x) seen) eqn:E.
  - destruct H as [->|H]; [apply mem_N_true in E; contradiction|]. apply IH; assumption.
  - destruct H as [->|H]; [exists k; split; [left; reflexivity|reflexivity]|].
    destruct (N.eq_dec (mid k) (mid x)) as [Q|Q].
    + exists x. split; [left; reflexivity|symmetry; exact Q].
    + destruct (IH (mid x :: seen) k H) as [k' [H1 H2]]; [intros [H1|H1]; congruence|].
      exists k'. split; [right; exact H1|exact H2].
Qed.

Lemma put_scan_some st f : forall keys seen n b nw,
  put_scan pb st f keys seen n = Some (b, nw) ->
  nw = filter (fun k => negb (st_has (dkey pb k) st)) (dedup_mid keys seen) /\ b = map put_op nw.
Proof.
  induction keys as [|k keys IH]; intros seen n b nw H; simpl in H.
  - inversion H. split; reflexivity.
  - simpl. destruct (mem_N (mid k) seen); [apply IH in H; exact H|].
    destruct (fails_has f n); [discriminate|].
    destruct (put_scan pb st f keys (mid k :: seen) (S n)) as [[b' nw']|] eqn:E; [|discriminate].
    apply IH in E. destruct E as [E1 E2]. simpl.
    destruct (st_has (dkey pb k) st); simpl; inversion H; subst; split; try reflexivity; auto.
Qed.

Definition no_has_fault (f : fault) : Prop := match f with FailHas _ => False | _ => True end.

Lemma put_scan_nofault st f : no_has_fault f -> forall keys seen n,
  exists b nw, put_scan pb st f keys seen n = Some (b, nw).
Proof.
  intros Hf. induction keys as [|k keys IH]; intros seen n; simpl.
  - eexists _, _. reflexivity.
  - destruct (mem_N (mid k) seen); [apply IH|].
    assert (fails_has f n = false) as -> by (destruct f; simpl in *; tauto || reflexivity).
    destruct (IH (mid k :: seen) (S n)) as [b [nw E]]. rewrite E.
    destruct (st_has (dkey pb k) st); eexists _, _; reflexivity.
Qed.

Lemma del_scan_some st f : forall keys seen n b,
  del_scan pb st f keys seen n = Some b ->
  b = map del_op (filter (fun k => st_has (dkey pb k) st) (dedup_mid keys seen)).
Proof.
  induction keys as [|k keys IH]; intros seen n b H; simpl in H.
  - inversion H. reflexivity.
  - simpl. destruct (mem_N (mid k) seen); [apply IH in H; exact H|].
    destruct (fails_has f n); [discriminate|].
    destruct (del_scan pb st f keys (mid k :: seen) (S n)) as [b'|] eqn:E; [|discriminate].
    apply IH in E. simpl. destruct (st_has (dkey pb k) st); simpl; inversion H; subst; reflexivity.
Qed.

Lemma del_scan_nofault st f : no_has_fault f -> forall keys seen n,
  exists b, del_scan pb st f keys seen n = Some b.
Proof.
  intros Hf. induction keys as [|k keys IH]; intros seen n; simpl.
  - eexists. reflexivity.
  - destruct (mem_N (mid k) seen); [apply IH|].
    assert (fails_has f n = false) as -> by (destruct f; simpl in *; tauto || reflexivity).
    destruct (IH (mid k :: seen) (S n)) as [b E]. rewrite E.
    destruct (st_has (dkey pb k) st); eexists; reflexivity.
Qed.

(* ---- applying the batches ----------------------------------------------- *)
Lemma apply_puts_fresh : forall nw st,
  NoDup (map mid nw) -> (forall k, In k nw -> kwf k) ->
  (forall k, In k nw -> st_has (dkey pb k) st = false) ->
  apply_batch st (map put_op nw) = st ++ map row_of nw.
Proof.
  unfold apply_batch.
  induction nw as [|k nw IH]; intros st ND KW HF; simpl; [rewrite app_nil_r; reflexivity|].
  inversion ND as [|? ? N1 N2]; subst.
  rewrite st_put_fresh by (apply HF; left; reflexivity).
  rewrite IH.
  - rewrite <- app_assoc. reflexivity.
  - exact N2.
  - intros; apply KW; right; assumption.
  - intros k' Hk'. apply st_has_false. rewrite map_app, in_app_iff. simpl. intros [H|[H|[]]].
    + assert (st_has (dkey pb k') st = false) by (apply HF; right; exact Hk').
      apply st_has_false in H0. contradiction.
    + apply dkey_inj in H; [|apply KW; left; reflexivity|apply KW; right; exact Hk'].
      subst k'. apply N1. apply in_map_iff. exists k. auto.
Qed.

Lemma filter_filter {A} (f g : A -> bool) l : filter f (filter g l) = filter (fun x => g x && f x) l.
Proof.
  induction l as [|x l IH]; simpl; [reflexivity|].
  destruct (g x); simpl; [destruct (f x); simpl; congruence|exact IH].
Qed.

Lemma apply_dels ks : forall st,
  apply_batch st (map WDel ks) = filter (fun r => negb (existsb (skey_eqb (fst r)) ks)) st.
Proof.
  unfold apply_batch. induction ks as [|k ks IH]; intro st; simpl.
  - induction st as [|r st IHs]; simpl; [reflexivity|]. f_equal. exact IHs.
  - rewrite IH. unfold st_del. rewrite filter_filter. apply filter_ext. intro r.
    rewrite negb_orb. reflexivity.
Qed.

Lemma st_del_length k st : NoDup (map fst st) -> In k (map fst st) -> S (length (st_del k st)) = length st.
Proof.
  unfold st_del. induction st as [|[a v] st IH]; simpl; intros ND H; [destruct H|].
  inversion ND as [|? ? N1 N2]; subst.
  destruct (skey_eqb a k) eqn:E; simpl.
  - apply skey_eqb_eq in E. subst a. f_equal.
    fold (st_del k st). rewrite st_del_absent by exact N1. reflexivity.
  - f_equal. apply IH; [exact N2|]. destruct H as [H|H]; [|exact H]. apply skey_eqb_neq in E. congruence.
Qed.

Lemma apply_dels_length : forall ks st,
  NoDup ks -> NoDup (map fst st) -> (forall k, In k ks -> In k (map fst st)) ->
  length (apply_batch st (map WDel ks)) + length ks = length st.
Proof.
  unfold apply_batch.
  induction ks as [|k ks IH]; intros st N1 N2 H; simpl; [lia|].
  inversion N1 as [|? ? M1 M2]; subst.
  specialize (IH (st_del k st) M2 (st_del_nodup k st N2)).
  rewrite <- (st_del_length k st N2) by (apply H; left; reflexivity).
  rewrite <- IH; [lia|].
  intros k' Hk'. apply in_map_iff. specialize (H k' (or_intror Hk')). apply in_map_iff in H.
  destruct H as [r [E Hr]]. exists r. split; [exact E|]. apply st_del_in. split; [exact Hr|].
  rewrite E. intro; subst. contradiction.
Qed.

Lemma keys_of_filter g st : wfs st ->
  keys_of (filter g st) = filter (fun x => g (row_of x)) (keys_of st).
Proof.
  intros [_ W]. induction st as [|[k v] st IH]; simpl; [reflexivity|].
  assert (IH' := IH (fun r Hr => W r (or_intror Hr))).
  destruct (W (k, v)) as [[n E]|[x [E _]]]; [left; reflexivity| |]; inversion E; subst.
  - destruct (g (KSize, VSize n)); simpl; exact IH'.
  - simpl. unfold row_of at 1. destruct (g (dkey pb x, VKey x)); simpl; rewrite IH'; reflexivity.
Qed.

Lemma fold_batches_concat cs : forall st, fold_left apply_batch cs st = apply_batch st (concat cs).
Proof.
  induction cs as [|c cs IH]; intro st; simpl; [reflexivity|].
  rewrite IH. unfold apply_batch. rewrite fold_left_app. reflexivity.
Qed.

Lemma chunk_aux_concat {A} bs : 1 <= bs -> forall fuel (l : list A), length l <= fuel -> concat (chunk_aux bs l fuel) = l.
Proof.
  intros Hb. induction fuel as [|fuel IH]; intros l H.
  - destruct l; [reflexivity|simpl in H; lia].
  - destruct l as [|x l]; [reflexivity|].
    cbn [chunk_aux concat].
    rewrite IH; [apply firstn_skipn|]. rewrite skipn_length. cbn [length] in *. lia.
Qed.
Lemma chunk_concat {A} bs (l : list A) : concat (chunk bs l) = l.
Proof. unfold chunk. apply chunk_aux_concat; lia. Qed.

Lemma commit_chunks_spec f : forall cs j i j' ok,
  commit_chunks j cs f i = (j', ok) ->
  exists c1 c2, cs = c1 ++ c2 /\ j' = j ++ c1 /\ (ok = true -> c2 = []).
Proof.
  induction cs as [|c cs IH]; intros j i j' ok H; simpl in H.
  - inversion H; subst. exists [], []. repeat split; rewrite ?app_nil_r; reflexivity.
  - destruct (fails_commit f i).
    + inversion H; subst. exists [], (c :: cs). rewrite app_nil_r. split; [reflexivity|]. split; [reflexivity|discriminate].
    + apply IH in H. destruct H as [c1 [c2 [E1 [E2 E3]]]]. exists (c :: c1), c2.
      subst. rewrite <- app_assoc. auto.
Qed.

(* ---- invariants ---------------------------------------------------------- *)
Definition size_ok (st : sstore) : Prop :=
  match st_get KSize st with
  | None => True
  | Some (VSize n) => n = Z.of_nat (length (keys_of st))
  | Some (VKey _) => False
  end.
Definition good_store (st : sstore) : Prop := wfs st /\ size_ok st.
(* every prefix of the journal is a good datastore *)
Definition Pre (j : list batch) : Prop := forall n, good_store (replay (firstn n j)).

Record Inv (s : kst) : Prop := {
  i_pre : Pre (k_j s);
  i_nosize : st_get KSize (cur s) = None;
  i_size : k_size s = Z.of_nat (length (cur s));
  i_sync : k_synced s <= length (k_j s) }.

Lemma good_nosize st : wfs st -> st_get KSize st = None -> good_store st.
Proof. intros W H. split; [exact W|]. unfold size_ok. rewrite H. exact I. Qed.

Lemma Pre_nil : Pre [].
Proof. intro n. rewrite firstn_nil. apply good_nosize; [apply wfs_nil|reflexivity]. Qed.

Lemma Pre_cur j : Pre j -> good_store (replay j).
Proof. intro H. specialize (H (length j)). rewrite firstn_all in H. exact H. Qed.

Lemma Pre_snoc j b : Pre j -> good_store (replay (j ++ [b])) -> Pre (j ++ [b]).
Proof.
  intros H G n. destruct (Nat.le_gt_cases n (length j)) as [L|L].
  - rewrite firstn_app. replace (n - length j) with 0 by lia. simpl. rewrite app_nil_r. apply H.
  - rewrite firstn_all2; [exact G|]. rewrite app_length. simpl. lia.
Qed.

Lemma Pre_jappend j b : Pre j -> good_store (apply_batch (replay j) b) -> Pre (jappend j b).
Proof.
  intros H G. destruct b as [|o b]; [exact H|]. unfold jappend. apply Pre_snoc; [exact H|].
  rewrite replay_snoc. exact G.
Qed.

Lemma Pre_firstn j m : Pre j -> Pre (firstn m j).
Proof. intros H n. rewrite firstn_firstn. apply H. Qed.

Definition all_del (b : batch) : Prop := forall o, In o b -> exists k, o = WDel k.

Lemma all_del_map ks : all_del (map WDel ks).
Proof. intros o H. apply in_map_iff in H. destruct H as [k [<- _]]. eauto. Qed.

Lemma apply_all_del b : all_del b -> forall st, wfs st -> st_get KSize st = None ->
  wfs (apply_batch st b) /\ st_get KSize (apply_batch st b) = None.
Proof.
  unfold apply_batch. induction b as [|o b IH]; intros A st W H; simpl; [auto|].
  destruct (A o (or_introl eq_refl)) as [k ->]. simpl. apply IH.
  - intros o' Ho'. apply A. right. exact Ho'.
  - apply wfs_del. exact W.
  - rewrite st_del_get. destruct (skey_eqb k KSize); [reflexivity|exact H].
Qed.

Lemma Pre_dels : forall cs j, Pre j -> st_get KSize (replay j) = None ->
  (forall c, In c cs -> all_del c) ->
  Pre (j ++ cs) /\ st_get KSize (replay (j ++ cs)) = None.
Proof.
  induction cs as [|c cs IH]; intros j P H A.
  - rewrite app_nil_r. auto.
  - replace (j ++ c :: cs) with ((j ++ [c]) ++ cs) by (rewrite <- app_assoc; reflexivity).
    destruct (apply_all_del c (A c (or_introl eq_refl)) (replay j) (proj1 (Pre_cur j P)) H) as [W1 W2].
    apply IH.
    + apply Pre_snoc; [exact P|]. rewrite replay_snoc. apply good_nosize; assumption.
    + rewrite replay_snoc. exact W2.
    + intros c' Hc'. apply A. right. exact Hc'.
Qed.

Lemma chunk_aux_incl {A} bs : forall fuel (l c : list A), In c (chunk_aux bs l fuel) -> incl c l.
Proof.
  induction fuel as [|fuel IH]; intros l c H; simpl in H; [destruct H|].
  destruct l as [|x l]; [destruct H|]. destruct H as [<-|H].
  - intros y Hy. rewrite <- (firstn_skipn bs (x :: l)). apply in_or_app. left. exact Hy.
  - intros y Hy. apply IH in H. rewrite <- (firstn_skipn bs (x :: l)). apply in_or_app. right. apply H. exact Hy.
Qed.

Lemma chunk_all_del bs ks c : In c (chunk bs (map WDel ks)) -> all_del c.
Proof.
  intros H o Ho. apply chunk_aux_incl in H. apply H in Ho. apply (all_del_map ks). exact Ho.
Qed.

(* ---- loadSize ------------------------------------------------------------ *)
Lemma load_cur j n : cur (load j n) = st_del KSize (replay j).
Proof.
  unfold load, cur. destruct (st_get KSize (replay j)) as [[z|k]|]; simpl; rewrite replay_snoc; reflexivity.
Qed.

Lemma st_del_size_length st : wfs st -> length (st_del KSize st) = length (keys_of st).
Proof.
  intro W. rewrite <- (keys_of_length_nosize (st_del KSize st)).
  - unfold st_del. rewrite keys_of_filter by exact W.
    induction (keys_of st) as [|x l IH]; simpl; [reflexivity|]. f_equal. exact IH.
  - apply wfs_del. exact W.
  - rewrite st_del_get. reflexivity.
Qed.

Lemma load_inv j n : Pre j -> n <= length j -> Inv (load j n).
Proof.
  intros P L.
  assert (G := Pre_cur j P). destruct G as [W S].
  assert (P' : Pre (j ++ [[WDel KSize]])).
  { apply Pre_snoc; [exact P|]. rewrite replay_snoc. simpl. apply good_nosize; [apply wfs_del; exact W|].
    rewrite st_del_get. reflexivity. }
  split.
  - unfold load. destruct (st_get KSize (replay j)) as [[z|k]|]; simpl; exact P'.
  - rewrite load_cur. rewrite st_del_get. reflexivity.
  - rewrite load_cur. rewrite st_del_size_length by exact W.
    unfold load. unfold size_ok in S. destruct (st_get KSize (replay j)) as [[z|k]|] eqn:E; simpl.
    + exact S.
    + destruct S.
    + unfold refresh_size. rewrite replay_snoc. simpl. rewrite st_del_size_length by exact W. reflexivity.
  - unfold load. destruct (st_get KSize (replay j)) as [[z|k]|]; simpl; rewrite app_length; simpl; lia.
Qed.

Lemma ks_new_inv : Inv ks_new.
Proof. apply load_inv; [apply Pre_nil|simpl; lia]. Qed.

Lemma crash_inv s back : Inv s -> Inv (ks_crash s back).
Proof. intro I. unfold ks_crash. apply load_inv; [apply Pre_firstn; apply (i_pre s I)|lia]. Qed.

Lemma restart_cur s : Inv s -> cur (ks_restart s) = cur s.
Proof.
  intro I. unfold ks_restart. rewrite load_cur, replay_snoc. simpl. fold (cur s).
  rewrite st_put_fresh by (unfold st_has; rewrite (i_nosize s I); reflexivity).
  unfold st_del. rewrite filter_app. simpl. rewrite app_nil_r.
  fold (st_del KSize (cur s)). apply st_del_absent. apply st_get_none. apply (i_nosize s I).
Qed.

Lemma restart_inv s : Inv s -> Inv (ks_restart s).
Proof.
  intro I. unfold ks_restart. apply load_inv; [|lia].
  apply Pre_snoc; [apply (i_pre s I)|]. rewrite replay_snoc. simpl. fold (cur s).
  assert (G := Pre_cur _ (i_pre s I)). destruct G as [W _]. fold (cur s) in W.
  assert (F : st_has KSize (cur s) = false) by (unfold st_has; rewrite (i_nosize s I); reflexivity).
  rewrite st_put_fresh by exact F. split.
  - apply wfs_snoc; [exact W|left; eauto|apply st_has_false; exact F].
  - unfold size_ok. rewrite (st_get_in KSize (VSize (k_size s))).
    + rewrite keys_of_app. simpl. rewrite app_nil_r. rewrite (i_size s I).
      rewrite keys_of_length_nosize; [reflexivity|exact W|apply (i_nosize s I)].
    + rewrite map_app. simpl. apply NoDup_snoc; [apply W|apply st_has_false; exact F].
    + apply in_or_app. right. left. reflexivity.
Qed.

(* ---- Put ----------------------------------------------------------------- *)
Definition keys_ok (ks : list mhk) : Prop := forall k, In k ks -> kwf k.

Lemma NoDup_map_filter {A B} (g : A -> B) (f : A -> bool) l : NoDup (map g l) -> NoDup (map g (filter f l)).
Proof.
  induction l as [|x l IH]; simpl; intro H; [constructor|].
  inversion H as [|? ? N1 N2]; subst. destruct (f x); simpl; [|apply IH; exact N2].
  constructor; [|apply IH; exact N2]. intro H1. apply N1. apply in_map_iff in H1.
  destruct H1 as [y [E Hy]]. apply filter_In in Hy. apply in_map_iff. exists y. tauto.
Qed.

Lemma wfs_puts : forall nw st, wfs st ->
  NoDup (map mid nw) -> (forall k, In k nw -> kwf k) ->
  (forall k, In k nw -> st_has (dkey pb k) st = false) ->
  wfs (st ++ map row_of nw).
Proof.
  induction nw as [|k nw IH]; intros st W ND KW HF; simpl; [rewrite app_nil_r; exact W|].
  inversion ND as [|? ? N1 N2]; subst.
  replace (st ++ row_of k :: map row_of nw) with ((st ++ [row_of k]) ++ map row_of nw)
    by (rewrite <- app_assoc; reflexivity).
  apply IH.
  - apply wfs_snoc; [exact W| |].
    + right. exists k. split; [reflexivity|apply KW; left; reflexivity].
    + apply st_has_false. apply HF. left. reflexivity.
  - exact N2.
  - intros; apply KW; right; assumption.
  - intros k' Hk'. apply st_has_false. rewrite map_app, in_app_iff. simpl. intros [H|[H|[]]].
    + assert (H0 : st_has (dkey pb k') st = false) by (apply HF; right; exact Hk').
      apply st_has_false in H0. contradiction.
    + apply dkey_inj in H; [|apply KW; left; reflexivity|apply KW; right; exact Hk'].
      subst k'. apply N1. apply in_map_iff. exists k. auto.
Qed.

Lemma keys_of_rows nw : keys_of (map row_of nw) = nw.
Proof. induction nw as [|k nw IH]; simpl; [reflexivity|]. f_equal. exact IH. Qed.

Lemma st_get_size_rows st nw : st_get KSize st = None -> st_get KSize (st ++ map row_of nw) = None.
Proof.
  intro H. apply st_get_none. apply st_get_none in H. rewrite map_app, in_app_iff. intros [H1|H1]; [contradiction|].
  apply in_map_iff in H1. destruct H1 as [r [E Hr]]. apply in_map_iff in Hr. destruct Hr as [k [<- _]]. discriminate.
Qed.

Lemma inv_wfs s : Inv s -> wfs (cur s).
Proof. intro I. apply (Pre_cur _ (i_pre s I)). Qed.

Lemma refresh_inv s : Inv s -> Inv (with_size s (refresh_size (cur s))).
Proof. intro I. destruct I as [P N S Y]. split; simpl; auto. Qed.

Lemma length_jappend j b : length j <= length (jappend j b).
Proof. destruct b; simpl; [lia|]. rewrite app_length. simpl. lia. Qed.

Lemma sync_if_le ok (j : list batch) old : old <= length j -> forall j' : list batch, length j <= length j' -> sync_if ok j' old <= length j'.
Proof. intros H j' H'. unfold sync_if. destruct ok; lia. Qed.

Definition new_of (s : kst) (ks : list mhk) : list mhk :=
  filter (fun k => negb (has_mid (mid k) (stored s))) (dedup_mid ks []).

Lemma put_scan_new s ks f n b nw : Inv s -> (forall k, In k ks -> kwf k) ->
  put_scan pb (cur s) f ks [] n = Some (b, nw) -> nw = new_of s ks /\ b = map put_op nw.
Proof.
  intros I KW H. apply put_scan_some in H. destruct H as [H1 H2]. split; [|exact H2].
  rewrite H1. unfold new_of. apply filter_ext_in. intros k Hk. apply dedup_mid_incl in Hk.
  rewrite (st_has_dkey (cur s) k (inv_wfs s I) (KW k (proj1 Hk))). reflexivity.
Qed.

Lemma new_of_fresh s ks k : Inv s -> (forall k, In k ks -> kwf k) -> In k (new_of s ks) -> st_has (dkey pb k) (cur s) = false.
Proof.
  intros I KW H. unfold new_of in H. apply filter_In in H. destruct H as [Hk H]. apply dedup_mid_incl in Hk.
  rewrite (st_has_dkey (cur s) k (inv_wfs s I) (KW k (proj1 Hk))). apply negb_true_iff. exact H.
Qed.

Lemma put_commit_inv s ks sy : Inv s -> keys_ok ks ->
  let nw := new_of s ks in
  let j := jappend (k_j s) (map put_op nw) in
  let s' := {| k_j := j; k_synced := sync_if sy j (k_synced s); k_size := k_size s + Z.of_nat (length nw) |} in
  Inv s' /\ cur s' = cur s ++ map row_of nw.
Proof.
  intros I KW nw j s'.
  assert (W := inv_wfs s I).
  assert (NDn : NoDup (map mid nw)) by (apply NoDup_map_filter; apply dedup_mid_nodup).
  assert (KWn : forall k, In k nw -> kwf k).
  { intros k Hk. apply KW. apply filter_In in Hk. destruct Hk as [Hk _]. apply dedup_mid_incl in Hk. tauto. }
  assert (HF : forall k, In k nw -> st_has (dkey pb k) (cur s) = false) by (intros k Hk; apply (new_of_fresh s ks k I KW Hk)).
  assert (C : cur s' = cur s ++ map row_of nw).
  { unfold cur at 1. simpl. subst j. rewrite replay_jappend. apply apply_puts_fresh; assumption. }
  split; [|exact C]. split.
  - simpl. subst j. apply Pre_jappend; [apply (i_pre s I)|].
    fold (cur s). rewrite apply_puts_fresh by assumption.
    apply good_nosize; [apply wfs_puts; assumption|apply st_get_size_rows; apply (i_nosize s I)].
  - rewrite C. apply st_get_size_rows. apply (i_nosize s I).
  - rewrite C. simpl. rewrite app_length, map_length, (i_size s I). lia.
  - simpl. apply (sync_if_le sy (k_j s)); [apply (i_sync s I)|apply length_jappend].
Qed.

Lemma put_inv s ks f : Inv s -> keys_ok ks -> Inv (fst (ks_put pb s ks f)).
Proof.
  intros I K. unfold ks_put. destruct ks as [|k0 ks']; [exact I|].
  set (ks := k0 :: ks') in *.
  destruct (put_scan pb (cur s) f ks [] 0) as [[b nw]|] eqn:E; [|apply refresh_inv; exact I].
  destruct (fails_commit f 0); [apply refresh_inv; exact I|].
  apply (put_scan_new s ks f 0 b nw I K) in E. destruct E as [-> ->]. simpl.
  apply (put_commit_inv s ks (negb (fails_sync f)) I K).
Qed.

(* Put returns exactly the keys not already stored, and stores them *)
Lemma put_spec s ks f : Inv s -> keys_ok ks -> (f = NoFault \/ f = FailSync) ->
  exists s', ks_put pb s ks f = (s', Some (new_of s ks)) /\ stored s' = stored s ++ new_of s ks /\ Inv s'.
Proof.
  intros I K F. unfold ks_put. destruct ks as [|k0 ks']; [exists s; unfold new_of; simpl; rewrite app_nil_r; auto|].
  set (ks := k0 :: ks') in *.
  destruct (put_scan_nofault (cur s) f) with (keys := ks) (seen := @nil N) (n := 0) as [b [nw E]];
    [destruct F as [-> | ->]; exact Logic.I|].
  rewrite E. apply (put_scan_new s ks f 0 b nw I K) in E. destruct E as [-> ->].
  assert (fails_commit f 0 = false) as -> by (destruct F as [-> | ->]; reflexivity).
  destruct (put_commit_inv s ks (negb (fails_sync f)) I K) as [I' C].
  eexists. split; [reflexivity|]. split; [|exact I'].
  unfold stored. rewrite C, keys_of_app, keys_of_rows. reflexivity.
Qed.

(* ---- Delete -------------------------------------------------------------- *)
Definition present_of (s : kst) (ks : list mhk) : list mhk :=
  filter (fun k => st_has (dkey pb k) (cur s)) (dedup_mid ks []).

Lemma del_ops_map ds : map del_op ds = map WDel (map (dkey pb) ds).
Proof. rewrite map_map. reflexivity. Qed.

Lemma NoDup_dkeys ds : NoDup (map mid ds) -> (forall k, In k ds -> kwf k) -> NoDup (map (dkey pb) ds).
Proof.
  induction ds as [|k ds IH]; simpl; intros ND KW; [constructor|].
  inversion ND as [|? ? N1 N2]; subst. constructor; [|apply IH; auto].
  intro H. apply in_map_iff in H. destruct H as [k' [E Hk']]. apply dkey_inj in E; auto.
  subst k'. apply N1. apply in_map_iff. exists k. auto.
Qed.

Lemma del_commit_inv s ks sy : Inv s -> keys_ok ks ->
  let ds := present_of s ks in
  let j := jappend (k_j s) (map del_op ds) in
  let s' := {| k_j := j; k_synced := sync_if sy j (k_synced s); k_size := k_size s - Z.of_nat (length (map del_op ds)) |} in
  Inv s' /\ cur s' = apply_batch (cur s) (map del_op ds).
Proof.
  intros I KW ds j s'.
  assert (W := inv_wfs s I).
  assert (C : cur s' = apply_batch (cur s) (map del_op ds)).
  { unfold cur at 1. simpl. subst j. apply replay_jappend. }
  assert (A : all_del (map del_op ds)) by (rewrite del_ops_map; apply all_del_map).
  destruct (apply_all_del _ A (cur s) W (i_nosize s I)) as [W1 W2].
  split; [|exact C]. split.
  - simpl. subst j. apply Pre_jappend; [apply (i_pre s I)|]. apply good_nosize; assumption.
  - rewrite C. exact W2.
  - rewrite C. simpl. rewrite (i_size s I).
    assert (L := apply_dels_length (map (dkey pb) ds) (cur s)).
    rewrite <- del_ops_map in L. rewrite !map_length in *.
    rewrite <- L; [lia| |apply W|].
    + apply NoDup_dkeys; [apply NoDup_map_filter; apply dedup_mid_nodup|].
      intros k Hk. apply KW. apply filter_In in Hk. destruct Hk as [Hk _]. apply dedup_mid_incl in Hk. tauto.
    + intros k Hk. apply in_map_iff in Hk. destruct Hk as [x [<- Hx]].
      apply filter_In in Hx. apply st_has_true. tauto.
  - simpl. apply (sync_if_le sy (k_j s)); [apply (i_sync s I)|apply length_jappend].
Qed.

Lemma del_scan_present s ks f n b :
  del_scan pb (cur s) f ks [] n = Some b -> b = map del_op (present_of s ks).
Proof. apply del_scan_some. Qed.

Lemma delete_inv s ks f : Inv s -> keys_ok ks -> Inv (fst (ks_delete pb s ks f)).
Proof.
  intros I K. unfold ks_delete. destruct ks as [|k0 ks']; [exact I|].
  set (ks := k0 :: ks') in *.
  destruct (del_scan pb (cur s) f ks [] 0) as [b|] eqn:E; [|apply refresh_inv; exact I].
  destruct (fails_commit f 0); [apply refresh_inv; exact I|].
  apply del_scan_present in E. subst b. simpl.
  apply (del_commit_inv s ks (negb (fails_sync f)) I K).
Qed.

Lemma delete_spec s ks f : Inv s -> keys_ok ks -> (f = NoFault \/ f = FailSync) ->
  exists s', ks_delete pb s ks f = (s', true) /\
    stored s' = filter (fun x => negb (has_mid (mid x) ks)) (stored s) /\ Inv s'.
Proof.
  intros I K F. unfold ks_delete. destruct ks as [|k0 ks'].
  { exists s. split; [reflexivity|]. split; [|exact I]. simpl.
    induction (stored s) as [|x l IH]; simpl; [reflexivity|]. f_equal. exact IH. }
  set (ks := k0 :: ks') in *.
  destruct (del_scan_nofault (cur s) f) with (keys := ks) (seen := @nil N) (n := 0) as [b E];
    [destruct F as [-> | ->]; exact Logic.I|].
  rewrite E. apply del_scan_present in E. subst b.
  assert (fails_commit f 0 = false) as -> by (destruct F as [-> | ->]; reflexivity).
  destruct (del_commit_inv s ks (negb (fails_sync f)) I K) as [I' C].
  eexists. split; [reflexivity|]. split; [|exact I'].
  unfold stored. rewrite C, del_ops_map, apply_dels, keys_of_filter by (apply inv_wfs; exact I).
  apply filter_ext_in. intros x Hx. f_equal. change (fst (row_of x)) with (dkey pb x).
  assert (Kx : kwf x) by (eapply keys_of_wf; [apply (inv_wfs s I)|exact Hx]).
  destruct (has_mid (mid x) ks) eqn:H.
  - apply has_mid_true in H. destruct H as [k0' [Hk0 E0]].
    destruct (dedup_mid_has ks [] k0' Hk0 (fun X => X)) as [k [Hk E1]].
    assert (k = x) by (apply kwf_same_id; auto; [apply K; apply dedup_mid_incl in Hk; tauto|congruence]). subst k.
    apply existsb_exists. exists (dkey pb x). split; [|apply skey_eqb_refl].
    apply in_map_iff. exists x. split; [reflexivity|]. apply filter_In. split; [exact Hk|].
    apply st_has_true. apply keys_of_in_wfs in Hx; [|apply (inv_wfs s I)].
    apply in_map_iff. exists (dkey pb x, VKey x). auto.
  - destruct (existsb (skey_eqb (dkey pb x)) (map (dkey pb) (present_of s ks))) eqn:E; [|reflexivity].
    apply existsb_exists in E. destruct E as [dk [H1 H2]]. apply skey_eqb_eq in H2. subst dk.
    apply in_map_iff in H1. destruct H1 as [k [E Hk]]. apply filter_In in Hk. destruct Hk as [Hk _].
    apply dedup_mid_incl in Hk. destruct Hk as [Hk _].
    apply dkey_inj in E; [|apply K; exact Hk|exact Kx]. subst k.
    assert (has_mid (mid x) ks = true); [|congruence]. apply has_mid_true. exists x. auto.
Qed.

(* ---- Empty --------------------------------------------------------------- *)
Lemma filter_none {A} (f : A -> bool) l : (forall x, In x l -> f x = false) -> filter f l = [].
Proof.
  induction l as [|x l IH]; simpl; intro H; [reflexivity|]. rewrite (H x) by auto. apply IH. auto.
Qed.

Lemma empty_inv bs s f : Inv s -> Inv (fst (ks_empty bs s f)).
Proof.
  intro I. unfold ks_empty.
  set (dels := map (fun r : skey * sval => WDel (fst r)) (cur s)).
  assert (D : dels = map WDel (map fst (cur s))) by (unfold dels; rewrite map_map; reflexivity).
  destruct (commit_chunks (k_j s) (chunk bs dels) f 0) as [j ok] eqn:E.
  apply commit_chunks_spec in E. destruct E as [c1 [c2 [E1 [E2 E3]]]].
  assert (A : forall c, In c c1 -> all_del c).
  { intros c Hc. apply (chunk_all_del bs (map fst (cur s))). rewrite <- D, E1. apply in_or_app. auto. }
  destruct (Pre_dels c1 (k_j s) (i_pre s I) (i_nosize s I) A) as [P N]. rewrite <- E2 in *.
  destruct ok; simpl.
  - assert (R : replay j = []).
    { rewrite E2, replay_app, fold_batches_concat. rewrite (E3 eq_refl), app_nil_r in E1.
      rewrite <- E1, chunk_concat, D, apply_dels. apply filter_none. intros r Hr.
      apply negb_false_iff. apply existsb_exists. exists (fst r). split; [apply in_map; exact Hr|apply skey_eqb_refl]. }
    split; simpl; try assumption.
    + unfold cur. simpl. rewrite R. reflexivity.
    + apply (sync_if_le _ (k_j s)); [apply (i_sync s I)|]. rewrite E2, app_length. lia.
  - split; simpl; try assumption; [reflexivity|]. rewrite E2, app_length. pose proof (i_sync s I). lia.
Qed.

Lemma empty_spec bs s f : Inv s -> (f = NoFault \/ f = FailSync \/ exists i, f = FailHas i) ->
  exists s', ks_empty bs s f = (s', true) /\ stored s' = [] /\ Inv s'.
Proof.
  intros I F. assert (I' := empty_inv bs s f I). revert I'. unfold ks_empty.
  set (dels := map (fun r : skey * sval => WDel (fst r)) (cur s)).
  assert (D : dels = map WDel (map fst (cur s))) by (unfold dels; rewrite map_map; reflexivity).
  destruct (commit_chunks (k_j s) (chunk bs dels) f 0) as [j ok] eqn:E.
  assert (ok = true).
  { assert (NF : forall i, fails_commit f i = false) by (intro i; destruct F as [->|[->|[? ->]]]; reflexivity).
    clear -E NF. revert E. generalize (k_j s) 0. induction (chunk bs dels) as [|c cs IH]; intros j0 i E; simpl in E.
    - inversion E. reflexivity.
    - rewrite NF in E. eapply IH. exact E. }
  subst ok. simpl. intro I'. eexists. split; [reflexivity|]. split; [|exact I'].
  apply commit_chunks_spec in E. destruct E as [c1 [c2 [E1 [E2 E3]]]].
  unfold stored, cur. simpl.
  rewrite E2, replay_app, fold_batches_concat. rewrite (E3 eq_refl), app_nil_r in E1.
  rewrite <- E1, chunk_concat, D, apply_dels. fold (cur s). rewrite filter_none; [reflexivity|].
  intros r Hr. apply negb_false_iff. apply existsb_exists. exists (fst r). split; [apply in_map; exact Hr|apply skey_eqb_refl].
Qed.

(* ---- histories ----------------------------------------------------------- *)
Definition kop_ok (o : kop) : Prop :=
  match o with KPut ks _ | KDel ks _ => keys_ok ks | _ => True end.

Lemma kstep_inv bs s o : Inv s -> kop_ok o -> Inv (kstep pb bs s o).
Proof.
  intros I K. destruct o; simpl.
  - apply put_inv; assumption.
  - apply delete_inv; assumption.
  - apply empty_inv; assumption.
  - apply restart_inv; assumption.
  - apply crash_inv; assumption.
Qed.

Lemma krun_inv bs ops : forall s, Inv s -> Forall kop_ok ops -> Inv (krun pb bs s ops).
Proof.
  induction ops as [|o ops IH]; intros s I F; simpl; [exact I|].
  inversion F; subst. apply IH; [apply kstep_inv; assumption|assumption].
Qed.

Lemma inv_size_card s : Inv s -> k_size s = Z.of_nat (length (stored s)).
Proof.
  intro I. rewrite (i_size s I). unfold stored.
  rewrite keys_of_length_nosize; [reflexivity|apply inv_wfs; exact I|apply (i_nosize s I)].
Qed.

Lemma inv_stored_nodup s : Inv s -> NoDup (map mid (stored s)).
Proof. intro I. apply keys_of_nodup. apply inv_wfs. exact I. Qed.

(* ---- queries ------------------------------------------------------------- *)
Lemma inv_rows s : Inv s -> cur s = map row_of (stored s).
Proof.
  intro I. assert (W := inv_wfs s I). assert (N := i_nosize s I). unfold stored.
  apply st_get_none in N. destruct W as [_ W].
  induction (cur s) as [|[k v] st IH]; simpl; [reflexivity|].
  destruct (W (k, v)) as [[n E]|[x [E _]]]; [left; reflexivity| |]; inversion E; subst.
  - exfalso. apply N. simpl. auto.
  - simpl. f_equal. apply IH; [intros r Hr; apply W; right; exact Hr|]. intro H. apply N. simpl. auto.
Qed.

Lemma query_rows q l :
  query q (map row_of l) = map row_of (filter (fun k => is_prefix q (firstn pb (mbits k))) l).
Proof.
  unfold query. induction l as [|k l IH]; simpl; [reflexivity|].
  unfold row_under at 1. simpl. destruct (is_prefix q (firstn pb (mbits k))); simpl; rewrite IH; reflexivity.
Qed.

Definition post (long : bool) (p : bits) (k : mhk) : bool := if long then is_prefix p (mbits k) else true.

Lemma get_rows_rows long p l :
  get_rows long p (map row_of l) = Some (map VKey (filter (post long p) l)).
Proof.
  induction l as [|k l IH]; simpl; [reflexivity|]. unfold post at 1. destruct long; simpl.
  - destruct (is_prefix p (mbits k)); simpl; rewrite IH; reflexivity.
  - rewrite IH. reflexivity.
Qed.

Lemma matching_eq p l :
  filter (post (long_prefix pb p) p) (filter (fun k => is_prefix (qpath pb p) (firstn pb (mbits k))) l)
  = filter (under p) l.
Proof.
  rewrite filter_filter. apply filter_ext. intro k. unfold post, under. apply path_filter_exact.
Qed.

(* Get returns exactly the stored keys under the prefix *)
Lemma get_spec s p : Inv s -> ks_get pb s p = Some (map VKey (filter (under p) (stored s))).
Proof.
  intro I. unfold ks_get. rewrite (inv_rows s I), query_rows, get_rows_rows, matching_eq. reflexivity.
Qed.

Lemma count_rows_rows long p limit : forall l n,
  ((0 <? limit)%Z = true -> (n < limit)%Z) ->
  count_rows long p limit n (map row_of l) =
  Some (if (0 <? limit)%Z then Z.min limit (n + Z.of_nat (length (filter (post long p) l)))
        else (n + Z.of_nat (length (filter (post long p) l)))%Z).
Proof.
  induction l as [|k l IH]; intros n H; simpl.
  - destruct (0 <? limit)%Z eqn:E; f_equal; [specialize (H eq_refl)|]; lia.
  - assert (C : (if (0 <? limit)%Z && (limit <=? n + 1)%Z then Some (n + 1)%Z
                 else count_rows long p limit (n + 1) (map row_of l)) =
               Some (if (0 <? limit)%Z then Z.min limit (n + Z.of_nat (S (length (filter (post long p) l))))
                     else (n + Z.of_nat (S (length (filter (post long p) l))))%Z)).
    { destruct (0 <? limit)%Z eqn:E; cbn [andb].
      - specialize (H eq_refl). destruct (limit <=? n + 1)%Z eqn:E2.
        + f_equal. lia.
        + rewrite IH by (intros _; lia). f_equal. lia.
      - rewrite IH by (intro; discriminate). f_equal. lia. }
    unfold post at 1 3. destruct long; simpl.
    + destruct (is_prefix p (mbits k)); simpl; [exact C|apply IH; exact H].
    + exact C.
Qed.

Lemma count_spec s p limit : Inv s ->
  ks_count pb s p limit =
  Some (let m := Z.of_nat (length (filter (under p) (stored s))) in
        if (0 <? limit)%Z then Z.min limit m else m).
Proof.
  intro I. unfold ks_count. rewrite (inv_rows s I), query_rows.
  set (l1 := filter (fun k => is_prefix (qpath pb p) (firstn pb (mbits k))) (stored s)).
  assert (M := matching_eq p (stored s)). fold l1 in M. rewrite <- M. clear M.
  destruct (long_prefix pb p) eqn:L; simpl.
  - rewrite andb_false_r. rewrite count_rows_rows by (intro; lia). reflexivity.
  - rewrite andb_true_r. destruct (0 <? limit)%Z eqn:E.
    + rewrite firstn_map. rewrite count_rows_rows by (intro; lia). rewrite E. f_equal.
      assert (F : forall l : list mhk, filter (post false p) l = l).
      { intro l. induction l as [|x l IHl]; simpl; [reflexivity|]. f_equal. exact IHl. }
      rewrite !F. rewrite firstn_length. lia.
    + rewrite count_rows_rows by (rewrite E; intro; discriminate). rewrite E. reflexivity.
Qed.

Definition nonempty {A} (l : list A) : bool := match l with [] => false | _ => true end.

Lemma existsb_filter {A} (f : A -> bool) l : existsb f l = nonempty (filter f l).
Proof. induction l as [|x l IH]; simpl; [reflexivity|]. destruct (f x); simpl; [reflexivity|exact IH]. Qed.

Lemma contains_rows_rows p l : contains_rows true p (map row_of l) = Some (nonempty (filter (post true p) l)).
Proof.
  induction l as [|k l IH]; simpl; [reflexivity|]. destruct (is_prefix p (mbits k)); simpl; [reflexivity|exact IH].
Qed.

(* ContainsPrefix answers whether some stored key is under the prefix *)
Lemma contains_spec s p : Inv s -> ks_contains pb s p = Some (existsb (under p) (stored s)).
Proof.
  intro I. unfold ks_contains. rewrite (inv_rows s I), query_rows.
  set (l1 := filter (fun k => is_prefix (qpath pb p) (firstn pb (mbits k))) (stored s)).
  rewrite existsb_filter. assert (M := matching_eq p (stored s)). fold l1 in M. rewrite <- M. clear M.
  destruct (long_prefix pb p) eqn:L.
  - apply contains_rows_rows.
  - assert (F : forall l : list mhk, filter (post false p) l = l).
    { intro l. induction l as [|x l IHl]; simpl; [reflexivity|]. f_equal. exact IHl. }
    rewrite F. destruct l1; reflexivity.
Qed.

(* ---- durability ---------------------------------------------------------- *)
Definition meta_only (b : batch) : Prop :=
  forall o, In o b -> o = WDel KSize \/ exists z, o = WPut KSize (VSize z).
(* what is not yet synced only concerns the size key *)
Definition Dur (s : kst) : Prop := forall b, In b (skipn (k_synced s) (k_j s)) -> meta_only b.

Lemma keys_of_del_size st : wfs st -> keys_of (st_del KSize st) = keys_of st.
Proof.
  intro W. unfold st_del. rewrite keys_of_filter by exact W.
  induction (keys_of st) as [|x l IH]; simpl; [reflexivity|]. f_equal. exact IH.
Qed.

Lemma keys_of_put_size st z : wfs st -> keys_of (st_put KSize (VSize z) st) = keys_of st.
Proof.
  intros [_ W]. unfold st_put. destruct (st_has KSize st).
  - induction st as [|[k v] st IH]; simpl; [reflexivity|].
    assert (IH' := IH (fun r Hr => W r (or_intror Hr))).
    destruct (W (k, v)) as [[n E]|[x [E _]]]; [left; reflexivity| |]; inversion E; subst; simpl.
    + exact IH'.
    + f_equal. exact IH'.
  - rewrite keys_of_app. simpl. apply app_nil_r.
Qed.

Lemma wfs_put_size st z : wfs st -> wfs (st_put KSize (VSize z) st).
Proof.
  intro W. unfold st_put. destruct (st_has KSize st) eqn:E.
  - destruct W as [W1 W2]. split.
    + rewrite map_map. erewrite map_ext_in; [rewrite <- (map_id (map fst st)) in W1; rewrite map_map in W1; exact W1|].
      intros [k v] _. simpl. destruct (skey_eqb k KSize) eqn:E1; [apply skey_eqb_eq in E1; subst; reflexivity|reflexivity].
    + intros r Hr. apply in_map_iff in Hr. destruct Hr as [[k v] [E1 Hr]]. simpl in E1.
      destruct (skey_eqb k KSize); [subst r; left; eauto|subst r; apply W2; exact Hr].
  - apply wfs_snoc; [exact W|left; eauto|apply st_has_false; exact E].
Qed.

Lemma meta_only_keys b : meta_only b -> forall st, wfs st ->
  wfs (apply_batch st b) /\ keys_of (apply_batch st b) = keys_of st.
Proof.
  unfold apply_batch. induction b as [|o b IH]; intros M st W; simpl; [auto|].
  assert (M' : meta_only b) by (intros o' Ho'; apply M; right; exact Ho').
  destruct (M o (or_introl eq_refl)) as [->|[z ->]]; simpl.
  - destruct (IH M' (st_del KSize st) (wfs_del KSize st W)) as [H1 H2]. split; [exact H1|].
    rewrite H2. apply keys_of_del_size. exact W.
  - destruct (IH M' _ (wfs_put_size st z W)) as [H1 H2]. split; [exact H1|].
    rewrite H2. apply keys_of_put_size. exact W.
Qed.

Lemma Pre_app_l j j' : Pre (j ++ j') -> Pre j.
Proof.
  intros P n. destruct (Nat.le_gt_cases n (length j)) as [L|L].
  - specialize (P n). rewrite firstn_app in P. replace (n - length j) with 0 in P by lia.
    simpl in P. rewrite app_nil_r in P. exact P.
  - specialize (P (length j)). rewrite firstn_app, Nat.sub_diag in P. simpl in P.
    rewrite app_nil_r, firstn_all in P. rewrite firstn_all2 by lia. exact P.
Qed.

Lemma meta_suffix_keys : forall l j0, Pre (j0 ++ l) -> (forall b, In b l -> meta_only b) ->
  keys_of (replay (j0 ++ l)) = keys_of (replay j0).
Proof.
  induction l as [|b l IH] using rev_ind; intros j0 P M; [rewrite app_nil_r; reflexivity|].
  rewrite app_assoc, replay_snoc.
  assert (P' : Pre (j0 ++ l)) by (apply (Pre_app_l _ [b]); rewrite <- app_assoc; exact P).
  assert (Mb : meta_only b) by (apply M; apply in_or_app; right; left; reflexivity).
  destruct (meta_only_keys b Mb (replay (j0 ++ l)) (proj1 (Pre_cur _ P'))) as [_ E].
  rewrite E. apply IH; [exact P'|]. intros b' Hb'. apply M. apply in_or_app. left. exact Hb'.
Qed.

Lemma skipn_in_le {A} (x : A) : forall n m l, n <= m -> In x (skipn m l) -> In x (skipn n l).
Proof.
  induction n as [|n IH]; intros m l L H.
  - simpl. clear L. revert l H. induction m as [|m IHm]; intros l H; [exact H|].
    destruct l as [|a l]; [destruct H|]. right. apply IHm. exact H.
  - destruct m as [|m]; [lia|]. destruct l as [|a l]; [destruct H|]. simpl in *. apply (IH m); [lia|exact H].
Qed.

(* a crash that loses only unsynced writes keeps the stored set *)
Lemma crash_keeps s back : Inv s -> Dur s -> back <= length (k_j s) - k_synced s ->
  stored (ks_crash s back) = stored s.
Proof.
  intros I D B. unfold stored, ks_crash. rewrite load_cur.
  set (m := length (k_j s) - back).
  assert (P := i_pre s I).
  rewrite keys_of_del_size by (apply (Pre_cur _ (Pre_firstn _ m P))).
  unfold cur. rewrite <- (firstn_skipn m (k_j s)) at 2.
  symmetry. apply meta_suffix_keys.
  - rewrite firstn_skipn. exact P.
  - intros b Hb. apply D. pose proof (i_sync s I).
    apply (skipn_in_le b (k_synced s) m); [unfold m; lia|exact Hb].
Qed.

Definition kop_nofault (o : kop) : Prop :=
  match o with KPut _ f | KDel _ f | KEmpty f => f = NoFault | _ => True end.

Lemma load_dur j : Dur (load j (length j)).
Proof.
  unfold Dur, load. intros b. destruct (st_get KSize (replay j)) as [[z|k]|]; simpl;
    rewrite skipn_app, skipn_all, Nat.sub_diag; simpl; intros [<-|[]]; intros o [<-|[]]; auto.
Qed.

Lemma dur_synced j z : Dur {| k_j := j; k_synced := length j; k_size := z |}.
Proof. unfold Dur. simpl. rewrite skipn_all. intros b []. Qed.

Lemma kstep_dur bs s o : Inv s -> Dur s -> kop_ok o -> kop_nofault o -> Dur (kstep pb bs s o).
Proof.
  intros I D K F. destruct o as [ks f|ks f|f| |back]; simpl in *; subst.
  - destruct (put_spec s ks NoFault I K (or_introl eq_refl)) as [s' [E _]].
    unfold ks_put in *. destruct ks as [|k0 ks']; [exact D|].
    destruct (put_scan pb (cur s) NoFault (k0 :: ks') [] 0) as [[b nw]|]; [|discriminate].
    simpl in *. apply dur_synced.
  - destruct (delete_spec s ks NoFault I K (or_introl eq_refl)) as [s' [E _]].
    unfold ks_delete in *. destruct ks as [|k0 ks']; [exact D|].
    destruct (del_scan pb (cur s) NoFault (k0 :: ks') [] 0) as [b|]; [|discriminate].
    simpl in *. apply dur_synced.
  - destruct (empty_spec bs s NoFault I (or_introl eq_refl)) as [s' [E _]].
    unfold ks_empty in *. destruct (commit_chunks (k_j s) _ NoFault 0) as [j ok]. destruct ok; [|discriminate].
    simpl. apply dur_synced.
  - unfold ks_restart. apply load_dur.
  - unfold ks_crash. apply load_dur.
Qed.

Lemma krun_inv_dur bs ops : forall s, Inv s -> Dur s -> Forall kop_ok ops -> Forall kop_nofault ops ->
  Inv (krun pb bs s ops) /\ Dur (krun pb bs s ops).
Proof.
  induction ops as [|o ops IH]; intros s I D F1 F2; simpl; [auto|].
  inversion F1; inversion F2; subst. apply IH; try assumption.
  - apply kstep_inv; assumption.
  - apply kstep_dur; assumption.
Qed.

Lemma ks_new_dur : Dur ks_new.
Proof. apply (load_dur []). Qed.
End WithBits.
