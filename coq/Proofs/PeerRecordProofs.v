(* Lemmas about the peer-record arithmetic (Model/PeerRecord.v). *)
From Coq Require Import Lia ZifyBool ZifyNat ZifyN.
From Verif.Lib Require Import GoSem Bits.
From Verif.Gen Require Import Consts.
From Verif.Model Require Import PeerRecord.
Local Open Scope Z_scope.

(* ---- protowire --------------------------------------------------------- *)
Lemma len64_nonneg v : 0 <= len64 v.
Proof.
  unfold len64. destruct (v <=? 0) eqn:E; [lia|].
  pose proof (Z.log2_nonneg v). lia.
Qed.

Lemma len64_le v n : 0 <= n -> v < 2 ^ n -> len64 v <= n.
Proof.
  intros Hn Hv. unfold len64. destruct (v <=? 0) eqn:E; [lia|].
  assert (0 < v) by lia.
  assert (Z.log2 v < n) by (apply Z.log2_lt_pow2; lia). lia.
Qed.

Lemma size_varint_pos v : 1 <= size_varint v.
Proof.
  unfold size_varint. pose proof (len64_nonneg v).
  apply Z.div_le_lower_bound; lia.
Qed.

Lemma size_varint_le v n : 0 <= n -> v < 2 ^ n -> size_varint v <= (9 * n + 64) / 64.
Proof.
  intros Hn Hv. unfold size_varint. pose proof (len64_le v n Hn Hv).
  apply Z.div_le_mono; lia.
Qed.

Lemma size_tag_small num : 0 <= num < 16 -> size_tag num = 1.
Proof.
  intros H. unfold size_tag. pose proof (size_varint_pos (num * 8)).
  assert (size_varint (num * 8) <= (9 * 7 + 64) / 64) by (apply size_varint_le; [lia|]; change (2 ^ 7) with 128; lia).
  change ((9 * 7 + 64) / 64) with 1 in *. lia.
Qed.

Lemma size_tag_pos num : 1 <= size_tag num.
Proof. apply size_varint_pos. Qed.

Lemma u64_of_i32_range c : - 2 ^ 31 <= c < 2 ^ 31 -> 0 <= u64_of_i32 c < 2 ^ 64.
Proof. unfold u64_of_i32. destruct (c <? 0) eqn:E; lia. Qed.

Lemma size_varint_u64 c : - 2 ^ 31 <= c < 2 ^ 31 -> size_varint (u64_of_i32 c) <= 10.
Proof.
  intro H. pose proof (u64_of_i32_range c H).
  assert (size_varint (u64_of_i32 c) <= (9 * 64 + 64) / 64) by (apply size_varint_le; lia).
  change ((9 * 64 + 64) / 64) with 10 in *. lia.
Qed.

Lemma size_bytes_ge n : 0 <= n -> n + 1 <= size_bytes n.
Proof. intro H. unfold size_bytes. pose proof (size_varint_pos n). lia. Qed.

Lemma addr_cost_ge a : 0 <= a_len a -> 2 <= addr_cost a.
Proof.
  intro H. unfold addr_cost. pose proof (size_tag_pos peerAddrsField).
  pose proof (size_bytes_ge (a_len a) H). lia.
Qed.

Lemma addrs_cost_nil : addrs_cost [] = 0.
Proof. reflexivity. Qed.
Lemma addrs_cost_cons a l : addrs_cost (a :: l) = addr_cost a + addrs_cost l.
Proof. reflexivity. Qed.

Lemma addrs_cost_nonneg l : Forall (fun a => 0 <= a_len a) l -> 0 <= addrs_cost l.
Proof.
  induction 1 as [|a l Ha _ IH]; [rewrite addrs_cost_nil; lia|].
  rewrite addrs_cost_cons. pose proof (addr_cost_ge a Ha). lia.
Qed.

Lemma addrs_cost_app l1 l2 : addrs_cost (l1 ++ l2) = addrs_cost l1 + addrs_cost l2.
Proof.
  induction l1 as [|a l1 IH]; [rewrite addrs_cost_nil; reflexivity|].
  cbn [app]. rewrite !addrs_cost_cons, IH. lia.
Qed.

Lemma conn_field_size_bounds c : - 2 ^ 31 <= c < 2 ^ 31 -> 2 <= conn_field_size c <= 11.
Proof.
  intro H. unfold conn_field_size.
  rewrite (size_tag_small peerConnectionField) by (unfold peerConnectionField; lia).
  pose proof (size_varint_u64 c H). pose proof (size_varint_pos (u64_of_i32 c)). lia.
Qed.

(* A peer id of at most 8178 bytes always fits, whatever the connection value:
   1 (tag) + 2 (length varint) + 8178 + 11 = 8192.  Every real peer id is at
   most 42 bytes (identity multihash of an Ed25519 key) and at most 64 in the
   hypotheses of C09. *)
Lemma base_size_fits id c :
  0 <= b_len id <= 8178 -> - 2 ^ 31 <= c < 2 ^ 31 -> base_size id c <= MaxPeerRecordSize.
Proof.
  intros Hid Hc. unfold base_size.
  rewrite (size_tag_small peerIDField) by (unfold peerIDField; lia).
  pose proof (conn_field_size_bounds c Hc).
  assert (size_varint (b_len id) <= (9 * 14 + 64) / 64)
    by (apply size_varint_le; [lia|]; change (2 ^ 14) with 16384; lia).
  change ((9 * 14 + 64) / 64) with 2 in *.
  unfold size_bytes, MaxPeerRecordSize. lia.
Qed.

Lemma base_size_small id c :
  0 <= b_len id <= 64 -> 0 <= c <= 1 -> base_size id c <= 68.
Proof.
  intros Hid Hc. unfold base_size, conn_field_size.
  rewrite (size_tag_small peerIDField) by (unfold peerIDField; lia).
  rewrite (size_tag_small peerConnectionField) by (unfold peerConnectionField; lia).
  assert (size_varint (b_len id) <= (9 * 7 + 64) / 64)
    by (apply size_varint_le; [lia|]; change (2 ^ 7) with 128; lia).
  assert (size_varint (u64_of_i32 c) <= (9 * 7 + 64) / 64)
    by (apply size_varint_le; [lia|]; unfold u64_of_i32; destruct (c <? 0) eqn:E; change (2 ^ 7) with 128; lia).
  change ((9 * 7 + 64) / 64) with 1 in *.
  unfold size_bytes. lia.
Qed.

Lemma base_size_pos id c : 0 <= b_len id -> 4 <= base_size id c.
Proof.
  intro H. unfold base_size, conn_field_size.
  pose proof (size_tag_pos peerIDField). pose proof (size_tag_pos peerConnectionField).
  pose proof (size_bytes_ge (b_len id) H). pose proof (size_varint_pos (u64_of_i32 c)). lia.
Qed.

(* ---- the truncation loop ----------------------------------------------- *)
(* the kept addresses are a prefix; if any is kept the counted size is within
   the limit; the first dropped address is the one that overflowed it *)
Lemma take_fitting_spec s l :
  exists rest, l = take_fitting s l ++ rest /\
    (take_fitting s l <> [] -> s + addrs_cost (take_fitting s l) <= MaxPeerRecordSize) /\
    (s <= MaxPeerRecordSize -> s + addrs_cost (take_fitting s l) <= MaxPeerRecordSize) /\
    match rest with
    | [] => True
    | a :: _ => s + addrs_cost (take_fitting s l) + addr_cost a > MaxPeerRecordSize
    end.
Proof.
  revert s; induction l as [|a l IH]; intro s; cbn [take_fitting].
  - exists []. rewrite addrs_cost_nil. cbn [app]. repeat split; try lia. congruence.
  - destruct (s + addr_cost a >? MaxPeerRecordSize) eqn:E.
    + exists (a :: l). rewrite addrs_cost_nil. cbn [app]. repeat split; try lia. congruence.
    + destruct (IH (s + addr_cost a)) as (rest & Hl & Hfit & Hfit2 & Hmax).
      exists rest. rewrite addrs_cost_cons. cbn [app].
      split; [f_equal; exact Hl|].
      assert (s + addr_cost a <= MaxPeerRecordSize) by lia.
      specialize (Hfit2 H).
      repeat split; try lia.
      destruct rest; [exact I|lia].
Qed.

Lemma take_fitting_prefix s l : exists rest, l = take_fitting s l ++ rest.
Proof. destruct (take_fitting_spec s l) as (r & H & _). eauto. Qed.

Lemma take_fitting_incl s l a : In a (take_fitting s l) -> In a l.
Proof.
  destruct (take_fitting_prefix s l) as (r & H). intro Hin. rewrite H. apply in_or_app; auto.
Qed.

(* "a record already within the limit is left untouched" *)
Lemma take_fitting_all s l :
  Forall (fun a => 0 <= a_len a) l -> s + addrs_cost l <= MaxPeerRecordSize -> take_fitting s l = l.
Proof.
  revert s; induction l as [|a l IH]; intros s Hnn Hle; cbn [take_fitting]; [reflexivity|].
  inversion Hnn as [|? ? Ha Hl]; subst.
  rewrite addrs_cost_cons in Hle.
  pose proof (addrs_cost_nonneg l Hl).
  destruct (s + addr_cost a >? MaxPeerRecordSize) eqn:E; [lia|].
  f_equal. apply IH; [assumption|lia].
Qed.

Lemma take_fitting_nonneg s l :
  Forall (fun a => 0 <= a_len a) l -> Forall (fun a => 0 <= a_len a) (take_fitting s l).
Proof.
  intro H. apply Forall_forall. intros a Ha. apply take_fitting_incl in Ha.
  rewrite Forall_forall in H. auto.
Qed.

Definition peer_wf (p : apeer) : Prop :=
  0 <= b_len (p_id p) /\ Forall (fun a => 0 <= a_len a) (p_addrs p).

Lemma bound_addrs_untouched p :
  peer_wf p -> accounted_size p <= MaxPeerRecordSize -> bound_addrs p = p.
Proof.
  intros [_ Hnn] H. destruct p as [id ads c]. unfold bound_addrs, accounted_size in *. cbn [p_id p_addrs p_conn] in *.
  f_equal. apply take_fitting_all; assumption.
Qed.

(* the bounded record: either within the limit, or stripped of every address
   (the id and the connection flag alone exceed it) *)
Lemma bound_addrs_size p :
  accounted_size (bound_addrs p) <= MaxPeerRecordSize \/ p_addrs (bound_addrs p) = [].
Proof.
  unfold accounted_size, bound_addrs. cbn [p_id p_addrs p_conn].
  destruct (take_fitting_spec (base_size (p_id p) (p_conn p)) (p_addrs p)) as (r & _ & Hfit & _).
  destruct (take_fitting (base_size (p_id p) (p_conn p)) (p_addrs p)) eqn:E; [right; reflexivity|].
  left. apply Hfit. congruence.
Qed.

Lemma bound_addrs_size_guarded p :
  base_size (p_id p) (p_conn p) <= MaxPeerRecordSize ->
  accounted_size (bound_addrs p) <= MaxPeerRecordSize.
Proof.
  intro H. unfold accounted_size, bound_addrs. cbn [p_id p_addrs p_conn].
  destruct (take_fitting_spec (base_size (p_id p) (p_conn p)) (p_addrs p)) as (r & _ & _ & Hfit & _).
  auto.
Qed.

Lemma bound_addrs_idem p : peer_wf p -> bound_addrs (bound_addrs p) = bound_addrs p.
Proof.
  intros [Hid Hnn].
  destruct (bound_addrs_size p) as [H|H].
  - apply bound_addrs_untouched; [|exact H].
    split; [exact Hid|]. unfold bound_addrs; cbn [p_addrs]. apply take_fitting_nonneg. exact Hnn.
  - unfold bound_addrs in *. cbn [p_id p_addrs p_conn] in *. rewrite H. reflexivity.
Qed.

(* the literal "every record is cut to 8 KiB" fails for an id larger than the limit *)
Lemma bound_addrs_huge_id :
  exists p, accounted_size (bound_addrs p) > MaxPeerRecordSize /\ p_addrs (bound_addrs p) = [].
Proof.
  exists {| p_id := {| b_tag := 1%N; b_len := 9000 |};
            p_addrs := [{| a_tag := 2%N; a_len := 8; a_ok := true |}]; p_conn := 0 |}.
  split; vm_compute; reflexivity.
Qed.

(* what boundPeerRecordAddrs counts is at least what proto.Size reports *)
Lemma proto_size_le_accounted p :
  0 <= b_len (p_id p) -> proto_size_peer p <= accounted_size p.
Proof.
  intro Hid. unfold proto_size_peer, accounted_size, base_size.
  pose proof (size_tag_pos peerIDField). pose proof (size_bytes_ge (b_len (p_id p)) Hid).
  assert (0 <= conn_field_size (p_conn p)).
  { unfold conn_field_size. pose proof (size_tag_pos peerConnectionField).
    pose proof (size_varint_pos (u64_of_i32 (p_conn p))). lia. }
  destruct (b_len (p_id p) =? 0); destruct (p_conn p =? 0); lia.
Qed.

Lemma bound_addrs_le_8k p :
  (0 <= b_len (p_id p) <= 8178 -> - 2 ^ 31 <= p_conn p < 2 ^ 31 ->
     accounted_size (bound_addrs p) <= MaxPeerRecordSize) /\
  (accounted_size (bound_addrs p) <= MaxPeerRecordSize \/ p_addrs (bound_addrs p) = []) /\
  (0 <= b_len (p_id p) -> proto_size_peer (bound_addrs p) <= accounted_size (bound_addrs p)).
Proof.
  split; [|split].
  - intros Hid Hc. exact (bound_addrs_size_guarded p (base_size_fits _ _ Hid Hc)).
  - exact (bound_addrs_size p).
  - intro Hid. exact (proto_size_le_accounted (bound_addrs p) Hid).
Qed.

(* ---- ingress ----------------------------------------------------------- *)
Definition info_of (p : apeer) : ainfo :=
  {| ai_id := p_id p; ai_addrs := addresses (bound_addrs p) |}.

Lemma all_some_map {A} (l : list (option A)) :
  all_some l = true -> exists l', l = map Some l'.
Proof.
  unfold all_some. induction l as [|[a|] l IH]; cbn; intro H; try discriminate.
  - exists []. reflexivity.
  - destruct (IH H) as (l' & ->). exists (a :: l'). reflexivity.
Qed.

Lemma pb_peers_to_infos_wire l : pb_peers_to_infos (map Some l) = Ok (map info_of l).
Proof.
  induction l as [|p l IH]; cbn [map pb_peers_to_infos]; [reflexivity|].
  unfold pb_peer_to_info. cbn [option_map deref bind]. rewrite IH. reflexivity.
Qed.

(* a nil entry (which only a hand-made message can contain) is a panic *)
Lemma pb_peers_to_infos_nil_entry l :
  all_some l = false -> exists w, pb_peers_to_infos l = Panic w.
Proof.
  unfold all_some. induction l as [|[p|] l IH]; cbn [forallb is_some andb]; intro H; try discriminate.
  - destruct (IH H) as (w & Hw). exists w. cbn [pb_peers_to_infos].
    unfold pb_peer_to_info. cbn [option_map deref bind]. rewrite Hw. reflexivity.
  - eexists. cbn [pb_peers_to_infos]. unfold pb_peer_to_info. cbn [option_map deref bind]. reflexivity.
Qed.

(* the sanitized form of one received peer record *)
Definition sanitized (p : apeer) (i : ainfo) : Prop :=
  ai_id i = p_id p /\
  exists kept rest,
    p_addrs p = kept ++ rest /\
    ai_addrs i = filter a_ok kept /\
    (kept = [] \/ base_size (p_id p) (p_conn p) + addrs_cost kept <= MaxPeerRecordSize) /\
    (base_size (p_id p) (p_conn p) <= MaxPeerRecordSize ->
       base_size (p_id p) (p_conn p) + addrs_cost kept <= MaxPeerRecordSize) /\
    match rest with
    | [] => True
    | a :: _ => base_size (p_id p) (p_conn p) + addrs_cost kept + addr_cost a > MaxPeerRecordSize
    end.

Lemma info_of_sanitized p : sanitized p (info_of p).
Proof.
  split; [reflexivity|].
  destruct (take_fitting_spec (base_size (p_id p) (p_conn p)) (p_addrs p)) as (r & Hl & Hfit & Hfit2 & Hmax).
  exists (take_fitting (base_size (p_id p) (p_conn p)) (p_addrs p)), r.
  split; [exact Hl|]. split; [reflexivity|]. split; [|split; assumption].
  destruct (take_fitting (base_size (p_id p) (p_conn p)) (p_addrs p)) eqn:E; [left; reflexivity|].
  right. apply Hfit. congruence.
Qed.

Lemma sanitized_decodable p i : sanitized p i -> Forall (fun a => a_ok a = true) (ai_addrs i).
Proof.
  intros (_ & kept & rest & _ & -> & _). apply Forall_forall. intros a Ha.
  apply filter_In in Ha. tauto.
Qed.

Lemma sanitized_from_record p i : sanitized p i -> forall a, In a (ai_addrs i) -> In a (p_addrs p).
Proof.
  intros (_ & kept & rest & Hl & -> & _) a Ha. apply filter_In in Ha as [Ha _].
  rewrite Hl. apply in_or_app; auto.
Qed.

(* ---- egress ------------------------------------------------------------ *)
(* every record built by PeerInfoToPBPeer serializes within MaxPeerRecordSize as
   soon as the id alone does (id length <= 8178 bytes) *)
Lemma egress_record_bounded connected i :
  0 <= b_len (ai_id i) <= 8178 ->
  proto_size_peer (peer_info_to_pb_conn connected i) <= MaxPeerRecordSize.
Proof.
  intro Hid.
  set (q := {| p_id := ai_id i; p_addrs := ai_addrs i; p_conn := 0 |}).
  assert (Hb : accounted_size (bound_addrs q) <= MaxPeerRecordSize).
  { apply bound_addrs_size_guarded. apply base_size_fits; cbn; lia. }
  unfold peer_info_to_pb_conn, peer_info_to_pb. fold q.
  unfold proto_size_peer, accounted_size in *. subst q. cbn [p_id p_addrs p_conn bound_addrs] in *.
  unfold base_size in Hb at 1.
  pose proof (size_tag_pos peerIDField).
  assert (b_len (ai_id i) + 1 <= size_bytes (b_len (ai_id i))) by (apply size_bytes_ge; lia).
  assert (Hc0 : conn_field_size 0 = 2) by reflexivity.
  assert (Hc1 : conn_field_size 1 = 2) by reflexivity.
  destruct connected; destruct (b_len (ai_id i) =? 0); cbn [Z.eqb]; lia.
Qed.
