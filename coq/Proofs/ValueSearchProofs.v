(* Lemmas about Model/ValueSearch.v: processValues as a fold over ANY arrival
   list, record acceptance, the local phase of both clients, the dual merge,
   GetPublicKey. *)
From Verif.Lib Require Import GoSem Bits.
From Verif.Model Require Import ValueSearch.
From Coq Require Import Lia ZifyBool ZifyNat ZifyN Sorted.
Local Open Scope N_scope.

Section Search.
Variable valid : vkey -> val -> bool.
Variable sel : vkey -> val -> val -> option nat.
Variable k : vkey.

Notation accept := (accept valid k).
Notation remote_arrivals := (remote_arrivals valid k).
Notation local_std := (local_std valid k).
Notation pv_step := (pv_step sel k).
Notation process_values := (process_values sel k).
Notation search_std := (search_std valid sel k).
Notation search_fullrt := (search_fullrt valid sel k).
Notation merge_step := (merge_step sel k).
Notation merge := (merge sel k).

(* ---- record acceptance -------------------------------------------------------- *)
Lemma accept_value r v : accept r = RpcValue v -> r = RespRec k (Some v) /\ valid k v = true.
Proof.
  destruct r as [| |rk ov]; simpl; try discriminate.
  destruct (N.eqb rk k) eqn:E; [|discriminate]. apply N.eqb_eq in E. subst rk.
  destruct ov as [w|]; [|discriminate]. destruct (valid k w) eqn:V; [|discriminate].
  intro H. inversion H; subst. auto.
Qed.

(* a record for another key is an error of the RPC, never a value *)
Lemma accept_miskeyed rk ov : rk <> k -> accept (RespRec rk ov) = RpcError.
Proof. intro NE. simpl. destruct (N.eqb rk k) eqn:E; [apply N.eqb_eq in E; contradiction|reflexivity]. Qed.

Lemma remote_arrivals_In resps p v :
  In (p, v) (remote_arrivals resps) -> In (p, RespRec k (Some v)) resps /\ valid k v = true.
Proof.
  induction resps as [|[q r] resps IH]; simpl; [intros []|].
  destruct (accept r) as [| |w] eqn:A; intro H.
  - destruct (IH H). auto.
  - destruct (IH H). auto.
  - destruct H as [H|H].
    + inversion H; subst. apply accept_value in A. destruct A as [-> V]. auto.
    + destruct (IH H). auto.
Qed.

Lemma remote_arrivals_complete resps p v :
  In (p, RespRec k (Some v)) resps -> valid k v = true -> In (p, v) (remote_arrivals resps).
Proof.
  induction resps as [|[q r] resps IH]; simpl; [intros []|]. intros [H|H] V.
  - inversion H; subst. simpl. rewrite N.eqb_refl, V. left. reflexivity.
  - destruct (accept r); [apply IH; auto|apply IH; auto|right; apply IH; auto].
Qed.

Lemma local_std_In self local p v : In (p, v) (local_std self local) -> local = Some v /\ valid k v = true.
Proof.
  unfold ValueSearch.local_std. destruct local as [w|]; [|intros []].
  destruct (valid k w) eqn:V; [|intros []]. intros [H|[]]. inversion H; subst. auto.
Qed.

(* ---- one step of processValues -------------------------------------------------- *)
(* newest-first list of emitted values: each one was selected over the previous *)
Fixpoint chain (out : list val) : Prop :=
  match out with
  | [] => True
  | v' :: rest =>
      match rest with
      | [] => True
      | v :: _ => v <> v' /\ sel k v v' = Some 1%nat
      end /\ chain rest
  end.

Definition best_is_head (st : pv) : Prop := pv_best st = hd_error (pv_out st).

Inductive step_kind (st : pv) (v : val) (st' : pv) : Prop :=
| sk_ignored : st' = st -> pv_aborted st = true -> step_kind st v st'
| sk_dropped b : st' = st -> pv_best st = Some b -> b <> v -> sel k b v = None -> step_kind st v st'
| sk_kept b : pv_best st' = Some b -> pv_best st = Some b -> pv_out st' = pv_out st ->
    (b = v \/ exists i, sel k b v = Some i /\ i <> 1%nat) -> step_kind st v st'
| sk_new : pv_best st' = Some v -> pv_out st' = v :: pv_out st ->
    (pv_best st = None \/ exists b, pv_best st = Some b /\ b <> v /\ sel k b v = Some 1%nat) ->
    step_kind st v st'.

Lemma pv_step_kind nvals st p v : step_kind st v (pv_step nvals st (p, v)).
Proof.
  unfold ValueSearch.pv_step. destruct (pv_aborted st) eqn:A; [apply sk_ignored; auto|].
  destruct (pv_best st) as [b|] eqn:B.
  - destruct (N.eqb b v) eqn:E.
    + apply N.eqb_eq in E. eapply sk_kept; simpl; eauto.
    + apply N.eqb_neq in E. destruct (sel k b v) as [i|] eqn:S.
      * destruct (Nat.eqb i 1) eqn:I.
        -- apply Nat.eqb_eq in I. subst i. apply sk_new; simpl; auto. right. exists b. auto.
        -- apply Nat.eqb_neq in I. eapply sk_kept; simpl; eauto.
      * eapply sk_dropped; eauto.
  - apply sk_new; simpl; auto.
Qed.

Lemma step_best_head nvals st a : best_is_head st -> chain (pv_out st) ->
  best_is_head (pv_step nvals st a) /\ chain (pv_out (pv_step nvals st a)).
Proof.
  intros BH C. destruct a as [p v].
  destruct (pv_step_kind nvals st p v) as [E _|b E _ _ _|b B' B O _|B' O W].
  - rewrite E. auto.
  - rewrite E. auto.
  - unfold best_is_head in *. rewrite B', O, <- BH, B. auto.
  - unfold best_is_head in *. rewrite B', O. split; [reflexivity|]. simpl. split; [|exact C].
    destruct (pv_out st) as [|w rest] eqn:Eo; [exact I|].
    simpl in BH. destruct W as [W|(b & W & NE & S)]; [congruence|].
    rewrite W in BH. inversion BH; subst. auto.
Qed.

Lemma fold_best_head nvals l : forall st, best_is_head st -> chain (pv_out st) ->
  best_is_head (fold_left (pv_step nvals) l st) /\ chain (pv_out (fold_left (pv_step nvals) l st)).
Proof.
  induction l as [|a l IH]; intros st BH C; simpl; [auto|].
  destruct (step_best_head nvals st a BH C). apply IH; auto.
Qed.

Lemma fold_out_subset nvals l : forall st v,
  In v (pv_out (fold_left (pv_step nvals) l st)) -> In v (pv_out st) \/ In v (map snd l).
Proof.
  induction l as [|[p w] l IH]; intros st v H; simpl in *; [auto|].
  apply IH in H. destruct H as [H|H]; [|auto].
  destruct (pv_step_kind nvals st p w) as [E _|b E _ _ _|b _ _ O _|_ O _].
  - rewrite E in H. auto.
  - rewrite E in H. auto.
  - rewrite O in H. auto.
  - rewrite O in H. destruct H as [H|H]; auto.
Qed.

(* the arrivals actually consumed: everything up to the quorum abort *)
Fixpoint consumed (nvals : nat) (st : pv) (l : list (peer * val)) : list (peer * val) :=
  match l with
  | [] => []
  | a :: rest => if pv_aborted st then [] else a :: consumed nvals (pv_step nvals st a) rest
  end.

(* [ge b x]: b is ranked at least as good as x *)
Definition ge (b x : val) : Prop := b = x \/ sel k b x = Some 0%nat.

Section Laws.
(* Select is a total preorder on valid values, compatible with equality *)
Hypothesis sel_total : forall a b, valid k a = true -> valid k b = true ->
  sel k a b = Some 0%nat \/ sel k a b = Some 1%nat.
Hypothesis sel_trans : forall a b c, valid k a = true -> valid k b = true -> valid k c = true ->
  sel k a b = Some 1%nat -> ge a c -> ge b c.

Definition best_ge (st : pv) (x : val) : Prop := exists b, pv_best st = Some b /\ ge b x.
Definition best_valid (st : pv) : Prop := forall b, pv_best st = Some b -> valid k b = true.

Lemma step_final nvals st p v (X : val -> Prop) :
  pv_aborted st = false -> best_valid st -> valid k v = true ->
  (forall x, X x -> valid k x = true) ->
  (forall x, X x -> best_ge st x) ->
  best_valid (pv_step nvals st (p, v)) /\
  (forall x, X x \/ x = v -> best_ge (pv_step nvals st (p, v)) x).
Proof.
  intros NA BV V XV XG.
  destruct (pv_step_kind nvals st p v) as [E A|b E B NE S|b B' B O W|B' O W].
  - congruence.
  - exfalso. destruct (sel_total b v (BV _ B) V); congruence.
  - split.
    + intros b' Hb. rewrite B' in Hb. inversion Hb; subst. apply BV. exact B.
    + intros x [Hx| ->].
      * destruct (XG x Hx) as (b0 & B0 & G). exists b. split; [exact B'|]. congruence.
      * exists b. split; [exact B'|]. destruct W as [->|(i & S & NI)]; [left; reflexivity|].
        right. destruct (sel_total b v (BV _ B) V) as [T|T]; [exact T|congruence].
  - split.
    + intros b' Hb. rewrite B' in Hb. inversion Hb; subst. exact V.
    + intros x [Hx| ->].
      * destruct (XG x Hx) as (b0 & B0 & G). exists v. split; [exact B'|].
        destruct W as [W|(b & W & NE & S)]; [congruence|].
        rewrite W in B0. inversion B0; subst b0.
        apply (sel_trans b v x); auto.
      * exists v. split; [exact B'|left; reflexivity].
Qed.

Lemma fold_final nvals l : forall st (X : val -> Prop),
  best_valid st -> (forall a, In a l -> valid k (snd a) = true) ->
  (forall x, X x -> valid k x = true) -> (forall x, X x -> best_ge st x) ->
  forall x, X x \/ In x (map snd (consumed nvals st l)) -> best_ge (fold_left (pv_step nvals) l st) x.
Proof.
  induction l as [|[p v] l IH]; intros st X BV LV XV XG x Hx; simpl in *.
  - destruct Hx as [Hx|[]]. apply XG. exact Hx.
  - destruct (pv_aborted st) eqn:A.
    + (* aborted: every later step is the identity *)
      assert (Hid: forall l' st', pv_aborted st' = true -> fold_left (pv_step nvals) l' st' = st').
      { induction l' as [|a' l' IH']; intros st' A'; simpl; [reflexivity|].
        unfold ValueSearch.pv_step at 2. rewrite A'. apply IH'. exact A'. }
      unfold ValueSearch.pv_step at 2. rewrite A. rewrite Hid by exact A.
      destruct Hx as [Hx|[]]. apply XG. exact Hx.
    + assert (V: valid k v = true) by (apply (LV (p, v)); left; reflexivity).
      destruct (step_final nvals st p v X A BV V XV XG) as [BV' XG'].
      apply (IH (pv_step nvals st (p, v)) (fun y => X y \/ y = v)); auto.
      * intros y [Hy| ->]; auto.
      * simpl in Hx. destruct Hx as [Hx|[Hx|Hx]]; [left; left; exact Hx|left; right; symmetry; exact Hx|right; exact Hx].
Qed.
End Laws.

(* ---- the searches ------------------------------------------------------------------- *)
Lemma chain_init : best_is_head pv_init /\ chain (pv_out pv_init).
Proof. split; [reflexivity|exact I]. Qed.

Lemma std_arrivals_valid self local resps a :
  In a (local_std self local ++ remote_arrivals resps) -> valid k (snd a) = true.
Proof.
  destruct a as [p v]. intro H. apply in_app_iff in H. destruct H as [H|H].
  - apply local_std_In in H. apply H.
  - apply remote_arrivals_In in H. apply H.
Qed.

(* 1. every value a standard search emits is valid, and was supplied by the
   local store or by a responder's record for this key *)
Lemma search_std_valid self local resps nvals v :
  In v (search_std self local resps nvals) ->
  valid k v = true /\ (local = Some v \/ exists p, In (p, RespRec k (Some v)) resps).
Proof.
  unfold ValueSearch.search_std, ValueSearch.process_values. intro H. apply in_rev in H.
  apply fold_out_subset in H. destruct H as [[]|H].
  apply in_map_iff in H. destruct H as [[p w] [E H]]. simpl in E. subst w.
  apply in_app_iff in H. destruct H as [H|H].
  - apply local_std_In in H. destruct H. auto.
  - apply remote_arrivals_In in H. destruct H. split; [assumption|]. right. exists p. assumption.
Qed.

(* oldest-first reading of [chain] *)
Fixpoint improving (l : list val) : Prop :=
  match l with
  | [] => True
  | v :: rest =>
      match rest with
      | [] => True
      | v' :: _ => v <> v' /\ sel k v v' = Some 1%nat
      end /\ improving rest
  end.

Lemma improving_snoc l v w : improving (l ++ [v]) -> v <> w -> sel k v w = Some 1%nat -> improving ((l ++ [v]) ++ [w]).
Proof.
  induction l as [|x l IH]; simpl; intros H NE S.
  - auto.
  - destruct H as [H1 H2]. split; [|apply IH; auto].
    destruct (l ++ [v]) as [|y r] eqn:E; [destruct l; discriminate|]. simpl. exact H1.
Qed.

Lemma chain_improving out : chain out -> improving (rev out).
Proof.
  induction out as [|v' rest IH]; simpl; [auto|]. intros [H C].
  destruct rest as [|v r]; [simpl; auto|].
  destruct H as [NE S]. specialize (IH C). simpl in *. apply improving_snoc; auto.
Qed.

(* 2. the stream is strictly improving: each value differs from the previous one
   and Select ranks it above the previous one *)
Lemma search_improving arrivals nvals : improving (rev (pv_out (process_values nvals arrivals))).
Proof.
  apply chain_improving. unfold ValueSearch.process_values.
  destruct chain_init as [BH C]. apply (fold_best_head nvals arrivals pv_init BH C).
Qed.

Lemma get_value_last stream v : get_value stream = Some v <-> exists l, stream = l ++ [v].
Proof.
  unfold get_value. split.
  - induction stream as [|x s IH]; simpl; [discriminate|].
    destruct s as [|y s']; simpl in *.
    + intro H. inversion H; subst. exists []. reflexivity.
    + intro H. destruct (IH H) as [l E]. exists (x :: l). rewrite E. reflexivity.
  - intros [l ->]. induction l as [|x l IH]; simpl; [reflexivity|].
    destruct (l ++ [v]) eqn:E; [destruct l; discriminate|]. simpl in *. exact IH.
Qed.

Lemma get_value_none stream : get_value stream = None <-> stream = [].
Proof.
  unfold get_value. split.
  - induction stream as [|x s IH]; simpl; [reflexivity|].
    destruct s as [|y s']; simpl in *; [discriminate|]. intro H. apply IH in H. discriminate.
  - intros ->. reflexivity.
Qed.

Lemma best_is_last arrivals nvals :
  get_value (rev (pv_out (process_values nvals arrivals))) = pv_best (process_values nvals arrivals).
Proof.
  unfold ValueSearch.process_values. destruct chain_init as [BH C].
  destruct (fold_best_head nvals arrivals pv_init BH C) as [BH' _].
  unfold best_is_head in BH'. rewrite BH'.
  destruct (pv_out (fold_left (pv_step nvals) arrivals pv_init)) as [|v r]; simpl; [reflexivity|].
  apply get_value_last. exists (rev r). reflexivity.
Qed.

(* 3. under the laws, the final value is at least as good as every valid value
   consumed before the search ended *)
Lemma search_final_best
  (sel_total : forall a b, valid k a = true -> valid k b = true -> sel k a b = Some 0%nat \/ sel k a b = Some 1%nat)
  (sel_trans : forall a b c, valid k a = true -> valid k b = true -> valid k c = true ->
     sel k a b = Some 1%nat -> ge a c -> ge b c)
  arrivals nvals x :
  (forall a, In a arrivals -> valid k (snd a) = true) ->
  In x (map snd (consumed nvals pv_init arrivals)) ->
  exists f, get_value (rev (pv_out (process_values nvals arrivals))) = Some f /\ ge f x.
Proof.
  intros AV Hx. rewrite best_is_last. unfold ValueSearch.process_values.
  apply (fold_final sel_total sel_trans nvals arrivals pv_init (fun _ => False)).
  - intros b Hb. discriminate.
  - exact AV.
  - intros y [].
  - intros y [].
  - right. exact Hx.
Qed.

(* 4. nothing valid supplied: nothing emitted, GetValue = ErrNotFound *)
Lemma search_std_not_found self local resps nvals :
  (forall v, local = Some v -> valid k v = false) ->
  (forall p v, In (p, RespRec k (Some v)) resps -> valid k v = false) ->
  search_std self local resps nvals = [] /\ get_value (search_std self local resps nvals) = None.
Proof.
  intros HL HR.
  assert (E: local_std self local ++ remote_arrivals resps = []).
  { destruct (local_std self local ++ remote_arrivals resps) as [|[p v] l] eqn:E; [reflexivity|].
    exfalso. assert (In (p, v) (local_std self local ++ remote_arrivals resps)) by (rewrite E; left; reflexivity).
    apply in_app_iff in H. destruct H as [H|H].
    - apply local_std_In in H. destruct H as [H V]. rewrite (HL _ H) in V. discriminate.
    - apply remote_arrivals_In in H. destruct H as [H V]. rewrite (HR _ _ H) in V. discriminate. }
  unfold ValueSearch.search_std. rewrite E. simpl. split; reflexivity.
Qed.

(* the accelerated client validates its local record like the standard one *)
Lemma search_fullrt_eq_std self local resps nvals :
  search_fullrt self local resps nvals = search_std self local resps nvals.
Proof. reflexivity. Qed.

(* ---- dual merge ------------------------------------------------------------------------ *)
Definition m_best_head (st : option val * list val) : Prop := fst st = hd_error (snd st).

Lemma merge_step_cases st v :
  merge_step st v = st \/
  (merge_step st v = (Some v, v :: snd st) /\
   (fst st = None \/ exists b, fst st = Some b /\ b <> v /\ sel k b v = Some 1%nat)).
Proof.
  destruct st as [[b|] out]; simpl.
  - destruct (sel k b v) as [i|] eqn:S; [|left; reflexivity].
    destruct (Nat.eqb i 1) eqn:I; [|left; reflexivity].
    apply Nat.eqb_eq in I. subst i.
    destruct (N.eqb b v) eqn:E; [left; reflexivity|]. apply N.eqb_neq in E.
    right. split; [reflexivity|]. right. exists b. auto.
  - right. split; [reflexivity|]. left. reflexivity.
Qed.

Lemma merge_fold_inv l : forall st, m_best_head st -> chain (snd st) ->
  m_best_head (fold_left merge_step l st) /\ chain (snd (fold_left merge_step l st)) /\
  (forall v, In v (snd (fold_left merge_step l st)) -> In v (snd st) \/ In v l).
Proof.
  induction l as [|v l IH]; intros st BH C; simpl; [auto|].
  destruct (merge_step_cases st v) as [E|[E W]]; rewrite E.
  - destruct (IH st BH C) as (A & B & D). repeat split; auto. intros w Hw. destruct (D w Hw); auto.
  - assert (BH': m_best_head (Some v, v :: snd st)) by reflexivity.
    assert (C': chain (snd (Some v, v :: snd st))).
    { simpl. split; [|exact C]. destruct st as [b out]. simpl in *. unfold m_best_head in BH. simpl in BH.
      destruct out as [|w r]; [exact I|]. subst b. simpl in W.
      destruct W as [W|(b & W & NE & S)]; [discriminate|]. inversion W; subst. auto. }
    destruct (IH _ BH' C') as (A & B & D). repeat split; auto.
    intros w Hw. destruct (D w Hw) as [H|H]; [|auto]. simpl in H. destruct H as [H|H]; auto.
Qed.

Lemma merge_improving l : improving (merge l).
Proof.
  unfold ValueSearch.merge. apply chain_improving.
  apply (merge_fold_inv l (None, [])); [reflexivity|exact I].
Qed.

Lemma merge_subset l v : In v (merge l) -> In v l.
Proof.
  unfold ValueSearch.merge. intro H. apply in_rev in H.
  destruct (merge_fold_inv l (None, [])) as (_ & _ & D); [reflexivity|exact I|].
  destruct (D v H) as [[]|H']. exact H'.
Qed.

Lemma merge_final
  (sel_total : forall a b, valid k a = true -> valid k b = true -> sel k a b = Some 0%nat \/ sel k a b = Some 1%nat)
  (sel_trans : forall a b c, valid k a = true -> valid k b = true -> valid k c = true ->
     sel k a b = Some 1%nat -> ge a c -> ge b c)
  l x : (forall v, In v l -> valid k v = true) -> In x l ->
  exists f, get_value (merge l) = Some f /\ ge f x.
Proof.
  intros LV Hx.
  assert (G: forall l st (X : val -> Prop),
            m_best_head st -> (forall b, fst st = Some b -> valid k b = true) ->
            (forall v, In v l -> valid k v = true) -> (forall y, X y -> valid k y = true) ->
            (forall y, X y -> exists b, fst st = Some b /\ ge b y) ->
            forall y, X y \/ In y l -> exists b, fst (fold_left merge_step l st) = Some b /\ ge b y).
  { clear l x LV Hx. induction l as [|v l IH]; intros st X BH BV LV XV XG y Hy; simpl in *.
    - destruct Hy as [Hy|[]]. apply XG. exact Hy.
    - assert (V: valid k v = true) by (apply LV; auto).
      destruct (merge_step_cases st v) as [E|[E W]]; rewrite E.
      + (* v not taken: the best is at least as good as v *)
        apply (IH st (fun z => X z \/ z = v)); auto.
        * intros z [Hz| ->]; auto.
        * intros z [Hz| ->]; [apply XG; exact Hz|].
          destruct st as [[b|] out]; simpl in *.
          -- exists b. split; [reflexivity|].
             destruct (sel k b v) as [i|] eqn:S.
             ++ destruct (Nat.eqb i 1) eqn:I.
                ** apply Nat.eqb_eq in I. subst i. destruct (N.eqb b v) eqn:Eb.
                   --- apply N.eqb_eq in Eb. left. exact Eb.
                   --- inversion E. exfalso. apply N.eqb_neq in Eb. apply Eb. congruence.
                ** apply Nat.eqb_neq in I. right.
                   destruct (sel_total b v (BV b eq_refl) V) as [T|T]; congruence.
             ++ destruct (sel_total b v (BV b eq_refl) V); congruence.
          -- inversion E.
        * destruct Hy as [Hy|[Hy|Hy]]; [left; left; exact Hy|left; right; symmetry; exact Hy|right; exact Hy].
      + apply (IH (Some v, v :: snd st) (fun z => X z \/ z = v)); auto.
        * reflexivity.
        * intros b Hb. simpl in Hb. inversion Hb; subst. exact V.
        * intros z [Hz| ->]; auto.
        * intros z [Hz| ->]; simpl.
          -- destruct (XG z Hz) as (b0 & B0 & G0). exists v. split; [reflexivity|].
             destruct W as [W|(b & W & NE & S)]; [congruence|]. rewrite W in B0. inversion B0; subst b0.
             apply (sel_trans b v z); auto.
          -- exists v. split; [reflexivity|left; reflexivity].
        * destruct Hy as [Hy|[Hy|Hy]]; [left; left; exact Hy|left; right; symmetry; exact Hy|right; exact Hy]. }
  assert (R: exists b, fst (fold_left merge_step l (None, [])) = Some b /\ ge b x).
  { apply (G l (None, []) (fun _ => False)).
    - reflexivity.
    - intros b Hb. discriminate.
    - exact LV.
    - intros y [].
    - intros y [].
    - right. exact Hx. }
  destruct R as (b & B & Gb).
  - exists b. split; [|exact Gb]. unfold ValueSearch.merge.
    destruct (merge_fold_inv l (None, [])) as (BH & _ & _); [reflexivity|exact I|].
    unfold m_best_head in BH. rewrite B in BH.
    destruct (snd (fold_left merge_step l (None, []))) as [|w r]; simpl in *; [discriminate|].
    inversion BH; subst. apply get_value_last. exists (rev r). reflexivity.
Qed.

(* ---- ties: Select induced by a rank, the first of equals wins -------------------------------- *)
Section Rank.
Variable rank : val -> N.
(* on valid values Select is [rank_sel]: index 1 iff the second entry is ranked
   strictly higher, index 0 otherwise -- in particular on a tie *)
Hypothesis sel_rank : forall a b, valid k a = true -> valid k b = true ->
  sel k a b = Some (if N.ltb (rank a) (rank b) then 1%nat else 0%nat).

Lemma rank_sel_1 a b : valid k a = true -> valid k b = true -> (sel k a b = Some 1%nat <-> rank a < rank b).
Proof.
  intros Va Vb. rewrite (sel_rank a b Va Vb). destruct (N.ltb (rank a) (rank b)) eqn:E.
  - apply N.ltb_lt in E. split; auto.
  - apply N.ltb_ge in E. split; [discriminate|lia].
Qed.

Lemma rank_sel_0 a b : valid k a = true -> valid k b = true -> (sel k a b = Some 0%nat <-> rank b <= rank a).
Proof.
  intros Va Vb. rewrite (sel_rank a b Va Vb). destruct (N.ltb (rank a) (rank b)) eqn:E.
  - apply N.ltb_lt in E. split; [discriminate|lia].
  - apply N.ltb_ge in E. split; auto.
Qed.

(* the two laws of [search_final_best] / [merge_final] hold: a total preorder *)
Lemma rank_total a b : valid k a = true -> valid k b = true -> sel k a b = Some 0%nat \/ sel k a b = Some 1%nat.
Proof. intros Va Vb. rewrite (sel_rank a b Va Vb). destruct (N.ltb (rank a) (rank b)); auto. Qed.

Lemma rank_trans a b c : valid k a = true -> valid k b = true -> valid k c = true ->
  sel k a b = Some 1%nat -> ge a c -> ge b c.
Proof.
  intros Va Vb Vc S G. apply rank_sel_1 in S; auto. right. apply rank_sel_0; auto.
  destruct G as [->|G]; [lia|]. apply rank_sel_0 in G; auto. lia.
Qed.

Lemma ge_rank f x : valid k f = true -> valid k x = true -> ge f x -> rank x <= rank f.
Proof. intros Vf Vx [->|G]; [lia|]. apply rank_sel_0 in G; auto. Qed.

(* a stream whose consecutive values are Select-improving climbs strictly in rank:
   every value is ranked strictly above EVERY earlier one (no tie, no flip-flop) *)
Lemma improving_rank l : (forall v, In v l -> valid k v = true) -> improving l ->
  StronglySorted (fun a b => rank a < rank b) l.
Proof.
  intros V I. apply Sorted_StronglySorted; [intros x y z; lia|].
  induction l as [|v rest IH]; [constructor|].
  simpl in I. destruct I as [H I]. constructor.
  - apply IH; [intros w Hw; apply V; right; exact Hw|exact I].
  - destruct rest as [|v' r]; constructor. destruct H as [_ S].
    apply rank_sel_1 in S; [exact S| |]; apply V; simpl; auto.
Qed.

Lemma search_std_rank_increasing self local resps nvals :
  StronglySorted (fun a b => rank a < rank b) (search_std self local resps nvals).
Proof.
  apply improving_rank.
  - intros v Hv. apply (search_std_valid self local resps nvals v Hv).
  - apply search_improving.
Qed.

Lemma search_std_rank_final self local resps nvals x :
  In x (map snd (consumed nvals pv_init (local_std self local ++ remote_arrivals resps))) ->
  exists f, get_value (search_std self local resps nvals) = Some f /\ valid k f = true /\ rank x <= rank f.
Proof.
  intro Hx.
  assert (AV: forall a, In a (local_std self local ++ remote_arrivals resps) -> valid k (snd a) = true)
    by (intros a; apply std_arrivals_valid).
  destruct (search_final_best rank_total rank_trans _ nvals x AV Hx) as (f & G & Ge).
  assert (Vf: valid k f = true).
  { pose proof G as G'. apply get_value_last in G'. destruct G' as [l E].
    apply (search_std_valid self local resps nvals f). unfold ValueSearch.search_std. rewrite E.
    apply in_app_iff. right. left. reflexivity. }
  assert (Vx: valid k x = true).
  { apply in_map_iff in Hx. destruct Hx as (a & <- & Ha). apply AV.
    clear -Ha. revert Ha. generalize pv_init.
    induction (local_std self local ++ remote_arrivals resps) as [|a0 l IH]; intros st Ha; simpl in Ha; [destruct Ha|].
    destruct (pv_aborted st); [destruct Ha|]. destruct Ha as [->|Ha]; [left; reflexivity|right; eapply IH; eauto]. }
  exists f. repeat split; auto. apply ge_rank; auto.
Qed.

(* one step on a value that is ranked no higher than the current best and is not
   a byte-identical copy of it -- in particular a TIE: counted, not streamed,
   best and peersWithBest unchanged (the sender is not recorded as holding the best) *)
Lemma pv_step_not_better nvals st p v b :
  pv_aborted st = false -> pv_best st = Some b -> valid k b = true -> valid k v = true ->
  b <> v -> rank v <= rank b ->
  pv_step nvals st (p, v) =
    {| pv_best := Some b; pv_with_best := pv_with_best st; pv_n := S (pv_n st); pv_out := pv_out st;
       pv_aborted := Nat.ltb 0 nvals && Nat.ltb nvals (S (pv_n st)) |}.
Proof.
  intros A B Vb Vv NE R. unfold ValueSearch.pv_step. rewrite A, B.
  destruct (N.eqb b v) eqn:E; [apply N.eqb_eq in E; contradiction|].
  assert (S0: sel k b v = Some 0%nat) by (apply rank_sel_0; auto). rewrite S0. reflexivity.
Qed.

(* ... so at the end its sender is sent the corrective put, if it is among the
   closest peers of the lookup result, the search found something and was not
   stopped by the quorum *)
Lemma fixup_targets_spec closest st p :
  In p (fixup_targets closest st) <->
  In p closest /\ pv_best st <> None /\ pv_aborted st = false /\ ~ In p (pv_with_best st).
Proof.
  unfold fixup_targets. destruct (pv_best st) as [b|]; [|simpl; intuition congruence].
  destruct (pv_aborted st); [simpl; intuition congruence|].
  rewrite filter_In, Bool.negb_true_iff.
  assert (X: existsb (N.eqb p) (pv_with_best st) = false <-> ~ In p (pv_with_best st)).
  { split.
    - intros E Hin. assert (T: existsb (N.eqb p) (pv_with_best st) = true)
        by (apply existsb_exists; exists p; split; [exact Hin|apply N.eqb_refl]). congruence.
    - intro N. destruct (existsb (N.eqb p) (pv_with_best st)) eqn:E; [|reflexivity].
      apply existsb_exists in E. destruct E as (q & Hq & E). apply N.eqb_eq in E. subst q. contradiction. }
  rewrite X. intuition congruence.
Qed.

(* the dual merge under a rank *)
Lemma merge_rank_increasing l : (forall v, In v l -> valid k v = true) ->
  StronglySorted (fun a b => rank a < rank b) (merge l).
Proof.
  intro V. apply improving_rank; [|apply merge_improving].
  intros v Hv. apply V. apply merge_subset. exact Hv.
Qed.

Lemma merge_rank_final l x : (forall v, In v l -> valid k v = true) -> In x l ->
  exists f, get_value (merge l) = Some f /\ In f l /\ rank x <= rank f.
Proof.
  intros V Hx. destruct (merge_final rank_total rank_trans l x V Hx) as (f & G & Ge).
  assert (Hf: In f l).
  { pose proof G as G'. apply get_value_last in G'. destruct G' as [l0 E]. apply merge_subset. rewrite E.
    apply in_app_iff. right. left. reflexivity. }
  exists f. repeat split; auto. apply ge_rank; auto.
Qed.
End Rank.

End Search.

(* [rank_sel] is such a Select, for every validity predicate *)
Lemma rank_sel_is_rank valid rank k a b : valid k a = true -> valid k b = true ->
  rank_sel rank k a b = Some (if N.ltb (rank k a) (rank k b) then 1%nat else 0%nat).
Proof. reflexivity. Qed.

(* the validator of the correspondence check is one on the values without the Select-error flag *)
Lemma c_sel_is_rank kk a b : N.testbit (c_flags a) 1 = false -> N.testbit (c_flags b) 1 = false ->
  c_sel kk a b = Some (if N.ltb (c_rank kk a) (c_rank kk b) then 1%nat else 0%nat).
Proof. intros Ha Hb. unfold c_sel, c_rank, c_seq. rewrite Ha, Hb. reflexivity. Qed.

(* an interleaving of two streams *)
Inductive interleave : list val -> list val -> list val -> Prop :=
| il_nil : interleave [] [] []
| il_left x a b l : interleave a b l -> interleave (x :: a) b (x :: l)
| il_right x a b l : interleave a b l -> interleave a (x :: b) (x :: l).

Lemma interleave_In a b l : interleave a b l -> forall x, In x l <-> In x a \/ In x b.
Proof.
  induction 1; intro y; simpl.
  - tauto.
  - rewrite IHinterleave. tauto.
  - rewrite IHinterleave. tauto.
Qed.

(* ---- GetPublicKey ------------------------------------------------------------------------ *)
Section PubKey.
Variable H : val -> option peer.
Variable pk_key : peer -> vkey.
Hypothesis pk_key_inj : forall p q, pk_key p = pk_key q -> p = q.

Lemma pk_from_node_matches p r v : pk_from_node H pk_key p r = Some v -> H v = Some p.
Proof.
  unfold pk_from_node. destruct r as [| |rk [w|]]; try discriminate.
  destruct (N.eqb rk (pk_key p)); [|discriminate].
  destruct (H w) as [q|] eqn:E; [|discriminate].
  destruct (N.eqb q p) eqn:Q; [|discriminate]. apply N.eqb_eq in Q. subst q.
  intro X. inversion X; subst. exact E.
Qed.

Lemma pk_from_dht_matches sel p self local resps v :
  pk_from_dht H pk_key sel p self local resps = Some v -> H v = Some p.
Proof.
  unfold pk_from_dht.
  destruct (get_value (search_std (pk_valid H pk_key) sel (pk_key p) self local resps 1)) as [w|] eqn:G; [|discriminate].
  destruct (H w) as [q|] eqn:E; [|discriminate]. intro X. inversion X; subst w.
  apply get_value_last in G. destruct G as [l G].
  assert (In v (search_std (pk_valid H pk_key) sel (pk_key p) self local resps 1)).
  { rewrite G. apply in_app_iff. right. left. reflexivity. }
  apply search_std_valid in H0. destruct H0 as [V _]. unfold pk_valid in V. rewrite E in V.
  apply N.eqb_eq in V. apply pk_key_inj in V. congruence.
Qed.

Lemma get_public_key_matches sel nf p self local resps r v :
  get_public_key nf (pk_from_node H pk_key p r) (pk_from_dht H pk_key sel p self local resps) = Some v ->
  H v = Some p.
Proof.
  unfold get_public_key. intro X.
  destruct nf.
  - destruct (pk_from_node H pk_key p r) as [w|] eqn:A.
    + inversion X; subst. eapply pk_from_node_matches; eauto.
    + eapply pk_from_dht_matches; eauto.
  - destruct (pk_from_dht H pk_key sel p self local resps) as [w|] eqn:B.
    + inversion X; subst. eapply pk_from_dht_matches; eauto.
    + eapply pk_from_node_matches; eauto.
Qed.
End PubKey.
