(* Lemmas about the server-side handler model (Model/Handlers.v). *)
From Coq Require Import Lia ZifyBool ZifyNat ZifyN Sorting.Sorted Permutation.
From Verif.Lib Require Import GoSem Bits.
From Verif.Gen Require Import Consts Dispatch.
From Verif.Model Require Import PeerRecord Handlers.
From Verif.Proofs Require Import PeerRecordProofs.
Local Open Scope Z_scope.

(* ---- byte-string equality is an equivalence ------------------------------ *)
Lemma bstr_eqb_refl a : bstr_eqb a a = true.
Proof. unfold bstr_eqb. rewrite Z.eqb_refl, N.eqb_refl. destruct (b_len a =? 0); reflexivity. Qed.

Lemma bstr_eqb_sym a b : bstr_eqb a b = bstr_eqb b a.
Proof.
  unfold bstr_eqb. rewrite (Z.eqb_sym (b_len a) (b_len b)), (N.eqb_sym (b_tag a) (b_tag b)).
  destruct (b_len b =? b_len a) eqn:E; [|reflexivity]. cbn [andb].
  apply Z.eqb_eq in E. rewrite E. reflexivity.
Qed.

Lemma bstr_eqb_trans a b c : bstr_eqb a b = true -> bstr_eqb b c = true -> bstr_eqb a c = true.
Proof. unfold bstr_eqb. intros H1 H2. lia. Qed.

Lemma bstr_eqb_len a b : bstr_eqb a b = true -> b_len a = b_len b.
Proof. unfold bstr_eqb. lia. Qed.

(* ---- sorting by XOR distance -------------------------------------------- *)
Definition dist_le (k : N) (a b : rpeer) : Prop := (dist k a <= dist k b)%N.

Lemma insert_by_perm k p l : Permutation (insert_by k p l) (p :: l).
Proof.
  induction l as [|x l IH]; cbn [insert_by]; [apply Permutation_refl|].
  destruct (N.leb (dist k p) (dist k x)); [apply Permutation_refl|].
  eapply perm_trans; [apply perm_skip, IH|apply perm_swap].
Qed.

Lemma sort_by_dist_perm k l : Permutation (sort_by_dist k l) l.
Proof.
  induction l as [|x l IH]; cbn [sort_by_dist fold_right]; [constructor|].
  eapply perm_trans; [apply insert_by_perm|apply perm_skip, IH].
Qed.

Lemma insert_by_sorted k p l :
  StronglySorted (dist_le k) l -> StronglySorted (dist_le k) (insert_by k p l).
Proof.
  induction 1 as [|x l Hs IH Hall]; cbn [insert_by].
  - constructor; constructor.
  - destruct (N.leb (dist k p) (dist k x)) eqn:E.
    + apply N.leb_le in E. constructor; [constructor; assumption|].
      constructor; [exact E|].
      rewrite Forall_forall in *. intros y Hy. unfold dist_le in *. specialize (Hall y Hy). lia.
    + apply N.leb_gt in E. constructor; [exact IH|].
      rewrite Forall_forall in *. intros y Hy.
      apply (Permutation_in _ (insert_by_perm k p l)) in Hy. destruct Hy as [<-|Hy].
      * unfold dist_le. lia.
      * auto.
Qed.

Lemma sort_by_dist_sorted k l : StronglySorted (dist_le k) (sort_by_dist k l).
Proof.
  induction l as [|x l IH]; cbn [sort_by_dist fold_right]; [constructor|].
  apply insert_by_sorted, IH.
Qed.

Lemma firstn_sorted {A} (R : A -> A -> Prop) n l :
  StronglySorted R l -> StronglySorted R (firstn n l).
Proof.
  intro H. revert n. induction H as [|x l Hs IH Hall]; intros [|n]; cbn [firstn]; try constructor.
  - apply IH.
  - rewrite Forall_forall in *. intros y Hy. apply Hall.
    rewrite <- (firstn_skipn n l). apply in_or_app. auto.
Qed.

Lemma filter_sorted {A} (R : A -> A -> Prop) f l :
  StronglySorted R l -> StronglySorted R (filter f l).
Proof.
  induction 1 as [|x l Hs IH Hall]; cbn [filter]; [constructor|].
  destruct (f x); [|exact IH]. constructor; [exact IH|].
  rewrite Forall_forall in *. intros y Hy. apply filter_In in Hy. apply Hall. tauto.
Qed.

(* everything NearestPeers leaves out is at least as far as everything it returns *)
Lemma nearest_peers_nearest k rt n x y :
  In x (nearest_peers k rt n) -> In y rt -> ~ In y (nearest_peers k rt n) ->
  (dist k x <= dist k y)%N.
Proof.
  unfold nearest_peers. intros Hx Hy Hny.
  pose proof (sort_by_dist_sorted k rt) as Hs.
  apply (Permutation_in _ (Permutation_sym (sort_by_dist_perm k rt))) in Hy.
  rewrite <- (firstn_skipn n (sort_by_dist k rt)) in Hy, Hs.
  apply in_app_or in Hy as [Hy|Hy]; [contradiction|].
  revert Hs Hx Hy. generalize (firstn n (sort_by_dist k rt)) (skipn n (sort_by_dist k rt)).
  intros l1 l2. induction l1 as [|a l1 IH]; cbn [app]; intros Hs Hx Hy; [destruct Hx|].
  inversion Hs as [|? ? Hs' Hall]; subst.
  destruct Hx as [<-|Hx].
  - rewrite Forall_forall in Hall. apply Hall. apply in_or_app. auto.
  - apply IH; assumption.
Qed.

(* ---- closestPeersToQuery ------------------------------------------------ *)
Definition keep (self from : bstr) (p : bstr) : bool :=
  negb (bstr_eqb p self) && negb (bstr_eqb p from).

Lemma cpq_loop_spec self from count acc l :
  cpq_loop self from count acc l =
  acc ++ firstn (Nat.max 1 (count - length acc)) (filter (keep self from) l).
Proof.
  revert acc; induction l as [|p l IH]; intro acc; cbn [cpq_loop filter].
  - rewrite firstn_nil, app_nil_r. reflexivity.
  - unfold keep at 1. destruct (bstr_eqb p self); cbn [negb andb]; [apply IH|].
    destruct (bstr_eqb p from); cbn [negb andb]; [apply IH|].
    rewrite app_length. cbn [length].
    destruct (count <=? length acc + 1)%nat eqn:E.
    + apply Nat.leb_le in E. replace (Nat.max 1 (count - length acc)) with 1%nat by lia.
      reflexivity.
    + apply Nat.leb_gt in E. rewrite IH, app_length. cbn [length].
      replace (Nat.max 1 (count - length acc)) with (S (count - (length acc + 1)))%nat by lia.
      replace (Nat.max 1 (count - (length acc + 1))) with (count - (length acc + 1))%nat by lia.
      cbn [firstn]. rewrite <- app_assoc. reflexivity.
Qed.

Lemma map_filter_id (f : bstr -> bool) (l : list rpeer) :
  filter f (map rp_id l) = map rp_id (filter (fun p => f (rp_id p)) l).
Proof. induction l as [|x l IH]; cbn [map filter]; [reflexivity|]. destruct (f (rp_id x)); cbn [map]; rewrite IH; reflexivity. Qed.

Lemma firstn_map {A B} (f : A -> B) n l : firstn n (map f l) = map f (firstn n l).
Proof. revert l; induction n; intros [|x l]; cbn; try reflexivity. f_equal. apply IHn. Qed.

(* the routing-table peers behind the returned ids *)
Definition cpq_peers (nd : node) (q : request) (from : bstr) (count : nat) : list rpeer :=
  firstn (Nat.max 1 count)
         (filter (fun p => keep (n_self nd) from (rp_id p))
                 (nearest_peers (q_kad q) (n_rt nd) (count + 1))).

Lemma closest_peers_to_query_spec nd q from count :
  closest_peers_to_query nd q from count = map rp_id (cpq_peers nd q from count).
Proof.
  unfold closest_peers_to_query, cpq_peers. rewrite cpq_loop_spec. cbn [app length].
  rewrite Nat.sub_0_r, map_filter_id, firstn_map. reflexivity.
Qed.

Lemma cpq_peers_length nd q from count : (length (cpq_peers nd q from count) <= Nat.max 1 count)%nat.
Proof. unfold cpq_peers. rewrite firstn_length. lia. Qed.

Lemma cpq_peers_sorted nd q from count : StronglySorted (dist_le (q_kad q)) (cpq_peers nd q from count).
Proof.
  unfold cpq_peers, nearest_peers.
  apply firstn_sorted, filter_sorted, firstn_sorted, sort_by_dist_sorted.
Qed.

Lemma In_firstn {A} n (l : list A) x : In x (firstn n l) -> In x l.
Proof. intro H. rewrite <- (firstn_skipn n l). apply in_or_app; auto. Qed.

Lemma cpq_peers_in nd q from count p :
  In p (cpq_peers nd q from count) ->
  In p (n_rt nd) /\ bstr_eqb (rp_id p) (n_self nd) = false /\ bstr_eqb (rp_id p) from = false.
Proof.
  unfold cpq_peers, nearest_peers. intro H. apply In_firstn in H. apply filter_In in H as [H Hk].
  apply In_firstn in H. apply (Permutation_in _ (sort_by_dist_perm _ _)) in H.
  unfold keep in Hk. split; [exact H|]. split.
  - destruct (bstr_eqb (rp_id p) (n_self nd)); [discriminate|reflexivity].
  - destruct (bstr_eqb (rp_id p) (n_self nd)); [discriminate|].
    destruct (bstr_eqb (rp_id p) from); [discriminate|reflexivity].
Qed.

(* fetching count+1 and filtering is the same as filtering everything, provided
   at most one routing-table entry is the node itself or the requester *)
Fixpoint count_fail {A} (f : A -> bool) (l : list A) : nat :=
  match l with [] => 0 | x :: l' => (if f x then 0 else 1) + count_fail f l' end.

Lemma firstn_filter_firstn {A} (f : A -> bool) l :
  forall n d, (count_fail f l <= d)%nat ->
    firstn n (filter f (firstn (n + d) l)) = firstn n (filter f l).
Proof.
  induction l as [|x l IH]; intros n d Hd.
  - rewrite firstn_nil. reflexivity.
  - destruct n as [|n]; [reflexivity|].
    cbn [count_fail] in Hd. change (S n + d)%nat with (S (n + d)). rewrite firstn_cons.
    cbn [filter]. destruct (f x) eqn:Ef.
    + rewrite !firstn_cons. f_equal. apply IH. lia.
    + replace (n + d)%nat with (S n + (d - 1))%nat by lia. apply IH. lia.
Qed.

Lemma count_fail_perm {A} (f : A -> bool) l l' : Permutation l l' -> count_fail f l = count_fail f l'.
Proof. induction 1; cbn [count_fail]; lia. Qed.

Lemma cpq_peers_exact nd q from count :
  (1 <= count)%nat ->
  (count_fail (fun p => keep (n_self nd) from (rp_id p)) (n_rt nd) <= 1)%nat ->
  cpq_peers nd q from count =
  firstn count (filter (fun p => keep (n_self nd) from (rp_id p)) (sort_by_dist (q_kad q) (n_rt nd))).
Proof.
  intros Hc Hf. unfold cpq_peers, nearest_peers.
  replace (Nat.max 1 count) with count by lia.
  apply firstn_filter_firstn.
  rewrite (count_fail_perm _ _ _ (sort_by_dist_perm (q_kad q) (n_rt nd))). exact Hf.
Qed.

(* ---- peerstore lookups respect byte-string equality --------------------- *)
Lemma pstore_addrs_eqb ps a b : bstr_eqb a b = true -> pstore_addrs ps a = pstore_addrs ps b.
Proof.
  intro H. induction ps as [|[i l] ps IH]; cbn [pstore_addrs]; [reflexivity|].
  destruct (bstr_eqb i a) eqn:Ea, (bstr_eqb i b) eqn:Eb; try reflexivity; try exact IH.
  - rewrite (bstr_eqb_trans i a b Ea H) in Eb. discriminate.
  - rewrite bstr_eqb_sym in H. rewrite (bstr_eqb_trans i b a Eb H) in Ea. discriminate.
Qed.

(* ---- sizes --------------------------------------------------------------- *)
Lemma peers_size_nil f : peers_size f [] = 0.
Proof. reflexivity. Qed.
Lemma peers_size_cons f p l :
  peers_size f (p :: l) = size_tag f + size_bytes (proto_size_peer p) + peers_size f l.
Proof. reflexivity. Qed.

Lemma proto_size_peer_nonneg p :
  0 <= b_len (p_id p) -> Forall (fun a => 0 <= a_len a) (p_addrs p) -> 0 <= proto_size_peer p.
Proof.
  intros Hid Ha. unfold proto_size_peer.
  pose proof (addrs_cost_nonneg _ Ha). pose proof (size_tag_pos peerIDField).
  pose proof (size_bytes_ge _ Hid).
  assert (0 <= conn_field_size (p_conn p)).
  { unfold conn_field_size. pose proof (size_tag_pos peerConnectionField).
    pose proof (size_varint_pos (u64_of_i32 (p_conn p))). lia. }
  destruct (b_len (p_id p) =? 0); destruct (p_conn p =? 0); lia.
Qed.

(* one framed record of at most 8 KiB costs at most 8195 bytes in a message *)
Lemma framed_record_le f p :
  0 <= f < 16 -> 0 <= proto_size_peer p <= MaxPeerRecordSize ->
  size_tag f + size_bytes (proto_size_peer p) <= 8195.
Proof.
  intros Hf Hp. rewrite (size_tag_small f Hf). unfold size_bytes.
  assert (size_varint (proto_size_peer p) <= (9 * 14 + 64) / 64).
  { apply size_varint_le; [lia|]. unfold MaxPeerRecordSize in Hp. change (2 ^ 14) with 16384. lia. }
  change ((9 * 14 + 64) / 64) with 2 in H. unfold MaxPeerRecordSize in Hp. lia.
Qed.

Lemma peers_size_le f l :
  0 <= f < 16 -> Forall (fun p => 0 <= proto_size_peer p <= MaxPeerRecordSize) l ->
  0 <= peers_size f l <= 8195 * Z.of_nat (length l).
Proof.
  intros Hf. induction 1 as [|p l Hp _ IH].
  - rewrite peers_size_nil. cbn [length]. lia.
  - rewrite peers_size_cons. cbn [length]. pose proof (framed_record_le f p Hf Hp).
    pose proof (size_tag_pos f). pose proof (size_varint_pos (proto_size_peer p)).
    unfold size_bytes in *. lia.
Qed.

Lemma size_enum_bounds f v : 0 <= f < 16 -> - 2 ^ 31 <= v < 2 ^ 31 -> 0 <= size_enum f v <= 11.
Proof.
  intros Hf Hv. unfold size_enum. destruct (v =? 0); [lia|].
  rewrite (size_tag_small f Hf). pose proof (size_varint_u64 v Hv).
  pose proof (size_varint_pos (u64_of_i32 v)). lia.
Qed.

Lemma i32_range x : - 2 ^ 31 <= i32 x < 2 ^ 31.
Proof.
  unfold i32. pose proof (Z.mod_pos_bound (x + 2 ^ 31) (2 ^ 32) ltac:(lia)). lia.
Qed.

Lemma set_cluster_level_range l : - 2 ^ 31 <= set_cluster_level l < 2 ^ 31.
Proof. apply i32_range. Qed.

(* ---- the budget loop ----------------------------------------------------- *)
Lemma append_fitting_fits size recs :
  size <= MessageSizeMax ->
  size + peers_size providerPeersField (append_fitting size recs) <= MessageSizeMax.
Proof.
  revert size; induction recs as [|r recs IH]; intros size Hs; cbn [append_fitting].
  - rewrite peers_size_nil. lia.
  - destruct (size + size_tag providerPeersField + size_bytes (proto_size_peer r) >? MessageSizeMax) eqn:E.
    + rewrite peers_size_nil. lia.
    + rewrite peers_size_cons.
      specialize (IH (size + size_tag providerPeersField + size_bytes (proto_size_peer r)) ltac:(lia)). lia.
Qed.

Lemma append_fitting_prefix size recs : exists rest, recs = append_fitting size recs ++ rest.
Proof.
  revert size; induction recs as [|r recs IH]; intro size; cbn [append_fitting].
  - exists []. reflexivity.
  - destruct (_ >? MessageSizeMax).
    + exists (r :: recs). reflexivity.
    + destruct (IH (size + size_tag providerPeersField + size_bytes (proto_size_peer r))) as (rest & H).
      exists rest. cbn [app]. f_equal. exact H.
Qed.

Lemma append_fitting_incl size recs p : In p (append_fitting size recs) -> In p recs.
Proof. destruct (append_fitting_prefix size recs) as (r & H). intro Hi. rewrite H. apply in_or_app; auto. Qed.

(* ---- ADD_PROVIDER -------------------------------------------------------- *)
Definition add_gate (from : bstr) (i : ainfo) : bool :=
  bstr_eqb (ai_id i) from && match ai_addrs i with [] => false | _ => true end.

Lemma add_provider_loop_spec nd from infos :
  add_provider_loop nd from infos =
  if n_add_fail nd then []
  else map (fun i => {| ai_id := ai_id i; ai_addrs := filter_addrs nd (ai_addrs i) |})
           (filter (add_gate from) infos).
Proof.
  induction infos as [|i infos IH]; cbn [add_provider_loop filter map].
  - destruct (n_add_fail nd); reflexivity.
  - unfold add_gate at 1. destruct (bstr_eqb (ai_id i) from); cbn [negb andb]; [|exact IH].
    destruct (ai_addrs i) eqn:Ea; [exact IH|].
    rewrite IH. destruct (n_add_fail nd); [reflexivity|]. cbn [map]. rewrite Ea. reflexivity.
Qed.

(* ---- what the node may hold --------------------------------------------- *)
Definition addrs_wf (l : list addr) : Prop := Forall (fun a => 0 <= a_len a) l.

(* H: every peer id the node can emit a record for is at most 8178 bytes (every
   real peer id is at most 42), lengths are non-negative.  Maintained by the DHT's
   own ingress: it never stores an address for a larger id (C10, c10_record_le_8k). *)
Definition node_ok (nd : node) : Prop :=
  (forall p, In p (n_rt nd) -> 0 <= b_len (rp_id p) <= 8178) /\
  (forall i, In i (n_provs nd) -> 0 <= b_len (ai_id i) <= 8178 /\ addrs_wf (ai_addrs i)) /\
  (forall id, pstore_addrs (n_pstore nd) id <> [] -> 0 <= b_len id <= 8178) /\
  (forall e, In e (n_pstore nd) -> addrs_wf (snd e)).

Lemma pstore_addrs_wf nd id : node_ok nd -> addrs_wf (pstore_addrs (n_pstore nd) id).
Proof.
  intros (_ & _ & _ & H). induction (n_pstore nd) as [|[i l] ps IH]; cbn [pstore_addrs]; [constructor|].
  destruct (bstr_eqb i id).
  - apply (H (i, l)). left; reflexivity.
  - apply IH. intros e He. apply H. right; exact He.
Qed.

Lemma filter_addrs_wf nd l : addrs_wf l -> addrs_wf (filter_addrs nd l).
Proof.
  unfold filter_addrs, addrs_wf. destruct (n_filter nd); [|auto].
  intro H. apply Forall_forall. intros a Ha. apply filter_In in Ha as [Ha _].
  rewrite Forall_forall in H. auto.
Qed.

Definition rec_ok (p : apeer) : Prop := 0 <= proto_size_peer p <= MaxPeerRecordSize.

Lemma egress_rec_ok c i :
  0 <= b_len (ai_id i) <= 8178 -> addrs_wf (ai_addrs i) -> rec_ok (peer_info_to_pb_conn c i).
Proof.
  intros Hid Hw. split; [|apply egress_record_bounded; exact Hid].
  apply proto_size_peer_nonneg.
  - unfold peer_info_to_pb_conn, peer_info_to_pb, bound_addrs. cbn [p_id]. lia.
  - unfold peer_info_to_pb_conn, peer_info_to_pb, bound_addrs. cbn [p_id p_addrs p_conn].
    apply take_fitting_nonneg. exact Hw.
Qed.

Lemma peer_info_to_pb_conn_id c i : p_id (peer_info_to_pb_conn c i) = ai_id i.
Proof. reflexivity. Qed.

Lemma infos_to_pb_ids nd l : map p_id (infos_to_pb nd l) = map ai_id l.
Proof. unfold infos_to_pb. rewrite map_map. apply map_ext. intro i. reflexivity. Qed.

Lemma addr_infos_ids nd ids : map ai_id (addr_infos nd ids) = ids.
Proof. unfold addr_infos. rewrite map_map. cbn [ai_id]. apply map_id. Qed.

(* records for routing-table peers *)
Lemma closer_records_ok nd q from count :
  node_ok nd ->
  Forall rec_ok (infos_to_pb nd (addr_infos nd (closest_peers_to_query nd q from count))).
Proof.
  intro Hn. rewrite closest_peers_to_query_spec. apply Forall_forall. intros p Hp.
  unfold infos_to_pb, addr_infos in Hp. rewrite !map_map in Hp. apply in_map_iff in Hp as (rp & <- & Hrp).
  apply cpq_peers_in in Hrp as (Hrt & _). pose proof Hn as (H1 & H2 & H3 & H4).
  apply egress_rec_ok; cbn [ai_id ai_addrs].
  - apply H1. exact Hrt.
  - apply pstore_addrs_wf. exact Hn.
Qed.

(* ---- GET_VALUE ----------------------------------------------------------- *)
Lemma handle_get_value_spec nd from q r :
  handle_get_value nd from q = Respond r ->
  b_len (q_key q) <> 0 /\ s_type r = q_type q /\ s_key r = q_key q /\ s_record r = n_value nd /\
  s_cluster r = set_cluster_level (get_cluster_level (q_cluster q)) /\
  s_closer r = infos_to_pb nd (addr_infos nd (closest_peers_to_query nd q from (n_K nd))) /\
  s_provs r = [].
Proof.
  unfold handle_get_value. destruct (b_len (q_key q) =? 0) eqn:Ek; [discriminate|].
  destruct (n_value_err nd); [discriminate|]. intro H. inversion H; subst r. cbn.
  repeat split; try reflexivity. lia.
Qed.

(* ---- FIND_NODE ----------------------------------------------------------- *)
Definition has_addrs (i : ainfo) : bool := match ai_addrs i with [] => false | _ => true end.

Definition find_peer_ids (nd : node) (from : bstr) (q : request) : list bstr :=
  let closest := closest_peers_to_query nd q from (n_K nd) in
  match closest with
  | [] => [q_key q]
  | c :: _ => if bstr_eqb c (q_key q) then closest else q_key q :: closest
  end.

Lemma handle_find_peer_spec nd from q r :
  handle_find_peer nd from q = Respond r ->
  b_len (q_key q) <> 0 /\ s_type r = q_type q /\ s_key r = bempty /\ s_record r = None /\
  s_cluster r = set_cluster_level (get_cluster_level (q_cluster q)) /\
  s_closer r = infos_to_pb nd (filter has_addrs (addr_infos nd (find_peer_ids nd from q))) /\
  s_provs r = [].
Proof.
  unfold handle_find_peer. destruct (b_len (q_key q) =? 0) eqn:Ek; [discriminate|].
  intro H. inversion H; subst r. cbn. repeat split; try reflexivity. lia.
Qed.

Lemma find_peer_ids_length nd from q : (length (find_peer_ids nd from q) <= Nat.max 1 (n_K nd) + 1)%nat.
Proof.
  unfold find_peer_ids. pose proof (cpq_peers_length nd q from (n_K nd)) as HL.
  rewrite closest_peers_to_query_spec. rewrite <- (map_length rp_id) in HL.
  destruct (map rp_id (cpq_peers nd q from (n_K nd))) as [|c l] eqn:E; cbn [length] in *; [lia|].
  destruct (bstr_eqb c (q_key q)); cbn [length]; lia.
Qed.

(* the requested peer comes first; every other entry is a routing-table peer that
   is neither the node nor the requester *)
Lemma find_peer_ids_shape nd from q :
  exists hd tl, find_peer_ids nd from q = hd :: tl /\ bstr_eqb hd (q_key q) = true /\
    exists ps, tl = map rp_id ps /\ (length ps <= Nat.max 1 (n_K nd))%nat /\
      StronglySorted (dist_le (q_kad q)) ps /\
      forall p, In p ps -> In p (n_rt nd) /\ bstr_eqb (rp_id p) (n_self nd) = false /\
                           bstr_eqb (rp_id p) from = false.
Proof.
  unfold find_peer_ids. rewrite closest_peers_to_query_spec.
  pose proof (cpq_peers_sorted nd q from (n_K nd)) as Hs.
  pose proof (cpq_peers_in nd q from (n_K nd)) as Hin.
  pose proof (cpq_peers_length nd q from (n_K nd)) as HL.
  destruct (cpq_peers nd q from (n_K nd)) as [|c ps] eqn:E; cbn [map].
  - exists (q_key q), []. split; [reflexivity|]. split; [apply bstr_eqb_refl|].
    exists []. split; [reflexivity|]. split; [cbn [length]; lia|]. split; [constructor|]. intros p0 [].
  - destruct (bstr_eqb (rp_id c) (q_key q)) eqn:Ec.
    + exists (rp_id c), (map rp_id ps). split; [reflexivity|]. split; [exact Ec|].
      exists ps. split; [reflexivity|]. split; [cbn [length] in HL; lia|].
      inversion Hs; subst. split; [assumption|].
      intros p Hp. apply Hin. right; exact Hp.
    + exists (q_key q), (map rp_id (c :: ps)). split; [reflexivity|]. split; [apply bstr_eqb_refl|].
      exists (c :: ps). split; [reflexivity|]. split; [exact HL|]. split; [exact Hs|]. exact Hin.
Qed.

Lemma find_peer_records_ok nd from q :
  node_ok nd ->
  Forall rec_ok (infos_to_pb nd (filter has_addrs (addr_infos nd (find_peer_ids nd from q)))).
Proof.
  intro Hn. apply Forall_forall. intros p Hp.
  unfold infos_to_pb in Hp. apply in_map_iff in Hp as (i & <- & Hi).
  apply filter_In in Hi as [Hi Ha]. unfold addr_infos in Hi. apply in_map_iff in Hi as (id & <- & _).
  unfold has_addrs in Ha. cbn [ai_addrs] in Ha.
  apply egress_rec_ok; cbn [ai_id ai_addrs].
  - destruct Hn as (_ & _ & H3 & _). apply H3. destruct (pstore_addrs (n_pstore nd) id); [discriminate|congruence].
  - apply pstore_addrs_wf. exact Hn.
Qed.

(* when the node knows an address of the requested peer, its record leads the response *)
Lemma find_peer_target_first nd from q r :
  handle_find_peer nd from q = Respond r ->
  pstore_addrs (n_pstore nd) (q_key q) <> [] ->
  exists p rest, s_closer r = p :: rest /\ bstr_eqb (p_id p) (q_key q) = true.
Proof.
  intros H Ha. apply handle_find_peer_spec in H as (_ & _ & _ & _ & _ & Hc & _). rewrite Hc.
  destruct (find_peer_ids_shape nd from q) as (hd & tl & -> & Hhd & _).
  cbn [addr_infos map filter]. unfold has_addrs at 1. cbn [ai_addrs].
  rewrite (pstore_addrs_eqb _ _ _ Hhd).
  destruct (pstore_addrs (n_pstore nd) (q_key q)) eqn:E; [congruence|].
  cbn [infos_to_pb map]. eexists _, _. split; [reflexivity|]. cbn [peer_info_to_pb_conn p_id peer_info_to_pb bound_addrs ai_id]. exact Hhd.
Qed.

(* ---- GET_PROVIDERS ------------------------------------------------------- *)
Definition provider_records (nd : node) : list apeer :=
  map (fun p => peer_info_to_pb_conn (is_connected nd (ai_id p))
                  {| ai_id := ai_id p; ai_addrs := filter_addrs nd (ai_addrs p) |}) (n_provs nd).

Definition get_providers_base (nd : node) (from : bstr) (q : request) : response :=
  {| s_type := q_type q; s_key := q_key q;
     s_cluster := set_cluster_level (get_cluster_level (q_cluster q)); s_record := None;
     s_closer := infos_to_pb nd (addr_infos nd (closest_peers_to_query nd q from (n_K nd)));
     s_provs := [] |}.

Lemma handle_get_providers_spec nd from q r :
  handle_get_providers nd from q = Respond r ->
  (80 <? b_len (q_key q)) = false /\ (b_len (q_key q) =? 0) = false /\ n_provs_err nd = false /\
  r = {| s_type := q_type q; s_key := q_key q;
         s_cluster := set_cluster_level (get_cluster_level (q_cluster q)); s_record := None;
         s_closer := s_closer (get_providers_base nd from q);
         s_provs := append_fitting (proto_size_response (get_providers_base nd from q))
                                   (provider_records nd) |}.
Proof.
  unfold handle_get_providers. destruct (80 <? b_len (q_key q)) eqn:E1; [discriminate|].
  destruct (b_len (q_key q) =? 0) eqn:E2; [discriminate|].
  destruct (n_provs_err nd); [discriminate|]. intro H. inversion H; subst r. clear H.
  repeat split; reflexivity.
Qed.

Lemma provider_records_ok nd : node_ok nd -> Forall rec_ok (provider_records nd).
Proof.
  intros (_ & H2 & _ & _). unfold provider_records. apply Forall_forall. intros p Hp.
  apply in_map_iff in Hp as (i & <- & Hi). destruct (H2 i Hi) as [Hid Hw].
  apply egress_rec_ok; cbn [ai_id ai_addrs]; [exact Hid|]. apply filter_addrs_wf. exact Hw.
Qed.

(* ---- dispatch ------------------------------------------------------------ *)
Lemma handler_for_inv t v p h :
  handler_for t v p = Some h ->
  match h with
  | handleFindPeer => t = Message_FIND_NODE
  | handlePing => t = Message_PING
  | handleGetValue => t = Message_GET_VALUE /\ v = true
  | handlePutValue => t = Message_PUT_VALUE /\ v = true
  | handleAddProvider => t = Message_ADD_PROVIDER /\ p = true
  | handleGetProviders => t = Message_GET_PROVIDERS /\ p = true
  end.
Proof.
  unfold handler_for.
  repeat match goal with
         | |- context [if ?c then _ else _] => destruct c eqn:?
         end; intro H; inversion H; subst h; clear H;
  repeat match goal with
         | H : _ && _ = true |- _ => apply andb_true_iff in H as [? ?]
         | H : (_ =? _) = true |- _ => apply Z.eqb_eq in H
         end; auto.
Qed.

Lemma serve_not_server nd from q : n_server nd = false -> serve nd from q = Ok (ResetStream HNotServer, []).
Proof. intro H. unfold serve. rewrite H. reflexivity. Qed.

Lemma serve_respond_inv nd from q r st :
  serve nd from q = Ok (Respond r, st) ->
  n_server nd = true /\ st = [] /\
  exists h, handler_for (q_type q) (n_values nd) (n_providers nd) = Some h /\
    match h with
    | handleFindPeer => handle_find_peer nd from q = Respond r
    | handlePing => r = echo_stripped q
    | handleGetValue => handle_get_value nd from q = Respond r
    | handlePutValue => handle_put_value nd from q = Respond r
    | handleAddProvider => False
    | handleGetProviders => handle_get_providers nd from q = Respond r
    end.
Proof.
  unfold serve. destruct (n_server nd); cbn [negb]; [|discriminate].
  destruct (handler_for (q_type q) (n_values nd) (n_providers nd)) as [h|] eqn:Eh; [|discriminate].
  intro H. split; [reflexivity|].
  destruct h; cbn [run_handler] in H.
  - inversion H. split; [reflexivity|]. exists handleFindPeer. auto.
  - inversion H. split; [reflexivity|]. exists handlePing. auto.
  - inversion H. split; [reflexivity|]. exists handleGetValue. auto.
  - inversion H. split; [reflexivity|]. exists handlePutValue. auto.
  - exfalso. unfold handle_add_provider in H.
    destruct (80 <? b_len (q_key q)); [discriminate|].
    destruct (b_len (q_key q) =? 0); [discriminate|].
    destruct (pb_peers_to_infos (q_provs q)); cbn [bind] in H; try discriminate.
    destruct (add_provider_loop nd from a); discriminate.
  - inversion H. split; [reflexivity|]. exists handleGetProviders. auto.
Qed.

Lemma handle_put_value_spec nd from q r :
  handle_put_value nd from q = Respond r ->
  r = echo_stripped q /\ b_len (q_key q) <> 0 /\ n_put_ok nd = true /\
  exists rec, q_record q = Some rec /\ bstr_eqb (q_key q) (r_key rec) = true.
Proof.
  unfold handle_put_value. destruct (b_len (q_key q) =? 0) eqn:Ek; [discriminate|].
  destruct (q_record q) as [rec|]; [|discriminate].
  destruct (bstr_eqb (q_key q) (r_key rec)) eqn:Eq; cbn [negb]; [|discriminate].
  destruct (n_put_ok nd); cbn [negb]; [|discriminate].
  intro H. inversion H. repeat split; try reflexivity; try lia. eauto.
Qed.

(* ---- 3. every emitted peer record is within 8 KiB ------------------------ *)
Lemma serve_records_ok nd from q r st :
  node_ok nd -> serve nd from q = Ok (Respond r, st) -> Forall rec_ok (s_closer r ++ s_provs r).
Proof.
  intros Hn H. apply serve_respond_inv in H as (_ & _ & h & _ & Hh).
  destruct h.
  - apply handle_find_peer_spec in Hh as (_ & _ & _ & _ & _ & Hc & Hp). rewrite Hc, Hp, app_nil_r.
    apply find_peer_records_ok. exact Hn.
  - subst r. constructor.
  - apply handle_get_value_spec in Hh as (_ & _ & _ & _ & _ & Hc & Hp). rewrite Hc, Hp, app_nil_r.
    apply closer_records_ok. exact Hn.
  - apply handle_put_value_spec in Hh as (-> & _). constructor.
  - destruct Hh.
  - apply handle_get_providers_spec in Hh as (_ & _ & _ & ->). cbn [s_closer s_provs get_providers_base].
    apply Forall_app. split; [apply closer_records_ok; exact Hn|].
    apply Forall_forall. intros p Hp. apply append_fitting_incl in Hp.
    pose proof (provider_records_ok nd Hn) as Hall. rewrite Forall_forall in Hall. auto.
Qed.

(* ---- 5. echoes carry no peer records ------------------------------------- *)
Lemma serve_echo_stripped nd from q r st :
  serve nd from q = Ok (Respond r, st) ->
  q_type q = Message_PING \/ q_type q = Message_PUT_VALUE ->
  r = echo_stripped q /\ s_closer r = [] /\ s_provs r = [].
Proof.
  intros H Ht. apply serve_respond_inv in H as (_ & _ & h & Hd & Hh).
  apply handler_for_inv in Hd.
  destruct h; cbn beta iota in Hd;
    try (exfalso; destruct Ht as [Ht|Ht]; rewrite Ht in Hd; (discriminate || (destruct Hd; discriminate))).
  - subst r. auto.
  - apply handle_put_value_spec in Hh as (-> & _). auto.
Qed.

(* ---- 2. closer peers ------------------------------------------------------ *)
(* GET_VALUE and GET_PROVIDERS list exactly the peers closestPeersToQuery chose *)
Lemma serve_closer_ids nd from q r st :
  serve nd from q = Ok (Respond r, st) ->
  q_type q = Message_GET_VALUE \/ q_type q = Message_GET_PROVIDERS ->
  map p_id (s_closer r) = map rp_id (cpq_peers nd q from (n_K nd)).
Proof.
  intros H Ht. apply serve_respond_inv in H as (_ & _ & h & Hd & Hh).
  apply handler_for_inv in Hd.
  destruct h; cbn beta iota in Hd;
    try (exfalso; destruct Ht as [Ht|Ht]; rewrite Ht in Hd; (discriminate || (destruct Hd; discriminate))).
  - apply handle_get_value_spec in Hh as (_ & _ & _ & _ & _ & Hc & _).
    rewrite Hc, infos_to_pb_ids, addr_infos_ids. apply closest_peers_to_query_spec.
  - apply handle_get_providers_spec in Hh as (_ & _ & _ & ->). cbn [s_closer get_providers_base].
    rewrite infos_to_pb_ids, addr_infos_ids. apply closest_peers_to_query_spec.
Qed.

Lemma filter_map_ids nd ids :
  map ai_id (filter has_addrs (addr_infos nd ids)) =
  filter (fun id => match pstore_addrs (n_pstore nd) id with [] => false | _ => true end) ids.
Proof.
  induction ids as [|id ids IH]; cbn [addr_infos map filter]; [reflexivity|].
  unfold has_addrs at 1. cbn [ai_addrs]. fold (addr_infos nd ids).
  destruct (pstore_addrs (n_pstore nd) id); cbn [map ai_id]; rewrite IH; reflexivity.
Qed.

(* FIND_NODE lists the requested peer and those peers, keeping the ones with a known address *)
Lemma serve_find_node_ids nd from q r st :
  serve nd from q = Ok (Respond r, st) -> q_type q = Message_FIND_NODE ->
  map p_id (s_closer r) =
  filter (fun id => match pstore_addrs (n_pstore nd) id with [] => false | _ => true end)
         (find_peer_ids nd from q).
Proof.
  intros H Ht. apply serve_respond_inv in H as (_ & _ & h & Hd & Hh).
  apply handler_for_inv in Hd.
  destruct h; cbn beta iota in Hd;
    try (exfalso; rewrite Ht in Hd; (discriminate || (destruct Hd; discriminate))).
  apply handle_find_peer_spec in Hh as (_ & _ & _ & _ & _ & Hc & _).
  rewrite Hc, infos_to_pb_ids. apply filter_map_ids.
Qed.

(* ---- 4. response sizes ---------------------------------------------------- *)
Lemma filter_len_le {A} (f : A -> bool) l : (length (filter f l) <= length l)%nat.
Proof. induction l as [|a l IH]; cbn [filter length]; [lia|]. destruct (f a); cbn [length]; lia. Qed.

Lemma size_bytes_field_key f b :
  0 <= f < 16 -> 0 <= b_len b <= 80 -> 0 <= size_bytes_field f b <= 82.
Proof.
  intros Hf Hb. unfold size_bytes_field. destruct (b_len b =? 0); [lia|].
  rewrite (size_tag_small f Hf). unfold size_bytes.
  assert (size_varint (b_len b) <= (9 * 7 + 64) / 64)
    by (apply size_varint_le; [lia|]; change (2 ^ 7) with 128; lia).
  change ((9 * 7 + 64) / 64) with 1 in *. pose proof (size_varint_pos (b_len b)). lia.
Qed.

Lemma proto_size_response_provs r l :
  proto_size_response {| s_type := s_type r; s_key := s_key r; s_cluster := s_cluster r;
                         s_record := s_record r; s_closer := s_closer r; s_provs := l |}
  = proto_size_response {| s_type := s_type r; s_key := s_key r; s_cluster := s_cluster r;
                           s_record := s_record r; s_closer := s_closer r; s_provs := [] |}
    + peers_size providerPeersField l.
Proof. unfold proto_size_response. cbn [s_type s_key s_cluster s_record s_closer s_provs]. rewrite peers_size_nil. lia. Qed.

Definition closerPeersField_small : 0 <= closerPeersField < 16.
Proof. unfold closerPeersField. lia. Qed.

(* FIND_NODE: at most K+1 records of at most 8 KiB, and nothing else of any size *)
Lemma find_node_response_size nd from q r :
  node_ok nd -> (n_K nd <= 500)%nat ->
  handle_find_peer nd from q = Respond r -> - 2 ^ 31 <= q_type q < 2 ^ 31 ->
  proto_size_response r <= MessageSizeMax.
Proof.
  intros Hn HK H Ht. pose proof H as H'.
  apply handle_find_peer_spec in H as (_ & Hty & Hkey & Hrec & Hcl & Hc & Hp).
  unfold proto_size_response. rewrite Hty, Hkey, Hrec, Hcl, Hp, Hc, peers_size_nil.
  pose proof (size_enum_bounds 1 (q_type q) ltac:(lia) Ht).
  pose proof (size_enum_bounds 10 _ ltac:(lia) (set_cluster_level_range (get_cluster_level (q_cluster q)))).
  pose proof (peers_size_le closerPeersField _ closerPeersField_small (find_peer_records_ok nd from q Hn)) as Hs.
  assert (HL : (length (infos_to_pb nd (filter has_addrs (addr_infos nd (find_peer_ids nd from q)))) <= 501)%nat).
  { unfold infos_to_pb. rewrite map_length.
    etransitivity; [apply filter_len_le|].
    unfold addr_infos. rewrite map_length. pose proof (find_peer_ids_length nd from q). lia. }
  assert (size_bytes_field 2 bempty = 0) by reflexivity.
  unfold MessageSizeMax. lia.
Qed.

(* GET_PROVIDERS: the closer peers fit, and the budget loop keeps the total within the limit *)
Lemma get_providers_response_size nd from q r :
  node_ok nd -> (n_K nd <= 500)%nat -> 0 <= b_len (q_key q) ->
  handle_get_providers nd from q = Respond r -> - 2 ^ 31 <= q_type q < 2 ^ 31 ->
  proto_size_response r <= MessageSizeMax.
Proof.
  intros Hn HK Hk0 H Ht.
  apply handle_get_providers_spec in H as (E1 & E2 & _ & ->).
  set (base := get_providers_base nd from q).
  change (proto_size_response
            {| s_type := s_type base; s_key := s_key base; s_cluster := s_cluster base;
               s_record := s_record base; s_closer := s_closer base;
               s_provs := append_fitting (proto_size_response base) (provider_records nd) |}
          <= MessageSizeMax).
  rewrite proto_size_response_provs.
  assert (Hb : proto_size_response {| s_type := s_type base; s_key := s_key base; s_cluster := s_cluster base;
                  s_record := s_record base; s_closer := s_closer base; s_provs := [] |}
               = proto_size_response base) by reflexivity.
  rewrite Hb. apply append_fitting_fits.
  subst base. unfold proto_size_response, get_providers_base.
  cbn [s_type s_key s_cluster s_record s_closer s_provs]. rewrite peers_size_nil.
  pose proof (size_enum_bounds 1 (q_type q) ltac:(lia) Ht).
  pose proof (size_enum_bounds 10 _ ltac:(lia) (set_cluster_level_range (get_cluster_level (q_cluster q)))).
  pose proof (size_bytes_field_key 2 (q_key q) ltac:(lia) ltac:(lia)).
  pose proof (peers_size_le closerPeersField _ closerPeersField_small
                (closer_records_ok nd q from (n_K nd) Hn)) as Hs.
  assert (HL : (length (infos_to_pb nd (addr_infos nd (closest_peers_to_query nd q from (n_K nd)))) <= 500)%nat).
  { unfold infos_to_pb, addr_infos. rewrite !map_length, closest_peers_to_query_spec, map_length.
    pose proof (cpq_peers_length nd q from (n_K nd)). lia. }
  unfold MessageSizeMax. lia.
Qed.

Lemma serve_response_size nd from q r st :
  node_ok nd -> (n_K nd <= 500)%nat -> 0 <= b_len (q_key q) ->
  serve nd from q = Ok (Respond r, st) ->
  q_type q = Message_FIND_NODE \/ q_type q = Message_GET_PROVIDERS ->
  proto_size_response r <= MessageSizeMax.
Proof.
  intros Hn HK Hk0 H Ht. apply serve_respond_inv in H as (_ & _ & h & Hd & Hh).
  apply handler_for_inv in Hd.
  assert (Hrange : - 2 ^ 31 <= q_type q < 2 ^ 31)
    by (destruct Ht as [Ht|Ht]; rewrite Ht; unfold Message_FIND_NODE, Message_GET_PROVIDERS; lia).
  destruct h; cbn beta iota in Hd;
    try (exfalso; destruct Ht as [Ht|Ht]; rewrite Ht in Hd; (discriminate || (destruct Hd; discriminate))).
  - eapply find_node_response_size; eassumption.
  - eapply get_providers_response_size; eassumption.
Qed.

(* ---- 6. ADD_PROVIDER ------------------------------------------------------ *)
(* what is stored: for every provider record of the request whose id is the
   sender and that still has a decodable address once cut to 8 KiB, the sender
   with the addresses the node's filter keeps; nothing when the key is not 1-80
   bytes; the stream is reset exactly when nothing was stored *)
Definition add_provider_spec (nd : node) (from : bstr) (provs : list apeer) : list ainfo :=
  if n_add_fail nd then []
  else map (fun i => {| ai_id := ai_id i; ai_addrs := filter_addrs nd (ai_addrs i) |})
           (filter (add_gate from) (map info_of provs)).

Lemma handle_add_provider_wire nd from q provs :
  q_provs q = map Some provs ->
  handle_add_provider nd from q =
  if (80 <? b_len (q_key q)) then Ok (ResetStream HKeyTooLong, [])
  else if (b_len (q_key q) =? 0) then Ok (ResetStream HEmptyKey, [])
  else match add_provider_spec nd from provs with
       | [] => Ok (ResetStream HNoValidProvider, [])
       | st => Ok (NoReply, st)
       end.
Proof.
  intro Hp. unfold handle_add_provider. destruct (80 <? b_len (q_key q)); [reflexivity|].
  destruct (b_len (q_key q) =? 0); [reflexivity|].
  rewrite Hp, pb_peers_to_infos_wire. cbn [bind]. rewrite add_provider_loop_spec.
  unfold add_provider_spec. destruct (n_add_fail nd); [reflexivity|].
  destruct (map _ (filter (add_gate from) (map info_of provs))); reflexivity.
Qed.

Lemma serve_add_provider nd from q provs :
  n_server nd = true -> n_providers nd = true -> q_type q = Message_ADD_PROVIDER ->
  q_provs q = map Some provs ->
  serve nd from q =
  if (80 <? b_len (q_key q)) then Ok (ResetStream HKeyTooLong, [])
  else if (b_len (q_key q) =? 0) then Ok (ResetStream HEmptyKey, [])
  else match add_provider_spec nd from provs with
       | [] => Ok (ResetStream HNoValidProvider, [])
       | st => Ok (NoReply, st)
       end.
Proof.
  intros Hs Hp Ht Hw. unfold serve. rewrite Hs, Hp, Ht. cbn [negb].
  assert (E : forall v, handler_for Message_ADD_PROVIDER v true = Some handleAddProvider)
    by (intros []; reflexivity).
  rewrite E. cbn [run_handler]. apply handle_add_provider_wire. exact Hw.
Qed.

(* only ADD_PROVIDER ever stores a provider, and only for keys of 1-80 bytes *)
Lemma serve_stores_only_on_add nd from q o st :
  0 <= b_len (q_key q) ->
  serve nd from q = Ok (o, st) -> st <> [] ->
  q_type q = Message_ADD_PROVIDER /\ n_server nd = true /\ n_providers nd = true /\ o = NoReply /\
  1 <= b_len (q_key q) <= 80.
Proof.
  intro Hk0.
  unfold serve. destruct (n_server nd); cbn [negb]; [|intros H; inversion H; congruence].
  destruct (handler_for (q_type q) (n_values nd) (n_providers nd)) as [h|] eqn:Eh;
    [|intros H; inversion H; congruence].
  apply handler_for_inv in Eh.
  destruct h; cbn [run_handler]; try (intros H; inversion H; congruence).
  destruct Eh as [Et Ep]. unfold handle_add_provider.
  destruct (80 <? b_len (q_key q)) eqn:E1; [intros H; inversion H; congruence|].
  destruct (b_len (q_key q) =? 0) eqn:E2; [intros H; inversion H; congruence|].
  destruct (pb_peers_to_infos (q_provs q)); cbn [bind]; try discriminate.
  destruct (add_provider_loop nd from a); intros H; inversion H; subst; [congruence|].
  intros _. repeat split; try assumption; try reflexivity; lia.
Qed.

(* ---- 7. totality ---------------------------------------------------------- *)
Lemma serve_total nd from q : wire_request q = true -> exists o st, serve nd from q = Ok (o, st).
Proof.
  intro Hw. unfold serve. destruct (n_server nd); cbn [negb]; [|eauto].
  destruct (handler_for (q_type q) (n_values nd) (n_providers nd)) as [h|]; [|eauto].
  destruct h; cbn [run_handler]; eauto.
  unfold wire_request in Hw. apply andb_true_iff in Hw as [_ Hp].
  destruct (all_some_map _ Hp) as (provs & Hprovs).
  rewrite (handle_add_provider_wire nd from q provs Hprovs).
  destruct (80 <? b_len (q_key q)); [eauto|]. destruct (b_len (q_key q) =? 0); [eauto|].
  destruct (add_provider_spec nd from provs); eauto.
Qed.

(* a hand-made request with a nil provider entry is the only way to a panic *)
Lemma serve_panic_only_nil_entry nd from q w :
  serve nd from q = Panic w -> all_some (q_provs q) = false /\ q_type q = Message_ADD_PROVIDER.
Proof.
  unfold serve. destruct (n_server nd); cbn [negb]; [|discriminate].
  destruct (handler_for (q_type q) (n_values nd) (n_providers nd)) as [h|] eqn:Eh; [|discriminate].
  apply handler_for_inv in Eh. destruct h; cbn [run_handler]; try discriminate.
  destruct Eh as [Et _]. intro H. split; [|exact Et].
  destruct (all_some (q_provs q)) eqn:E; [|reflexivity].
  destruct (all_some_map _ E) as (provs & Hp). rewrite (handle_add_provider_wire nd from q provs Hp) in H.
  destruct (80 <? b_len (q_key q)); [discriminate|]. destruct (b_len (q_key q) =? 0); [discriminate|].
  destruct (add_provider_spec nd from provs); discriminate.
Qed.

(* ---- property-level summaries -------------------------------------------- *)
Definition known (nd : node) (id : bstr) : bool :=
  match pstore_addrs (n_pstore nd) id with [] => false | _ => true end.

(* 2a. GET_VALUE / GET_PROVIDERS *)
Lemma serve_closer_bounds nd from q r st :
  (1 <= n_K nd)%nat ->
  serve nd from q = Ok (Respond r, st) ->
  q_type q = Message_GET_VALUE \/ q_type q = Message_GET_PROVIDERS ->
  exists ps, map p_id (s_closer r) = map rp_id ps /\ (length ps <= n_K nd)%nat /\
    StronglySorted (dist_le (q_kad q)) ps /\
    (forall p, In p ps -> In p (n_rt nd) /\ bstr_eqb (rp_id p) (n_self nd) = false /\
                          bstr_eqb (rp_id p) from = false) /\
    ((count_fail (fun p => keep (n_self nd) from (rp_id p)) (n_rt nd) <= 1)%nat ->
       ps = firstn (n_K nd) (filter (fun p => keep (n_self nd) from (rp_id p))
                                    (sort_by_dist (q_kad q) (n_rt nd)))).
Proof.
  intros HK H Ht. exists (cpq_peers nd q from (n_K nd)).
  split; [eapply serve_closer_ids; eassumption|].
  split; [pose proof (cpq_peers_length nd q from (n_K nd)); lia|].
  split; [apply cpq_peers_sorted|]. split; [apply cpq_peers_in|].
  intro Hf. apply cpq_peers_exact; assumption.
Qed.

(* 2b. FIND_NODE *)
Lemma serve_find_node_bounds nd from q r st :
  (1 <= n_K nd)%nat ->
  serve nd from q = Ok (Respond r, st) -> q_type q = Message_FIND_NODE ->
  exists hd ps, bstr_eqb hd (q_key q) = true /\
    map p_id (s_closer r) = filter (known nd) (hd :: map rp_id ps) /\
    (length ps <= n_K nd)%nat /\ StronglySorted (dist_le (q_kad q)) ps /\
    (forall p, In p ps -> In p (n_rt nd) /\ bstr_eqb (rp_id p) (n_self nd) = false /\
                          bstr_eqb (rp_id p) from = false) /\
    (known nd (q_key q) = true -> exists p rest, s_closer r = p :: rest /\ bstr_eqb (p_id p) (q_key q) = true).
Proof.
  intros HK H Ht. pose proof (serve_find_node_ids nd from q r st H Ht) as Hids.
  destruct (find_peer_ids_shape nd from q) as (hd & tl & Hshape & Hhd & ps & -> & HL & Hs & Hin).
  exists hd, ps. split; [exact Hhd|]. rewrite Hshape in Hids. split; [exact Hids|].
  split; [lia|]. split; [exact Hs|]. split; [exact Hin|].
  intro Hk. apply serve_respond_inv in H as (_ & _ & h & Hd & Hh). apply handler_for_inv in Hd.
  destruct h; cbn beta iota in Hd;
    try (exfalso; rewrite Ht in Hd; (discriminate || (destruct Hd; discriminate))).
  apply (find_peer_target_first nd from q r Hh). unfold known in Hk.
  destruct (pstore_addrs (n_pstore nd) (q_key q)); [discriminate|congruence].
Qed.

(* 1. dispatch *)
Lemma handler_for_none t v p :
  (v = false /\ (t = Message_PUT_VALUE \/ t = Message_GET_VALUE)) \/
  (p = false /\ (t = Message_ADD_PROVIDER \/ t = Message_GET_PROVIDERS)) \/
  t < 0 \/ 5 < t ->
  handler_for t v p = None.
Proof.
  unfold handler_for, Message_PUT_VALUE, Message_GET_VALUE, Message_ADD_PROVIDER, Message_GET_PROVIDERS,
    Message_FIND_NODE, Message_PING.
  intros [(-> & [-> | ->]) | [(-> & [-> | ->]) | H]]; cbn; try reflexivity;
    try (destruct v; reflexivity); try (destruct p; reflexivity).
  repeat match goal with |- context [if ?c then _ else _] => destruct c eqn:? end; try reflexivity; exfalso; lia.
Qed.

Lemma serve_no_handler nd from q :
  n_server nd = true ->
  handler_for (q_type q) (n_values nd) (n_providers nd) = None ->
  serve nd from q = Ok (ResetStream HNoHandler, []).
Proof. intros Hs Hh. unfold serve. rewrite Hs, Hh. reflexivity. Qed.

Lemma serve_dispatch_disabled nd from q :
  n_server nd = true ->
  (n_values nd = false /\ (q_type q = Message_PUT_VALUE \/ q_type q = Message_GET_VALUE)) \/
  (n_providers nd = false /\ (q_type q = Message_ADD_PROVIDER \/ q_type q = Message_GET_PROVIDERS)) \/
  q_type q < 0 \/ 5 < q_type q ->
  serve nd from q = Ok (ResetStream HNoHandler, []).
Proof. intros Hs H. exact (serve_no_handler nd from q Hs (handler_for_none _ _ _ H)). Qed.
