(* Lemmas about Model/MsgSender.v: the invariant holds after every event list; the C11 clauses. *)
From Verif.Lib Require Import GoSem Bits.
From Verif.Model Require Import MsgSender.
From Coq Require Import Lia.
From Verif.Proofs Require Import MsgSenderInv MsgSenderStep1 MsgSenderStep2 MsgSenderStep3 MsgSenderStep4 MsgSenderStep5 MsgSenderStep6.

Theorem step_inv s e s' : Inv s -> step s e = Some s' -> Inv s'.
Proof.
  destruct e; intros I H.
  - eapply step_inv_start; eauto.
  - eapply step_inv_lock; eauto.
  - eapply step_inv_lockfail; eauto.
  - eapply step_inv_prep; eauto.
  - eapply step_inv_dialok; eauto.
  - eapply step_inv_dialfail; eauto.
  - eapply step_inv_afterfail; eauto.
  - eapply step_inv_writeok; eauto.
  - eapply step_inv_writefail; eauto.
  - eapply step_inv_read; eauto.
  - eapply step_inv_timeout; eauto.
  - eapply step_inv_readctx; eauto.
  - eapply step_inv_ctx; eauto.
  - eapply step_inv_remanswer; eauto.
  - eapply step_inv_remreset; eauto.
  - eapply step_inv_disc; eauto.
  - eapply step_inv_inval; eauto.
  - eapply step_inv_invdrop; eauto.
Qed.

Theorem run_inv evs : forall s s', Inv s -> run evs s = Some s' -> Inv s'.
Proof.
  induction evs as [|e evs IH]; intros s s' I H; simpl in H.
  - congruence.
  - destruct (step s e) as [s1|] eqn:E; [|discriminate]. eapply IH; [|exact H]. eapply step_inv; eauto.
Qed.

Theorem reachable_inv evs s : run evs init = Some s -> Inv s.
Proof. apply run_inv. exact Inv_init. Qed.

(* ---- the property clauses, for every event list ----------------------------- *)

(* KEY invariant: a sender whose lock is free has, on its stream (if any), no
   request written and unanswered and no reply sent and unread *)
Theorem idle_stream_clean evs s sd x st y :
  run evs init = Some s ->
  nth_error (senders s) sd = Some x -> sd_lock x = None -> sd_stream x = Some st ->
  nth_error (streams s) st = Some y ->
  sm_cli y = COpen /\ sm_pending y = [] /\ sm_inbox y = [].
Proof.
  intros R Hx Hl Hs Hy. pose proof (reachable_inv _ _ R) as I.
  destruct (cur_rec s I _ _ _ Hx Hs) as (_ & A & B & _). rewrite Hy in A, B. simpl in A, B.
  injection A as A. injection B as B. split; [exact B|]. subst sd. eapply free_clean; eauto.
Qed.

(* while a call is in its exchange, the only thing outstanding on the stream is its own request / its reply *)
Theorem busy_stream_own evs s sd x t st y u :
  run evs init = Some s ->
  nth_error (senders s) sd = Some x -> sd_lock x = Some t -> sd_stream x = Some st ->
  nth_error (streams s) st = Some y ->
  In u (sm_pending y ++ map reply_id (sm_inbox y)) -> u = t.
Proof.
  intros R Hx Hl Hs Hy Hin. pose proof (reachable_inv _ _ R) as I.
  destruct (cur_rec s I _ _ _ Hx Hs) as (_ & A & B & _). rewrite Hy in A, B. simpl in A, B.
  injection A as A. injection B as B. subst sd. eapply stream_items; eauto.
Qed.

Theorem reply_matches evs s t th id :
  run evs init = Some s -> mget (threads s) t = Some th -> t_pc th = PDone (ROk (Some id)) -> id = t.
Proof.
  intros R Ht Hp. pose proof (i_res s (reachable_inv _ _ R) _ _ Ht) as E. rewrite Hp in E. exact E.
Qed.

Theorem no_panic evs s t th :
  run evs init = Some s -> mget (threads s) t = Some th -> t_pc th <> PDone RPanic.
Proof.
  intros R Ht Hp. pose proof (i_res s (reachable_inv _ _ R) _ _ Ht) as E. rewrite Hp in E. exact E.
Qed.

(* exchanges on one sender are serialized by its lock *)
Theorem one_exchange_per_sender evs s t1 th1 t2 th2 sd :
  run evs init = Some s ->
  mget (threads s) t1 = Some th1 -> holds (t_pc th1) = Some sd ->
  mget (threads s) t2 = Some th2 -> holds (t_pc th2) = Some sd -> t1 = t2.
Proof.
  intros R H1 P1 H2 P2. pose proof (reachable_inv _ _ R) as I.
  pose proof (i_hold s I _ _ _ H1 P1) as E1. pose proof (i_hold s I _ _ _ H2 P2) as E2. congruence.
Qed.

(* a sender has at most one stream the client has not reset or closed *)
Theorem one_stream_per_sender evs s st1 y1 st2 y2 :
  run evs init = Some s ->
  nth_error (streams s) st1 = Some y1 -> sm_cli y1 = COpen ->
  nth_error (streams s) st2 = Some y2 -> sm_cli y2 = COpen ->
  sm_owner y1 = sm_owner y2 -> st1 = st2.
Proof.
  intros R H1 C1 H2 C2 E. pose proof (reachable_inv _ _ R) as I.
  pose proof (open_rec s I _ _ H1 C1) as A. pose proof (open_rec s I _ _ H2 C2) as B. congruence.
Qed.

(* at most two writeMsg calls per call: one retry *)
Theorem single_retry evs s t th :
  run evs init = Some s -> mget (threads s) t = Some th -> t_writes th <= 2.
Proof.
  intros R Ht. pose proof (i_wr s (reachable_inv _ _ R) _ _ Ht) as W. unfold writes_ok in W.
  destruct (t_pc th) as [| | | | |? [|]|? [|]|? [|]|? [|]|]; lia.
Qed.

Lemma fail_exchange_spec s t th sd x st y r cr e :
  nth_error (senders s) sd = Some x -> sd_stream x = Some st -> nth_error (streams s) st = Some y ->
  option_map sm_cli (nth_error (streams (fail_exchange s t th sd x r cr e)) st) = Some CReset /\
  option_map sd_stream (nth_error (senders (fail_exchange s t th sd x r cr e)) sd) = Some None /\
  option_map t_pc (mget (threads (fail_exchange s t th sd x r cr e)) t)
    = Some (if r || negb cr then PDone (RErr e) else PLoop sd true).
Proof.
  intros Hx Hs Hy. unfold fail_exchange, reset_stream, mark_stream. rewrite Hs, Hy.
  destruct (r || negb cr); proj; look; rewrite !Nat.eqb_refl; rewrite ?Hx, ?Hy; proj; auto.
Qed.

(* a request whose reply did not arrive before the read timeout: the stream is
   reset and dropped; the call fails, or -- the first time -- retries once on a
   new stream (its sender has none left) *)
Theorem timeout_fails evs s t th sd r s' :
  run evs init = Some s -> mget (threads s) t = Some th -> t_pc th = PRead sd r ->
  step s (ETimeout t) = Some s' ->
  exists x st, nth_error (senders s) sd = Some x /\ sd_stream x = Some st /\
    option_map sm_cli (nth_error (streams s') st) = Some CReset /\
    option_map sd_stream (nth_error (senders s') sd) = Some None /\
    option_map t_pc (mget (threads s') t) = Some (if r then PDone (RErr ETimedOut) else PLoop sd true).
Proof.
  intros R Ht Hp H. pose proof (reachable_inv _ _ R) as I. simpl in H. rewrite Ht, Hp in H.
  destruct (nth_error (senders s) sd) as [x|] eqn:Hx; [|discriminate]. injection H as <-.
  pose proof (i_strm s I _ _ sd Ht) as F. rewrite Hp, Hx in F. specialize (F eq_refl). simpl in F.
  unfold has_stream in F. destruct (sd_stream x) as [st|] eqn:Hs; [|discriminate].
  destruct (cur_rec s I _ _ _ Hx Hs) as (_ & A & _). destruct (nth_error (streams s) st) as [y|] eqn:Hy; [|discriminate].
  exists x, st. split; [reflexivity|]. split; [exact Hs|].
  pose proof (fail_exchange_spec s t th sd x st y r true ETimedOut Hx Hs Hy) as S.
  rewrite Bool.orb_false_r in S. exact S.
Qed.

Theorem cancel_fails evs s t th sd r k s' :
  run evs init = Some s -> mget (threads s) t = Some th -> t_pc th = PRead sd r -> t_ctx th = Some k ->
  step s (EReadCtx t) = Some s' ->
  exists x st, nth_error (senders s) sd = Some x /\ sd_stream x = Some st /\
    option_map sm_cli (nth_error (streams s') st) = Some CReset /\
    option_map sd_stream (nth_error (senders s') sd) = Some None /\
    option_map t_pc (mget (threads s') t)
      = Some (match k with
              | CCancel => PDone (RErr (ECtxErr CCancel))
              | CDeadline => if r then PDone (RErr (ECtxErr CDeadline)) else PLoop sd true
              end).
Proof.
  intros R Ht Hp Hk H. pose proof (reachable_inv _ _ R) as I. simpl in H. rewrite Ht, Hp, Hk in H.
  destruct (nth_error (senders s) sd) as [x|] eqn:Hx; [|discriminate]. injection H as <-.
  pose proof (i_strm s I _ _ sd Ht) as F. rewrite Hp, Hx in F. specialize (F eq_refl). simpl in F.
  unfold has_stream in F. destruct (sd_stream x) as [st|] eqn:Hs; [|discriminate].
  destruct (cur_rec s I _ _ _ Hx Hs) as (_ & A & _). destruct (nth_error (streams s) st) as [y|] eqn:Hy; [|discriminate].
  exists x, st. split; [reflexivity|]. split; [exact Hs|].
  pose proof (fail_exchange_spec s t th sd x st y r (match k with CCancel => false | CDeadline => true end)
                                 (ECtxErr k) Hx Hs Hy) as S.
  destruct k; simpl in S; rewrite ?Bool.orb_true_r, ?Bool.orb_false_r in S; exact S.
Qed.

(* a stream the client reset or closed stays so, and nothing is written to it again *)
Lemma step_closed s e s' st y :
  Inv s -> step s e = Some s' -> nth_error (streams s) st = Some y -> sm_cli y <> COpen ->
  exists y', nth_error (streams s') st = Some y' /\ sm_cli y' = sm_cli y /\
             (sm_pending y' = sm_pending y \/ sm_pending y' = tl (sm_pending y)).
Proof.
  intros I H Hy Hc. destruct e; start_ev I H.
  all: try (match goal with Ht : mget (threads _) _ = Some _ |- _ => thread_facts I Ht end).
  all: proj; look; repeat caseq; norm; try (sat; destr_and; norm).
  all: try congruence.
  all: try solve [eexists; split; [reflexivity|]; proj; split; [reflexivity|auto]].
  all: try solve [eexists; split; [eassumption|]; proj; split; [reflexivity|auto]].
  all: try fresh_absurd.
  all: eexists; split; [reflexivity|]; proj; split; [auto|]; right;
       match goal with Hp : sm_pending _ = _ :: _ |- _ => rewrite Hp end; reflexivity.
Qed.

Theorem closed_forever evs : forall s s' st y,
  Inv s -> run evs s = Some s' -> nth_error (streams s) st = Some y -> sm_cli y <> COpen ->
  exists y' k, nth_error (streams s') st = Some y' /\ sm_cli y' = sm_cli y /\
               sm_pending y' = skipn k (sm_pending y).
Proof.
  induction evs as [|e evs IH]; intros s s' st y I R Hy Hc; simpl in R.
  - injection R as <-. exists y, 0. auto.
  - destruct (step s e) as [s1|] eqn:E; [|discriminate].
    destruct (step_closed s e s1 st y I E Hy Hc) as (y1 & Hy1 & C1 & P1).
    destruct (IH s1 s' st y1 (step_inv _ _ _ I E) R Hy1) as (y' & k & A & B & C); [congruence|].
    destruct P1 as [P1|P1].
    + exists y', k. rewrite A, B, C, C1, P1. auto.
    + exists y', (S k). rewrite A, B, C, C1, P1. split; [auto|]. split; [auto|].
      destruct (sm_pending y); [destruct k; reflexivity|reflexivity].
Qed.

(* the stream of a failed exchange is never the current stream of any sender again *)
Theorem closed_not_current evs s sd x st y :
  run evs init = Some s -> nth_error (senders s) sd = Some x -> sd_stream x = Some st ->
  nth_error (streams s) st = Some y -> sm_cli y = COpen.
Proof.
  intros R Hx Hs Hy. destruct (cur_rec s (reachable_inv _ _ R) _ _ _ Hx Hs) as (_ & _ & B & _).
  rewrite Hy in B. simpl in B. congruence.
Qed.

(* a call returns a reply only through the read of its exchange *)
Lemma ok_only_by_read s e s' t id :
  step s e = Some s' ->
  tpc s t <> Some (PDone (ROk (Some id))) -> tpc s' t = Some (PDone (ROk (Some id))) -> e = ERead t.
Proof.
  unfold tpc. intros H N A. destruct e; simpl in H;
    unfold fail_exchange, finish, reset_stream, invalidate, mark_stream in H; dm H; inj.
  all: proj; look; repeat caseq; norm; try congruence.
  all: try solve [exfalso; apply N; assumption].
Qed.

(* the ghost counter t_writes counts the write events of the call *)
Definition tw (s : state) (t : nat) : nat := match mget (threads s) t with Some th => t_writes th | None => 0 end.
Definition wr (e : event) (t : nat) : nat :=
  match e with EWriteOk u | EWriteFail u => if Nat.eqb u t then 1 else 0 | _ => 0 end.
Fixpoint count_writes (evs : list event) (t : nat) : nat :=
  match evs with [] => 0 | e :: r => wr e t + count_writes r t end.

Lemma step_tw s e s' t : Inv s -> step s e = Some s' -> tw s' t = tw s t + wr e t.
Proof.
  unfold tw. intros I H. destruct e; start_ev I H.
  all: try (match goal with Ht : mget (threads _) _ = Some _ |- _ => thread_facts I Ht end).
  all: unfold has_stream in *; cbn [wr] in *; proj; look; rewrite ?Nat.eqb_refl in *; repeat caseq; norm; try lia; try congruence.
  all: try (destruct (mget (threads s) t); lia).
Qed.

Lemma run_tw evs : forall s s' t, Inv s -> run evs s = Some s' -> tw s' t = tw s t + count_writes evs t.
Proof.
  induction evs as [|e evs IH]; intros s s' t I R; simpl in R.
  - injection R as <-. simpl. lia.
  - destruct (step s e) as [s1|] eqn:E; [|discriminate].
    rewrite (IH s1 s' t (step_inv _ _ _ I E) R), (step_tw s e s1 t I E). simpl. lia.
Qed.

(* for every event list: a call's writeMsg events number at most two *)
Theorem single_retry_events evs s t : run evs init = Some s -> count_writes evs t <= 2.
Proof.
  intro R. pose proof (run_tw evs init s t Inv_init R) as E. unfold tw at 2 in E. simpl in E.
  unfold tw in E. destruct (mget (threads s) t) as [th|] eqn:Ht; [|lia].
  pose proof (single_retry evs s t th R Ht). lia.
Qed.

(* ---- a sender whose prepOrInvalidate failed after taking the lock is invalidated ---- *)
(* Since d646d02 the pc PFailed is reached only after invalidate(); the flag is never cleared. *)
Definition failed_inv (s : state) : Prop :=
  forall t th sd e, mget (threads s) t = Some th -> t_pc th = PFailed sd e ->
                    option_map sd_invalid (nth_error (senders s) sd) = Some true.

Lemma failed_init : failed_inv init.
Proof. unfold failed_inv. simpl. intros; discriminate. Qed.

Ltac satm := repeat match goal with
  | Mv : forall sd x, nth_error _ sd = Some x -> sd_invalid x = false -> _,
    H : nth_error (senders _) _ = Some ?x, H0 : sd_invalid ?x = false |- _ => learn (Mv _ _ H H0)
  | Mf : forall t th sd e, mget _ t = Some th -> t_pc th = PFailed sd e -> _,
    H : mget (threads _) _ = Some ?th, H0 : t_pc ?th = PFailed _ _ |- _ => learn (Mf _ _ _ _ H H0)
  end.

Lemma step_failed s e s' : Inv s -> failed_inv s -> step s e = Some s' -> failed_inv s'.
Proof.
  intros I Mf H. unfold failed_inv in *.
  destruct e; start_ev I H.
  all: try (match goal with Ht : mget (threads _) _ = Some _ |- _ => thread_facts I Ht end).
  all: intros; unfold has_stream in *; proj; look; repeat caseq; norm; try fin.
  all: try (satm; norm; fin).
Qed.

Lemma run_failed evs : forall s s', Inv s -> failed_inv s -> run evs s = Some s' -> failed_inv s'.
Proof.
  induction evs as [|e evs IH]; intros s s' I M R; simpl in R.
  - injection R as <-. exact M.
  - destruct (step s e) as [s1|] eqn:E; [|discriminate].
    apply (IH s1 s' (step_inv _ _ _ I E)); auto. eapply step_failed; eauto.
Qed.

Theorem reachable_failed evs s : run evs init = Some s -> failed_inv s.
Proof. apply run_failed; [exact Inv_init|exact failed_init]. Qed.

(* A mapped sender leaves the map only through OnDisconnect, or once it has been
   invalidated (the positive statement that replaces the stream-leak refutation
   of the tree before d646d02). *)
Theorem map_entry_stable evs s e s' p sd :
  run evs init = Some s -> step s e = Some s' -> mget (smap s) p = Some sd -> e <> EDisc p ->
  mget (smap s') p = Some sd \/ option_map sd_invalid (nth_error (senders s) sd) = Some true.
Proof.
  intros R H Hm Ne. pose proof (reachable_inv _ _ R) as I. pose proof (reachable_failed _ _ R) as Mf.
  unfold failed_inv in Mf.
  destruct e; start_ev I H.
  all: try (match goal with Ht : mget (threads _) _ = Some _ |- _ => thread_facts I Ht end).
  all: proj; look; repeat caseq; norm; try solve [left; fin]; try congruence.
  all: try solve [left; congruence].
  all: try (right; satm; norm; fin).
Qed.

(* ---- one stream per peer, as long as no OnDisconnect orphaned a sender record ---- *)
(* the event is not the critical section of OnDisconnect *)
Definition no_disc (e : event) : bool := match e with EDisc _ => false | _ => true end.

(* without OnDisconnect every valid sender is the mapped one *)
Definition mapped (s : state) : Prop :=
  forall sd x, nth_error (senders s) sd = Some x -> sd_invalid x = false ->
               mget (smap s) (sd_peer x) = Some sd.

Lemma mapped_init : mapped init.
Proof. unfold mapped. simpl. intros sd x H. destruct sd; discriminate. Qed.

Lemma step_mapped s e s' :
  Inv s -> failed_inv s -> mapped s -> no_disc e = true -> step s e = Some s' -> mapped s'.
Proof.
  intros I Mf Mv O H. unfold mapped, failed_inv in *.
  destruct e; try discriminate O; start_ev I H.
  all: try (match goal with Ht : mget (threads _) _ = Some _ |- _ => thread_facts I Ht end).
  all: intros; unfold has_stream in *; proj; look; repeat caseq; norm; try fin.
  all: try (satm; norm; fin).
  all: match goal with
  | Hx : nth_error (senders _) ?sd0 = Some ?x, Hi : sd_invalid ?x = false, He : sd_peer ?x = t_peer ?t0,
    Hm : mget (smap _) (t_peer ?t0) = Some ?sd, Ht : mget (threads _) _ = Some ?t0, Hp : t_pc ?t0 = PFailed ?sd _ |- _ =>
      pose proof (Mv _ _ Hx Hi) as A; rewrite He, Hm in A; injection A as <-;
      pose proof (Mf _ _ _ _ Ht Hp) as B; rewrite Hx in B; simpl in B; congruence
  end.
Qed.

Lemma run_mapped evs : forall s s', Inv s -> failed_inv s -> mapped s ->
  forallb no_disc evs = true -> run evs s = Some s' -> mapped s'.
Proof.
  induction evs as [|e evs IH]; intros s s' I Mf M F R; simpl in R, F.
  - injection R as <-. exact M.
  - destruct (step s e) as [s1|] eqn:E; [|discriminate]. apply andb_prop in F. destruct F as [F1 F2].
    apply (IH s1 s' (step_inv _ _ _ I E) (step_failed _ _ _ I Mf E)); auto. eapply step_mapped; eauto.
Qed.

(* exchanges with one peer go over at most one stream, as long as no sender
   record was orphaned by a disconnect notification *)
Theorem one_stream_per_peer evs s st1 y1 st2 y2 :
  run evs init = Some s -> forallb no_disc evs = true ->
  nth_error (streams s) st1 = Some y1 -> sm_cli y1 = COpen ->
  nth_error (streams s) st2 = Some y2 -> sm_cli y2 = COpen ->
  sm_peer y1 = sm_peer y2 -> st1 = st2.
Proof.
  intros R F H1 C1 H2 C2 P. pose proof (reachable_inv _ _ R) as I.
  pose proof (run_mapped evs init s Inv_init failed_init mapped_init F R) as M.
  pose proof (open_rec s I _ _ H1 C1) as A1. pose proof (open_rec s I _ _ H2 C2) as A2.
  destruct (nth_error (senders s) (sm_owner y1)) as [x1|] eqn:X1; [|discriminate].
  destruct (nth_error (senders s) (sm_owner y2)) as [x2|] eqn:X2; [|discriminate].
  simpl in A1, A2. injection A1 as A1. injection A2 as A2.
  destruct (cur_rec s I _ _ _ X1 A1) as (V1 & _ & _ & P1). destruct (cur_rec s I _ _ _ X2 A2) as (V2 & _ & _ & P2).
  rewrite H1 in P1. rewrite H2 in P2. simpl in P1, P2. injection P1 as P1. injection P2 as P2.
  pose proof (M _ _ X1 V1) as M1. pose proof (M _ _ X2 V2) as M2.
  assert (sm_owner y1 = sm_owner y2) by congruence.
  eapply one_stream_per_sender; eauto.
Qed.

Theorem failed_prep_invalidated evs s t th sd e :
  run evs init = Some s -> mget (threads s) t = Some th -> t_pc th = PFailed sd e ->
  option_map sd_invalid (nth_error (senders s) sd) = Some true.
Proof. intro R. exact (reachable_failed evs s R t th sd e). Qed.

Theorem valid_sender_is_mapped evs s sd x :
  run evs init = Some s -> forallb no_disc evs = true ->
  nth_error (senders s) sd = Some x -> sd_invalid x = false -> mget (smap s) (sd_peer x) = Some sd.
Proof. intros R F. exact (run_mapped evs init s Inv_init failed_init mapped_init F R sd x). Qed.

Theorem closed_forever_reach evs0 evs s s' st y :
  run evs0 init = Some s -> run evs s = Some s' ->
  nth_error (streams s) st = Some y -> sm_cli y <> COpen ->
  exists y' k, nth_error (streams s') st = Some y' /\ sm_cli y' = sm_cli y /\
               sm_pending y' = skipn k (sm_pending y).
Proof. intros R0 R. apply (closed_forever evs); [exact (reachable_inv _ _ R0)|exact R]. Qed.
