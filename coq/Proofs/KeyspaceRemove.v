(* Remove (go-libdht) keeps tries well formed (C18 support). *)
From Verif.Lib Require Import GoSem Bits.
From Verif.Model Require Import Trie Keyspace.
From Verif.Proofs Require Import KeyspaceBase KeyspaceProofs KeyspaceNext.
From Coq Require Import Permutation.

Section Remove.
Context {D : Type}.
Variable k : bits.

Definition other_key (e : bits * D) : bool := negb (bits_eqb (fst e) k).

Lemma shrink_wf p (t0 t1 : trie D) :
  wf_at (p ++ [false]) t0 -> wf_at (p ++ [true]) t1 ->
  wf_at p (shrink (Nd t0 t1)) /\ entries (shrink (Nd t0 t1)) = entries t0 ++ entries t1.
Proof.
  intros W0 W1. destruct t0 as [|k0 d0|a0 b0]; destruct t1 as [|k1 d1|a1 b1]; simpl in *;
    repeat split; auto; try (eapply is_prefix_snoc_l; eassumption); try lia; try apply W0; try apply W1.
  all: try (destruct W0 as [_ [_ P]]; lia). all: try (destruct W1 as [_ [_ P]]; lia).
Qed.

Lemma remove_at_spec (t : trie D) : forall p,
  wf_at p t -> is_prefix p k = true -> locatable k t ->
  exists t' b, remove_at (length p) t k = Ok (t', b) /\ wf_at p t' /\
               entries t' = filter other_key (entries t) /\
               (b = true <-> In k (keys_of t)).
Proof.
  induction t as [|k' d|t0 IH0 t1 IH1]; intros p Hw Hp Hloc.
  - exists E, false. simpl. repeat split; auto; try discriminate; try (intros []).
  - simpl. unfold other_key. simpl. destruct (bits_eqb k' k) eqn:Eb.
    + apply bits_eqb_eq in Eb. subst. exists E, true. simpl. split; [reflexivity|]. split; [exact I|]. split; [reflexivity|].
      split; [intros _; left; reflexivity|reflexivity].
    + exists (L k' d), false. simpl. split; [reflexivity|]. split; [exact Hw|]. split; [reflexivity|].
      split; [discriminate|]. intros [X|[]]. apply bits_eqb_neq in Eb. congruence.
  - pose proof (locatable_longer k p t0 t1 Hw Hp Hloc) as Lk.
    destruct (bit_at_lt k (length p) Lk) as [b [Hb Hn]].
    cbn [remove_at]. rewrite Hb. cbn [bind].
    assert (Hp' : is_prefix (p ++ [b]) k = true) by (apply is_prefix_snoc; auto).
    assert (Hlen : S (length p) = length (p ++ [b])) by (rewrite app_length; simpl; lia).
    rewrite Hlen.
    assert (IH : exists t' r, remove_at (length (p ++ [b])) (child t0 t1 b) k = Ok (t', r) /\
               wf_at (p ++ [b]) t' /\ entries t' = filter other_key (entries (child t0 t1 b)) /\
               (r = true <-> In k (keys_of (child t0 t1 b)))).
    { pose proof (wf_at_child p t0 t1 b Hw) as Wc. pose proof (locatable_child k t0 t1 b Hloc) as Lc.
      destruct b; simpl child in *; [apply IH1|apply IH0]; auto. }
    destruct IH as [c [r [E1 [Wc [Ec Hr]]]]]. rewrite E1. cbn [bind fst snd].
    (* entries of the other branch do not carry k *)
    assert (Keep : filter other_key (entries (child t0 t1 (negb b))) = entries (child t0 t1 (negb b))).
    { apply filter_all. intros e He. unfold other_key. apply negb_true_iff. apply bits_eqb_neq. intro X.
      pose proof (wf_at_entries_prefix _ _ _ (wf_at_child p t0 t1 (negb b) Hw) He) as P. rewrite X in P.
      destruct b; simpl in P.
      - destruct (siblings_incomparable p k k P Hp') as [C _]. rewrite is_prefix_refl in C. discriminate.
      - destruct (siblings_incomparable p k k Hp' P) as [C _]. rewrite is_prefix_refl in C. discriminate. }
    assert (NotOther : ~ In k (keys_of (child t0 t1 (negb b)))).
    { intro X. pose proof (wf_at_keys_prefix _ _ _ (wf_at_child p t0 t1 (negb b) Hw) X) as P.
      destruct b; simpl in P.
      - destruct (siblings_incomparable p k k P Hp') as [C _]. rewrite is_prefix_refl in C. discriminate.
      - destruct (siblings_incomparable p k k Hp' P) as [C _]. rewrite is_prefix_refl in C. discriminate. }
    destruct r.
    + (* removed below: shrink *)
      pose proof (wf_at_child p t0 t1 (negb b) Hw) as Wo.
      exists (shrink (set_child t0 t1 b c)), true. split; [reflexivity|].
      destruct b; simpl set_child; simpl child in *.
      * destruct (shrink_wf p t0 c Wo Wc) as [A B]. split; [exact A|]. split.
        -- rewrite B. simpl. rewrite filter_app, Ec, Keep. reflexivity.
        -- split; [intros _|reflexivity]. rewrite keys_of_Nd. apply in_or_app. right. apply Hr. reflexivity.
      * destruct (shrink_wf p c t1 Wc Wo) as [A B]. split; [exact A|]. split.
        -- rewrite B. simpl. rewrite filter_app, Ec, Keep. reflexivity.
        -- split; [intros _|reflexivity]. rewrite keys_of_Nd. apply in_or_app. left. apply Hr. reflexivity.
    + (* nothing removed: the trie is returned as it is *)
      exists (Nd t0 t1), false. split; [reflexivity|]. split; [exact Hw|]. split.
      * simpl. rewrite filter_app.
        assert (Same : filter other_key (entries (child t0 t1 b)) = entries (child t0 t1 b)).
        { apply filter_all. intros e He. unfold other_key. apply negb_true_iff. apply bits_eqb_neq. intro X.
          assert (In k (keys_of (child t0 t1 b))) by (rewrite <- X; apply in_map; exact He).
          apply Hr in H. discriminate. }
        destruct b; simpl in *; rewrite Same, Keep; reflexivity.
      * split; [discriminate|]. rewrite keys_of_Nd. intro X. exfalso.
        apply in_app_or in X. destruct b; simpl in *; destruct X as [X|X]; auto;
          apply Hr in X; discriminate.
Qed.

(* Remove of a key that is in the trie or comparable with none of its keys: no panic; the trie
   stays well formed and loses exactly the entry of that key *)
Theorem remove_wf (t : trie D) :
  wf t -> locatable k t ->
  exists t' b, remove t k = Ok (t', b) /\ wf t' /\
               entries t' = filter other_key (entries t) /\ (b = true <-> In k (keys_of t)).
Proof. intros Hw Hloc. apply (remove_at_spec t [] Hw eq_refl Hloc). Qed.

End Remove.
