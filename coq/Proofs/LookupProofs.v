(* The lookup state machine (Model/Lookup.v): invariant over all event lists. *)
From Verif.Lib Require Import GoSem.
From Verif.Model Require Import Lookup.
From Verif.Proofs Require Import LookupBasics.
From Coq Require Import Permutation Sorted.
Local Open Scope N_scope.

Lemma resp_heard_app a b : resp_heard (a ++ b) = resp_heard a ++ resp_heard b.
Proof. unfold resp_heard. apply flat_map_app. Qed.
Lemma resp_queried_app a b : resp_queried (a ++ b) = resp_queried a ++ resp_queried b.
Proof. unfold resp_queried. apply flat_map_app. Qed.
Lemma resp_failed_app a b : resp_failed (a ++ b) = resp_failed a ++ resp_failed b.
Proof. unfold resp_failed. apply flat_map_app. Qed.
Lemma req_peers_app a b : req_peers (a ++ b) = req_peers a ++ req_peers b.
Proof. unfold req_peers. apply flat_map_app. Qed.

Lemma NoDup_snoc_local {A} (l : list A) p : NoDup l -> ~ In p l -> NoDup (l ++ [p]).
Proof.
  intros H1 H2. apply (Permutation_NoDup (l := p :: l)); [apply Permutation_cons_append|constructor; assumption].
Qed.

Lemma NoDup_insert_mid {A} (a b : list A) p : NoDup (a ++ b) -> ~ In p (a ++ b) -> NoDup (a ++ p :: b).
Proof.
  intros H1 H2. apply (Permutation_NoDup (l := p :: a ++ b)); [apply Permutation_middle|constructor; assumption].
Qed.

Section Lk.
Variable c : config.
Variable env : id -> outcome.
Variable seeds : list id.
Let self := cSelf c.

(* ---- the fold over the heard peers of an update ----------------------------------- *)
Definition add_heard (cause : id) (l : list pentry) (hs : list id) : list pentry :=
  fold_left (fun l p => if N.eqb p self then l else try_add l p cause) hs l.

Lemma add_heard_spec cause hs : forall l, NoDup (ids l) ->
  let l' := add_heard cause l hs in
  NoDup (ids l') /\
  (forall q, In q (ids l') <-> In q (ids l) \/ (In q hs /\ q <> self)) /\
  (forall q s, state_of l q = Some s -> state_of l' q = Some s) /\
  (forall q, state_of l q = None -> In q (ids l') -> state_of l' q = Some Heard) /\
  (forall st, st <> Heard -> num_in_state st l' = num_in_state st l).
Proof.
  unfold add_heard. induction hs as [|h hs IH]; intros l ND; simpl.
  - split; [exact ND|]. split; [intro q; split; [auto|intros [H|[[] _]]; exact H]|].
    split; [auto|]. split; [|reflexivity]. intros q Hn Hin. apply state_of_None in Hn. contradiction.
  - destruct (N.eqb h self) eqn:E.
    + apply N.eqb_eq in E. destruct (IH l ND) as (A & B & C & D & F).
      split; [exact A|]. split; [|split; [exact C|split; [exact D|exact F]]].
      intro q. rewrite B. split; [intros [H|[H1 H2]]; auto|intros [H|[[H1|H1] H2]]; auto]. congruence.
    + apply N.eqb_neq in E.
      destruct (IH (try_add l h cause) (try_add_nodup l h cause ND)) as (A & B & C & D & F).
      split; [exact A|]. split; [|split; [|split]].
      * intro q. rewrite B, try_add_ids. destruct (in_dec N.eq_dec h (ids l)) as [Hh|Hh].
        -- split; [intros [H|[H1 H2]]; auto|intros [H|[[H1|H1] H2]]; auto]. subst q. auto.
        -- rewrite in_app_iff. simpl. split.
           ++ intros [[H|[H|[]]]|[H1 H2]]; auto. subst q. right. auto.
           ++ intros [H|[[H1|H1] H2]]; auto.
      * intros q s Hs. apply C. rewrite state_of_try_add. destruct (N.eqb q h) eqn:Eq; [|exact Hs].
        apply N.eqb_eq in Eq. subst q. rewrite Hs. reflexivity.
      * intros q Hn Hin. destruct (state_of (try_add l h cause) q) as [s|] eqn:S.
        -- rewrite (C q s S). f_equal. rewrite state_of_try_add in S. destruct (N.eqb q h) eqn:Eq.
           ++ apply N.eqb_eq in Eq. subst q. rewrite Hn in S. inversion S. reflexivity.
           ++ congruence.
        -- apply D; assumption.
      * intros st Hst. rewrite (F st Hst). apply num_in_state_try_add. exact Hst.
Qed.

(* ---- event well-formedness ------------------------------------------------------------ *)
Definition ev_ok (e : levent) : Prop :=
  match e with
  | EvResp cause h q u =>
      (cause = self /\ h = seeds /\ q = [] /\ u = []) \/
      (cause <> self /\ q = [cause] /\ u = [] /\ exists closer, env cause = OAnswer closer /\ h = process_response c closer) \/
      (cause <> self /\ q = [] /\ u = [cause] /\ h = [] /\ forall closer, env cause <> OAnswer closer)
  | _ => True
  end.

Definition no_term (l : list levent) : Prop := forall e, In e l -> is_term e = false.

Record Inv (s : lstate) : Prop := {
  iv_nodup : NoDup (ids (ps s));
  iv_noself : ~ In self (ids (ps s));
  iv_wait : (num_in_state Waiting (ps s) <= cAlpha c)%nat;
  iv_heard : forall p, In p (ids (ps s)) <-> In p (resp_heard (evlog s)) /\ p <> self;
  iv_unreach : forall p, state_of (ps s) p = Some Unreachable <-> In p (resp_failed (evlog s));
  iv_queried : forall p, state_of (ps s) p = Some Queried <-> In p (resp_queried (evlog s));
  iv_waiting : forall p, state_of (ps s) p = Some Waiting <->
                 In p (req_peers (evlog s)) /\ ~ In p (resp_queried (evlog s)) /\ ~ In p (resp_failed (evlog s));
  iv_evok : Forall ev_ok (evlog s);
  iv_reqs : reqs s = req_peers (evlog s);
  iv_term : match term s with
            | None => no_term (evlog s)
            | Some r => exists l, evlog s = l ++ [EvTerm r] /\ no_term l
            end;
  iv_req_nodup : NoDup (req_peers (evlog s));
  iv_resp_sub : forall p, In p (resp_queried (evlog s) ++ resp_failed (evlog s)) -> In p (req_peers (evlog s));
  iv_resp_nodup : NoDup (resp_queried (evlog s) ++ resp_failed (evlog s));
  iv_seed : exists rest, evlog s = EvResp self seeds [] [] :: rest }.

(* ---- updateState on the update of an in-flight peer ------------------------------------ *)
Lemma update_of_shape p :
  let u := update_of c env p in
  ucause u = p /\
  ((exists closer, env p = OAnswer closer /\ uheard u = process_response c closer /\ uqueried u = [p] /\ uunreach u = []) \/
   ((forall closer, env p <> OAnswer closer) /\ uheard u = [] /\ uqueried u = [] /\ uunreach u = [p])).
Proof.
  unfold update_of. destruct (env p) as [| |closer] eqn:E; simpl; split; try reflexivity.
  - right. split; [intros cl H; discriminate|auto].
  - right. split; [intros cl H; discriminate|auto].
  - left. exists closer. auto.
Qed.

Lemma leave_waiting_ok l p to : NoDup (ids l) -> p <> self -> state_of l p = Some Waiting ->
  exists l', leave_waiting c l p to = Ok l' /\ l' = map (set_entry p to) l /\ ids l' = ids l /\
    (forall q, state_of l' q = if N.eqb q p then Some to else state_of l q).
Proof.
  intros ND Hp Hs. unfold leave_waiting. fold self.
  destruct (N.eqb p self) eqn:E; [apply N.eqb_eq in E; contradiction|].
  rewrite (get_state_ok _ _ _ Hs). simpl.
  apply set_state_ok. eapply state_of_Some_In; eauto.
Qed.

Lemma update_arrive s p : Inv s -> term s = None -> state_of (ps s) p = Some Waiting ->
  exists s1, update_state c s (update_of c env p) = Ok s1 /\ Inv s1 /\ term s1 = None /\
    (num_in_state Waiting (ps s1) + 1 = num_in_state Waiting (ps s))%nat.
Proof.
  intros I T W. unfold update_state. rewrite T.
  pose proof (update_of_shape p) as Hshape. cbv zeta in Hshape.
  remember (update_of c env p) as u eqn:Equ. destruct Hshape as [Hc Hsh].
  assert (Pin: In p (ids (ps s))) by (eapply state_of_Some_In; eauto).
  assert (Pself: p <> self) by (intro Ep; rewrite Ep in Pin; exact (iv_noself _ I Pin)).
  cbn [ps log_ev evlog].
  change (fold_left (fun l p0 => if N.eqb p0 (cSelf c) then l else try_add l p0 (ucause u)) (uheard u) (ps s))
    with (add_heard (ucause u) (ps s) (uheard u)).
  destruct (add_heard_spec (ucause u) (uheard u) (ps s) (iv_nodup _ I)) as (A & B & C & D & F).
  set (l1 := add_heard (ucause u) (ps s) (uheard u)) in *.
  assert (W1: state_of l1 p = Some Waiting) by (apply C; exact W).
  assert (NW1: num_in_state Waiting l1 = num_in_state Waiting (ps s)) by (apply F; discriminate).
  destruct Hsh as [(closer & Eenv & Hh & Hq & Hu)|(Hfail & Hh & Hq & Hu)]; rewrite Hq, Hu; cbn [leave_waiting_all bind].
  - (* answer: p becomes Queried *)
    destruct (leave_waiting_ok l1 p Queried A Pself W1) as (l2 & E2 & Eq2 & Ids2 & St2).
    rewrite E2. cbn [bind].
    eexists. split; [reflexivity|]. unfold with_ps, log_ev. cbn [ps term evlog reqs].
    assert (Cnt: (num_in_state Waiting l2 + 1 = num_in_state Waiting (ps s))%nat).
    { rewrite Eq2. pose proof (num_in_state_set l1 p Queried Waiting Waiting A W1) as H. simpl in H. lia. }
    split; [|split; [exact T|exact Cnt]].
    split; cbn [ps term evlog reqs].
    + rewrite Ids2. exact A.
    + rewrite Ids2, B. intros [H|[_ H]]; [exact (iv_noself _ I H)|congruence].
    + pose proof (iv_wait _ I). lia.
    + intro q. rewrite Ids2, B, resp_heard_app, in_app_iff, (iv_heard _ I). cbn [resp_heard flat_map]. rewrite app_nil_r.
      fold self. tauto.
    + intro q. rewrite St2, resp_failed_app, in_app_iff. cbn [resp_failed flat_map]. simpl.
      destruct (N.eqb q p) eqn:E.
      * apply N.eqb_eq in E. subst q. split; [discriminate|]. intros [H|[]].
        apply (iv_unreach _ I) in H. congruence.
      * rewrite <- (iv_unreach _ I). split.
        -- intro H. left. destruct (state_of (ps s) q) as [sq|] eqn:Sq.
           ++ rewrite (C q sq Sq) in H. exact H.
           ++ assert (In q (ids l1)) by (eapply state_of_Some_In; eauto). rewrite (D q Sq H0) in H. discriminate.
        -- intros [H|[]]. apply C. exact H.
    + intro q. rewrite St2, resp_queried_app, in_app_iff. cbn [resp_queried flat_map]. simpl.
      destruct (N.eqb q p) eqn:E.
      * apply N.eqb_eq in E. subst q. split; [auto|reflexivity].
      * apply N.eqb_neq in E. rewrite <- (iv_queried _ I). split.
        -- intro H. left. destruct (state_of (ps s) q) as [sq|] eqn:Sq.
           ++ rewrite (C q sq Sq) in H. exact H.
           ++ assert (In q (ids l1)) by (eapply state_of_Some_In; eauto). rewrite (D q Sq H0) in H. discriminate.
        -- intros [H|[H|[]]]; [apply C; exact H|congruence].
    + intro q. rewrite St2, req_peers_app, resp_queried_app, resp_failed_app, !in_app_iff.
      cbn [req_peers resp_queried resp_failed flat_map]. simpl.
      destruct (N.eqb q p) eqn:E.
      * apply N.eqb_eq in E. subst q. split; [discriminate|]. intros [_ [H _]]. exfalso. apply H. auto.
      * apply N.eqb_neq in E. split.
        -- intro H. assert (Hs: state_of (ps s) q = Some Waiting).
           { destruct (state_of (ps s) q) as [sq|] eqn:Sq.
             - rewrite (C q sq Sq) in H. exact H.
             - assert (In q (ids l1)) by (eapply state_of_Some_In; eauto). rewrite (D q Sq H0) in H. discriminate. }
           apply (iv_waiting _ I) in Hs. destruct Hs as (R & NQ & NF).
           split; [left; exact R|]. split; [intros [H1|[H1|[]]]; [contradiction|congruence]|intros [H1|[]]; contradiction].
        -- intros [[R|[]] [NQ NF]]. apply C. apply (iv_waiting _ I). split; [exact R|]. split; intro H; [apply NQ|apply NF]; auto.
    + apply Forall_app. split; [apply (iv_evok _ I)|]. constructor; [|constructor]. simpl.
      right. left. rewrite Hc. split; [exact Pself|]. split; [reflexivity|]. split; [reflexivity|]. exists closer. auto.
    + rewrite req_peers_app. cbn [req_peers flat_map]. rewrite app_nil_r. apply (iv_reqs _ I).
    + rewrite T. pose proof (iv_term _ I) as NT. rewrite T in NT. intros e He. apply in_app_iff in He.
      destruct He as [He|[<-|[]]]; [apply NT; exact He|reflexivity].
    + rewrite req_peers_app. cbn [req_peers flat_map]. rewrite app_nil_r. apply (iv_req_nodup _ I).
    + intro q. rewrite req_peers_app, resp_queried_app, resp_failed_app. cbn [req_peers resp_queried resp_failed flat_map].
      rewrite !app_nil_r. rewrite !in_app_iff. simpl. intros [[H|[H|[]]]|H].
      * apply (iv_resp_sub _ I). apply in_app_iff. auto.
      * subst q. apply (iv_waiting _ I) in W. tauto.
      * apply (iv_resp_sub _ I). apply in_app_iff. auto.
    + rewrite resp_queried_app, resp_failed_app. cbn [resp_queried resp_failed flat_map]. rewrite !app_nil_r, <- app_assoc. simpl.
      apply NoDup_insert_mid; [apply (iv_resp_nodup _ I)|].
      apply (iv_waiting _ I) in W. rewrite in_app_iff. tauto.
    + destruct (iv_seed _ I) as [rest ->]. eexists. reflexivity.
  - (* failure: p becomes Unreachable *)
    destruct (leave_waiting_ok l1 p Unreachable A Pself W1) as (l2 & E2 & Eq2 & Ids2 & St2).
    rewrite E2. cbn [bind].
    eexists. split; [reflexivity|]. unfold with_ps, log_ev. cbn [ps term evlog reqs].
    assert (Cnt: (num_in_state Waiting l2 + 1 = num_in_state Waiting (ps s))%nat).
    { rewrite Eq2. pose proof (num_in_state_set l1 p Unreachable Waiting Waiting A W1) as H. simpl in H. lia. }
    split; [|split; [exact T|exact Cnt]].
    split; cbn [ps term evlog reqs].
    + rewrite Ids2. exact A.
    + rewrite Ids2, B. intros [H|[_ H]]; [exact (iv_noself _ I H)|congruence].
    + pose proof (iv_wait _ I). lia.
    + intro q. rewrite Ids2, B, resp_heard_app, in_app_iff, (iv_heard _ I). cbn [resp_heard flat_map]. rewrite app_nil_r.
      fold self. tauto.
    + intro q. rewrite St2, resp_failed_app, in_app_iff. cbn [resp_failed flat_map]. simpl.
      destruct (N.eqb q p) eqn:E.
      * apply N.eqb_eq in E. subst q. split; [auto|reflexivity].
      * apply N.eqb_neq in E. rewrite <- (iv_unreach _ I). split.
        -- intro H. left. destruct (state_of (ps s) q) as [sq|] eqn:Sq.
           ++ rewrite (C q sq Sq) in H. exact H.
           ++ assert (In q (ids l1)) by (eapply state_of_Some_In; eauto). rewrite (D q Sq H0) in H. discriminate.
        -- intros [H|[H|[]]]; [apply C; exact H|congruence].
    + intro q. rewrite St2, resp_queried_app, in_app_iff. cbn [resp_queried flat_map]. simpl.
      destruct (N.eqb q p) eqn:E.
      * apply N.eqb_eq in E. subst q. split; [discriminate|]. intros [H|[]].
        apply (iv_queried _ I) in H. congruence.
      * rewrite <- (iv_queried _ I). split.
        -- intro H. left. destruct (state_of (ps s) q) as [sq|] eqn:Sq.
           ++ rewrite (C q sq Sq) in H. exact H.
           ++ assert (In q (ids l1)) by (eapply state_of_Some_In; eauto). rewrite (D q Sq H0) in H. discriminate.
        -- intros [H|[]]. apply C. exact H.
    + intro q. rewrite St2, req_peers_app, resp_queried_app, resp_failed_app, !in_app_iff.
      cbn [req_peers resp_queried resp_failed flat_map]. simpl.
      destruct (N.eqb q p) eqn:E.
      * apply N.eqb_eq in E. subst q. split; [discriminate|]. intros [_ [_ H]]. exfalso. apply H. auto.
      * apply N.eqb_neq in E. split.
        -- intro H. assert (Hs: state_of (ps s) q = Some Waiting).
           { destruct (state_of (ps s) q) as [sq|] eqn:Sq.
             - rewrite (C q sq Sq) in H. exact H.
             - assert (In q (ids l1)) by (eapply state_of_Some_In; eauto). rewrite (D q Sq H0) in H. discriminate. }
           apply (iv_waiting _ I) in Hs. destruct Hs as (R & NQ & NF).
           split; [left; exact R|]. split; [intros [H1|[]]; contradiction|intros [H1|[H1|[]]]; [contradiction|congruence]].
        -- intros [[R|[]] [NQ NF]]. apply C. apply (iv_waiting _ I). split; [exact R|]. split; intro H; [apply NQ|apply NF]; auto.
    + apply Forall_app. split; [apply (iv_evok _ I)|]. constructor; [|constructor]. simpl.
      right. right. rewrite Hc, Hh. split; [exact Pself|]. auto.
    + rewrite req_peers_app. cbn [req_peers flat_map]. rewrite app_nil_r. apply (iv_reqs _ I).
    + rewrite T. pose proof (iv_term _ I) as NT. rewrite T in NT. intros e He. apply in_app_iff in He.
      destruct He as [He|[<-|[]]]; [apply NT; exact He|reflexivity].
    + rewrite req_peers_app. cbn [req_peers flat_map]. rewrite app_nil_r. apply (iv_req_nodup _ I).
    + intro q. rewrite req_peers_app, resp_queried_app, resp_failed_app. cbn [req_peers resp_queried resp_failed flat_map].
      rewrite !app_nil_r. rewrite !in_app_iff. simpl. intros [H|[H|[H|[]]]].
      * apply (iv_resp_sub _ I). apply in_app_iff. auto.
      * apply (iv_resp_sub _ I). apply in_app_iff. auto.
      * subst q. apply (iv_waiting _ I) in W. tauto.
    + rewrite resp_queried_app, resp_failed_app. cbn [resp_queried resp_failed flat_map]. rewrite !app_nil_r, app_assoc.
      apply NoDup_snoc_local; [apply (iv_resp_nodup _ I)|].
      apply (iv_waiting _ I) in W. rewrite in_app_iff. tauto.
    + destruct (iv_seed _ I) as [rest ->]. eexists. reflexivity.
Qed.

(* ---- the seed update ------------------------------------------------------------------------ *)
Lemma update_seed :
  exists s1, update_state c lstate0 {| ucause := self; uheard := seeds; uqueried := []; uunreach := [] |} = Ok s1 /\
    Inv s1 /\ term s1 = None /\ num_in_state Waiting (ps s1) = 0%nat /\
    evlog s1 = [EvResp self seeds [] []].
Proof.
  unfold update_state, lstate0. cbn [term ps log_ev evlog ucause uheard uqueried uunreach leave_waiting_all bind with_ps reqs].
  change (fold_left (fun l p0 => if N.eqb p0 (cSelf c) then l else try_add l p0 self) seeds [])
    with (add_heard self [] seeds).
  destruct (add_heard_spec self seeds [] (NoDup_nil _)) as (A & B & C & D & F).
  set (l1 := add_heard self [] seeds) in *.
  assert (NoSt: forall q st, st <> Heard -> state_of l1 q <> Some st).
  { intros q st Hst H. assert (In q (ids l1)) by (eapply state_of_Some_In; eauto).
    rewrite (D q eq_refl H0) in H. congruence. }
  eexists. split; [reflexivity|]. unfold with_ps, log_ev. cbn [ps term evlog reqs app].
  split; [|split; [reflexivity|split; [|reflexivity]]].
  - split; cbn [ps term evlog reqs app].
    + exact A.
    + rewrite B. intros [[]|[_ H]]. congruence.
    + rewrite (F Waiting); [unfold num_in_state; simpl; lia|discriminate].
    + intro q. rewrite B. cbn [resp_heard flat_map]. rewrite app_nil_r. simpl. fold self. tauto.
    + intro q. simpl. split; [intro H; exfalso; eapply NoSt; [|exact H]; discriminate|intros []].
    + intro q. simpl. split; [intro H; exfalso; eapply NoSt; [|exact H]; discriminate|intros []].
    + intro q. simpl. split; [intro H; exfalso; eapply NoSt; [|exact H]; discriminate|intros [[] _]].
    + constructor; [|constructor]. simpl. left. auto.
    + reflexivity.
    + intros e [<-|[]]. reflexivity.
    + constructor.
    + intros q [].
    + constructor.
    + exists []. reflexivity.
  - cbn [ps]. rewrite (F Waiting); [reflexivity|discriminate].
Qed.

(* ---- terminate ---------------------------------------------------------------------------------- *)
Lemma terminate_inv s r : Inv s -> Inv (terminate s r) /\ term (terminate s r) <> None /\ ps (terminate s r) = ps s.
Proof.
  intro I. unfold terminate. destruct (term s) as [r0|] eqn:T.
  - split; [exact I|]. split; [congruence|reflexivity].
  - unfold log_ev. cbn [ps term evlog reqs]. split; [|split; [discriminate|reflexivity]].
    pose proof (iv_term _ I) as NT. rewrite T in NT.
    split; cbn [ps term evlog reqs].
    + apply (iv_nodup _ I).
    + apply (iv_noself _ I).
    + apply (iv_wait _ I).
    + intro q. rewrite resp_heard_app. cbn [resp_heard flat_map]. rewrite !app_nil_r. apply (iv_heard _ I).
    + intro q. rewrite resp_failed_app. cbn [resp_failed flat_map]. rewrite !app_nil_r. apply (iv_unreach _ I).
    + intro q. rewrite resp_queried_app. cbn [resp_queried flat_map]. rewrite !app_nil_r. apply (iv_queried _ I).
    + intro q. rewrite req_peers_app, resp_queried_app, resp_failed_app. cbn [req_peers resp_queried resp_failed flat_map].
      rewrite !app_nil_r. apply (iv_waiting _ I).
    + apply Forall_app. split; [apply (iv_evok _ I)|]. constructor; [exact Logic.I|constructor].
    + rewrite req_peers_app. cbn [req_peers flat_map]. rewrite app_nil_r. apply (iv_reqs _ I).
    + exists (evlog s). split; [reflexivity|exact NT].
    + rewrite req_peers_app. cbn [req_peers flat_map]. rewrite app_nil_r. apply (iv_req_nodup _ I).
    + intro q. rewrite req_peers_app, resp_queried_app, resp_failed_app. cbn [req_peers resp_queried resp_failed flat_map].
      rewrite !app_nil_r. apply (iv_resp_sub _ I).
    + rewrite resp_queried_app, resp_failed_app. cbn [resp_queried resp_failed flat_map]. rewrite !app_nil_r. apply (iv_resp_nodup _ I).
    + destruct (iv_seed _ I) as [rest ->]. eexists. reflexivity.
Qed.

(* ---- spawnQuery ------------------------------------------------------------------------------------ *)
Lemma spawn_inv s cause p : Inv s -> term s = None -> state_of (ps s) p = Some Heard ->
  (num_in_state Waiting (ps s) < cAlpha c)%nat ->
  exists s', spawn s cause p = Ok s' /\ Inv s' /\ term s' = None /\
    num_in_state Waiting (ps s') = S (num_in_state Waiting (ps s)) /\
    (forall q, state_of (ps s') q = if N.eqb q p then Some Waiting else state_of (ps s) q) /\
    evlog s' = evlog s ++ [EvReq cause p].
Proof.
  intros I T H W. unfold spawn, log_ev. cbn [ps term evlog reqs].
  assert (Pin: In p (ids (ps s))) by (eapply state_of_Some_In; eauto).
  destruct (set_state_ok (ps s) p Waiting Pin) as (l' & E & Eq & Ids & St). rewrite E. cbn [bind].
  eexists. split; [reflexivity|]. cbn [ps term evlog reqs].
  assert (Cnt: num_in_state Waiting l' = S (num_in_state Waiting (ps s))).
  { rewrite Eq. pose proof (num_in_state_set (ps s) p Waiting Heard Waiting (iv_nodup _ I) H) as X. simpl in X. lia. }
  split; [|split; [exact T|split; [exact Cnt|split; [exact St|reflexivity]]]].
  pose proof (iv_term _ I) as NT. rewrite T in NT.
  assert (NQ: ~ In p (resp_queried (evlog s))) by (intro X; apply (iv_queried _ I) in X; congruence).
  assert (NF: ~ In p (resp_failed (evlog s))) by (intro X; apply (iv_unreach _ I) in X; congruence).
  split; cbn [ps term evlog reqs].
  - rewrite Ids. apply (iv_nodup _ I).
  - rewrite Ids. apply (iv_noself _ I).
  - lia.
  - intro q. rewrite Ids, resp_heard_app. cbn [resp_heard flat_map]. rewrite !app_nil_r. apply (iv_heard _ I).
  - intro q. rewrite St, resp_failed_app. cbn [resp_failed flat_map]. rewrite !app_nil_r.
    destruct (N.eqb q p) eqn:E2; [|apply (iv_unreach _ I)].
    apply N.eqb_eq in E2. subst q. split; [discriminate|]. intro X. contradiction.
  - intro q. rewrite St, resp_queried_app. cbn [resp_queried flat_map]. rewrite !app_nil_r.
    destruct (N.eqb q p) eqn:E2; [|apply (iv_queried _ I)].
    apply N.eqb_eq in E2. subst q. split; [discriminate|]. intro X. contradiction.
  - intro q. rewrite St, req_peers_app, resp_queried_app, resp_failed_app, in_app_iff.
    cbn [req_peers resp_queried resp_failed flat_map]. rewrite !app_nil_r. simpl.
    destruct (N.eqb q p) eqn:E2.
    + apply N.eqb_eq in E2. subst q. split; [intros _; auto|reflexivity].
    + apply N.eqb_neq in E2. rewrite (iv_waiting _ I). split.
      * intros (R & A & B). auto.
      * intros ([R|[R|[]]] & A & B); [auto|congruence].
  - apply Forall_app. split; [apply (iv_evok _ I)|]. constructor; [exact Logic.I|constructor].
  - rewrite req_peers_app, (iv_reqs _ I). reflexivity.
  - rewrite T. intros e He. apply in_app_iff in He. destruct He as [He|[<-|[]]]; [apply NT; exact He|reflexivity].
  - rewrite req_peers_app. cbn [req_peers flat_map]. apply NoDup_snoc_local; [apply (iv_req_nodup _ I)|].
    intro X. assert (state_of (ps s) p = Some Waiting) by (apply (iv_waiting _ I); auto). congruence.
  - intro q. rewrite req_peers_app, resp_queried_app, resp_failed_app. cbn [req_peers resp_queried resp_failed flat_map].
    rewrite !app_nil_r. intro X. apply in_app_iff. left. apply (iv_resp_sub _ I). exact X.
  - rewrite resp_queried_app, resp_failed_app. cbn [resp_queried resp_failed flat_map]. rewrite !app_nil_r. apply (iv_resp_nodup _ I).
  - destruct (iv_seed _ I) as [rest ->]. eexists. reflexivity.
Qed.

Lemma spawn_all_inv cause l : forall s, Inv s -> term s = None -> NoDup l ->
  (forall p, In p l -> state_of (ps s) p = Some Heard) ->
  (num_in_state Waiting (ps s) + length l <= cAlpha c)%nat ->
  exists s', spawn_all s cause l = Ok s' /\ Inv s' /\ term s' = None /\
    evlog s' = evlog s ++ map (EvReq cause) l /\
    (forall q, state_of (ps s') q = if existsb (N.eqb q) l then Some Waiting else state_of (ps s) q).
Proof.
  induction l as [|p l IH]; intros s I T ND Hh Hn; simpl.
  - exists s. rewrite app_nil_r. auto.
  - inversion ND as [|? ? Hp ND']; subst.
    destruct (spawn_inv s cause p I T (Hh p (or_introl eq_refl))) as (s1 & E & I1 & T1 & C1 & St1 & Ev1); [simpl in Hn; lia|].
    rewrite E. cbn [bind].
    destruct (IH s1 I1 T1 ND') as (s' & E' & I' & T' & Ev' & St').
    + intros q Hq. rewrite St1. destruct (N.eqb q p) eqn:E2; [apply N.eqb_eq in E2; subst q; contradiction|].
      apply Hh. right. exact Hq.
    + simpl in Hn. lia.
    + exists s'. split; [exact E'|]. split; [exact I'|]. split; [exact T'|]. split.
      * rewrite Ev', Ev1, <- app_assoc. reflexivity.
      * intro q. rewrite St', St1. destruct (N.eqb q p); simpl; [destruct (existsb (N.eqb q) l)|]; reflexivity.
Qed.

(* ---- one loop iteration ------------------------------------------------------------------------------ *)
Lemma closest_n_ok key n sts l : (0 <= n)%Z ->
  closest_n_in_states key n sts l = Ok (firstn (Z.to_nat n) (closest_in_states key sts l)).
Proof.
  intro H. unfold closest_n_in_states.
  destruct (Z.leb n (Z.of_nat (length (closest_in_states key sts l)))) eqn:E.
  - destruct (Z.ltb n 0) eqn:E2; [apply Z.ltb_lt in E2; lia|reflexivity].
  - apply Z.leb_gt in E. rewrite firstn_all2; [reflexivity|lia].
Qed.

Lemma NoDup_firstn {A} n (l : list A) : NoDup l -> NoDup (firstn n l).
Proof.
  revert l; induction n as [|n IH]; intros l H; simpl; [constructor|].
  destruct l as [|x l]; [constructor|]. inversion H as [|? ? Hx H']; subst.
  constructor; [|apply IH; exact H']. intro Hin. apply Hx. eapply firstn_In_local; eauto.
Qed.

Lemma after_select_inv s cause : Inv s -> exists s', after_select c s cause = Ok s' /\ Inv s'.
Proof.
  intro I. unfold after_select.
  destruct (stop_fn (cStop c) (ps s)); [eexists; split; [reflexivity|apply terminate_inv; exact I]|].
  destruct (starvation (ps s)); [eexists; split; [reflexivity|apply terminate_inv; exact I]|].
  destruct (lookup_termination c (ps s)); [eexists; split; [reflexivity|apply terminate_inv; exact I]|].
  pose proof (iv_wait _ I) as W.
  rewrite closest_n_ok by lia. cbn [bind].
  destruct (term s) eqn:T; [exists s; split; [reflexivity|exact I]|].
  set (n := Z.to_nat (Z.of_nat (cAlpha c) - Z.of_nat (num_in_state Waiting (ps s)))).
  destruct (spawn_all_inv cause (firstn n (closest_in_states (cKey c) [Heard] (ps s))) s I T) as (s' & E & I' & _).
  - apply NoDup_firstn. apply closest_in_states_nodup. apply (iv_nodup _ I).
  - intros p Hp. apply firstn_In_local in Hp. apply closest_in_states_In in Hp; [|apply (iv_nodup _ I)].
    destruct Hp as [st [Hs Hin]]. simpl in Hin. rewrite orb_false_r in Hin. apply pstate_eqb_eq in Hin. subst st. exact Hs.
  - pose proof (firstn_le_length n (closest_in_states (cKey c) [Heard] (ps s))). unfold n in *. lia.
  - exists s'. split; [exact E|exact I'].
Qed.

Lemma step_inv s e r : Inv s -> step c env s e = Some r -> exists s', r = Ok s' /\ Inv s'.
Proof.
  intros I H. unfold step in H. destruct (term s) eqn:T; [discriminate|].
  destruct e as [p|].
  - destruct (find_peer (ps s) p) as [en|] eqn:F; [|discriminate].
    destruct (pstate_eqb (pst en) Waiting) eqn:W; [|discriminate].
    inversion H; subst r; clear H.
    assert (Hs: state_of (ps s) p = Some Waiting).
    { unfold state_of. rewrite F. simpl. apply pstate_eqb_eq in W. rewrite W. reflexivity. }
    destruct (update_arrive s p I T Hs) as (s1 & -> & I1 & _). cbn [bind].
    destruct (after_select_inv s1 p I1) as (s' & E' & I'). exists s'. auto.
  - inversion H; subst r; clear H.
    destruct (terminate_inv s Cancelled I) as (I1 & _).
    destruct (after_select_inv _ (cSelf c) I1) as (s' & E' & I'). exists s'. auto.
Qed.

Lemma start_inv : exists s, start c seeds = Ok s /\ Inv s.
Proof.
  unfold start. destruct update_seed as (s1 & E & I1 & _). fold self. rewrite E. cbn [bind].
  apply after_select_inv. exact I1.
Qed.

Lemma run_events_inv evs : forall s, Inv s ->
  match run_events c env s evs with
  | RPanic _ => False
  | RDone s' => Inv s' /\ term s' <> None
  | RPending s' => Inv s' /\ term s' = None
  | RBadEvent s' _ => Inv s' /\ term s' = None
  end.
Proof.
  induction evs as [|e evs IH]; intros s I; simpl.
  - destruct (term s) eqn:T; [split; [exact I|congruence]|split; [exact I|exact T]].
  - destruct (term s) eqn:T; [split; [exact I|congruence]|].
    destruct (step c env s e) as [r|] eqn:St; [|split; [exact I|exact T]].
    destruct (step_inv s e r I St) as (s' & -> & I'). apply IH. exact I'.
Qed.

Theorem run_search_inv evs :
  match run_search c env seeds evs with
  | RPanic _ => False
  | RDone s' => Inv s' /\ term s' <> None
  | RPending s' => Inv s' /\ term s' = None
  | RBadEvent s' _ => Inv s' /\ term s' = None
  end.
Proof.
  unfold run_search. destruct start_inv as (s & -> & I). apply run_events_inv. exact I.
Qed.

(* ---- what the result of a lookup is (C01) -------------------------------------------------------- *)
Lemma live_states st : in_states live st = true <-> st <> Unreachable.
Proof. destruct st; simpl; split; intro H; try reflexivity; try discriminate; congruence. Qed.

Lemma result_members s p : Inv s ->
  (In p (closest_in_states (cKey c) live (ps s)) <->
   In p (resp_heard (evlog s)) /\ p <> self /\ ~ In p (resp_failed (evlog s))).
Proof.
  intro I. rewrite (closest_in_states_In _ _ _ _ (iv_nodup _ I)). split.
  - intros [st [Hs Hl]]. apply live_states in Hl.
    assert (Hin: In p (ids (ps s))) by (eapply state_of_Some_In; eauto).
    apply (iv_heard _ I) in Hin. destruct Hin as [H1 H2]. split; [exact H1|]. split; [exact H2|].
    intro F. apply (iv_unreach _ I) in F. congruence.
  - intros (H1 & H2 & H3). assert (Hin: In p (ids (ps s))) by (apply (iv_heard _ I); auto).
    destruct (state_of (ps s) p) as [st|] eqn:E; [|apply state_of_None in E; contradiction].
    exists st. split; [reflexivity|]. apply live_states. intro; subst st. apply H3. apply (iv_unreach _ I). exact E.
Qed.

Lemma resp_heard_origin l p : Forall ev_ok l -> In p (resp_heard l) ->
  In p seeds \/ exists cause closer, env cause = OAnswer closer /\ In p (process_response c closer) /\ In cause (resp_queried l).
Proof.
  induction l as [|e l IH]; intros F H; [destruct H|].
  inversion F as [|? ? He F']; subst.
  change (resp_heard (e :: l)) with ((match e with EvResp _ h _ _ => h | _ => [] end) ++ resp_heard l) in H.
  apply in_app_iff in H. destruct H as [H|H].
  - destruct e as [? ?|cause h q u|?]; try destruct H. simpl in He.
    destruct He as [(E1 & E2 & _)|[(_ & E1 & E2 & closer & E3 & E4)|(_ & _ & _ & E & _)]].
    + left. congruence.
    + right. exists cause, closer. split; [exact E3|]. split; [congruence|].
      change (resp_queried (EvResp cause h q u :: l)) with (q ++ resp_queried l). rewrite E1. left. reflexivity.
    + rewrite E in H. destruct H.
  - destruct (IH F' H) as [S|(cause & closer & A & B & C)]; [left; exact S|].
    right. exists cause, closer. split; [exact A|]. split; [exact B|].
    change (resp_queried (e :: l)) with ((match e with EvResp _ _ q _ => q | _ => [] end) ++ resp_queried l).
    apply in_app_iff. right. exact C.
Qed.

Theorem result_spec s : Inv s ->
  let r := construct_result c s in
  let key := cKey c in
  (length (r_peers r) <= cK c)%nat /\
  NoDup (r_peers r) /\
  ~ In self (r_peers r) /\
  StronglySorted (lt_dist key) (r_peers r) /\
  (* provenance *)
  (forall p, In p (r_peers r) ->
     In p seeds \/ exists cause closer, env cause = OAnswer closer /\ In p (process_response c closer) /\
                                        In cause (resp_queried (evlog s))) /\
  (* none failed *)
  (forall p, In p (r_peers r) -> ~ In p (resp_failed (evlog s))) /\
  (* exactly the K nearest of the learned, non-failed peers *)
  (forall p, In p (resp_heard (evlog s)) -> p <> self -> ~ In p (resp_failed (evlog s)) -> ~ In p (r_peers r) ->
     length (r_peers r) = cK c /\ forall m, In m (r_peers r) -> lt_dist key m p).
Proof.
  intro I. cbv zeta. unfold construct_result. cbn [r_peers].
  set (L := closest_in_states (cKey c) live (ps s)).
  assert (NDL: NoDup L) by (apply closest_in_states_nodup; apply (iv_nodup _ I)).
  assert (SL: StronglySorted (lt_dist (cKey c)) L) by (apply closest_in_states_sorted; apply (iv_nodup _ I)).
  split; [apply firstn_le_length|].
  split; [apply NoDup_firstn; exact NDL|].
  split.
  { intro H. apply firstn_In_local in H. apply (result_members s self I) in H. tauto. }
  split; [apply StronglySorted_firstn; exact SL|].
  split.
  { intros p H. apply firstn_In_local in H. apply (result_members s p I) in H. destruct H as (H1 & _).
    apply (resp_heard_origin _ _ (iv_evok _ I) H1). }
  split.
  { intros p H. apply firstn_In_local in H. apply (result_members s p I) in H. tauto. }
  intros p H1 H2 H3 H4.
  assert (HL: In p L) by (apply (result_members s p I); auto).
  rewrite <- (firstn_skipn (cK c) L) in HL. apply in_app_iff in HL. destruct HL as [HL|HL]; [contradiction|].
  split.
  - apply firstn_length_le. destruct (le_lt_dec (cK c) (length L)) as [Hle|Hlt]; [exact Hle|].
    rewrite skipn_all2 in HL by lia. destruct HL.
  - intros m Hm. eapply firstn_skipn_sorted; eauto.
Qed.

(* ---- the event log agrees with the requests and answers (C01, last clause) ------------------------ *)
Theorem events_spec s : Inv s ->
  Forall ev_ok (evlog s) /\
  reqs s = req_peers (evlog s) /\
  NoDup (req_peers (evlog s)) /\
  NoDup (resp_queried (evlog s) ++ resp_failed (evlog s)) /\
  (forall p, In p (resp_queried (evlog s) ++ resp_failed (evlog s)) -> In p (req_peers (evlog s))) /\
  match term s with
  | None => no_term (evlog s)
  | Some r => exists l, evlog s = l ++ [EvTerm r] /\ no_term l
  end.
Proof.
  intro I. split; [apply (iv_evok _ I)|]. split; [apply (iv_reqs _ I)|]. split; [apply (iv_req_nodup _ I)|].
  split; [apply (iv_resp_nodup _ I)|]. split; [apply (iv_resp_sub _ I)|apply (iv_term _ I)].
Qed.
End Lk.
