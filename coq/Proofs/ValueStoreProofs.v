(* Lemmas about Model/ValueStore.v.  The central fact is the invariant [Inv],
   preserved by every event of every thread (any interleaving, any number of
   threads): a goroutine inside a critical section owns the stripe of its key
   (hence two goroutines are never inside critical sections of the same stripe),
   and what it remembers about the datastore is still true because nobody else
   can write or delete a key of that stripe meanwhile. *)
From Verif.Lib Require Import GoSem Bits.
From Verif.Model Require Import ValueStore.
From Coq Require Import Lia ZifyBool ZifyNat ZifyN.
Local Open Scope N_scope.

(* ---- keys, bytes, datastore ------------------------------------------------ *)
Lemma key_eqb_eq a b : key_eqb a b = true <-> a = b.
Proof.
  revert b; induction a as [|x a IH]; intros [|y b]; simpl; split; intro H;
    try reflexivity; try discriminate.
  - apply andb_true_iff in H as [H1 H2]. apply N.eqb_eq in H1. apply IH in H2. congruence.
  - inversion H; subst. rewrite N.eqb_refl. simpl. apply IH. reflexivity.
Qed.

Lemma key_eqb_refl a : key_eqb a a = true.
Proof. apply key_eqb_eq. reflexivity. Qed.

Lemma key_eqb_neq a b : key_eqb a b = false <-> a <> b.
Proof.
  split; intro H.
  - intro E. apply key_eqb_eq in E. congruence.
  - destruct (key_eqb a b) eqn:E; [apply key_eqb_eq in E; contradiction|reflexivity].
Qed.

Lemma opt_N_eqb_eq a b : opt_N_eqb a b = true -> a = b.
Proof.
  destruct a, b; simpl; intro H; try discriminate; try reflexivity.
  apply N.eqb_eq in H. congruence.
Qed.

Lemma bytes_eqb_eq a b : bytes_eqb a b = true -> a = b.
Proof.
  destruct a as [k v t|i], b as [k' v' t'|j]; simpl; intro H; try discriminate.
  - apply andb_true_iff in H as [H H3]. apply andb_true_iff in H as [H1 H2].
    apply key_eqb_eq in H1. apply N.eqb_eq in H2. apply opt_N_eqb_eq in H3. congruence.
  - apply N.eqb_eq in H. congruence.
Qed.

Lemma ds_get_put_same k b d : ds_get k (ds_put k b d) = Some b.
Proof.
  induction d as [|[k' b'] d IH]; simpl.
  - rewrite key_eqb_refl. reflexivity.
  - destruct (key_eqb k' k) eqn:E; simpl.
    + rewrite key_eqb_refl. reflexivity.
    + rewrite E. exact IH.
Qed.

Lemma ds_get_put_other k k' b d : k' <> k -> ds_get k' (ds_put k b d) = ds_get k' d.
Proof.
  intro NE. induction d as [|[k0 b0] d IH]; simpl.
  - destruct (key_eqb k k') eqn:E; [apply key_eqb_eq in E; congruence|reflexivity].
  - destruct (key_eqb k0 k) eqn:E; simpl.
    + apply key_eqb_eq in E. subst k0.
      destruct (key_eqb k k') eqn:E2; [apply key_eqb_eq in E2; congruence|reflexivity].
    + destruct (key_eqb k0 k'); [reflexivity|exact IH].
Qed.

Lemma ds_get_del_same k d : ds_get k (ds_del k d) = None.
Proof.
  induction d as [|[k' b'] d IH]; simpl; [reflexivity|].
  destruct (key_eqb k' k) eqn:E; simpl; [exact IH|]. rewrite E. exact IH.
Qed.

Lemma ds_get_del_other k k' d : k' <> k -> ds_get k' (ds_del k d) = ds_get k' d.
Proof.
  intro NE. induction d as [|[k0 b0] d IH]; simpl; [reflexivity|].
  destruct (key_eqb k0 k) eqn:E; simpl.
  - apply key_eqb_eq in E. subst k0.
    destruct (key_eqb k k') eqn:E2; [apply key_eqb_eq in E2; congruence|exact IH].
  - destruct (key_eqb k0 k'); [reflexivity|exact IH].
Qed.

Section Store.
Variable valid : key -> value -> bool.
Variable sel : key -> value -> value -> option bool.
Variable max_age : N.

Notation expired := (expired max_age).
Notation discardable := (discardable max_age).
Notation existing_for_select := (existing_for_select valid).
Notation gc_next := (gc_next max_age).
Notation gc_victim := (gc_victim max_age).
Notation after_absent := (after_absent max_age).
Notation after_found := (after_found sel max_age).
Notation start_pc := (start_pc valid).
Notation put_pc := (put_pc valid).
Notation step := (step valid sel max_age).
Notation step_act := (step_act valid sel max_age).
Notation run := (run valid sel max_age).
Notation put_after_read := (put_after_read valid sel).
Notation get_after_read := (get_after_read sel max_age).

(* ---- the clock only makes records older ------------------------------------ *)
Lemma expired_mono now now' tr : now <= now' -> expired now tr = true -> expired now' tr = true.
Proof.
  unfold ValueStore.expired. intros L H. destruct (N.eqb max_age 0); [discriminate|].
  destruct tr as [t0|]; [|reflexivity].
  apply N.ltb_lt in H. apply N.ltb_lt. lia.
Qed.

Lemma discardable_mono k b now now' :
  now <= now' -> discardable k b now = true -> discardable k b now' = true.
Proof.
  unfold ValueStore.discardable. intros L H. destruct b as [rk v tr|j]; [|reflexivity].
  apply orb_true_iff in H. apply orb_true_iff. destruct H as [H|H]; [left; exact H|right].
  eapply expired_mono; eauto.
Qed.

(* ---- what a thread knows at each program point ------------------------------ *)
(* [good now k b]: the bytes are a record carrying key k, valid for k, stamped
   not later than now *)
Definition good (now : N) (k : key) (b : bytes) : Prop :=
  exists v ts, b = BRec k v (Some ts) /\ valid k v = true /\ ts <= now.

Definition cont_ok (k : key) (c : cont) : Prop :=
  match c with
  | KLocalPut v => valid k v = true
  | _ => True
  end.

Definition put_result (r : result) : Prop :=
  match r with ROk | RErr _ => True | _ => False end.

Definition pc_ok (d : store) (now : N) (p : pc) : Prop :=
  match p with
  | PLock k rk v | PRead k rk v => rk = k /\ valid k v = true
  | PWrite k data =>
      exists v ts, data = BRec k v (Some ts) /\ valid k v = true /\ ts <= now /\
        (forall ev, existing_for_select (ds_get k d) = Some ev -> sel k v ev = Some true)
  | PUnlock k r w =>
      put_result r /\
      match w with
      | Some data => ds_get k d = Some data /\ good now k data
      | None => r <> ROk
      end
  | GRead k c => cont_ok k c
  | DLock k seen c | DRead k seen c => discardable k seen now = true /\ cont_ok k c
  | DDelete k seen c => discardable k seen now = true /\ ds_get k d = Some seen /\ cont_ok k c
  | DUnlock k c => cont_ok k c
  | GCQuery | Done _ => True
  end.

Record Inv (s : state) : Prop := {
  inv_lock : forall t p k, st_thr s t = Some p -> holds p = Some k -> st_lock s (lock_index k) = Some t;
  inv_pc : forall t p, st_thr s t = Some p -> pc_ok (st_ds s) (st_now s) p }.

(* callers of ValueStore.Put pass a record made for that key (handlePutValue
   checks it, PutValue and updatePeerValues use record.MakePutRecord) *)
Definition ev_wf (e : event) : Prop :=
  match e with
  | ESpawn _ (CPut k rk _) => rk = k
  | _ => True
  end.

Lemma Inv_init d now : Inv (init d now).
Proof. split; intros t p; simpl; discriminate. Qed.

(* two goroutines are never inside critical sections of the same stripe *)
Lemma mutual_exclusion s t1 t2 p1 p2 k1 k2 :
  Inv s -> st_thr s t1 = Some p1 -> st_thr s t2 = Some p2 ->
  holds p1 = Some k1 -> holds p2 = Some k2 -> lock_index k1 = lock_index k2 -> t1 = t2.
Proof.
  intros I H1 H2 K1 K2 E.
  pose proof (inv_lock _ I _ _ _ H1 K1) as L1. pose proof (inv_lock _ I _ _ _ H2 K2) as L2.
  rewrite E in L1. congruence.
Qed.

Lemma pc_ok_frame d d' now p :
  (forall k, holds p = Some k -> ds_get k d' = ds_get k d) -> pc_ok d now p -> pc_ok d' now p.
Proof.
  intros F H. destruct p; simpl in *; auto.
  - destruct H as (v & ts & E & V & L & S). exists v, ts. repeat split; auto.
    rewrite (F k eq_refl). exact S.
  - destruct H as [R H]. split; [exact R|]. destruct wrote; [|exact H].
    rewrite (F k eq_refl). exact H.
  - destruct H as (D & G & C). rewrite (F k eq_refl). auto.
Qed.

Lemma good_mono now now' k b : now <= now' -> good now k b -> good now' k b.
Proof. intros L (v & ts & E & V & T). exists v, ts. repeat split; auto. lia. Qed.

Lemma pc_ok_mono d now now' p : now <= now' -> pc_ok d now p -> pc_ok d now' p.
Proof.
  intros L H. destruct p; simpl in *; auto.
  - destruct H as (v & ts & E & V & T & S). exists v, ts. repeat split; auto. lia.
  - destruct H as [R H]. split; [exact R|]. destruct wrote; [|exact H].
    destruct H as [G H]. split; [exact G|]. eapply good_mono; eauto.
  - destruct H as [D C]. split; [eapply discardable_mono; eauto|exact C].
  - destruct H as [D C]. split; [eapply discardable_mono; eauto|exact C].
  - destruct H as (D & G & C). repeat split; auto. eapply discardable_mono; eauto.
Qed.

(* ---- the four ways a step changes the shared state --------------------------- *)
Lemma upd_thr_same f t p : upd_thr f t p t = Some p.
Proof. unfold upd_thr. rewrite Nat.eqb_refl. reflexivity. Qed.
Lemma upd_thr_other f t p t' : t' <> t -> upd_thr f t p t' = f t'.
Proof. unfold upd_thr. intro NE. destruct (Nat.eqb t' t) eqn:E; [apply Nat.eqb_eq in E; congruence|reflexivity]. Qed.

(* A: only the program counter changes, the held stripe stays *)
Lemma inv_pc_only s t p p' :
  Inv s -> st_thr s t = Some p -> (holds p' = holds p \/ holds p' = None) ->
  pc_ok (st_ds s) (st_now s) p' -> Inv (with_pc s t p').
Proof.
  intros I Ht Hh Ok. split; simpl.
  - intros t' q k Hq Hk. destruct (Nat.eq_dec t' t) as [->|NE].
    + rewrite upd_thr_same in Hq. inversion Hq; subst q.
      destruct Hh as [Hh|Hh]; rewrite Hh in Hk; [|discriminate].
      eapply (inv_lock _ I); eauto.
    + rewrite upd_thr_other in Hq by exact NE. eapply (inv_lock _ I); eauto.
  - intros t' q Hq. destruct (Nat.eq_dec t' t) as [->|NE].
    + rewrite upd_thr_same in Hq. inversion Hq; subst q. exact Ok.
    + rewrite upd_thr_other in Hq by exact NE. eapply (inv_pc _ I); eauto.
Qed.

(* B: acquire a free stripe *)
Lemma inv_acquire s t k p' :
  Inv s -> st_lock s (lock_index k) = None -> holds p' = Some k ->
  pc_ok (st_ds s) (st_now s) p' -> Inv (with_lock_pc s (lock_index k) (Some t) t p').
Proof.
  intros I Free Hh Ok. split; simpl.
  - intros t' q k' Hq Hk. unfold upd_lock. destruct (Nat.eq_dec t' t) as [->|NE].
    + rewrite upd_thr_same in Hq. inversion Hq; subst q. rewrite Hh in Hk. inversion Hk; subst k'.
      rewrite N.eqb_refl. reflexivity.
    + rewrite upd_thr_other in Hq by exact NE.
      pose proof (inv_lock _ I _ _ _ Hq Hk) as L.
      destruct (N.eqb (lock_index k') (lock_index k)) eqn:E; [|exact L].
      apply N.eqb_eq in E. rewrite E in L. congruence.
  - intros t' q Hq. destruct (Nat.eq_dec t' t) as [->|NE].
    + rewrite upd_thr_same in Hq. inversion Hq; subst q. exact Ok.
    + rewrite upd_thr_other in Hq by exact NE. eapply (inv_pc _ I); eauto.
Qed.

(* C: release the held stripe *)
Lemma inv_release s t p k p' :
  Inv s -> st_thr s t = Some p -> holds p = Some k -> holds p' = None ->
  pc_ok (st_ds s) (st_now s) p' -> Inv (with_lock_pc s (lock_index k) None t p').
Proof.
  intros I Ht Hk Hn Ok. split; simpl.
  - intros t' q k' Hq Hk'. unfold upd_lock. destruct (Nat.eq_dec t' t) as [->|NE].
    + rewrite upd_thr_same in Hq. inversion Hq; subst q. congruence.
    + rewrite upd_thr_other in Hq by exact NE.
      pose proof (inv_lock _ I _ _ _ Hq Hk') as L.
      destruct (N.eqb (lock_index k') (lock_index k)) eqn:E; [|exact L].
      apply N.eqb_eq in E. exfalso. apply NE.
      eapply (mutual_exclusion s t' t); eauto.
  - intros t' q Hq. destruct (Nat.eq_dec t' t) as [->|NE].
    + rewrite upd_thr_same in Hq. inversion Hq; subst q. exact Ok.
    + rewrite upd_thr_other in Hq by exact NE. eapply (inv_pc _ I); eauto.
Qed.

(* D: change the datastore at the key whose stripe is held *)
Lemma inv_ds s t p k d' p' :
  Inv s -> st_thr s t = Some p -> holds p = Some k -> holds p' = Some k ->
  (forall k', k' <> k -> ds_get k' d' = ds_get k' (st_ds s)) ->
  pc_ok d' (st_now s) p' -> Inv (with_ds_pc s d' t p').
Proof.
  intros I Ht Hk Hk' F Ok. split; simpl.
  - intros t' q k0 Hq Hq'. destruct (Nat.eq_dec t' t) as [->|NE].
    + rewrite upd_thr_same in Hq. inversion Hq; subst q. rewrite Hk' in Hq'. inversion Hq'; subst k0.
      eapply (inv_lock _ I); eauto.
    + rewrite upd_thr_other in Hq by exact NE. eapply (inv_lock _ I); eauto.
  - intros t' q Hq. destruct (Nat.eq_dec t' t) as [->|NE].
    + rewrite upd_thr_same in Hq. inversion Hq; subst q. exact Ok.
    + rewrite upd_thr_other in Hq by exact NE.
      apply pc_ok_frame with (d := st_ds s); [|eapply (inv_pc _ I); eauto].
      intros k0 Hk0. apply F. intro E. subst k0. apply NE.
      eapply (mutual_exclusion s t' t); eauto.
Qed.

(* ---- program points produced by the pure parts --------------------------------- *)
Lemma gc_victim_discardable now e : gc_victim now e = true -> discardable (fst e) (snd e) now = true.
Proof.
  unfold ValueStore.gc_victim, ValueStore.discardable. destruct (snd e) as [rk v tr|j]; [|discriminate].
  intro H. apply andb_true_iff in H as [_ H]. rewrite H. apply orb_true_r.
Qed.

Lemma gc_next_ok d now l : pc_ok d now (gc_next now l).
Proof.
  induction l as [|e l IH]; simpl; [exact I|].
  destruct (gc_victim now e) eqn:E; [|exact IH].
  simpl. split; [apply gc_victim_discardable; exact E|exact I].
Qed.

Lemma gc_next_holds now l : holds (gc_next now l) = None.
Proof. induction l as [|e l IH]; simpl; [reflexivity|]. destruct (gc_victim now e); [reflexivity|exact IH]. Qed.

Lemma after_absent_ok d now k c : cont_ok k c -> pc_ok d now (after_absent k c now).
Proof.
  destruct c; simpl; intro H; [exact I|split; [reflexivity|exact H]|apply gc_next_ok].
Qed.

Lemma after_absent_holds now k c : holds (after_absent k c now) = None.
Proof. destruct c; simpl; try reflexivity. apply gc_next_holds. Qed.

Lemma after_found_ok d now k v tr c : cont_ok k c -> pc_ok d now (after_found k v tr c now).
Proof.
  destruct c as [|nv|rest]; simpl; intro H; [exact I| |apply gc_next_ok].
  destruct (N.eqb v nv); [split; [reflexivity|exact H]|].
  destruct (sel k nv v) as [[|]|]; simpl; auto.
Qed.

Lemma after_found_holds now k v tr c : holds (after_found k v tr c now) = None.
Proof.
  destruct c as [|nv|rest]; simpl; try reflexivity; [|apply gc_next_holds].
  destruct (N.eqb v nv); [reflexivity|]. destruct (sel k nv v) as [[|]|]; reflexivity.
Qed.

Lemma put_pc_ok d now k v : pc_ok d now (put_pc k k v).
Proof. unfold ValueStore.put_pc. destruct (valid k v) eqn:V; simpl; auto. Qed.

Lemma put_pc_holds k rk v : holds (put_pc k rk v) = None.
Proof. unfold ValueStore.put_pc. destruct (valid k v); reflexivity. Qed.

Lemma start_pc_holds c : holds (start_pc c) = None.
Proof.
  destruct c as [k rk v|k|mk r|mk|k v|]; simpl; try reflexivity.
  - apply put_pc_holds.
  - destruct mk; [reflexivity|]. destruct r as [[rk v]|]; [|reflexivity].
    destruct (key_eqb _ rk); [apply put_pc_holds|reflexivity].
  - destruct mk; reflexivity.
  - destruct (valid k v); reflexivity.
Qed.

Lemma start_pc_ok d now t c : ev_wf (ESpawn t c) -> pc_ok d now (start_pc c).
Proof.
  destruct c as [k rk v|k|mk r|mk|k v|]; simpl; intro W; try exact I.
  - subst rk. apply put_pc_ok.
  - destruct mk; [exact I|]. destruct r as [[rk v]|]; [|exact I].
    destruct (key_eqb _ rk); [apply put_pc_ok|exact I].
  - destruct mk; exact I.
  - destruct (valid k v) eqn:V; simpl; auto.
Qed.

Lemma put_after_read_ok s k v :
  valid k v = true -> pc_ok (st_ds s) (st_now s) (put_after_read s k k v).
Proof.
  intro V. unfold ValueStore.put_after_read.
  destruct (existing_for_select (ds_get k (st_ds s))) as [ev|] eqn:E.
  - destruct (sel k v ev) as [[|]|] eqn:S; simpl.
    + exists v, (st_now s). repeat split; auto; [lia|]. intros ev' H. rewrite E in H. inversion H; subst. exact S.
    + split; [exact I|discriminate].
    + split; [exact I|discriminate].
  - simpl. exists v, (st_now s). repeat split; auto; [lia|]. intros ev' H. rewrite E in H. discriminate.
Qed.

Lemma put_after_read_holds s k rk v : holds (put_after_read s k rk v) = Some k.
Proof.
  unfold ValueStore.put_after_read.
  destruct (existing_for_select _); [destruct (sel k v v0) as [[|]|]|]; reflexivity.
Qed.

Lemma get_after_read_ok s k c :
  cont_ok k c -> pc_ok (st_ds s) (st_now s) (get_after_read s k c).
Proof.
  intro C. unfold ValueStore.get_after_read. destruct (ds_get k (st_ds s)) as [b|] eqn:G.
  - destruct (discardable k b (st_now s)) eqn:D; [simpl; auto|].
    destruct b as [rk v tr|j]; [apply after_found_ok; exact C|]. simpl in D. discriminate.
  - apply after_absent_ok. exact C.
Qed.

Lemma get_after_read_holds s k c : holds (get_after_read s k c) = None.
Proof.
  unfold ValueStore.get_after_read. destruct (ds_get k (st_ds s)) as [b|]; [|apply after_absent_holds].
  destruct (discardable k b (st_now s)); [reflexivity|].
  destruct b; [apply after_found_holds|reflexivity].
Qed.

(* ---- the invariant is preserved by every event ----------------------------------- *)
Lemma step_act_inv s t p a s' :
  Inv s -> st_thr s t = Some p -> step_act s t p a = Some s' -> Inv s'.
Proof.
  intros I Ht H. pose proof (inv_pc _ I _ _ Ht) as Ok.
  destruct p; destruct a; simpl in H; try discriminate.
  - (* PLock *)
    destruct (st_lock s (lock_index k)) eqn:L; [discriminate|]. inversion H; subst; clear H.
    apply inv_acquire; auto.
  - (* PRead *)
    inversion H; subst; clear H. simpl in Ok. destruct Ok as [-> V].
    eapply inv_pc_only; eauto.
    + left. rewrite put_after_read_holds. reflexivity.
    + apply put_after_read_ok. exact V.
  - (* PWrite *)
    inversion H; subst; clear H. simpl in Ok. destruct Ok as (v & ts & E & V & T & S).
    eapply (inv_ds s t _ k); [exact I|exact Ht|reflexivity|reflexivity| |].
    + intros k' NE. apply ds_get_put_other. exact NE.
    + simpl. split; [exact Logic.I|]. split; [apply ds_get_put_same|]. exists v, ts. auto.
  - (* PUnlock *)
    inversion H; subst; clear H. eapply (inv_release s t _ k); [exact I|exact Ht|reflexivity|reflexivity|exact Logic.I].
  - (* GRead *)
    inversion H; subst; clear H. eapply inv_pc_only; eauto.
    + right. apply get_after_read_holds.
    + apply get_after_read_ok. exact Ok.
  - (* DLock *)
    destruct (st_lock s (lock_index k)) eqn:L; [discriminate|]. inversion H; subst; clear H.
    apply inv_acquire; auto.
  - (* DRead *)
    inversion H; subst; clear H. simpl in Ok. destruct Ok as [D C].
    eapply inv_pc_only; eauto.
    + left. destruct (ds_get k (st_ds s)) as [cur|]; [destruct (bytes_eqb cur seen)|]; reflexivity.
    + destruct (ds_get k (st_ds s)) as [cur|] eqn:G; [|exact C].
      destruct (bytes_eqb cur seen) eqn:B; [|exact C].
      apply bytes_eqb_eq in B. subst cur. simpl. auto.
  - (* DDelete *)
    inversion H; subst; clear H. simpl in Ok. destruct Ok as (D & G & C).
    eapply (inv_ds s t _ k); [exact I|exact Ht|reflexivity|reflexivity| |exact C].
    intros k' NE. apply ds_get_del_other. exact NE.
  - (* DUnlock *)
    inversion H; subst; clear H. eapply (inv_release s t _ k); [exact I|exact Ht|reflexivity| |].
    + apply after_absent_holds.
    + apply after_absent_ok. exact Ok.
  - (* GCQuery *)
    inversion H; subst; clear H. eapply inv_pc_only; eauto.
    + right. apply gc_next_holds.
    + apply gc_next_ok.
Qed.

Lemma step_inv s e s' : Inv s -> ev_wf e -> step s e = Some s' -> Inv s'.
Proof.
  intros I W H. destruct e as [t c|t a|d]; simpl in H.
  - destruct (st_thr s t) eqn:Et; [discriminate|]. inversion H; subst; clear H. split; simpl.
    + intros t' q k Hq Hk. destruct (Nat.eq_dec t' t) as [->|NE].
      * rewrite upd_thr_same in Hq. inversion Hq; subst q. rewrite start_pc_holds in Hk. discriminate.
      * rewrite upd_thr_other in Hq by exact NE. eapply (inv_lock _ I); eauto.
    + intros t' q Hq. destruct (Nat.eq_dec t' t) as [->|NE].
      * rewrite upd_thr_same in Hq. inversion Hq; subst q. eapply start_pc_ok; eauto.
      * rewrite upd_thr_other in Hq by exact NE. eapply (inv_pc _ I); eauto.
  - destruct (st_thr s t) as [p|] eqn:Et; [|discriminate]. eapply step_act_inv; eauto.
  - inversion H; subst; clear H. split; simpl.
    + apply (inv_lock _ I).
    + intros t q Hq. apply pc_ok_mono with (now := st_now s); [lia|]. eapply (inv_pc _ I); eauto.
Qed.

Lemma run_inv evs : forall s s', Inv s -> Forall ev_wf evs -> run evs s = Some s' -> Inv s'.
Proof.
  induction evs as [|e evs IH]; intros s s' I W H; simpl in H.
  - inversion H; subst. exact I.
  - destruct (step s e) as [s1|] eqn:E; [|discriminate]. inversion W; subst.
    eapply IH; [eapply step_inv; eauto|assumption|exact H].
Qed.

Lemma reach_inv d now evs s :
  Forall ev_wf evs -> run evs (init d now) = Some s -> Inv s.
Proof. intros W H. eapply run_inv; eauto. apply Inv_init. Qed.

(* ---- how a step can change the datastore ------------------------------------------- *)
Inductive ds_change (s s' : state) (e : event) : Prop :=
| ch_none : st_ds s' = st_ds s -> ds_change s s' e
| ch_put t k data : e = EAct t ADsPut -> st_thr s t = Some (PWrite k data) ->
    st_ds s' = ds_put k data (st_ds s) -> ds_change s s' e
| ch_del t k seen c : e = EAct t ADsDelete -> st_thr s t = Some (DDelete k seen c) ->
    st_ds s' = ds_del k (st_ds s) -> ds_change s s' e.

Lemma step_ds_change s e s' : step s e = Some s' -> ds_change s s' e.
Proof.
  intro H. destruct e as [t c|t a|d]; simpl in H.
  - destruct (st_thr s t); [discriminate|]. inversion H; subst. apply ch_none. reflexivity.
  - destruct (st_thr s t) as [p|] eqn:Et; [|discriminate].
    destruct p; destruct a; simpl in H; try discriminate;
      try (destruct (st_lock s (lock_index k)); [discriminate|]);
      inversion H; subst; clear H;
      try (apply ch_none; reflexivity).
    + eapply ch_put; eauto.
    + eapply ch_del; eauto.
  - inversion H; subst. apply ch_none. reflexivity.
Qed.

Lemma step_now_le s e s' : step s e = Some s' -> st_now s <= st_now s'.
Proof.
  intro H. destruct e as [t c|t a|d]; simpl in H.
  - destruct (st_thr s t); [discriminate|]. inversion H; subst. simpl. lia.
  - destruct (st_thr s t) as [p|] eqn:Et; [|discriminate].
    destruct p; destruct a; simpl in H; try discriminate;
      try (destruct (st_lock s (lock_index k)); [discriminate|]);
      inversion H; subst; clear H; simpl; lia.
  - inversion H; subst. simpl. lia.
Qed.

Lemma run_now_le evs : forall s s', run evs s = Some s' -> st_now s <= st_now s'.
Proof.
  induction evs as [|e evs IH]; intros s s' H; simpl in H.
  - inversion H; subst. lia.
  - destruct (step s e) as [s1|] eqn:E; [|discriminate].
    apply step_now_le in E. apply IH in H. lia.
Qed.

(* 1. every write stores a record that is valid for, and carries, the key it is
   stored under *)
Lemma write_good s e s' k b :
  Inv s -> step s e = Some s' ->
  ds_get k (st_ds s') = Some b -> ds_get k (st_ds s) <> Some b -> good (st_now s) k b.
Proof.
  intros I H G NG. destruct (step_ds_change _ _ _ H) as [E|t k0 data _ Ht E|t k0 seen c _ Ht E].
  - rewrite E in G. contradiction.
  - rewrite E in G. destruct (list_eq_dec N.eq_dec k k0) as [->|NE].
    + rewrite ds_get_put_same in G. inversion G; subst b.
      destruct (inv_pc _ I _ _ Ht) as (v & ts & Eb & V & T & _). exists v, ts. auto.
    + rewrite ds_get_put_other in G by exact NE. contradiction.
  - rewrite E in G. destruct (list_eq_dec N.eq_dec k k0) as [->|NE].
    + rewrite ds_get_del_same in G. discriminate.
    + rewrite ds_get_del_other in G by exact NE. contradiction.
Qed.

Definition all_good (now : N) (d : store) : Prop := forall k b, ds_get k d = Some b -> good now k b.

Lemma step_all_good s e s' : Inv s -> step s e = Some s' -> all_good (st_now s) (st_ds s) -> all_good (st_now s') (st_ds s').
Proof.
  intros I H A k b G. pose proof (step_now_le _ _ _ H) as L.
  destruct (ds_get k (st_ds s)) as [b0|] eqn:G0.
  - destruct (bytes_eqb b0 b) eqn:B.
    + apply bytes_eqb_eq in B. subst b0. eapply good_mono; [exact L|]. apply A. exact G0.
    + eapply good_mono; [exact L|]. eapply write_good; eauto. rewrite G0. intro X. inversion X; subst.
      assert (bytes_eqb b b = true).
      { destruct b; simpl; [rewrite key_eqb_refl, N.eqb_refl; destruct tr; simpl; [apply N.eqb_refl|reflexivity]|apply N.eqb_refl]. }
      congruence.
  - eapply good_mono; [exact L|]. eapply write_good; eauto. rewrite G0. discriminate.
Qed.

Lemma store_inv evs : forall s s', Inv s -> Forall ev_wf evs -> run evs s = Some s' ->
  all_good (st_now s) (st_ds s) -> all_good (st_now s') (st_ds s').
Proof.
  induction evs as [|e evs IH]; intros s s' I W H A; simpl in H.
  - inversion H; subst. exact A.
  - destruct (step s e) as [s1|] eqn:E; [|discriminate]. inversion W; subst.
    eapply IH; [eapply step_inv; eauto|assumption|exact H|eapply step_all_good; eauto].
Qed.

(* 2. a stored valid record is only ever replaced by one the validator selects over it *)
Lemma no_downgrade s e s' k rk v tr b' :
  Inv s -> step s e = Some s' ->
  ds_get k (st_ds s) = Some (BRec rk v tr) -> valid rk v = true ->
  ds_get k (st_ds s') = Some b' -> b' <> BRec rk v tr ->
  exists v' ts, b' = BRec k v' (Some ts) /\ valid k v' = true /\ sel k v' v = Some true.
Proof.
  intros I H G V G' NE. destruct (step_ds_change _ _ _ H) as [E|t k0 data _ Ht E|t k0 seen c _ Ht E].
  - rewrite E in G'. congruence.
  - rewrite E in G'. destruct (list_eq_dec N.eq_dec k k0) as [->|NK].
    + rewrite ds_get_put_same in G'. inversion G'; subst b'.
      destruct (inv_pc _ I _ _ Ht) as (v' & ts & Eb & V' & T & S). exists v', ts. repeat split; auto.
      apply S. rewrite G. simpl. rewrite V. reflexivity.
    + rewrite ds_get_put_other in G' by exact NK. congruence.
  - rewrite E in G'. destruct (list_eq_dec N.eq_dec k k0) as [->|NK].
    + rewrite ds_get_del_same in G'. discriminate.
    + rewrite ds_get_del_other in G' by exact NK. congruence.
Qed.

(* 3. a deletion removes exactly the bytes its reader saw, and those bytes were
   corrupt, filed under the wrong key, or expired *)
Lemma delete_only_seen_bad s e s' k b :
  Inv s -> step s e = Some s' ->
  ds_get k (st_ds s) = Some b -> ds_get k (st_ds s') = None ->
  discardable k b (st_now s) = true /\
  exists t c, e = EAct t ADsDelete /\ st_thr s t = Some (DDelete k b c).
Proof.
  intros I H G G'. destruct (step_ds_change _ _ _ H) as [E|t k0 data _ Ht E|t k0 seen c Ee Ht E].
  - rewrite E in G'. congruence.
  - rewrite E in G'. destruct (list_eq_dec N.eq_dec k k0) as [->|NK].
    + rewrite ds_get_put_same in G'. discriminate.
    + rewrite ds_get_put_other in G' by exact NK. congruence.
  - rewrite E in G'. destruct (list_eq_dec N.eq_dec k k0) as [->|NK].
    + destruct (inv_pc _ I _ _ Ht) as (D & G0 & C). rewrite G in G0. inversion G0; subst seen.
      split; [exact D|]. exists t, c. auto.
    + rewrite ds_get_del_other in G' by exact NK. congruence.
Qed.

(* 4. a record is only served for the key it was requested under, as read from
   the datastore in that very step, and not older than max_age *)
Lemma gc_next_not_rec now l rk v tr : gc_next now l <> Done (RRec rk v tr).
Proof. induction l as [|e l IH]; simpl; [discriminate|]. destruct (gc_victim now e); [discriminate|exact IH]. Qed.

Lemma after_absent_not_rec now k c rk v tr : after_absent k c now <> Done (RRec rk v tr).
Proof. destruct c; simpl; try discriminate. apply gc_next_not_rec. Qed.

Lemma served_fresh s t a s' rk v tr :
  Inv s -> step s (EAct t a) = Some s' -> st_thr s' t = Some (Done (RRec rk v tr)) ->
  st_thr s t = Some (GRead rk KGet) /\ a = ADsGet /\
  ds_get rk (st_ds s) = Some (BRec rk v tr) /\ expired (st_now s) tr = false.
Proof.
  intros I H D. simpl in H. destruct (st_thr s t) as [p|] eqn:Et; [|discriminate].
  pose proof (inv_pc _ I _ _ Et) as Ok.
  destruct p; destruct a; simpl in H; try discriminate;
    try (destruct (st_lock s (lock_index k)); [discriminate|]);
    inversion H; subst; clear H; simpl in D; rewrite upd_thr_same in D; inversion D as [D1]; clear D.
  - (* PRead *) exfalso. unfold ValueStore.put_after_read in D1.
    destruct (existing_for_select _); [destruct (sel k v0 v1) as [[|]|]|]; discriminate.
  - (* PUnlock *) subst r. simpl in Ok. destruct Ok as [[] _].
  - (* GRead *)
    unfold ValueStore.get_after_read in D1. destruct (ds_get k (st_ds s)) as [b|] eqn:G.
    + destruct (discardable k b (st_now s)) eqn:Dd; [discriminate|].
      destruct b as [rk0 v0 tr0|j]; [|discriminate].
      simpl in Dd. apply orb_false_iff in Dd as [K X]. apply negb_false_iff in K. apply key_eqb_eq in K. subst rk0.
      destruct c as [|nv|rest]; simpl in D1.
      * inversion D1; subst. auto.
      * destruct (N.eqb v0 nv); [discriminate|]. destruct (sel k nv v0) as [[|]|]; discriminate.
      * exfalso. eapply gc_next_not_rec; eauto.
    + exfalso. eapply after_absent_not_rec; eauto.
  - (* DRead *) destruct (ds_get k (st_ds s)) as [cur|]; [destruct (bytes_eqb cur seen)|]; discriminate.
  - (* DUnlock *) exfalso. eapply after_absent_not_rec; eauto.
  - (* GCQuery *) exfalso. eapply gc_next_not_rec; eauto.
Qed.

(* 5. acknowledgement: when a put returns nil its record is in the datastore *)
Lemma ack_stored s t k w s' :
  Inv s -> st_thr s t = Some (PUnlock k ROk w) -> step s (EAct t AUnlock) = Some s' ->
  st_thr s' t = Some (Done ROk) /\
  exists data, w = Some data /\ ds_get k (st_ds s') = Some data /\ good (st_now s') k data.
Proof.
  intros I Ht H. simpl in H. rewrite Ht in H. simpl in H. inversion H; subst; clear H. simpl.
  split; [apply upd_thr_same|].
  destruct (inv_pc _ I _ _ Ht) as [_ Ok]. destruct w as [data|]; [|congruence].
  exists data. destruct Ok. auto.
Qed.

(* only an acknowledged Put reaches Done ROk *)
Lemma ok_only_after_write s t a s' :
  Inv s -> step s (EAct t a) = Some s' -> st_thr s' t = Some (Done ROk) ->
  exists k data, st_thr s t = Some (PUnlock k ROk (Some data)) /\ ds_get k (st_ds s') = Some data.
Proof.
  intros I H D. simpl in H. destruct (st_thr s t) as [p|] eqn:Et; [|discriminate].
  pose proof (inv_pc _ I _ _ Et) as Ok.
  assert (GN: forall now l, gc_next now l <> Done ROk).
  { intros now l. induction l as [|e l IH]; simpl; [discriminate|]. destruct (gc_victim now e); [discriminate|exact IH]. }
  assert (AN: forall now k c, after_absent k c now <> Done ROk).
  { intros now k c. destruct c; simpl; try discriminate. apply GN. }
  destruct p; destruct a; simpl in H; try discriminate;
    try (destruct (st_lock s (lock_index k)); [discriminate|]);
    inversion H; subst; clear H; simpl in D; rewrite upd_thr_same in D; inversion D as [D1]; clear D.
  - exfalso. unfold ValueStore.put_after_read in D1.
    destruct (existing_for_select _); [destruct (sel k v v0) as [[|]|]|]; discriminate.
  - subst r. simpl in Ok. destruct Ok as [_ Ok]. destruct wrote as [data|]; [|congruence].
    exists k, data. simpl. destruct Ok. auto.
  - exfalso. unfold ValueStore.get_after_read in D1. destruct (ds_get k (st_ds s)) as [b|].
    + destruct (discardable k b (st_now s)); [discriminate|]. destruct b as [rk0 v0 tr0|j]; [|discriminate].
      destruct c as [|nv|rest]; simpl in D1; try discriminate.
      * destruct (N.eqb v0 nv); [discriminate|]. destruct (sel k nv v0) as [[|]|]; discriminate.
      * eapply GN; eauto.
    + eapply AN; eauto.
  - destruct (ds_get k (st_ds s)) as [cur|]; [destruct (bytes_eqb cur seen)|]; discriminate.
  - exfalso. eapply AN; eauto.
  - exfalso. eapply GN; eauto.
Qed.

(* 6. a record that is not discardable stays, or is replaced by an accepted put *)
Definition succ1 (k : key) (b b' : bytes) : Prop :=
  exists v' ts, b' = BRec k v' (Some ts) /\ valid k v' = true /\
    (forall rk v tr, b = BRec rk v tr -> valid rk v = true -> sel k v' v = Some true).

Lemma live_stable s e s' k b :
  Inv s -> step s e = Some s' ->
  ds_get k (st_ds s) = Some b -> discardable k b (st_now s) = false ->
  ds_get k (st_ds s') = Some b \/ exists b', ds_get k (st_ds s') = Some b' /\ succ1 k b b'.
Proof.
  intros I H G D. destruct (ds_get k (st_ds s')) as [b'|] eqn:G'.
  - destruct (bytes_eqb b' b) eqn:B.
    + apply bytes_eqb_eq in B. subst. left. reflexivity.
    + right. exists b'. split; [reflexivity|].
      assert (NE: b' <> b).
      { intro X. subst b'. destruct b; simpl in B.
        - rewrite key_eqb_refl, N.eqb_refl in B. destruct tr; simpl in B; [rewrite N.eqb_refl in B|]; discriminate.
        - rewrite N.eqb_refl in B. discriminate. }
      assert (NG: ds_get k (st_ds s) <> Some b') by (rewrite G; congruence).
      destruct (write_good _ _ _ _ _ I H G' NG) as (v' & ts & Eb & V' & T).
      exists v', ts. repeat split; auto.
      intros rk v tr -> V.
      destruct (no_downgrade _ _ _ _ _ _ _ _ I H G V G' NE) as (v2 & ts2 & E2 & _ & S).
      rewrite Eb in E2. inversion E2; subst. exact S.
  - exfalso. destruct (delete_only_seen_bad _ _ _ _ _ I H G G') as [D' _]. congruence.
Qed.

Inductive succ (k : key) : bytes -> bytes -> Prop :=
| succ_refl b : succ k b b
| succ_step b b1 b2 : succ1 k b b1 -> succ k b1 b2 -> succ k b b2.

(* over any continuation of the run: the key holds the record or an accepted
   successor of it, unless the record (or a successor that replaced it) has
   meanwhile aged out *)
Lemma live_run evs : forall s s' k b,
  Inv s -> Forall ev_wf evs -> run evs s = Some s' -> ds_get k (st_ds s) = Some b ->
  (exists b2, ds_get k (st_ds s') = Some b2 /\ succ k b b2) \/
  (exists b1, succ k b b1 /\ discardable k b1 (st_now s') = true).
Proof.
  induction evs as [|e evs IH]; intros s s' k b I W H G; simpl in H.
  - inversion H; subst. left. exists b. split; [exact G|apply succ_refl].
  - destruct (step s e) as [s1|] eqn:E; [|discriminate]. inversion W; subst.
    destruct (discardable k b (st_now s)) eqn:D.
    + right. exists b. split; [apply succ_refl|].
      apply discardable_mono with (now := st_now s); [|exact D].
      pose proof (step_now_le _ _ _ E). pose proof (run_now_le _ _ _ H). lia.
    + assert (I1: Inv s1) by (eapply step_inv; eauto).
      destruct (live_stable _ _ _ _ _ I E G D) as [G1|(b' & G1 & S1)].
      * eapply IH; eauto.
      * destruct (IH _ _ _ _ I1 H3 H G1) as [(b2 & G2 & S2)|(b2 & S2 & D2)].
        -- left. exists b2. split; [exact G2|]. eapply succ_step; eauto.
        -- right. exists b2. split; [|exact D2]. eapply succ_step; eauto.
Qed.

(* 7. a Get that reads a well-filed, unexpired record returns it *)
Lemma get_returns_stored s t k v tr :
  st_thr s t = Some (GRead k KGet) -> ds_get k (st_ds s) = Some (BRec k v tr) ->
  expired (st_now s) tr = false ->
  step s (EAct t ADsGet) = Some (with_pc s t (Done (RRec k v tr))).
Proof.
  intros Ht G X. simpl. rewrite Ht. simpl. unfold ValueStore.get_after_read. rewrite G.
  simpl. rewrite key_eqb_refl, X. reflexivity.
Qed.

(* 8. PutValue is refused when a different value that Select prefers is stored *)
Lemma local_put_refused s t k nv v tr :
  st_thr s t = Some (GRead k (KLocalPut nv)) -> ds_get k (st_ds s) = Some (BRec k v tr) ->
  expired (st_now s) tr = false -> v <> nv -> sel k nv v = Some false ->
  step s (EAct t ADsGet) = Some (with_pc s t (Done (RErr ERefused))).
Proof.
  intros Ht G X NE S. simpl. rewrite Ht. simpl. unfold ValueStore.get_after_read. rewrite G.
  simpl. rewrite key_eqb_refl, X. simpl.
  destruct (N.eqb v nv) eqn:E; [apply N.eqb_eq in E; contradiction|]. rewrite S. reflexivity.
Qed.

(* ... and ValueStore.Put itself refuses when its own read finds a valid record
   that Select does not rank below the incoming one *)
Lemma put_refused s t k rk nv orec v tr :
  st_thr s t = Some (PRead k rk nv) -> ds_get k (st_ds s) = Some (BRec orec v tr) ->
  valid orec v = true -> sel k nv v <> Some true ->
  exists e, step s (EAct t ADsGet) = Some (with_pc s t (PUnlock k (RErr e) None)).
Proof.
  intros Ht G V S. simpl. rewrite Ht. simpl. unfold ValueStore.put_after_read. rewrite G. simpl. rewrite V.
  destruct (sel k nv v) as [[|]|]; [congruence|eexists; reflexivity|eexists; reflexivity].
Qed.

End Store.
