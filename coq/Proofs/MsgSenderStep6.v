(* Lemmas about Model/MsgSender.v: the invariant is preserved by the events remanswer, remreset, disc, inval, invdrop. *)
From Verif.Lib Require Import GoSem Bits.
From Verif.Model Require Import MsgSender.
From Coq Require Import Lia.
From Verif.Proofs Require Import MsgSenderInv.

Lemma step_inv_remanswer s st good s' : Inv s -> step s (ERemAnswer st good) = Some s' -> Inv s'.
Proof.
  intros I H. ev I H.
  all: match goal with
       | Hy : nth_error (streams ?s) _ = Some ?y, Hc : sm_cli ?y = COpen, Hp : sm_pending ?y = _ :: ?l |- _ =>
           destruct (i_clean s I _ _ Hy Hc) as [A B]; rewrite Hp in A, B; simpl in A;
           try (destruct l; destruct (sm_inbox y); simpl in *; try lia; split; [lia|];
                intros ? [<-|[]]; apply B; left; reflexivity);
           try (split; [simpl in *; lia|]; intros ? Hin; apply B; simpl; right; exact Hin)
       end.
Qed.

Lemma step_inv_remreset s st s' : Inv s -> step s (ERemReset st) = Some s' -> Inv s'.
Proof.
  intros I H. ev I H.
  match goal with
  | Hy : nth_error (streams ?s) _ = Some ?y, Hc : sm_cli ?y = COpen |- _ =>
      destruct (i_clean s I _ _ Hy Hc) as [A B]; split; [simpl; lia|];
      intros ? Hin; apply B; simpl in Hin; rewrite app_nil_r in Hin; apply in_or_app; left; exact Hin
  end.
Qed.

Lemma step_inv_disc s p s' : Inv s -> step s (EDisc p) = Some s' -> Inv s'.
Proof. intros I H. ev I H. Qed.

Lemma step_inv_inval s sd s' : Inv s -> step s (EInval sd) = Some s' -> Inv s'.
Proof. intros I H. ev I H. Qed.

Lemma step_inv_invdrop s sd s' : Inv s -> step s (EInvDrop sd) = Some s' -> Inv s'.
Proof. intros I H. ev I H. Qed.
