(* C20 -- Keystore contents are exact, durable, and replaced atomically by reset.
   Property theorems only; every proof is `exact <lemma>` (or a vm_compute
   witness for a refutation).  Lemmas: Proofs/KeystoreProofs.v and
   Proofs/ResetKeystoreProofs.v; models: Model/Keystore.v, Model/ResetKeystore.v.

   [bits_of] maps a key identity to its Kademlia identifier; [kwf] says a key
   carries the identifier of its identity; [pb] is prefixBits, [bs] batchSize.
   [keys_ok ks] = the keys of a Put/Delete call are well formed; a call may name
   the same key several times ([new_of] / the `seen` map keep the first one). *)
From Verif.Lib Require Import GoSem Bits.
From Verif.Model Require Import Keystore ResetKeystore.
From Verif.Proofs Require Import KeystoreProofs ResetKeystoreProofs.
From Verif.Corr Require Run_C20B.
From Verif.Proofs Require RunC20BSound.

(* ======================= part 1: the plain keystore ======================= *)

(* 1. Every history of Put / Delete / Empty (each possibly with one failing
   datastore call), clean restarts and crashes at any journal position: the
   datastore and the size counter stay consistent -- every journal prefix is a
   well-formed store whose size key is absent or exact, the size key is absent
   while the keystore runs, the counter equals the number of rows. *)
Theorem c20_history_invariant :
  forall (bits_of : N -> bits) (pb bs : nat) (ops : list kop),
    Forall (kop_ok bits_of) ops -> Inv bits_of pb (krun pb bs ks_new ops).
Proof. intros b pb bs ops H. exact (krun_inv b pb bs ops ks_new (ks_new_inv b pb) H). Qed.
Print Assumptions c20_history_invariant.

(* 2. Put returns exactly the keys not already stored and stores them. *)
Theorem c20_put_returns_new :
  forall bits_of pb s ks f, Inv bits_of pb s -> keys_ok bits_of ks -> (f = NoFault \/ f = FailSync) ->
    exists s', ks_put pb s ks f = (s', Some (new_of s ks)) /\
               stored s' = stored s ++ new_of s ks /\ Inv bits_of pb s'.
Proof. exact put_spec. Qed.
Print Assumptions c20_put_returns_new.

(* 3. Get / CountKeysUpTo / ContainsPrefix reflect exactly the stored keys whose
   identifier starts with the prefix (short and long prefixes alike). *)
Theorem c20_get_exact :
  forall bits_of pb s p, Inv bits_of pb s ->
    ks_get pb s p = Some (map VKey (filter (under p) (stored s))).
Proof. exact get_spec. Qed.
Print Assumptions c20_get_exact.

Theorem c20_count_exact :
  forall bits_of pb s p limit, Inv bits_of pb s ->
    ks_count pb s p limit =
    Some (let m := Z.of_nat (length (filter (under p) (stored s))) in
          if (0 <? limit)%Z then Z.min limit m else m).
Proof. exact count_spec. Qed.
Print Assumptions c20_count_exact.

Theorem c20_contains_exact :
  forall bits_of pb s p, Inv bits_of pb s ->
    ks_contains pb s p = Some (existsb (under p) (stored s)).
Proof. exact contains_spec. Qed.
Print Assumptions c20_contains_exact.

(* 4. Delete removes exactly the named keys, Empty everything. *)
Theorem c20_delete_exact :
  forall bits_of pb s ks f, Inv bits_of pb s -> keys_ok bits_of ks -> (f = NoFault \/ f = FailSync) ->
    exists s', ks_delete pb s ks f = (s', true) /\
      stored s' = filter (fun x => negb (has_mid (mid x) ks)) (stored s) /\ Inv bits_of pb s'.
Proof. exact delete_spec. Qed.
Print Assumptions c20_delete_exact.

Theorem c20_empty_exact :
  forall bits_of pb bs s f, Inv bits_of pb s -> (f = NoFault \/ f = FailSync \/ exists i, f = FailHas i) ->
    exists s', ks_empty bs s f = (s', true) /\ stored s' = [] /\ Inv bits_of pb s'.
Proof. exact empty_spec. Qed.
Print Assumptions c20_empty_exact.

(* 5. Size equals the number of stored keys, and no key is stored twice. *)
Theorem c20_size_is_cardinality :
  forall bits_of pb s, Inv bits_of pb s ->
    k_size s = Z.of_nat (length (stored s)) /\ NoDup (map mid (stored s)).
Proof. intros b pb s I. exact (conj (inv_size_card b pb s I) (inv_stored_nodup b pb s I)). Qed.
Print Assumptions c20_size_is_cardinality.

(* 6. After a crash at ANY position of the write stream the persisted size is
   absent or exact, and the reopened keystore is consistent again. *)
Theorem c20_size_after_crash :
  forall bits_of pb s, Inv bits_of pb s ->
    (forall n, size_ok (replay (firstn n (k_j s)))) /\
    (forall back, Inv bits_of pb (ks_crash s back)).
Proof.
  intros b pb s I. exact (conj (fun n => proj2 (i_pre b pb s I n)) (fun back => crash_inv b pb s back I)).
Qed.
Print Assumptions c20_size_after_crash.

(* 7. Durability: over a history without injected failures, a crash that loses
   only writes not yet synced leaves the stored set unchanged. *)
Theorem c20_crash_keeps_acknowledged :
  forall bits_of pb bs ops back,
    Forall (kop_ok bits_of) ops -> Forall kop_nofault ops ->
    let s := krun pb bs ks_new ops in
    back <= length (k_j s) - k_synced s -> stored (ks_crash s back) = stored s.
Proof.
  intros b pb bs ops back F1 F2 s B.
  destruct (krun_inv_dur b pb bs ops ks_new (ks_new_inv b pb) ks_new_dur F1 F2) as [I D].
  exact (crash_keeps b pb s back I D B).
Qed.
Print Assumptions c20_crash_keeps_acknowledged.

Definition c20_k (i : N) : mhk := {| mbits := kb 4 i; mid := i |}.

(* ===================== part 2: the resettable keystore ==================== *)
(* [ev_ok]: the keys of Puts and the supplied keys are well formed.  Nothing else:
   keys may repeat, any datastore call of the reset may fail (EStartFail, EAbort,
   EAbortClean, EFlipFail), the caller may cancel or Close at any moment. *)

(* 9. Reset is atomic under every interleaving and at every crash point: for
   every list of events of the worker and the ResetCids goroutine (concurrent
   Puts in any phase, any batching, cancellation / failing altDs call (EAbort,
   EAbortClean, EStartFail), Close at any moment, several resets in a row) and
   every journal prefix a crash can leave, a reopened keystore holds the complete
   old set or -- only once the swap of this reset has happened -- the complete
   new set, each with every acknowledged concurrent Put and nothing but Puts
   that were at least in flight; no key twice; reported size = number of keys. *)
Theorem c20_reset_atomic :
  forall bits_of pb evs s n,
    Forall (ev_ok bits_of) evs -> rrun pb (ropen []) evs = Some s ->
    r_synced s <= n <= length (r_j s) ->
    let j' := firstn n (r_j s) in
    NoDup (map mid (reopen_keys j')) /\
    reopen_size j' = Z.of_nat (length (reopen_keys j')) /\
    (holds (r_old s) s (reopen_keys j') \/ (r_flipped s = true /\ holds (r_new s) s (reopen_keys j'))).
Proof. exact reset_atomic. Qed.
Print Assumptions c20_reset_atomic.

(* 10. Cancellation, a failed altDs call, or Close during the reset: no swap has
   happened, so only the complete old set (with the acknowledged puts) can come back. *)
Theorem c20_reset_cancel_close :
  forall bits_of pb evs s n,
    Forall (ev_ok bits_of) evs -> rrun pb (ropen []) evs = Some s ->
    r_flipped s = false -> r_synced s <= n <= length (r_j s) ->
    holds (r_old s) s (reopen_keys (firstn n (r_j s))).
Proof. exact reset_not_flipped. Qed.
Print Assumptions c20_reset_cancel_close.

(* 11. The running keystore agrees with that: exact size, no duplicates, old or
   new set with the concurrent puts. *)
Theorem c20_reset_live_exact :
  forall bits_of pb evs s,
    Forall (ev_ok bits_of) evs -> rrun pb (ropen []) evs = Some s -> r_closed s = false ->
    r_size s = Z.of_nat (length (keys_of (primary s))) /\ NoDup (map mid (keys_of (primary s))) /\
    (holds (r_old s) s (keys_of (primary s)) \/ (r_flipped s = true /\ holds (r_new s) s (keys_of (primary s)))).
Proof. exact live_exact. Qed.
Print Assumptions c20_reset_live_exact.

(* 12. Error injection: whichever datastore call of the reset fails -- in opStart
   (EStartFail), in phases A-C (EAbort), in the final drain or the altDs.Sync of
   opCleanup (EAbortClean), or the write of the active-namespace marker itself
   (EFlipFail) -- at every crash point afterwards a reopened keystore holds the
   complete OLD set with the acknowledged puts, with matching size.
   PARTIAL in one respect: a failing marker Sync, a failing call inside the
   teardown and a failing datastore call of a concurrent Put are not modelled
   (they are exercised against the Go-side oracle of the harness only). *)
Theorem c20_error_injection :
  forall bits_of pb evs s s' e n,
    Forall (ev_ok bits_of) evs -> rrun pb (ropen []) evs = Some s ->
    fault_event e -> rstep pb s e = Some s' ->
    r_synced s' <= n <= length (r_j s') ->
    let j' := firstn n (r_j s') in
    NoDup (map mid (reopen_keys j')) /\ reopen_size j' = Z.of_nat (length (reopen_keys j')) /\
    holds (r_old s) s' (reopen_keys j').
Proof. exact error_injection. Qed.
Print Assumptions c20_error_injection.

(* 13. The worker is never wedged: from every reachable state of a keystore that
   has not been closed there is a continuation that brings the worker back to the
   idle loop with no reset in progress (in particular after a cancellation that
   arrives while opStart runs), so every later operation can proceed. *)
Theorem c20_worker_never_wedged :
  forall bits_of pb evs s,
    Forall (ev_ok bits_of) evs -> rrun pb (ropen []) evs = Some s -> r_closed s = false ->
    exists evs' s', rrun pb s evs' = Some s' /\ r_ph s' = PIdle /\ r_wk s' = None /\ r_closed s' = false.
Proof. exact reachable_never_wedged. Qed.
Print Assumptions c20_worker_never_wedged.

(* Non-vacuity: concrete histories meeting the hypotheses. *)
Definition c20_bits (i : N) : bits := kb 4 i.
Example c20_nonvacuous :
  (* part 1: a history with a fault, a restart and a crash *)
  (let ops := [KPut [c20_k 9; c20_k 3; c20_k 9] NoFault; KPut [c20_k 12] (FailHas 0); KRestart;
               KDel [c20_k 3; c20_k 3] NoFault; KCrash 1; KPut [c20_k 3; c20_k 4; c20_k 4] FailSync] in
   Forall (kop_ok c20_bits) ops /\
   map mid (stored (krun 0 2 ks_new ops)) = [9%N; 3%N; 4%N] /\ k_size (krun 0 2 ks_new ops) = 3%Z) /\
  (* a call naming a new key twice returns it once and counts it once *)
  (let (s', r) := ks_put 0 ks_new [c20_k 5; c20_k 5] NoFault in
   r = Some [c20_k 5] /\ k_size s' = 1%Z /\ stored s' = [c20_k 5]) /\
  (* part 2: a reset with a concurrent Put in phase A and a repeated one after phase B, a
     first attempt whose marker write fails, then Close *)
  (let evs := [EPutBegin [c20_k 1]; EPutCommit; EPutSync;
               EStart [c20_k 2]; EStartDone; EKey; EAltWrite true [c20_k 2]; EAltSync; ECount;
               ECleanup; ECleanSync; EFlipFail; EDel [dkey 0 (c20_k 2)]; ETearSync; EFinish;
               EStart [c20_k 2; c20_k 5]; EStartDone; EKey;
               EPutBegin [c20_k 6]; EPutCommit; EPutSync;
               EAltWrite false [c20_k 6]; EKey; EAltWrite true [c20_k 2; c20_k 5]; EAltSync; ECount;
               EPutBegin [c20_k 7; c20_k 7; c20_k 2]; EPutCommit; EPutSync;
               EAltWrite false [c20_k 7; c20_k 7; c20_k 2]; ECleanup; ECleanSync; EFlip; EMarkSync;
               EDel [dkey 0 (c20_k 1); dkey 0 (c20_k 6)]; EDel [dkey 0 (c20_k 7); dkey 0 (c20_k 2)];
               ETearSync; EFinish; EClose; ECloseSync] in
   Forall (ev_ok c20_bits) evs /\
   exists s, rrun 0 (ropen []) evs = Some s /\
     map mid (reopen_keys (r_j s)) = [6%N; 2%N; 5%N; 7%N] /\ reopen_size (r_j s) = 4%Z).
Proof.
  split; [|split].
  - split; [|vm_compute; split; reflexivity].
    repeat (apply Forall_cons || apply Forall_nil); simpl; try exact I;
      intros k H; simpl in H; intuition subst; reflexivity.
  - vm_compute. repeat split.
  - split.
    + repeat (apply Forall_cons || apply Forall_nil); simpl; try exact I;
        intros k H; simpl in H; intuition subst; reflexivity.
    + eexists. split; [vm_compute; reflexivity|]. vm_compute. split; reflexivity.
Qed.

(* ============ part 3: the check of the bounded-buffer runs ============ *)

(* 15. The reset model above stages a concurrent Put in one piece (unbounded buffer).  Runs of
   the real keystore with a reset buffer of 1-3 keys are therefore judged by the final-state
   clause of the property alone, by the executable check of Corr/Run_C20B.v.  That check decides
   the clause exactly: verdict 0 iff, live and reopened, the keystore holds no key twice, every
   supplied-or-previous key and every key of an acknowledged Put, nothing else (except keys of
   Puts that failed), and reports the number of keys as its size - the previous set after an
   error, the new set after a nil return that nobody cancelled, either complete set after a
   requested cancellation. *)
Theorem c20_bounded_buffer_check_decides_final_state_clause :
  forall c, Verif.Corr.Run_C20B.verdict c = 0%nat <-> Verif.Proofs.RunC20BSound.final_clause c.
Proof. exact Verif.Proofs.RunC20BSound.verdict_sound. Qed.
Print Assumptions c20_bounded_buffer_check_decides_final_state_clause.

(* the check accepts a run in which a Put of three keys was acknowledged during a completed
   reset, and rejects the same run with one of those keys missing after the swap *)
Example c20_bounded_buffer_check_discriminates :
  Verif.Corr.Run_C20B.verdict
    {| Verif.Corr.Run_C20B.b_ok := true; Verif.Corr.Run_C20B.b_cancel_req := false;
       Verif.Corr.Run_C20B.b_old := [1%N]; Verif.Corr.Run_C20B.b_new := [2%N; 3%N];
       Verif.Corr.Run_C20B.b_acked := [4%N; 5%N; 6%N]; Verif.Corr.Run_C20B.b_maybe := [];
       Verif.Corr.Run_C20B.b_live := (5%Z, [2%N; 3%N; 4%N; 5%N; 6%N]);
       Verif.Corr.Run_C20B.b_reopen := (5%Z, [2%N; 3%N; 4%N; 5%N; 6%N]) |} = 0%nat /\
  Verif.Corr.Run_C20B.verdict
    {| Verif.Corr.Run_C20B.b_ok := true; Verif.Corr.Run_C20B.b_cancel_req := false;
       Verif.Corr.Run_C20B.b_old := [1%N]; Verif.Corr.Run_C20B.b_new := [2%N; 3%N];
       Verif.Corr.Run_C20B.b_acked := [4%N; 5%N; 6%N]; Verif.Corr.Run_C20B.b_maybe := [];
       Verif.Corr.Run_C20B.b_live := (4%Z, [2%N; 3%N; 4%N; 5%N]);
       Verif.Corr.Run_C20B.b_reopen := (4%Z, [2%N; 3%N; 4%N; 5%N]) |} = 2%nat.
Proof. split; vm_compute; reflexivity. Qed.
