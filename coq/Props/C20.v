(* C20 -- under construction *)
From Verif.Lib Require Import GoSem Bits.
From Verif.Model Require Import Keystore.
