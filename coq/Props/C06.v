(* C06 — Puts and provides reach every closest peer found, with correct content.
   Theorems only (Model/PutFlow.v on top of Model/Lookup.v; lemmas in
   Proofs/PutFlowProofs.v and Proofs/LookupProofs.v). *)
From Verif.Lib Require Import GoSem.
From Verif.Model Require Import Lookup PutFlow.
From Verif.Proofs Require Import LookupBasics LookupProofs PutFlowProofs.
Local Open Scope N_scope.

(* 1. PutValue: no message leaves before the local write; when it succeeds the
   recipients are exactly the peers the lookup returned (each carrying the
   stored key and value); a failed local write or an invalid value sends
   nothing.  The recipient list is a function of the lookup result only, so no
   recipient's failure can change who else is sent the record. *)
Theorem c06_put_value :
  forall i, let o := put_value i in
    (po_sends o <> [] -> po_local_written o = true) /\
    (po_err o = None -> exists peers, pi_lookup i = Some peers /\ po_sends o = peers /\ po_local_written o = true /\
                                    pi_valid i = true /\ pi_local_write_ok i = true) /\
    (pi_local_write_ok i = false -> po_sends o = []) /\
    (pi_valid i = false -> po_sends o = [] /\ po_local_written o = false).
Proof. exact put_value_spec. Qed.
Print Assumptions c06_put_value.

(* 2. ... and that lookup result is duplicate-free, so "once each": composed
   with C01 for every network, failure set and arrival order. *)
Theorem c06_put_recipients_once :
  forall c env seeds evs s i,
    run_search c env seeds evs = RDone s ->
    pi_lookup i = Some (r_peers (construct_result c s)) -> po_err (put_value i) = None ->
    po_sends (put_value i) = r_peers (construct_result c s) /\ NoDup (po_sends (put_value i)) /\
    ~ In (cSelf c) (po_sends (put_value i)).
Proof.
  intros c env seeds evs s i H L E. destruct (put_value_spec i) as (_ & A & _). destruct (A E) as (peers & P1 & P2 & _).
  rewrite L in P1. injection P1 as P1. rewrite P2, <- P1.
  pose proof (run_search_inv c env seeds evs) as I. rewrite H in I.
  destruct (result_spec c env seeds s (proj1 I)) as (_ & ND & NS & _). auto.
Qed.
Print Assumptions c06_put_recipients_once.

(* 3. A local PutValue is refused when a different, better-or-unrankable value is stored. *)
Theorem c06_put_refused :
  forall i, pi_valid i = true -> pi_local_read_ok i = true -> pi_old_differs i = true -> pi_select i <> Some 0%nat ->
    po_err (put_value i) = Some ENotBetter /\ po_local_written (put_value i) = false /\ po_sends (put_value i) = [].
Proof. exact put_value_refused. Qed.
Print Assumptions c06_put_refused.

(* 4. Classic Provide: every returned peer is sent one ADD_PROVIDER — also when
   only the inner deadline expired — unless the filtered address list is empty,
   in which case nothing leaves (never an empty record). *)
Theorem c06_provide_all_closest :
  forall addrs_nonempty lk,
    match lk with
    | LkOk peers | LkInnerDeadline peers =>
        classic_provide addrs_nonempty lk = Some (if addrs_nonempty then peers else [])
    | LkErr => classic_provide addrs_nonempty lk = None
    end.
Proof. intros a lk. destruct lk, a; reflexivity. Qed.
Print Assumptions c06_provide_all_closest.

(* 5. The deadline budget of classicProvide (nanoseconds). *)
Theorem c06_deadline_budget :
  forall t,
    (t < 0 -> provide_budget t = None)%Z /\
    (0 <= t < 10000000000 -> provide_budget t = Some (t - Z.quot t 10))%Z /\
    (10000000000 <= t -> provide_budget t = Some (t - 1000000000))%Z.
Proof. exact provide_budget_spec. Qed.
Print Assumptions c06_deadline_budget.

Theorem c06_deadline_budget_within :
  forall t b, provide_budget t = Some b -> (0 <= b <= t)%Z.
Proof. exact provide_budget_positive. Qed.
Print Assumptions c06_deadline_budget_within.

(* 6. Optimistic Provide: whatever the early scheduling did, each peer is
   scheduled at most once and every peer of the final result is scheduled. *)
Theorem c06_optimistic_once_and_all :
  forall early result,
    NoDup (opt_provide early result) /\ (forall p, In p result -> In p (opt_provide early result)).
Proof. exact opt_provide_spec. Qed.
Print Assumptions c06_optimistic_once_and_all.

(* 7. Corrective puts after a completed value search: exactly the returned
   peers that did not return the best value. *)
Theorem c06_corrective_puts :
  forall result pwb p, pwb <> [] ->
    (In p (corrective_puts result pwb) <-> In p result /\ ~ In p pwb).
Proof. exact corrective_puts_spec. Qed.
Print Assumptions c06_corrective_puts.

Example c06_nonvacuous :
  po_sends (put_value {| pi_valid := true; pi_local_read_ok := true; pi_old_differs := true; pi_select := Some 0%nat;
                          pi_local_write_ok := true; pi_lookup := Some [3; 5] |}) = [3; 5] /\
  corrective_puts [3; 5; 7] [5] = [3; 7] /\ opt_provide [[5]; [5; 9]] [3; 5] = [5; 9; 3].
Proof. repeat split; reflexivity. Qed.
