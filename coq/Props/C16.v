(* C16 — Accelerated client returns the true nearest crawled peers, safely.
   Property theorems only; every proof is `exact <lemma>`.  Lemmas:
   Proofs/FullRtProofs.v, Proofs/CrawlerProofs.v; models: Model/FullRt.v,
   Model/Crawler.v.

   A crawl [c : crawl] is the list of (peer, addresses) the crawl kept; peers
   are Kademlia identifiers, an address is [Some group] or [None] (no IP).
   [table_of c] is the table runCrawler installs for it; [get_closest] is
   GetClosestPeers, [Ok l] / [Panic] / [Blocked] (does not return).

   History: on the snapshot seven clauses were false of the code (mixed read
   between three swap steps, step-0 spin and whole-table answer with K = 0,
   divide by zero on an empty table, dropped limit option, duplicate starting
   peers, a peer with two addresses in one group skipped).  They were replayed
   on the real code, repaired in /repo (554fc14 7521410 bdffa69 69fc371 fb69ae6
   19e6b03), and the model and the theorems below describe the repaired code.
   The harness keeps the inputs that triggered each of them. *)
From Coq Require Import Permutation Sorting.Sorted.
From Verif.Lib Require Import GoSem Bits.
From Verif.Model Require Import FullRt Crawler.
From Verif.Proofs Require Import FullRtProofs CrawlerProofs.

(* 1. The answer lists peers of the one crawl in strictly ascending XOR
   distance from the key, each once, at most K of them. *)
Theorem c16_sorted_single_crawl :
  forall (c : crawl) (key : N) (K limit : nat) (l : list N),
    NoDup (map fst c) -> get_closest (table_of c) key K limit = Ok l ->
    StronglySorted (fun a b => (dist key a < dist key b)%N) l /\
    incl l (map fst c) /\ NoDup l /\ (1 <= K -> length l <= K).
Proof. exact sorted_single_crawl. Qed.
Print Assumptions c16_sorted_single_crawl.

(* The call returns (no panic, no spin) on every table, consistent or not,
   as soon as K + 2*limit > 0; more fuel never changes the answer. *)
Theorem c16_paging_terminates :
  forall (t : table) (key : N) (K limit : nat),
    0 < K + 2 * limit ->
    exists l, get_closest t key K limit = Ok l /\
              forall fuel, length (t_rt t) < fuel -> get_closest_fuel fuel t key K limit = Ok l.
Proof. exact closest_terminates. Qed.
Print Assumptions c16_paging_terminates.

(* The correspondence check evaluates [get_closest_eval] (one sort instead of
   one per page); it is the same function. *)
Theorem c16_eval_shortcut_sound :
  forall t key K limit, get_closest_eval t key K limit = get_closest t key K limit.
Proof. exact get_closest_eval_correct. Qed.
Print Assumptions c16_eval_shortcut_sound.

(* 2. At most [limit] returned peers per IP group. *)
Theorem c16_group_limit :
  forall (c : crawl) (key : N) (K limit : nat) (l : list N),
    NoDup (map fst c) -> 0 < limit -> get_closest (table_of c) key K limit = Ok l ->
    forall g, length (filter (peer_in_group c g) l) <= limit.
Proof. exact group_limit. Qed.
Print Assumptions c16_group_limit.

(* 3. Exactly the K nearest crawled peers when the limit is off, or when no
   group holds more crawled peers than the limit (a peer may list a group any
   number of times). *)
Theorem c16_exact_when_diverse :
  forall (c : crawl) (key : N) (K limit : nat),
    NoDup (map fst c) -> 1 <= K ->
    (limit = 0 \/ forall g, group_size c g <= limit) ->
    get_closest (table_of c) key K limit = Ok (closest_n key (map fst c) K).
Proof. exact exact_when_diverse. Qed.
Print Assumptions c16_exact_when_diverse.

(* 4. The limit the loop reads is the configured one (the option, else the
   default [dlimit]); the bucket size is the option, else the default
   [dbucket], never below 1, and exactly [dbucket] on the Amino prefix. *)
Theorem c16_configured_limit_used :
  forall dbucket dlimit o f, new_fullrt dbucket dlimit o = Some f ->
    1 <= f_K f /\ f_limit f = configured_limit dlimit o /\
    f_K f = match o_bucket o with Some k => k | None => dbucket end /\
    (o_amino o = true -> f_K f = dbucket).
Proof. exact new_fullrt_spec. Qed.
Print Assumptions c16_configured_limit_used.

(* 5. Table swap against readers: for every interleaving of crawl
   completions, swaps and reads, every read is the answer on the table of one
   completed crawl (or on the initial empty table), and the table is the last
   installed crawl's. *)
Theorem c16_swap_atomic_single_crawl :
  forall evs s, frun evs f_init = Some s ->
    Forall (fun r => let '(tbl, key, K, limit, ans) := r in
              (tbl = empty_table \/ exists c, In c (f_crawls s) /\ tbl = table_of c) /\
              ans = get_closest tbl key K limit) (f_reads s).
Proof. exact swap_reads_single_crawl. Qed.
Print Assumptions c16_swap_atomic_single_crawl.
Theorem c16_swap_table :
  forall evs s, frun evs f_init = Some s ->
    f_tbl s = match (match f_pending s with Some _ => tl (f_crawls s) | None => f_crawls s end) with
              | [] => empty_table | c :: _ => table_of c end.
Proof. exact swap_table. Qed.
Print Assumptions c16_swap_table.

(* 6. The crawler, every schedule [evs] of hand-overs and result arrivals,
   every network [net], every failure pattern ([net p = []]), every list of
   starting peers (duplicates included): when the loop ends, the queried peers
   are exactly those reachable from the dialable seeds through successful
   answers, each was queried once, and there is one callback per query with the
   right outcome. *)
Theorem c16_crawl_once :
  forall (net : cnet) (par : nat) (seeds : list (N * bool)) (evs : list cev) (s : cstate),
    crun net par evs (crawl_init seeds) = Some s -> cfinished s = true ->
    (forall p, In p (c_disp s) <-> reachable net (dialable seeds) p) /\
    Permutation (map fst (c_cb s)) (c_disp s) /\
    (forall p b, In (p, b) (c_cb s) -> b = match net p with [] => false | _ => true end) /\
    NoDup (c_disp s).
Proof. exact crawl_once. Qed.
Print Assumptions c16_crawl_once.

(* Termination: no schedule is longer than twice the number of reachable peers; while
   the loop condition holds an event is enabled (given a worker); the
   evaluation schedule is a schedule and ends. *)
Theorem c16_crawl_bounded :
  forall net par seeds (U : list N) evs s,
    (forall p, reachable net (dialable seeds) p -> In p U) ->
    crun net par evs (crawl_init seeds) = Some s ->
    length evs <= 2 * length U.
Proof. exact crawl_bounded. Qed.
Print Assumptions c16_crawl_bounded.
Theorem c16_crawl_progress :
  forall net par s, 1 <= par -> cfinished s = false -> exists e s', cstep net par s e = Some s'.
Proof. exact crawl_progress. Qed.
Print Assumptions c16_crawl_progress.
Theorem c16_crawl_exec_terminates :
  forall net par seeds (U : list N),
    1 <= par -> (forall p, reachable net (dialable seeds) p -> In p U) ->
    exists evs s,
      crawl_exec (2 * length U + 1) net par (crawl_init seeds) = Ok s /\
      cfinished s = true /\ crun net par evs (crawl_init seeds) = Some s.
Proof. exact crawl_exec_terminates. Qed.
Print Assumptions c16_crawl_exec_terminates.

(* 7. Bulk operations: on every table, with K + 2*limit > 0, neither the chunk
   arithmetic nor the lookups panic or block; the groups are non-empty, at
   most chunk-size long and concatenate to the keys; on an empty table bulk
   and single operations return an error. *)
Theorem c16_bulk_no_panic :
  forall (t : table) (K limit : nat) (keys : list N),
    0 < K + 2 * limit -> exists r, bulk_send t K limit keys = Ok r.
Proof. exact bulk_no_panic. Qed.
Print Assumptions c16_bulk_no_panic.
Theorem c16_bulk_chunks :
  forall (keys : list N) (c : Z), (1 <= c)%Z ->
    exists g, divide_by_chunk_size keys c = Ok g /\ concat g = keys /\
              Forall (fun x => x <> [] /\ length x <= Z.to_nat c) g.
Proof. exact (@divide_by_chunk_size_ok N). Qed.
Print Assumptions c16_bulk_chunks.
Theorem c16_bulk_empty_table_errors :
  forall K limit keys, keys <> [] -> bulk_send (table_of []) K limit keys = Ok RErr.
Proof. exact bulk_empty_table_errors. Qed.
Print Assumptions c16_bulk_empty_table_errors.
Theorem c16_single_empty_table_errors :
  forall key K limit, single_send (table_of []) key K limit = Ok RErr.
Proof. exact single_empty_table_errors. Qed.
Print Assumptions c16_single_empty_table_errors.

(* 8. Missing construction options.  A bucket size below 1 is refused; without
   the option the default is used; and whatever the options, the lookups of a
   client that was constructed return on every table (no panic, no spin). *)
Theorem c16_missing_options_rejected :
  forall dbucket dlimit o k, o_bucket o = Some k -> k < 1 -> new_fullrt dbucket dlimit o = None.
Proof. exact new_fullrt_rejects_small. Qed.
Print Assumptions c16_missing_options_rejected.
Theorem c16_missing_bucket_defaults :
  forall dbucket dlimit o, o_bucket o = None -> 1 <= dbucket ->
    new_fullrt dbucket dlimit o = Some {| f_K := dbucket; f_limit := configured_limit dlimit o |}.
Proof. exact new_fullrt_default_bucket. Qed.
Print Assumptions c16_missing_bucket_defaults.
Theorem c16_constructed_lookup_returns :
  forall dbucket dlimit o f (t : table) key, new_fullrt dbucket dlimit o = Some f ->
    exists l, get_closest t key (f_K f) (f_limit f) = Ok l.
Proof. exact constructed_lookup_returns. Qed.
Print Assumptions c16_constructed_lookup_returns.

(* Non-vacuity: a crawl of five peers in three IP groups (one peer with two
   addresses in one group) meeting the hypotheses of 1-3 whose answer skips a
   peer (limit 1), the diversity hypothesis of 3 at limit 2, a constructor call
   that succeeds, and a crawl graph with a failure, a seed listed twice and an
   address-less seed that ends. *)
Definition ex_crawl : crawl :=
  [(12%N, [Some 1%N]); (9%N, [Some 1%N; None; Some 1%N]); (3%N, [Some 2%N; Some 3%N]); (6%N, []); (15%N, [Some 3%N])].
Definition ex_net : cnet :=
  fun p => match p with 1%N => [2%N; 3%N] | 2%N => [1%N; 4%N] | _ => [] end.
Example c16_nonvacuous :
  NoDup (map fst ex_crawl) /\
  get_closest (table_of ex_crawl) 8%N 3 1 = Ok [9%N; 15%N; 6%N] /\
  closest_n 8%N (map fst ex_crawl) 3 = [9%N; 12%N; 15%N] /\
  (forall g, group_size ex_crawl g <= 2) /\
  get_closest (table_of ex_crawl) 8%N 3 2 = Ok [9%N; 12%N; 15%N] /\
  new_fullrt 20 3 {| o_amino := false; o_bucket := None; o_limit := Some 1 |} = Some {| f_K := 20; f_limit := 1 |} /\
  exists s, crawl_exec 20 ex_net 2 (crawl_init [(1%N, true); (7%N, false); (1%N, true)]) = Ok s /\
            c_disp s = [1%N; 2%N; 3%N; 4%N] /\
            c_cb s = [(1%N, true); (2%N, true); (3%N, false); (4%N, false)].
Proof.
  split; [repeat constructor; cbn; intuition discriminate|].
  split; [vm_compute; reflexivity|]. split; [vm_compute; reflexivity|].
  split.
  { intro g. unfold group_size. cbn [map fst ex_crawl filter].
    destruct (N.eq_dec g 1) as [->|H1]; [vm_compute; lia|].
    destruct (N.eq_dec g 2) as [->|H2]; [vm_compute; lia|].
    destruct (N.eq_dec g 3) as [->|H3]; [vm_compute; lia|].
    unfold peer_in_group, nmem. cbn.
    apply N.eqb_neq in H1, H2, H3. rewrite ?H1, ?H2, ?H3. cbn. lia. }
  split; [vm_compute; reflexivity|]. split; [reflexivity|].
  eexists. split; [vm_compute; reflexivity|]. split; reflexivity.
Qed.
