(* C16 — Accelerated client returns the true nearest crawled peers, safely.
   Property theorems only; every proof is `exact <lemma>`.  Lemmas:
   Proofs/FullRtProofs.v, Proofs/CrawlerProofs.v; models: Model/FullRt.v,
   Model/Crawler.v.

   A crawl [c : crawl] is the list of (peer, addresses) the crawl kept; peers
   are Kademlia identifiers, an address is [Some group] or [None] (no IP).
   [table_of c] is the table runCrawler installs for it; [get_closest] is
   GetClosestPeers, [Ok l] / [Panic] / [Blocked] (does not return).

   Seven clauses of the property are FALSE of the code as it is.  Each has a
   [_refuted] theorem with a concrete witness; each witness was replayed on the
   real code by harness/fullrt/c16_test.go (see props/C16.py for the keys). *)
From Coq Require Import Permutation Sorting.Sorted.
From Verif.Lib Require Import GoSem Bits.
From Verif.Model Require Import FullRt Crawler.
From Verif.Proofs Require Import FullRtProofs CrawlerProofs.

(* 1. The answer lists peers of the one crawl in strictly ascending XOR
   distance from the key, each once, at most K of them. *)
Theorem c16_sorted_single_crawl :
  forall (c : crawl) (key : N) (K limit : nat) (l : list N),
    NoDup (map fst c) -> get_closest (table_of c) key K limit = Ok l ->
    StronglySorted (fun a b => (dist key a < dist key b)%N) l /\
    incl l (map fst c) /\ NoDup l /\ (1 <= K -> length l <= K).
Proof. exact sorted_single_crawl. Qed.
Print Assumptions c16_sorted_single_crawl.

(* The call returns (no panic, no spin) on every table, consistent or not,
   as soon as K + 2*limit > 0; more fuel never changes the answer. *)
Theorem c16_paging_terminates :
  forall (t : table) (key : N) (K limit : nat),
    0 < K + 2 * limit ->
    exists l, get_closest t key K limit = Ok l /\
              forall fuel, length (t_rt t) < fuel -> get_closest_fuel fuel t key K limit = Ok l.
Proof. exact closest_terminates. Qed.
Print Assumptions c16_paging_terminates.

(* The correspondence check evaluates [get_closest_eval] (one sort instead of
   one per page); it is the same function. *)
Theorem c16_eval_shortcut_sound :
  forall t key K limit, get_closest_eval t key K limit = get_closest t key K limit.
Proof. exact get_closest_eval_correct. Qed.
Print Assumptions c16_eval_shortcut_sound.

(* 2. At most [limit] returned peers per IP group. *)
Theorem c16_group_limit :
  forall (c : crawl) (key : N) (K limit : nat) (l : list N),
    NoDup (map fst c) -> 0 < limit -> get_closest (table_of c) key K limit = Ok l ->
    forall g, length (filter (peer_in_group c g) l) <= limit.
Proof. exact group_limit. Qed.
Print Assumptions c16_group_limit.

(* 3. Exactly the K nearest crawled peers when the limit is off, or when no
   group holds more crawled peers than the limit.
   PARTIAL: proved under the additional hypothesis that no crawled peer lists
   the same IP group twice.  The property text does not have that hypothesis,
   and without it the statement is false of the code: see the next theorem. *)
Theorem c16_exact_when_diverse_partial :
  forall (c : crawl) (key : N) (K limit : nat),
    NoDup (map fst c) -> 1 <= K ->
    (limit = 0 \/ ((forall g, group_size c g <= limit) /\
                   (forall p a, In (p, a) c -> NoDup (addr_groups a)))) ->
    get_closest (table_of c) key K limit = Ok (closest_n key (map fst c) K).
Proof. exact exact_when_diverse. Qed.
Print Assumptions c16_exact_when_diverse_partial.

(* One crawled peer with two addresses in one IP group, limit 1, K 1: the
   group holds one peer, yet the answer is empty (dht.go:569 tests the size of
   the group's set even when the peer is already in it). *)
Theorem c16_exact_when_diverse_refuted :
  exists (c : crawl) (key : N) (K limit : nat),
    NoDup (map fst c) /\ 1 <= K /\ (forall g, group_size c g <= limit) /\
    get_closest (table_of c) key K limit = Ok [] /\ closest_n key (map fst c) K = [5%N].
Proof. exact exact_when_diverse_refuted. Qed.
Print Assumptions c16_exact_when_diverse_refuted.

(* 4. The limit the loop reads is the configured one: refuted.  Whatever the
   options, the constructed client has limit 0 (dht.go:232-262 has no such
   field in the literal). *)
Theorem c16_constructor_limit_always_zero :
  forall o f, new_fullrt o = Some f -> f_limit f = 0.
Proof. exact constructor_limit_always_zero. Qed.
Print Assumptions c16_constructor_limit_always_zero.
Theorem c16_configured_limit_used_refuted :
  exists o dflt f, new_fullrt o = Some f /\ configured_limit dflt o = 2 /\ f_limit f = 0.
Proof. exact configured_limit_used_refuted. Qed.
Print Assumptions c16_configured_limit_used_refuted.

(* 5. Table swap against readers, every interleaving.  If the swap were one
   step, every read would be the answer on the table of one completed crawl
   (or on the initial empty table). *)
Theorem c16_swap_atomic_single_crawl :
  forall evs s, frun fstep1 evs f_init = Some s ->
    Forall (fun r => let '(tbl, key, K, limit, ans) := r in
              (tbl = empty_table \/ exists c, In c (f_crawls s) /\ tbl = table_of c) /\
              ans = get_closest tbl key K limit) (f_reads s).
Proof. exact swap_atomic_reads_single_crawl. Qed.
Print Assumptions c16_swap_atomic_single_crawl.

(* As coded (three separately locked steps): between crawls the table is the
   last crawl's ... *)
Theorem c16_swap_quiescent :
  forall evs s, frun fstep3 evs f_init = Some s -> f_pending s = None ->
    f_tbl s = match f_crawls s with [] => empty_table | c :: _ => table_of c end.
Proof. exact swap_quiescent_table. Qed.
Print Assumptions c16_swap_quiescent.

(* ... but a reader between the steps gets an answer that is the answer of no
   completed crawl, here with two peers of one group under limit 1. *)
Theorem c16_swap_interleaving_refuted :
  exists s tbl ans,
    frun fstep3 sw_evs f_init = Some s /\
    In (tbl, 0%N, 5, 1, Ok ans) (f_reads s) /\
    (forall c, In c (f_crawls s) -> get_closest (table_of c) 0%N 5 1 <> Ok ans) /\
    get_closest empty_table 0%N 5 1 <> Ok ans /\
    length (filter (peer_in_group sw_old 7%N) ans) = 2.
Proof. exact swap_interleaving_refuted. Qed.
Print Assumptions c16_swap_interleaving_refuted.

(* 6. The crawler, every schedule [evs] of hand-overs and result arrivals,
   every network [net], every failure pattern ([net p = []]): when the loop
   ends, the queried peers are exactly those reachable from the dialable seeds
   through successful answers, there is one callback per query with the right
   outcome, and each peer was queried once if the dialable seeds are distinct. *)
Theorem c16_crawl_once :
  forall (net : cnet) (par : nat) (seeds : list (N * bool)) (evs : list cev) (s : cstate),
    crun net par evs (crawl_init seeds) = Some s -> cfinished s = true ->
    (forall p, In p (c_disp s) <-> reachable net (dialable seeds) p) /\
    Permutation (map fst (c_cb s)) (c_disp s) /\
    (forall p b, In (p, b) (c_cb s) -> b = match net p with [] => false | _ => true end) /\
    (NoDup (dialable seeds) -> NoDup (c_disp s)).
Proof. exact crawl_once. Qed.
Print Assumptions c16_crawl_once.

(* Termination: no schedule is longer than 2*(seeds + reachable peers); while
   the loop condition holds an event is enabled (given a worker); the
   evaluation schedule is a schedule and ends. *)
Theorem c16_crawl_bounded :
  forall net par seeds (U : list N) evs s,
    (forall p, reachable net (dialable seeds) p -> In p U) ->
    crun net par evs (crawl_init seeds) = Some s ->
    length evs <= 2 * (length (dialable seeds) + length U).
Proof. exact crawl_bounded. Qed.
Print Assumptions c16_crawl_bounded.
Theorem c16_crawl_progress :
  forall net par s, 1 <= par -> cfinished s = false -> exists e s', cstep net par s e = Some s'.
Proof. exact crawl_progress. Qed.
Print Assumptions c16_crawl_progress.
Theorem c16_crawl_exec_terminates :
  forall net par seeds (U : list N),
    1 <= par -> (forall p, reachable net (dialable seeds) p -> In p U) ->
    exists evs s,
      crawl_exec (2 * (length (dialable seeds) + length U) + 1) net par (crawl_init seeds) = Ok s /\
      cfinished s = true /\ crun net par evs (crawl_init seeds) = Some s.
Proof. exact crawl_exec_terminates. Qed.
Print Assumptions c16_crawl_exec_terminates.

(* A starting peer listed twice is queried twice and reported twice; and the
   accelerated client does list a bootstrap peer twice as soon as a crawl has
   found it (dht.go:360-366). *)
Theorem c16_crawl_duplicate_seeds_refuted :
  exists net par seeds evs s,
    crun net par evs (crawl_init seeds) = Some s /\ cfinished s = true /\
    c_disp s = [1%N; 1%N] /\ c_cb s = [(1%N, false); (1%N, false)].
Proof. exact crawl_duplicate_seeds_refuted. Qed.
Print Assumptions c16_crawl_duplicate_seeds_refuted.
Theorem c16_reseed_duplicates :
  forall (found : crawl) (bootstrap : list N) b,
    In b bootstrap -> In b (map fst found) -> ~ NoDup (crawl_seeds found bootstrap).
Proof. exact reseed_duplicates. Qed.
Print Assumptions c16_reseed_duplicates.

(* 7. Bulk operations: on a non-empty table with K + 2*limit > 0 neither the
   chunk arithmetic nor the lookups panic or block; the groups are non-empty,
   at most chunk-size long and concatenate to the keys. *)
Theorem c16_bulk_no_panic :
  forall (t : table) (K limit : nat) (keys : list N),
    t_kmap t <> [] -> 0 < K + 2 * limit -> exists r, bulk_send t K limit keys = Ok r.
Proof. exact bulk_no_panic. Qed.
Print Assumptions c16_bulk_no_panic.
Theorem c16_bulk_chunks :
  forall (keys : list N) (c : Z), (1 <= c)%Z ->
    exists g, divide_by_chunk_size keys c = Ok g /\ concat g = keys /\
              Forall (fun x => x <> [] /\ length x <= Z.to_nat c) g.
Proof. exact (@divide_by_chunk_size_ok N). Qed.
Print Assumptions c16_bulk_chunks.
(* On an empty table a bulk operation with at least one key panics. *)
Theorem c16_bulk_empty_table_refuted :
  forall K limit k keys,
    bulk_send (table_of []) K limit (k :: keys) = Panic "integer divide by zero".
Proof. exact bulk_empty_table_panics. Qed.
Print Assumptions c16_bulk_empty_table_refuted.
(* Single operations on an empty table return an error, whatever K and limit. *)
Theorem c16_single_empty_table_errors :
  forall key K limit, single_send (table_of []) key K limit = Ok RErr.
Proof. exact single_empty_table_errors. Qed.
Print Assumptions c16_single_empty_table_errors.

(* 8. Missing construction options.  Without a BucketSize option on a
   non-Amino prefix the constructor succeeds with K = 0 and limit = 0, and on
   any non-empty table the lookup never returns, however long it runs. *)
Theorem c16_missing_options_refuted :
  forall o, o_amino o = false -> o_bucket o = None ->
    exists f, new_fullrt o = Some f /\ f_K f = 0 /\ f_limit f = 0 /\
    forall (c : crawl) key fuel, c <> [] ->
      get_closest_fuel fuel (table_of c) key (f_K f) (f_limit f) =
      Blocked "GetClosestPeers: paging loop still running".
Proof. exact missing_options_spin. Qed.
Print Assumptions c16_missing_options_refuted.
(* K = 0 with a positive limit: the bound [len(peers) == K] is tested after
   the append and never holds; the whole table comes back. *)
Theorem c16_k0_returns_whole_table_refuted :
  exists (c : crawl) key limit l, NoDup (map fst c) /\
    get_closest (table_of c) key 0 limit = Ok l /\ length l = 2.
Proof. exact k0_returns_whole_table_refuted. Qed.
Print Assumptions c16_k0_returns_whole_table_refuted.

(* Non-vacuity: a crawl of five peers in three IP groups meeting the
   hypotheses of 1-3 whose answer skips a peer (limit 1), one meeting the
   diversity hypothesis of 3, and a crawl graph with a failure that ends. *)
Definition ex_crawl : crawl :=
  [(12%N, [Some 1%N]); (9%N, [Some 1%N; None]); (3%N, [Some 2%N; Some 3%N]); (6%N, []); (15%N, [Some 3%N])].
Definition ex_net : cnet :=
  fun p => match p with 1%N => [2%N; 3%N] | 2%N => [1%N; 4%N] | _ => [] end.
Example c16_nonvacuous :
  NoDup (map fst ex_crawl) /\
  get_closest (table_of ex_crawl) 8%N 3 1 = Ok [9%N; 15%N; 6%N] /\
  closest_n 8%N (map fst ex_crawl) 3 = [9%N; 12%N; 15%N] /\
  (forall g, group_size ex_crawl g <= 2) /\
  (forall p a, In (p, a) ex_crawl -> NoDup (addr_groups a)) /\
  get_closest (table_of ex_crawl) 8%N 3 2 = Ok [9%N; 12%N; 15%N] /\
  exists s, crawl_exec 20 ex_net 2 (crawl_init [(1%N, true); (7%N, false)]) = Ok s /\
            c_disp s = [1%N; 2%N; 3%N; 4%N] /\
            c_cb s = [(1%N, true); (2%N, true); (3%N, false); (4%N, false)].
Proof.
  split; [repeat constructor; cbn; intuition discriminate|].
  split; [vm_compute; reflexivity|]. split; [vm_compute; reflexivity|].
  split.
  { intro g. unfold group_size. cbn [map fst ex_crawl filter].
    destruct (N.eq_dec g 1) as [->|H1]; [vm_compute; lia|].
    destruct (N.eq_dec g 2) as [->|H2]; [vm_compute; lia|].
    destruct (N.eq_dec g 3) as [->|H3]; [vm_compute; lia|].
    unfold peer_in_group, nmem. cbn.
    apply N.eqb_neq in H1, H2, H3. rewrite ?H1, ?H2, ?H3. cbn. lia. }
  split.
  { intros p a [H|[H|[H|[H|[H|[]]]]]]; inversion H; subst; cbn; repeat constructor; cbn; intuition discriminate. }
  split; [vm_compute; reflexivity|].
  eexists. split; [vm_compute; reflexivity|]. split; reflexivity.
Qed.
