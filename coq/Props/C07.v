(* C07 -- Provider records are served exactly while valid and survive restarts.
   Property theorems only; every proof is `exact <lemma>`.  Model: Model/Providers.v
   (records/providers_manager.go, records/provider_set.go, handlers.go:handleAddProvider),
   lemmas: Proofs/ProvidersProofs.v.

   Every theorem quantifies over the configuration [c] (cache size [cap c], ANY
   natural number, and the validity period), the start time [t0], the
   undecodable rows [g] found in the datastore at start, and the whole history
   [ops] of Add / Get / Advance / Gc / Restart / Close operations (any length,
   any number of keys and providers, garbage collections and restarts at any
   position).  [spec_run (spec0 t0) ops] is the specification state after the
   history: [sp_last k p] = time of the most recent acknowledged addition of p
   for k, [sp_now] = the clock; [spec_serves c sp k p] = "p was added for k and
   now - (time of the most recent addition) <= validity" (the code's comparison
   is `now.Sub(t) > validity` => dropped).

   The model is sequential (every operation atomic), so the documented race of
   the background sweep with a concurrent re-addition of an already expired
   record cannot occur in it and no hypothesis about it is needed. *)
From Verif.Lib Require Import GoSem Bits.
From Verif.Model Require Import Providers.
From Verif.Proofs Require Import ProvidersProofs.

(* 1. After every history, GetProviders on an open store returns, as a set,
   exactly the providers the specification serves (served while valid, never
   afterwards; also after cache eviction, restarts and sweeps, which are just
   operations of the history); on a closed store it returns ErrClosed. *)
Theorem c07_get_refines :
  forall (c : cfg) (t0 : time) (g : list (key * peer)) (ops : list op) (k : key),
    let s := run c (init t0 g) ops in
    let sp := spec_run (spec0 t0) ops in
    match snd (get_providers c s k) with
    | RProvs ps => sp_stopped sp = false /\ NoDup ps /\
                   (forall p, In p ps <-> spec_serves c sp k p = true)
    | RClosed => sp_stopped sp = true
    | _ => False
    end.
Proof. exact get_refines. Qed.
Print Assumptions c07_get_refines.

(* 2. No duplicates, and no peer that was never added for that key: the
   specification's [sp_last] is set only by an [Add k p] of the history. *)
Theorem c07_no_dup_no_foreign :
  forall c t0 g ops k ps,
    snd (get_providers c (run c (init t0 g) ops) k) = RProvs ps ->
    NoDup ps /\ forall p, In p ps -> exists t, sp_last (spec_run (spec0 t0) ops) k p = Some t.
Proof. exact no_dup_no_foreign. Qed.
Print Assumptions c07_no_dup_no_foreign.

Theorem c07_last_is_add :
  forall ops sp k p t,
    sp_last (spec_run sp ops) k p = Some t -> sp_last sp k p = Some t \/ In (Add k p) ops.
Proof. exact last_is_add. Qed.
Print Assumptions c07_last_is_add.

(* 3. Restart at every point of every history: a new manager on the same
   datastore (empty cache) serves exactly what the specification served before
   the restart -- every acknowledged addition is durable. *)
Theorem c07_restart :
  forall c t0 g ops k,
    exists ps, snd (get_providers c (run c (init t0 g) (ops ++ [Restart])) k) = RProvs ps /\
               NoDup ps /\
               forall p, In p ps <-> spec_serves c (spec_run (spec0 t0) ops) k p = true.
Proof. exact restart_durable. Qed.
Print Assumptions c07_restart.

(* 4. The sweep deletes exactly the rows that are undecodable or whose age
   exceeds the validity period; cache, clock and flag are untouched. *)
Theorem c07_gc_only_expired :
  forall c s,
    stopped s = false ->
    (forall r, In r (disk (gc c s)) <->
               In r (disk s) /\ exists t, r_val r = Some t /\ (now s - t <= validity c)%N) /\
    lru (gc c s) = lru s /\ now (gc c s) = now s /\ stopped (gc c s) = false.
Proof. exact gc_only_expired. Qed.
Print Assumptions c07_gc_only_expired.

(* 5. Once Close has returned: the store reports closed (every AddProvider and
   GetProviders returns ErrClosed), and neither the datastore content nor the
   number of datastore calls changes, whatever is called afterwards (until a
   new manager is created). *)
Theorem c07_closed :
  forall c ops s,
    stopped s = true -> forallb (fun o => negb (is_restart o)) ops = true ->
    stopped (run c s ops) = true /\ disk (run c s ops) = disk s /\ jn (run c s ops) = jn s /\
    run_obs c s ops = map closed_result ops.
Proof. exact closed_history. Qed.
Print Assumptions c07_closed.

Theorem c07_close_stops :
  forall c s, stopped (fst (step c s Close)) = true /\ disk (fst (step c s Close)) = disk s /\
              jn (fst (step c s Close)) = jn s.
Proof. exact close_stops. Qed.
Print Assumptions c07_close_stops.

(* 6. handleAddProvider stores a record only for provider id = sender, with at
   least one address in the message, key length 1..80; the stored addresses
   are the message's addresses that pass the address filter; the handler
   reports success iff something was stored. *)
Theorem c07_add_provider_gate :
  forall filt store_ok sender keylen pis res stored,
    handle_add_provider filt store_ok sender keylen pis = (res, stored) ->
    (forall p addrs, In (p, addrs) stored ->
       p = sender /\ 1 <= keylen <= 80 /\ store_ok = true /\
       exists pi, In pi pis /\ pi_id pi = sender /\ pi_addrs pi <> [] /\
                  addrs = filter filt (pi_addrs pi) /\
                  (forall a, In a addrs -> filt a = true /\ In a (pi_addrs pi))) /\
    (res = GStored <-> stored <> []).
Proof. exact add_provider_gate. Qed.
Print Assumptions c07_add_provider_gate.

(* Non-vacuity: cache of size 1, validity 10, one undecodable row; two keys so
   that the cache evicts; provider 7 of key 1 is re-added at time 8, provider 9
   is not; a sweep and a restart at time 11.  Key 1 then serves exactly [7]
   although 9 was added (expired, strictly older than the validity), the
   undecodable row is gone, and at time 18 (age of 7 = 10 = validity) 7 is still
   served while at time 19 it is not. *)
Local Open Scope N_scope.
Definition ex_cfg : cfg := {| cap := 1%nat; validity := 10 |}.
Definition ex_ops : list op :=
  [Add 1 7; Add 1 9; Get 1; Add 2 7; Get 2; Advance 8; Add 1 7; Advance 3; Gc; Restart].
Definition ex_s (more : list op) : pm := run ex_cfg (init 0 [(3, 4)]) (ex_ops ++ more).
Example c07_nonvacuous :
  (snd (get_providers ex_cfg (ex_s []) 1) = RProvs [7]) /\
  (sp_last (spec_run (spec0 0) ex_ops) 1 9 = Some 0) /\
  (map r_peer (disk (ex_s [])) = [7]) /\
  (snd (get_providers ex_cfg (ex_s [Advance 7]) 1) = RProvs [7]) /\
  (snd (get_providers ex_cfg (ex_s [Advance 8]) 1) = RProvs []) /\
  (snd (get_providers ex_cfg (ex_s [Close]) 1) = RClosed) /\
  (handle_add_provider (fun a => N.ltb a 5) true 7 34%nat
     [{| pi_id := 7; pi_addrs := [1; 9] |}; {| pi_id := 8; pi_addrs := [1] |}; {| pi_id := 7; pi_addrs := [] |}]
   = (GStored, [(7, [1])])).
Proof. vm_compute. repeat split; reflexivity. Qed.
