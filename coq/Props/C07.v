(* C07 -- Provider records are served exactly while valid and survive restarts.
   Property theorems only; every proof is `exact <lemma>`.  Model: Model/Providers.v
   (records/providers_manager.go, records/provider_set.go, handlers.go:handleAddProvider),
   lemmas: Proofs/ProvidersProofs.v.

   Every theorem quantifies over the configuration [c] (cache size [cap c], ANY
   natural number, and the validity period), the start time [t0], the
   undecodable rows [g] found in the datastore at start, and the whole history
   [ops] of Add / Get / Advance / Gc / Restart / Close operations (any length,
   any number of keys and providers, garbage collections and restarts at any
   position).  [spec_run (spec0 t0) ops] is the specification state after the
   history: [sp_last k p] = time of the most recent acknowledged addition of p
   for k, [sp_now] = the clock; [spec_serves c sp k p] = "p was added for k and
   now - (time of the most recent addition) <= validity" (the code's comparison
   is `now.Sub(t) > validity` => dropped).

   The model of sections 1-6 is sequential (every operation atomic), so the
   documented race of the background sweep with a concurrent re-addition of an
   already expired record cannot occur in it and no hypothesis about it is
   needed.  Section 7 proves the Close clause on an interleaving model
   (Model/ProvidersClose.v, lemmas: Proofs/ProvidersCloseProofs.v) for calls that
   are in flight when Close runs. *)
From Verif.Lib Require Import GoSem Bits.
From Verif.Model Require Import Providers.
From Verif.Proofs Require Import ProvidersProofs.

(* 1. After every history, GetProviders on an open store returns, as a set,
   exactly the providers the specification serves (served while valid, never
   afterwards; also after cache eviction, restarts and sweeps, which are just
   operations of the history); on a closed store it returns ErrClosed. *)
Theorem c07_get_refines :
  forall (c : cfg) (t0 : time) (g : list (key * peer)) (ops : list op) (k : key),
    let s := run c (init t0 g) ops in
    let sp := spec_run (spec0 t0) ops in
    match snd (get_providers c s k) with
    | RProvs ps => sp_stopped sp = false /\ NoDup ps /\
                   (forall p, In p ps <-> spec_serves c sp k p = true)
    | RClosed => sp_stopped sp = true
    | _ => False
    end.
Proof. exact get_refines. Qed.
Print Assumptions c07_get_refines.

(* 2. No duplicates, and no peer that was never added for that key: the
   specification's [sp_last] is set only by an [Add k p] of the history. *)
Theorem c07_no_dup_no_foreign :
  forall c t0 g ops k ps,
    snd (get_providers c (run c (init t0 g) ops) k) = RProvs ps ->
    NoDup ps /\ forall p, In p ps -> exists t, sp_last (spec_run (spec0 t0) ops) k p = Some t.
Proof. exact no_dup_no_foreign. Qed.
Print Assumptions c07_no_dup_no_foreign.

Theorem c07_last_is_add :
  forall ops sp k p t,
    sp_last (spec_run sp ops) k p = Some t -> sp_last sp k p = Some t \/ In (Add k p) ops.
Proof. exact last_is_add. Qed.
Print Assumptions c07_last_is_add.

(* 3. Restart at every point of every history: a new manager on the same
   datastore (empty cache) serves exactly what the specification served before
   the restart -- every acknowledged addition is durable. *)
Theorem c07_restart :
  forall c t0 g ops k,
    exists ps, snd (get_providers c (run c (init t0 g) (ops ++ [Restart])) k) = RProvs ps /\
               NoDup ps /\
               forall p, In p ps <-> spec_serves c (spec_run (spec0 t0) ops) k p = true.
Proof. exact restart_durable. Qed.
Print Assumptions c07_restart.

(* 4. The sweep deletes exactly the rows that are undecodable or whose age
   exceeds the validity period; cache, clock and flag are untouched. *)
Theorem c07_gc_only_expired :
  forall c s,
    stopped s = false ->
    (forall r, In r (disk (gc c s)) <->
               In r (disk s) /\ exists t, r_val r = Some t /\ (now s - t <= validity c)%N) /\
    lru (gc c s) = lru s /\ now (gc c s) = now s /\ stopped (gc c s) = false.
Proof. exact gc_only_expired. Qed.
Print Assumptions c07_gc_only_expired.

(* 5. Once Close has returned: the store reports closed (every AddProvider and
   GetProviders returns ErrClosed), and neither the datastore content nor the
   number of datastore calls changes, whatever is called afterwards (until a
   new manager is created). *)
Theorem c07_closed :
  forall c ops s,
    stopped s = true -> forallb (fun o => negb (is_restart o)) ops = true ->
    stopped (run c s ops) = true /\ disk (run c s ops) = disk s /\ jn (run c s ops) = jn s /\
    run_obs c s ops = map closed_result ops.
Proof. exact closed_history. Qed.
Print Assumptions c07_closed.

Theorem c07_close_stops :
  forall c s, stopped (fst (step c s Close)) = true /\ disk (fst (step c s Close)) = disk s /\
              jn (fst (step c s Close)) = jn s.
Proof. exact close_stops. Qed.
Print Assumptions c07_close_stops.

(* 6. handleAddProvider stores a record only for provider id = sender, with at
   least one address in the message, key length 1..80; the stored addresses
   are the message's addresses that pass the address filter; the handler
   reports success iff something was stored. *)
Theorem c07_add_provider_gate :
  forall filt store_ok sender keylen pis res stored,
    handle_add_provider filt store_ok sender keylen pis = (res, stored) ->
    (forall p addrs, In (p, addrs) stored ->
       p = sender /\ 1 <= keylen <= 80 /\ store_ok = true /\
       exists pi, In pi pis /\ pi_id pi = sender /\ pi_addrs pi <> [] /\
                  addrs = filter filt (pi_addrs pi) /\
                  (forall a, In a addrs -> filt a = true /\ In a (pi_addrs pi))) /\
    (res = GStored <-> stored <> []).
Proof. exact add_provider_gate. Qed.
Print Assumptions c07_add_provider_gate.

(* Non-vacuity: cache of size 1, validity 10, one undecodable row; two keys so
   that the cache evicts; provider 7 of key 1 is re-added at time 8, provider 9
   is not; a sweep and a restart at time 11.  Key 1 then serves exactly [7]
   although 9 was added (expired, strictly older than the validity), the
   undecodable row is gone, and at time 18 (age of 7 = 10 = validity) 7 is still
   served while at time 19 it is not. *)
Local Open Scope N_scope.
Definition ex_cfg : cfg := {| cap := 1%nat; validity := 10 |}.
Definition ex_ops : list op :=
  [Add 1 7; Add 1 9; Get 1; Add 2 7; Get 2; Advance 8; Add 1 7; Advance 3; Gc; Restart].
Definition ex_s (more : list op) : pm := run ex_cfg (init 0 [(3, 4)]) (ex_ops ++ more).
Example c07_nonvacuous :
  (snd (get_providers ex_cfg (ex_s []) 1) = RProvs [7]) /\
  (sp_last (spec_run (spec0 0) ex_ops) 1 9 = Some 0) /\
  (map r_peer (disk (ex_s [])) = [7]) /\
  (snd (get_providers ex_cfg (ex_s [Advance 7]) 1) = RProvs [7]) /\
  (snd (get_providers ex_cfg (ex_s [Advance 8]) 1) = RProvs []) /\
  (snd (get_providers ex_cfg (ex_s [Close]) 1) = RClosed) /\
  (handle_add_provider (fun a => N.ltb a 5) true 7 34%nat
     [{| pi_id := 7; pi_addrs := [1; 9] |}; {| pi_id := 8; pi_addrs := [1] |}; {| pi_id := 7; pi_addrs := [] |}]
   = (GStored, [(7, [1])])).
Proof. vm_compute. repeat split; reflexivity. Qed.

(* ======================================================================== *)
(* 7. The Close fence under concurrency.  The theorems above are about
   sequential histories, so their Close clause only speaks of calls made after
   Close returned.  Model/ProvidersClose.v is the interleaving model of the lock
   discipline of AddProvider / GetProviders / gcLoop / Close: client calls
   (pm.mu.Lock -> read pm.stopped under mu -> datastore calls under mu ->
   Unlock), the sweep goroutine (select tick/ctx.Done; collectExpired touches
   the datastore WITHOUT mu, testing ctx.Err() between rows), the ticker, and
   one Close call (cancel; <-pm.closed; mu.Lock; stopped = true; Unlock;
   return).  Every theorem quantifies over the number of client calls and the
   datastore calls each makes when the store is open ([progs], any lists), the deletes
   of every sweep ([todo]), the number of ticks ([nticks]) and the SCHEDULE
   ([sched]: any list of thread ids, a thread that is not enabled is skipped).
   [clock] counts the steps taken; a logged datastore call carries the index of
   its step; [close_ret] is the index of the step at which Close returned. *)
From Verif.Model Require Import ProvidersClose.
From Verif.Proofs Require Import ProvidersCloseProofs.
Local Close Scope N_scope.
Local Open Scope nat_scope.

(* 7.1 (i) No datastore call - by a client call or by the sweep - happens at a
   step after the step at which Close returned. *)
Theorem c07_no_datastore_call_after_close_returned :
  forall (progs todo : list (list dsop)) (nticks : nat) (sched : list tid),
    let st := ProvidersClose.run (ProvidersClose.init progs todo nticks) sched in
    forall r, close_ret st = Some r ->
    forall n t o, In (n, t, o) (log st) -> n < r.
Proof. exact no_ds_after_close. Qed.
Print Assumptions c07_no_datastore_call_after_close_returned.

(* ... and when Close has returned nobody is inside a datastore section any
   more: the sweep goroutine has exited, the flag is set, no client call is at
   (or between) its datastore calls. *)
Theorem c07_close_returns_only_when_quiet :
  forall progs todo nticks sched,
    let st := ProvidersClose.run (ProvidersClose.init progs todo nticks) sched in
    close_ret st <> None ->
    ProvidersClose.gc st = GExited /\ ProvidersClose.stopped st = true /\
    forall i c ops, nth_error (clients st) i = Some c -> c_pc c <> CDs ops.
Proof. exact close_returned_quiet. Qed.
Print Assumptions c07_close_returns_only_when_quiet.

(* 7.2 (ii) Every client call made (step index s) after Close returned (step
   index r) never enters its datastore section and, when it has returned, has
   returned ErrClosed. *)
Theorem c07_calls_after_close_report_closed :
  forall progs todo nticks sched,
    let st := ProvidersClose.run (ProvidersClose.init progs todo nticks) sched in
    forall r i c s, close_ret st = Some r -> nth_error (clients st) i = Some c ->
      c_start c = Some s -> r < s ->
      closed_or_pending (c_pc c) /\ (forall res, c_pc c = CDone res -> res = CRClosed).
Proof. exact late_calls_closed. Qed.
Print Assumptions c07_calls_after_close_report_closed.

(* 7.3 (iii) Close can always complete.  In every reachable state in which
   Close has been called and has not returned, the thread Close is waiting for
   ([close_blocker]: Close itself, the sweep goroutine while Close waits for
   pm.closed, the holder of mu while Close waits for mu) is enabled: no
   deadlock between Close, the sweep and the clients. *)
Theorem c07_close_never_blocked_forever :
  forall progs todo nticks sched,
    let st := ProvidersClose.run (ProvidersClose.init progs todo nticks) sched in
    cl st <> XInit -> close_ret st = None -> enabled st (close_blocker st) = true.
Proof. exact close_blocker_enabled. Qed.
Print Assumptions c07_close_never_blocked_forever.

(* A run that cannot be extended (no thread enabled) has Close returned ... *)
Theorem c07_maximal_runs_have_close_returned :
  forall progs todo nticks sched,
    let st := ProvidersClose.run (ProvidersClose.init progs todo nticks) sched in
    (forall t, enabled st t = false) -> close_ret st <> None.
Proof. exact maximal_runs_closed. Qed.
Print Assumptions c07_maximal_runs_have_close_returned.

(* ... and every schedule takes at most [fuel (init ...)] steps (a number
   computed from the sizes of the calls, the sweeps and the tick count): with
   the previous theorem, every schedule that keeps scheduling enabled threads
   reaches the return of Close within that many steps. *)
Theorem c07_steps_bounded :
  forall progs todo nticks sched,
    clock (ProvidersClose.run (ProvidersClose.init progs todo nticks) sched)
    <= fuel (ProvidersClose.init progs todo nticks).
Proof. exact steps_bounded. Qed.
Print Assumptions c07_steps_bounded.

(* From any reachable state in which Close has been called: scheduling the
   thread Close waits for, again and again, makes Close return within
   [fuel st] steps (the fair schedule Close needs, made explicit). *)
Theorem c07_close_returns_when_its_blockers_run :
  forall progs todo nticks sched,
    let st := ProvidersClose.run (ProvidersClose.init progs todo nticks) sched in
    cl st <> XInit ->
    exists k, k <= fuel st /\ close_ret (drive k st) <> None.
Proof. exact close_returns_when_blockers_run. Qed.
Print Assumptions c07_close_returns_when_its_blockers_run.

(* Non-vacuity of 7: client 0 (AddProvider: one Put) is inside its datastore
   section when Close is called; the sweep goroutine exits; Close is then NOT
   enabled (it waits for mu) until client 0 has made its Put and unlocked; it
   returns at step 18, after the Put (step 7); client 1 (GetProviders: Query +
   Delete), called at step 19, returns ErrClosed without touching the datastore;
   client 2 was queued on mu behind client 0 when Close was called, wins mu
   before Close and still completes its Query (step 12) before Close returns;
   afterwards no thread is enabled. *)
Definition ex_progs : list (list dsop) := [[DPut]; [DQuery; DDelete]; [DQuery]].
Definition ex_pre : list tid :=
  [TClient 0; TClient 0; TClient 0;          (* call, Lock, check: client 0 at its Put *)
   TClient 2; TClient 2;                     (* client 2 called; blocked in Lock (second entry is skipped) *)
   TClose; TGcDone; TClose].                 (* cancel; the sweep goroutine exits; Close at mu.Lock *)
Definition ex_post : list tid :=
  [TClose;                                   (* skipped: not enabled *)
   TClient 0; TClient 0; TClient 0;          (* Put, leave the section, Unlock *)
   TClient 2; TClient 2; TClient 2; TClient 2; TClient 2;   (* client 2 wins mu: Lock, check, Query, leave, Unlock *)
   TClose; TClose; TClose; TClose;           (* Lock, stopped = true, Unlock, return *)
   TClient 1; TClient 1; TClient 1; TClient 1].   (* call, Lock, check (stopped), Unlock *)
Example c07_close_fence_nonvacuous :
  let mid := ProvidersClose.run (ProvidersClose.init ex_progs [] 0) ex_pre in
  let fin := ProvidersClose.run mid ex_post in
  (option_map c_pc (nth_error (clients mid) 0) = Some (CDs [DPut])) /\
  (cl mid = XLock /\ enabled mid TClose = false /\ close_blocker mid = TClient 0) /\
  (log fin = [(12, TClient 2, DQuery); (7, TClient 0, DPut)]) /\
  (close_ret fin = Some 18) /\
  (map c_pc (clients fin) = [CDone CROk; CDone CRClosed; CDone CROk]) /\
  (option_map c_start (nth_error (clients fin) 1) = Some (Some 19)) /\
  (forall t, enabled fin t = false).
Proof.
  vm_compute. repeat split; try reflexivity. intros t; destruct t as [[|[|[|[|i]]]]| | | | |]; reflexivity.
Qed.
