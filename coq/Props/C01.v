From Verif.Lib Require Import GoSem.
From Verif.Model Require Import Lookup.
