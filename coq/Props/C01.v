(* C01 — Lookups return exactly the K nearest non-failed peers they learned.
   Theorems only; proofs are `exact`/direct instances of lemmas of
   Proofs/LookupProofs.v over the model Model/Lookup.v.

   Quantification: every configuration [c] (K, alpha, beta, self, key, target,
   IP-group limit, stop function), every scripted network [env] (any mix of dial
   failures, request failures and arbitrary — lying — answers), every seed
   list, and every event list [evs] (every arrival order of responses and
   failures, every cancellation instant).  No hypothesis is needed. *)
From Verif.Lib Require Import GoSem.
From Verif.Model Require Import Lookup.
From Verif.Proofs Require Import LookupBasics LookupProofs RunLookupSound.
From Verif.Corr Require Import Run_Lookup.
From Coq Require Import Sorted.
Local Open Scope N_scope.

(* The lookup state machine never reaches one of its panics: the three
   `panic` sites of updateState, the out-of-range index of SetState/GetState
   on an unknown peer, and a negative slice bound in GetClosestNInStates. *)
Theorem c01_no_protocol_panic :
  forall c env seeds evs,
    match run_search c env seeds evs with RPanic _ => False | _ => True end.
Proof.
  intros c env seeds evs. pose proof (run_search_inv c env seeds evs) as H.
  destruct (run_search c env seeds evs); tauto.
Qed.
Print Assumptions c01_no_protocol_panic.

(* The returned peers: at most K, distinct, never the local node, strictly
   ascending in XOR distance; each one a seed or named in an answer that was
   processed; none failed; and no learned, non-failed, filter-passing peer
   outside the result is as near as any member (so the result is exactly the
   K nearest of the learned non-failed set). *)
Theorem c01_result :
  forall c env seeds evs s,
    run_search c env seeds evs = RDone s ->
    let r := construct_result c s in
    (length (r_peers r) <= cK c)%nat /\
    NoDup (r_peers r) /\
    ~ In (cSelf c) (r_peers r) /\
    StronglySorted (lt_dist (cKey c)) (r_peers r) /\
    (forall p, In p (r_peers r) ->
       In p seeds \/ exists cause closer, env cause = OAnswer closer /\ In p (process_response c closer) /\
                                          In cause (resp_queried (evlog s))) /\
    (forall p, In p (r_peers r) -> ~ In p (resp_failed (evlog s))) /\
    (forall p, In p (resp_heard (evlog s)) -> p <> cSelf c -> ~ In p (resp_failed (evlog s)) -> ~ In p (r_peers r) ->
       length (r_peers r) = cK c /\ forall m, In m (r_peers r) -> lt_dist (cKey c) m p).
Proof.
  intros c env seeds evs s H. pose proof (run_search_inv c env seeds evs) as I. rewrite H in I.
  exact (result_spec c env seeds s (proj1 I)).
Qed.
Print Assumptions c01_result.

(* The published events agree with what was asked and answered: every response
   event is the seed event, or reports exactly the sanitized content of the
   answer the remote peer gave (queried = [cause]), or a failure of a peer that
   did not answer (unreachable = [cause]); the request events are exactly the
   requests spawned, each peer requested at most once, every response event
   answers an earlier request and there is at most one per request; a terminate
   event is published exactly once, last. *)
Theorem c01_events_agree :
  forall c env seeds evs s,
    match run_search c env seeds evs with RDone s' | RPending s' | RBadEvent s' _ => s' = s | RPanic _ => False end ->
    Forall (ev_ok c env seeds) (evlog s) /\
    reqs s = req_peers (evlog s) /\
    NoDup (req_peers (evlog s)) /\
    NoDup (resp_queried (evlog s) ++ resp_failed (evlog s)) /\
    (forall p, In p (resp_queried (evlog s) ++ resp_failed (evlog s)) -> In p (req_peers (evlog s))) /\
    match term s with
    | None => no_term (evlog s)
    | Some r => exists l, evlog s = l ++ [EvTerm r] /\ no_term l
    end.
Proof.
  intros c env seeds evs s H. pose proof (run_search_inv c env seeds evs) as I.
  destruct (run_search c env seeds evs); try contradiction; subst; exact (events_spec c env seeds s (proj1 I)).
Qed.
Print Assumptions c01_events_agree.

(* The lookup's bookkeeping between iterations: at most alpha requests in
   flight, a peer is in flight iff it was requested and has not been answered. *)
Theorem c01_in_flight :
  forall c env seeds evs s,
    match run_search c env seeds evs with RDone s' | RPending s' | RBadEvent s' _ => s' = s | RPanic _ => False end ->
    (num_in_state Waiting (ps s) <= cAlpha c)%nat /\
    forall p, state_of (ps s) p = Some Waiting <->
              In p (req_peers (evlog s)) /\ ~ In p (resp_queried (evlog s)) /\ ~ In p (resp_failed (evlog s)).
Proof.
  intros c env seeds evs s H. pose proof (run_search_inv c env seeds evs) as I.
  destruct (run_search c env seeds evs); try contradiction; subst;
    (split; [exact (iv_wait _ _ _ _ (proj1 I))|exact (iv_waiting _ _ _ _ (proj1 I))]).
Qed.
Print Assumptions c01_in_flight.

(* The monitor used by the correspondence check is sound: when the boolean
   property [c01_result_ok] accepts the trace recorded from the implementation
   (returned peers, published events), the clauses about the returned list hold
   of that trace as propositions. *)
Theorem c01_monitor_sound :
  forall c, c01_result_ok c = true ->
    let cfg := c_cfg c in
    let learned := dedupN (filter (fun p => negb (N.eqb p (cSelf cfg))) (c_seeds c ++ resp_heard (i_events c))) in
    let failed := resp_failed (i_events c) in
    (length (i_peers c) <= cK cfg)%nat /\
    NoDup (i_peers c) /\
    ~ In (cSelf cfg) (i_peers c) /\
    StronglySorted (lt_dist (cKey cfg)) (i_peers c) /\
    (forall p, In p (i_peers c) -> In p learned) /\
    (forall p, In p (i_peers c) -> ~ In p failed) /\
    i_peers c = firstn (cK cfg) (sort_dist (cKey cfg) (filter (fun p => negb (memN p failed)) learned)).
Proof. exact c01_result_ok_sound. Qed.
Print Assumptions c01_monitor_sound.

(* Non-vacuity: a concrete lookup with a lying peer, a failing peer and K = 2. *)
Definition ex_cfg : config :=
  {| cK := 2; cAlpha := 2; cBeta := 1; cSelf := 100; cKey := 0; cTarget := None; cLimit := 0; cStop := StopNever |}.
Definition ex_env (p : id) : outcome :=
  match p with
  | 9 => OAnswer [{| rid := 5; rpass := true; rgroups := [] |}; {| rid := 100; rpass := true; rgroups := [] |};
                  {| rid := 3; rpass := true; rgroups := [] |}; {| rid := 1; rpass := true; rgroups := [] |};
                  {| rid := 2; rpass := true; rgroups := [] |}]          (* more than 2K entries, names the requester *)
  | 5 => OAnswer [{| rid := 3; rpass := false; rgroups := [] |}]
  | 3 => ODialFail
  | 1 => OAnswer []
  | _ => OReqFail
  end.
Example c01_nonvacuous :
  exists s, run_search ex_cfg ex_env [9; 7] [Arrive 7; Arrive 9; Arrive 3; Arrive 1] = RDone s /\
            r_peers (construct_result ex_cfg s) = [1; 5] /\ term s = Some Completed.
Proof. eexists. split; [vm_compute; reflexivity|]. split; reflexivity. Qed.
