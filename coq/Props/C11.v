(* C11 — Every RPC reply is matched to its own request.
   Property theorems only; every proof is `exact <lemma>`.  Model: Model/MsgSender.v
   (a transcription of internal/net/message_manager.go and internal/ctx_mutex.go as
   a deterministic step function over events); lemmas: Proofs/MsgSender*.v.

   Every theorem quantifies over ALL event lists [evs] with
   [run evs init = Some s]: every interleaving of concurrent SendRequest /
   SendMessage / OnDisconnect calls and every placement of dial and write
   failures, late, undecodable or missing replies, remote resets, read timeouts
   and context cancellations.

   PARTIAL: the theorems are about the state machine.  The real stream
   transport (yamux, msgio framing, protobuf) is replaced by the per-stream
   FIFOs of the model and, in the correspondence run, by an in-memory pipe; the
   remote is assumed to answer requests in order, one reply per request, and
   never to send unsolicited messages (a remote that answers a SendMessage
   breaks reply matching on the reused stream: reported in the evidence). *)
From Verif.Lib Require Import GoSem Bits.
From Verif.Model Require Import MsgSender.
From Verif.Proofs Require Import MsgSenderInv MsgSenderProofs.

(* 0. The invariant behind everything else holds after every event list. *)
Theorem c11_invariant : forall evs s, run evs init = Some s -> Inv s.
Proof. exact reachable_inv. Qed.
Print Assumptions c11_invariant.

(* 1. KEY: whenever a sender's lock is free, its stream, if any, is open and has
   no request written and unanswered and no reply sent and unread. *)
Theorem c11_idle_stream_clean :
  forall evs s sd x st y,
    run evs init = Some s ->
    nth_error (senders s) sd = Some x -> sd_lock x = None -> sd_stream x = Some st ->
    nth_error (streams s) st = Some y ->
    sm_cli y = COpen /\ sm_pending y = [] /\ sm_inbox y = [].
Proof. exact idle_stream_clean. Qed.
Print Assumptions c11_idle_stream_clean.

(* 1b. While a call holds the lock, whatever is outstanding on the sender's
   stream (request unanswered or reply unread) is that call's own. *)
Theorem c11_busy_stream_own :
  forall evs s sd x t st y u,
    run evs init = Some s ->
    nth_error (senders s) sd = Some x -> sd_lock x = Some t -> sd_stream x = Some st ->
    nth_error (streams s) st = Some y ->
    In u (sm_pending y ++ map reply_id (sm_inbox y)) -> u = t.
Proof. exact busy_stream_own. Qed.
Print Assumptions c11_busy_stream_own.

(* 2. A reply returned to request t is the reply the remote produced for t (the
   remote echoes the id of the request it answers; request ids are call ids). *)
Theorem c11_reply_matches :
  forall evs s t th id,
    run evs init = Some s -> mget (threads s) t = Some th -> t_pc th = PDone (ROk (Some id)) -> id = t.
Proof. exact reply_matches. Qed.
Print Assumptions c11_reply_matches.

(* 2b. ... and a call obtains a reply only through the read of its own exchange. *)
Theorem c11_reply_only_by_read :
  forall s e s' t id,
    step s e = Some s' ->
    tpc s t <> Some (PDone (ROk (Some id))) -> tpc s' t = Some (PDone (ROk (Some id))) -> e = ERead t.
Proof. exact ok_only_by_read. Qed.
Print Assumptions c11_reply_only_by_read.

(* 2c. No call reaches the nil-stream dereference or the unlock of an unlocked mutex. *)
Theorem c11_no_panic :
  forall evs s t th, run evs init = Some s -> mget (threads s) t = Some th -> t_pc th <> PDone RPanic.
Proof. exact no_panic. Qed.
Print Assumptions c11_no_panic.

(* 3. A request whose reply did not arrive before the read timeout: its stream
   is reset and dropped by the sender; the call fails with ErrReadTimeout, or --
   the first time only -- goes round the loop once more, on a new stream. *)
Theorem c11_timeout_fails :
  forall evs s t th sd r s',
    run evs init = Some s -> mget (threads s) t = Some th -> t_pc th = PRead sd r ->
    step s (ETimeout t) = Some s' ->
    exists x st, nth_error (senders s) sd = Some x /\ sd_stream x = Some st /\
      option_map sm_cli (nth_error (streams s') st) = Some CReset /\
      option_map sd_stream (nth_error (senders s') sd) = Some None /\
      option_map t_pc (mget (threads s') t) = Some (if r then PDone (RErr ETimedOut) else PLoop sd true).
Proof. exact timeout_fails. Qed.
Print Assumptions c11_timeout_fails.

(* 3b. The same for a context that ends during the read; context.Canceled never retries. *)
Theorem c11_cancel_fails :
  forall evs s t th sd r k s',
    run evs init = Some s -> mget (threads s) t = Some th -> t_pc th = PRead sd r -> t_ctx th = Some k ->
    step s (EReadCtx t) = Some s' ->
    exists x st, nth_error (senders s) sd = Some x /\ sd_stream x = Some st /\
      option_map sm_cli (nth_error (streams s') st) = Some CReset /\
      option_map sd_stream (nth_error (senders s') sd) = Some None /\
      option_map t_pc (mget (threads s') t)
        = Some (match k with
                | CCancel => PDone (RErr (ECtxErr CCancel))
                | CDeadline => if r then PDone (RErr (ECtxErr CDeadline)) else PLoop sd true
                end).
Proof. exact cancel_fails. Qed.
Print Assumptions c11_cancel_fails.

(* 3c. A stream the client reset (or closed) is never reused: whatever happens
   afterwards it stays reset, nothing is written to it again (its list of
   unanswered requests only shrinks), so a late reply on it reaches nobody ... *)
Theorem c11_reset_never_reused :
  forall evs0 evs s s' st y,
    run evs0 init = Some s -> run evs s = Some s' ->
    nth_error (streams s) st = Some y -> sm_cli y <> COpen ->
    exists y' k, nth_error (streams s') st = Some y' /\ sm_cli y' = sm_cli y /\
                 sm_pending y' = skipn k (sm_pending y).
Proof. exact closed_forever_reach. Qed.
Print Assumptions c11_reset_never_reused.

(* ... and it is not the current stream of any sender. *)
Theorem c11_current_stream_open :
  forall evs s sd x st y,
    run evs init = Some s -> nth_error (senders s) sd = Some x -> sd_stream x = Some st ->
    nth_error (streams s) st = Some y -> sm_cli y = COpen.
Proof. exact closed_not_current. Qed.
Print Assumptions c11_current_stream_open.

(* 4. Exchanges on one sender are serialized by its lock, over at most one stream. *)
Theorem c11_one_exchange_per_sender :
  forall evs s t1 th1 t2 th2 sd,
    run evs init = Some s ->
    mget (threads s) t1 = Some th1 -> holds (t_pc th1) = Some sd ->
    mget (threads s) t2 = Some th2 -> holds (t_pc th2) = Some sd -> t1 = t2.
Proof. exact one_exchange_per_sender. Qed.
Print Assumptions c11_one_exchange_per_sender.

Theorem c11_one_stream_per_sender :
  forall evs s st1 y1 st2 y2,
    run evs init = Some s ->
    nth_error (streams s) st1 = Some y1 -> sm_cli y1 = COpen ->
    nth_error (streams s) st2 = Some y2 -> sm_cli y2 = COpen ->
    sm_owner y1 = sm_owner y2 -> st1 = st2.
Proof. exact one_stream_per_sender. Qed.
Print Assumptions c11_one_stream_per_sender.

(* 4b. Per PEER: at most one open stream per peer for every event list without
   an OnDisconnect critical section (EDisc).  Since the repair d646d02 a failed
   Lock(ctx) (ELockFail) no longer orphans a sender, so it needs no exclusion.
   PARTIAL only in this: right after a disconnect notification the statement is
   false of the faithful model (and of the code) for a transient, see the
   refutation below. *)
Theorem c11_one_stream_per_peer_partial :
  forall evs s st1 y1 st2 y2,
    run evs init = Some s ->
    forallb no_disc evs = true ->   (* no_disc e = true iff e is not an EDisc *)
    nth_error (streams s) st1 = Some y1 -> sm_cli y1 = COpen ->
    nth_error (streams s) st2 = Some y2 -> sm_cli y2 = COpen ->
    sm_peer y1 = sm_peer y2 -> st1 = st2.
Proof. exact one_stream_per_peer. Qed.
Print Assumptions c11_one_stream_per_peer_partial.

(* 4c. (replaces c11_stream_leak_refuted, the defect repaired by d646d02) For
   every event list, OnDisconnect included: a mapped sender leaves the map only
   through OnDisconnect of its peer, or after it has been invalidated (its
   stream reset and dropped): no valid sender, hence no open stream, is ever
   made unreachable by a call that merely gave up waiting for the lock ... *)
Theorem c11_valid_sender_stays_mapped :
  forall evs s e s' p sd,
    run evs init = Some s -> step s e = Some s' -> mget (smap s) p = Some sd -> e <> EDisc p ->
    mget (smap s') p = Some sd \/ option_map sd_invalid (nth_error (senders s) sd) = Some true.
Proof. exact map_entry_stable. Qed.
Print Assumptions c11_valid_sender_stays_mapped.

(* ... a call whose prepOrInvalidate failed after taking the lock has invalidated the sender ... *)
Theorem c11_failed_prep_invalidated :
  forall evs s t th sd e,
    run evs init = Some s -> mget (threads s) t = Some th -> t_pc th = PFailed sd e ->
    option_map sd_invalid (nth_error (senders s) sd) = Some true.
Proof. exact failed_prep_invalidated. Qed.
Print Assumptions c11_failed_prep_invalidated.

(* ... and without disconnects every valid sender is the one in the map. *)
Theorem c11_valid_sender_is_mapped :
  forall evs s sd x,
    run evs init = Some s ->
    forallb no_disc evs = true ->   (* no_disc e = true iff e is not an EDisc *)
    nth_error (senders s) sd = Some x -> sd_invalid x = false -> mget (smap s) (sd_peer x) = Some sd.
Proof. exact valid_sender_is_mapped. Qed.
Print Assumptions c11_valid_sender_is_mapped.

(* STILL TRUE of the repaired code (d646d02 does not touch OnDisconnect): after a
   disconnect notification the orphaned sender record, whose call is still in
   its exchange, and the new record each own an open stream to the same peer.
   Transient by design: the old record is invalidated as soon as its lock is
   free (EInval is pending in invq).  Reached on the real code by the harness
   (branch two-open-streams in the evidence). *)
Definition ex_disc : list event :=
  [EStart 0 7 KReq; ELock 0; EPrep 0; EDialOk 0; ELock 0; EPrep 0; EWriteOk 0;
   EDisc 7; EStart 1 7 KReq; ELock 1; EPrep 1; EDialOk 1].
Theorem c11_one_stream_per_peer_refuted :
  exists evs s y1 y2,
    run evs init = Some s /\
    nth_error (streams s) 0 = Some y1 /\ sm_cli y1 = COpen /\
    nth_error (streams s) 1 = Some y2 /\ sm_cli y2 = COpen /\ sm_peer y1 = sm_peer y2.
Proof.
  exists ex_disc. eexists. eexists. eexists. split; [vm_compute; reflexivity|].
  repeat split; reflexivity.
Qed.
Print Assumptions c11_one_stream_per_peer_refuted.

(* The event list that leaked a stream before d646d02 (kept as a regression
   witness; the hooked replay on the real code is in corpus/C11/orphan-sender):
   call 0 creates the sender, call 1 takes its lock first, call 0's context ends
   while it waits.  Now call 0 just fails, the sender stays mapped, call 2
   reuses its stream: one stream, nothing leaked. *)
Definition ex_lockfail : list event :=
  [EStart 0 7 KReq; EStart 1 7 KReq; ELock 1; ECtx 0 CCancel; ELockFail 0;
   EPrep 1; EDialOk 1; EWriteOk 1; ERemAnswer 0 true; ERead 1;
   EStart 2 7 KReq; ELock 2; EPrep 2; EWriteOk 2; ERemAnswer 0 true; ERead 2].
Example c11_lockfail_no_leak :
  exists s, run ex_lockfail init = Some s /\
    length (streams s) = 1 /\ mget (smap s) 7 = Some 0 /\
    option_map t_pc (mget (threads s) 0) = Some (PDone (RErr (ECtxErr CCancel))) /\
    option_map t_pc (mget (threads s) 1) = Some (PDone (ROk (Some 1))) /\
    option_map t_pc (mget (threads s) 2) = Some (PDone (ROk (Some 2))).
Proof. eexists. split; [vm_compute; reflexivity|]. repeat split; reflexivity. Qed.

(* 5. A call writes its message at most twice (one retry), in state and in events. *)
Theorem c11_single_retry :
  forall evs s t th, run evs init = Some s -> mget (threads s) t = Some th -> t_writes th <= 2.
Proof. exact single_retry. Qed.
Print Assumptions c11_single_retry.

Theorem c11_single_retry_events :
  forall evs s t, run evs init = Some s -> count_writes evs t <= 2.
Proof. exact single_retry_events. Qed.
Print Assumptions c11_single_retry_events.

(* Non-vacuity: two concurrent requests to one peer.  Call 0 times out (its
   stream is reset, the late reply is dropped), retries on a second stream and
   gets its own reply; call 1, which waited for the lock, then reuses that
   stream and gets its own reply. *)
Definition ex_evs : list event :=
  [EStart 0 7 KReq; ELock 0; EPrep 0; EDialOk 0; EStart 1 7 KReq; ELock 0; EPrep 0; EWriteOk 0;
   ETimeout 0; ERemAnswer 0 true; EPrep 0; EDialOk 0; EWriteOk 0; ERemAnswer 1 true; ERead 0;
   ELock 1; EPrep 1; EWriteOk 1; ERemAnswer 1 true; ERead 1].
Example c11_nonvacuous :
  exists s, run ex_evs init = Some s /\
    option_map t_pc (mget (threads s) 0) = Some (PDone (ROk (Some 0))) /\
    option_map t_pc (mget (threads s) 1) = Some (PDone (ROk (Some 1))) /\
    option_map sm_cli (nth_error (streams s) 0) = Some CReset /\
    option_map sm_cli (nth_error (streams s) 1) = Some COpen /\
    option_map sd_single (nth_error (senders s) 0) = Some 1 /\
    count_writes ex_evs 0 = 2.
Proof. eexists. split; [vm_compute; reflexivity|]. repeat split; reflexivity. Qed.
