(* C12 — Routing-table members have proven themselves; failed peers leave.
   Theorems only (Model/RtAdmission.v, Proofs/RtAdmissionProofs.v).  The k-bucket
   admission policy is an arbitrary oracle [adm], so every statement holds for
   any bucket size, replacement and diversity policy. *)
From Verif.Lib Require Import GoSem.
From Verif.Model Require Import Lookup RtAdmission.
From Verif.Proofs Require Import RtAdmissionProofs.
Local Open Scope N_scope.

(* 1. Every member answered a DHT request before: a lookup query, or the
   admission probe of a peer that had been reported as speaking the protocol
   and passing the routing-table filter — for every event history. *)
Theorem c12_members_answered :
  forall adm rt0 cap evs p,
    In p (rt (rt_run adm {| rt := rt0; probing := []; capacity := cap |} evs)) ->
    In p rt0 \/ In (QueryOk p) evs \/ (In (ProbeDone p true) evs /\ In (PeerChange p true) evs).
Proof. exact members_answered. Qed.
Print Assumptions c12_members_answered.

(* 2. The local node is never a member, as long as no event reports the node
   itself as a remote peer that answered. *)
Theorem c12_self_never :
  forall adm cap evs self,
    ~ In (QueryOk self) evs -> ~ In (ProbeDone self true) evs ->
    ~ In self (rt (rt_run adm {| rt := []; probing := []; capacity := cap |} evs)).
Proof.
  intros adm cap evs self H1 H2 H. apply members_answered in H. destruct H as [[]|[H|[H _]]]; contradiction.
Qed.
Print Assumptions c12_self_never.

(* 3. A member that fails a dial or request of an uncancelled lookup, fails the
   refresh probe, or is reported as no longer valid, is out of the table and
   stays out until it answers again. *)
Theorem c12_evicted :
  forall adm s e evs p,
    evicts e p = true -> forallb (fun x => negb (readmits x p)) evs = true ->
    ~ In p (rt (rt_run adm (rt_step adm s e) evs)).
Proof. exact evicted_until_readmitted. Qed.
Print Assumptions c12_evicted.

(* 4. A failure caused by cancellation changes nothing. *)
Theorem c12_cancelled_failure_keeps :
  forall adm s p, rt_step adm s (QueryFail p true) = s.
Proof. exact cancelled_failure_keeps. Qed.
Print Assumptions c12_cancelled_failure_keeps.

(* 5. The refresh manager, for every interleaving of Refresh calls, loop
   iterations and Close: a request not yet answered can always take its next
   step towards an answer (handed to the loop, or failed with the context
   error once the manager is closed; a batched request is answered by the round
   in progress), and an answered request received exactly one value. *)
Theorem c12_every_request_answered :
  forall evs s i r,
    rf_run rf0 evs = Some s -> nth_error (reqs_st s) i = Some r ->
    match r with
    | RqSending => (exists s', rf_step s (RfAccept i) = Some s') \/ (exists s', rf_step s (RfGiveUp i) = Some s')
    | RqWaiting => exists s', rf_step s RfRound = Some s' /\ nth_error (reqs_st s') i = Some (RqAnswered 1)
    | RqAnswered n => n = 1%nat
    end.
Proof. exact every_request_answered. Qed.
Print Assumptions c12_every_request_answered.

Theorem c12_answer_is_final :
  forall s e s' i,
    rf_step s e = Some s' -> nth_error (reqs_st s) i = Some (RqAnswered 1) -> nth_error (reqs_st s') i = Some (RqAnswered 1).
Proof. exact answered_is_final. Qed.
Print Assumptions c12_answer_is_final.

Example c12_nonvacuous :
  rt (rt_run (fun _ _ => true) {| rt := []; probing := []; capacity := 2 |}
        [PeerChange 7 true; ProbeDone 7 true; QueryOk 9; QueryFail 7 false; QueryFail 9 true]) = [9] /\
  exists s, rf_run rf0 [RfCall; RfCall; RfAccept 0; RfClose; RfGiveUp 1; RfRound] = Some s /\
            reqs_st s = [RqAnswered 1; RqAnswered 1] /\ loop_alive s = false.
Proof. split; [reflexivity|]. eexists. split; [reflexivity|]. split; reflexivity. Qed.
