(* C02 — Lookups converge on the true closest peers and contact all of them.
   Theorems only.  Model: Model/Lookup.v; lemmas: Proofs/LookupConvergence.v
   (which rests on the XOR-metric facts of Lib/XorOrder.v). *)
From Verif.Lib Require Import GoSem.
From Verif.Model Require Import Lookup.
From Verif.Proofs Require Import LookupBasics LookupProofs LookupConvergence.
From Coq Require Import Sorted.
Local Open Scope N_scope.

(* The network hypothesis of the property: [U] the peers, [knows p] what peer p
   knows.  Every peer answers with the K nearest peers it knows
   ([honest_env]); for every peer p and every other peer x, p knows all the
   members of x's k-bucket if there are at most K, and K of them otherwise
   ([kbucket_complete]).  The lookup uses no IP-group limit, no target
   exemption and no stop function (GetClosestPeers), beta >= 1, K >= 1, a
   non-empty seed table drawn from the network, and is not cancelled. *)

(* 1. The globally nearest peer is returned first — for every arrival order. *)
Theorem c02_nearest_first :
  forall (c : config) (U : list id) (knows : id -> list id) (seeds : list id),
    cLimit c = 0%nat -> cTarget c = None -> cStop c = StopNever ->
    (1 <= cK c)%nat -> (1 <= cBeta c)%nat ->
    ~ In (cSelf c) U -> (forall p, incl (knows p) U) ->
    seeds <> [] /\ incl seeds U ->
    forall (evs : list event) (s : lstate),
    kbucket_complete c U knows ->
    run_search c (honest_env c knows) seeds evs = RDone s -> has_cancel evs = false ->
    exists m rest, r_peers (construct_result c s) = m :: rest /\
                   forall x, In x U -> x = m \/ lt_dist (cKey c) m x.
Proof. exact nearest_first. Qed.
Print Assumptions c02_nearest_first.

(* 2. When every peer knows the whole network the result is exactly the K
   globally nearest peers: no peer of the network outside the result is as
   near as a member, and the result is full whenever a peer is left out. *)
Theorem c02_exact_global_topK :
  forall (c : config) (U : list id) (knows : id -> list id) (seeds : list id),
    cLimit c = 0%nat -> cTarget c = None -> cStop c = StopNever ->
    (1 <= cK c)%nat -> (1 <= cBeta c)%nat ->
    NoDup U -> ~ In (cSelf c) U -> (forall p, incl (knows p) U) ->
    seeds <> [] /\ incl seeds U ->
    (forall p x, In p U -> In x U -> In x (knows p)) -> (forall p, NoDup (knows p)) ->
    forall (evs : list event) (s : lstate),
    run_search c (honest_env c knows) seeds evs = RDone s -> has_cancel evs = false ->
    let R := r_peers (construct_result c s) in
    forall x, In x U -> ~ In x R -> length R = cK c /\ forall m, In m R -> lt_dist (cKey c) m x.
Proof. exact exact_global_topK. Qed.
Print Assumptions c02_exact_global_topK.

(* 3. End condition, for ANY network (failing and lying peers included): a
   lookup that ends without being cancelled or stopped has received answers
   from the beta nearest non-failed peers it learned, or has nothing left to
   ask (every learned peer answered or failed). *)
Theorem c02_end_condition :
  forall c env seeds evs s,
    run_search c env seeds evs = RDone s -> has_cancel evs = false -> cStop c = StopNever ->
    (forall p, In p (firstn (cBeta c) (closest_in_states (cKey c) live (ps s))) -> state_of (ps s) p = Some Queried) \/
    (forall p st, state_of (ps s) p = Some st -> st = Queried \/ st = Unreachable).
Proof. exact end_condition. Qed.
Print Assumptions c02_end_condition.

(* 4. A lookup reported as completed has sent the request at least once to
   every peer it returns (search-phase requests plus follow-up requests). *)
Theorem c02_all_returned_contacted :
  forall c env seeds evs s cancelled_before cancel_after,
    run_search c env seeds evs = RDone s ->
    let (r, followup_requests) := followup c s cancelled_before cancel_after in
    r_completed r = true -> forall p, In p (r_peers r) -> In p (reqs s ++ followup_requests).
Proof.
  intros c env seeds evs s cb ca H. pose proof (run_search_inv c env seeds evs) as I. rewrite H in I.
  exact (all_returned_contacted c env seeds s cb ca (proj1 I)).
Qed.
Print Assumptions c02_all_returned_contacted.

(* 5. Progress and termination: while the lookup has not terminated some
   request is in flight (so an arrival event is enabled), and it cannot stay
   unterminated for more arrivals than there are peers to learn. *)
Theorem c02_progress :
  forall c env seeds evs s, (1 <= cAlpha c)%nat ->
    run_search c env seeds evs = RPending s -> exists p, state_of (ps s) p = Some Waiting.
Proof. exact pending_has_enabled_event. Qed.
Print Assumptions c02_progress.

Theorem c02_terminates :
  forall c env seeds U evs s, closed_env c env seeds U ->
    run_search c env seeds evs = RPending s -> (length evs <= length U)%nat.
Proof. exact pending_bound. Qed.
Print Assumptions c02_terminates.

(* 6. lookup.go: network-size tracking and the refresh stamp only for a
   completed, uncancelled lookup. *)
Theorem c02_side_effects_only_when_completed :
  forall ctx_err r, gcp_side_effects ctx_err r = true <-> ctx_err = false /\ r_completed r = true.
Proof.
  intros e r. unfold gcp_side_effects. destruct e, (r_completed r); simpl; split; intro H; try discriminate; try tauto; destruct H; discriminate.
Qed.
Print Assumptions c02_side_effects_only_when_completed.

(* Non-vacuity: a 5-peer network with complete knowledge, K = 2. *)
Definition ex_c : config :=
  {| cK := 2; cAlpha := 1; cBeta := 1; cSelf := 100; cKey := 0; cTarget := None; cLimit := 0; cStop := StopNever |}.
Definition ex_U : list id := [9; 7; 5; 3; 1].
Definition ex_knows (p : id) : list id := ex_U.
Example c02_nonvacuous :
  NoDup ex_U /\ ~ In (cSelf ex_c) ex_U /\ kbucket_complete ex_c ex_U ex_knows /\
  exists s, run_search ex_c (honest_env ex_c ex_knows) [9] [Arrive 9; Arrive 1] = RDone s /\
            r_peers (construct_result ex_c s) = [1; 3].
Proof.
  split; [repeat constructor; simpl; intuition discriminate|].
  split; [simpl; intuition discriminate|].
  split.
  - apply (full_knowledge_complete ex_c ex_U ex_knows [9]); try reflexivity; try (simpl; lia);
      try (repeat constructor; simpl; intuition discriminate);
      try (split; [discriminate|intros x [<-|[]]; left; reflexivity]);
      try (intros p x _ Hx; exact Hx).
  - eexists. split; [vm_compute; reflexivity|reflexivity].
Qed.
