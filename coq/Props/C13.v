(* C13 — Client-mode nodes never serve; auto mode follows reachability.  (PARTIAL, see clause 3.)
   Property theorems only; every proof is `exact <lemma>` (Proofs/ModeProofs.v).
   Model: Model/Mode.v over the REGENERATED enum decisions of Gen/ModeTable.v
   (reach_target, initial_mode, set_mode_action, subscribes/dispatches,
   message_rejected are translated from the Go source on every run).

   A history is any list of the atomic events of Model/Mode.v: emission of a
   reachability event, the subscriber taking the next queued event (setMode up
   to its return or up to the middle of moveToClientMode), the end of
   moveToClientMode, a new stream, the locked mode read of a stream's handler
   goroutine, a request read on a stream, a read error on a reset stream, EOF.
   [run s0 evs = Some s] says the list is a possible interleaving; every theorem
   quantifies over all of them. *)
From Verif.Lib Require Import GoSem Bits.
From Verif.Gen Require Import ModeTable.
From Verif.Model Require Import Mode.
From Verif.Proofs Require Import ModeProofs.

(* 0. The regenerated decision table: public -> server, private -> client,
   unknown -> server only for auto-server; any other integer leaves `target` at
   the zero value (setMode fails, mode unchanged). *)
Theorem c13_reachability_table : forall a,
  reach_target a ReachabilityPublic = Some modeServer /\
  reach_target a ReachabilityPrivate = Some modeClient /\
  reach_target a ReachabilityUnknown = Some (if mode_opt_eqb a ModeAutoServer then modeServer else modeClient) /\
  reach_target a ReachabilityOther = None.
Proof. exact reach_table. Qed.
Print Assumptions c13_reachability_table.

(* 1. Automatic modes (exactly ModeAuto and ModeAutoServer subscribe): after ANY
   interleaving of emissions, processing steps, stream arrivals and requests,
   once the subscriber has drained its queue the mode is the target of the last
   emitted event (the initial mode when nothing was emitted). *)
Theorem c13_last_event_wins : forall a s0 evs s,
  init a = Some s0 -> subscribes a = true -> run s0 evs = Some s -> quiescent s ->
  (emitted evs = [] -> cur s = cur s0) /\
  (forall rs r t, emitted evs = rs ++ [r] -> reach_target a r = Some t -> cur s = t) /\
  cur s = fold_mode a (cur s0) (emitted evs).
Proof. exact last_event_wins. Qed.
Print Assumptions c13_last_event_wins.

(* ... and at every instant, settled or not: processing what is still queued leads to
   exactly the mode that processing every emitted event in order leads to. *)
Theorem c13_mode_follows_events : forall a s0 evs s,
  init a = Some s0 -> subscribes a = true -> run s0 evs = Some s ->
  fold_mode a (cur s) (queue s) = fold_mode a (cur s0) (emitted evs).
Proof. exact mode_follows_events. Qed.
Print Assumptions c13_mode_follows_events.

Theorem c13_auto_modes_subscribe : forall a, subscribes a = true <-> a = ModeAuto \/ a = ModeAutoServer.
Proof. exact subscribes_auto. Qed.
Print Assumptions c13_auto_modes_subscribe.

(* 2. Fixed modes (everything that does not subscribe: ModeClient, ModeServer)
   never change mode nor handler registration, whatever is emitted. *)
Theorem c13_fixed_modes_never_change : forall a s0 evs s,
  init a = Some s0 -> subscribes a = false -> run s0 evs = Some s ->
  cur s = cur s0 /\ handler s = handler s0 /\ queue s = [] /\ switching s = false.
Proof. exact fixed_modes_never_change. Qed.
Print Assumptions c13_fixed_modes_never_change.

(* Initial mode table, and what the constructed node looks like. *)
Theorem c13_initial :
  initial_mode ModeAuto = Some modeClient /\ initial_mode ModeClient = Some modeClient /\
  initial_mode ModeServer = Some modeServer /\ initial_mode ModeAutoServer = Some modeServer /\
  initial_mode ModeOptOther = None.
Proof. exact initial_table. Qed.
Print Assumptions c13_initial.

Theorem c13_initial_state : forall a s0, init a = Some s0 ->
  auto s0 = a /\ queue s0 = [] /\ switching s0 = false /\ streams s0 = [] /\
  initial_mode a = Some (cur s0) /\ handler s0 = mode_eqb (cur s0) modeServer.
Proof. exact init_fields. Qed.
Print Assumptions c13_initial_state.

(* 3. No service in client mode — PARTIAL: stated on the instant of the locked mode
   read, which is where the code decides.  Full statement wanted: "no handler runs
   while dht.mode = client".  That is false of the code as written (clause 3x below):
   between `dht.mode = modeClient` and the stream resets of moveToClientMode a
   goroutine that read `server` earlier and is blocked in ReadMsg still serves the
   request it receives.  What is proved, for every reachable state:
   (a) a stream whose mode read sees client is reset, and nothing is ever handled on it afterwards; *)
Theorem c13_no_service_in_client_partial : forall a s i s1 evs s2,
  reachable a s -> cur s = modeClient -> step s (EModeRead i) = Some s1 -> run s1 evs = Some s2 ->
  exists x x2, find_stream i (streams s) = Some x /\ find_stream i (streams s2) = Some x2 /\
               handled x2 = handled x /\ rst x2 = true /\ ph x2 = PDone.
Proof. exact no_service_after_client_read. Qed.
Print Assumptions c13_no_service_in_client_partial.

(* (b) once moveToClientMode has returned (mode = client, not switching) no event
   whatsoever increases any handled counter: every stream still blocked in a read has been reset; *)
Theorem c13_settled_client_no_service : forall a s e s',
  reachable a s -> cur s = modeClient -> switching s = false -> step s e = Some s' ->
  total_handled s' = total_handled s.
Proof. exact settled_client_no_service. Qed.
Print Assumptions c13_settled_client_no_service.

(* (c) every message ever handled was preceded on its stream by a mode read that returned server; *)
Theorem c13_served_only_after_server_read : forall a s x,
  reachable a s -> In x (streams s) ->
  handled x = length (served x) /\ Forall (eq (Some modeServer)) (served x).
Proof. exact served_only_after_server_read. Qed.
Print Assumptions c13_served_only_after_server_read.

(* (d) a client never accepts a new inbound DHT stream (no handler is registered). *)
Theorem c13_client_refuses_streams : forall a s i neg s',
  reachable a s -> cur s = modeClient -> step s (ENewStream i KInDHT neg) = Some s' -> s' = s.
Proof. exact client_refuses_streams. Qed.
Print Assumptions c13_client_refuses_streams.

(* 3x. The unrestricted reading is refuted by a 5-event history (the inherent
   window; replayed on the real code by the harness with a gate inside
   moveToClientMode — DESIGN.md C13 "P partial"). *)
Theorem c13_no_service_whenever_client_refuted :
  exists s0 s s', init ModeAutoServer = Some s0 /\ run s0 window_history = Some s /\
      cur s = modeClient /\ switching s = true /\
      step s (EMessage 1 true) = Some s' /\ total_handled s' = S (total_handled s).
Proof. exact client_window_exists. Qed.
Print Assumptions c13_no_service_whenever_client_refuted.

(* 4. Demotion resets: for every interleaving between the start of
   moveToClientMode (s1) and its return (s3), every inbound DHT stream that was
   open at the start (its protocol set: [vis]) is finished or reset at the return;
   and at the return every open inbound DHT stream is reset.  A stream still in
   protocol negotiation is not a DHT stream yet for the reset loop
   (pset[s.Protocol()]): it is stopped by its first mode read (clause 3a/3b). *)
Theorem c13_demotion_resets : forall s0 s1 evs s2 s3 i x,
  step s0 EProcess = Some s1 -> switching s1 = true ->
  run s1 evs = Some s2 -> step s2 ESetModeDone = Some s3 ->
  find_stream i (streams s1) = Some x -> kind x = KInDHT -> vis x = true ->
  exists x', find_stream i (streams s3) = Some x' /\ (ph x' = PDone \/ rst x' = true).
Proof. exact demotion_resets. Qed.
Print Assumptions c13_demotion_resets.

Theorem c13_demotion_resets_open : forall s s', step s ESetModeDone = Some s' ->
  switching s' = false /\
  Forall (fun x => kind x = KInDHT -> vis x = true -> ph x <> PDone -> rst x = true) (streams s').
Proof. exact demotion_resets_open. Qed.
Print Assumptions c13_demotion_resets_open.

(* 5. Server mode handles: the handler is registered, a new inbound stream is
   accepted and its first request handled; a stream at the top of the loop passes
   the mode check; a request on an open stream that was not reset is handled. *)
Theorem c13_server_handles : forall a s, reachable a s -> cur s = modeServer ->
  switching s = false /\ handler s = true /\
  (forall i, find_stream i (streams s) = None ->
     exists s3 x, run s [ENewStream i KInDHT false; EModeRead i; EMessage i true] = Some s3 /\
       find_stream i (streams s3) = Some x /\ handled x = 1 /\ rst x = false /\ ph x = PStart /\ cur s3 = modeServer) /\
  (forall i x, find_stream i (streams s) = Some x -> ph x = PStart -> vis x = true ->
     exists s', step s (EModeRead i) = Some s' /\ find_stream i (streams s') = Some (with_read modeServer x)) /\
  (forall i x, find_stream i (streams s) = Some x -> ph x = PRead -> rst x = false ->
     exists s', step s (EMessage i true) = Some s' /\ find_stream i (streams s') = Some (with_handled x)).
Proof. exact server_handles. Qed.
Print Assumptions c13_server_handles.

(* Non-vacuity: an auto-server node serves a request, is demoted by a Private
   event while a second stream is open and a third is still in protocol
   negotiation (it escapes the reset loop and is stopped by its mode read),
   refuses a fourth stream, and is promoted again by Public: a reachable, settled
   state in server mode with one handled message and all three old streams reset. *)
Definition ex_history : list event :=
  [ENewStream 1 KInDHT false; EModeRead 1; EMessage 1 true; EModeRead 1; ENewStream 2 KInDHT false;
   ENewStream 3 KInDHT true;
   EEmit ReachabilityPrivate; EProcess; ESetModeDone; EReadErr 1; EModeRead 2;
   EAnnounce 3; EModeRead 3; ENewStream 4 KInDHT false;
   EEmit ReachabilityUnknown; EEmit ReachabilityPublic; EProcess; EProcess].
Example c13_nonvacuous :
  exists s0 s, init ModeAutoServer = Some s0 /\ run s0 ex_history = Some s /\
    reachable ModeAutoServer s /\ quiescent s /\ subscribes ModeAutoServer = true /\
    cur s = modeServer /\ total_handled s = 1 /\
    map (fun x => (sid x, rst x, ph x)) (streams s) = [(1, true, PDone); (2, true, PDone); (3, true, PDone)] /\
    emitted ex_history = [ReachabilityPrivate; ReachabilityUnknown; ReachabilityPublic].
Proof.
  eexists. eexists. split; [reflexivity|]. split; [vm_compute; reflexivity|].
  split; [eexists; exists ex_history; split; [reflexivity|vm_compute; reflexivity]|].
  repeat split.
Qed.
