(* C03 — Routing operations always terminate, honour cancellation, never panic.
   PARTIAL (see DESIGN.md): proved for the parts that are logic — the lookup
   state machine shared by every routing operation (no protocol panic, the
   update channel never blocks a worker, something is always in flight until
   termination, termination within a bounded number of arrivals, prompt
   cancellation, follow-up accounting) and the completion counting of optimistic
   provide.  The Go scheduler, context propagation inside libp2p, the channel
   plumbing of SearchValue / FindProvidersAsync and real timers are not
   modelled: they are exercised by the correspondence run, which drives all
   nine public operations under testing/synctest with failing, silent and late
   peers and cancellation at every kind of instant, and checks return, absence
   of panics, closed channels, promptness after cancel and a clean bubble exit
   after Close. *)
From Verif.Lib Require Import GoSem.
From Verif.Model Require Import Lookup OptProvide Followup.
From Verif.Proofs Require Import LookupBasics LookupProofs LookupConvergence OptProvideProofs FollowupProofs.
Local Open Scope nat_scope.

(* 1. The lookup state machine never hits an internal protocol panic. *)
Theorem c03_lookup_never_panics :
  forall c env seeds evs, match run_search c env seeds evs with RPanic _ => False | _ => True end.
Proof.
  intros c env seeds evs. pose proof (run_search_inv c env seeds evs) as H.
  destruct (run_search c env seeds evs); tauto.
Qed.
Print Assumptions c03_lookup_never_panics.

(* 2. At most alpha queries are in flight in every reachable state — also after
   the loop has returned — so the alpha-buffered update channel always has room
   for the single update each of them sends: no worker ever blocks on it. *)
Theorem c03_update_channel_never_blocks :
  forall c env seeds evs s,
    match run_search c env seeds evs with RDone s' | RPending s' | RBadEvent s' _ => s' = s | RPanic _ => False end ->
    num_in_state Waiting (ps s) <= cAlpha c.
Proof.
  intros c env seeds evs s H. pose proof (run_search_inv c env seeds evs) as I.
  destruct (run_search c env seeds evs); try contradiction; subst; exact (iv_wait _ _ _ _ (proj1 I)).
Qed.
Print Assumptions c03_update_channel_never_blocks.

(* 3. The loop never waits on an idle channel: while not terminated, a request is in flight. *)
Theorem c03_never_idle :
  forall c env seeds evs s, 1 <= cAlpha c ->
    run_search c env seeds evs = RPending s -> exists p, state_of (ps s) p = Some Waiting.
Proof. exact pending_has_enabled_event. Qed.
Print Assumptions c03_never_idle.

(* 4. Bounded: a lookup cannot stay unterminated for more arrivals than there
   are peers it can learn, whatever the failure pattern and arrival order. *)
Theorem c03_lookup_terminates :
  forall c env seeds U evs s, closed_env c env seeds U ->
    run_search c env seeds evs = RPending s -> length evs <= length U.
Proof. exact pending_bound. Qed.
Print Assumptions c03_lookup_terminates.

(* 5. Cancellation: the iteration that sees the cancelled context terminates the
   lookup with reason Cancelled and spawns no request. *)
Theorem c03_cancel_prompt :
  forall c env s s', step c env s Cancel = Some (Ok s') ->
    term s' = Some Cancelled /\ reqs s' = reqs s /\ ps s' = ps s.
Proof. exact cancel_prompt. Qed.
Print Assumptions c03_cancel_prompt.

(* 6. Optimistic provide, for every interleaving of RPC completions, receives by
   waitForRPCs and receives by the consumeDoneChan goroutines: every completion
   token is counted exactly once or still queued, the channel is closed at most
   once and only after all n were counted, and when waitForRPCs has returned at
   least min(ceil(0.75 K), n) completions were handed to a receiver. *)
Theorem c03_optprov_counting :
  forall K n evs s, 1 <= return_threshold K ->
    orun (init K n) evs = Some s ->
    done s + queue s = completed s /\ completed s <= n /\
    closed s <= 1 /\ (closed s = 1 -> done s = n) /\
    (ph s = Ret -> n = 0 \/ (Nat.min (return_threshold K) n <= done s + consumers s /\ done s + consumers s = n)).
Proof.
  intros K n evs s HK H. destruct (orun_inv evs (init K n) s (init_inv K n HK) H) as (I & N & T).
  simpl in N, T. destruct I as [C Tk CL CA TH PH OP]. rewrite N in *. rewrite T in *.
  repeat split; auto. intro R. rewrite R in PH. exact PH.
Qed.
Print Assumptions c03_optprov_counting.

(* 7. ... and it cannot get stuck before returning as long as started RPCs complete
   (each runs under the one-minute put context): some step is always enabled. *)
Theorem c03_optprov_progress :
  forall K n evs s, 1 <= return_threshold K -> 1 <= n ->
    orun (init K n) evs = Some s -> ph s <> Ret ->
    (exists s', ostep s MainRecv = Some s') \/ (exists s', ostep s MainLease = Some s') \/ (exists s', ostep s RpcDone = Some s').
Proof.
  intros K n evs s HK Hn H P. destruct (orun_inv evs (init K n) s (init_inv K n HK) H) as (I & N & T).
  apply progress; auto. rewrite T. simpl. lia.
Qed.
Print Assumptions c03_optprov_progress.

(* 8. No RPC issued (every peer of the lookup failed): waitForRPCs returns at once. *)
Theorem c03_optprov_zero_returns : forall K, ph (init K 0) = Ret /\ returns_after K 0 = Ok 0.
Proof. intro K. split; reflexivity. Qed.
Print Assumptions c03_optprov_zero_returns.

(* 9. The follow-up wait loop of runLookupWithFollowup, for every order of
   follow-up completions, every instant at which the stop function fires and
   every cancellation instant: it never receives more completion tokens than
   the n follow-up queries will send, it counts every token it receives in the
   loop, and when it has to drain it waits for exactly the outstanding ones -
   so it always returns once the follow-up queries have ended, and an
   interrupted follow-up has consumed all n tokens when it returns. *)
Theorem c03_followup_drains :
  forall n completed evs s,
    frun (finit n completed) evs = Some s ->
    f_recv s <= n /\
    (f_phase s = FReturned -> f_completed s = false -> f_recv s = n) /\
    (f_phase s <> FReturned -> f_recv s < n /\ exists s', fstep s (FDone false) = Some s').
Proof.
  intros n completed evs s H. destruct (frun_inv evs (finit n completed) s (finit_inv n completed) H) as [I N].
  simpl in N. pose proof I as [I0 I1]. split; [rewrite <- N; exact I0|]. split.
  - intros P. rewrite P in I1. rewrite <- N. exact I1.
  - intro P. destruct (waiting_is_justified s I P) as [A B]. rewrite <- N. auto.
Qed.
Print Assumptions c03_followup_drains.

(* Non-vacuity *)
Example c03_nonvacuous :
  1 <= return_threshold 20 /\ return_threshold 20 = 15 /\
  exists s, orun (init 20 3) [RpcDone; MainRecv; RpcDone; RpcDone; MainRecv; MainRecv] = Some s /\ ph s = Ret /\ done s = 3.
Proof. split; [vm_compute; lia|]. split; [reflexivity|]. eexists. split; [vm_compute; reflexivity|]. split; reflexivity. Qed.
