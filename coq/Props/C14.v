(* C14 — Close stops everything; failed constructors leave nothing running.   PARTIAL.

   What is proved (for all event lists = all interleavings of the atomic steps of Close, of goroutine
   registration / exit and of further Close calls): the protocol each component uses to stop and await
   its goroutines (Model/Lifecycle.v: the closing flag, the sync.Once / no guard around the body, the
   registration guard, WaitGroup or channel wait), the constructors' error paths, and the tie of the
   model's goroutine classes to the REGENERATED inventory of `go` / WaitGroup.Go sites (Gen/Goroutines.v):
   a new start site, or a site whose WaitGroup registration disappears, makes c14_inventory_covered fail.

   What is not proved: that the Go code implements the protocol (goroutine, channel, context and timer
   semantics are Go's).  That part is explored on the real code on every run: Close injected at generated
   instants between two released calls of running operations and background work, second Close after and
   concurrently with the first, calls on the closed instance, every reachable constructor error, under
   testing/synctest (harness/*/c14_test.go); Corr/Run_C14.v maps every goroutine observed alive after Close
   returned through the inventory to a class and asks the model whether Close awaits it.

   History: this check found five defects, all repaired in /repo, and the model describes the repaired code:
   the keystores' select-guarded Close (second concurrent Close returned early / double close; now sync.Once),
   the refresh manager's unguarded WaitGroup registration (Close could panic; now registered under a lock while
   !closed), provider/dual.New and fullrt.NewFullRT leaving things running on their error / panic paths, and the
   reset handshake that wedged the resettable keystore.  Theorems 6 and 7 keep, as statements about the two
   abandoned protocols, why they were not enough. *)
From Verif.Lib Require Import GoSem.
From Verif.Gen Require Import Goroutines.
From Verif.Model Require Import Lifecycle.
From Verif.Proofs Require Import LifecycleProofs.
Local Open Scope string_scope.

(* 1. Every start site of the regenerated inventory is known to the model with the tracking the model
   relies on; a class awaited through a WaitGroup is registered with one at its site; a class the model
   takes to be registered under lock + flag (provider workers, the refresh manager's loop and requests)
   is registered after an RLock() in the same function; and no goroutine registered by an explicit Add
   has a path on which it ends without the Done calls it owes (gs_done, computed by go2coq from the body
   the goroutine runs: `defer X.Done()` before any return, a final unconditional X.Done(), callees). *)
Theorem c14_inventory_covered :
  forall s, In s sites ->
    exists r, site_row s = Some r /\ gs_track s = r_track r /\ gs_guard s = r_guard r /\
      (class_await (r_class r) = AwWaitGroup -> gs_track s <> "untracked") /\
      (class_guarded (r_class r) = true -> gs_guard s <> "") /\
      gs_done s <> DoneSome.
Proof. exact inventory_covered. Qed.
Print Assumptions c14_inventory_covered.

(* ... in particular, for every component, every site of a class its Close awaits reaches Done on every
   path: the fact 2c uses.  (With one gs_done = DoneSome this theorem, and with it 2c for the components,
   no longer holds.) *)
Theorem c14_done_on_every_path :
  forall c, d_done_all (desc_of c) = true.
Proof. exact done_on_every_path. Qed.
Print Assumptions c14_done_on_every_path.

(* ... and no class is left without an owner: a class joined by a parent has a parent that is itself
   awaited by Close, joined by its caller, or ends by itself. *)
Theorem c14_classes_rooted :
  forall g, match root_await 3 g with AwParent _ => False | _ => True end.
Proof. exact parents_rooted. Qed.
Print Assumptions c14_classes_rooted.

(* 2. Close returns only when no registered goroutine is alive — and none is registered afterwards —
   for every protocol whose registrations are guarded (lock + flag, or constructor only) and whose
   body is not select-guarded ... *)
Theorem c14_close_waits :
  forall d evs s t,
    d_guard d <> GuardNone -> d_once d <> OnceChanSelect ->
    run d init evs = Some s -> closers s t = CReturned -> pre s = 0 /\ post s = 0.
Proof. exact p_close_waits. Qed.
Print Assumptions c14_close_waits.

(* ... which is the protocol of every component except the value store: standard, dual and accelerated DHT,
   provider manager, refresh manager, sweeping provider and its wrappers, keystore and resettable keystore —
   for any number of threads calling Close at any time (the concurrent second Close of a keystore included). *)
Theorem c14_close_waits_components :
  forall c evs s t,
    c <> CValueStore -> run (desc_of c) init evs = Some s -> closers s t = CReturned -> pre s = 0 /\ post s = 0.
Proof. exact p_close_waits_comp. Qed.
Print Assumptions c14_close_waits_components.

(* 2c. Close does return: on an instance on which Close has not been called yet, whatever is registered at
   that moment, Close by any thread has a continuation in which it returns without panic — PROVIDED every
   registered goroutine reaches its Done on every path (d_done_all).  In the model a goroutine of a protocol
   without that property may end without decrementing (EExitLeak); the hypothesis is what rules it out. *)
Theorem c14_close_returns :
  forall d evs s t,
    d_guard d <> GuardNone -> d_once d <> OnceChanSelect -> d_done_all d = true ->
    run d init evs = Some s -> ctor_done s = true -> (forall x, closers s x = CIdle) ->
    exists evs' s', run d s evs' = Some s' /\ closers s' t = CReturned /\ panicked s' = false.
Proof. exact p_first_close_returns. Qed.
Print Assumptions c14_close_returns.

(* ... for the components the hypothesis is discharged by the inventory fact c14_done_on_every_path *)
Theorem c14_close_returns_components :
  forall c evs s t,
    c <> CValueStore -> run (desc_of c) init evs = Some s -> ctor_done s = true -> (forall x, closers s x = CIdle) ->
    exists evs' s', run (desc_of c) s evs' = Some s' /\ closers s' t = CReturned /\ panicked s' = false.
Proof. exact p_first_close_returns_comp. Qed.
Print Assumptions c14_close_returns_components.

(* ... and the hypothesis is needed: once a registered goroutine has ended without Done, no Close ever returns
   again, whatever happens (the sweeping provider's protocol with d_done_all = false as witness). *)
Theorem c14_lost_done_close_never_returns :
  (forall d s, d_once d <> OnceChanSelect -> lost_inv s ->
     forall evs s', run d s evs = Some s' -> forall t, closers s' t <> CReturned) /\
  (exists s, run desc_provider_lost_done init [ESpawn; ECtorDone; EExitLeak] = Some s /\
     forall evs s', run desc_provider_lost_done s evs = Some s' -> forall t, closers s' t <> CReturned).
Proof. exact (conj lost_done_close_never_returns lost_done_witness). Qed.
Print Assumptions c14_lost_done_close_never_returns.

(* 2b. Without a registration guard (value store: StartGC may be called at any time) what holds is: when the
   wait of Close's body is over, every goroutine registered before the closing flag is gone.
   PARTIAL: a sweeper started by a StartGC that comes after Close is not stopped by that Close (it is bounded
   by the context given to StartGC); the DHT only calls StartGC from its constructor. *)
Theorem c14_close_waits_unguarded_partial :
  forall d evs s t, run d init evs = Some s -> closers s t = CDone -> pre s = 0.
Proof. exact body_wait_over_pre_gone. Qed.
Print Assumptions c14_close_waits_unguarded_partial.

(* 3. Close may be called repeatedly: once some Close has returned, a Close by any thread that is not
   inside Close runs to its return, without panic, in a state with nothing alive; no event list ever
   panics; a caller blocked in sync.Once returns as soon as the first caller has. *)
Theorem c14_idempotent :
  forall d evs s t0 t,
    d_guard d <> GuardNone -> d_once d <> OnceChanSelect ->
    run d init evs = Some s -> closers s t0 = CReturned ->
    (closers s t = CIdle \/ closers s t = CReturned) ->
    exists evs' s', run d s evs' = Some s' /\ closers s' t = CReturned /\ panicked s' = false /\ pre s' = 0 /\ post s' = 0.
Proof. exact p_idempotent. Qed.
Print Assumptions c14_idempotent.

Theorem c14_no_panic :
  forall d evs s,
    d_guard d <> GuardNone -> d_once d <> OnceChanSelect ->
    run d init evs = Some s -> panicked s = false /\ forall t, closers s t <> CPanicked.
Proof. exact p_no_panic. Qed.
Print Assumptions c14_no_panic.

Theorem c14_no_panic_components :
  forall c evs s,
    c <> CValueStore -> run (desc_of c) init evs = Some s -> panicked s = false /\ forall t, closers s t <> CPanicked.
Proof. exact p_no_panic_comp. Qed.
Print Assumptions c14_no_panic_components.

Theorem c14_concurrent_close_returns_after_first :
  forall d evs s t,
    run d init evs = Some s -> closers s t = COnceBlocked -> once_done s = true ->
    exists s', step d s (ECloseRet t) = Some s' /\ closers s' t = CReturned /\ panicked s' = panicked s.
Proof. exact once_blocked_returns. Qed.
Print Assumptions c14_concurrent_close_returns_after_first.

(* 4. The lock + flag guard (sweeping provider: wgLk / done; refresh manager: refcountLk / closed): once the
   closing flag is set, a registration attempt registers nothing, and over any continuation the number of live
   registered goroutines never grows; with constructor-only registration there is no registration step at all
   once the instance exists. *)
Theorem c14_no_add_after_close :
  forall d s, d_guard d = GuardLockFlag -> flag s = true ->
    step d s ESpawn = Some s /\
    forall evs s', run d s evs = Some s' -> flag s' = true /\ pre s' + post s' <= pre s + post s.
Proof. exact p_no_add_after_close. Qed.
Print Assumptions c14_no_add_after_close.

Theorem c14_no_add_after_close_components :
  forall c s, c = CProvider \/ c = CRtRefresh -> flag s = true ->
    step (desc_of c) s ESpawn = Some s /\
    forall evs s', run (desc_of c) s evs = Some s' -> flag s' = true /\ pre s' + post s' <= pre s + post s.
Proof. exact p_no_add_provider_rtrefresh. Qed.
Print Assumptions c14_no_add_after_close_components.

Theorem c14_no_add_after_construction :
  forall d s, d_guard d = GuardCtor -> ctor_done s = true -> step d s ESpawn = None.
Proof. exact spawn_impossible_after_ctor. Qed.
Print Assumptions c14_no_add_after_construction.

(* 5. Constructors, all of them: at every point where a constructor returns an error, everything it started
   before that point (goroutine classes, event-bus subscriptions) is stopped by the error path, and no point
   panics. *)
Theorem c14_ctor_error_clean :
  forall c name p left,
    In (name, p, left) (leftovers [] (ctor_script c)) -> p = false /\ left = [].
Proof. exact p_ctor_error_clean. Qed.
Print Assumptions c14_ctor_error_clean.

(* 6. Why a select on the close channel was not enough (the keystores' former Close): a second Close that
   arrives while the first waits for the worker returns at once with the worker alive, and two callers that
   both pass the select before either closes the channel make the second close(s.close) panic. *)
Theorem c14_select_guard_insufficient :
  (exists evs s, run desc_keystore_select init evs = Some s /\ closers s 1 = CReturned /\ pre s = 1) /\
  (exists evs s, run desc_keystore_select init evs = Some s /\ panicked s = true).
Proof. exact p_select_refuted. Qed.
Print Assumptions c14_select_guard_insufficient.

(* ... although it is correct when Close is only used sequentially. *)
Theorem c14_close_sequential_select :
  forall b d evs s t,
    d_once d = OnceChanSelect -> d_guard d <> GuardNone -> run_seq b d init evs = Some s ->
    panicked s = false /\ (closers s t = CReturned -> pre s = 0 /\ post s = 0).
Proof. exact seq_close_waits. Qed.
Print Assumptions c14_close_sequential_select.

(* 7. Why registration must be ordered with Close (the refresh manager's former refcount.Go / Add(1)): a
   registration between the wake-up of Close's Wait and its resumption makes WaitGroup.Wait panic, and a
   registration after the wait is alive when Close returns. *)
Theorem c14_unguarded_registration_insufficient :
  (exists evs s, run desc_rtrefresh_unguarded init evs = Some s /\ panicked s = true /\ closers s 0 = CPanicked) /\
  (exists evs s, run desc_rtrefresh_unguarded init evs = Some s /\ closers s 0 = CReturned /\ post s = 1).
Proof. exact p_unguarded_refuted. Qed.
Print Assumptions c14_unguarded_registration_insufficient.

(* 8. The start handshake of a reset on the resettable keystore cannot wedge Close: the caller of ResetCids
   collects the worker's answer before it looks at its context: from every reachable state of the handshake
   there is a continuation in which Close returns. *)
Theorem c14_reset_handshake_close_returns :
  forall evs s, rk_run rk0 evs = Some s -> exists evs' s', rk_run s evs' = Some s' /\ rk_close_ret s' = true.
Proof. exact rk_close_can_return. Qed.
Print Assumptions c14_reset_handshake_close_returns.

(* Non-vacuity: a provider-like instance (sync.Once, lock + flag, WaitGroup) starts two workers, Close is
   called while they run, a registration attempt is rejected, a second caller blocks in Once, the workers
   exit, both callers return: nothing is alive, nothing panicked. *)
Definition ex_trace : list ev :=
  [ESpawn; ECtorDone; ESpawn; ECloseEnter 0; ECloseSet 0; ESpawn; ESleep 0; ECloseEnter 1; EExitPre; EExitPre;
   EWake 0; EResume 0; ECloseRet 0; ECloseRet 1].
Example c14_nonvacuous :
  d_guard (desc_of CProvider) <> GuardNone /\ d_once (desc_of CProvider) <> OnceChanSelect /\
  exists s, run (desc_of CProvider) init ex_trace = Some s /\
    closers s 0 = CReturned /\ closers s 1 = CReturned /\ pre s = 0 /\ post s = 0 /\ panicked s = false.
Proof.
  split; [discriminate|]. split; [discriminate|]. eexists. split; [vm_compute; reflexivity|]. repeat split; reflexivity.
Qed.
