(* C15 — Dual DHT routes writes by WAN liveness and scopes addresses.
   Property theorems only; every proof is `exact <lemma>` (Proofs/DualProofs.v,
   Proofs/AddrClassProofs.v).  Models: Model/Dual.v (decision functions of
   dual/dual.go; the provider-record sites of handlers.go / routing.go) and Model/AddrClass.v (address classes, the query / routing-table /
   address filters of dht_filters.go and dual.New).
   Modelled, not verified: go-multiaddr's CIDR tables and domain lists (compared at
   every boundary by the correspondence run); the inner IpfsDHT operations are inputs. *)
From Verif.Lib Require Import GoSem Bits.
From Verif.Model Require Import AddrClass Dual.
From Verif.Proofs Require Import AddrClassProofs DualProofs.

(* 1. Provide and PutValue go to the WAN DHT exactly when the WAN routing table is
   non-empty, otherwise to the LAN DHT. *)
Theorem c15_write_routing : forall n,
  (write_target n = WAN <-> (0 < n)%nat) /\ (write_target n = LAN <-> n = O).
Proof. exact write_routing. Qed.
Print Assumptions c15_write_routing.

(* 2. GetValue: the WAN result when the WAN lookup succeeds (whatever LAN did), otherwise
   the LAN result when that succeeds, otherwise an error that is never nil. *)
Theorem c15_get_value_priority : forall (V : Type) (wan lan : option V * option err),
  (snd wan = None -> get_value_merge wan lan = (fst wan, None)) /\
  (forall we, snd wan = Some we -> snd lan = None -> get_value_merge wan lan = (fst lan, None)) /\
  (forall we le, snd wan = Some we -> snd lan = Some le ->
     get_value_merge wan lan = (None, combine_errors (Some we) (Some le)) /\
     combine_errors (Some we) (Some le) <> None).
Proof. exact get_value_priority. Qed.
Print Assumptions c15_get_value_priority.

(* combineErrors: identical sentinels collapse, kb.ErrLookupFailure yields to the other error *)
Theorem c15_combine_errors :
  (forall i, combine_errors (Some (ESentinel i)) (Some (ESentinel i)) = Some (ESentinel i)) /\
  (forall b, combine_errors (Some lookup_failure) b = b) /\
  (forall a, combine_errors a (Some lookup_failure) = a) /\
  (forall i j, i <> j -> i <> O -> j <> O ->
     combine_errors (Some (ESentinel i)) (Some (ESentinel j)) = Some (EJoin (ESentinel i) (ESentinel j))).
Proof. exact combine_errors_spec. Qed.
Print Assumptions c15_combine_errors.

(* 3. FindPeer returns the union of both address sets (as sets; without duplicates when
   both are non-empty), and an error only when both lookups failed. *)
Theorem c15_find_peer_union : forall wan lan i,
  In i (map a_id (find_peer_addrs wan lan)) <-> In i (map a_id wan) \/ In i (map a_id lan).
Proof. exact find_peer_union. Qed.
Print Assumptions c15_find_peer_union.

Theorem c15_find_peer_nodup : forall wan lan, wan <> [] -> lan <> [] -> NoDup (map a_id (find_peer_addrs wan lan)).
Proof. exact find_peer_nodup. Qed.
Print Assumptions c15_find_peer_nodup.

Theorem c15_find_peer_error : forall we le,
  (we = None \/ le = None -> find_peer_err we le = None) /\
  (forall a b, we = Some a -> le = Some b -> find_peer_err we le = combine_errors we le /\ find_peer_err we le <> None).
Proof. exact find_peer_err_spec. Qed.
Print Assumptions c15_find_peer_error.

(* 4. FindProvidersAsync, for EVERY arrival order of the two inner streams (any list of
   providers / channel closings): each provider at most once, at most count in total
   (count > 0), nothing for a negative count, only providers that were received. *)
Theorem c15_providers_once_bounded : forall count arrivals,
  NoDup (prov_merge count arrivals) /\
  ((0 < count)%Z -> (Z.of_nat (length (prov_merge count arrivals)) <= count)%Z) /\
  ((count < 0)%Z -> prov_merge count arrivals = []) /\
  (forall p, In p (prov_merge count arrivals) -> In p (arrived arrivals)).
Proof. exact providers_once_bounded. Qed.
Print Assumptions c15_providers_once_bounded.

(* ... and nothing is lost below the cap: for every sequence the two channels can produce
   (no provider after its channel closed) a received provider reaches the caller unless
   count providers were already delivered; with count = 0 the output is the union. *)
Theorem c15_providers_no_loss : forall count arrivals p,
  wf true true arrivals -> In p (arrived arrivals) ->
  In p (prov_merge count arrivals) \/
  ((0 < count)%Z /\ Z.of_nat (length (prov_merge count arrivals)) = count) \/ (count < 0)%Z.
Proof. exact providers_no_loss. Qed.
Print Assumptions c15_providers_no_loss.

(* 5. The WAN DHT only follows referrals to peers that have a public non-relay address,
   the peer being searched for excepted (query.go: isTarget || queryPeerFilter, with
   dual.New's PublicQueryFilter), and every such peer is followed. *)
Theorem c15_wan_referrals_public : forall t resp known,
  admits WAN t resp known = true ->
  t = true \/ exists a, In a (resp ++ known) /\ is_relay a = false /\ dht_is_public a = true.
Proof. exact wan_admits_public. Qed.
Print Assumptions c15_wan_referrals_public.

Theorem c15_wan_referrals_complete : forall t resp known a,
  In a (resp ++ known) -> is_relay a = false -> dht_is_public a = true -> admits WAN t resp known = true.
Proof. exact wan_admits_complete. Qed.
Print Assumptions c15_wan_referrals_complete.

(* 6. The WAN DHT never stores an address learned from a DHT message, nor advertises an own
   address, that is not public (manet.IsPublicAddr) ... *)
Theorem c15_wan_never_stores_private : forall t c resp known a,
  In a (stored WAN t c resp known) -> manet_is_public a = true /\ is_ip_loopback a = false.
Proof. exact wan_stored_public_no_loopback. Qed.
Print Assumptions c15_wan_never_stores_private.

Theorem c15_wan_advertises_only_public : forall own a,
  In a (advertised WAN own) -> In a own /\ manet_is_public a = true.
Proof. exact wan_advertised_spec. Qed.
Print Assumptions c15_wan_advertises_only_public.

(* ... and the LAN DHT never advertises (nor stores) a loopback address, while keeping
   every other address. *)
Theorem c15_lan_no_loopback : forall own a,
  (In a (advertised LAN own) -> In a own /\ is_ip_loopback a = false) /\
  (In a own -> is_ip_loopback a = false -> In a (advertised LAN own)) /\
  (forall t c resp known, In a (stored LAN t c resp known) -> is_ip_loopback a = false).
Proof. exact lan_no_loopback_spec. Qed.
Print Assumptions c15_lan_no_loopback.

(* 6b. The same at the three sites that handle provider records (handlers.go
   handleAddProvider / handleGetProviders, routing.go findProvidersAsyncRoutine), for ALL
   messages.  WAN DHT, inbound ADD_PROVIDER: every (peer, address) pair written to the
   peerstore (through ProviderManager.AddProvider) is an address of one of the sender's own
   entries of the message, is public and not loopback, and the key was acceptable and the
   sender is not this node; conversely every public address of an accepted entry (an entry
   of the sender; it has an address, so it passes the length test) is written. *)
Theorem c15_wan_add_provider_stores_public : forall key_ok self sender msg,
  (forall q a, In (q, a) (add_provider_writes WAN key_ok self sender msg) ->
     key_ok = true /\ q = sender /\ q <> self /\
     (exists e, In e msg /\ pe_id e = q /\ In a (pe_addrs e)) /\
     manet_is_public a = true /\ is_ip_loopback a = false) /\
  (forall e a, key_ok = true -> sender <> self -> In e msg -> pe_id e = sender -> In a (pe_addrs e) ->
     manet_is_public a = true -> In (sender, a) (add_provider_writes WAN key_ok self sender msg)).
Proof. exact wan_add_provider_spec. Qed.
Print Assumptions c15_wan_add_provider_stores_public.

(* WAN DHT, GET_PROVIDERS response, for every cut-off [fit] of the size cap: every address
   attached to a provider record is a known address of that provider, public and not
   loopback; when all records fit, every public address of every provider is attached. *)
Theorem c15_wan_get_providers_attaches_public : forall key_ok fit provs,
  (forall r a, In r (get_providers_attached WAN key_ok fit provs) -> In a (pe_addrs r) ->
     (exists e, In e provs /\ pe_id e = pe_id r /\ In a (pe_addrs e)) /\
     manet_is_public a = true /\ is_ip_loopback a = false) /\
  (forall e a, key_ok = true -> (length provs <= fit)%nat -> In e provs -> In a (pe_addrs e) ->
     manet_is_public a = true ->
     exists r, In r (get_providers_attached WAN key_ok fit provs) /\ pe_id r = pe_id e /\ In a (pe_addrs r)).
Proof. exact wan_get_providers_spec. Qed.
Print Assumptions c15_wan_get_providers_attaches_public.

(* WAN DHT, providers named in a GET_PROVIDERS response, for every processed prefix of the
   response(s): every pair written to the peerstore is an address the response gave for
   that peer, public and not loopback, and the peer is neither this node nor connected;
   conversely every public address of a processed entry of such a peer is written. *)
Theorem c15_wan_find_providers_stores_public : forall self connected processed,
  (forall q a, In (q, a) (find_providers_writes WAN self connected processed) ->
     q <> self /\ connected q = false /\
     (exists e, In e processed /\ pe_id e = q /\ In a (pe_addrs e)) /\
     manet_is_public a = true /\ is_ip_loopback a = false) /\
  (forall e a, In e processed -> pe_id e <> self -> connected (pe_id e) = false -> In a (pe_addrs e) ->
     manet_is_public a = true -> In (pe_id e, a) (find_providers_writes WAN self connected processed)).
Proof. exact wan_find_providers_spec. Qed.
Print Assumptions c15_wan_find_providers_stores_public.

(* LAN DHT, the same three sites: nothing loopback is stored or attached, everything else
   of an accepted / attached / processed entry is kept. *)
Theorem c15_lan_provider_sites_no_loopback : forall key_ok self sender msg fit provs connected processed,
  (forall q a, In (q, a) (add_provider_writes LAN key_ok self sender msg) ->
     q = sender /\ (exists e, In e msg /\ pe_id e = q /\ In a (pe_addrs e)) /\ is_ip_loopback a = false) /\
  (forall e a, key_ok = true -> sender <> self -> In e msg -> pe_id e = sender -> In a (pe_addrs e) ->
     is_ip_loopback a = false -> In (sender, a) (add_provider_writes LAN key_ok self sender msg)) /\
  (forall r a, In r (get_providers_attached LAN key_ok fit provs) -> In a (pe_addrs r) ->
     (exists e, In e provs /\ pe_id e = pe_id r /\ In a (pe_addrs e)) /\ is_ip_loopback a = false) /\
  (forall e a, key_ok = true -> (length provs <= fit)%nat -> In e provs -> In a (pe_addrs e) ->
     is_ip_loopback a = false ->
     exists r, In r (get_providers_attached LAN key_ok fit provs) /\ pe_id r = pe_id e /\ In a (pe_addrs r)) /\
  (forall q a, In (q, a) (find_providers_writes LAN self connected processed) ->
     (exists e, In e processed /\ pe_id e = q /\ In a (pe_addrs e)) /\ is_ip_loopback a = false) /\
  (forall e a, In e processed -> pe_id e <> self -> connected (pe_id e) = false -> In a (pe_addrs e) ->
     is_ip_loopback a = false -> In (pe_id e, a) (find_providers_writes LAN self connected processed)).
Proof. exact lan_provider_sites_spec. Qed.
Print Assumptions c15_lan_provider_sites_no_loopback.

(* An announcement all of whose addresses the filter removes is still recorded (the length
   test comes before the filter: handlers.go:259-267) but nothing is written for it. *)
Theorem c15_add_provider_all_filtered : forall s self sender e,
  pe_id e = sender -> pe_addrs e <> [] -> addr_filter s (pe_addrs e) = [] ->
  add_provider_writes s true self sender [e] = [] /\ add_provider_recorded s true sender [e] = [sender] /\
  add_provider_err s true sender [e] = false.
Proof. exact add_provider_all_filtered. Qed.
Print Assumptions c15_add_provider_all_filtered.

(* 7. The classes themselves: public and private are disjoint; loopback is private and
   public under neither notion; a public IPv4 address lies in none of the private or
   unroutable networks; a public IPv6 address is one with top bits 001 (2000::/3). *)
Theorem c15_public_private_disjoint : forall a, dht_is_public a = true -> dht_is_private a = false.
Proof. exact dht_public_private_disjoint. Qed.
Print Assumptions c15_public_private_disjoint.

Theorem c15_loopback_not_public : forall a, is_ip_loopback a = true ->
  dht_is_public a = false /\ manet_is_public a = false /\ dht_is_private a = true.
Proof. exact loopback_not_public. Qed.
Print Assumptions c15_loopback_not_public.

Theorem c15_public4_outside_tables : forall a x, to_ip (a_head a) = Some (G4 x) -> dht_is_public a = true ->
  forall c, In c (private4 ++ unroutable4) -> in_cidr 32 x c = false.
Proof. exact dht_public4_outside. Qed.
Print Assumptions c15_public4_outside_tables.

Theorem c15_public6_top_bits : forall a x, to_ip (a_head a) = Some (G6 x) ->
  dht_is_public a = N.eqb (N.shiftr x 125) 1.
Proof. exact dht_public6_top_bits. Qed.
Print Assumptions c15_public6_top_bits.

(* PublicRoutingTableFilter: a peer enters the WAN routing table only with a connection
   and a known public non-relay address. *)
Theorem c15_public_rt_filter : forall n known,
  public_rt_filter n known = true <-> n <> O /\ exists a, In a known /\ is_relay a = false /\ dht_is_public a = true.
Proof. exact public_rt_filter_spec. Qed.
Print Assumptions c15_public_rt_filter.

(* Non-vacuity: a referred peer with a private, a loopback, a relayed public and a direct
   public address is admitted to a WAN lookup; the WAN DHT stores the two addresses whose
   head is public (the relayed one included: manet.IsPublicAddr looks at the first
   component), the LAN DHT stores everything but the loopback address; a peer with only
   the first three addresses is not admitted.  And a provider merge with both streams
   overlapping, capped at 3. *)
Local Open Scope N_scope.
Definition ex_priv : maddr := {| a_id := 0; a_zone := false; a_head := HIp4 (ip4 192 168 1 7); a_relay := false |}.
Definition ex_loop : maddr := {| a_id := 1; a_zone := false; a_head := HIp4 (ip4 127 0 0 1); a_relay := false |}.
Definition ex_rel : maddr := {| a_id := 2; a_zone := false; a_head := HIp4 (ip4 8 8 8 8); a_relay := true |}.
Definition ex_pub : maddr := {| a_id := 3; a_zone := false; a_head := HIp6 (ip6 0x2a00 0x1450 0 0 0 0 0 0x200e); a_relay := false |}.
Example c15_nonvacuous :
  admits WAN false [ex_priv; ex_loop; ex_rel; ex_pub] [] = true /\
  admits WAN false [ex_priv; ex_loop; ex_rel] [] = false /\
  map a_id (stored WAN false false [ex_priv; ex_loop; ex_rel; ex_pub] []) = [2%nat; 3%nat] /\
  map a_id (stored LAN false false [ex_priv; ex_loop; ex_rel; ex_pub] []) = [0%nat; 2%nat; 3%nat] /\
  write_target 2 = WAN /\ write_target 0 = LAN /\
  prov_merge 3 [AProv WAN 5; AProv LAN 5; AProv LAN 6; AClosed WAN; AProv LAN 7; AProv LAN 8; AClosed LAN] = [5%nat; 6%nat; 7%nat] /\
  wf true true [AProv WAN 5; AProv LAN 5; AProv LAN 6; AClosed WAN; AProv LAN 7; AProv LAN 8; AClosed LAN].
Proof. repeat split; vm_compute; reflexivity. Qed.

(* Non-vacuity of 6b: peer 1 announces the four addresses above (and peer 2's entry rides
   along): the WAN DHT writes the two public ones under peer 1, the LAN DHT all but the
   loopback one, peer 2's entry is ignored; an announcement with only the private and the
   loopback address is recorded by the WAN DHT without any address; a GET_PROVIDERS
   response of the WAN DHT attaches peers 1 and 2 with the public addresses only; a
   provider search stores nothing for this node (0) or a connected peer (3). *)
Example c15_provider_sites_nonvacuous :
  let all := [ex_priv; ex_loop; ex_rel; ex_pub] in
  let msg := [PE_ 1 all; PE_ 2 [ex_pub]; PE_ 1 []] in
  map (fun qa => (fst qa, a_id (snd qa))) (add_provider_writes WAN true 0 1 msg) = [(1, 2); (1, 3)]%nat /\
  map (fun qa => (fst qa, a_id (snd qa))) (add_provider_writes LAN true 0 1 msg) = [(1, 0); (1, 2); (1, 3)]%nat /\
  add_provider_recorded WAN true 1 msg = [1%nat] /\ add_provider_err WAN true 1 msg = false /\
  add_provider_writes WAN true 0 1 [PE_ 1 [ex_priv; ex_loop]] = [] /\
  add_provider_recorded WAN true 1 [PE_ 1 [ex_priv; ex_loop]] = [1%nat] /\
  add_provider_err WAN true 1 [PE_ 2 [ex_pub]] = true /\ add_provider_writes WAN false 0 1 msg = [] /\
  map (fun r => (pe_id r, map a_id (pe_addrs r))) (get_providers_attached WAN true 2 [PE_ 1 all; PE_ 2 [ex_priv]])
    = [(1, [2; 3]); (2, [])]%nat /\
  map (fun qa => (fst qa, a_id (snd qa)))
      (find_providers_writes WAN 0 (fun q => Nat.eqb q 3) [PE_ 0 all; PE_ 3 all; PE_ 4 all; PE_ 4 [ex_priv]])
    = [(4, 2); (4, 3)]%nat.
Proof. repeat split; vm_compute; reflexivity. Qed.
